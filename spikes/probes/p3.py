import traceback, copy, itertools
from simplicial import *
def t(name, f):
    try:
        r = f()
        print(f"[{name}] ->", r)
    except Exception as e:
        print(f"[{name}] RAISED {type(e).__name__}: {e}")
def tri():
    c = SimplicialComplex()
    for p in 'abc': c.addSimplex(id=p)
    c.addSimplex(id='ab', fs=['a','b']); c.addSimplex(id='bc', fs=['b','c']); c.addSimplex(id='ac', fs=['a','c'])
    return c
def tri2():
    c = tri(); c.addSimplex(id='abc', fs=['ab','bc','ac']); return c
# C04 disjoint
t('disjoint2', lambda: tri().disjoint(['a','b']))
t('disjoint3', lambda: tri().disjoint(['a','b','c']))
t('disjoint3 overlapping', lambda: tri().disjoint(['a','b','ab']))
t('disjoint1', lambda: tri().disjoint(['a']))
t('disjoint0', lambda: tri().disjoint([]))
t('disjoint same', lambda: tri().disjoint(['a','a']))
t('closureOf', lambda: tri2().closureOf('abc'))
t('closureOf rev excl', lambda: tri2().closureOf('abc', reverse=True, exclude_self=True))
t('closureOf pt excl', lambda: tri2().closureOf('a', exclude_self=True))
t('partOf', lambda: tri2().partOf('a'))
t('partOf rev', lambda: tri2().partOf('a', reverse=True, exclude_self=True))
t('swb', lambda: (tri2().simplexWithBasis(['a','b','c']), tri2().simplexWithBasis(['a','b']), tri2().simplexWithBasis(['a']), tri2().simplexWithBasis(['a','zz']), tri2().simplexWithBasis([]), tri().simplexWithBasis(['a','b','c'])))
t('swb dup', lambda: (tri2().simplexWithBasis(['a','a']), tri2().simplexWithBasis(['a','b','b']), tri2().simplexWithBasis(['a','a','b','c'])))
t('swf', lambda: (tri2().simplexWithFaces(['ab','bc','ac']), tri2().simplexWithFaces(['a','b']), tri().simplexWithFaces(['ab','bc','ac'])))
t('swf bad', lambda: tri2().simplexWithFaces(['a','zz']))
t('swf bad2', lambda: tri2().simplexWithFaces(['a']))
t('swf bad3', lambda: tri2().simplexWithFaces(['a', 'ab']))
t('swf 4 edges', lambda: tri2().simplexWithFaces(['ab','bc','ac','ab']))
# C07 Z
def edge():
    c = SimplicialComplex(); c.addSimplex(id='a'); c.addSimplex(id='b'); c.addSimplex(id='ab', fs=['a','b']); return c
t('Z edge', lambda: edge().Z())
t('Z tri', lambda: tri().Z())
t('Z tri2', lambda: tri2().Z())
t('Z tri2 ks', lambda: tri2().Z([0,1,2,3]))
t('snf', lambda: [tri2().smithNormalForm(k).tolist() for k in range(4)])
t('betti', lambda: (tri().bettiNumbers(), tri2().bettiNumbers(), tri2().bettiNumbers([0,1,2,3,5]), SimplicialComplex().bettiNumbers()))
t('betti empty ks', lambda: SimplicialComplex().bettiNumbers([0,1]))
t('euler empty', lambda: SimplicialComplex().eulerCharacteristic())
t('bop empty', lambda: SimplicialComplex().boundaryOperator(0))
# C08 flagComplex aliasing
def flagalias():
    c = tri(); f = c.flagComplex(); return c.simplices(), f.simplices(), c._rep is f._rep, f._rep._complex is c
t('flagalias', flagalias)
# C09 compose attr aliasing
def composealias():
    a = tri(); b = SimplicialComplex(); b.addSimplex(id='z', attr={'k':1}); d = a.compose(b); d['z']['k'] = 2; return b['z']
t('composealias', composealias)
def copyattr():
    a = tri(); a['a']['x']=[1]; b = a.copy(); b['a']['x'].append(2); return a['a']  # shallow copy of attr
t('copy attr shallow nested', copyattr)
def deepc():
    a = tri(); b = copy.deepcopy(a); b.addSimplex(id='q'); return a.simplices(), b.simplices(), b._rep._complex is b
t('deepcopy', deepc)
# C10
def c10():
    a = SimplicialComplex(); a.addSimplex(id=1); a.addSimplex(id=2)
    b = SimplicialComplex(); b.addSimplex(id=3); b.addSimplex(id=4)
    return a==b, a<=b, edge() == (lambda c:(c.addSimplex(id='x'),c.addSimplex(id='y'),c.addSimplex(id='z'),c)[-1])(SimplicialComplex())
t('c10', c10)
# C11 flag of hollow tetra
def hollow():
    c = k_void(2); f = c.copy().flagComplex(); return c.numberOfSimplicesOfOrder(), f.numberOfSimplicesOfOrder()
t('hollow', hollow)
# C18
t('ring', lambda: ring(5).numberOfSimplicesOfOrder())
def kvoid_in():
    c = k_simplex(2, id='T'); n0 = c.numberOfSimplicesOfOrder(); k_void(1, c); return n0, c.numberOfSimplicesOfOrder(), 'T' in c
t('kvoid_in', kvoid_in)
t('k_simplex', lambda: [k_simplex(k).numberOfSimplicesOfOrder() for k in range(5)])
t('k_void', lambda: [k_void(k).numberOfSimplicesOfOrder() for k in range(4)])
t('k_skel', lambda: [k_skeleton(k).numberOfSimplicesOfOrder() for k in range(4)])
t('lattice', lambda: [(r,c,TriangularLattice(r,c).numberOfSimplicesOfOrder(), TriangularLattice(r,c).eulerCharacteristic()) for r in range(1,5) for c in range(1,4)])
# C19
def integ():
    c = SimplicialComplex(); c.addSimplex(id='a', attr={'h':1}); c.addSimplex(id='b', attr={'h':2})
    return EulerIntegrator('h').integrate(c)
t('integ', integ)
def integ2():
    c = SimplicialComplex(); c.addSimplex(id='a', attr={'h':0}); c.addSimplex(id='b', attr={'h':0})
    return EulerIntegrator('h').integrate(c)
t('integ zero heights', integ2)
t('integ empty', lambda: EulerIntegrator('h').integrate(SimplicialComplex()))
def integ3():
    c = SimplicialComplex(); c.addSimplex(id='a'); c.addSimplex(id='b', attr={'h':2})
    return EulerIntegrator('h', default_value=3).integrate(c)
t('integ default', integ3)
# C20
def emb():
    c = tri(); e = Embedding(c); return len(e)
t('emb len', emb)
def emb2():
    c = tri2(); e = Embedding(c, 3); e['a']=[1,2,3]; r=[e['a'], e.positionOf('b'), 'a' in e, 'ab' in e, 'zz' in e, e.positionsOf()]; 
    try: e.positionOf('ab')
    except Exception as ex: r.append(type(ex).__name__)
    try: e['a']=[1,2]
    except Exception as ex: r.append(type(ex).__name__)
    try: e.positionOf('zz')
    except Exception as ex: r.append(type(ex).__name__)
    return r
t('emb2', emb2)
