import traceback, copy
from simplicial import *
def snap(c):
    r = c._rep
    return (c.maxOrder(), list(c.simplices()), {s:(c.orderOf(s), frozenset(c.faces(s)), frozenset(c.basisOf(s)), dict(c[s])) for s in c.simplices()}, r._sequence, len(r._indices), [b.shape for b in r._boundaries], [b.shape for b in r._bases])
def t(name, f):
    try:
        r = f()
        print(f"[{name}] ->", r)
    except Exception as e:
        print(f"[{name}] RAISED {type(e).__name__}: {e}")
def rej(name, mk, call):
    c = mk()
    before = snap(c)
    try:
        call(c)
        print(f"[{name}] NO RAISE")
    except Exception as e:
        after = snap(c)
        print(f"[{name}] raised {type(e).__name__}: {e} | unchanged={before==after}")
        if before!=after:
            print("   before", before); print("   after ", after)

def tri():
    c = SimplicialComplex()
    for p in 'abc': c.addSimplex(id=p)
    c.addSimplex(id='ab', fs=['a','b']); c.addSimplex(id='bc', fs=['b','c']); c.addSimplex(id='ac', fs=['a','c'])
    return c
def tri2():
    c = tri(); c.addSimplex(id='abc', fs=['ab','bc','ac']); return c

rej('dup name point', tri, lambda c: c.addSimplex(id='a'))
rej('dup name edge', tri, lambda c: c.addSimplex(id='ab', fs=['a','c']))
rej('unknown face', tri, lambda c: c.addSimplex(fs=['a','z']))
rej('unknown face named', tri, lambda c: c.addSimplex(id='q', fs=['a','z']))
rej('repeated face', tri, lambda c: c.addSimplex(id='q', fs=['a','a']))
rej('wrong order faces', tri, lambda c: c.addSimplex(id='q', fs=['ab','a','b']))
rej('wrong order faces2', tri, lambda c: c.addSimplex(id='q', fs=['ab','c']))
rej('one face', tri, lambda c: c.addSimplex(id='q', fs=['ab']))
rej('too high order', tri, lambda c: c.addSimplex(id='q', fs=['ab','bc','ac','a']))
rej('too high order unknown', tri, lambda c: c.addSimplex(id='q', fs=['w','x','y','z']))
rej('existing faces', tri, lambda c: c.addSimplex(id='q', fs=['a','b']))
rej('existing faces top', tri2, lambda c: c.addSimplex(id='q', fs=['ab','bc','ac']))
rej('existing basis', tri, lambda c: c.addSimplexWithBasis(['a','b'], id='q'))
rej('existing basis auto', tri, lambda c: c.addSimplexWithBasis(['a','b']))
rej('nonpoint in basis', tri, lambda c: c.addSimplexWithBasis(['a','ab'], id='q'))
rej('nonpoint in basis w/ new', tri, lambda c: c.addSimplexWithBasis(['new','ab'], id='q'))
rej('dupname withbasis', tri, lambda c: c.addSimplexWithBasis(['a','b','c'], id='ab'))
rej('dupname withbasis newpts', tri, lambda c: c.addSimplexWithBasis(['x','y'], id='ab'))
rej('relabel onto used', tri, lambda c: c.relabelSimplex('a','b'))
rej('relabel dict onto used', tri, lambda c: c.relabel({'a':'x','b':'c'}))
rej('relabel unknown', tri, lambda c: c.relabelSimplex('zz','q'))
rej('copy overlap', tri, lambda c: tri().copy(c))
rej('delete unknown', tri, lambda c: c.deleteSimplex('zz'))
rej('subdivide unknown', tri, lambda c: c.barycentricSubdivide('zz'))
rej('subdivide point', tri, lambda c: c.barycentricSubdivide('a'))
rej('restrict unknown', tri, lambda c: c.restrictBasisTo(['a','zz']))
rej('restrict nonpoint', tri, lambda c: c.restrictBasisTo(['a','ab']))
rej('addSimplicesFrom overlap', tri, lambda c: c.addSimplicesFrom(tri()))
def other():
    c = SimplicialComplex(); c.addSimplex(id='x'); c.addSimplex(id='a'); return c
rej('addSimplicesFrom partial overlap', tri, lambda c: c.addSimplicesFrom(other()))
rej('addSimplicesFrom rename collision', tri, lambda c: c.addSimplicesFrom(other(), rename={'x':'b','a':'y'}))
rej('deleteSimplexWithBasis none', tri, lambda c: c.deleteSimplexWithBasis(['a','zz']))
rej('deleteSimplexWithBasis none2', tri2, lambda c: (c.deleteSimplex('ab'), snap(c), c.deleteSimplexWithBasis(['a','b'])))
rej('face twice different ways mixed orders', tri2, lambda c: c.addSimplex(id='q', fs=['abc','ab','a']))
rej('empty-complex edge', SimplicialComplex, lambda c: c.addSimplex(id='q', fs=['a','b']))
rej('empty-complex tri', SimplicialComplex, lambda c: c.addSimplex(id='q', fs=['a','b','c']))
rej('bad facets (not a simplex) 3 edges path', lambda: (lambda c:(c.addSimplex(id='d'), c.addSimplex(id='cd',fs=['c','d']), c)[-1])(tri()), lambda c: c.addSimplex(id='q', fs=['ab','bc','cd']))
