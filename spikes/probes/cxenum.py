import itertools
def all_complexes(n):
    """all abstract simplicial complexes on subsets of range(n), as frozensets of frozensets (nonempty faces)"""
    pts = list(range(n))
    subsets = [frozenset(s) for r in range(1, n+1) for s in itertools.combinations(pts, r)]
    # generate via antichains of maximal faces: brute force over downsets using recursion
    res = set()
    def closure(maxs):
        out = set()
        for m in maxs:
            for r in range(1, len(m)+1):
                for s in itertools.combinations(sorted(m), r):
                    out.add(frozenset(s))
        return frozenset(out)
    # BFS: start from empty, add one simplex whose all facets present
    seen = {frozenset()}
    frontier = [frozenset()]
    while frontier:
        nxt = []
        for c in frontier:
            for s in subsets:
                if s in c: continue
                if len(s) == 1 or all(frozenset(f) in c for f in itertools.combinations(sorted(s), len(s)-1)):
                    d = frozenset(c | {s})
                    if d not in seen:
                        seen.add(d); nxt.append(d)
        frontier = nxt
    return sorted(seen, key=lambda c: (len(c), sorted(map(sorted, c))))
if __name__ == '__main__':
    for n in range(5): print(n, len(all_complexes(n)))
