import sys, itertools, copy, collections, random, math
from math import comb
import fixes
from simplicial import *
import simplicial.generators as G
problems = collections.Counter(); examples = {}
def prob(kind, ex):
    problems[kind] += 1; examples.setdefault(kind, ex)
# planned generator fixes
def ring(n, c=None):
    if n <= 2: raise ValueError()
    if c is None: c = SimplicialComplex()
    ss = [c.addSimplex() for i in range(n)]
    for i in range(n - 1): c.addSimplex(fs=[ss[i], ss[i + 1]])
    c.addSimplex(fs=[ss[n - 1], ss[0]])
    return c
def k_void(k, c=None):
    if c is None: c = SimplicialComplex()
    bs = [c.addSimplex() for i in range(k + 2)]
    top = c.addSimplexWithBasis(bs)
    c.deleteSimplex(top)
    return c
def obs(c): return {s:(c.orderOf(s), frozenset(c.faces(s)), frozenset(c.basisOf(s)), dict(c[s])) for s in c.simplices()}
def target():
    c = SimplicialComplex(); c.addSimplex(id='0d0', attr={'u':1}); c.addSimplex(id='0d2'); c.addSimplex(id='1d0', fs=['0d0','0d2']); c.addSimplex(id=7); c.addSimplexWithBasis(['0d0','0d2',7], id='2d1'); return c
for tgt in (False, True):
    for k in range(0, 6):
        for name, gen, counts, betti in [
            ('k_simplex', lambda c: k_simplex(k, id='TOP', attr={'a':k}, c=c), [comb(k+1, j+1) for j in range(k+1)], [1]+[0]*k),
            ('k_void', lambda c: k_void(k, c), [comb(k+2, j+1) for j in range(k+1)], ([2] if k==0 else [1]+[0]*(k-1)+[1])),
            ('k_skeleton', lambda c: k_skeleton(k, c), ([k+1, comb(k+1,2)] if k>=1 else [1]), None)]:
            c = target() if tgt else None
            before = obs(c) if tgt else {}
            n0 = c.numberOfSimplicesOfOrder() if tgt else []
            b0 = dict(c.bettiNumbers()) if tgt else {}
            try:
                d = gen(c)
                if tgt and d is not c: prob(name+'-notsame', ())
                n1 = d.numberOfSimplicesOfOrder()
                diff = [n1[j] - (n0[j] if j < len(n0) else 0) for j in range(len(n1))]
                while diff and diff[-1]==0: diff.pop()
                if diff != counts: prob(name+'-counts', (tgt, k, diff, counts))
                after = obs(d)
                for s, v in before.items():
                    if after.get(s) != v: prob(name+'-frame', (k, s))
                if betti is not None and not tgt:
                    if [d.bettiNumbers()[j] for j in range(len(betti))] != betti: prob(name+'-betti', (k, dict(d.bettiNumbers()), betti))
                if name == 'k_simplex' and (('TOP' not in d) or d['TOP'] != {'a':k} or d.orderOf('TOP') != k): prob('k_simplex-top', (k,))
            except Exception as e: prob(name+'-raise', (tgt, k, repr(e)))
    for n in range(3, 13):
        c = target() if tgt else None
        before = obs(c) if tgt else {}
        n0 = c.numberOfSimplicesOfOrder() if tgt else [0,0]
        d = ring(n, c); n1 = d.numberOfSimplicesOfOrder()
        if [n1[0]-n0[0], n1[1]-n0[1]] != [n, n]: prob('ring-counts', (n, n1))
        for s, v in before.items():
            if obs(d).get(s) != v: prob('ring-frame', (n, s))
        if not tgt and dict(d.bettiNumbers()) != {0:1, 1:1}: prob('ring-betti', (n,))
for r in range(1, 7):
    for cc in range(1, 7):
        try:
            L = TriangularLattice(r, cc)
            if len(L.simplicesOfOrder(0)) != r*cc: prob('lattice-points', (r,cc))
            if r >= 2:
                if L.eulerCharacteristic() != 1: prob('lattice-euler', (r, cc, L.eulerCharacteristic()))
                b = dict(L.bettiNumbers()); b = [b.get(i,0) for i in range(3)]
                if b != [1,0,0]: prob('lattice-betti', (r, cc, b))
            E = TriangularLatticeEmbedding(L, 2.0, 3.0)
            pos = E.positionsOf()
            if len({tuple(p) for p in pos.values()}) != r*cc: prob('lattice-distinct', (r,cc))
            for p in pos.values():
                if not (0 <= p[0] <= 3.0 and 0 <= p[1] <= 2.0): prob('lattice-box', (r, cc, p))
        except Exception as e: prob('lattice-raise', (r, cc, repr(e)))
# C20 embedding protocol
c = target(); e = Embedding(c, 3)
calls = []
class E2(Embedding):
    def computePositionOf(self, s): calls.append(s); return [1.0]*self.dimension()
e = E2(c, 3)
p1 = e['0d0']; p2 = e['0d0']
if calls != ['0d0']: prob('emb-cache', (calls,))
e['0d0'] = [9,9,9]
if e['0d0'] != [9,9,9]: prob('emb-assign', ())
e.clearPositions()
if e['0d0'] != [1.0,1.0,1.0]: prob('emb-clear', ())
try: len(e)
except TypeError: prob('emb-len(D20)', ())
if set(e.positionsOf()) != {'0d0','0d2',7}: prob('emb-positionsOf', ())
e[7] = [0,0,0]
e['zz'] = [0,0,0]   # assigning a position to a non-point is accepted
try:
    e['1d0'] = [0,0,0]; r = e.positionsOf(); 
except Exception as ex: prob('emb-assign-nonpoint-raises', (repr(ex),))
print(dict(problems))
for k, v in examples.items(): print(k, '::', str(v)[:300])
