import sys
sys.path.insert(0, sys.argv[1])
from simplicial import *
c = SimplicialComplex()
try:
    print(c.addSimplexWithBasis(['1d0', 'x']), c.simplices())
except Exception as e:
    print('RAISED', type(e).__name__, e, c.simplices())
