import sys
sys.path.insert(0, sys.argv[1])
from simplicial import *
for nm in ['0d1', '1d4', '2d0', '0d7']:
    try:
        c = k_simplex(2, id=nm); print(nm, 'ok', c.simplices())
    except Exception as e:
        print(nm, 'RAISED', type(e).__name__, e)
c = SimplicialComplex(); c.addSimplex(id='a'); c.addSimplex(id='b')
try: print(c.barycentricSubdivide(c.addSimplexWithBasis(['a','b'], id='0d0')), c.simplices())
except Exception as e: print('subdiv RAISED', type(e).__name__, e, c.simplices())
