import sys
sys.path.insert(0, sys.argv[1])
from simplicial import *
c = SimplicialComplex()
for p in 'abc': c.addSimplex(id=p)
try:
    print(c.addSimplexWithBasis(['a','b','c'], id='1d0'))
except Exception as e:
    print('RAISED', type(e).__name__, e)
print(c.simplices())
c2 = SimplicialComplex()
try:
    print(k_simplex(2, id='1d1').simplices())
except Exception as e:
    print('RAISED', type(e).__name__, e)
