import sys, itertools, copy, collections, json
import fixes
from simplicial import *
from simplicial.eulerintegrator import EulerIntegrator
from cxenum import all_complexes
from brute1_lib import nm, build, famof, named

problems = collections.Counter(); examples = {}
def prob(kind, ex):
    problems[kind] += 1; examples.setdefault(kind, ex)

# patched integrator
def __init__(self, a=None, default_value=0):
    self._attribute = a; self._defaultValue = default_value
def integrate(self, c):
    levelSet = copy.deepcopy(c)
    maxHeight = max([self.metric(levelSet, s) for s in levelSet.simplices()], default=0)
    a = 0
    for l in range(maxHeight):
        levelSet = self.levelSet(levelSet, l)
        a += levelSet.eulerCharacteristic()
    return a
EulerIntegrator.__init__ = __init__; EulerIntegrator.integrate = integrate

N = int(sys.argv[1]) if len(sys.argv) > 1 else 4
fams = all_complexes(N)
cs = [build(f) for f in fams]
print('complexes', len(fams))
# C10 all pairs
for (fa, a), (fb, b) in itertools.product(zip(fams, cs), repeat=2):
    le = fa <= fb
    res = dict(le=a <= b, lt=a < b, ge=a >= b, gt=a > b, eq=a == b, ne=a != b)
    want = dict(le=le, lt=fa < fb, ge=fb <= fa, gt=fb < fa, eq=fa == fb, ne=fa != fb)
    if res != want: prob('cmp', (sorted(map(sorted,fa)), sorted(map(sorted,fb)), res, want))
# C16 all pairs (names tied to bases => always compatible)
for (fa, a), (fb, b) in itertools.product(zip(fams, cs), repeat=2):
    sa = named(a); sb = named(b)
    try:
        d = a.compose(b)
        if named(d) != {**sa, **sb}: prob('compose-union', (sorted(map(sorted,fa)), sorted(map(sorted,fb))))
        for s in d.simplices():
            wf = b.faces(s) if s in b else a.faces(s)
            if d.faces(s) != wf: prob('compose-faces', (s,))
        if named(a) != sa or named(b) != sb: prob('compose-mutates', ())
    except Exception as e: prob('compose-raise', (sorted(map(sorted,fa)), sorted(map(sorted,fb)), repr(e)))
# C19 : all complexes <= N points x heights 0..3
HN = 3 if N >= 4 else 4
for fam, c0 in zip(fams, cs):
    pts = sorted(next(iter(s)) for s in fam if len(s)==1)
    for hs in itertools.product(range(HN), repeat=len(pts)):
        c = copy.deepcopy(c0)
        h = dict(zip(pts, hs))
        for p in pts: c[p]['h'] = h[p]
        before = named(c)
        try:
            got = EulerIntegrator('h').integrate(c)
            want = sum((-1)**(len(s)-1) * min(h[p] for p in s) for s in fam)
            if got != want: prob('integrate', (sorted(map(sorted,fam)), hs, got, want))
            if named(c) != before: prob('integrate-mutates', ())
        except Exception as e: prob('integrate-raise', (sorted(map(sorted,fam)), hs, repr(e)))
print(dict(problems))
for k, v in examples.items(): print(k, '::', v)
