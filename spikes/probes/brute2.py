import sys, itertools, copy, collections, json
import fixes
from simplicial import *
import simplicial.file as sf
from cxenum import all_complexes
from brute1_lib import nm, build, famof, named

problems = collections.Counter(); examples = {}
def prob(kind, ex):
    problems[kind] += 1; examples.setdefault(kind, ex)

def gf2rank(rows):  # rows: list of int bitmasks
    rows = list(rows); r = 0
    for bit in range(64):
        piv = None
        for i in range(r, len(rows)):
            if rows[i] >> bit & 1: piv = i; break
        if piv is None: continue
        rows[r], rows[piv] = rows[piv], rows[r]
        for i in range(len(rows)):
            if i != r and rows[i] >> bit & 1: rows[i] ^= rows[r]
        r += 1
    return r
def betti_oracle(fam):
    byk = collections.defaultdict(list)
    for s in fam: byk[len(s)-1].append(s)
    mo = max(byk) if byk else -1
    rk = {}
    for k in range(1, mo+1):
        idx = {s:i for i,s in enumerate(byk[k-1])}
        cols = []
        for s in byk[k]:
            m = 0
            for f in itertools.combinations(sorted(s), k): m |= 1 << idx[frozenset(f)]
            cols.append(m)
        rk[k] = gf2rank(cols)
    rk[0] = 0; rk[mo+1] = 0
    return {k: len(byk[k]) - rk[k] - rk[k+1] for k in range(mo+1)}
def components(fam):
    pts = {next(iter(s)) for s in fam if len(s)==1}; parent = {p:p for p in pts}
    def find(x):
        while parent[x]!=x: x = parent[x]
        return x
    for s in fam:
        if len(s)==2:
            a,b = s; parent[find(a)] = find(b)
    return len({find(p) for p in pts})

N = int(sys.argv[1]) if len(sys.argv) > 1 else 4
fams = all_complexes(N)
print('complexes', len(fams))
for fam in fams:
    c = build(fam)
    # C06
    b = c.bettiNumbers(); want = betti_oracle(fam)
    if dict(b) != want: prob('betti', (sorted(map(sorted,fam)), dict(b), want))
    if fam and b[0] != components(fam): prob('betti0', (sorted(map(sorted,fam)),))
    if sum((-1)**k * v for k, v in b.items()) != c.eulerCharacteristic(): prob('euler-poincare', (sorted(map(sorted,fam)),))
    try:
        hi = c.bettiNumbers([c.maxOrder()+1, c.maxOrder()+3])
        if any(v != 0 for v in hi.values()): prob('betti-high', (hi,))
    except Exception as e: prob('betti-high-raise', (sorted(map(sorted,fam)), repr(e)))
    # C07
    for k in range(0, c.maxOrder()+2):
        try:
            S = c.smithNormalForm(k); B = c.boundaryOperator(k)
            if S.shape != B.shape: prob('snf-shape', (k,))
            r = 0
            ok = True
            for i in range(S.shape[0]):
                for j in range(S.shape[1]):
                    if i != j and S[i,j] != 0: ok = False
            d = [S[i,i] for i in range(min(S.shape))]
            if not ok or any(d[i] == 0 and d[i+1] != 0 for i in range(len(d)-1)) or any(x not in (0,1) for x in d): prob('snf-form', (sorted(map(sorted,fam)), k))
        except Exception as e: prob('snf-raise', (sorted(map(sorted,fam)), k, repr(e)))
    try:
        z = c.Z(list(range(0, c.maxOrder()+2)))
        for k, chains in z.items():
            nk = len(c.simplicesOfOrder(k))
            # nullity
            if k == 0: null = nk
            elif k > c.maxOrder(): null = 0
            else:
                idx = {s:i for i,s in enumerate(c.simplicesOfOrder(k-1))}
                cols = [sum(1 << idx[f] for f in c.faces(s)) for s in c.simplicesOfOrder(k)]
                null = nk - gf2rank(cols)
            if len(chains) != null: prob('Z-count', (sorted(map(sorted,fam)), k, chains, null))
            vecs = []
            for ch in chains:
                if any(c.orderOf(s) != k for s in ch): prob('Z-order', (k, ch))
                if k > 0 and c.boundary(ch) != set(): prob('Z-boundary', (k, ch))
                idx = {s:i for i,s in enumerate(c.simplicesOfOrder(k))}
                m = 0
                for s in ch: m ^= 1 << idx[s]
                vecs.append(m)
            if gf2rank(vecs) != len(vecs): prob('Z-indep', (sorted(map(sorted,fam)), k, chains))
    except Exception as e: prob('Z-raise', (sorted(map(sorted,fam)), repr(e)))
    # C11
    try:
        f = c.flagComplex()
        edges = {s for s in fam if len(s)==2}; pts = {s for s in fam if len(s)==1}
        want = set(pts) | edges
        P = sorted(next(iter(p)) for p in pts)
        for r in range(3, len(P)+1):
            for q in itertools.combinations(P, r):
                if all(frozenset(e) in edges for e in itertools.combinations(q, 2)): want.add(frozenset(q))
        if famof(f) != frozenset(want): prob('flag', (sorted(map(sorted,fam)), sorted(map(sorted, famof(f)))))
        if not (c <= f): prob('flag-sub', (sorted(map(sorted,fam)),))
        for s in c.simplices():
            if f[s] != c[s]: prob('flag-attr', (s,))
        if famof(c) != fam: prob('flag-mutates', ())
        g = f.flagComplex()
        if famof(g) != famof(f): prob('flag-idem', ())
    except Exception as e: prob('flag-raise', (sorted(map(sorted,fam)), repr(e)))
    # C17
    try:
        d = json.loads(sf.as_json(c), object_hook=sf.as_simplicial_complex)
        if d.simplices() != c.simplices() or [type(x) for x in d.simplices()] != [type(x) for x in c.simplices()]: prob('json-names', ())
        for s in c.simplices():
            if d.faces(s) != c.faces(s) or d[s] != c[s] or d.orderOf(s) != c.orderOf(s): prob('json-struct', (s,))
    except Exception as e: prob('json-raise', (sorted(map(sorted,fam)), repr(e)))
print(dict(problems))
for k, v in examples.items(): print(k, '::', v)
