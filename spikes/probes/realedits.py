import sys, itertools, copy
sys.path.insert(0, '/var/tmp/simplicial-scratch')
from simplicial import *
import simplicial
assert 'scratch' in simplicial.__file__
from math import comb
bad = []
# generators
for n in range(3, 13):
    c = ring(n)
    if c.numberOfSimplicesOfOrder() != [n, n] or dict(c.bettiNumbers()) != {0:1,1:1}: bad.append(('ring', n))
for k in range(0, 5):
    c = k_void(k)
    if c.numberOfSimplicesOfOrder() != [comb(k+2, j+1) for j in range(k+1)]: bad.append(('k_void', k, c.numberOfSimplicesOfOrder()))
c = k_simplex(2, id='T'); k_void(1, c)
if 'T' not in c or c.numberOfSimplicesOfOrder() != [6, 6, 1]: bad.append(('k_void target', c.numberOfSimplicesOfOrder()))
# integrator
c = SimplicialComplex(); c.addSimplex(id='a', attr={'h':1}); c.addSimplex(id='b', attr={'h':2}); c.addSimplex(id='ab', fs=['a','b'])
if EulerIntegrator('h').integrate(c) != 1+2-1: bad.append(('integ', EulerIntegrator('h').integrate(c)))
c2 = SimplicialComplex(); c2.addSimplex(id='a'); c2.addSimplex(id='b', attr={'h':2})
if EulerIntegrator('h', default_value=3).integrate(c2) != 5: bad.append(('integ default', EulerIntegrator('h', default_value=3).integrate(c2)))
if EulerIntegrator('h').integrate(SimplicialComplex()) != 0: bad.append(('integ empty',))
# embedding
if len(Embedding(c)) != 2: bad.append(('emb len',))
# filtration
f = Filtration(); f.addSimplex(id='a'); f.addSimplex(id='b'); f.setIndex(0.5); f.addSimplex(id='ab', fs=['a','b']); f.setIndex(3); f.addSimplex(id='c')
f.setMinimumIndex(); r = [f.getIndex(), f.setNextIndex(), f.setNextIndex(), f.setNextIndex(), f.setPreviousIndex(), f.setPreviousIndex(), f.setPreviousIndex()]
if r != [0, 0.5, 3, 3, 0.5, 0, 0]: bad.append(('nav', r))
f.setIndex(0)
if f.numberOfSimplicesOfOrder() != [2] or f.eulerCharacteristic() != 2: bad.append(('nso', f.numberOfSimplicesOfOrder()))
f.setIndex(0.5)
if f.numberOfSimplicesOfOrder() != [2, 1] or f.eulerCharacteristic() != 1: bad.append(('nso2', f.numberOfSimplicesOfOrder()))
f.setIndex(0)
try:
    f.addSimplex(id='ac', fs=['a','c']); bad.append(('later face accepted',))
except KeyError: pass
g = Filtration(); g.addSimplex(id='a'); g.setIndex(1); g.addSimplex(id='b'); g.deleteSimplex('b')
try:
    g.addSimplex(id='c')
    if g.indices() != [0, 1] or g.simplices() != ['a','c'] or g.addedAtIndex('c') != 1: bad.append(('readd', g.indices(), g.simplices()))
except Exception as e: bad.append(('readd raise', repr(e)))
h = f.copy()
if any(h[s] is f[s] for s in ['a','b','ab','c']): bad.append(('filtration copy alias',))
# rejections atomic
def snap(c): return (c.maxOrder(), c.simplices(), {s:(frozenset(c.faces(s)), dict(c[s])) for s in c.simplices()}, c._rep._sequence, [b.shape for b in c._rep._boundaries])
def tri():
    c = SimplicialComplex()
    for p in 'abc': c.addSimplex(id=p)
    c.addSimplex(id='ab', fs=['a','b']); c.addSimplex(id='bc', fs=['b','c']); c.addSimplex(id='ac', fs=['a','c'])
    return c
for name, call in [('unknown face', lambda c: c.addSimplex(fs=['a','z'])), ('wrong order top', lambda c: c.addSimplex(id='q', fs=['ab','a','b'])),
                   ('unknown top', lambda c: c.addSimplex(id='q', fs=['ab','bc','zz'])), ('existing basis auto', lambda c: c.addSimplexWithBasis(['a','b'])),
                   ('nonpoint after new', lambda c: c.addSimplexWithBasis(['new','ab'], id='q')), ('dup id new pts', lambda c: c.addSimplexWithBasis(['x','y'], id='ab')),
                   ('relabel later collision', lambda c: c.relabel({'a':'x','b':'c'})), ('relabel chain', lambda c: c.relabel({'a':'b','b':'z'})),
                   ('relabel two to one', lambda c: c.relabel({'a':'x','b':'x'}))]:
    c = tri(); b = snap(c)
    try: call(c); bad.append((name, 'no raise'))
    except (KeyError, ValueError): 
        if snap(c) != b: bad.append((name, 'changed', b, snap(c)))
# valid calls still fine
c = tri(); c.addSimplex(fs=['ab','bc','ac']); 
if c.simplices()[-1] != '2d0' or c.maxOrder() != 2: bad.append(('valid add', c.simplices()))
# disjoint renaming
a = tri(); b = SimplicialComplex(); b.addSimplex(id='a'); b.addSimplex(id='a->0d1')
m = a.relabelDisjointFrom(b)
if set(a.simplices()) & set(b.simplices()): bad.append(('rdf', a.simplices()))
# Z
e = SimplicialComplex(); e.addSimplex(id='a'); e.addSimplex(id='b'); e.addSimplex(id='ab', fs=['a','b'])
if e.Z() != {1: []} : bad.append(('Z edge', e.Z()))
if SimplicialComplex().Z([0]) != {0: []}: bad.append(('Z empty',))
if dict(SimplicialComplex().bettiNumbers([0,1])) != {0:0, 1:0}: bad.append(('betti empty',))
# flag
c = k_void(2); fl = c.flagComplex()
if fl.numberOfSimplicesOfOrder() != [4,6,4,1] or c.numberOfSimplicesOfOrder() != [4,6,4] or fl._rep is c._rep: bad.append(('flag', fl.numberOfSimplicesOfOrder()))
p = SimplicialComplex(); p.addSimplex(id=1); 
if p.flagComplex().simplices() != [1]: bad.append(('flag points',))
p.growFlagComplex([])
# compose alias
x = tri(); y = SimplicialComplex(); y.addSimplex(id='z', attr={'k':1}); d = x.compose(y)
if d['z'] is y['z']: bad.append(('compose alias',))
# cofaces types
m = SimplicialComplex(); m.addSimplex(id=1); m.addSimplex(id=(2,'t')); m.addSimplex(id='e', fs=[1,(2,'t')]); m.addSimplex(id=3.5); m.addSimplex(id=13, fs=[1,3.5])
if m.cofaces(1) != ['e', 13] or [type(q) for q in m.cofaces(1)] != [str, int]: bad.append(('cofaces', m.cofaces(1)))
m.deleteSimplex(1)
if m.simplices() != [(2,'t'), 3.5]: bad.append(('mixed delete', m.simplices()))
# comparison
a = SimplicialComplex(); a.addSimplex(id=1); a.addSimplex(id=2); b = SimplicialComplex(); b.addSimplex(id=3); b.addSimplex(id=4)
if a == b or a <= b: bad.append(('cmp',))
print('BAD:', bad)
