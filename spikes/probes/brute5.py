import sys, itertools, copy, collections, random, json, math
import fixes
from simplicial import *
import simplicial.file as sf
from cxenum import all_complexes
from brute1_lib import nm, build, famof, named
problems = collections.Counter(); examples = {}
def prob(kind, ex):
    problems[kind] += 1; examples.setdefault(kind, ex)
def obs(c):
    return (c.simplices(), {s:(c.orderOf(s), frozenset(c.faces(s)), frozenset(c.basisOf(s)), copy.deepcopy(c[s])) for s in c.simplices()})
def reps(c): return id(c._rep)
def dictids(c): return {id(c[s]) for s in c.simplices()}

fams = all_complexes(4)
rnd = random.Random(1)
# C09/C08 aliasing across constructors
for fam in fams:
    if not fam: continue
    c = build(fam)
    o0 = obs(c)
    outs = {}
    outs['copy'] = c.copy(); outs['deepcopy'] = copy.deepcopy(c); outs['flag'] = c.flagComplex()
    other = SimplicialComplex(); other.addSimplex(id='zz', attr={'q':1}); other.addSimplex(id=0, attr={'q': 2}) if frozenset([0]) in fam else None
    try: outs['compose'] = c.compose(other); outs['composeR'] = other.compose(c)
    except ValueError: pass
    outs['json'] = json.loads(sf.as_json(c), object_hook=sf.as_simplicial_complex)
    e = Embedding(c); outs['vr'] = e.vietorisRipsComplex(1.0)
    if obs(c) != o0: prob('C08-mutated', (sorted(map(sorted,fam)),))
    for k, d in outs.items():
        if reps(d) == reps(c) or (k.startswith('compose') and reps(d) == reps(other)): prob('alias-rep:'+k, ())
        if dictids(d) & (dictids(c) | dictids(other)): prob('alias-dict:'+k, (sorted(map(sorted,fam)),))
        if d._rep._complex is not d: prob('backptr:'+k, ())
# C15 relabel: injective renamings with fresh targets
for fam in fams:
    c = build(fam); names = c.simplices()
    for trial in range(3):
        sub = [n for n in names if rnd.random() < 0.6]
        ren = {n: ('r', n) if rnd.random() < 0.5 else f'R{n}' for n in sub}
        d = copy.deepcopy(c); calls = []
        f = (lambda s: (calls.append(s), ren.get(s, s))[1])
        m = d.relabel(f if trial == 0 else ren)
        if m != {k:v for k,v in ren.items()}: prob('relabel-mapping', (ren, m))
        if trial == 0 and sorted(map(str,calls)) != sorted(map(str,names)): prob('relabel-calls', (calls,))
        R = lambda s: ren.get(s, s)
        if d.simplices() != [R(s) for s in names]: prob('relabel-listing', ())
        for s in names:
            if d.orderOf(R(s)) != c.orderOf(s) or d.faces(R(s)) != {R(x) for x in c.faces(s)} or set(d.cofaces(R(s))) != {R(x) for x in c.cofaces(s)} or d.basisOf(R(s)) != {R(x) for x in c.basisOf(s)} or d[R(s)] != c[s] or d.indexOf(R(s)) != c.indexOf(s): prob('relabel-struct', (s,))
        if dict(d.bettiNumbers()) != dict(c.bettiNumbers()): prob('relabel-betti', ())
# C12 VR on grid points
def vr_check(pts, dist=None):
    c = SimplicialComplex()
    for i in range(len(pts)): c.addSimplex(id=i)
    class E(Embedding):
        def distance(self, p, q):
            return dist(p, q) if dist else Embedding.distance(self, p, q)
    e = E(c, len(pts[0]))
    for i,p in enumerate(pts): e[i] = list(p)
    ds = sorted({e.distance(list(p), list(q)) for p,q in itertools.combinations(pts,2)})
    epss = [-1.0, 0.0] + [x for d in ds for x in (math.nextafter(d, -math.inf), d, math.nextafter(d, math.inf))] + [1e9]
    prev = None
    for eps in sorted(set(epss)):
        v = e.vietorisRipsComplex(eps)
        close = {frozenset((i,j)) for i,j in itertools.combinations(range(len(pts)),2) if e.distance(list(pts[i]), list(pts[j])) <= eps}
        want = {frozenset([i]) for i in range(len(pts))}
        for r in range(2, len(pts)+1):
            for q in itertools.combinations(range(len(pts)), r):
                if all(frozenset(x) in close for x in itertools.combinations(q,2)): want.add(frozenset(q))
        got = famof(v)
        if got != frozenset(want): prob('vr', (pts, eps))
        if sorted(v.simplicesOfOrder(0)) != list(range(len(pts))): prob('vr-points', ())
        if prev is not None and not prev <= got: prob('vr-mono', ())
        prev = got
for trial in range(150):
    n = rnd.randint(1, 6); dim = rnd.randint(1,3)
    pts = [tuple(rnd.randint(0,4) for _ in range(dim)) for _ in range(n)]
    vr_check(pts); 
    if trial % 3 == 0: vr_check(pts, lambda p,q: sum(abs(a-b) for a,b in zip(p,q)))
    if trial % 3 == 1: vr_check(pts, lambda p,q: max(abs(a-b) for a,b in zip(p,q)))
print(dict(problems))
for k, v in examples.items(): print(k, '::', str(v)[:400])
