import sys, itertools, copy, collections

from simplicial import *


def nm(s):  # name for vertex set: points ints, others strings (mixed names)
    s = sorted(s)
    return s[0] if len(s) == 1 else 's' + ''.join(map(str, s))
def build(fam):
    c = SimplicialComplex()
    for s in sorted(fam, key=lambda s: (len(s), sorted(s))):
        if len(s) == 1: c.addSimplex(id=nm(s), attr={'b': sorted(s)})
        else: c.addSimplex(id=nm(s), fs=[nm(frozenset(f)) for f in itertools.combinations(sorted(s), len(s)-1)], attr={'b': sorted(s)})
    return c
def famof(c):
    return frozenset(frozenset(c.basisOf(s)) for s in c.simplices())
def named(c):
    return {s: frozenset(c.basisOf(s)) for s in c.simplices()}
