import traceback, copy, itertools, json
from simplicial import *
import simplicial.file as sf
def t(name, f):
    try:
        r = f()
        print(f"[{name}] ->", r)
    except Exception as e:
        print(f"[{name}] RAISED {type(e).__name__}: {e}")
def tri():
    c = SimplicialComplex()
    for p in 'abc': c.addSimplex(id=p)
    c.addSimplex(id='ab', fs=['a','b']); c.addSimplex(id='bc', fs=['b','c']); c.addSimplex(id='ac', fs=['a','c'])
    return c
def tri2():
    c = tri(); c.addSimplex(id='abc', fs=['ab','bc','ac'], attr={'w':1}); return c
# C15
def chain():
    c = tri(); r=[]
    try: r.append(c.relabel({'a':'b','b':'z'}))
    except Exception as e: r.append(f'{type(e).__name__}: {e}')
    r.append(c.simplices()); return r
t('relabel chain a->b,b->z', chain)
def chain2():
    c = tri(); r=[]
    try: r.append(c.relabel({'b':'a','a':'z'}))
    except Exception as e: r.append(f'{type(e).__name__}: {e}')
    r.append(c.simplices()); r.append({s:c.faces(s) for s in c.simplices()}); return r
t('relabel chain b->a,a->z (a first in listing)', chain2)
def swap():
    c = tri(); r=[]
    try: r.append(c.relabel({'a':'b','b':'a'}))
    except Exception as e: r.append(f'{type(e).__name__}: {e}')
    return r
t('relabel swap', swap)
def fn_calls():
    c = tri2(); calls=[]
    def f(s): calls.append(s); return ('n', s)
    m = c.relabel(f); return m, calls, c.simplices(), c.faces(('n','abc')), c[('n','abc')], c.indexOf(('n','bc'))
t('relabel fn', fn_calls)
def tuple_complex():
    c = tri2(); c.relabel(lambda s: ('n', s)); r=[]
    for g in [lambda: c.cofaces(('n','a')), lambda: c.partOf(('n','a')), lambda: c.deleteSimplex(('n','a')), lambda: c.simplices()]:
        try: r.append(g())
        except Exception as e: r.append(f'{type(e).__name__}: {e}')
    return r
t('tuple names ops', tuple_complex)
def rdf():
    a = tri(); b = SimplicialComplex(); b.addSimplex(id='a'); b.addSimplex(id='q'); b.addSimplex(id='a->0d1')
    m = a.relabelDisjointFrom(b); return m, a.simplices()
t('relabelDisjointFrom', rdf)
def rdf2():
    # renaming produces a name that collides with a's own other name?
    a = SimplicialComplex(); a.addSimplex(id='a'); a.addSimplex(id='a->0d1'); b = SimplicialComplex(); b.addSimplex(id='a')
    r=[]
    try: r.append(a.relabelDisjointFrom(b))
    except Exception as e: r.append(f'{type(e).__name__}: {e}')
    r.append(a.simplices()); return r
t('relabelDisjointFrom self-collision', rdf2)
def asf():
    a = tri2(); b = SimplicialComplex(); b.addSimplex(id='x'); ns = b.addSimplicesFrom(a, rename=lambda s: s.upper()); return ns, b.simplices(), b.faces('ABC'), b['ABC'], b['ABC'] is a['abc']
t('addSimplicesFrom fn', asf)
# C16
def comp1():
    a = tri(); b = tri2(); d = a.compose(b); return d.simplices(), d.faces('abc'), d['abc'], a.simplices(), b.simplices()
t('compose sub', comp1)
def comp_target():
    a = tri(); b = tri2(); tgt = SimplicialComplex(); tgt.addSimplex(id='t1'); tgt.addSimplex(id='t2'); tgt.addSimplex(id='t12', fs=['t1','t2'])
    d = a.compose(b, tgt); return d is tgt, d.simplices(), d.faces('abc')
t('compose target', comp_target)
def comp_bad():
    a = tri(); b = SimplicialComplex(); b.addSimplex(id='a'); b.addSimplex(id='b'); b.addSimplex(id='zz', fs=['a','b'])
    return a.compose(b).simplices()
t('compose same basis diff name', comp_bad)
def comp_bad2():
    a = tri(); b = SimplicialComplex(); b.addSimplex(id='a'); b.addSimplex(id='x'); b.addSimplex(id='ab', fs=['a','x'])
    return a.compose(b).simplices()
t('compose same name diff basis', comp_bad2)
def comp_order():
    a = tri(); b = SimplicialComplex(); b.addSimplex(id='ab'); 
    return a.compose(b).simplices()
t('compose same name diff order', comp_order)
def comp_order2():
    a = SimplicialComplex(); a.addSimplex(id='ab'); b = tri()
    return a.compose(b).simplices()
t('compose same name diff order 2 (self has point ab, c has edge ab)', comp_order2)
def comp_pointname():
    # c has point named 'p' and edge; self has unrelated stuff where 'p' unknown
    a = tri(); a['a']['u']=1; b = SimplicialComplex(); b.addSimplex(id='a', attr={'v':2}); b.addSimplex(id='p'); b.addSimplex(id='ap', fs=['a','p'])
    d = a.compose(b); return d.simplices(), d['a'], a['a'], b['a'], d['p'] is b['p']
t('compose attrs merge', comp_pointname)
# C17
def js():
    c = tri2(); c['a']['n']={'x':[1,2,{'y':None}], 'ü':'é'}; s = sf.as_json(c); d = json.loads(s, object_hook=sf.as_simplicial_complex)
    return d.simplices(), d.faces('abc'), d['a'], d==c, c==d
t('json rt', js)
def js_mixed():
    c = SimplicialComplex(); c.addSimplex(id=1); c.addSimplex(id='1'); c.addSimplex(id=2); c.addSimplexWithBasis([1,'1',2]); s = sf.as_json(c); d = json.loads(s, object_hook=sf.as_simplicial_complex)
    return d.simplices(), [type(x) for x in d.simplices()], {x: sorted(map(str,d.faces(x))) for x in d.simplices()} == {x: sorted(map(str,c.faces(x))) for x in c.simplices()}
t('json mixed', js_mixed)
def js_wrap():
    c = tri(); s = json.dumps({'k':[c, {'z':1}], 'm':{'__simplicialcomplex__': False}}, cls=sf.JSONSimplicialComplexEncoder); d = json.loads(s, object_hook=sf.as_simplicial_complex)
    return type(d['k'][0]).__name__, d['k'][1], d['m']
t('json wrap', js_wrap)
def js_attr_marker():
    c = SimplicialComplex(); c.addSimplex(id='a', attr={'sub': {'__simplicialcomplex__': True, '__version__': 0.1, 'simplices': []}}); s = sf.as_json(c); d = json.loads(s, object_hook=sf.as_simplicial_complex)
    return d['a']
t('json attr looks like complex', js_attr_marker)
def js_file():
    import tempfile, os
    c = tri2(); p = tempfile.mktemp(); sf.write_json(c, p); d = sf.read_json(p); os.remove(p); return d.simplices(), d['abc']
t('json file', js_file)
# Z duplicates
def zdup():
    c = SimplicialComplex()
    for p in 'abcd': c.addSimplex(id=p)
    for e in ['ab','bc','ac','bd','cd']: c.addSimplex(id=e, fs=list(e))
    z = c.Z(); return z, [c.boundary(ch) for ch in z[1]]
t('Z two triangles', zdup)
def zk4():
    c = k_skeleton(3); z = c.Z(); return z, [c.boundary(ch) for ch in z[1]], c.bettiNumbers()
t('Z K4', zk4)
# VR
def vr():
    c = SimplicialComplex()
    for p in range(4): c.addSimplex(id=p)
    e = Embedding(c); e[0]=[0,0]; e[1]=[3,0]; e[2]=[0,4]; e[3]=[3,4]
    return [(eps, e.vietorisRipsComplex(eps).numberOfSimplicesOfOrder()) for eps in [-1, 0, 2.9, 3, 4, 4.9, 5, 6]]
t('vr rect', vr)
def vr_src_has_edges():
    c = tri2(); e = Embedding(c); return e.vietorisRipsComplex(1).numberOfSimplicesOfOrder(), c.numberOfSimplicesOfOrder()
t('vr coincident', vr_src_has_edges)
t('vr empty', lambda: Embedding(SimplicialComplex()).vietorisRipsComplex(1).simplices())
def vr1():
    c = SimplicialComplex(); c.addSimplex(id=0); return Embedding(c).vietorisRipsComplex(1).simplices()
t('vr single', vr1)
