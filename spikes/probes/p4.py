import traceback, copy, itertools
from simplicial import *
def t(name, f):
    try:
        r = f()
        print(f"[{name}] ->", r)
    except Exception as e:
        print(f"[{name}] RAISED {type(e).__name__}: {e}")
        #traceback.print_exc()
def filt():
    f = Filtration()
    f.addSimplex(id='a'); f.addSimplex(id='b')
    f.setIndex(0.5); f.addSimplex(id='ab', fs=['a','b']); f.addSimplex(id='c')
    f.setIndex(1.0); f.addSimplex(id='bc', fs=['b','c']); f.addSimplex(id='ac', fs=['a','c'])
    f.setIndex(3); f.addSimplex(id='abc', fs=['ab','bc','ac'])
    return f
def q(f):
    r = {}
    for n, g in [('simplices', lambda: f.simplices()), ('n', lambda: f.numberOfSimplices()), ('maxOrder', lambda: f.maxOrder()),
                 ('so1', lambda: f.simplicesOfOrder(1)), ('nso', lambda: f.numberOfSimplicesOfOrder()), ('euler', lambda: f.eulerCharacteristic()),
                 ('betti', lambda: f.bettiNumbers()), ('len', lambda: len(f)), ('contains abc', lambda: 'abc' in f), ('faces ab', lambda: f.faces('ab')), ('basis abc', lambda: f.basisOf('abc')), ('orderOf abc', lambda: f.orderOf('abc')),
                 ('cofaces a', lambda: f.cofaces('a')), ('partOf a', lambda: f.partOf('a')), ('closureOf', lambda: f.closureOf('ab')), ('bop1', lambda: f.boundaryOperator(1).tolist())]:
        try: r[n] = g()
        except Exception as e: r[n] = f'RAISED {type(e).__name__}: {e}'
    return r
f = filt()
for i in f.indices():
    f.setIndex(i)
    print('index', i, q(f))
    s = f.snap()
    print('  snap ', q(s))
t('indices', lambda: filt().indices())
def nav():
    f = filt(); f.setMinimumIndex(); r=[f.getIndex()]
    for _ in range(5):
        try: r.append(f.setNextIndex())
        except Exception as e: r.append(type(e).__name__)
    for _ in range(5):
        try: r.append(f.setPreviousIndex())
        except Exception as e: r.append(type(e).__name__)
    return r
t('nav', nav)
def nav2():
    f = Filtration(); f.addSimplex(id=0); f.setIndex(1); f.addSimplex(id=1); f.setIndex(2); f.addSimplex(id=2); f.setMinimumIndex(); r=[f.getIndex()]
    for _ in range(4): r.append(f.setNextIndex())
    for _ in range(4): r.append(f.setPreviousIndex())
    return r
t('nav2 0..n-1', nav2)
def earlier():
    f = Filtration(); f.setIndex(2); f.addSimplex(id='a'); f.setIndex(1); f.addSimplex(id='b'); 
    r = [f.simplices()]
    try: f.addSimplex(id='ab', fs=['a','b'])
    except Exception as e: r.append(f'{type(e).__name__}: {e}')
    r.append(f.simplices()); f.setIndex(2); r.append(f.simplices()); 
    try: r.append(f.snap().simplices())
    except Exception as e: r.append(f'{type(e).__name__}: {e}')
    f.setIndex(1); 
    try: r.append(f.snap().simplices())
    except Exception as e: r.append(f'{type(e).__name__}: {e}')
    return r
t('add face born later', earlier)
def earlier2():
    f = Filtration(); f.setIndex(2); f.addSimplex(id='a'); f.addSimplex(id='b'); f.setIndex(1);
    r=[]
    try: r.append(f.addSimplex(id='ab', fs=['a','b']))
    except Exception as e: r.append(f'{type(e).__name__}: {e}')
    r.append(f.simplices()); r.append(f.containsSimplexAtSomeIndex('ab'))
    try: r.append(f.snap().simplices())
    except Exception as e: r.append(f'{type(e).__name__}: {e}')
    return r
t('add face born later2', earlier2)
def readd():
    f = Filtration(); f.addSimplex(id='a'); f.setIndex(1); f.addSimplex(id='b'); f.deleteSimplex('b'); r=[f.indices(), f.getIndex()]
    try: r.append(f.addSimplex(id='c'))
    except Exception as e: r.append(f'{type(e).__name__}: {e}')
    r.append(f.indices()); r.append(f.simplices()); r.append(f.containsSimplexAtSomeIndex('c')); r.append(f._appears)
    return r
t('readd after emptied', readd)
def initial_empty_index():
    f = Filtration(5); f.setIndex(7); f.addSimplex(id='a'); return f.indices(), [c.simplices() for c in f.complexes()], f.getIndex()
t('initial_empty_index', initial_empty_index)
def delstar():
    f = filt(); f.setIndex(0); 
    r=[]
    try: f.deleteSimplex('a')
    except Exception as e: r.append(f'{type(e).__name__}: {e}')
    f.setMaximumIndex(); r.append(f.simplices()); return r
t('delete at early index', delstar)
def delstar2():
    f = filt(); f.setMaximumIndex(); f.deleteSimplex('a'); r=[f.simplices(), f.indices(), f._appears, f._includes]; return r
t('delete at max index', delstar2)
def fcopy():
    f = filt(); g = f.copy(); g.setMaximumIndex(); return g.simplices(), g.indices(), [g.addedAtIndex(s) for s in g.simplices()], g['a'] is f['a'], f.getIndex(), g.getIndex()
t('filtration copy', fcopy)
def fdeep():
    f = filt(); g = copy.deepcopy(f); g.addSimplex(id='zz'); return f.simplices(), g.simplices()
t('filtration deepcopy', fdeep)
def fwb():
    f = Filtration(); f.addSimplex(id='a'); f.setIndex(1); f.addSimplexWithBasis(['a','b','c']); r=[f.simplices(), {s:f.addedAtIndex(s) for s in f.simplices()}]; f.setIndex(0); r.append(f.simplices()); return r
t('filtration with basis', fwb)
def fjson():
    import simplicial.file as sf
    f = filt(); f.setIndex(0.5); s = sf.as_json(f); import json; c = json.loads(s, object_hook=sf.as_simplicial_complex); return c.simplices()
t('filtration json at index', fjson)
