import sys, itertools, copy, collections
import fixes
from simplicial import *
from cxenum import all_complexes

def nm(s):  # name for vertex set: points ints, others strings (mixed names)
    s = sorted(s)
    return s[0] if len(s) == 1 else 's' + ''.join(map(str, s))
def build(fam):
    c = SimplicialComplex()
    for s in sorted(fam, key=lambda s: (len(s), sorted(s))):
        if len(s) == 1: c.addSimplex(id=nm(s), attr={'b': sorted(s)})
        else: c.addSimplex(id=nm(s), fs=[nm(frozenset(f)) for f in itertools.combinations(sorted(s), len(s)-1)], attr={'b': sorted(s)})
    return c
def famof(c):
    return frozenset(frozenset(c.basisOf(s)) for s in c.simplices())
def named(c):
    return {s: frozenset(c.basisOf(s)) for s in c.simplices()}
def check_inv(c, where):
    ss = c.simplices()
    assert len(ss) == len(set(ss)), (where, 'dup names')
    orders = [c.orderOf(s) for s in ss]
    assert orders == sorted(orders), (where, 'not sorted')
    mo = max(orders) if orders else -1
    assert c.maxOrder() == mo, (where, 'maxOrder', c.maxOrder(), mo)
    bases = set()
    for s in ss:
        k = c.orderOf(s); fs = c.faces(s); bs = c.basisOf(s)
        assert len(bs) == k+1, (where, 'basis size', s)
        assert frozenset(bs) not in bases, (where, 'dup basis'); bases.add(frozenset(bs))
        if k == 0: assert fs == set() and bs == {s}
        else:
            assert len(fs) == k+1, (where, 'faces', s)
            for f in fs:
                assert f in c and c.orderOf(f) == k-1
            assert set().union(*[c.basisOf(f) for f in fs]) == bs
    allk = [x for k in range(c.maxOrder()+1) for x in c.simplicesOfOrder(k)]
    assert allk == ss

problems = collections.Counter()
examples = {}
def prob(kind, ex):
    problems[kind] += 1
    examples.setdefault(kind, ex)

N = int(sys.argv[1]) if len(sys.argv) > 1 else 4
fams = all_complexes(N)
print('complexes', len(fams))
for fam in fams:
    c = build(fam)
    try: check_inv(c, 'build')
    except AssertionError as e: prob('inv-build', (sorted(map(sorted,fam)), e.args))
    assert famof(c) == fam
    nmap = named(c)
    # C04
    for s, bs in nmap.items():
        for rev in (False, True):
            for ex in (False, True):
                cl = c.closureOf(s, reverse=rev, exclude_self=ex)
                want = {t for t, bt in nmap.items() if bt <= bs and not (ex and t == s)}
                if set(cl) != want or len(cl) != len(set(cl)): prob('closureOf', (sorted(map(sorted,fam)), s, rev, ex, cl))
                os_ = [c.orderOf(t) for t in cl]
                if os_ != sorted(os_, reverse=rev): prob('closureOf-order', (s, rev, ex, cl))
                po = c.partOf(s, reverse=rev, exclude_self=ex)
                want = {t for t, bt in nmap.items() if bs <= bt and not (ex and t == s)}
                if set(po) != want or len(po) != len(set(po)): prob('partOf', (sorted(map(sorted,fam)), s, rev, ex, po))
                os_ = [c.orderOf(t) for t in po]
                if os_ != sorted(os_, reverse=rev): prob('partOf-order', (s, rev, ex, po))
                for t in po:
                    if not any(t is u for u in c.simplices()) and type(t) not in (int, str): prob('partOf-type', (t, type(t)))
        if c.simplexWithBasis(list(bs)) != s: prob('swb', (s,))
        if len(bs) > 1 and c.simplexWithFaces(list(c.faces(s))) != s: prob('swf', (s,))
        if set(c.cofaces(s)) != {t for t, bt in nmap.items() if bs < bt and len(bt) == len(bs)+1}: prob('cofaces', (s,))
    pts = sorted(p for p in range(N) if frozenset([p]) in fam)
    for r in range(1, len(pts)+1):
        for sub in itertools.combinations(pts, r):
            got = c.simplexWithBasis(list(sub))
            want = nm(sub) if frozenset(sub) in fam else None
            if got != want: prob('swb-missing', (sorted(map(sorted,fam)), sub, got))
            if c.containsSimplexWithBasis(list(sub)) != (want is not None): prob('cswb', (sub,))
    names = list(nmap)
    for r in (2, 3):
        for tup in itertools.combinations(names, r):
            want = all(not ({t for t,bt in nmap.items() if bt <= nmap[a]} & {t for t,bt in nmap.items() if bt <= nmap[b]}) for a, b in itertools.combinations(tup, 2))
            if c.disjoint(list(tup)) != want: prob('disjoint', (sorted(map(sorted,fam)), tup))
    # C02 delete
    for s, bs in nmap.items():
        d = copy.deepcopy(c)
        try:
            d.deleteSimplex(s); check_inv(d, 'del')
            want = {t: bt for t, bt in nmap.items() if not bs <= bt}
            if named(d) != want: prob('delete-effect', (sorted(map(sorted,fam)), s))
            for t in want:
                if d.faces(t) != c.faces(t) or d[t] != c[t]: prob('delete-frame', (s, t))
            if [t for t in c.simplices() if t in want] != d.simplices(): prob('delete-listing', (s,))
        except Exception as e: prob('delete-raise', (sorted(map(sorted,fam)), s, repr(e)))
    # restrict
    for r in range(0, len(pts)+1):
        for sub in itertools.combinations(pts, r):
            d = copy.deepcopy(c)
            try:
                d.restrictBasisTo(list(sub)); check_inv(d, 'restrict')
                want = {t: bt for t, bt in nmap.items() if bt <= set(sub)}
                if named(d) != want: prob('restrict-effect', (sorted(map(sorted,fam)), sub, named(d)))
            except Exception as e: prob('restrict-raise', (sorted(map(sorted,fam)), sub, repr(e)))
    # subdivide
    for s, bs in nmap.items():
        if len(bs) < 2: continue
        d = copy.deepcopy(c)
        try:
            m = d.barycentricSubdivide(s); check_inv(d, 'subdiv')
            want = {bt for t, bt in nmap.items() if not bs <= bt} | {frozenset([m])}
            for f in itertools.combinations(sorted(bs), len(bs)-1):
                cone = frozenset(f) | {m}
                for r2 in range(1, len(cone)+1):
                    for q in itertools.combinations(sorted(cone, key=str), r2): want.add(frozenset(q))
            if famof(d) != frozenset(want): prob('subdivide-effect', (sorted(map(sorted,fam)), s))
            for t, bt in nmap.items():
                if not bs <= bt and (t not in d or d.faces(t) != c.faces(t) or d[t] != c[t]): prob('subdivide-frame', (s, t))
        except Exception as e: prob('subdivide-raise', (sorted(map(sorted,fam)), s, repr(e)))
    # add by basis: every missing vertex set over existing+1 new point
    universe = pts + ['new']
    for r in range(1, len(universe)+1):
        for sub in itertools.combinations(universe, r):
            if frozenset(sub) in fam: continue
            if r == 1 and sub[0] != 'new': continue
            d = copy.deepcopy(c)
            try:
                got = d.addSimplexWithBasis(list(sub), id='TOP', attr={'x': 1}); check_inv(d, 'addb')
                want = set(fam) | {frozenset(q) for r2 in range(1, r+1) for q in itertools.combinations(sub, r2)}
                if got != 'TOP' or famof(d) != frozenset(want): prob('addb-effect', (sorted(map(sorted,fam)), sub, got))
                if d['TOP'] != {'x': 1}: prob('addb-attr', (sub,))
                for t in nmap:
                    if t not in d or d.faces(t) != c.faces(t) or d[t] != c[t] or d.basisOf(t) != c.basisOf(t): prob('addb-frame', (sub, t))
                extra = [t for t in d.simplices() if t not in nmap and t != 'TOP']
                for t in extra:
                    if d[t] != {} and d.orderOf(t) > 0: prob('addb-face-attrs', (sub, t, d[t]))
                    if d[t] != {} and d.orderOf(t) == 0: prob('addb-point-attrs', (sub, t, d[t]))
            except Exception as e: prob('addb-raise', (sorted(map(sorted,fam)), sub, repr(e)))
print(dict(problems))
for k, v in examples.items(): print(k, '::', v)
