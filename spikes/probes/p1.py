import traceback, copy
from simplicial import *
def t(name, f):
    try:
        r = f()
        print(f"[{name}] ->", r)
    except Exception as e:
        print(f"[{name}] RAISED {type(e).__name__}: {e}")

# C02: deleteSimplex with mixed int / auto names
def mixed_delete():
    c = SimplicialComplex()
    c.addSimplex(id=1); c.addSimplex(id=2); c.addSimplex(id=3)
    c.addSimplexWithBasis([1,2,3])   # auto-named edges & tri
    print(c.simplices())
    print('cofaces(1)=', c.cofaces(1), [type(x) for x in c.cofaces(1)])
    c.deleteSimplex(1)
    return c.simplices()
t('mixed_delete', mixed_delete)

def mixed_delete2():
    c = SimplicialComplex()
    c.addSimplex(id=1); c.addSimplex(id=2); c.addSimplex(id='e', fs=[1,2]); 
    c.addSimplex(id=3); c.addSimplex(id=13, fs=[1,3])
    print('cofaces(1)=', c.cofaces(1), [type(x) for x in c.cofaces(1)])
    c.deleteSimplex(1)
    return c.simplices()
t('mixed_delete2', mixed_delete2)

def tuple_names():
    c = SimplicialComplex()
    c.addSimplex(id=(0,)); c.addSimplex(id=(1,)); c.addSimplex(id=(0,1), fs=[(0,),(1,)])
    print('cofaces=', c.cofaces((0,)))
    return c.partOf((0,))
t('tuple_names', tuple_names)

def int_names_cofaces():
    c = SimplicialComplex()
    c.addSimplex(id=1); c.addSimplex(id=2); c.addSimplex(id=12, fs=[1,2])
    r = c.cofaces(1)
    return r, [type(x) for x in r], 12 in r, c.partOf(1), [type(x) for x in c.partOf(1)]
t('int_names_cofaces', int_names_cofaces)

def float_names():
    c = SimplicialComplex()
    c.addSimplex(id=1.5); c.addSimplex(id=2); c.addSimplex(id=12, fs=[1.5,2])
    r = c.cofaces(2)
    return r, [type(x) for x in r], c.partOf(1.5)
t('float_names', float_names)

# C05: rejected addSimplex leaves phantom order
def phantom():
    c = SimplicialComplex()
    c.addSimplex(id='a'); c.addSimplex(id='b')
    try:
        c.addSimplex(fs=['a','zzz'])
    except Exception as e:
        print('raised', type(e).__name__, e)
    return c.maxOrder(), c.simplices(), c.numberOfSimplicesOfOrder(), c._rep._sequence
t('phantom', phantom)

# dup face check
def dupface():
    c = SimplicialComplex()
    c.addSimplex(id='a'); c.addSimplex(id='b')
    try:
        c.addSimplex(fs=['a','a'])
    except Exception as e:
        print('raised', type(e).__name__, e)
    return c.maxOrder(), c.simplices(), c._rep._sequence
t('dupface', dupface)
