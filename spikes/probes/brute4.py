import sys, itertools, copy, collections, random
import fixes
from simplicial import *
from simplicial.filtration import Filtration
problems = collections.Counter(); examples = {}
def prob(kind, ex):
    problems[kind] += 1; examples.setdefault(kind, ex)

# planned filtration fixes
def setNextIndex(self):
    ind = self.getIndex(); inds = self.indices(); i = inds.index(ind)
    if i == len(inds) - 1: return ind
    self._index = inds[i + 1]; return self._index
def setPreviousIndex(self):
    ind = self.getIndex(); inds = self.indices(); i = inds.index(ind)
    if i == 0: return ind
    self._index = inds[i - 1]; return self._index
def numberOfSimplicesOfOrder(self):
    nsos = [len([s for s in SimplicialComplex.simplicesOfOrder(self, k) if s in self]) for k in range(SimplicialComplex.maxOrder(self) + 1)]
    while nsos and nsos[-1] == 0: nsos.pop()
    return nsos
def addSimplex(self, fs=[], id=None, attr=None):
    for f in fs:
        if not self.containsSimplex(f):
            raise KeyError(f'Face {f} not in filtration at index {self.getIndex()}')
    nid = SimplicialComplex.addSimplex(self, fs, id, attr)
    ind = self.getIndex()
    self._appears[nid] = ind
    if ind not in self._includes:
        self._includes[ind] = set(); self._maxOrders[ind] = -1
    self._includes[ind].add(nid)
    if self.maxOrder() > self._maxOrders[ind]: self._maxOrders[ind] = self.maxOrder()
    return nid
Filtration.setNextIndex = setNextIndex; Filtration.setPreviousIndex = setPreviousIndex
Filtration.numberOfSimplicesOfOrder = numberOfSimplicesOfOrder; Filtration.addSimplex = addSimplex

IDX = [-1, 0, 0.5, 1, 3]
def run(seed):
    rnd = random.Random(seed)
    f = Filtration(rnd.choice(IDX))
    ref = {}   # name -> (frozenset basis, birth)
    log = []
    counter = [0]
    def fresh():
        counter[0] += 1; return f'n{counter[0]}'
    for step in range(rnd.randint(3, 25)):
        op = rnd.choice(['idx','pt','pt','edge','byfaces','bybasis','bybasis','del','check','check','iter','nav'])
        try:
            if op == 'idx':
                i = rnd.choice(IDX); f.setIndex(i); log.append(('idx', i))
            elif op == 'pt':
                n = rnd.choice([rnd.randint(0,5), fresh()])
                if n in ref: continue
                f.addSimplex(id=n); ref[n] = (frozenset([n]), f.getIndex()); log.append(('pt', n))
            elif op in ('edge','byfaces'):
                vis = {n for n,(b,bi) in ref.items() if bi <= f.getIndex()}
                # choose a vertex set whose facets all exist (any index), missing itself
                sets = {b: n for n,(b,bi) in ref.items()}
                pts = [n for n,(b,bi) in ref.items() if len(b)==1]
                r = rnd.choice([2,2,3,4])
                if len(pts) < r: continue
                q = frozenset(rnd.sample(pts, r))
                if q in sets: continue
                fac = [frozenset(x) for x in itertools.combinations(sorted(q, key=str), r-1)]
                if not all(x in sets for x in fac): continue
                fs = [sets[x] for x in fac]; n = fresh()
                allvis = all(x in vis for x in fs)
                log.append(('byfaces', n, fs, allvis))
                try:
                    f.addSimplex(fs=fs, id=n)
                    if not allvis: prob('accepted-invisible-face', (seed, log[-1]))
                    ref[n] = (q, f.getIndex())
                except (KeyError, ValueError) as e:
                    if allvis: prob('rejected-valid-add', (seed, log[-1], repr(e)))
            elif op == 'bybasis':
                pts = [n for n,(b,bi) in ref.items() if len(b)==1 and bi <= f.getIndex()]
                r = rnd.choice([2,3,3,4])
                if len(pts) < r: continue
                q = frozenset(rnd.sample(pts, r))
                sets = {b: (n,bi) for n,(b,bi) in ref.items()}
                if q in sets: continue
                subs = [frozenset(x) for r2 in range(2, r) for x in itertools.combinations(sorted(q,key=str), r2)]
                ok = all((x not in sets) or sets[x][1] <= f.getIndex() for x in subs)
                n = fresh(); log.append(('bybasis', n, sorted(q, key=str), ok))
                before = set(f._rep._simplices.keys())
                try:
                    f.addSimplexWithBasis(list(q), id=n)
                    if not ok: prob('bybasis-accepted-with-later-face', (seed, log[-1]))
                    for nn in set(f._rep._simplices.keys()) - before:
                        ref[nn] = (frozenset(f.basisOf(nn)), f.getIndex())
                except (KeyError, ValueError) as e:
                    if ok: prob('bybasis-rejected-valid', (seed, log[-1], repr(e)))
                    after = set(f._rep._simplices.keys())
                    if after != before:
                        prob('bybasis-nonatomic', (seed, log[-1]))
                        for nn in after - before: ref[nn] = (frozenset(f.basisOf(nn)), f._appears.get(nn, f.getIndex()))
            elif op == 'del':
                if not ref: continue
                n = rnd.choice(sorted(ref, key=str)); log.append(('del', n, ref[n][1] <= f.getIndex()))
                try:
                    f.deleteSimplex(n)
                    b = ref[n][0]
                    for m in [m for m,(bm,_) in ref.items() if b <= bm]: del ref[m]
                except Exception as e:
                    prob('del-raise:' + type(e).__name__, (seed, log[-1], repr(e)))
                    return
            elif op == 'nav':
                inds = f.indices()
                if f.getIndex() not in inds: 
                    continue
                i = inds.index(f.getIndex())
                a = f.setNextIndex(); want = inds[min(i+1, len(inds)-1)]
                if a != want or f.getIndex() != want: prob('nav-next', (seed, inds, i, a))
                i = inds.index(f.getIndex())
                a = f.setPreviousIndex(); want = inds[max(i-1, 0)]
                if a != want or f.getIndex() != want: prob('nav-prev', (seed, inds, i, a))
                log.append(('nav',))
            elif op == 'iter':
                cur = f.getIndex(); inds0 = f.indices()
                snaps = list(f.complexes())
                if f.getIndex() != cur: prob('iter-index-moved', (seed,))
                if f.indices() != inds0: prob('iter-indices-changed', (seed, inds0, f.indices(), cur))
                if len(snaps) != len(inds0): prob('iter-count', (seed,))
                for i, s in zip(inds0, snaps):
                    want = {n for n,(b,bi) in ref.items() if bi <= i}
                    if set(s.simplices()) != want: prob('iter-content', (seed, i))
                log.append(('iter',))
            elif op == 'check':
                # C13 / C14 at every index
                cur = f.getIndex()
                births = {bi for (b,bi) in ref.values()}
                if not births <= set(f.indices()): prob('indices-cover', (seed, births, f.indices()))
                if f.indices() != sorted(f.indices()): prob('indices-sorted', ())
                for n,(b,bi) in ref.items():
                    if f.addedAtIndex(n) != bi: prob('addedAt', (seed, n))
                for i in sorted(set(IDX) | births):
                    if i not in f.indices(): continue   # only existing indices
                    f.setIndex(i)
                    want = {n for n,(b,bi) in ref.items() if bi <= i}
                    if set(f.simplices()) != want: prob('visible', (seed, i)); continue
                    try: s = f.snap()
                    except Exception as e: prob('snap-raise', (seed, i, repr(e), log)); continue
                    if set(s.simplices()) != want: prob('snap-content', (seed, i))
                    for qn, q in [('n', lambda x: x.numberOfSimplices()), ('nso', lambda x: x.numberOfSimplicesOfOrder()), ('euler', lambda x: x.eulerCharacteristic()),
                                  ('len', lambda x: len(x)), ('maxOrder', lambda x: x.maxOrder()), ('so', lambda x: [sorted(x.simplicesOfOrder(k), key=str) for k in range(4)]), ('betti', lambda x: dict(x.bettiNumbers())),
                                  ('simplices', lambda x: x.simplices())]:
                        try: a = q(f)
                        except Exception as e: a = 'RAISE ' + type(e).__name__
                        try: bb = q(s)
                        except Exception as e: bb = 'RAISE ' + type(e).__name__
                        if a != bb: prob('C14:' + qn, (seed, i, a, bb))
                    for n in want:
                        if f.orderOf(n) != s.orderOf(n) or f.faces(n) != s.faces(n) or f.basisOf(n) != s.basisOf(n): prob('C14:per-simplex', (seed, n))
                f.setIndex(cur)
        except Exception as e:
            prob('harness-exc:' + type(e).__name__, (seed, op, repr(e), log[-3:]))
            return
for seed in range(int(sys.argv[1])):
    run(seed)
print(dict(problems))
for k, v in examples.items(): print(k, '::', str(v)[:600])
