import sys, itertools
sys.path.insert(0, '/var/tmp/simplicial-scratch')
from simplicial import *
c = SimplicialComplex()
for p in range(9): c.addSimplex(id=p)
# hollow 5-simplex on points 0..5: all 4-simplices (5-subsets) present
for s in itertools.combinations(range(6), 5):
    c.addSimplexWithBasis(list(s))
# hollow triangle on 6,7,8
for e in itertools.combinations([6,7,8], 2): c.addSimplexWithBasis(list(e))
print('input ', c.numberOfSimplicesOfOrder())
f = c.flagComplex()
print('flag  ', f.numberOfSimplicesOfOrder(), 'has 5-simplex:', f.containsSimplexWithBasis(list(range(6))), 'has triangle:', f.containsSimplexWithBasis([6,7,8]))
