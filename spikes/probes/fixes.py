# throwaway: planned fixes as monkeypatches, to look for residual defects
import copy, itertools, numpy
import simplicial
from simplicial import *
from simplicial.simplicialcomplex import ReferenceRepresentation as RR
from simplicial.base import SimplicialComplex as SC

def cofaces(self, s):
    (k, i) = self._simplices[s]
    if k == self.maxOrder():
        return set()
    ss = self._indices[k + 1]
    row = (self._boundaries[k + 1])[i]
    return [ss[j] for j in range(len(ss)) if row[j] == 1]
RR.cofaces = cofaces

def disjoint(self, ss):
    cl = None
    for s in ss:
        if cl is None:
            cl = set(self.closureOf(s))
        else:
            clprime = set(self.closureOf(s))
            if cl.isdisjoint(clprime):
                cl.update(clprime)
            else:
                return False
    return True
SC.disjoint = disjoint

def isSubComplexOf(self, c):
    for k in range(self.maxOrder() + 1):
        for i in self.simplicesOfOrder(k):
            if i not in c: return False
            if c.orderOf(i) != k: return False
            fs = self.faces(i); cfs = c.faces(i)
            for j in fs:
                if j not in cfs: return False
    return True
SC.isSubComplexOf = isSubComplexOf

def flagComplex(self):
    flag = self.copy()
    nss = dict()
    for k in range(1, max(flag.maxOrder(), 1) + 1):
        nss[k] = set(range(len(flag.simplicesOfOrder(k))))
    flag._completePotentialSimplices(nss)
    return flag
SC.flagComplex = flagComplex

_oldbop = RR.boundaryOperator
def boundaryOperator(self, k):
    if k == 0:
        n0 = len(self._indices[0]) if len(self._indices) > 0 else 0
        return numpy.zeros([1, n0])
    return _oldbop(self, k)
RR.boundaryOperator = boundaryOperator

def Z(self, ks=None):
    if ks is None:
        ks = range(1, self.maxOrder() + 1)
    boundaries = dict()
    for k in ks:
        B = self.boundaryOperator(k)
        (rb, cb) = B.shape
        rls = list(map((lambda s: [s]), copy.copy(self.simplicesOfOrder(k - 1))))
        cls = list(map((lambda s: [s]), copy.copy(self.simplicesOfOrder(k))))
        (A, rls, cls) = self._reduceBoundaries(B.copy(), rls, cls)
        zc = numpy.zeros(rb)
        kernelDim = [numpy.all(A[:, j] == zc) for j in range(cb)].count(True)
        boundaries[k] = cls[len(cls) - kernelDim:]
    return boundaries
SC.Z = Z
