import Sp.Core
namespace Sp
variable {α : Type} [DecidableEq α]

/-- Python-style: state survives the exception -/
def Cx.addSimplexS (c : Cx α) (fs : List α) (id : α) : Except Err Unit × Cx α :=
  match c.addSimplex fs id with
  | .ok c' => (.ok (), c')
  | .error e => (.error e, c)

theorem addSimplexS_atomic (c : Cx α) (fs : List α) (id : α) (e : Err) :
    (c.addSimplexS fs id).1 = .error e → (c.addSimplexS fs id).2 = c := by
  unfold Cx.addSimplexS; split <;> simp

/-- classification: duplicate name is always rejected with KeyError (unless the single-face ValueError fires first) -/
theorem addSimplex_dup (c : Cx α) (fs : List α) (id : α) (h : c.contains id = true) :
    ∃ e, c.addSimplex fs id = .error e := by
  unfold Cx.addSimplex
  simp only [h]
  split <;> exact ⟨_, rfl⟩

theorem addSimplex_unknown_face (c : Cx α) (fs : List α) (id f : α) (hf : f ∈ fs) (h : c.contains f = false) :
    ∃ e, c.addSimplex fs id = .error e := by
  unfold Cx.addSimplex
  simp only
  split <;> try exact ⟨_, rfl⟩
  split <;> try exact ⟨_, rfl⟩
  split <;> try exact ⟨_, rfl⟩
  split <;> try exact ⟨_, rfl⟩
  split
  · simp_all
  · split <;> try exact ⟨_, rfl⟩
    rename_i h6
    exact absurd (List.any_eq_true.mpr ⟨f, hf, by simp [h]⟩) h6
end Sp
