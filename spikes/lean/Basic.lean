def hello := "world"
