/-! spike: Layer A model of the Representation interface (names, faces, basis per simplex) -/
namespace Sp

structure Simp (α : Type) where
  name : α
  faces : List α
  basis : List α
deriving Repr, DecidableEq

structure Cx (α : Type) where
  ords : List (List (Simp α))      -- ords[k] : simplices of order k, canonical order
  seq  : Nat := 0
deriving Repr

variable {α : Type} [DecidableEq α]

def Cx.all (c : Cx α) : List (Simp α) := c.ords.flatten
def Cx.names (c : Cx α) : List α := c.all.map (·.name)
def Cx.maxOrder (c : Cx α) : Int := (c.ords.length : Int) - 1
def Cx.ordK (c : Cx α) (k : Nat) : List (Simp α) := c.ords.getD k []
def Cx.find? (c : Cx α) (n : α) : Option (Nat × Simp α) :=
  let rec go (os : List (List (Simp α))) (k : Nat) : Option (Nat × Simp α) :=
    match os with
    | [] => none
    | o :: os => match o.find? (·.name = n) with
      | some s => some (k, s)
      | none => go os (k+1)
  go c.ords 0
def Cx.contains (c : Cx α) (n : α) : Bool := (c.find? n).isSome
def Cx.orderOf? (c : Cx α) (n : α) : Option Nat := (c.find? n).map (·.1)
def Cx.basisOf (c : Cx α) (n : α) : List α := ((c.find? n).map (·.2.basis)).getD []

inductive Err | key | value
deriving Repr, DecidableEq

def setEq (a b : List α) : Bool := a.all (b.contains ·) && b.all (a.contains ·)

/-- mirror of ReferenceRepresentation.addSimplex with validation before mutation (post-fix) and explicit id -/
def Cx.addSimplex (c : Cx α) (fs : List α) (id : α) : Except Err (Cx α) :=
  let k := fs.length - 1
  if fs.length = 1 then .error .value else
  if c.contains id then .error .key else
  if ¬ fs.Nodup then .error .key else
  if (k : Int) > c.maxOrder + 1 then .error .value else
  if fs.isEmpty then
    -- point
    let s : Simp α := ⟨id, [], [id]⟩
    match c.ords with
    | [] => .ok { c with ords := [[s]] }
    | o :: os => .ok { c with ords := (o ++ [s]) :: os }
  else
    -- all faces known and of order k-1
    if fs.any (fun f => ¬ c.contains f) then .error .key else
    if fs.any (fun f => c.orderOf? f ≠ some (k-1)) then .error .value else
    if (c.ordK k).any (fun s => setEq s.faces fs) then .error .key else
    let bs := (fs.flatMap c.basisOf).eraseDups
    let s : Simp α := ⟨id, fs, bs⟩
    if k < c.ords.length then
      .ok { c with ords := c.ords.modify k (· ++ [s]) }
    else .ok { c with ords := c.ords ++ [[s]] }

end Sp
