/-! spike: GF(2) matrix as list of rows, mirror of _reduceBoundaries -/
namespace Sp
abbrev Mat := List (List Bool)

def swapIdx {α} (l : List α) (i j : Nat) : List α :=
  match l[i]?, l[j]? with
  | some a, some b => (l.set i b).set j a
  | _, _ => l

def xorRow (a b : List Bool) : List Bool := List.zipWith (fun x y => x != y) a b

/-- first (k,l) in row-major order with k,l ≥ x and B[k][l] = true -/
def findPivot (B : Mat) (x : Nat) : Option (Nat × Nat) :=
  let rec go (rows : List (List Bool)) (k : Nat) : Option (Nat × Nat) :=
    match rows with
    | [] => none
    | r :: rs =>
      if k < x then go rs (k+1) else
      match (r.drop x).findIdx? id with
      | some l => some (k, x + l)
      | none => go rs (k+1)
  go B 0

def getE (B : Mat) (i j : Nat) : Bool := (B.getD i []).getD j false

def step (B : Mat) (x k l : Nat) : Mat :=
  let B1 := swapIdx B x k
  let B2 := B1.map (fun r => swapIdx r x l)
  let px := B2.getD x []
  -- zero column x in later rows
  let B3 := B2.zipIdx.map (fun (r, i) => if i > x && r.getD x false then xorRow r px else r)
  -- zero row x in later columns: col_j += col_x for j > x with B[x][j]
  let px3 := B3.getD x []
  B3.map (fun r => let rx := r.getD x false
                   r.zipIdx.map (fun (e, j) => if j > x && px3.getD j false then (e != rx) else e))

def reduce (B : Mat) (x : Nat) (fuel : Nat) : Mat :=
  match fuel with
  | 0 => B
  | fuel+1 =>
    match findPivot B x with
    | none => B
    | some (k, l) => reduce (step B x k l) (x+1) fuel

def snf (B : Mat) : Mat := reduce B 0 (min B.length (B.headD []).length)

def zeroCols (B : Mat) (ncols : Nat) : Nat :=
  (List.range ncols).countP (fun j => B.all (fun r => !(r.getD j false)))
def nonzeroRows (B : Mat) : Nat := B.countP (fun r => r.any id)

/-- all subsets of size k of range n, as sorted lists -/
def combos : Nat → List Nat → List (List Nat)
  | 0, _ => [[]]
  | _+1, [] => []
  | k+1, x :: xs => (combos k xs).map (x :: ·) ++ combos (k+1) xs

def sublist (a b : List Nat) : Bool := a.all (b.contains ·)

/-- boundary matrix of full simplex on n points, order k: rows (k)-subsets, cols (k+1)-subsets -/
def bd (n k : Nat) : Mat :=
  let rows := combos k (List.range n)
  let cols := combos (k+1) (List.range n)
  rows.map (fun r => cols.map (fun c => sublist r c))

def rankOf (n k : Nat) : Nat := nonzeroRows (snf (bd n k))
end Sp
