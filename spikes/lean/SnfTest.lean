import Sp.Snf
open Sp
#eval (List.range 7).map (fun k => rankOf 7 (k+1))
set_option maxRecDepth 100000 in
example : rankOf 5 2 = 6 := by decide +kernel
set_option maxRecDepth 100000 in
example : rankOf 7 3 = 20 := by decide +kernel
