import Sp.Snf
open Sp
set_option maxRecDepth 100000 in
example : rankOf 7 3 = 20 := by decide +kernel
