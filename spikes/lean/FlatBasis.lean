import Sp.Flat
/-! spike: newSimplex, simplexWithBasis, ensureBasis, _addSimplexWithBasis, addSimplexWithBasis on the flat model -/
namespace Flat

inductive Name | u (n : Nat) | auto (d i : Nat)
deriving Repr, DecidableEq

def Name.str : Name → String
  | .u n => s!"u{n}"
  | .auto d i => s!"{d}d{i}"

abbrev C := Cx Name

/-- Python-style result: value or exception, state always returned -/
abbrev R (ρ : Type) := Except Err ρ × C

/-- newSimplex: search from seq for an unused `{d}d{i}`; fuel = #names + 1 always suffices -/
def newSimplexAux (c : C) (d : Nat) : Nat → Nat → Nat
  | 0, i => i
  | fuel + 1, i => if c.contains (.auto d i) then newSimplexAux c d fuel (i + 1) else i

def newSimplex (c : C) (d : Nat) : Name × C :=
  let i := newSimplexAux c d (c.simps.length + 1) c.seq
  (.auto d i, { c with seq := i + 1 })

/-- addSimplex with optional id (validate, allocate name, mutate) -/
def addS (c : C) (fs : List Name) (id : Option Name) : R Name :=
  match id with
  | some n => match c.addSimplex fs n with
    | .ok c' => (.ok n, c')
    | .error e => (.error e, c)
  | none =>
    let k := fs.length - 1
    let (n, c1) := newSimplex c k
    match c.addSimplex fs n with       -- validation does not depend on seq
    | .ok c' => (.ok n, { c' with seq := c1.seq })
    | .error e => (.error e, c)

def isBasis (c : C) (bs : List Name) : Except Err Bool :=
  .ok (bs.all (fun b => c.orderOf? b == some 0))

def simplexWithBasis (c : C) (bs : List Name) : Option Name :=
  if !(bs.all (fun b => c.orderOf? b == some 0)) then none else
  match bs with
  | [] => none            -- Python: k = -1; loop over simplicesOfOrder(-1)…  (handled separately)
  | [b] => some b
  | _ =>
    let k := bs.length - 1
    ((c.ofOrder k).find? (fun s => setEqB s.basis bs)).map (·.name)

/-- itertools.combinations(bs, len(bs)-1): omit the last element first -/
def dropOne : List Name → List (List Name)
  | [] => []
  | x :: xs => (dropOne xs).map (x :: ·) ++ [xs]

/-- `_addSimplexWithBasis(id, attr, k, bs)`; fuel = bs.length -/
def addWBaux (id : Name) (k : Nat) : Nat → C → List Name → R Name
  | 0, c, _ => (.error .value, c)
  | fuel + 1, c, bs =>
    match simplexWithBasis c bs with
    | some s => (.ok s, c)
    | none =>
      -- create all facets, threading the state; stop at the first exception
      let rec loop (c : C) (acc : List Name) : List (List Name) → Except Err (List Name) × C
        | [] => (.ok acc, c)
        | p :: ps =>
          match addWBaux id k fuel c p with
          | (.ok f, c') => loop c' (if acc.contains f then acc else acc ++ [f]) ps
          | (.error e, c') => (.error e, c')
      match loop c [] (dropOne bs) with
      | (.error e, c') => (.error e, c')
      | (.ok fs, c') =>
        if k = bs.length - 1 then addS c' fs (some id) else addS c' fs none

def ensureBasis (c : C) : List Name → R Unit
  | [] => (.ok (), c)
  | b :: bs =>
    if c.contains b then
      if c.orderOf? b != some 0 then (.error .value, c) else ensureBasis c bs
    else match addS c [] (some b) with
      | (.ok _, c') => ensureBasis c' bs
      | (.error e, c') => (.error e, c')

/-- addSimplexWithBasis as in the *current* Python (name allocated first, not atomic) -/
def addSimplexWithBasis (c : C) (bs : List Name) (id : Option Name) : R Name :=
  let k := bs.length - 1
  let (n, c0) := match id with
    | some n => (n, c)
    | none => newSimplex c k
  match simplexWithBasis c0 bs with
  | some _ => (.error .key, c0)
  | none =>
    if k = 0 then addS c0 [] (some n) else
    match ensureBasis c0 bs with
    | (.error e, c1) => (.error e, c1)
    | (.ok _, c1) => addWBaux n k bs.length c1 bs

def dump (c : C) : String :=
  String.intercalate " " (c.simps.map (fun s => s!"{s.name.str}:{s.order}:[{String.intercalate "," (s.faces.map Name.str)}]"))

def demo : String :=
  let c0 : C := { simps := [] }
  let (_, c1) := addSimplexWithBasis c0 [.u 1, .u 2, .u 3] (some (.u 9))
  let (_, c2) := addSimplexWithBasis c1 [.u 2, .u 3, .u 4] none
  let (r, c3) := addSimplexWithBasis c2 [.u 1, .u 2] none
  dump c2 ++ " | " ++ (match r with | .ok n => n.str | .error e => "ERR") ++ " seq=" ++ toString c3.seq

#eval demo
end Flat
