import Sp.Snf
open Sp
set_option maxRecDepth 100000 in
example : rankOf 5 2 = 6 := by decide +kernel
