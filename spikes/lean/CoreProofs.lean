import Sp.Core
import Mathlib.Tactic.SplitIfs
namespace Sp
variable {α : Type} [DecidableEq α]

theorem flatten_modify_perm {β} (l : List (List β)) (k : Nat) (x : β) (hk : k < l.length) :
    (l.modify k (· ++ [x])).flatten.Perm (x :: l.flatten) := by
  induction l generalizing k with
  | nil => simp at hk
  | cons a l ih =>
    cases k with
    | zero => simp [List.modify]
    | succ k =>
      simp only [List.modify_succ_cons, List.flatten_cons]
      have := ih k (by simpa using hk)
      exact (List.Perm.append_left a this).trans List.perm_middle

/-- the only way addSimplex succeeds is by adding exactly one simplex named `id` -/
theorem addSimplex_all_perm {c c' : Cx α} {fs : List α} {id : α}
    (h : c.addSimplex fs id = .ok c') :
    ∃ s : Simp α, s.name = id ∧ s.faces = fs ∧ c.contains id = false ∧ c'.all.Perm (s :: c.all) := by
  unfold Cx.addSimplex at h
  simp only at h
  split_ifs at h with h1 h2 h3 h4 h5 h6 h7 h8 h9
  · -- point
    cases hc : c.ords with
    | nil => simp [hc] at h; subst h; exact ⟨⟨id, [], [id]⟩, rfl, by simp_all, by simpa using h2, by simp [Cx.all, hc]⟩
    | cons o os =>
      simp [hc] at h; subst h
      refine ⟨⟨id, [], [id]⟩, rfl, by simp_all, by simpa using h2, ?_⟩
      simp [Cx.all, hc]
  · simp at h; subst h
    refine ⟨⟨id, fs, (fs.flatMap c.basisOf).eraseDups⟩, rfl, rfl, by simpa using h2, ?_⟩
    simp only [Cx.all]
    exact flatten_modify_perm _ _ _ h9
  · simp at h; subst h
    refine ⟨⟨id, fs, (fs.flatMap c.basisOf).eraseDups⟩, rfl, rfl, by simpa using h2, ?_⟩
    simp [Cx.all]

theorem addSimplex_names_nodup {c c' : Cx α} {fs : List α} {id : α}
    (hn : c.names.Nodup) (hc : c.contains id = false → id ∉ c.names)
    (h : c.addSimplex fs id = .ok c') : c'.names.Nodup := by
  obtain ⟨s, hs, -, hni, hp⟩ := addSimplex_all_perm h
  have : c'.names.Perm (id :: c.names) := by
    simpa [Cx.names, hs] using hp.map (·.name)
  rw [this.nodup_iff, List.nodup_cons]
  exact ⟨hc hni, hn⟩
end Sp
