import Sp.FlagModel
open Flat
def mkC (pts : List Nat) (edges : List (Nat × Nat)) (tris : List (Nat × Nat × Nat)) : C := Id.run do
  let mut c : C := { simps := [] }
  for p in pts do
    c := (addS c [] (some (.u p))).2
  for (a, b) in edges do
    c := (addSimplexWithBasis c [.u a, .u b] none).2
  for (a, b, d) in tris do
    c := (addSimplexWithBasis c [.u a, .u b, .u d] none).2
  return c
def counts (c : C) : List Nat := (List.range 5).map (fun k => (c.ofOrder k).length)
-- hollow tetrahedron: all 4 triangles present
#eval counts (flagComplex (mkC [0,1,2,3] [(0,1),(0,2),(0,3),(1,2),(1,3),(2,3)] [(0,1,2),(0,1,3),(0,2,3),(1,2,3)])).2
-- K4 graph
#eval counts (flagComplex (mkC [0,1,2,3] [(0,1),(0,2),(0,3),(1,2),(1,3),(2,3)] [])).2
-- two tetrahedra sharing a vertex minus an edge, then grow
#eval
  let c := mkC [1,2,3,4,5,6,7] [(1,2),(1,3),(1,4),(2,3),(2,4),(3,4),(1,5),(1,6),(1,7),(5,7),(6,7)] []
  let f := (flagComplex c).2
  let (r, f2) := addSimplexWithBasis f [.u 5, .u 6] none
  let g := match r with | .ok n => (growFlag f2 [n]).2 | .error _ => f2
  (counts f, counts g)
