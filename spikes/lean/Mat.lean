/-! spike: GF(2) matrices with explicit shape; every operation is an entry formula (core Lean only) -/
namespace M2

structure Mat where
  m : Nat
  n : Nat
  e : List (List Bool)
deriving Repr, DecidableEq

def mk (m n : Nat) (f : Nat → Nat → Bool) : Mat :=
  ⟨m, n, (List.range m).map (fun i => (List.range n).map (fun j => f i j))⟩

def Mat.get (B : Mat) (i j : Nat) : Bool := (B.e.getD i []).getD j false

def swapN (a b i : Nat) : Nat := if i = a then b else if i = b then a else i

/-- first (k,l) in row-major order with x ≤ k < m, x ≤ l < n and B[k,l] -/
def findPivot (B : Mat) (x : Nat) : Option (Nat × Nat) :=
  ((List.range B.m).filter (x ≤ ·)).findSome? (fun k =>
    (((List.range B.n).filter (x ≤ ·)).find? (fun l => B.get k l)).map (fun l => (k, l)))

def step (B : Mat) (x k l : Nat) : Mat :=
  let B1 := mk B.m B.n (fun i j => B.get (swapN x k i) j)
  let B2 := mk B.m B.n (fun i j => B1.get i (swapN x l j))
  let B3 := mk B.m B.n (fun i j => if x < i && B2.get i x then (B2.get i j != B2.get x j) else B2.get i j)
  mk B.m B.n (fun i j => if x < j && B3.get x j then (B3.get i j != B3.get i x) else B3.get i j)

/-- mirror of `_reduceBoundaries` (labels omitted in this spike) -/
def reduce (B : Mat) (x : Nat) : Nat → Mat
  | 0 => B
  | fuel + 1 =>
    if x ≥ min B.m B.n then B else
    match findPivot B x with
    | none => B
    | some (k, l) => reduce (step B x k l) (x + 1) fuel

def snf (B : Mat) : Mat := reduce B 0 (min B.m B.n)

end M2
