import Sp.FlatFresh
import Sp.FlatClosed

/-! spike (C02): `_addSimplexWithBasis` after the D29 repair, restructured for proof:
the facet loop is a top-level function taking the recursive call as an argument. -/
namespace Flat

/-- generated name that avoids `id` (the D29 repair: `while fid == id: fid = newSimplex(...)`) -/
def newSimplexAvoid (c : C) (d : Nat) (id : Name) : Name × C :=
  let r := newSimplex c d
  if r.1 = id then newSimplex r.2 d else r

/-- add a face with a generated name avoiding `id` -/
def addFace (c : C) (fs : List Name) (id : Name) : R Name :=
  let k := fs.length - 1
  let r := newSimplexAvoid c k id
  match c.addSimplex fs r.1 with
  | .ok c' => (.ok r.1, { c' with seq := r.2.seq })
  | .error e => (.error e, c)

/-- the loop `for pfs in combinations(bs, len(bs)-1): fs.add(rec(pfs))` -/
def facetLoop (rec : C → List Name → R Name) : C → List Name → List (List Name) → Except Err (List Name) × C
  | c, acc, [] => (.ok acc, c)
  | c, acc, p :: ps =>
    match rec c p with
    | (.ok f, c') => facetLoop rec c' (if acc.contains f then acc else acc ++ [f]) ps
    | (.error e, c') => (.error e, c')

/-- `_addSimplexWithBasis(id, attr, k, bs)` with fuel `≥ bs.length` -/
def addWB (id : Name) (k : Nat) : Nat → C → List Name → R Name
  | 0, c, _ => (.error .value, c)
  | fuel + 1, c, bs =>
    match simplexWithBasis c bs with
    | some s => (.ok s, c)
    | none =>
      match facetLoop (addWB id k fuel) c [] (dropOne bs) with
      | (.error e, c') => (.error e, c')
      | (.ok fs, c') =>
        if k = bs.length - 1 then addS c' fs (some id) else addFace c' fs id

theorem inv_of_simps_eq {c c' : C} (h : c'.simps = c.simps) (hI : Inv c) : Inv c' := by
  obtain ⟨a, b, c1, d, e⟩ := hI
  exact ⟨h ▸ a, h ▸ b, h ▸ c1, h ▸ d, h ▸ e⟩

theorem contains_of_simps_eq {c c' : C} (h : c'.simps = c.simps) (n : Name) : c'.contains n = c.contains n := by
  unfold Cx.contains Cx.lookup; rw [h]

theorem newSimplex_idx {c : C} (hnd : (c.simps.map (·.name)).Nodup) (d : Nat) :
    ∃ i, (newSimplex c d).1 = .auto d i ∧ c.seq ≤ i ∧ (newSimplex c d).2.seq = i + 1 := by
  refine ⟨newSimplexAux c d (c.simps.length + 1) c.seq, rfl, ?_, rfl⟩
  exact (newSimplexAux_fresh hnd d (c.simps.length + 1) c.seq
    (by have := usedFrom_le c d c.seq; omega)).2

theorem newSimplexAvoid_spec {c : C} (hnd : (c.simps.map (·.name)).Nodup) (d : Nat) (id : Name) :
    c.contains (newSimplexAvoid c d id).1 = false ∧ (newSimplexAvoid c d id).1 ≠ id ∧
    (newSimplexAvoid c d id).2.simps = c.simps := by
  unfold newSimplexAvoid
  obtain ⟨h1, h2, h3⟩ := newSimplex_fresh hnd d
  simp only
  split_ifs with he
  · -- retry from the advanced counter
    have hnd' : ((newSimplex c d).2.simps.map (·.name)).Nodup := by rw [h2]; exact hnd
    obtain ⟨g1, g2, g3⟩ := newSimplex_fresh hnd' d
    refine ⟨?_, ?_, by rw [g2, h2]⟩
    · rw [← contains_of_simps_eq h2]; exact g1
    · -- the second name has a strictly larger index than the first (= id)
      obtain ⟨i, hi1, hi2, hi3⟩ := newSimplex_idx hnd d
      obtain ⟨j, hj1, hj2, hj3⟩ := newSimplex_idx hnd' d
      rw [hj1, ← he, hi1]
      intro heq
      injection heq with _ hidx
      omega
  · exact ⟨h1, he, h2⟩

#print axioms newSimplexAvoid_spec
end Flat
