"""Generators of op scripts. Every random choice comes from one `random.Random(seed)`."""
import itertools, random
from core import Executor, SimplicialComplex, Filtration

# ---------------------------------------------------------------------------------------------------------
# exhaustive enumeration of small complexes (as families of vertex sets)
# ---------------------------------------------------------------------------------------------------------
_cache = {}


def all_complexes(n):
    """all abstract simplicial complexes on subsets of range(n): n=3 -> 19, n=4 -> 167, n=5 -> 7580"""
    if n in _cache:
        return _cache[n]
    pts = list(range(n))
    subsets = [frozenset(s) for r in range(1, n + 1) for s in itertools.combinations(pts, r)]
    seen = {frozenset()}
    frontier = [frozenset()]
    while frontier:
        nxt = []
        for c in frontier:
            for s in subsets:
                if s in c:
                    continue
                if len(s) == 1 or all(frozenset(f) in c for f in itertools.combinations(sorted(s), len(s) - 1)):
                    d = frozenset(c | {s})
                    if d not in seen:
                        seen.add(d); nxt.append(d)
        frontier = nxt
    res = sorted(seen, key=lambda c: (len(c), sorted(map(sorted, c))))
    _cache[n] = res
    return res


def tokS(s):
    """token of the simplex on vertex set s: points are u<p>, higher simplices u<100+bitmask>"""
    s = sorted(s)
    if len(s) == 1:
        return 'u%d' % s[0]
    return 'u%d' % (100 + sum(1 << p for p in s))


def maximal(fam):
    return [s for s in fam if not any(s < t for t in fam)]


def build_lines(fam, h='c0', route='faces', rng=None, new=True, attrs=False):
    """op lines that build the complex `fam` on handle `h` by the given route"""
    lines = ['new ' + h] if new else []
    order = sorted(fam, key=lambda s: (len(s), sorted(s)))
    if route == 'shuffle' and rng is not None:
        # a random linear extension of the face order
        remaining = set(fam); order = []
        while remaining:
            ready = [s for s in remaining if len(s) == 1 or all(frozenset(f) not in remaining for f in itertools.combinations(sorted(s), len(s) - 1))]
            s = rng.choice(sorted(ready, key=lambda s: (len(s), sorted(s))))
            order.append(s); remaining.discard(s)
    if route in ('faces', 'shuffle'):
        for i, s in enumerate(order):
            d = '-'
            if attrs and i % 4 == 2:
                # an EMPTY dict object handed in by the caller (falsy, but still an object whose identity matters)
                lines.append('dict D%s%d {}' % (h, i))
                d = 'D%s%d' % (h, i)
            elif attrs and i % 4 != 3:        # every fourth simplex gets no attributes at all
                lines.append('dict D%s%d {1:%d}' % (h, i, len(s)))
                d = 'D%s%d' % (h, i)
            if len(s) == 1:
                lines.append('add %s %s [] %s' % (h, tokS(s), d))
            else:
                fs = ','.join(tokS(f) for f in itertools.combinations(sorted(s), len(s) - 1))
                lines.append('add %s %s [%s] %s' % (h, tokS(s), fs, d))
    elif route == 'basis':
        # points first (so isolated points exist), then every maximal simplex by basis with its tied name
        for s in order:
            if len(s) == 1:
                lines.append('add %s %s [] -' % (h, tokS(s)))
        for s in sorted(maximal(fam), key=lambda s: (len(s), sorted(s))):
            if len(s) > 1:
                lines.append('addb %s %s [%s] -' % (h, tokS(s), ','.join('u%d' % p for p in sorted(s))))
    elif route == 'superdel':
        # build the full simplex on all points of fam, then delete what is not in fam (largest first)
        pts = sorted({p for s in fam for p in s})
        full = [frozenset(q) for r in range(1, len(pts) + 1) for q in itertools.combinations(pts, r)]
        lines += build_lines(frozenset(full), h, 'faces', new=False)
        for s in sorted(full, key=lambda s: (-len(s), sorted(s))):
            if s not in fam and all(t in fam or not (t < s) or True for t in full):
                # deleting s removes its star; only delete minimal missing sets
                if not any(t not in fam and t < s for t in full):
                    lines.append('del %s %s' % (h, tokS(s)))
    else:
        raise ValueError(route)
    return lines


def fam_of_tokens(fam):
    return {tokS(s): s for s in fam}


# ---------------------------------------------------------------------------------------------------------
# random histories, generated against the live implementation so that most calls are valid
# ---------------------------------------------------------------------------------------------------------
CURRENT = [None]      # the script under construction (for reporting when inspecting the implementation raises)


class HistGen:
    def __init__(self, seed, pool='int', npoints=6, invalid=0.15, profile='mutators'):
        CURRENT[0] = self
        self.rng = random.Random(seed)
        self.ex = Executor(pool)
        self.lines = []
        self.out = []
        self.npoints = npoints
        self.invalid = invalid
        self.fresh = 200
        self.nd = 0
        self.profile = profile
        self.do('reset ' + pool)

    def do(self, line):
        self.lines.append(line)
        r = self.ex.run(line)
        self.out.append(r)
        return r

    def tok_names(self, h):
        c = self.ex.objs[h]
        return [self.ex.T(s) for s in SimplicialComplex.simplices(c)]

    def fresh_tok(self):
        r = self.rng.random()
        if r < 0.15:
            return 'a%d.%d' % (self.rng.randrange(3), self.rng.randrange(6))
        self.fresh += 1
        return 'u%d' % self.fresh

    def some(self, l, k=None):
        if not l:
            return []
        k = k if k is not None else self.rng.randrange(1, min(4, len(l)) + 1)
        return self.rng.sample(l, min(k, len(l)))

    def new_dict(self):
        self.nd += 1
        h = 'D%d' % self.nd
        self.do('dict %s {%s}' % (h, ','.join('%d:%d' % (k, self.rng.randrange(5)) for k in self.rng.sample(range(4), self.rng.randrange(0, 3)))))
        return h

    def points(self, h):
        c = self.ex.objs[h]
        return [self.ex.T(s) for s in SimplicialComplex.simplicesOfOrder(c, 0)]

    def step_mutator(self, h):
        rng = self.rng
        c = self.ex.objs[h]
        names = self.tok_names(h)
        pts = self.points(h)
        bad = rng.random() < self.invalid
        kind = rng.choice(['add0', 'add0', 'addf', 'addf', 'addb', 'addb', 'addb', 'del', 'delb', 'dels', 'restrict',
                           'subdiv', 'relabel', 'relabel1', 'delsorder', 'setattr', 'dset'])
        if kind == 'add0':
            id = '-' if rng.random() < 0.3 else (rng.choice(names) if bad and names else self.fresh_tok())
            d = self.new_dict() if rng.random() < 0.3 else '-'
            return self.do('add %s %s [] %s' % (h, id, d))
        if kind == 'addf':
            # faces of a missing simplex whose facets are all present
            cand = []
            base = SimplicialComplex
            k = rng.randrange(1, 4)
            if len(pts) > k:
                for _ in range(6):
                    bs = rng.sample(pts, k + 1)
                    fs = []
                    for q in itertools.combinations(bs, k):
                        f = base.simplexWithBasis(c, [self.ex.name(x) for x in q])
                        fs.append(None if f is None else self.ex.T(f))
                    if all(f is not None for f in fs):
                        cand = fs; break
            if bad or not cand:
                fs = self.some(names, rng.randrange(1, 4)) if names else []
                if rng.random() < 0.3 and fs:
                    fs = fs + [fs[0]]
                cand = fs
            # stay inside the contract of addSimplex: faces that would be accepted must be the facets of one simplex
            objs = [self.ex.name(x) for x in cand]
            if len(set(cand)) == len(cand) and len(cand) >= 3 and all(o in c for o in objs):
                orders = {base.orderOf(c, o) for o in objs}
                if orders == {len(cand) - 2}:
                    pts_ = set().union(*[base.basisOf(c, o) for o in objs])
                    if len(pts_) != len(cand):
                        return None
            id = '-' if rng.random() < 0.4 else (rng.choice(names) if bad and names and rng.random() < 0.5 else self.fresh_tok())
            return self.do('add %s %s [%s] -' % (h, id, ','.join(cand)))
        if kind == 'addb':
            pool = pts + [self.fresh_tok() for _ in range(2)]
            if bad and names:
                pool = pool + self.some(names, 2)
            bs = self.some(list(dict.fromkeys(pool)), rng.randrange(1, 5))   # a basis never repeats a point (out of contract)
            id = '-' if rng.random() < 0.4 else (rng.choice(names) if bad and names and rng.random() < 0.5 else self.fresh_tok())
            d = self.new_dict() if rng.random() < 0.3 else '-'
            return self.do('addb %s %s [%s] %s' % (h, id, ','.join(bs), d))
        if kind == 'del':
            s = self.fresh_tok() if (bad or not names) else rng.choice(names)
            return self.do('%s %s %s' % (rng.choice(['del', 'del', 'delitem']), h, s))
        if kind == 'delb':
            bs = self.some(pts, rng.randrange(1, 4)) if pts else []
            return self.do('delb %s [%s]' % (h, ','.join(bs)))
        if kind == 'dels':
            ss = self.some(names + [self.fresh_tok()], rng.randrange(0, 4))
            return self.do('dels %s [%s]' % (h, ','.join(ss)))
        if kind == 'restrict':
            if rng.random() < 0.5:
                return None
            bs = self.some(pts, max(1, len(pts) - rng.randrange(0, 3))) if pts else []
            if bad:
                bs = bs + [self.fresh_tok()]
            return self.do('restrict %s [%s]' % (h, ','.join(bs)))
        if kind == 'subdiv':
            hi = [t for t in names if SimplicialComplex.orderOf(c, self.ex.name(t)) > 0]
            s = rng.choice(names) if (bad and names) else (rng.choice(hi) if hi else None)
            if s is None:
                return None
            so = self.ex.name(s)
            order = [self.ex.T(x) for x in list(SimplicialComplex.basisOf(c, so))] if so in c else []
            return self.do('subdiv %s %s [%s]' % (h, s, ','.join(order)))
        if kind == 'relabel':
            if not names:
                return None
            src = self.some(names, rng.randrange(1, 4))
            ren = []
            for s in src:
                tgt = rng.choice(names) if (bad and rng.random() < 0.5) else (self.fresh_tok() if rng.random() < 0.8 else 'u%d' % rng.randrange(10, 13))
                ren.append('%s:%s' % (s, tgt))
            return self.do('relabel %s {%s}' % (h, ','.join(ren)))
        if kind == 'relabel1':
            if not names:
                return None
            src = rng.choice(names)
            r = rng.random()
            tgt = src if r < 0.15 else (rng.choice(names) if r < 0.3 else (self.fresh_tok() if r < 0.9 else 'u%d' % rng.randrange(10, 13)))
            return self.do('relabel1 %s %s %s' % (h, src if not bad else rng.choice(names + [self.fresh_tok()]), tgt))
        if kind == 'delsorder':
            if rng.random() < 0.6:
                return None
            return self.do('delsorder %s %d' % (h, rng.randrange(0, 4)))
        if kind == 'setattr':
            if not names:
                return None
            return self.do('setattr %s %s %s' % (h, rng.choice(names), self.new_dict()))
        if kind == 'dset':
            if not names:
                return None
            return self.do('dset %s %s %d %d' % (h, rng.choice(names), rng.randrange(4), rng.randrange(5)))

    def observe(self, h, full=True):
        self.do('obs ' + h)
        if full:
            c = self.ex.objs[h]
            for k in range(SimplicialComplex.maxOrder(c) + 2):
                self.do('q %s bop %d' % (h, k))


def history(seed, pool='int', nops=25, npoints=6, invalid=0.15, obs_every=1):
    g = HistGen(seed, pool, npoints, invalid)
    g.do('new c0')
    for i in range(nops):
        g.step_mutator('c0')
        if obs_every and i % obs_every == 0:
            g.observe('c0', full=False)
    g.observe('c0')
    return g
