"""Per-property case generators. `cases(pid, tier, seed)` yields case dicts for runner.run_cases.
quick: the check run on every change (about a minute on 16 cores); thorough: the deep exploration."""
import itertools, random, math
from core import Executor, SimplicialComplex, Filtration, POOL_NAMES
from gen import all_complexes, build_lines, tokS, maximal, HistGen, history

B = SimplicialComplex


class Live:
    """records op lines while executing them on the implementation (so that generated calls are mostly valid)"""
    def __init__(self, pool='int', tag='', **kw):
        import gen as _g
        _g.CURRENT[0] = self
        self.ex = Executor(pool)
        self.pool = pool
        self.lines = []
        self.tag = tag
        self.kw = kw
        self.cmp = {}

    def do(self, line):
        self.lines.append(line)
        if line.startswith('!'):
            return None
        return self.ex.run(line)

    def many(self, lines):
        for l in lines:
            self.do(l)

    def toks(self, h, order=None):
        c = self.ex.objs[h]
        ss = B.simplices(c) if order is None else B.simplicesOfOrder(c, order)
        return [self.ex.T(s) for s in ss]

    def case(self):
        d = dict(lines=self.lines, pool=self.pool, tag=self.tag)
        d.update(self.kw)
        if self.cmp:
            d['cmp'] = self.cmp
        return d


def fams_for(tier, rng, n_quick=4, n_thorough=5, sample_thorough=None):
    if tier == 'quick':
        return all_complexes(n_quick)
    f = all_complexes(n_thorough)
    if sample_thorough and len(f) > sample_thorough:
        small = all_complexes(n_quick)
        f = small + rng.sample(f, sample_thorough)
    return f


def pts_of(fam):
    return sorted({p for s in fam for p in s})


def falsify_lines(fam, h, rng, top_first=True):
    """relabel up to three simplices of order > 0 (the highest orders first) to the tokens u10, u11, u12, which are
    the names '', 0 and () in the pool `falsy` (ordinary names in the other pools)"""
    hi = sorted((s for s in fam if len(s) > 1), key=lambda s: (-len(s) if top_first else rng.random(), sorted(s)))[:3]
    return ['relabel %s {%s:%s}' % (h, tokS(s), f) for s, f in zip(hi, rng.sample(['u10', 'u11', 'u12'], 3))]


def Lst(toks):
    return '[' + ','.join(toks) + ']'


# ---------------------------------------------------------------------------------------------------------
# C01
# ---------------------------------------------------------------------------------------------------------
def c01(tier, seed):
    rng = random.Random(seed)
    fams = fams_for(tier, rng, 4, 5, 1200)
    routes = ['faces', 'basis', 'shuffle', 'superdel']
    for i, fam in enumerate(fams):
        route = routes[i % 4] if tier == 'quick' else rng.choice(routes)
        for r in ([route] if len(fam) > 6 else routes):
            lines = []
            for l in build_lines(fam, 'c0', r, rng):
                lines += [l, 'obs c0', '!inv c0']
            if POOL_NAMES[i % len(POOL_NAMES)] == 'falsy' and r == 'faces':
                # higher simplices called '', 0, (); then a second simplex on the faces of each (must be refused)
                hi = sorted((x for x in fam if len(x) > 1), key=lambda x: (-len(x), sorted(x)))[:3]
                for x, f in zip(hi, ['u10', 'u11', 'u12']):
                    lines += ['relabel c0 {%s:%s}' % (tokS(x), f), 'obs c0', '!inv c0']
                for j, x in enumerate(hi):
                    fs = [tokS(y) if frozenset(y) not in hi else ['u10', 'u11', 'u12'][hi.index(frozenset(y))]
                          for y in itertools.combinations(sorted(x), len(x) - 1)]
                    lines += ['add c0 u%d %s -' % (900 + j, Lst(fs)), 'obs c0', '!inv c0']
            yield dict(lines=lines, pool=POOL_NAMES[i % len(POOL_NAMES)], tag='C01 build %s %s' % (r, sorted(map(sorted, fam))), judge=True)
    nh = 2000 if tier == 'quick' else 12000
    nops = 25 if tier == 'quick' else 60
    for j in range(nh):
        pool = POOL_NAMES[j % len(POOL_NAMES)]
        g = HistGen(seed * 100003 + j, pool)
        g.do('new c0')
        for _ in range(rng.randrange(5, nops)):
            r = g.step_mutator('c0')
            if r is not None:
                g.do('obs c0'); g.lines.append('!inv c0'); g.out.append('ok')
        g.lines.append('!api c0'); g.out.append('ok')
        yield dict(lines=g.lines, pool=pool, tag='C01 history seed=%d' % (seed * 100003 + j), judge=True)


# ---------------------------------------------------------------------------------------------------------
# C02
# ---------------------------------------------------------------------------------------------------------
def c02(tier, seed):
    rng = random.Random(seed)
    fams = fams_for(tier, rng, 4, 5, 400)
    for i, fam in enumerate(fams):
        pool = POOL_NAMES[i % len(POOL_NAMES)]
        base = build_lines(fam, 'c0', 'faces', attrs=True)
        names = {tokS(s): s for s in fam}
        pts = ['u%d' % p for p in pts_of(fam)]
        thin = (tier == 'quick' and len(fam) > 9)
        # delete every simplex
        for t in (rng.sample(sorted(names), 3) if thin else sorted(names)):
            yield dict(lines=base + ['!snap c0', 'del c0 ' + t, '!post-del c0 ' + t, 'obs c0'], pool=pool, tag='C02 delete %s' % t)
            yield dict(lines=base + ['!snap c0', 'delitem c0 ' + t, '!post-del c0 ' + t, 'obs c0', '!inv c0'], pool=pool, tag='C02 del c[%s]' % t)
        # restrict to every subset of the points
        subs = [list(q) for r in range(0, len(pts) + 1) for q in itertools.combinations(pts, r)]
        for q in (rng.sample(subs, 3) if thin else subs):
            yield dict(lines=base + ['!snap c0', 'restrict c0 ' + Lst(q), '!post-restrict c0 ' + Lst(q), 'obs c0'], pool=pool, tag='C02 restrict')
            if q and len(q) < len(pts):
                # the same set of points written with repeats (as many entries as the complex has points, and more)
                qq = [q[j % len(q)] for j in range(len(pts) + (i % 2))]
                rng.shuffle(qq)
                yield dict(lines=base + ['!snap c0', 'restrict c0 ' + Lst(qq), '!post-restrict c0 ' + Lst(qq), 'obs c0'], pool=pool, tag='C02 restrict, points repeated')
        # subdivide every simplex of order > 0 (the basis enumeration is read from the interpreter)
        hi = [t for t, s in sorted(names.items()) if len(s) > 1]
        for t in (rng.sample(hi, min(2, len(hi))) if thin else hi):
            L = Live(pool, 'C02 subdivide %s' % t)
            L.many(base)
            c = L.ex.objs['c0']
            order = [L.ex.T(x) for x in list(B.basisOf(c, L.ex.name(t)))]
            L.do('!snap c0')
            r = L.do('subdiv c0 %s %s' % (t, Lst(order)))
            L.do('!post-subdiv c0 %s %s' % (t, r.split()[1] if r.startswith('ok ') else 'u999'))
            L.do('obs c0')
            yield L.case()
        # delete a whole order through the library's own listing
        for k in range(0, max(len(x) for x in fam) + 1) if fam else []:
            if thin and rng.random() < 0.5:
                continue
            yield dict(lines=base + ['!snap c0', 'delsorder c0 %d' % k, '!post-delsorder c0 %d' % k, 'obs c0', '!noalias c0'], pool=pool, tag='C02 delete order %d' % k)
        # delete a list: a simplex, then a member of its star (already gone when its turn comes), an unknown
        # name and an unrelated simplex -- in that order, reversed and shuffled
        srt = sorted(names)
        for t in (rng.sample(srt, min(2, len(srt))) if thin else srt):
            star = [x for x in srt if names[t] < names[x]]
            rest = [x for x in srt if not names[t] <= names[x]]
            lst = [t] + ([rng.choice(star)] if star else []) + ['u990'] + ([rng.choice(rest)] if rest else [])
            for variant in (lst, lst[::-1], rng.sample(lst, len(lst))):
                yield dict(lines=base + ['!snap c0', 'dels c0 ' + Lst(variant), '!post-dels c0 ' + Lst(variant), 'obs c0', '!inv c0'],
                           pool=pool, tag='C02 deleteSimplices %s' % variant)
        # add by basis: every missing vertex set over the points and one or two new points
        uni = pts + ['u50', 'u51']
        cand = [list(q) for r in range(1, min(len(uni), 4) + 1) for q in itertools.combinations(uni, r)
                if frozenset(int(x[1:]) for x in q) not in fam and not (r == 1 and q[0] in pts)]
        for q in (rng.sample(cand, min(4, len(cand))) if thin else cand):
            idt = rng.choice(['u60', '-', 'a1.0', 'a0.0', 'a2.1', 'u11'])      # u11 is 0 in the pool of falsy names
            d = rng.choice(['-', 'DX'])
            lines = base + (['dict DX {2:7}'] if d == 'DX' else []) + ['!snap c0']
            L = Live(pool, 'C02 addb %s id=%s' % (q, idt))
            L.many(lines)
            r = L.do('addb c0 %s %s %s' % (idt, Lst(q), d))
            if r.startswith('ok '):
                L.do('!post-addb c0 %s %s %s' % (r.split()[1], Lst(q), d))
            L.do('obs c0')
            if d == '-' and r.startswith('ok '):
                # no attributes were given: what is written on the new simplex stays there - another complex, and
                # simplices added later without attributes, start empty
                L.do('dset c0 %s 1 9' % r.split()[1])
                L.do('new c1'); r1 = L.do('addb c1 - [u70,u71] -'); L.do('obs c1'); L.do('!noshare c0 c1')
                r2 = L.do('addb c0 - [u72,u73] -')
                if r2.startswith('ok '):
                    L.do('q c0 attr ' + r2.split()[1]); L.do('q c0 attr u72')
                L.do('obs c0')
            yield L.case()
        # add by faces: every missing simplex whose facets are present
        P = pts_of(fam)
        for r in range(2, len(P) + 1):
            for q in itertools.combinations(P, r):
                if frozenset(q) in fam or not all(frozenset(f) in fam for f in itertools.combinations(q, r - 1)):
                    continue
                if thin and rng.random() < 0.6:
                    continue
                fs = [tokS(f) for f in itertools.combinations(q, r - 1)]
                rng.shuffle(fs)
                L = Live(pool, 'C02 add by faces %s' % (q,))
                L.many(base + ['dict DX {0:1}', '!snap c0'])
                idt = rng.choice(['u70', '-'])
                res = L.do('add c0 %s %s DX' % (idt, Lst(fs)))
                if res.startswith('ok '):
                    L.do('!post-add c0 %s DX' % res.split()[1])
                L.do('obs c0')
                yield L.case()
        # a name re-used for another vertex set: ask for the basis, delete, add the same name on other faces
        P = pts_of(fam)
        reuse = [(t, q) for t in sorted(names) if len(names[t]) > 1 for q in itertools.combinations(P, len(names[t]))
                 if frozenset(q) != names[t] and not frozenset(q) in fam - {names[t]}
                 and all(frozenset(f) in fam and not names[t] <= frozenset(f) for f in itertools.combinations(q, len(q) - 1))]
        for t, q in (rng.sample(reuse, min(2, len(reuse))) if thin else reuse[:6]):
            fs = [tokS(f) for f in itertools.combinations(q, len(q) - 1)]
            yield dict(lines=base + ['q c0 basis ' + t, 'del c0 ' + t, 'dict DX {0:1}', '!snap c0', 'add c0 %s %s DX' % (t, Lst(fs)),
                                     '!lastok adding_a_simplex_whose_facets_are_present', '!post-add c0 %s DX' % t, 'q c0 basis ' + t,
                                     'obs c0', '!inv c0', '!views c0'],
                       pool=pool, tag='C02 name %s re-used on %s' % (t, q))
        # copy into a supplied complex that has no simplices (new, or emptied by deletions)
        if not thin or rng.random() < 0.3:
            yield dict(lines=base + ['new c1', '!snap c1 c0', 'copyinto c0 c1', '!lastok copy_into_an_empty_complex', '!samecontent c0 c1', 'obs c1',
                                     'new c2', 'add c2 u960 [] -', 'del c2 u960', 'copyinto c0 c2', '!samecontent c0 c2', 'obs c2', '!same c0'],
                       pool=pool, tag='C02 copy into an empty complex')
        # bulk add into another complex under a renaming
        if not thin or rng.random() < 0.3:
            ren = {t: 'u%d' % (300 + j) for j, t in enumerate(sorted(names)) if rng.random() < 0.5}
            for j, t in enumerate(rng.sample(sorted(names), min(3, len(names)))):
                if rng.random() < 0.5:
                    ren[t] = 'u%d' % (10 + j)          # '', 0, () in the pool of falsy names
            rs = '{' + ','.join('%s:%s' % kv for kv in ren.items()) + '}'
            other = ['new c1', 'add c1 u200 [] -', 'add c1 u201 [] -', 'addb c1 u202 [u200,u201] -']
            yield dict(lines=base + other + ['!snap c1', 'addfrom c1 c0 ' + rs, '!post-addfrom c1 c0 ' + rs, 'obs c1', 'obs c0'],
                       pool=pool, tag='C02 addSimplicesFrom')


    # the same effects on a complex that happens to be a Filtration positioned anywhere (its whole stored complex)
    for j in range(150 if tier == 'quick' else 2000):
        g = FiltGen(seed * 7919 + j, POOL_NAMES[j % len(POOL_NAMES)])
        g.run(rng.randrange(6, 18))
        for _ in range(2):
            names = g.alltoks()
            if not names:
                break
            t = rng.choice(names)
            g.do('setidx f %d' % rng.choice(IDX))
            g.do('!snap f'); g.do('del f ' + t); g.do('!post-del f ' + t); g.do('obs f')
        yield g.case('C02 delete in a filtration seed=%d' % (seed * 7919 + j))


# ---------------------------------------------------------------------------------------------------------
# C03
# ---------------------------------------------------------------------------------------------------------
def c03(tier, seed):
    rng = random.Random(seed)
    nh = 1500 if tier == 'quick' else 10000
    for j in range(nh):
        pool = POOL_NAMES[j % len(POOL_NAMES)]
        g = HistGen(seed * 7919 + j, pool, invalid=0.05)
        g.do('new c0')
        # a body first, then a deletion-heavy history
        for bs in (['u1', 'u2', 'u3', 'u4'], ['u3', 'u4', 'u5'], ['u5', 'u6']):
            if rng.random() < 0.8:
                g.do('addb c0 - %s -' % Lst(bs[:rng.randrange(2, len(bs) + 1)]))
        for _ in range(rng.randrange(4, 16 if tier == 'quick' else 40)):
            names = g.tok_names('c0')
            if names and rng.random() < 0.45:
                g.do('del c0 ' + rng.choice(names))
            else:
                g.step_mutator('c0')
            g.lines.append('!views c0'); g.out.append('ok')
            c = g.ex.objs['c0']
            for k in range(B.maxOrder(c) + 2):
                g.do('q c0 bop %d' % k)
        c = g.ex.objs['c0']
        for t in g.tok_names('c0'):
            for q in ('index', 'faces', 'cofaces', 'basis'):
                g.do('q c0 %s %s' % (q, t))
        for k in range(1, B.maxOrder(c) + 1):
            ks = g.ex.fl(B.simplicesOfOrder(c, k))[1:-1].split(',')
            for _ in range(3):
                ch = rng.sample(ks, rng.randrange(1, len(ks) + 1))
                g.do('q c0 boundary ' + Lst(ch))
                g.lines.append('!chain c0 ' + Lst(ch)); g.out.append('ok')
        g.do('obs c0')
        g.lines.append('!noalias c0'); g.out.append('ok')
        g.lines.append('!api c0'); g.out.append('ok')
        g.lines.append('!views c0'); g.out.append('ok')
        g.do('obs c0')
        yield dict(lines=g.lines, pool=pool, tag='C03 history seed=%d' % (seed * 7919 + j))
    # Layer R: histories of the three primitive representation calls (raw forceDeleteSimplex included), compared
    # with the matrix-level model `MatRep.Rep` (indices, boundary operators, basis matrices, all queries)
    for j in range(500 if tier == 'quick' else 5000):
        pool = POOL_NAMES[j % len(POOL_NAMES)]
        L = Live(pool, 'C03 representation-level history seed=%d/%d' % (seed, j))
        L.do('rnew r')
        fresh = 0
        closed = True       # no simplex has been removed from under its cofaces so far
        for _ in range(rng.randrange(4, 30 if tier == 'quick' else 60)):
            rep = L.ex.reps['r'].representation()
            mo = rep.maxOrder()
            by = [[L.ex.T(x) for x in rep.simplicesOfOrder(k)] for k in range(mo + 1)]
            names = [t for l in by for t in l]
            k = rng.choice(['pt', 'pt', 'hi', 'hi', 'hi', 'bad', 'rel', 'del', 'del'])
            if k == 'pt' or not names:
                fresh += 1; L.do('radd r u%d []' % fresh)
            elif k == 'hi':
                o = rng.randrange(0, mo + 1)
                if len(by[o]) >= o + 2:
                    fresh += 1; L.do('radd r u%d %s' % (fresh, Lst(rng.sample(by[o], o + 2))))
            elif k == 'bad':
                fresh += 1
                fs = rng.sample(names, min(len(names), rng.randrange(1, 4))) + rng.choice([[], ['u999'], [names[0]]])
                L.do('radd r %s %s' % (rng.choice(['u%d' % fresh, rng.choice(names)]), Lst(fs)))
            elif k == 'rel':
                fresh += 1; L.do('rrel r %s %s' % (rng.choice(names + ['u998']), rng.choice(['u%d' % fresh, rng.choice(names)])))
            else:
                # mostly deletions that keep the structure closed (no cofaces), sometimes a raw one
                free = [t for t in names if not rep.cofaces(L.ex.name(t))]
                t = rng.choice(free) if free and rng.random() < 0.8 else rng.choice(names + ['u997'])
                closed = closed and (t in free or t == 'u997')
                L.do('rdel r ' + t)
            L.do('robs r')
            if closed:
                L.do('!rviews r')
        yield L.case()
    for fam in ([frozenset()] + all_complexes(2)):
        yield dict(lines=build_lines(fam, 'c0') + ['!views c0', 'q c0 bop 0', 'q c0 bop 1', 'q c0 bop 2', 'q c0 betti [0]'], pool='int', tag='C03 tiny')


# ---------------------------------------------------------------------------------------------------------
# C04
# ---------------------------------------------------------------------------------------------------------
def c04(tier, seed):
    rng = random.Random(seed)
    fams = fams_for(tier, rng, 4, 5, 1500)
    for i, fam in enumerate(fams):
        pool = POOL_NAMES[i % len(POOL_NAMES)]
        route = ['faces', 'basis', 'shuffle'][i % 3]
        L = Live(pool, 'C04 %s %s' % (route, sorted(map(sorted, fam))))
        L.many(build_lines(fam, 'c0', route, rng))
        L.do('!lookups c0')
        names = L.toks('c0')
        pts = L.toks('c0', 0)
        for t in names:
            for rev in 'FT':
                for ex_ in 'FT':
                    L.do('q c0 closure %s %s %s' % (t, rev, ex_))
                    L.do('q c0 part %s %s %s' % (t, rev, ex_))
            L.do('q c0 cofaces ' + t)
        for r in range(1, min(len(pts), 3) + 1):
            for q in itertools.combinations(pts, r):
                L.do('q c0 swb ' + Lst(q))
                if r <= 2:
                    L.do('q c0 swb ' + Lst(list(q) + [q[0]]))      # a repeated point: no such simplex
        for a, b in itertools.combinations(names, 2):
            if len(names) <= 8 or rng.random() < 0.2:
                L.do('q c0 disjoint ' + Lst([a, b]))
        for _ in range(4):
            if len(names) >= 3:
                L.do('q c0 disjoint ' + Lst(rng.sample(names, 3)))
        c = L.ex.objs['c0']
        for t in names:
            s = L.ex.name(t)
            if B.orderOf(c, s) > 0:
                L.do('q c0 swf ' + Lst([L.ex.T(x) for x in B.faces(c, s)]))
        L.do('q c0 closure u77 F F'); L.do('q c0 part u77 F F'); L.do('q c0 disjoint [u77]')
        L.do('!noalias c0'); L.do('!lookups c0')        # the listings handed out are the caller's to change
        yield L.case()
    # after deletions and relabelling
    for j in range(400 if tier == 'quick' else 4000):
        pool = POOL_NAMES[j % len(POOL_NAMES)]
        g = history(seed * 31 + j, pool, nops=18, obs_every=0)
        g.lines.append('!lookups c0'); g.out.append('ok')
        for t in g.tok_names('c0'):
            g.do('q c0 closure %s F F' % t); g.do('q c0 part %s T T' % t)
        g.lines += ['!noalias c0', '!lookups c0']; g.out += ['ok', 'ok']
        yield dict(lines=g.lines, pool=pool, tag='C04 after history seed=%d' % (seed * 31 + j))


# ---------------------------------------------------------------------------------------------------------
# C05
# ---------------------------------------------------------------------------------------------------------
def bad_requests(L, rng):
    """documented-invalid requests for the complex on handle c0 of the live executor, as (kind, line)"""
    c = L.ex.objs['c0']
    names = L.toks('c0'); pts = L.toks('c0', 0)
    T = L.ex.T
    out = []
    mo = B.maxOrder(c)
    by = {k: [T(s) for s in B.simplicesOfOrder(c, k)] for k in range(mo + 1)}
    if names:
        n = rng.choice(names)
        out.append(('duplicate name (point)', 'add c0 %s [] -' % n))
        out.append(('duplicate name (by basis)', 'addb c0 %s [u80,u81] -' % n))
        if len(pts) >= 2:
            out.append(('duplicate name (by faces)', 'add c0 %s %s -' % (n, Lst(rng.sample(pts, 2)))))
            out.append(('duplicate name (by basis, existing points)', 'addb c0 %s %s -' % (n, Lst(rng.sample(pts, 2)))))
    if pts:
        out.append(('unknown face', 'add c0 u82 %s -' % Lst([pts[0], 'u83'])))
        out.append(('unknown face generated name', 'add c0 - %s -' % Lst([pts[0], 'u83'])))
        out.append(('repeated face', 'add c0 u82 %s -' % Lst([pts[0], pts[0]])))
        out.append(('wrong number of faces', 'add c0 u82 %s -' % Lst([pts[0]])))
        out.append(('wrong number of faces generated name', 'add c0 - %s -' % Lst([pts[0]])))
    if len(pts) >= 3:
        out.append(('faces of the wrong order', 'add c0 u82 %s -' % Lst(rng.sample(pts, 3))))
        out.append(('faces of the wrong order generated name', 'add c0 - %s -' % Lst(rng.sample(pts, 3))))
    if mo >= 1 and len(pts) >= 1:
        out.append(('faces of mixed order', 'add c0 u82 %s -' % Lst([by[1][0], pts[0]])))
    # order more than one above the maximum: mo+3 faces of order <= mo
    top = by.get(mo, [])
    allk = names
    if len(allk) >= mo + 3:
        out.append(('order more than one above the maximum', 'add c0 u82 %s -' % Lst(rng.sample(allk, mo + 3))))
        out.append(('order more than one above the maximum generated name', 'add c0 - %s -' % Lst(rng.sample(allk, mo + 3))))
    hi = [t for t in names if B.orderOf(c, L.ex.name(t)) > 0]
    if hi:
        s = rng.choice(hi); so = L.ex.name(s)
        fs = [T(x) for x in B.faces(c, so)]; rng.shuffle(fs)
        out.append(('faces already define a simplex', 'add c0 u82 %s -' % Lst(fs)))
        out.append(('faces already define a simplex generated name', 'add c0 - %s -' % Lst(fs)))
        bs = [T(x) for x in B.basisOf(c, so)]; rng.shuffle(bs)
        out.append(('basis already defines a simplex', 'addb c0 u82 %s -' % Lst(bs)))
        out.append(('basis already defines a simplex generated name', 'addb c0 - %s -' % Lst(bs)))
        out.append(('non-point in a basis', 'addb c0 u82 %s -' % Lst([s] + pts[:1])))
        out.append(('non-point after new points in a basis', 'addb c0 u82 %s -' % Lst(['u84', 'u85', s])))
        out.append(('non-point in a basis generated name', 'addb c0 - %s -' % Lst(['u84', s])))
        out.append(('subdivide unknown', 'subdiv c0 u86 []'))
    out.append(('name equal to a new basis point', 'addb c0 u84 [u85,u84] -'))
    if pts:
        out.append(('name equal to a new basis point next to existing', 'addb c0 u84 %s -' % Lst([pts[0], 'u84'])))
    if pts:
        out.append(('existing point as one-point basis', 'addb c0 u82 %s -' % Lst([pts[0]])))
        out.append(('subdivide a point', 'subdiv c0 %s %s' % (pts[0], Lst([pts[0]]))))
    if len(names) >= 2:
        a, b = rng.sample(names, 2)
        out.append(('relabel onto a name in use', 'relabel c0 {%s:%s}' % (a, b)))
        rest = [t for t in names if t not in (a, b)]
        if rest:
            # an earlier simplex gets a fine new name, a later one collides: nothing may be renamed
            first, second = sorted([a, rest[0]], key=names.index)
            out.append(('relabel partly onto a name in use', 'relabel c0 {%s:u87,%s:%s}' % (first, second, b)))
        out.append(('relabel two simplices onto one name', 'relabel c0 {%s:u88,%s:u88}' % (a, b)))
    if names:
        n = rng.choice(names)
        out.append(('generator asked for a name in use', 'ksimplex c0 old %d %s -' % (rng.randrange(1, 4), n)))
        out.append(('generator asked for a name in use (a point)', 'ksimplex c0 old 0 %s -' % n))
    out.append(('delete unknown', 'del c0 u86'))
    out.append(('delete unknown basis', 'delb c0 [u86]'))
    if len(pts) >= 2:
        miss = [q for q in itertools.combinations(pts, 2) if B.simplexWithBasis(c, [L.ex.name(x) for x in q]) is None]
        if miss:
            out.append(('delete missing basis', 'delb c0 ' + Lst(miss[0])))
    out.append(('restrict unknown', 'restrict c0 ' + Lst(pts[:1] + ['u86'])))
    if pts:
        out.append(('restrict with a repeated point and an unknown one', 'restrict c0 ' + Lst(pts[:1] + pts[:1] + ['u86'])))
        out.append(('restrict with every point and an unknown one', 'restrict c0 ' + Lst(pts + ['u86'])))
    if hi:
        out.append(('restrict to a non-point', 'restrict c0 ' + Lst(pts[:1] + [hi[0]])))
    if names:
        out.append(('copy into overlapping', 'copyinto c0 c9'))
        out.append(('copy into overlapping (shared name of another order)', 'copyinto c0 c8'))
    return out


def c05(tier, seed):
    rng = random.Random(seed)
    fams = fams_for(tier, rng, 4, 5, 600)
    if tier == 'quick':
        fams = all_complexes(4)
    for i, fam in enumerate(fams):
        pool = POOL_NAMES[i % len(POOL_NAMES)]
        route = ['faces', 'basis'][i % 2]
        base = build_lines(fam, 'c0', route, attrs=(route == 'faces'))
        if pool == 'falsy' and route == 'faces':
            base += falsify_lines(fam, 'c0', rng)        # existing higher simplices called '', 0, ()
        L0 = Live(pool)
        L0.many(base)
        # the overlap target for copy(c): shares one name with c0
        names = L0.toks('c0')
        c9 = ['new c9', 'add c9 u90 [] -'] + (['add c9 %s [] -' % names[0]] if names else [])
        # c8 shares only the name of c0's last (highest-order) simplex, as a point
        c9 += ['new c8', 'add c8 u91 [] -'] + (['add c8 %s [] -' % names[-1]] if names else [])
        for kind, line in bad_requests(L0, rng):
            L = Live(pool, 'C05 %s: %s' % (kind, line))
            L.many(base + c9)
            c = L.ex.objs['c0']
            L.do('obs c0')
            for k in range(B.maxOrder(c) + 2):
                L.do('q c0 bop %d' % k)
            L.do('!snap c0 c9 c8')
            L.do('deepcopy c0 cz')
            L.do(line)
            L.do('!rejected')
            L.do('!same-if-rej c0 c9 c8')
            L.do('obs c0')
            for k in range(B.maxOrder(c) + 2):
                L.do('q c0 bop %d' % k)
            # valid calls afterwards behave as if the rejected call had never been made: the same calls on a deep
            # copy taken before the rejected request give the same complex (including generated names)
            L.do('!sameobs c0 cz')
            for hh in ('c0', 'cz'):
                L.do('add %s - [] -' % hh)
            pts = L.toks('c0', 0)
            if len(pts) >= 2:
                q = Lst(rng.sample(pts, min(3, len(pts))))
                for hh in ('c0', 'cz'):
                    L.do('addb %s - %s -' % (hh, q))
            L.do('!sameobs c0 cz')
            L.do('obs c0')
            yield L.case()
    # several rejections in a row inside random histories
    for j in range(500 if tier == 'quick' else 6000):
        pool = POOL_NAMES[j % len(POOL_NAMES)]
        g = HistGen(seed * 613 + j, pool, invalid=0.5)
        g.do('new c0'); g.do('new c9'); g.do('add c9 u90 [] -')
        for _ in range(20):
            n0 = len(g.lines)
            g.lines.append('!snap c0'); g.out.append('ok')
            r = g.step_mutator('c0')
            if r is not None:
                g.lines.append('!same-if-rej c0'); g.out.append('ok')
            g.do('obs c0')
        yield dict(lines=g.lines, pool=pool, tag='C05 history seed=%d' % (seed * 613 + j))


# ---------------------------------------------------------------------------------------------------------
# C06 / C07
# ---------------------------------------------------------------------------------------------------------
def zoo():
    """triangulated spaces with closed-form mod-2 Betti numbers, as lists of facets over point numbers"""
    torus = [[0, 1, 3], [1, 3, 4], [1, 2, 4], [2, 4, 5], [2, 0, 5], [0, 5, 3], [3, 4, 6], [4, 6, 7], [4, 5, 7], [5, 7, 8],
             [5, 3, 8], [3, 8, 6], [6, 7, 0], [7, 0, 1], [7, 8, 1], [8, 1, 2], [8, 6, 2], [6, 2, 0]]
    rp2 = [[0, 1, 4], [0, 1, 5], [0, 2, 3], [0, 2, 5], [0, 3, 4], [1, 2, 3], [1, 2, 4], [1, 3, 5], [2, 4, 5], [3, 4, 5]]
    klein = [[0, 1, 3], [1, 3, 4], [1, 2, 4], [2, 4, 5], [2, 0, 5], [0, 5, 6], [3, 4, 6], [4, 6, 7], [4, 5, 7], [5, 7, 8],
             [5, 6, 8], [6, 8, 3], [6, 7, 0], [7, 0, 1], [7, 8, 1], [8, 1, 2], [8, 3, 2], [3, 2, 0]]
    mobius = [[0, 1, 2], [1, 2, 3], [2, 3, 4], [3, 4, 0], [4, 0, 1]]
    out = [('torus', torus, {0: 1, 1: 2, 2: 1}), ('projective plane', rp2, {0: 1, 1: 1, 2: 1}),
           ('klein bottle', klein, {0: 1, 1: 2, 2: 1}), ('moebius band', mobius, {0: 1, 1: 1, 2: 0})]
    for k in range(0, 4):
        pts = list(range(k + 2))
        out.append(('sphere S%d' % k, [list(q) for q in itertools.combinations(pts, k + 1)], {j: (1 if j in (0, k) else 0) for j in range(k + 1)} if k > 0 else {0: 2}))
    out.append(('wedge of two circles', [[0, 1], [1, 2], [2, 0], [0, 3], [3, 4], [4, 0]], {0: 1, 1: 2}))
    out.append(('two triangles and a point', [[0, 1, 2], [3, 4, 5], [6]], {0: 3, 1: 0, 2: 0}))
    out.append(('suspension of a circle', [[0, 1, 3], [1, 2, 3], [2, 0, 3], [0, 1, 4], [1, 2, 4], [2, 0, 4]], {0: 1, 1: 0, 2: 1}))
    return out


def facets_lines(facets, h='c0'):
    lines = ['new ' + h]
    pts = sorted({p for f in facets for p in f})
    for p in pts:
        lines.append('add %s u%d [] -' % (h, p))
    for f in facets:
        if len(f) > 1:
            lines.append('addb %s - %s -' % (h, Lst(['u%d' % p for p in f])))
    return lines


def homology_queries(L, h='c0', z=True):
    c = L.ex.objs[h]
    mo = B.maxOrder(c)
    L.do('q %s betti' % h)
    L.do('q %s betti %s' % (h, Lst([str(k) for k in range(mo + 3)])))
    L.do('q %s euler' % h)
    L.do('!betti ' + h)
    L.do('!noalias ' + h); L.do('q %s betti' % h); L.do('!betti ' + h)      # after the caller changed what queries returned
    if z:
        for k in range(mo + 2):
            L.do('q %s snf %d' % (h, k))
        L.do('q %s Z %s' % (h, Lst([str(k) for k in range(mo + 2)])))
        L.do('q %s Z' % h)
        L.do('q %s Z %s' % (h, Lst([str(k) for k in range(mo + 1, -1, -1)])))       # descending: one call, shared state
        if mo >= 0:
            L.do('q %s Z %s' % (h, Lst([str(min(1, mo)), str(min(1, mo)), str(mo), str(mo)])))   # repeated orders
        L.do('!snf ' + h)
        L.do('!zbasis ' + h)


def c06(tier, seed, z=False, pid='C06'):
    yield from _c06(tier, seed, z, pid)
    if not z:
        # ranks >= 128: a long cycle, and the complete graph on 17 points (136 edges, 120 independent cycles)
        yield dict(lines=['ring c0 new 130', '!betti c0', '!expect-betti c0 0:1,1:1'], pool='int', tag='C06 ring of 130 points')
        yield dict(lines=['kskel c0 new 16', '!betti c0', '!expect-betti c0 0:1,1:120'], pool='int', tag='C06 complete graph on 17 points')


def _c06(tier, seed, z=False, pid='C06'):
    rng = random.Random(seed)
    fams = fams_for(tier, rng, 4, 5, None)
    routes = ['faces', 'basis', 'shuffle', 'superdel']
    for i, fam in enumerate(fams):
        rs = routes if (tier == 'quick' and len(fam) <= 8) else [routes[i % 4]]
        for r in rs:
            L = Live(POOL_NAMES[i % len(POOL_NAMES)], '%s %s %s' % (pid, r, sorted(map(sorted, fam))), judge=('z' if z else None))
            L.many(build_lines(fam, 'c0', r, rng))
            if L.pool == 'falsy0':
                # a second simplex under a name in use (0, '' or ()) must be refused: the homology is that of the
                # family of vertex sets, one simplex per name
                for t in L.toks('c0', 0)[:3]:
                    L.do('add c0 %s [] -' % t); L.do('!rejected')
                    pts = [x for x in L.toks('c0', 0) if x != t]
                    if len(pts) >= 2:
                        L.do('add c0 %s %s -' % (t, Lst(pts[:2]))); L.do('!rejected')
            homology_queries(L, 'c0', z)
            if i % 5 == 0:
                # the same family reached through a copy, relabelling and decoding
                L.do('copy c0 c1'); homology_queries(L, 'c1', False)
                names = L.toks('c0')
                if names:
                    L.do('relabel c0 {%s}' % ','.join('%s:u%d' % (t, 500 + j) for j, t in enumerate(names) if j % 2 == 0))
                    homology_queries(L, 'c0', z)
                if L.pool in ('int', 'str'):
                    L.do('json c0 c2'); homology_queries(L, 'c2', False)
            yield L.case()
    for name, facets, want in zoo():
        L = Live('int', '%s zoo: %s' % (pid, name), judge=('z' if z else None))
        L.many(facets_lines(facets))
        homology_queries(L, 'c0', z)
        got = dict(B.bettiNumbers(L.ex.objs['c0']))
        L.do('!expect-betti c0 ' + ','.join('%d:%d' % kv for kv in want.items()))
        yield L.case()
    for j in range(250 if tier == 'quick' else 3000):
        n = rng.randrange(6, 10)
        L = Live(POOL_NAMES[j % len(POOL_NAMES)], '%s random complex on %d points seed=%d/%d' % (pid, n, seed, j), judge=('z' if z else None))
        facets = [rng.sample(range(n), rng.randrange(1, 5)) for _ in range(rng.randrange(3, 9))]
        L.many(facets_lines(facets))
        for _ in range(rng.randrange(0, 3)):
            names = L.toks('c0')
            if names:
                L.do('del c0 ' + rng.choice(names))
        homology_queries(L, 'c0', z)
        yield L.case()


    # queries interleaved with changes: the answers always describe the complex as it is now
    for j in range(300 if tier == 'quick' else 3000):
        pool = POOL_NAMES[j % len(POOL_NAMES)]
        g = HistGen(seed * 5003 + j, pool, invalid=0.1)
        g.tag = ''
        g.do('new c0')
        L = _asLive(g, '%s queries between changes seed=%d' % (pid, seed * 5003 + j), 'z' if z else None)
        for bs in (['u1', 'u2', 'u3'], ['u2', 'u3', 'u4'], ['u4', 'u5']):
            if rng.random() < 0.7:
                g.do('addb c0 - %s -' % Lst(bs))
        for _ in range(rng.randrange(3, 9)):
            homology_queries(L, 'c0', z)
            names = g.tok_names('c0')
            r = rng.random()
            if names and r < 0.35:
                g.do('del c0 ' + rng.choice(names))
            elif r < 0.5:
                g.do('add c0 - [] -')
            else:
                g.step_mutator('c0')
        homology_queries(L, 'c0', z)
        yield dict(lines=g.lines, pool=pool, tag=L.tag, judge=('z' if z else None))


class _asLive:
    """lets the query helpers written for `Live` drive a HistGen"""
    def __init__(self, g, tag, judge):
        self.g = g; self.ex = g.ex; self.pool = g.ex.pool; self.tag = tag

    def do(self, line):
        if line.startswith('!'):
            self.g.lines.append(line); self.g.out.append('ok')
            return None
        return self.g.do(line)


def c07(tier, seed):
    yield from _c06(tier, seed, z=True, pid='C07')
    yield dict(lines=['kskel c0 new 16', '!betti c0', '!snf c0', '!zbasis c0'], pool='int', tag='C07 complete graph on 17 points (nullity 120)')
    # a filtration is a complex too: wherever its index stands, its normal forms and cycle bases are those of the
    # boundary operators it reports
    rng = random.Random(seed + 5)
    for j in range(60 if tier == 'quick' else 600):
        g = FiltGen(seed * 1409 + j, POOL_NAMES[j % len(POOL_NAMES)])
        g.run(rng.randrange(6, 20))
        for i in rng.sample(IDX, 2):
            g.do('setidx f %d' % i); g.do('!snf f')
        g.do('maxidx f'); g.do('!snf f'); g.do('!zbasis f')
        yield g.case('C07 filtration seed=%d' % (seed * 1409 + j))
    # boundary operators of rank >= 128 (where an 8-bit counter would wrap): long cycles, alone and with a chord
    for n in ((130,) if tier == 'quick' else (129, 130, 140, 200)):
        lines = ['ring c0 new %d' % n, 'q c0 Z [1]', '!zbasis c0', '!snf c0', '!betti c0', '!expect-betti c0 0:1,1:1']
        yield dict(lines=lines, pool='int', tag='C07 ring of %d points' % n)


# ---------------------------------------------------------------------------------------------------------
# C08 / C09
# ---------------------------------------------------------------------------------------------------------
def readonly_ops(L, rng, a='c0', b='c1', n=0):
    """every read-only or constructor call of the public API on complexes a, b; new handles are x<n>..."""
    c = L.ex.objs[a]
    mo = B.maxOrder(c)
    names = L.toks(a)
    ops = ['q %s betti' % a, 'q %s Z' % a, 'q %s euler' % a, 'q %s integrate 1 0' % a, 'q %s counts' % a,
           'q %s simplices T' % a]
    ops += ['q %s snf %d' % (a, k) for k in range(mo + 2)] + ['q %s bop %d' % (a, k) for k in range(mo + 2)]
    ops += ['q %s Z %s' % (a, Lst([str(k) for k in range(mo + 2)]))]
    for op in ('le', 'lt', 'ge', 'gt', 'eq', 'ne'):
        ops.append('q %s %s %s' % (a, op, b))
    if names:
        t = rng.choice(names)
        ops += ['q %s closure %s F F' % (a, t), 'q %s part %s T F' % (a, t), 'q %s attr %s' % (a, t)]
        k1 = [x for x in names if B.orderOf(c, L.ex.name(x)) == B.orderOf(c, L.ex.name(t))]
        ops.append('q %s boundary %s' % (a, Lst(rng.sample(k1, min(2, len(k1))))))
        ops.append('q %s disjoint %s' % (a, Lst(rng.sample(names, min(2, len(names))))))
    ops += ['copy %s x%d' % (a, n), 'deepcopy %s x%d' % (a, n + 1), 'flag %s x%d' % (a, n + 2), 'compose %s %s x%d' % (a, b, n + 3),
            'compose %s %s x%d' % (b, a, n + 4)]
    if L.pool in ('int', 'str'):
        ops.append('json %s x%d' % (a, n + 5))
    return ops


def two_complexes(L, rng, fams):
    fa, fb = rng.choice(fams), rng.choice(fams)
    L.many(build_lines(fa, 'c0', 'faces', attrs=(rng.random() < 0.6)))
    L.many(build_lines(fb, 'c1', rng.choice(['faces', 'basis']), attrs=False))
    if rng.random() < 0.5:
        for t in L.toks('c1'):
            if rng.random() < 0.5:
                L.do('dset c1 %s %d %d' % (t, rng.randrange(3), rng.randrange(5)))


def c08(tier, seed):
    rng = random.Random(seed)
    fams = all_complexes(3) + all_complexes(4)
    n = 600 if tier == 'quick' else 6000
    for j in range(n):
        pool = POOL_NAMES[j % len(POOL_NAMES)]
        L = Live(pool, 'C08 complexes seed=%d/%d' % (seed, j))
        two_complexes(L, rng, fams)
        L.do('obs c0'); L.do('obs c1'); L.do('alias')
        L.do('!snap c0 c1')
        ops = readonly_ops(L, rng)
        rng.shuffle(ops)
        single = j % 2 == 0
        for op in ops:
            L.do(op)
            if single:
                L.do('!same c0 c1')
        L.do('!same c0 c1')
        L.do('obs c0'); L.do('obs c1'); L.do('alias')
        L.do('!noshare c0 c1 ' + ' '.join('x%d' % k for k in range(6)))      # every constructed complex is a new object with its own dicts
        L.do('!jsonset c0')
        L.do('!lookups c0'); L.do('!same c0')         # every look-up, the fatal=True forms included, is read-only
        L.do('!noalias c0'); L.do('obs c0')          # what queries hand out is the caller's to change
        yield L.case()
    for j in range(300 if tier == 'quick' else 3000):
        g = FiltGen(seed * 977 + j, POOL_NAMES[j % len(POOL_NAMES)])
        g.run(rng.randrange(4, 14))
        g.do('obs f'); g.do('!filt f'); g.do('!snap f')
        for op in ['snap f s1', 'iter f', 'q f simplices', 'q f count', 'q f counts', 'q f euler', 'q f indices']:
            g.do(op); g.do('!same f')
        order = g.copy_order()
        if order is not None:
            g.do('fcopy f f2 ' + Lst(order)); g.do('!same f')
        if g.pool in ('int', 'str'):
            g.do('json f j1'); g.do('!same f')
        g.do('obs f'); g.do('alias')
        yield g.case('C08 filtration seed=%d' % (seed * 977 + j))
    for j in range(100 if tier == 'quick' else 1000):
        for c in vr_cases(rng, 1):
            c['lines'] = [l for l in c['lines']]
            i = [k for k, l in enumerate(c['lines']) if l.startswith('vr ')][0]
            c['lines'][i:i] = ['!snap c0']
            c['lines'].insert(i + 2, '!same c0')
            c['tag'] = 'C08 ' + c['tag']
            yield c


def mutate_lines(L, h, rng, n=3):
    out = []
    for _ in range(n):
        names = L.toks(h)
        k = rng.choice(['dset', 'del', 'add', 'addb', 'relabel'])
        if k == 'dset' and names:
            out.append(L.do('dset %s %s %d %d' % (h, rng.choice(names), rng.randrange(3), 5 + rng.randrange(4))))
        elif k == 'del' and names:
            L.do('del %s %s' % (h, rng.choice(names)))
        elif k == 'add':
            L.do('add %s - [] -' % h)
        elif k == 'addb':
            pts = L.toks(h, 0)
            fresh = [t for t in ('u%d' % rng.randrange(600, 700) for _ in range(5)) if t not in pts][:1]
            L.do('addb %s - %s -' % (h, Lst(rng.sample(pts, min(len(pts), 2)) + fresh)))
        elif k == 'relabel' and names:
            L.do('relabel %s {%s:u%d}' % (h, rng.choice(names), rng.randrange(700, 800)))


def c09(tier, seed):
    rng = random.Random(seed)
    fams = all_complexes(3) + all_complexes(4)
    ctors = ['copy', 'deepcopy', 'flag', 'json', 'compose', 'composeinto', 'copyinto', 'addfrom']
    n = 1200 if tier == 'quick' else 10000
    for j in range(n):
        pool = ['int', 'str'][j % 2] if ctors[j % len(ctors)] == 'json' else POOL_NAMES[j % len(POOL_NAMES)]
        ctor = ctors[j % len(ctors)]
        L = Live(pool, 'C09 %s seed=%d/%d' % (ctor, seed, j))
        two_complexes(L, rng, fams)
        for t in L.toks('c1')[:2]:
            L.do('dset c1 %s 0 3' % t)
        srcs = ['c0']
        if ctor in ('copy', 'deepcopy', 'flag', 'json'):
            if ctor == 'deepcopy' and L.toks('c0'):
                L.do('dset c0 %s 2 %d' % (rng.choice(L.toks('c0')), rng.choice([1002, 1003, 1010])))
            L.do('%s c0 r' % ctor)
            if ctor == 'deepcopy':
                L.do('!deepnested c0 r'); L.do('!sameobs c0 r')
            if ctor != 'flag':
                L.do('!samecontent c0 r')
                if ctor != 'json':
                    L.do('q c0 eq r')
        elif ctor == 'compose':
            res = L.do('compose c0 c1 r'); srcs = ['c0', 'c1']
            if res != 'ok -':
                L.do('new r')
        elif ctor == 'composeinto':
            L.do('new r')
            if j % 3:
                L.do('add r u900 [] -')
            L.do('composeinto c0 c1 r'); srcs = ['c0', 'c1']
        elif ctor == 'copyinto':
            L.do('new r')
            if j % 3:
                L.do('add r u900 [] -')
            L.do('copyinto c0 r'); L.do('!samecontent-sub c0 r')
        elif ctor == 'addfrom':
            L.do('new r'); L.do('addfrom r c0 {}')
        L.do('alias'); L.do('!noshare r ' + ' '.join(srcs))
        L.do('obs r')
        # changes on the result are invisible in the sources, and the other way round
        L.do('!snap ' + ' '.join(srcs))
        mutate_lines(L, 'r', rng)
        L.do('!same ' + ' '.join(srcs))
        L.do('!snap r')
        for s in srcs:
            mutate_lines(L, s, rng, 2)
        L.do('!same r')
        L.do('obs r'); L.do('obs c0'); L.do('alias')
        yield L.case()
    for j in range(400 if tier == 'quick' else 4000):
        g = FiltGen(seed * 389 + j, POOL_NAMES[j % len(POOL_NAMES)])
        g.run(rng.randrange(4, 14))
        kind = j % 4
        if kind == 3:
            ci = rng.choice(IDX)
            g.do('setidx f %d' % ci); g.do('deepcopy f r'); g.do('!sameobs f r'); g.do('obs r')
            # the deep copy is a filtration of its own: adding to it and listing by index works on the copy alone
            g.do('!snap f'); g.do('add r u880 [] -'); g.do('q r addedat %d' % ci); g.do('!filt r'); g.do('!same f')
            g.do('add f u881 [] -'); g.do('q f addedat %d' % ci); g.do('q r contains u881'); g.do('!filt f')
        elif kind == 0:
            g.do('snap f r'); g.do('!samecontent f r')
        elif kind == 1:
            order = g.copy_order()
            if order is None:
                continue
            g.do('fcopy f r ' + Lst(order)); g.do('!samecontent f r')
        else:
            g.do('iter f'); g.do('snap f r')
        g.do('alias'); g.do('!noshare f r'); g.do('obs r')
        if g.pool in ('int', 'str') and kind != 3:
            g.do('json f jr'); g.do('!samecontent f jr'); g.do('obs jr')       # decoding gives the complex at the current index
        g.do('!fcopyinto f')
        g.do('!snap f')
        names = g.toks('r')
        if names:
            g.do('dset r %s 1 9' % rng.choice(names))
            g.do('del r ' + rng.choice(names))
        g.do('add r u882 [] -')
        g.do('!same f'); g.do('!snap r')
        if kind in (0, 2):
            # a second snapshot at the same index is taken from the filtration, not from the first one
            g.do('snap f r2'); g.do('!samecontent f r2'); g.do('obs r2'); g.do('!noshare f r r2'); g.do('!filt f')
        vis = g.toks('f')
        if vis:
            g.do('dset f %s 2 8' % rng.choice(vis))
            g.do('del f ' + rng.choice(vis))
        g.do('!same r'); g.do('obs f'); g.do('obs r')
        yield g.case('C09 filtration seed=%d' % (seed * 389 + j))
    for c in vr_cases(rng, 150 if tier == 'quick' else 1500):
        c['lines'] += ['alias', '!noshare c0 v', '!snap c0', 'add v - [] -', 'dset v u0 1 1', '!same c0', 'obs v']
        c['tag'] = 'C09 ' + c['tag']
        yield c


# ---------------------------------------------------------------------------------------------------------
# C10
# ---------------------------------------------------------------------------------------------------------
def c10(tier, seed):
    rng = random.Random(seed)
    f3 = all_complexes(3); f4 = all_complexes(4)
    if tier == 'quick':
        pairs = list(itertools.product(f3, repeat=2)) + [(rng.choice(f4), rng.choice(f4)) for _ in range(7000)]
    else:
        pairs = list(itertools.product(f4, repeat=2))
    ops = ('le', 'lt', 'ge', 'gt', 'eq', 'ne')
    batch = []
    for i, (fa, fb) in enumerate(pairs):
        lines = build_lines(fa, 'c0') + build_lines(fb, 'c1', attrs=(i % 3 == 0)) + ['!cmp c0 c1'] + ['q c0 %s c1' % op for op in ops]
        batch.append(dict(lines=lines, pool=POOL_NAMES[i % len(POOL_NAMES)], tag='C10 pair %s | %s' % (sorted(map(sorted, fa)), sorted(map(sorted, fb)))))
    for b in batch:
        yield b
    # same names, orders and BASES but different faces: `addSimplex` accepts three edges that do not close up
    # (ab, bc, cd), so a "triangle" t on the points a..d can sit on any three of the four edges of a square;
    # likewise a "tetrahedron" on four of the five triangles over five points is not needed: the square suffices
    # to separate "same faces" from "same basis".  All ordered pairs of the four variants (+ one without t).
    sq = ['add %s u1 [] -', 'add %s u2 [] -', 'add %s u3 [] -', 'add %s u4 [] -', 'add %s u12 [u1,u2] -', 'add %s u23 [u2,u3] -',
          'add %s u34 [u3,u4] -', 'add %s u14 [u1,u4] -']
    edges = ['u12', 'u23', 'u34', 'u14']
    variants = [list(q) for q in itertools.combinations(edges, 3)] + [None]
    for ia, va in enumerate(variants):
        for ib, vb in enumerate(variants):
            lines = []
            for h, v in (('c0', va), ('c1', vb)):
                lines += ['new ' + h] + [l % h for l in sq] + (['add %s u99 %s -' % (h, Lst(v))] if v else [])
            lines += ['!cmp c0 c1'] + ['q c0 %s c1' % op for op in ops] + ['obs c0', 'obs c1']
            yield dict(lines=lines, pool=POOL_NAMES[(ia + ib) % len(POOL_NAMES)], tag='C10 same basis, different faces %d/%d' % (ia, ib))
    # same names, different order or faces; copies; deletions
    for j in range(1000 if tier == 'quick' else 8000):
        pool = POOL_NAMES[j % len(POOL_NAMES)]
        L = Live(pool, 'C10 perturbation seed=%d/%d' % (seed, j))
        fam = rng.choice(f4)
        L.many(build_lines(fam, 'c0'))
        if j % 3 == 0 and L.toks('c0'):
            # rejected requests must not disturb later comparisons
            L.do('add c0 %s [] -' % rng.choice(L.toks('c0'))); L.do('add c0 u996 [u997,u998] -')
        L.do('copy c0 c1'); L.do('!equal c0 c1'); L.do('!cmp c0 c1'); L.do('q c0 eq c1'); L.do('q c1 le c0'); L.do('q c1 lt c0')
        names = L.toks('c1')
        kind = j % 6
        if kind == 5:
            # a name that is a point on one side and an edge (over two other points) on the other
            pts = sorted(pts_of(fam))
            if len(pts) >= 3:
                x = rng.choice(pts)
                rest = [p for p in pts if p != x]
                L.do('new c1')
                for p in rest:
                    L.do('add c1 u%d [] -' % p)
                L.do('add c1 u%d %s -' % (x, Lst(['u%d' % p for p in rng.sample(rest, 2)])))
                L.do('new c2')                      # and against the bare points of c0
                for p in pts:
                    L.do('add c2 u%d [] -' % p)
                L.do('!cmp c2 c1'); L.do('!cmp c1 c2')
                for op in ops:
                    L.do('q c2 %s c1' % op); L.do('q c1 %s c2' % op)
        elif kind == 4:
            # same names and orders everywhere, but two simplices of one order exchange their names: faces differ
            c1 = L.ex.objs['c1']
            byk = {}
            for t in names:
                byk.setdefault(B.orderOf(c1, L.ex.name(t)), []).append(t)
            cand = [v for k, v in byk.items() if len(v) >= 2]
            if cand:
                a, b = rng.sample(rng.choice(cand), 2)
                L.do('relabel c1 {%s:u995}' % a); L.do('relabel c1 {%s:%s}' % (b, a)); L.do('relabel c1 {u995:%s}' % b)
        elif names and kind == 0:
            L.do('del c1 ' + rng.choice(names))          # strictly smaller
            if (j // 6) % 3 == 0:
                # bare points, one of them deleted; a look at the listings the caller is free to change
                L.do('new c2'); L.do('new c3')
                for p in range(rng.randrange(2, 5)):
                    L.do('add c2 u%d [] -' % p); L.do('add c3 u%d [] -' % p)
                L.do('del c3 u%d' % rng.randrange(2)); L.do('!cmp c2 c3'); L.do('!cmp c3 c2'); L.do('q c3 le c2'); L.do('q c2 le c3'); L.do('q c3 eq c2')
                L.do('!noalias c2'); L.do('!cmp c2 c3'); L.do('!cmp c2 c2'); L.do('q c2 eq c2')
            L.do('q c1 lt c0'); L.do('q c0 gt c1'); L.do('q c0 ne c1')
        elif names and kind == 1:
            # a name of c0 used for a simplex of another order / other faces in c1
            L.do('new c1')
            pts = sorted(pts_of(fam))
            for p in pts:
                L.do('add c1 u%d [] -' % p)
            hi = [s for s in fam if len(s) == 2]
            if hi and len(pts) >= 3:
                s = sorted(rng.choice(hi))
                other = [p for p in pts if p not in s][:1] + s[:1]
                L.do('add c1 %s %s -' % (tokS(s), Lst(['u%d' % p for p in other])))
        elif kind == 2 and (j // 6) % 2 and [t for t in names if B.orderOf(L.ex.objs['c1'], L.ex.name(t)) == 1] and len(pts_of(fam)) >= 3:
            # after the comparisons above have read its faces: an edge is deleted and its name re-used on other points
            c1 = L.ex.objs['c1']
            t = rng.choice([t for t in names if B.orderOf(c1, L.ex.name(t)) == 1])
            old = {L.ex.T(x) for x in B.basisOf(c1, L.ex.name(t))}
            L.do('del c1 ' + t)
            cand = [q for q in itertools.combinations(L.toks('c1', 0), 2) if set(q) != old and B.simplexWithBasis(c1, [L.ex.name(x) for x in q]) is None]
            if cand:
                L.do('add c1 %s %s -' % (t, Lst(rng.choice(cand))))
        elif kind == 2:
            L.do('add c1 u950 [] -')                      # a lone extra point
        elif names and kind == 3:
            L.do('dset c1 %s 0 9' % rng.choice(names))    # attributes never matter
        L.do('!cmp c0 c1'); L.do('!cmp c1 c0')
        for op in ops:
            L.do('q c0 %s c1' % op); L.do('q c1 %s c0' % op)
        yield L.case()


    # operands of different classes (a lattice, a filtration at its last index) against plain copies and
    # snapshots, in both operand orders; copies made into a supplied empty complex
    def both(L, a, b):
        L.do('!cmp %s %s' % (a, b)); L.do('!cmp %s %s' % (b, a))
        for op in ops:
            L.do('q %s %s %s' % (a, op, b)); L.do('q %s %s %s' % (b, op, a))
    for j in range(120 if tier == 'quick' else 1500):
        pool = POOL_NAMES[j % len(POOL_NAMES)]
        kind = j % 3
        if kind == 0:
            L = Live('int', 'C10 lattice against its copy %d/%d' % (seed, j))
            L.do('lattice c0 %d %d' % (rng.randrange(1, 4), rng.randrange(1, 4)))
            L.do('copy c0 c1'); L.do('!equal c0 c1'); both(L, 'c0', 'c1')
            L.do('new c2'); L.do('copyinto c0 c2'); L.do('!equal c0 c2'); both(L, 'c0', 'c2'); both(L, 'c1', 'c2')
            names = L.toks('c1')
            if names and j % 2:
                L.do('del c1 ' + rng.choice(names))
            else:
                L.do('add c1 u950 [] -')
            both(L, 'c0', 'c1')
        elif kind == 1:
            g = FiltGen(seed * 3571 + j, pool)
            g.tag = 'C10 filtration against its snapshot %d/%d' % (seed, j)
            g.run(rng.randrange(4, 16))
            g.do('maxidx f'); g.do('snap f s'); g.do('!equal f s'); both(g, 'f', 's')
            g.do('fcopy f c ' + Lst(g.copy_order())); g.do('maxidx c'); g.do('!equal f c'); both(g, 'f', 'c')
            names = [g.ex.T(x) for x in B.simplices(g.ex.objs['s'])]
            if names:
                g.do('del s ' + rng.choice(names)); both(g, 'f', 's')
            L = g
        else:
            L = Live(pool, 'C10 copy into a supplied empty complex %d/%d' % (seed, j))
            L.many(build_lines(rng.choice(f4), 'c0', attrs=(j % 2 == 0)))
            L.do('new c1'); L.do('copyinto c0 c1'); L.do('!equal c0 c1'); both(L, 'c0', 'c1')
            L.do('new c2'); L.do('add c2 u960 [] -'); L.do('del c2 u960'); L.do('copyinto c0 c2'); L.do('!equal c0 c2'); both(L, 'c0', 'c2')   # emptied by deletion
            L.do('new c3'); L.do('new c4'); L.do('copyinto c3 c4'); both(L, 'c3', 'c4'); both(L, 'c0', 'c4')
        yield L.case()


# ---------------------------------------------------------------------------------------------------------
# C11 / C12
# ---------------------------------------------------------------------------------------------------------
def c11(tier, seed):
    rng = random.Random(seed)
    fams = fams_for(tier, rng, 4, 5, None)
    if tier == 'quick':
        fams = fams + rng.sample(all_complexes(5), 900)
    for i, fam in enumerate(fams):
        pool = POOL_NAMES[i % len(POOL_NAMES)]
        lines = build_lines(fam, 'c0', ['faces', 'basis'][i % 2], attrs=(i % 4 == 0))
        if pool == 'falsy' and ['faces', 'basis'][i % 2] == 'faces':
            lines += falsify_lines(fam, 'c0', rng, top_first=(i % 3 != 0))      # existing higher simplices called '', 0, ()
        lines += ['!snap c0', 'flag c0 f', '!lastok flagComplex_of_a_valid_complex', '!flag c0 f', '!same c0', 'obs f', 'alias', '!noshare c0 f', 'flag f g', '!lastok flagComplex_of_a_flag_complex', 'obs g', '!samefam f g',
                  'add f - [] -', '!same c0']
        if fam and i % 2 == 0:
            # the flag complex is taken again after an attribute of K changed (names and faces as before)
            t = tokS(sorted(fam, key=lambda x: (-len(x), sorted(x)))[0])
            lines += ['dset c0 %s 3 8' % t, 'flag c0 f2', '!lastok flagComplex_again', '!flag c0 f2', 'obs f2', '!noshare c0 f f2']
        yield dict(lines=lines, pool=pool, tag='C11 flag of %s' % (sorted(map(sorted, fam)),))
    for n in (5, 6):
        lines = ['new c0'] + ['add c0 u%d [] -' % p for p in range(n)] + ['addb c0 - [u%d,u%d] -' % (a, b) for a, b in itertools.combinations(range(n), 2)]
        yield dict(lines=lines + ['flag c0 f', '!flag c0 f', 'obs f'], pool='int', tag='C11 flag of the complete graph K%d' % n)
        # the same reached by growing: all edges but one, flag, add the last edge, grow
        last = 'addb f - [u%d,u%d] -' % (n - 2, n - 1)
        L = Live('int', 'C11 grow to K%d' % n)
        L.many(lines[:-1]); L.do('flag c0 f'); r = L.do(last); L.do('grow f ' + Lst([r.split()[1]])); L.do('obs f')
        L.many(['new s'] + ['add s u%d [] -' % p for p in range(n)] + ['addb s - [u%d,u%d] -' % (a, b) for a, b in itertools.combinations(range(n), 2)])
        L.do('flag s t'); L.do('!samefam f t')
        yield L.case()
    for (r_, c_) in ((2, 2), (2, 3), (3, 3)):
        yield dict(lines=['lattice c0 %d %d' % (r_, c_), '!snap c0', 'flag c0 f', '!lastok flagComplex_of_a_lattice', '!flag c0 f', '!same c0', 'obs f', '!noshare c0 f'],
                   pool='int', tag='C11 flag complex of a %dx%d lattice' % (r_, c_))
    for j in range(40 if tier == 'quick' else 400):
        yield dict(lines=['!growfilt %d' % (seed * 733 + j)], pool='int', tag='C11 growing a filtration %d' % j)
    # growing: a flag complex, then edges added and growFlagComplex, against rebuilding from scratch
    n = 700 if tier == 'quick' else 2500
    for j in range(n):
        pool = POOL_NAMES[j % len(POOL_NAMES)]
        npts = rng.randrange(3, 6 if tier == 'quick' else 7)
        allE = list(itertools.combinations(range(npts), 2))
        rng.shuffle(allE)
        k0 = rng.randrange(0, len(allE))
        e0, rest = allE[:k0], allE[k0:]
        L = Live(pool, 'C11 grow seed=%d/%d' % (seed, j))
        L.do('new c0')
        for p in range(npts):
            L.do('add c0 u%d [] -' % p)
        for (a, b) in e0:
            L.do('addb c0 - [u%d,u%d] -' % (a, b))
        L.do('flag c0 f')
        added = []
        while rest:
            m = rng.randrange(1, min(3, len(rest)) + 1)
            new, rest = rest[:m], rest[m:]
            toks = []
            for (a, b) in new:
                L.do('addb f - [u%d,u%d] -' % (a, b))
                toks.append('u%d+u%d' % (a, b))      # edges are handed over by their end points (see `growb`)
            added += new
            if rng.random() < 0.35:
                # points among the new simplices (documented: no effect): end points of the new edges, and sometimes a
                # vertex that has just joined the complex together with the edges that attach it
                toks = [tk.split('+')[rng.randrange(2)] for tk in toks[:2]] + toks
                if rng.random() < 0.5:
                    L.do('add f u%d [] -' % npts)
                    toks.insert(rng.randrange(len(toks) + 1), 'u%d' % npts)
                    for a in rng.sample(range(npts), rng.randrange(0, min(3, npts) + 1)):
                        L.do('addb f - [u%d,u%d] -' % (a, npts))
                        toks.append('u%d+u%d' % (a, npts)); added.append((a, npts))
                    npts += 1
            if len(toks) >= 2 and rng.random() < 0.5:
                for tk in toks:                      # the same edges handed over in separate calls
                    L.do('growb f ' + Lst([tk])); L.do('!lastok growFlagComplex_with_an_edge_just_added')
            else:
                L.do('growb f ' + Lst(toks)); L.do('!lastok growFlagComplex_with_the_edges_just_added')
            L.do('obs f')
            # rebuild from scratch
            L.do('new s')
            for p in range(npts):
                L.do('add s u%d [] -' % p)
            for (a, b) in e0 + added:
                L.do('addb s - [u%d,u%d] -' % (a, b))
            L.do('flag s t'); L.do('!samefam f t')
            if rng.random() < 0.3:
                break
        L.do('grow f []'); L.do('obs f')
        yield L.case()


def vr_cases(rng, n, dims=(1, 2, 3)):
    out = []
    for j in range(n):
        dim = rng.choice(dims)
        npts = rng.randrange(1, 7)
        kind = rng.choice(['grid', 'grid', 'collinear', 'coincident', 'pythagoras'])
        pts = []
        for p in range(npts):
            if kind == 'grid':
                pts.append([rng.randrange(0, 5) for _ in range(dim)])
            elif kind == 'collinear':
                pts.append([p * 2] + [0] * (dim - 1))
            elif kind == 'coincident':
                pts.append([rng.randrange(0, 2)] + [0] * (dim - 1))
            else:
                pts.append(([3 * (p % 2), 4 * (p // 2 % 2)] + [0] * dim)[:dim])
        d2 = sorted({sum((a - b) ** 2 for a, b in zip(p, q)) for p, q in itertools.combinations(pts, 2)})
        epss = [-1.0, 0.0, 100.0]
        for x in d2[:4]:
            r = math.sqrt(x)
            epss += [r, r - 1e-9, r + 1e-9, r / 2]
        eps = rng.choice(epss)
        L = Live((POOL_NAMES + ['twin', 'blank'])[j % (len(POOL_NAMES) + 2)], 'VR %s dim=%d eps=%r pts=%r' % (kind, dim, eps, pts), vr_eps=eps)
        # every sixth case names its points like generated simplex names of higher orders ('2d0', '3d0', '1d1', ...):
        # the names the flag completion will want to generate for its own edges and triangles
        U = (lambda p: 'a%d.%d' % (1 + p % 3, p // 3)) if j % 6 == 4 else (lambda p: 'u%d' % p)
        L.do('new c0')
        withattrs = (j % 3 == 0)
        early = (j % 5 == 1)
        if early:
            L.do('emb e c0 %d' % dim)       # the embedding is made first, of a complex that is still empty
        for p in range(npts):
            if withattrs:
                L.do('dict DP%d {1:%d}' % (p, p)); L.do('add c0 %s [] DP%d' % (U(p), p))
            else:
                L.do('add c0 %s [] -' % U(p))
        if npts >= 2 and rng.random() < 0.3:
            L.do('addb c0 - [%s,%s] -' % (U(0), U(1)))      # edges of the embedded complex do not matter
        if not early:
            L.do('emb e c0 %d' % dim)
        for p in range(npts):
            L.do('pos e %s %s' % (U(p), Lst([str(x) for x in pts[p]])))
        e = L.ex.embs['e']
        c = L.ex.objs['c0']
        P = list(c.simplicesOfOrder(0))
        close = ['%d.%d' % (a, b) for a in range(len(P)) for b in range(a + 1, len(P))
                 if e.distance(e.positionOf(P[a]), e.positionOf(P[b])) <= eps]
        L.ex.vr_eps = eps
        L.do('vr e v ' + Lst(close))
        L.do('!vr e v')
        L.do('obs v'); L.do('!noshare c0 v')
        if npts >= 2 and rng.random() < 0.4:
            # the same embedding object after a point has been moved
            mv = rng.randrange(npts)
            newp = [rng.randrange(0, 5) for _ in range(dim)]
            L.do('pos e %s %s' % (U(mv), Lst([str(x) for x in newp])))
            close2 = ['%d.%d' % (a, b) for a in range(len(P)) for b in range(a + 1, len(P))
                      if e.distance(e.positionOf(P[a]), e.positionOf(P[b])) <= eps]
            L.do('vr e v2 ' + Lst(close2))
            L.do('!vr e v2')
            L.do('obs v2'); L.do('!noshare c0 v v2')
        if npts >= 2 and rng.random() < 0.3:
            # the same embedding object after a positioned point has left the complex and another has joined it
            gone = rng.randrange(npts)
            L.do('del c0 %s' % U(gone)); L.do('add c0 u%d [] -' % (50 + gone))
            L.do('pos e u%d %s' % (50 + gone, Lst([str(rng.randrange(0, 5)) for _ in range(dim)])))
            P3 = list(c.simplicesOfOrder(0))
            close3 = ['%d.%d' % (a, b) for a in range(len(P3)) for b in range(a + 1, len(P3))
                      if e.distance(e.positionOf(P3[a]), e.positionOf(P3[b])) <= eps]
            L.do('vr e v3 ' + Lst(close3))
            L.do('!vr e v3')
            L.do('obs v3')
        out.append(L.case())
    return out


def c12(tier, seed):
    rng = random.Random(seed)
    for c in vr_cases(rng, 1500 if tier == 'quick' else 15000):
        c['tag'] = 'C12 ' + c['tag']
        yield c
    # monotonicity in eps and an overridden metric are checked by the oracle module directly
    yield dict(lines=['!vrmono %d %d' % (seed, 60 if tier == 'quick' else 600)], pool='int', tag='C12 monotone/metrics')


# ---------------------------------------------------------------------------------------------------------
# C13 / C14: filtration histories
# ---------------------------------------------------------------------------------------------------------
IDX = [-2, 0, 1, 2, 6]     # over denominator 2: -1, 0, 0.5, 1, 3


class FiltGen(Live):
    def __init__(self, seed, pool='int'):
        super().__init__(pool)
        self.rng = random.Random(seed)
        self.do('newf f %d' % self.rng.choice(IDX))
        self.fresh = 100

    def F(self):
        return self.ex.objs['f']

    def vis(self, order=None):
        f = self.F()
        return [self.ex.T(s) for s in f.simplices() if order is None or B.orderOf(f, s) == order]

    def alltoks(self):
        return [self.ex.T(s) for s in B.simplices(self.F())]

    def step(self):
        rng = self.rng; f = self.F()
        op = rng.choice(['idx', 'idx', 'pt', 'pt', 'pt', 'byfaces', 'byfaces', 'bybasis', 'bybasis', 'del', 'nav', 'min', 'max'])
        if op == 'idx':
            return self.do('setidx f %d' % rng.choice(IDX))
        if op == 'pt':
            self.fresh += 1
            idt = rng.choice(['u%d' % self.fresh, 'u%d' % rng.randrange(0, 6), '-'])
            return self.do('add f %s [] -' % idt)
        if op == 'byfaces':
            pts = [self.ex.T(s) for s in B.simplicesOfOrder(f, 0)]
            r = rng.choice([2, 2, 3])
            if len(pts) < r:
                return None
            q = rng.sample(pts, r)
            fs = [B.simplexWithBasis(f, [self.ex.name(x) for x in sub]) for sub in itertools.combinations(q, r - 1)] if r > 2 else [self.ex.name(x) for x in q]
            if any(x is None for x in fs):
                return None
            self.fresh += 1
            return self.do('add f %s %s -' % (rng.choice(['u%d' % self.fresh, '-']), Lst([self.ex.T(x) for x in fs])))
        if op == 'bybasis':
            pts = self.vis(0)
            r = rng.choice([2, 3, 3, 4])
            new = []
            if rng.random() < 0.3:
                self.fresh += 1; new = ['u%d' % self.fresh]
            if len(pts) + len(new) < r:
                return None
            q = rng.sample(pts, r - len(new)) + new
            # only calls inside the modelled precondition: every existing simplex inside the basis is visible
            qs = {self.ex.name(x) for x in q}
            for s in B.simplices(f):
                if B.basisOf(f, s) <= qs and s not in f:
                    return None
            self.fresh += 1
            return self.do('addb f %s %s -' % (rng.choice(['u%d' % self.fresh, '-']), Lst(q)))
        if op == 'del':
            names = self.alltoks()
            if not names:
                return None
            return self.do('del f ' + rng.choice(names))
        if op == 'nav':
            return self.do(rng.choice(['next f', 'prev f']))
        if op == 'min':
            return self.do('minidx f')
        if op == 'max':
            return self.do('maxidx f')

    def run(self, n):
        for _ in range(n):
            self.step()

    def copy_order(self):
        f = self.F()
        out = []
        for i in f.indices():
            out += [self.ex.T(s) for s in f.simplicesAddedAtIndex(i)]
        return out

    def case(self, tag=None):
        if tag is not None:
            self.tag = tag
        return super().case()


def filt_queries(g):
    f = g.F()
    for q in ('simplices', 'simplices T', 'count', 'counts', 'euler', 'max', 'indices', 'getidx', 'betti'):
        g.do('q f ' + q)
    for k in range(3):
        g.do('q f oforder %d' % k)
    for t in g.alltoks():
        g.do('q f contains ' + t)
        g.do('q f added ' + t)
    for i in f.indices():
        g.do('q f addedat %s' % g.ex.idx_tok(i))
    for t in g.vis():
        g.do('q f order ' + t); g.do('q f faces ' + t); g.do('q f basis ' + t)


def c13(tier, seed, pid='C13'):
    rng = random.Random(seed)
    n = 1000 if tier == 'quick' else 10000
    for j in range(n):
        pool = POOL_NAMES[j % len(POOL_NAMES)]
        g = FiltGen(seed * 2711 + j, pool)
        for _ in range(rng.randrange(3, 22 if tier == 'quick' else 45)):
            r = g.step()
            if r is not None:
                g.do('obs f')
                g.do('!filt f')
                if pid == 'C14':
                    g.do('!filtq f'); g.do('!nav f')
        filt_queries(g)
        g.do('!fapi f')
        g.do('iter f'); g.do('obs f')
        for i in IDX:
            if rng.random() < 0.5:
                g.do('setidx f %d' % i); filt_queries(g); g.do('snap f s%d' % (i + 5)); g.do('obs s%d' % (i + 5))
                if rng.random() < 0.5:
                    # the caller changes its snapshot; the next snapshot at this index shows the filtration again
                    g.do('add s%d u990 [] -' % (i + 5))
                    vis = g.vis()
                    if vis:
                        g.do('del s%d %s' % (i + 5, rng.choice(vis)))
                    g.do('snap f t%d' % (i + 5)); g.do('!samecontent f t%d' % (i + 5)); g.do('obs t%d' % (i + 5)); g.do('!filt f')
                if pid == 'C14':
                    g.do('next f'); g.do('prev f'); g.do('prev f'); g.do('q f getidx')
        yield g.case('%s filtration history seed=%d' % (pid, seed * 2711 + j))


def c14(tier, seed):
    yield from c13(tier, seed, 'C14')
    # the current index vanishes from the index set (everything born there is deleted) and is then set again
    rng = random.Random(seed + 77)
    for j in range(40 if tier == 'quick' else 400):
        g = FiltGen(seed * 1931 + j, POOL_NAMES[j % len(POOL_NAMES)])
        others = rng.sample(IDX, rng.randrange(0, 3))
        for i in others:
            g.do('setidx f %d' % i); g.do('add f - [] -')
        i = rng.choice(IDX)
        g.do('setidx f %d' % i)
        born = [n for n in g.alltoks() if g.F().addedAtIndex(g.ex.name(n)) == g.F().getIndex()]
        g.do('add f u700 [] -'); g.do('add f u701 [] -'); g.do('addb f u702 [u700,u701] -')
        for n in born + ['u700', 'u701']:
            g.do('del f ' + n)
        g.do('q f indices'); g.do('q f getidx'); g.do('q f count'); g.do('q f counts'); g.do('q f simplices'); g.do('!filt f')
        g.do('setidx f %d' % i)                       # the same value again: it is an index again
        g.do('q f indices'); g.do('!filt f'); g.do('!nav f')
        for op in rng.sample(['next f', 'prev f', 'minidx f', 'maxidx f', 'next f', 'prev f'], 4):
            g.do(op); g.do('q f getidx')
        g.do('iter f'); g.do('q f getidx'); g.do('obs f')
        g.do('fcopy f g ' + Lst(g.copy_order())); g.do('add g u710 [] -')
        vis = g.alltoks()
        if vis:
            g.do('del g ' + rng.choice(vis))
        g.do('!filt f'); g.do('!filtq f'); g.do('!filt g'); g.do('!filtq g')
        yield g.case('C14 the current index emptied and set again %d/%d' % (seed, j))


# ---------------------------------------------------------------------------------------------------------
# C15
# ---------------------------------------------------------------------------------------------------------
def c15(tier, seed):
    rng = random.Random(seed)
    fams = all_complexes(3) + (all_complexes(4) if tier == 'thorough' else rng.sample(all_complexes(4), 167))
    for i, fam in enumerate(fams):
        pool = POOL_NAMES[i % len(POOL_NAMES)]
        base = build_lines(fam, 'c0', ['faces', 'basis'][i % 2], attrs=(i % 2 == 0))
        L0 = Live(pool); L0.many(base)
        names = L0.toks('c0')
        if not names:
            continue
        rens = []
        # total, partial, identity-on-some, type-changing (fresh atoms of the pool are of other types in `mixed`)
        rens.append({t: 'u%d' % (400 + j) for j, t in enumerate(names)})
        rens.append({t: 'u%d' % (400 + j) for j, t in enumerate(names) if rng.random() < 0.5})
        rens.append({t: (t if rng.random() < 0.3 else 'u%d' % (400 + j)) for j, t in enumerate(names)})
        rens.append({t: 'a%d.%d' % (j % 3, j) for j, t in enumerate(names) if rng.random() < 0.6})
        rens.append({'u399': 'u398'})
        rens.append({t: 'u%d' % (10 + j) for j, t in enumerate(rng.sample(names, min(3, len(names))))})
        for ren in rens:
            rs = '{' + ','.join('%s:%s' % kv for kv in ren.items()) + '}'
            L = Live(pool, 'C15 relabel %s' % rs)
            L.many(base)
            L.do('q c0 betti'); L.do('!snap c0')
            res = L.do('relabel c0 ' + rs)
            if not (set(ren.values()) & set(names)) and len(set(ren.values())) == len(ren):
                L.do('!lastok a_renaming_onto_distinct_unused_names')
            if res.startswith('ok'):
                L.do('!post-relabel c0 ' + rs)
            L.do('obs c0'); L.do('q c0 betti')
            for k in range(B.maxOrder(L.ex.objs['c0']) + 2):
                L.do('q c0 bop %d' % k)
            yield L.case()
        for kind in ('tuple', 'str', 'ident', 'some'):
            yield dict(lines=base + ['!relabel-fn c0 ' + kind, 'obs c0'], pool=pool, tag='C15 relabel with function ' + kind)
        # relabelDisjointFrom and bulk add with a renaming
        other = rng.choice(fams)
        L = Live(pool, 'C15 relabelDisjointFrom')
        L.many(base); L.many(build_lines(other, 'c1', 'faces'))
        L.do('!addfrom-fn c1 c0 fresh'); L.do('!addfrom-fn c0 c1 tuple')
        if rng.random() < 0.6:
            # names are not tied to orders: a name of c0 used for a simplex of another order in c1
            n1 = L.toks('c1'); n0 = [t for t in L.toks('c0') if t not in n1]
            if n1 and n0:
                L.do('relabel c1 {%s:%s}' % (n1[-1] if rng.random() < 0.7 else rng.choice(n1), rng.choice(n0)))
        L.do('!snap c0 c1')
        L.do('relabeldisj c0 c1'); L.do('!disjoint-names c0 c1'); L.do('!same c1'); L.do('obs c0')
        L.do('relabeldisj c0 c1'); L.do('obs c0')
        L.do('compose c0 c1 c2'); L.do('obs c2')
        yield L.case()
        # the names `relabelDisjointFrom` would generate first are already in use: by the other complex (e.g. one that
        # came out of an earlier disjoint relabelling and had the original point added again), by the receiver, or both
        P0 = ['u%d' % p for p in pts_of(fam)]
        if P0:
            L = Live(pool, 'C15 relabelDisjointFrom, generated names taken')
            L.many(base); L.do('new c1')
            for p in P0:
                L.do('add c1 %s [] -' % p)
            for j, p in enumerate(P0):
                if j % 3 != 2:
                    L.do('add c1 w0.1.%s [] -' % p)          # in the other complex
                if j % 3 != 0:
                    L.do('add c0 w0.%d.%s [] -' % (1 if j % 3 == 2 else 2, p))      # in the receiver
            L.do('!snap c0 c1')
            L.do('relabeldisj c0 c1'); L.do('!disjoint-names c0 c1'); L.do('!same c1'); L.do('obs c0'); L.do('!inv c0')
            L.do('compose c0 c1 c2'); L.do('obs c2')
            yield L.case()
        ren = {t: 'u%d' % (450 + j) for j, t in enumerate(names)}
        for j, t in enumerate(rng.sample(names, min(3, len(names)))):
            if rng.random() < 0.5:
                ren[t] = 'u%d' % (10 + j)
        for t in list(ren):
            if rng.random() < 0.3 and t not in {tokS(x) for x in other}:
                del ren[t]                      # identity on some names that do not collide with the target
        rs = '{' + ','.join('%s:%s' % kv for kv in ren.items()) + '}'
        L = Live(pool, 'C15 addSimplicesFrom with renaming')
        L.many(base); L.many(build_lines(other, 'c1', 'faces')); L.do('!snap c1 c0')
        res = L.do('addfrom c1 c0 ' + rs)
        if res.startswith('ok'):
            L.do('!post-addfrom c1 c0 ' + rs)
        L.do('!same c0'); L.do('obs c1')
        yield L.case()
        # the source's own names permuted (a rotation, a swap) or shifted onto each other, into a target that has
        # none of them: the source is not relabelled, so old names of the source may serve as new names
        if len(names) >= 2:
            k = rng.randrange(1, len(names))
            rot = {t: names[(j + k) % len(names)] for j, t in enumerate(names)}
            a, b = rng.sample(names, 2)
            for ren in (rot, {a: b, b: a}, {t: names[j + 1] if j + 1 < len(names) else 'u470' for j, t in enumerate(names)}):
                rs = '{' + ','.join('%s:%s' % kv for kv in ren.items()) + '}'
                L = Live(pool, 'C15 addSimplicesFrom permuting the source names %s' % rs)
                L.many(base); L.do('new c1')
                if rng.random() < 0.5:
                    L.many(['add c1 u200 [] -', 'add c1 u201 [] -', 'addb c1 u202 [u200,u201] -'])
                L.do('!snap c1 c0')
                res = L.do('addfrom c1 c0 ' + rs)
                L.do('!lastok a_bulk_add_under_an_injective_renaming_onto_names_unused_in_the_target')
                if res.startswith('ok'):
                    L.do('!post-addfrom c1 c0 ' + rs)
                L.do('!same c0'); L.do('obs c1')
                yield L.case()
    # names that print alike (0 and '0', 1 and 1.0-as-string ...): outside the model's assumption that generated
    # names are injective in the old name, so judged on the implementation alone
    yield dict(lines=['!addfrom-fn-large 150'], pool='int', tag='C15 bulk add of several hundred simplices under a renaming function')
    for j in range(60 if tier == 'quick' else 600):
        yield dict(lines=['!disjoint-twin %d' % (seed * 131 + j)], pool='int', tag='C15 relabelDisjointFrom with names that print alike %d' % j)
    # known finding: chains and swaps (injective, avoiding the names that stay) are rejected
    yield dict(lines=['!relabel-chain-known', 'new c0', 'add c0 u1 [] -', 'add c0 u2 [] -', 'addb c0 u3 [u1,u2] -', 'relabel c0 {u1:u2,u2:u9}', 'obs c0'],
               pool='int', tag='C15 KNOWN chain witness')


# ---------------------------------------------------------------------------------------------------------
# C16
# ---------------------------------------------------------------------------------------------------------
def c16(tier, seed):
    rng = random.Random(seed)
    f3 = all_complexes(3); f4 = all_complexes(4)
    pairs = list(itertools.product(f3, repeat=2)) + [(rng.choice(f4), rng.choice(f4)) for _ in range(3000 if tier == 'quick' else 25000)]
    for i, (fa, fb) in enumerate(pairs):
        pool = POOL_NAMES[i % len(POOL_NAMES)]
        L = Live(pool, 'C16 %s | %s' % (sorted(map(sorted, fa)), sorted(map(sorted, fb))))
        L.many(build_lines(fa, 'c0', 'faces', attrs=(i % 3 != 0))); L.many(build_lines(fb, 'c1', 'faces', attrs=(i % 4 == 1)))
        kind = i % 5
        n0, n1 = L.toks('c0'), L.toks('c1')
        if kind == 1 and n1:
            # single-name perturbation: a shared name for a different basis / a shared basis under another name
            L.do('relabel c1 {%s:u%d}' % (rng.choice(n1), 960))
        elif kind == 2 and n1 and n0:
            t = rng.choice(n1)
            cand = [x for x in n0 if x not in n1]
            if cand:
                L.do('relabel c1 {%s:%s}' % (t, rng.choice(cand)))
        hi1 = [t for t in L.toks('c1') if B.orderOf(L.ex.objs['c1'], L.ex.name(t)) > 0]
        for t in n1[:3] + rng.sample(hi1, min(2, len(hi1))):
            if t in L.toks('c1'):
                L.do('dset c1 %s %d %d' % (t, rng.randrange(3), rng.randrange(5, 9)))
                if rng.random() < 0.5:
                    L.do('dset c1 %s %d %d' % (t, rng.choice([-1, -1, -2]), rng.randrange(5, 9)))   # the integer keys 0 and 1, set last
        if pool == 'falsy':
            # higher simplices of the receiver called '', 0 and (): in the argument too (compatible) or not (a shared
            # basis under two names)
            hi0 = [t for t in L.toks('c0') if B.orderOf(L.ex.objs['c0'], L.ex.name(t)) > 0]
            hi0.sort(key=lambda t: -B.orderOf(L.ex.objs['c0'], L.ex.name(t)))
            for t, f in zip(hi0[:3] if i % 2 else rng.sample(hi0, min(3, len(hi0))), rng.sample(['u10', 'u11', 'u12'], 3)):
                L.do('relabel c0 {%s:%s}' % (t, f))
                if t in L.toks('c1') and rng.random() < 0.6:
                    L.do('relabel c1 {%s:%s}' % (t, f))
        if i % 7 == 0 and n0:
            # the receiver has answered basis lookups and has then been relabelled (consistently with the argument)
            c0 = L.ex.objs['c0']
            for t in L.toks('c0'):
                L.do('q c0 swb ' + Lst([L.ex.T(x) for x in B.basisOf(c0, L.ex.name(t))]))
            t = rng.choice(L.toks('c0'))
            L.do('relabel c0 {%s:u985}' % t)
            if t in L.toks('c1'):
                L.do('relabel c1 {%s:u985}' % t)
        L.do('!snap c0 c1')
        if kind == 3:
            L.do('new c2')
            if i % 2 == 0:                   # a target with unrelated names; otherwise an empty target
                L.do('add c2 u970 [] -'); L.do('addb c2 u971 [u970,u972] -')
            L.do('!snap c2')
            res = L.do('composeinto c0 c1 c2')
        else:
            res = L.do('compose c0 c1 c2')
        L.do('!compose c0 c1 c2 ' + ('ok' if res == 'ok -' else 'rej'))
        L.do('!same c0 c1')
        if res == 'ok -' or kind == 3:
            L.do('obs c2')
        yield L.case()


# ---------------------------------------------------------------------------------------------------------
# C17
# ---------------------------------------------------------------------------------------------------------
def c17(tier, seed):
    rng = random.Random(seed)
    fams = fams_for(tier, rng, 4, 5, 2500)
    if tier == 'quick':
        fams = fams + rng.sample(all_complexes(5), 300)
    for i, fam in enumerate(fams):
        pool = ['int', 'str', 'intstr', 'blank', 'twin'][i % 5]
        L = Live(pool, 'C17 %s' % (sorted(map(sorted, fam)),))
        L.many(build_lines(fam, 'c0', ['faces', 'basis', 'shuffle'][i % 3], rng, attrs=(i % 2 == 0)))
        names = L.toks('c0')
        for t in names:
            if rng.random() < 0.4:
                L.do('dset c0 %s %d %d' % (t, rng.randrange(4), rng.choice([0, 1, 7] + list(range(1000, 1015)))))
        edges = [t for t in names if B.orderOf(L.ex.objs['c0'], L.ex.name(t)) == 1]
        if edges and i % 4 == 1 and len(L.toks('c0', 0)) >= 3:
            # a name re-used on other points after its faces had been asked for
            c0 = L.ex.objs['c0']
            t = rng.choice(edges)
            old = {L.ex.T(x) for x in B.basisOf(c0, L.ex.name(t))}
            L.do('q c0 faces ' + t); L.do('del c0 ' + t)
            cand = [q for q in itertools.combinations(L.toks('c0', 0), 2) if set(q) != old and B.simplexWithBasis(c0, [L.ex.name(x) for x in q]) is None]
            if cand:
                L.do('add c0 %s %s -' % (t, Lst(rng.choice(cand))))
            names = L.toks('c0')
        if names and i % 4 == 0:
            L.do('del c0 ' + rng.choice(names))
            names = L.toks('c0')
            if names:
                L.do('relabel c0 {%s:u%d}' % (rng.choice(names), 980))
        L.do('!snap c0'); L.do('json c0 c1'); L.do('!lastok JSON_round_trip'); L.do('!samecontent c0 c1'); L.do('!jsontext c0'); L.do('!jsonset c0'); L.do('!same c0')
        L.do('obs c1'); L.do('q c0 eq c1'); L.do('json c1 c2'); L.do('obs c2'); L.do('!nodictshare c1 c2'); L.do('!noshare c0 c1 c2')
        yield L.case()
    for j in range(200 if tier == 'quick' else 2000):
        g = FiltGen(seed * 4241 + j, ['int', 'str'][j % 2])
        g.run(rng.randrange(4, 14))
        g.do('setidx f %d' % rng.choice(IDX))
        for _ in range(rng.randrange(0, 3)):
            g.do(rng.choice(['next f', 'prev f', 'next f', 'minidx f', 'maxidx f']))      # reach the index by stepping
        g.do('json f c1'); g.do('!lastok JSON_round_trip'); g.do('!samecontent f c1'); g.do('!jsontext f'); g.do('obs c1'); g.do('!nodictshare c1')
        if j % 4 == 0:
            # every simplex deleted again (no index is left): the empty complex
            for t in g.alltoks():
                if t in g.alltoks():
                    g.do('del f ' + t)
            g.do('json f c2'); g.do('!lastok JSON_round_trip_of_an_emptied_filtration'); g.do('!samecontent f c2'); g.do('!jsontext f'); g.do('obs c2')
        yield g.case('C17 filtration encodes the complex at its index seed=%d' % (seed * 4241 + j))
    yield dict(lines=['!json-known'], pool='str', tag='C17 KNOWN marker inside attribute value')


# ---------------------------------------------------------------------------------------------------------
# C18
# ---------------------------------------------------------------------------------------------------------
def c18(tier, seed):
    rng = random.Random(seed)
    kmax = 5 if tier == 'quick' else 6
    for k in range(0, kmax + 1):
        for idt in ('-', 'u5', 'u0', 'a0.1', 'a%d.0' % k, 'a1.2'):      # u0 is the integer 0 (falsy)
            for d in ('-', 'D1'):
                lines = (['dict D1 {1:4}'] if d == 'D1' else []) + ['ksimplex c0 new %d %s %s' % (k, idt, d), '!gen c0 ksimplex %d %s %s' % (k, idt, d), 'obs c0', 'q c0 betti', 'q c0 counts']
                yield dict(lines=lines, pool='int', tag='C18 k_simplex(%d, id=%s)' % (k, idt))
        if k <= 4 or tier == 'thorough':
            yield dict(lines=['kvoid c0 new %d' % k, '!gen c0 kvoid %d' % k, 'obs c0', 'q c0 betti'], pool='int', tag='C18 k_void(%d)' % k)
        yield dict(lines=['kskel c0 new %d' % k, '!gen c0 kskel %d' % k, 'obs c0'], pool='int', tag='C18 k_skeleton(%d)' % k)
    for n in range(0, 13):
        yield dict(lines=['ring c0 new %d' % n] + (['!gen c0 ring %d' % n, 'obs c0', 'q c0 betti'] if n > 2 else []), pool='int', tag='C18 ring(%d)' % n)
    rc = 5 if tier == 'quick' else 6
    for r in range(2, rc + 1):
        for cl in range(1, rc + 1):
            if tier == 'quick' and r * cl > 16 and (r + cl) % 3:
                continue
            yield dict(lines=['lattice c0 %d %d' % (r, cl), '!lattice c0 %d %d' % (r, cl), 'obs c0', 'q c0 euler'] + (['q c0 betti'] if r * cl <= 20 else []),
                       pool='int', tag='C18 TriangularLattice(%d,%d)' % (r, cl))
    # into existing complexes: arbitrary histories and prior generator calls
    gens = ['ksimplex', 'kvoid', 'kskel', 'ring']
    for j in range(800 if tier == 'quick' else 8000):
        pool = POOL_NAMES[j % len(POOL_NAMES)]
        g = HistGen(seed * 131 + j, pool)
        g.do('new c0')
        if j % 2 == 0:
            for _ in range(rng.randrange(1, 10)):
                g.step_mutator('c0')
        else:
            g.do('ksimplex c0 old 2 - -')
        # user names that look like generated ones
        if rng.random() < 0.5:
            g.do('add c0 a0.%d [] -' % rng.randrange(12)); g.do('add c0 a0.%d [] -' % rng.randrange(12))
        for _ in range(rng.randrange(1, 4)):
            kind = rng.choice(gens)
            k = rng.randrange(3, 7) if kind == 'ring' else rng.randrange(0, 4)
            g.lines.append('!snap c0'); g.out.append('ok')
            if kind == 'ksimplex':
                idt = rng.choice(['-', 'u990', 'a0.%d' % rng.randrange(12), 'a1.%d' % rng.randrange(12)])
                if idt in g.tok_names('c0'):
                    idt = '-'
                g.do('dict DG {3:3}')
                g.do('ksimplex c0 old %d %s DG' % (k, idt))
                g.lines.append('!gen c0 ksimplex %d %s DG' % (k, idt)); g.out.append('ok')
                used = g.tok_names('c0')
                if used and rng.random() < 0.3:
                    # the requested name is taken: refused, and nothing (no stray basis point) is left behind
                    g.lines.append('!snap c0'); g.out.append('ok')
                    g.do('ksimplex c0 old %d %s -' % (rng.randrange(0, 4), rng.choice(used)))
                    g.lines += ['!rejected', '!same-if-rej c0']; g.out += ['ok', 'ok']
            else:
                g.do('%s c0 old %d' % (kind, k))
                g.lines.append('!gen c0 %s %d' % (kind, k)); g.out.append('ok')
            g.do('obs c0')
        yield dict(lines=g.lines, pool=pool, tag='C18 generators into a history seed=%d' % (seed * 131 + j))


# ---------------------------------------------------------------------------------------------------------
# C19
# ---------------------------------------------------------------------------------------------------------
def c19(tier, seed):
    rng = random.Random(seed)
    fams = all_complexes(3) + (all_complexes(4) if tier == 'thorough' else rng.sample(all_complexes(4), 167))
    for i, fam in enumerate(fams):
        P = pts_of(fam)
        base = build_lines(fam, 'c0', ['faces', 'basis'][i % 2])
        hs = list(itertools.product(range(4), repeat=len(P)))
        if tier == 'quick' and len(hs) > 30:
            hs = rng.sample(hs, 30)
        lines = list(base)
        for h in hs:
            for p, v in zip(P, h):
                lines.append('dset c0 u%d 7 %d' % (p, v))
            lines += ['!integrate c0 7 0', 'q c0 integrate 7 0']
        lines += ['q c0 euler', 'q c0 counts', '!betti c0']
        yield dict(lines=lines, pool=POOL_NAMES[i % len(POOL_NAMES)], tag='C19 heights on %s' % (sorted(map(sorted, fam)),))
    for j in range(300 if tier == 'quick' else 3000):
        n = rng.randrange(1, 8)
        L = Live(POOL_NAMES[j % len(POOL_NAMES)], 'C19 random seed=%d/%d' % (seed, j))
        facets = [rng.sample(range(n), rng.randrange(1, min(n, 4) + 1)) for _ in range(rng.randrange(1, 7))]
        L.many(facets_lines(facets))
        dflt = rng.choice([0, 0, 1, 2, 5])
        for p in range(n):
            if rng.random() < 0.7 and 'u%d' % p in L.toks('c0'):
                L.do('dset c0 u%d 7 %d' % (p, rng.randrange(0, 6)))
        if j % 3 == 0:
            # the same attribute on edges and triangles: the metric is one on points, so they play no part
            for t in L.toks('c0'):
                if B.orderOf(L.ex.objs['c0'], L.ex.name(t)) > 0 and rng.random() < 0.6:
                    L.do('dset c0 %s 7 %d' % (t, rng.randrange(0, 4)))
        L.do('!integrate c0 7 %d' % dflt); L.do('q c0 integrate 7 %d' % dflt)
        # additive over disjoint unions
        L.do('copy c0 c1')
        L.do('relabel c1 {%s}' % ','.join('%s:u%d' % (t, 800 + k) for k, t in enumerate(L.toks('c1'))))
        L.do('compose c0 c1 c2'); L.do('q c2 integrate 7 %d' % dflt); L.do('!integrate c2 7 %d' % dflt)
        L.do('!additive c0 c1 c2 7 %d' % dflt)
        # ask, change the complex, ask again: delete (homology changes), re-add, other heights on the same names
        for _ in range(rng.randrange(1, 4)):
            names = L.toks('c0')
            if not names:
                break
            L.do('q c0 betti'); L.do('q c0 euler'); L.do('q c0 snf %d' % rng.randrange(0, 3))
            t = rng.choice(names)
            kind = rng.randrange(3)
            if kind == 0:
                L.do('del c0 ' + t)
            elif kind == 1:
                pts = L.toks('c0', 0)
                L.do('restrict c0 ' + Lst(rng.sample(pts, rng.randrange(1, len(pts) + 1))))
            else:
                pts = L.toks('c0', 0)
                for p in rng.sample(pts, min(2, len(pts))):
                    L.do('dset c0 %s 7 %d' % (p, rng.randrange(0, 6)))
            L.do('q c0 betti'); L.do('q c0 euler'); L.do('q c0 counts'); L.do('!betti c0')
            L.do('q c0 integrate 7 %d' % dflt); L.do('!integrate c0 7 %d' % dflt)
        yield L.case()
    yield dict(lines=['new c0', '!integrate c0 7 0', 'q c0 integrate 7 0', 'q c0 euler'], pool='int', tag='C19 empty complex')


# ---------------------------------------------------------------------------------------------------------
# C20
# ---------------------------------------------------------------------------------------------------------
def c20(tier, seed):
    rng = random.Random(seed)
    fams = all_complexes(3) + rng.sample(all_complexes(4), 40)
    n = 1000 if tier == 'quick' else 8000
    for j in range(n):
        pool = POOL_NAMES[j % len(POOL_NAMES)]
        dim = rng.randrange(1, 5)
        L = Live(pool, 'C20 embedding dim=%d seed=%d/%d' % (dim, seed, j))
        L.many(build_lines(rng.choice(fams), 'c0'))
        L.do('emb e c0 %d' % dim)
        names = L.toks('c0') + ['u77']
        for _ in range(rng.randrange(3, 18)):
            k = rng.choice(['pos', 'pos', 'posof', 'posof', 'posof', 'clear', 'len', 'in', 'badpos', 'all'])
            t = rng.choice(names)
            if k == 'pos':
                L.do('pos e %s %s' % (t, Lst([str(rng.randrange(-3, 9)) for _ in range(dim)])))
            elif k == 'badpos':
                L.do('pos e %s %s' % (t, Lst([str(rng.randrange(-3, 9)) for _ in range(rng.choice([d for d in range(0, 6) if d != dim]))])))
            elif k == 'posof':
                L.do('posof e ' + t)
            elif k == 'clear':
                L.do('clearpos e')
            elif k == 'len':
                L.do('elen e')
            elif k == 'in':
                L.do('ein e ' + t)
            elif k == 'all':
                L.do('eposall e')
            L.do('!emb e')
        yield L.case()
    rc = 5 if tier == 'quick' else 6
    for r in range(1, rc + 1):
        for cl in range(1, rc + 1):
            for (hh, ww) in ((1, 1), (3, 7)):
                L = Live('int', 'C20 lattice embedding %dx%d in %dx%d' % (r, cl, hh, ww))
                L.do('lattice c0 %d %d' % (r, cl))
                L.do('lemb e c0 %d %d %d %d' % (r, cl, hh, ww))
                for p in range(r * cl):
                    L.cmp[len(L.lines)] = 'rat'
                    L.do('posof e u%d' % p)
                L.do('!latticepos e'); L.do('!emb e')
                L.do('pos e u0 [5,5]'); L.do('posof e u0')
                yield L.case()


SUITES = dict(C01=c01, C02=c02, C03=c03, C04=c04, C05=c05, C06=c06, C07=c07, C08=c08, C09=c09, C10=c10,
              C11=c11, C12=c12, C13=c13, C14=c14, C15=c15, C16=c16, C17=c17, C18=c18, C19=c19, C20=c20)


def cases(pid, tier, seed):
    """the cases of a property; when building a case needs to inspect the live implementation and that raises
    (possible only when the implementation is corrupted by an earlier call), the script built so far is emitted
    with a final well-formedness oracle, and generation stops"""
    import gen as _g, traceback
    it = SUITES[pid](tier, seed)
    while True:
        try:
            c = next(it)
        except StopIteration:
            return
        except Exception as e:
            cur = _g.CURRENT[0]
            lines = list(cur.lines) if cur is not None else []
            pool = getattr(cur, 'pool', None) or getattr(getattr(cur, 'ex', None), 'pool', 'int')
            yield dict(lines=lines + ['!inv-all'], pool=pool, genfail=traceback.format_exc()[-1500:],
                       tag='%s: building the next call raised %s: %r (inspecting the implementation after this script)' % (pid, type(e).__name__, e))
            return
        yield c
