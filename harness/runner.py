"""Runs cases (op scripts) on the implementation and on the Lean model driver, evaluates the oracles, compares the
two streams and collects coverage statistics. A case is a dict:
    lines : list of op lines; a line starting with '!' is an oracle call evaluated on the implementation only
    pool  : name pool
    tag   : short description
    judge : True -> every `obs` of a plain complex observed from the implementation is loaded into the model
            and the Lean predicate `checkInv` is evaluated on it (`judge inv`)
    cmp   : optional {line index: comparator name}
"""
import hashlib, json, os, sys, time, traceback, collections, multiprocessing, re
import core
from core import canon, Executor, run_model
import oracles


def run_case_impl(case):
    """execute on the real library; returns per-line outputs (oracle lines included)"""
    ex = Executor(case.get('pool', 'int'))
    ex.vr_eps = case.get('vr_eps')
    ost = oracles.State(ex)
    out = []
    eff = case['effective'] = {}
    for l in case['lines']:
        if l.startswith('!'):
            try:
                ost.last = next((o for o, ll in zip(reversed(out), reversed(case['lines'][:len(out)])) if not ll.startswith('!')), '')
                out.append(ost.call(l[1:].split()))
            except Exception as e:
                out.append('ORACLE-ERROR %s: %r' % (l, e))
        else:
            out.append(ex.run(l))
            if ex.effective is not None and ex.effective != l:
                eff[len(out) - 1] = ex.effective
    return out


def rat_close(a, b):
    """impl floats vs model rationals: 'ok [0.25,1.0]' vs 'ok [1/4,1/1]'"""
    try:
        xa = [float(x) for x in a[4:-1].split(',')]
        xb = []
        for q in b[4:-1].split(','):
            n, d = q.split('/')
            xb.append(int(n) / int(d))
        return len(xa) == len(xb) and all(abs(x - y) <= 1e-9 * max(1.0, abs(y)) for x, y in zip(xa, xb))
    except Exception:
        return False


COMPARATORS = {'rat': rat_close}


def process_chunk(cases):
    """returns (failures, stats) for a list of cases"""
    t0 = time.time()
    stats = collections.Counter()
    kinds = collections.Counter()
    distinct = set()
    failures = []
    impl_out = []
    for case in cases:
        try:
            impl_out.append(run_case_impl(case))
        except Exception as e:
            impl_out.append(None)
            failures.append(dict(kind='harness-error', tag=case.get('tag'), error=traceback.format_exc(), case=case))
    # model script: all cases, separated by reset; oracle lines dropped; judge lines added
    mlines, index = [], []      # index: (case#, line#, kind)
    for ci, case in enumerate(cases):
        if impl_out[ci] is None:
            continue
        mlines.append('reset'); index.append((ci, -1, 'reset'))
        for li, l in enumerate(case['lines']):
            if l.startswith('!'):
                continue
            mlines.append(case.get('effective', {}).get(li, l)); index.append((ci, li, 'op'))
            if case.get('judge') and l.startswith('obs ') and impl_out[ci][li].startswith('ok '):
                m = re.search(r'S=\[.*?\] seq=', impl_out[ci][li])
                if m and ' idx=' not in impl_out[ci][li]:
                    mlines.append('load J__ ' + m.group(0)[:-5]); index.append((ci, li, 'load'))
                    mlines.append('judge inv J__'); index.append((ci, li, 'judge'))
    try:
        mout = run_model(mlines) if mlines else []
    except Exception as e:
        return [dict(kind='harness-error', error='model driver: %r' % (e,), case=None)], stats, kinds, distinct, {}
    per_case_model = collections.defaultdict(dict)
    judge_fail = collections.defaultdict(list)
    for (ci, li, k), o in zip(index, mout):
        if k == 'op':
            per_case_model[ci][li] = o
        elif k == 'judge':
            stats['judge_evaluations'] += 1
            if o != 'ok T':
                judge_fail[ci].append((li, o))
        elif k == 'load' and o != 'ok -':
            judge_fail[ci].append((li, 'load: ' + o))
    for ci, case in enumerate(cases):
        if impl_out[ci] is None:
            continue
        stats['cases'] += 1
        first_diff = None
        oracle_fails = []
        oracle_errors = []
        status_fail = False
        malformed = False
        state_hash = hashlib.md5()
        for li, l in enumerate(case['lines']):
            io = impl_out[ci][li]
            if l.startswith('!'):
                stats['oracle_calls'] += 1
                if io.startswith('ok KNOWN'):
                    for kid in io.split()[2].split(','):
                        kinds['known:' + kid] += 1
                if io.startswith('ORACLE-ERROR'):
                    oracle_errors.append((li, l, io))
                elif not io.startswith('ok'):
                    if l.split()[0] == '!rejected':
                        # the request is invalid only if the model rejects it (a shrunk script may have made it valid)
                        prev = max((k for k in per_case_model[ci] if k < li), default=None)
                        if prev is None or per_case_model[ci][prev] != 'rej':
                            continue
                    if l.split()[0] == '!lastok':
                        # likewise the call is valid only if the model accepts it
                        prev = max((k for k in per_case_model[ci] if k < li), default=None)
                        if prev is None or not per_case_model[ci][prev].startswith('ok'):
                            continue
                    oracle_fails.append((li, l, io))
                continue
            stats['ops'] += 1
            op = l.split()[0]
            if op == 'q':
                op = 'q:' + l.split()[2]
            kinds[op] += 1
            if io == 'rej':
                kinds['rej:' + op] += 1
            elif io.startswith('crash'):
                kinds['crash:' + op] += 1
            mo = per_case_model[ci].get(li)
            cmpname = (case.get('cmp') or {}).get(li)
            same = COMPARATORS[cmpname](io, mo) if cmpname else (canon(io) == canon(mo))
            if io == 'crash:Exception' and mo == 'rej':
                # Filtration.orderOf/indexOf/addedAtIndex document a bare Exception for a simplex that is not there:
                # a rejection where the model rejects too (where the model answers, it stays a crash)
                same = True
            if not same and first_diff is None:
                first_diff = dict(line=li, op=l, impl=io, model=mo)
            if io.startswith('err'):
                malformed = True            # the script names an object it never made (a shrunk script): no verdicts from here on
            if not same and not status_fail and not malformed:
                # (the first such event of the script, also when an observation differed before it)
                status_fail = True
                if io.startswith('crash:') and mo is not None and not mo.startswith('err') and mo != 'unmodelled':
                    # neither KeyError/ValueError nor a result: valid calls must succeed, invalid ones must be
                    # rejected with KeyError or ValueError
                    oracle_fails.append((li, l, 'FAIL the implementation raised %s where the model answers %s' % (io[6:], mo[:60])))
                elif io in ('rej', 'rejK') and mo is not None and mo.startswith('ok'):
                    # the model accepts exactly the in-contract calls (the rejection theorems of C05): a valid call
                    # that raises has not had the effect / given the answer its property states
                    oracle_fails.append((li, l, 'FAIL the implementation rejected (KeyError/ValueError) a call that is valid: the model answers %s' % mo[:60]))
                elif io.startswith('ok') and mo == 'rej':
                    oracle_fails.append((li, l, 'FAIL the implementation accepted a call that must be rejected with KeyError/ValueError: it answered %s' % io[:60]))
                else:
                    status_fail = False         # both answered: a difference in the answer, judged by the oracles
            # distinct non-trivial (state, op) pairs: an op that was rejected or changed the observed state
            state_hash.update(canon(io).encode())
            if op not in ('obs', 'alias', 'reset') and not op.startswith('q:') and op != 'dict':
                h = hashlib.md5(state_hash.digest() + l.encode()).hexdigest()[:16]
                distinct.add(h)
        for (li, o) in judge_fail.get(ci, []):
            oracle_fails.append((li, 'judge inv (Lean checkInv on the state observed from the implementation)', o))
        if oracle_errors and not oracle_fails and first_diff is None and not case.get('corpus'):
            # (a stored replay recorded against a changed library may name simplices the unchanged library never
            # generates: there an oracle that cannot be evaluated judges nothing)
            # an oracle could not be evaluated although model and implementation agree: a harness problem
            failures.append(dict(kind='harness-error', tag=case.get('tag'), case=case, error='oracle raised: %r' % (oracle_errors[:2],)))
        if oracle_fails:
            failures.append(dict(kind='impl-violation', tag=case.get('tag'), case=case, oracle=[list(x) for x in oracle_fails[:5]],
                                 first_difference=first_diff, oracle_errors=len(oracle_errors), malformed=malformed))
        elif first_diff is not None:
            failures.append(dict(kind='correspondence', tag=case.get('tag'), case=case, first_difference=first_diff))
    stats['wall_s'] = time.time() - t0
    return failures, stats, kinds, distinct, {}


def _worker(chunk):
    try:
        return process_chunk(chunk)
    except Exception:
        return [dict(kind='harness-error', error=traceback.format_exc(), case=None)], collections.Counter(), collections.Counter(), set(), {}


def run_cases(cases, jobs=None, chunk=40, deadline=None):
    """run all cases in parallel; returns (failures, stats, kinds, ndistinct, samples)"""
    cases = list(cases)
    jobs = jobs or min(16, os.cpu_count() or 4)
    chunks = [cases[i:i + chunk] for i in range(0, len(cases), chunk)]
    failures, stats, kinds, distinct = [], collections.Counter(), collections.Counter(), set()
    if not chunks:
        return failures, stats, kinds, 0, []
    if jobs == 1 or len(chunks) == 1:
        results = map(_worker, chunks)
    else:
        pool = multiprocessing.Pool(jobs)
        results = pool.imap_unordered(_worker, chunks)
    for f, s, k, d, _ in results:
        failures += f; stats.update(s); kinds.update(k); distinct |= d
        if deadline and time.time() > deadline:
            stats['deadline_hit'] = 1
            break
    if jobs != 1 and len(chunks) > 1:
        pool.terminate()
    samples = [dict(tag=c.get('tag'), pool=c.get('pool', 'int'), lines=c['lines'][:40]) for c in cases[:1] + cases[len(cases) // 2:len(cases) // 2 + 1]]
    return failures, stats, kinds, len(distinct), samples


# ---------------------------------------------------------------------------------------------------------
# shrinking a failing case (delta debugging on the op list; keeps `reset`/`new` lines)
# ---------------------------------------------------------------------------------------------------------
def still_fails(case, kind, oracle=None):
    f, _, _, _, _ = process_chunk([case])
    for x in f:
        if x['kind'] != kind:
            continue
        if kind == 'correspondence':
            d = x.get('first_difference') or {}
            if oracle is not None and d.get('op') != oracle:
                continue
            if str(d.get('impl', '')).startswith('err') or str(d.get('model', '')).startswith('err'):
                continue
            return True
        if x.get('oracle_errors') or x.get('malformed'):
            continue            # a candidate in which an oracle could not be evaluated / an object is missing is not a valid script
        if oracle is None or any(o[1].split()[0] == oracle[0] and o[2].split()[:3] == oracle[1] for o in (x.get('oracle') or [])):
            return True
    return False


def shrink(case, kind, budget=80, oracle=None):
    """delta debugging over *units*: an op line together with the oracle lines that follow it (an oracle line
    judges the op before it, so they are removed together or not at all)"""
    units, cur, pre = [], [], []
    for l in case['lines']:
        if l.startswith('!snap') or l.startswith('dict '):
            pre.append(l)              # a snapshot / a dict argument belongs to the op that follows it
            continue
        if not l.startswith('!'):
            if cur:
                units.append(cur)
            cur = pre + [l]; pre = []
        else:
            cur = cur + pre + [l]; pre = []
    if cur or pre:
        units.append(cur + pre)
    flat = lambda us: [l for u in us for l in u]
    n = 0
    t_end = time.time() + 60          # a broken implementation may also be a slow one: shrinking is best effort
    gran = max(1, len(units) // 2)
    while gran >= 1 and n < budget and time.time() < t_end:
        i = 0
        changed = False
        while i < len(units) and n < budget and time.time() < t_end:
            cand = units[:i] + units[i + gran:]
            n += 1
            if cand and still_fails(dict(case, lines=flat(cand)), kind, oracle):
                units = cand; changed = True
            else:
                i += gran
        if not changed:
            gran //= 2
    return dict(case, lines=flat(units))
