#!/venv/bin/python
"""./check <Cnn> [--tier quick|thorough] [--replay <file>]

Decides one property: (1) the Lean theorems registered for it compile and depend only on the standard axioms,
(2) the hand-written Lean model and the implementation agree on generated operation sequences, (3) property
oracles evaluated on the implementation find no failing input. Writes evidence/<Cnn>.json; exit 0 = held on
everything explored, exit 1 + `VIOLATION property=<id> replay=<path>` otherwise, exit 2 = machinery error."""
import fcntl, json, os, re, subprocess, sys, time, hashlib, traceback

HERE = os.path.dirname(os.path.abspath(__file__))
VERIF = os.path.dirname(HERE)
LEAN = os.path.join(VERIF, 'lean')
os.environ.setdefault('PYTHONHASHSEED', '0')
if os.environ.get('PYTHONHASHSEED') != '0' or not os.environ.get('_SX_REEXEC'):
    # reproducible set iteration order in the implementation: re-exec once with a fixed hash seed
    env = dict(os.environ, PYTHONHASHSEED='0', _SX_REEXEC='1')
    os.execve(sys.executable, [sys.executable] + sys.argv, env)
sys.path.insert(0, HERE)

ALLOWED_AXIOMS = {'propext', 'Classical.choice', 'Quot.sound'}
FORBIDDEN = re.compile(r'\b(sorry|admit|native_decide|bv_decide|implemented_by|unsafe)\b|^\s*axiom\s|maxHeartbeats\s+0')
TRUSTED = [
    'Lean 4.33.0 kernel; Mathlib v4.33.0 modules imported by the proof files',
    'axioms: propext, Classical.choice, Quot.sound only (audited with #print axioms on every run); no sorry/admit/native_decide/bv_decide/own axioms',
    'the Lean model is hand-written; it is tied to /repo by the correspondence check (sampled, not proved)',
    'the harness: op executor, atom table, canonicaliser, oracles (harness/*.py)',
    'modelled rather than verified: numpy matrices (Bool lists), CPython dict/set semantics (names are atoms; set order is a parameter), copy/deepcopy allocation, json text, float arithmetic',
]


def sh(cmd, cwd=None, timeout=None):
    p = subprocess.run(cmd, cwd=cwd, shell=isinstance(cmd, str), capture_output=True, text=True, timeout=timeout)
    return p.returncode, p.stdout + p.stderr


def ensure_built():
    """lake build (library with every proof + the driver), serialised across parallel checks"""
    os.makedirs(os.path.join(LEAN, '.lake'), exist_ok=True)
    with open(os.path.join(LEAN, '.lake', 'sx-build.lock'), 'w') as lock:
        fcntl.flock(lock, fcntl.LOCK_EX)
        rc, out = sh(['lake', 'build', 'Sx', 'driver'], cwd=LEAN, timeout=3000)
    return rc == 0, out


def registry():
    return json.load(open(os.path.join(LEAN, 'props.json')))


def grep_forbidden():
    bad = []
    for root, _, files in os.walk(os.path.join(LEAN, 'Sx')):
        for f in files:
            if not f.endswith('.lean'):
                continue
            incomment = 0
            for i, line in enumerate(open(os.path.join(root, f), encoding='utf-8')):
                code = line
                # strip line comments and track block comments (docstrings may mention the words)
                if incomment:
                    if '-/' in code:
                        incomment = 0
                        code = code.split('-/', 1)[1]
                    else:
                        continue
                if '/-' in code:
                    head, rest = code.split('/-', 1)
                    if '-/' in rest:
                        code = head + rest.split('-/', 1)[1]
                    else:
                        incomment = 1
                        code = head
                code = code.split('--', 1)[0]
                if FORBIDDEN.search(code):
                    bad.append('%s:%d: %s' % (os.path.relpath(os.path.join(root, f), LEAN), i + 1, line.strip()[:120]))
    for f in ('Main.lean',):
        for i, line in enumerate(open(os.path.join(LEAN, f))):
            if FORBIDDEN.search(line.split('--', 1)[0]):
                bad.append('%s:%d: %s' % (f, i + 1, line.strip()[:120]))
    return bad


def audit(pid, tier):
    """`#print axioms` for every theorem registered for the property; returns (theorems, ok-list, problems, cmd)"""
    reg = registry()[pid]
    names = reg['theorems']
    mods = reg['modules']
    src = ''.join('import %s\n' % m for m in mods) + ''.join('#print axioms %s\n' % n for n in names)
    path = os.path.join(LEAN, '.lake', 'audit_%s_%d.lean' % (pid, os.getpid()))
    open(path, 'w').write(src)
    try:
        rc, out = sh(['lake', 'env', 'lean', path], cwd=LEAN, timeout=1200)
    finally:
        try:
            os.unlink(path)
        except OSError:
            pass
    okl, problems = [], []
    found = {}
    for m in re.finditer(r"'(\S+?)' depends on axioms: \[([^\]]*)\]", out.replace('\n', ' ')):
        found[m.group(1)] = {a.strip() for a in m.group(2).split(',') if a.strip()}
    for m in re.finditer(r"'(\S+?)' does not depend on any axioms", out):
        found[m.group(1)] = set()
    for n in names:
        if n not in found:
            problems.append('theorem %s: not checked (%s)' % (n, _first_error(out)))
        elif not found[n] <= ALLOWED_AXIOMS:
            problems.append('theorem %s depends on %s' % (n, sorted(found[n] - ALLOWED_AXIOMS)))
        else:
            okl.append(n)
    cmd = 'cd lean && lake build Sx driver && lake env lean <#print axioms of %d theorems of %s>' % (len(names), ','.join(mods))
    if tier == 'thorough':
        rc2, out2 = sh(['lake', 'env', 'leanchecker'] + mods, cwd=LEAN, timeout=3000)
        cmd += ' && lake env leanchecker ' + ' '.join(mods)
        if rc2 != 0:
            problems.append('leanchecker failed on %s: %s' % (mods, out2[-300:]))
    return names, okl, problems, cmd


def _first_error(out):
    for l in out.split('\n'):
        if 'error' in l:
            return l.strip()[:200]
    return 'no output'


def load_known():
    return json.load(open(os.path.join(VERIF, 'KNOWN_FINDINGS.json')))


def write_replay(pid, tier, seed, kind, failure, extra=None):
    os.makedirs(os.path.join(VERIF, 'out', 'replays'), exist_ok=True)
    case = failure.get('case') or {}
    body = dict(property=pid, kind=kind, seed=seed, tier=tier, tag=failure.get('tag'),
                pool=case.get('pool'), script=case.get('lines'), vr_eps=case.get('vr_eps'), cmp=case.get('cmp'),
                first_difference=failure.get('first_difference'), oracle=failure.get('oracle'),
                how_to_rerun='./check %s --replay <this file>' % pid)
    if extra:
        body.update(extra)
    h = hashlib.md5(json.dumps(body, sort_keys=True, default=str).encode()).hexdigest()[:10]
    path = os.path.join(VERIF, 'out', 'replays', '%s-%s-%s.json' % (pid, kind, h))
    json.dump(body, open(path, 'w'), indent=1, default=str)
    return os.path.relpath(path, VERIF)


def replay(pid, path):
    import runner
    body = json.load(open(path))
    if not body.get('script'):
        print('replay names no script: %s' % (body.get('theorem') or body.get('note'),))
        return 1
    case = dict(lines=body['script'], pool=body.get('pool') or 'int', tag=body.get('tag'), vr_eps=body.get('vr_eps'))
    if body.get('cmp'):
        case['cmp'] = {int(k): v for k, v in body['cmp'].items()}
    fails, _, _, _, _ = runner.process_chunk([case])
    out = runner.run_case_impl(case)
    for l, o in zip(case['lines'], out):
        print('%-60s => %s' % (l[:60], o[:200]))
    for f in fails:
        print('REPRODUCED %s: %s %s' % (f['kind'], f.get('oracle') or '', f.get('first_difference') or ''))
    if fails:
        print('VIOLATION property=%s replay=%s' % (pid, path))
        return 1
    print('not reproduced')
    return 0


def main():
    args = sys.argv[1:]
    pid = args[0]
    tier = os.environ.get('VERIF_TIER', 'quick')
    if '--tier' in args:
        tier = args[args.index('--tier') + 1]
    seed = int(os.environ.get('VERIF_SEED', '1'))
    if '--replay' in args:
        ok, out = ensure_built()
        return replay(pid, args[args.index('--replay') + 1])
    t0 = time.time()
    known = load_known()
    listed = {k['id']: k for k in known['findings'] if k['property'] == pid}

    # 1. proof obligations ------------------------------------------------------------------------------
    built, bout = ensure_built()
    proof_problems = []
    names, okl, cmd = [], [], ''
    if not built:
        proof_problems.append('lake build failed: ' + _first_error(bout))
        names = registry()[pid]['theorems']
    else:
        names, okl, probs, cmd = audit(pid, tier)
        proof_problems += probs
    layering_problems = []
    if pid == 'C03':
        # the Layer-R theorems cover every reachable representation state only if the package reaches the matrices
        # through the three modelled mutators alone: decided on the current source (harness/layering.py)
        import layering
        try:
            layering_problems = layering.problems()
        except Exception as e:
            layering_problems = ['layering check could not parse the source: %r' % (e,)]
        proof_problems += ['layering (side condition of reachable_MInv / public_history_proper): ' + p for p in layering_problems]
    bad = grep_forbidden()
    if bad:
        proof_problems.append('forbidden construct in Lean sources: ' + '; '.join(bad[:3]))

    # 2./3. correspondence and oracles --------------------------------------------------------------------
    import runner, suites
    violations = []
    corr = []
    stats = kinds = None
    nd = 0
    samples = []
    harness_errors = []
    seen_known = {}
    if os.path.exists(runner.core.DRIVER):
        corpus_dir = os.path.join(VERIF, 'corpus', pid)
        corpus = []
        if os.path.isdir(corpus_dir):
            for f in sorted(os.listdir(corpus_dir)):
                b = json.load(open(os.path.join(corpus_dir, f)))
                cc = dict(lines=b['script'], pool=b.get('pool') or 'int', tag='corpus ' + f, vr_eps=b.get('vr_eps'), corpus=True)
                if b.get('cmp'):
                    cc['cmp'] = {int(k): v for k, v in b['cmp'].items()}
                corpus.append(cc)
        cases = corpus + list(suites.cases(pid, tier, seed))
        fails, stats, kinds, nd, samples = runner.run_cases(cases)
        for c in cases:
            if c.get('genfail') and not any(f.get('case') is not None and f['case'].get('genfail') and f['kind'] == 'impl-violation' for f in fails):
                # inspection raised although the complex passes its well-formedness oracle: a harness problem
                harness_errors_pre = dict(kind='harness-error', error='case generation failed: ' + c['genfail'])
                fails.append(harness_errors_pre)
        for f in fails:
            if f['kind'] == 'impl-violation':
                violations.append(f)
            elif f['kind'] == 'correspondence':
                corr.append(f)
            else:
                harness_errors.append(f)
        # a broken proof or correspondence is not by itself a violation: search for a failing input with more seeds
        searched = 0
        if (corr or proof_problems) and not violations and not harness_errors:
            for extra_seed in range(seed + 1000, seed + 1003):
                f2, s2, k2, _, _ = runner.run_cases(list(suites.cases(pid, tier, extra_seed)))
                searched += s2['cases']
                violations += [f for f in f2 if f['kind'] == 'impl-violation']
                if violations:
                    break
        for k, v in kinds.items():
            if k.startswith('known:'):
                seen_known[k[6:]] = v
    else:
        harness_errors.append(dict(kind='harness-error', error='model driver not built: ' + _first_error(bout)))

    # 4. verdict -----------------------------------------------------------------------------------------
    lines = []
    nviol = 0
    for kid, n in sorted(seen_known.items()):
        if kid in listed:
            lines.append('KNOWN-FINDING: property=%s %s (%s; seen %d times)' % (pid, listed[kid]['text'], kid, n))
        else:
            p = write_replay(pid, tier, seed, 'impl-violation', dict(tag='finding %s is not listed in KNOWN_FINDINGS.json' % kid, case=None))
            lines.append('VIOLATION property=%s replay=%s' % (pid, p)); nviol += 1
    if violations:
        f = violations[0]
        try:
            # oracles that compare two objects built by the same calls are not shrunk: dropping one of a pair of
            # calls would make them fail for a reason that has nothing to do with the implementation
            paired = f.get('oracle') and f['oracle'][0][1].split()[0] in ('!sameobs', '!samefam', '!additive')
            if not (f['case'] or {}).get('cmp') and not paired:
                orc = (f['oracle'][0][1].split()[0], f['oracle'][0][2].split()[:3]) if f.get('oracle') else None
                f = dict(f, case=runner.shrink(f['case'], 'impl-violation', oracle=orc))
                ff, _, _, _, _ = runner.process_chunk([f['case']])
                ff = [x for x in ff if x['kind'] == 'impl-violation']
                if ff:
                    f = ff[0]
        except Exception:
            pass
        p = write_replay(pid, tier, seed, 'impl-violation', f, dict(also_failing=len(violations)))
        lines.append('VIOLATION property=%s replay=%s' % (pid, p)); nviol += len(violations)
    elif corr:
        f = corr[0]
        try:
            if not (f['case'] or {}).get('cmp'):
                f = dict(f, case=runner.shrink(f['case'], 'correspondence', oracle=(f.get('first_difference') or {}).get('op')))
                ff, _, _, _, _ = runner.process_chunk([f['case']])
                if ff:
                    f = ff[0]
        except Exception:
            pass
        p = write_replay(pid, tier, seed, 'correspondence', f,
                         dict(note='model and implementation disagree on this script; the property oracles found no failing input on %d further cases' % searched,
                              disagreeing_cases=len(corr)))
        lines.append('VIOLATION property=%s replay=%s no-failing-input-found' % (pid, p)); nviol += 1
    elif [h for h in harness_errors if h.get('case')]:
        # a script could not be run, or one of its oracles could not be evaluated, against this implementation.
        # On the unchanged tree every script runs and every oracle evaluates (that is checked for every seed used
        # in development), so this is reported as a violation with the script as the input to look at.
        f = [h for h in harness_errors if h.get('case')][0]
        p = write_replay(pid, tier, seed, 'impl-violation', dict(tag=f.get('tag'), case=f['case'], oracle=[[0, 'script', 'FAIL ' + str(f.get('error'))[-600:]]]),
                         dict(note='the script could not be evaluated against the implementation: ' + str(f.get('error'))[-600:]))
        lines.append('VIOLATION property=%s replay=%s' % (pid, p)); nviol += 1
    elif proof_problems:
        p = write_replay(pid, tier, seed, 'proof', dict(tag='proof obligation', case=None),
                         dict(theorem=proof_problems, note='a theorem registered for this property no longer checks; no failing input found on %d further cases' % searched))
        lines.append('VIOLATION property=%s replay=%s no-failing-input-found' % (pid, p)); nviol += 1

    wall = time.time() - t0
    ev = dict(
        property_id=pid, tier=tier, seed=seed, level='proof', wall_s=round(wall, 2), violations=nviol,
        coverage=dict(
            obligations=max(1, len(names)), discharged=len(okl), checker_cmd=cmd or 'cd lean && lake build Sx driver',
            trusted_base=TRUSTED, theorems=names, proof_problems=proof_problems,
            evaluations=int(stats['ops']) if stats else 0, distinct_nontrivial=nd,
            rule='cases = corpus + generated op scripts (see harness/suites.py, seed-driven); every op is executed on /repo and on the Lean model driver and compared after canonicalisation; oracle lines (!...) evaluate the property directly on the implementation. distinct_nontrivial = number of distinct (observed history, mutating-or-constructor op) pairs, hashed from the canonical output stream',
            samples=samples, cases=int(stats['cases']) if stats else 0, oracle_calls=int(stats['oracle_calls']) if stats else 0,
            judge_evaluations=int(stats['judge_evaluations']) if stats else 0,
            distribution={k: v for k, v in sorted(kinds.items())} if kinds else {},
            correspondence_disagreements=len(corr), known_findings_seen=seen_known,
            **({'layering_check': dict(cmd='python3 harness/layering.py', problems=layering_problems)} if pid == 'C03' else {}),
            exhaustive=False),
        assumptions=TRUSTED)
    os.makedirs(os.path.join(VERIF, 'evidence'), exist_ok=True)
    json.dump(ev, open(os.path.join(VERIF, 'evidence', pid + '.json'), 'w'), indent=1, default=str)
    for l in lines:
        print(l)
    if harness_errors:
        print('machinery error: %s' % (harness_errors[0].get('error', '')[-800:],))
        if not nviol:
            return 2
    print('%s %s seed=%d: %d theorems audited (%d ok), %d cases, %d ops, %d oracle calls, %d distinct; %.1fs -> %s' % (
        pid, tier, seed, len(names), len(okl), stats['cases'] if stats else 0, stats['ops'] if stats else 0,
        stats['oracle_calls'] if stats else 0, nd, wall, 'VIOLATION' if nviol else 'ok'))
    return 1 if nviol else 0


if __name__ == '__main__':
    try:
        sys.exit(main())
    except SystemExit:
        raise
    except Exception:
        traceback.print_exc()
        sys.exit(2)
