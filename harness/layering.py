#!/usr/bin/env python3
"""layering.py: the structural side condition under which the Layer-R theorems (Props/MatRep*.lean) speak about
every reachable representation state, checked on /repo's current source instead of being assumed (DESIGN §10).

The theorems `reachable_MInv`, `history_boundaryOperator`, `public_history_proper` quantify over histories of the
three representation mutators `addSimplex`, `relabelSimplex`, `forceDeleteSimplex`.  They transfer to the library
only if (1) no other method of `ReferenceRepresentation` writes the matrix state, and (2) the rest of the package
reaches a representation only through its public methods, calling a state-changing one only from the wrapper of
the same name.  Both are syntactic facts about the source; this module decides them with `ast`.

`problems()` returns a list of strings (empty = the layering holds).  A non-empty list is a broken tie, not a
violation by itself: run.py then searches for a failing input and otherwise reports `no-failing-input-found`."""
import ast, os

REPO = os.environ.get('SX_REPO', '/repo')
PKG = os.path.join(REPO, 'simplicial')

# fields of ReferenceRepresentation that make up the modelled state (Model/MatRep.lean: indices, boundaries, bases,
# seq; `_simplices` is the inverse of `_indices`, `_maxOrder` is `len(indices) - 1`, `_attributes` is the heap layer)
STATE = {'_indices', '_boundaries', '_bases', '_simplices', '_maxOrder', '_sequence', '_attributes'}
# the methods allowed to write each field
WRITERS = {
    '_indices': {'__init__', 'addSimplex', 'relabelSimplex', 'forceDeleteSimplex'},
    '_boundaries': {'__init__', 'addSimplex', 'forceDeleteSimplex'},
    '_bases': {'__init__', 'addSimplex', 'forceDeleteSimplex'},
    '_simplices': {'__init__', 'addSimplex', 'relabelSimplex', 'forceDeleteSimplex'},
    '_maxOrder': {'__init__', 'addSimplex', 'forceDeleteSimplex'},
    '_sequence': {'__init__', 'newSimplex'},
    '_attributes': {'__init__', 'addSimplex', 'relabelSimplex', 'forceDeleteSimplex', 'setAttributes'},
}
MUTATORS = {'addSimplex', 'relabelSimplex', 'forceDeleteSimplex', 'setAttributes'}
INPLACE = {'append', 'insert', 'pop', 'remove', 'clear', 'update', 'extend', 'sort', 'reverse', 'setdefault',
           'popitem', 'fill', 'resize', 'put', 'itemset'}


def _self_field(node):
    """name of the `self._x` at the root of an attribute/subscript chain, or None"""
    while isinstance(node, (ast.Subscript, ast.Attribute, ast.Starred)):
        if isinstance(node, ast.Attribute) and isinstance(node.value, ast.Name) and node.value.id == 'self':
            return node.attr
        node = node.value
    return None


def _writes(fn):
    """fields `self._x` a function body assigns, deletes, augments or mutates in place"""
    out = set()
    for n in ast.walk(fn):
        targets = []
        if isinstance(n, ast.Assign):
            targets = n.targets
        elif isinstance(n, (ast.AugAssign, ast.AnnAssign)):
            targets = [n.target]
        elif isinstance(n, ast.Delete):
            targets = n.targets
        elif isinstance(n, ast.Call) and isinstance(n.func, ast.Attribute) and n.func.attr in INPLACE:
            targets = [n.func.value]
        for t in targets:
            for e in (t.elts if isinstance(t, (ast.Tuple, ast.List)) else [t]):
                f = _self_field(e)
                if f:
                    out.add(f)
    return out


def problems():
    probs = []
    # (1) who writes the representation state
    src = os.path.join(PKG, 'simplicialcomplex.py')
    tree = ast.parse(open(src).read())
    cls = [n for n in tree.body if isinstance(n, ast.ClassDef) and n.name == 'ReferenceRepresentation']
    if not cls:
        return ['ReferenceRepresentation not found in simplicial/simplicialcomplex.py']
    seen_fields = set()
    for fn in [n for n in cls[0].body if isinstance(n, ast.FunctionDef)]:
        for f in _writes(fn):
            seen_fields.add(f)
            if f in STATE and fn.name not in WRITERS[f]:
                probs.append('ReferenceRepresentation.%s writes %s (the model lets only %s do so)' % (fn.name, f, sorted(WRITERS[f])))
            if f.startswith('_') and f not in STATE:
                probs.append('ReferenceRepresentation.%s writes a field %s that the model does not have' % (fn.name, f))
    # (2) everybody else goes through the public methods, mutators only through their wrappers
    for fname in sorted(os.listdir(PKG)) + [os.path.join('file', f) for f in sorted(os.listdir(os.path.join(PKG, 'file')))]:
        if not fname.endswith('.py') or fname == 'simplicialcomplex.py':
            continue
        t = ast.parse(open(os.path.join(PKG, fname)).read())
        for fn in [n for n in ast.walk(t) if isinstance(n, ast.FunctionDef)]:
            for n in ast.walk(fn):
                if not isinstance(n, ast.Attribute):
                    continue
                v = n.value
                via_rep = (isinstance(v, ast.Attribute) and v.attr == '_rep') or \
                          (isinstance(v, ast.Call) and isinstance(v.func, ast.Attribute) and v.func.attr == 'representation')
                if via_rep:
                    if n.attr.startswith('_') and not n.attr.startswith('__'):
                        probs.append('%s:%s reaches into the representation (%s)' % (fname, fn.name, n.attr))
                    elif n.attr in MUTATORS and fn.name not in (n.attr, '__setitem__', 'setAttributes'):
                        probs.append('%s:%s calls the representation mutator %s directly' % (fname, fn.name, n.attr))
                if n.attr in ('_boundaries', '_bases', '_simplices') and not via_rep:
                    probs.append('%s:%s touches %s outside the representation' % (fname, fn.name, n.attr))
    return probs


if __name__ == '__main__':
    import sys
    ps = problems()
    for p in ps:
        print(p)
    print('layering:', 'ok' if not ps else '%d problem(s)' % len(ps))
    sys.exit(1 if ps else 0)
