"""Property oracles evaluated directly on the implementation (independent of the Lean model): the failing-input
search. Each oracle call is a script line starting with '!'; it returns 'ok' or 'FAIL <what>'. They observe the
stored complex through the base-class API (`SimplicialComplex.x(c, ...)`) so that a filtration's index does not
scope them unless that is what is being tested."""
import copy, itertools, json, math, collections
from core import (SimplicialComplex, Filtration, Embedding, EulerIntegrator, TriangularLattice, fmt_mat, fmt_dict,
                  split_top, key_obj, sfile)
import numpy

B = SimplicialComplex


def gf2rank(rows):
    rows = [r for r in rows]
    r = 0
    nbits = max([x.bit_length() for x in rows], default=0)
    for bit in range(nbits):
        piv = None
        for i in range(r, len(rows)):
            if rows[i] >> bit & 1:
                piv = i; break
        if piv is None:
            continue
        rows[r], rows[piv] = rows[piv], rows[r]
        for i in range(len(rows)):
            if i != r and rows[i] >> bit & 1:
                rows[i] ^= rows[r]
        r += 1
    return r


def named(c):
    return {s: frozenset(B.basisOf(c, s)) for s in B.simplices(c)}


def famof(c):
    return frozenset(named(c).values())


def full_state(c):
    """everything C05/C08 call observable"""
    ss = B.simplices(c)
    st = dict(simplices=list(ss), types=[type(s) for s in ss], max=B.maxOrder(c),
              per=[list(B.simplicesOfOrder(c, k)) for k in range(B.maxOrder(c) + 1)],
              orders={s: B.orderOf(c, s) for s in ss}, faces={s: frozenset(B.faces(c, s)) for s in ss},
              basis={s: frozenset(B.basisOf(c, s)) for s in ss}, attrs={s: copy.deepcopy(B.getAttributes(c, s)) for s in ss},
              bops=[fmt_mat(B.boundaryOperator(c, k)) for k in range(B.maxOrder(c) + 2)])
    if isinstance(c, Filtration):
        st['index'] = c.getIndex()
        st['births'] = {s: c.addedAtIndex(s) for s in ss}
    return st


def betti_oracle(fam):
    byk = collections.defaultdict(list)
    for s in fam:
        byk[len(s) - 1].append(s)
    mo = max(byk) if byk else -1
    rk = {}
    for k in range(1, mo + 1):
        idx = {s: i for i, s in enumerate(byk[k - 1])}
        cols = []
        for s in byk[k]:
            m = 0
            for f in itertools.combinations(sorted(s, key=repr), k):
                m |= 1 << idx[frozenset(f)]
            cols.append(m)
        rk[k] = gf2rank(cols)
    rk[0] = 0; rk[mo + 1] = 0
    return {k: len(byk[k]) - rk[k] - rk[k + 1] for k in range(mo + 1)}


def components(fam):
    pts = {next(iter(s)) for s in fam if len(s) == 1}
    parent = {p: p for p in pts}

    def find(x):
        while parent[x] != x:
            x = parent[x]
        return x
    for s in fam:
        if len(s) == 2:
            a, b = s
            parent[find(a)] = find(b)
    return len({find(p) for p in pts})


def clique_family(fam):
    pts = sorted({next(iter(s)) for s in fam if len(s) == 1}, key=repr)
    edges = {s for s in fam if len(s) == 2}
    want = {frozenset([p]) for p in pts} | edges
    for r in range(3, len(pts) + 1):
        for q in itertools.combinations(pts, r):
            if all(frozenset(e) in edges for e in itertools.combinations(q, 2)):
                want.add(frozenset(q))
    return frozenset(want)


class State:
    def __init__(self, ex):
        self.ex = ex
        self.snaps = {}
        self.last = ""

    def call(self, a):
        if a[0].startswith('post-') and not self.last.startswith('ok'):
            # an effect oracle judges a call that was carried out (a refused call is judged by the status rule)
            raise RuntimeError('the call before %s was not carried out: %s' % (a[0], self.last))
        return getattr(self, 'o_' + a[0].replace('-', '_'))(*a[1:])

    def C(self, h):
        return self.ex.objs[h]

    # ---- C01 -------------------------------------------------------------------------------------------
    def o_inv(self, h):
        self.C(h)          # a missing handle is a harness problem, not a property failure
        try:
            return self._inv(h)
        except Exception as e:
            return 'FAIL inspecting %s through the public API raised %s: %r' % (h, type(e).__name__, e)

    def o_inv_all(self):
        for h, c in self.ex.objs.items():
            r = self.o_inv(h)
            if r != 'ok':
                return r
        return 'ok'

    def _inv(self, h):
        c = self.C(h)
        ss = B.simplices(c)
        if len(ss) != len(set(ss)):
            return 'FAIL duplicate names in simplices()'
        orders = [B.orderOf(c, s) for s in ss]
        if orders != sorted(orders):
            return 'FAIL simplices() not sorted by order'
        mo = max(orders) if orders else -1
        if B.maxOrder(c) != mo:
            return 'FAIL maxOrder() = %d but largest inhabited order = %d' % (B.maxOrder(c), mo)
        bases = set()
        for s in ss:
            k = B.orderOf(c, s); fs = B.faces(c, s); bs = B.basisOf(c, s)
            if len(bs) != k + 1:
                return 'FAIL basis size of %r' % (s,)
            if frozenset(bs) in bases:
                return 'FAIL two simplices with basis %r' % (sorted(bs, key=repr),)
            bases.add(frozenset(bs))
            if k == 0:
                if fs != set() or bs != {s}:
                    return 'FAIL point %r has faces or a foreign basis' % (s,)
            else:
                if len(fs) != k + 1:
                    return 'FAIL %r has %d faces at order %d' % (s, len(fs), k)
                for f in fs:
                    if f not in ss or B.orderOf(c, f) != k - 1:
                        return 'FAIL face %r of %r missing or of wrong order' % (f, s)
                if set().union(*[B.basisOf(c, f) for f in fs]) != bs:
                    return 'FAIL basis of %r is not the union of its faces bases' % (s,)
        allk = [x for k in range(B.maxOrder(c) + 1) for x in B.simplicesOfOrder(c, k)]
        if allk != ss:
            return 'FAIL per-order listings do not partition simplices()'
        if B.maxOrder(c) >= 0 and any(len(B.simplicesOfOrder(c, k)) == 0 for k in range(B.maxOrder(c) + 1)):
            return 'FAIL an order below the maximum is empty'
        for s in ss:
            t = self.ex.T(s)
            if t.startswith('foreign'):
                return 'FAIL name %r is not a name that was given or generated (%s)' % (s, t)
        return 'ok'

    def o_api(self, h):
        """the remaining public methods agree with the ones the scripts exercise (synonyms, dict-like interface,
        predicates, ensureBasis, isChain); mutating ones are tried on a deep copy"""
        c = self.C(h)
        ss = B.simplices(c)
        if len(c) != len(ss) or c.numberOfSimplices() != len(ss) or sum(c.numberOfSimplicesOfOrder()) != len(ss):
            return 'FAIL len()/numberOfSimplices() disagree with simplices()'
        for s in ss:
            if set(c.faceOf(s)) != set(c.cofaces(s)):
                return 'FAIL faceOf(%r) != cofaces' % (s,)
            if c[s] is not c.getAttributes(s) or not c.containsSimplex(s) or s not in c:
                return 'FAIL dict-like access to %r' % (s,)
            if not c.containsSimplexWithBasis(list(c.basisOf(s))):
                return 'FAIL containsSimplexWithBasis(basis of %r)' % (s,)
        if c.allSimplices(lambda cc, x: True) != ss or c.allSimplices(lambda cc, x: True, reverse=True) != c.simplices(reverse=True):
            return 'FAIL allSimplices with a constant predicate'
        for k in range(B.maxOrder(c) + 1):
            want = [x for x in ss if c.orderOf(x) == k]
            if c.allSimplices(lambda cc, x: cc.orderOf(x) == k) != want:
                return 'FAIL allSimplices by order'
            a = c.anySimplex(lambda cc, x: cc.orderOf(x) == k)
            if a not in want:
                return 'FAIL anySimplex by order returned %r' % (a,)
            if want and (not c.isChain(want) or not c.isChain(want, p=k) or c.isChain(want, p=k + 1)):
                return 'FAIL isChain on the simplices of order %d' % k
        if c.anySimplex(lambda cc, x: False) is not None:
            return 'FAIL anySimplex with a false predicate'
        pts = B.simplicesOfOrder(c, 0)
        if not c.isBasis(pts) or (len(ss) > len(pts) and c.isBasis([ss[-1]])) or c.isBasis(pts + ['no such point']):
            return 'FAIL isBasis'
        if ss:
            d = copy.deepcopy(c); victim = ss[len(ss) // 2]
            e = copy.deepcopy(c)
            del d[victim]; e.deleteSimplex(victim)
            if full_state(d) != full_state(e):
                return 'FAIL del c[s] differs from deleteSimplex(s)'
            d = copy.deepcopy(c)
            d.ensureBasis(pts + ['fresh point'], attr={'k': 1})
            if B.simplices(d)[:len(pts)] != pts or 'fresh point' not in d or d['fresh point'] != {'k': 1} or len(d) != len(c) + 1:
                return 'FAIL ensureBasis did not add exactly the missing point'
            hi = [x for x in ss if c.orderOf(x) > 0]
            if hi:
                d = copy.deepcopy(c)
                try:
                    d.ensureBasis(pts[:1] + [hi[0]])
                    return 'FAIL ensureBasis accepted a non-point'
                except ValueError:
                    pass
        return 'ok'

    def o_fapi(self, h):
        """the Filtration methods the scripts do not call directly"""
        f = copy.deepcopy(self.C(h))
        inds = f.indices()
        if f.indices(reverse=True) != list(reversed(inds)):
            return 'FAIL indices(reverse=True)'
        for i in inds:
            if not f.isIndex(i):
                return 'FAIL isIndex(%r)' % (i,)
            a = f.simplicesAddedAtIndex(i); b = f.simplicesAddedAtIndex(i, reverse=True)
            if set(a) != set(b) or [B.orderOf(f, s) for s in b] != sorted((B.orderOf(f, s) for s in b), reverse=True):
                return 'FAIL simplicesAddedAtIndex(reverse=True)'
        if f.isIndex(12345):
            return 'FAIL isIndex of a value that is not an index'
        try:
            f.isIndex(12345, fatal=True)
            return 'FAIL isIndex(fatal=True) did not raise'
        except ValueError:
            pass
        for s in B.simplices(f):
            if not f.containsSimplexAtSomeIndex(s):
                return 'FAIL containsSimplexAtSomeIndex(%r)' % (s,)
            if (s in f) != f.containsSimplex(s) or (f.containsSimplex(s) != (f.addedAtIndex(s) <= f.getIndex())):
                return 'FAIL containsSimplex(%r) at the current index' % (s,)
        if f.containsSimplexAtSomeIndex('no such simplex'):
            return 'FAIL containsSimplexAtSomeIndex of an unknown name'
        if len(f) != len(f.simplices()) or f.numberOfSimplices() != len(f.simplices()):
            return 'FAIL len()/numberOfSimplices() of the filtration'
        return 'ok'

    # ---- snapshots (C02, C05, C08) -----------------------------------------------------------------------
    def o_snap(self, *hs):
        for h in hs:
            self.snaps[h] = full_state(self.C(h))
        return 'ok'

    def o_same(self, *hs):
        for h in hs:
            if h not in self.snaps or h not in self.ex.objs:
                continue        # nothing was recorded for this handle (possible in a shrunk script)
            now = full_state(self.C(h))
            old = self.snaps[h]
            for k in old:
                if old[k] != now[k]:
                    return 'FAIL %s of %s changed: %r -> %r' % (k, h, _short(old[k]), _short(now[k]))
        return 'ok'

    def o_same_if_rej(self, *hs):
        """after a request that was rejected (KeyError/ValueError) nothing may have changed"""
        return self.o_same(*hs) if self.last == 'rej' else 'ok'

    def _frame(self, h, want):
        """every simplex named in `want` keeps name, order, faces, basis, attributes and relative position"""
        c = self.C(h); old = self.snaps[h]
        ss = B.simplices(c)
        for t in want:
            if t not in ss:
                return 'FAIL %r disappeared' % (t,)
            if B.orderOf(c, t) != old['orders'][t] or frozenset(B.faces(c, t)) != old['faces'][t] or \
               frozenset(B.basisOf(c, t)) != old['basis'][t] or B.getAttributes(c, t) != old['attrs'][t]:
                return 'FAIL surviving simplex %r changed' % (t,)
        if [t for t in old['simplices'] if t in want] != [t for t in ss if t in want]:
            return 'FAIL relative listing order of survivors changed'
        return None

    def o_post_del(self, h, s):
        c = self.C(h); old = self.snaps[h]; s = self.ex.name(s)
        bs = old['basis'][s]
        want = {t: b for t, b in old['basis'].items() if not bs <= b}
        if named(c) != want:
            return 'FAIL delete %r: got %r' % (s, _short(named(c)))
        return self._frame(h, want) or 'ok'

    def o_post_delsorder(self, h, k):
        """deleteSimplices(simplicesOfOrder(k)) removes exactly the simplices of order >= k"""
        c = self.C(h); old = self.snaps[h]; k = int(k)
        want = {t: b for t, b in old['basis'].items() if old['orders'][t] < k}
        if named(c) != want:
            return 'FAIL deleting every simplex of order %d left %r' % (k, _short(sorted(map(repr, set(named(c)) - set(want)))))
        return self._frame(h, want) or 'ok'

    def o_post_dels(self, h, ss):
        """deleteSimplices(ss) removes the listed simplices that are present with their stars, nothing else"""
        c = self.C(h); old = self.snaps[h]
        ss = [t for t in self.ex.names(ss) if t in old['basis']]
        want = {t: b for t, b in old['basis'].items() if not any(old['basis'][x] <= b for x in ss)}
        if named(c) != want:
            return 'FAIL deleteSimplices(%r) left %r' % (ss, _short(sorted(map(repr, named(c)))))
        return self._frame(h, want) or 'ok'

    def o_post_restrict(self, h, bs):
        c = self.C(h); old = self.snaps[h]; keep = set(self.ex.names(bs))
        want = {t: b for t, b in old['basis'].items() if b <= keep}
        if named(c) != want:
            return 'FAIL restrict: got %r' % (_short(named(c)),)
        return self._frame(h, want) or 'ok'

    def o_post_subdiv(self, h, s, mid):
        c = self.C(h); old = self.snaps[h]; s = self.ex.name(s); m = self.ex.name(mid)
        bs = old['basis'][s]
        keep = {t: b for t, b in old['basis'].items() if not bs <= b}
        want = set(keep.values()) | {frozenset([m])}
        for f in itertools.combinations(sorted(bs, key=repr), len(bs) - 1):
            cone = list(f) + [m]
            for r in range(1, len(cone) + 1):
                for q in itertools.combinations(cone, r):
                    want.add(frozenset(q))
        if m in old['simplices']:
            return 'FAIL the new point %r is not fresh' % (m,)
        if famof(c) != frozenset(want):
            return 'FAIL subdivide %r: family %r' % (s, _short(famof(c)))
        return self._frame(h, keep) or 'ok'

    def o_post_addb(self, h, top, bs, d):
        c = self.C(h); old = self.snaps[h]; bs = self.ex.names(bs)
        fam0 = set(old['basis'].values())
        want = fam0 | {frozenset(q) for r in range(1, len(bs) + 1) for q in itertools.combinations(bs, r)}
        if len(bs) == 1:
            # documented: the one-point case is addSimplex(id): the point is called `id`
            want = fam0 | {frozenset([self.ex.name(top)])}
        if famof(c) != frozenset(want):
            return 'FAIL addSimplexWithBasis %r: family %r' % (bs, _short(famof(c)))
        t = self.ex.name(top)
        if t not in B.simplices(c) or (len(bs) > 1 and frozenset(B.basisOf(c, t)) != frozenset(bs)):
            return 'FAIL the returned name %r is not the simplex on %r' % (t, bs)
        if d != '-' and B.getAttributes(c, t) != self.ex.dicts[d]:
            return 'FAIL attributes of the new simplex are not the ones given'
        for n in B.simplices(c):
            if n not in old['simplices'] and self.ex.T(n).startswith('foreign'):
                return 'FAIL created name %r is neither given nor generated' % (n,)
        return self._frame(h, old['basis']) or 'ok'

    def o_post_add(self, h, name, d):
        c = self.C(h); old = self.snaps[h]; n = self.ex.name(name)
        ss = B.simplices(c)
        if set(ss) != set(old['simplices']) | {n} or len(ss) != len(old['simplices']) + 1:
            return 'FAIL addSimplex did not add exactly one simplex'
        if d != '-' and B.getAttributes(c, n) != self.ex.dicts[d]:
            return 'FAIL attributes of the new simplex are not the ones given'
        fs = B.faces(c, n)
        want = set().union(*[B.basisOf(c, f) for f in fs]) if fs else {n}
        if set(B.basisOf(c, n)) != want:
            return 'FAIL the new simplex %r has basis %r, its faces have the points %r' % (n, B.basisOf(c, n), want)
        return self._frame(h, old['basis']) or 'ok'

    def o_post_addfrom(self, dst, src, ren):
        c = self.C(dst); old = self.snaps[dst]; s = self.C(src); r = self.ex.ren(ren)
        f = lambda x: r.get(x, x)
        for x in B.simplices(s):
            t = f(x)
            if t not in B.simplices(c):
                return 'FAIL %r missing after addSimplicesFrom' % (t,)
            if frozenset(B.faces(c, t)) != frozenset(f(y) for y in B.faces(s, x)) or B.orderOf(c, t) != B.orderOf(s, x):
                return 'FAIL %r does not have the renamed faces' % (t,)
            if B.getAttributes(c, t) != B.getAttributes(s, x) or B.getAttributes(c, t) is B.getAttributes(s, x):
                return 'FAIL attributes of %r not copied' % (t,)
        if len(B.simplices(c)) != len(old['simplices']) + len(B.simplices(s)):
            return 'FAIL wrong number of simplices after addSimplicesFrom'
        return self._frame(dst, old['basis']) or 'ok'

    # ---- C03 -------------------------------------------------------------------------------------------
    def o_rviews(self, h):
        """the views of a representation driven by its primitive calls (faces need not close up, so no d.d = 0)"""
        if h not in self.ex.reps or h in self.ex.raw_deleted:
            return 'ok'
        return self._views(self.ex.reps[h], proper=False)

    def o_views(self, h):
        return self._views(self.C(h))

    def _views(self, c, proper=True):
        mo = B.maxOrder(c)
        ss = B.simplices(c)
        for k in range(0, mo + 2):
            M = B.boundaryOperator(c, k)
            if k == 0:
                if M.shape != (1, len(B.simplicesOfOrder(c, 0))) or M.any():
                    return 'FAIL boundaryOperator(0) is not one zero row'
                continue
            if k > mo:
                if M.shape[0] * M.shape[1] != 0:
                    return 'FAIL boundaryOperator above the maximum order is not empty'
                continue
            rows = B.simplicesOfOrder(c, k - 1); cols = B.simplicesOfOrder(c, k)
            if M.shape != (len(rows), len(cols)):
                return 'FAIL boundaryOperator(%d) has shape %r' % (k, M.shape)
            for j, s in enumerate(cols):
                fs = B.faces(c, s)
                for i, r in enumerate(rows):
                    if (M[i, j] == 1) != (r in fs) or M[i, j] not in (0, 1):
                        return 'FAIL boundaryOperator(%d)[%d,%d] disagrees with faces(%r)' % (k, i, j, s)
            if k >= 2 and proper:
                P = (numpy.array(B.boundaryOperator(c, k - 1), dtype=int) @ numpy.array(M, dtype=int)) % 2
                if P.any():
                    return 'FAIL consecutive boundary operators do not multiply to zero at %d' % k
        for s in ss:
            k = B.orderOf(c, s)
            if B.simplicesOfOrder(c, k)[B.indexOf(c, s)] != s:
                return 'FAIL indexOf(%r) is not its position' % (s,)
            co = list(B.cofaces(c, s))
            want = [t for t in ss if s in B.faces(c, t)]
            if sorted(map(repr, co)) != sorted(map(repr, want)) or any(self.ex.T(t).startswith('foreign') for t in co):
                return 'FAIL cofaces(%r) = %r is not the inverse of faces' % (s, co)
            cl = B.closureOf(c, s)
            if {t for t in cl if B.orderOf(c, t) == 0} != B.basisOf(c, s):
                return 'FAIL basis of %r is not the points of its closure' % (s,)
            if k > 0:
                bd = B.boundary(c, [s])
                if bd != B.faces(c, s):
                    return 'FAIL boundary([s]) != faces(s)'
                if k > 1 and proper and B.boundary(c, list(bd)) != set():
                    return 'FAIL boundary of boundary of %r not empty' % (s,)
        return 'ok'

    def o_chain(self, h, ss):
        """boundary of a chain is the mod-2 sum of the members' faces"""
        c = self.C(h); ss = self.ex.names(ss)
        want = collections.Counter()
        for s in ss:
            for f in B.faces(c, s):
                want[f] += 1
        want = {f for f, n in want.items() if n % 2 == 1}
        got = B.boundary(c, ss)
        if got != want:
            return 'FAIL boundary(%r) = %r' % (ss, got)
        if want and B.boundary(c, list(got)) != set() and B.orderOf(c, ss[0]) > 1:
            return 'FAIL boundary of a boundary is not empty'
        return 'ok'

    # ---- C04 -------------------------------------------------------------------------------------------
    def o_lookups(self, h):
        c = self.C(h)
        nm = named(c)
        T = self.ex.T
        for s, bs in nm.items():
            for rev in (False, True):
                for ex_ in (False, True):
                    for meth, rel in (('closureOf', lambda bt: bt <= bs), ('partOf', lambda bt: bs <= bt)):
                        got = getattr(B, meth)(c, s, reverse=rev, exclude_self=ex_)
                        want = {t for t, bt in nm.items() if rel(bt) and not (ex_ and t == s)}
                        if set(got) != want or len(got) != len(set(got)):
                            return 'FAIL %s(%r, reverse=%r, exclude_self=%r) = %r' % (meth, s, rev, ex_, got)
                        os_ = [B.orderOf(c, t) for t in got]
                        if os_ != sorted(os_, reverse=rev):
                            return 'FAIL %s(%r) not sorted by order' % (meth, s)
                        if any(T(t).startswith('foreign') for t in got):
                            return 'FAIL %s(%r) returned a name that is not a member: %r' % (meth, s, got)
            if len(B.closureOf(c, s)) != 2 ** len(bs) - 1:
                return 'FAIL closureOf(%r) does not have 2^(k+1)-1 members' % (s,)
            if B.simplexWithBasis(c, list(bs)) != s or T(B.simplexWithBasis(c, list(bs))).startswith('foreign'):
                return 'FAIL simplexWithBasis(basis of %r)' % (s,)
            if len(bs) > 1 and B.simplexWithFaces(c, list(B.faces(c, s))) != s:
                return 'FAIL simplexWithFaces(faces of %r)' % (s,)
            co = B.cofaces(c, s)
            if set(co) != {t for t, bt in nm.items() if bs < bt and len(bt) == len(bs) + 1} or any(T(t).startswith('foreign') for t in co):
                return 'FAIL cofaces(%r) = %r' % (s, co)
            for t, bt in nm.items():
                if (t in B.closureOf(c, s)) != (s in B.partOf(c, t)):
                    return 'FAIL closure/star duality for %r, %r' % (s, t)
        pts = [p for p, b in nm.items() if len(b) == 1]
        fam = set(nm.values())
        inv = {b: t for t, b in nm.items()}
        for r in range(1, min(len(pts), 4) + 1):
            for sub in itertools.combinations(pts, r):
                got = B.simplexWithBasis(c, list(sub))
                want = inv.get(frozenset(sub))
                if got != want or (got is not None and type(got) is not type(want)):
                    return 'FAIL simplexWithBasis(%r) = %r, expected %r' % (sub, got, want)
                if B.containsSimplexWithBasis(c, list(sub)) != (want is not None):
                    return 'FAIL containsSimplexWithBasis(%r)' % (sub,)
        # a list with a repeated point is the basis of no simplex
        for r in (2, 3):
            for sub in itertools.combinations(pts, r - 1):
                q = list(sub) + [sub[0]]
                got = B.simplexWithBasis(c, q)
                if got is not None or B.containsSimplexWithBasis(c, q):
                    return 'FAIL simplexWithBasis(%r) = %r for a list with a repeated point' % (q, got)
        # faces of a missing simplex: None
        for r in range(2, min(len(pts), 4) + 1):
            for sub in itertools.combinations(pts, r):
                if frozenset(sub) in fam:
                    continue
                fac = [inv.get(frozenset(q)) for q in itertools.combinations(sub, r - 1)]
                if all(f is not None for f in fac) and len(set(fac)) >= 2:
                    if B.simplexWithFaces(c, fac) is not None:
                        return 'FAIL simplexWithFaces(%r) found a simplex that is not there' % (fac,)
        # any k+1 simplices of order k-1 (whether or not they close up): the simplex having exactly these faces, or None
        if len(nm) <= 16:
            byfaces = {frozenset(B.faces(c, s)): s for s in nm if B.orderOf(c, s) > 0}
            for k in range(1, B.maxOrder(c) + 2):
                low = B.simplicesOfOrder(c, k - 1)
                if len(low) > 7:
                    continue
                for tup in itertools.combinations(low, k + 1):
                    got = B.simplexWithFaces(c, list(tup))
                    if got != byfaces.get(frozenset(tup)):
                        return 'FAIL simplexWithFaces(%r) = %r, the simplex with exactly these faces is %r' % (list(tup), got, byfaces.get(frozenset(tup)))
        # the fatal=True forms raise for a non-basis and leave the complex as it was
        before = full_state(c)
        for q in ([('no', 'such', 'point')], pts[:1] + [('no', 'such', 'point')], [n for n in nm if B.orderOf(c, n) > 0][:1] + pts[:1]):
            if not q or B.isBasis(c, q):
                continue
            for call in (lambda: c.simplexWithBasis(q, fatal=True), lambda: c.isBasis(q, fatal=True), lambda: c.containsSimplexWithBasis(q, fatal=True)):
                try:
                    r = call()
                    return 'FAIL a look-up with fatal=True returned %r for %r, which is not a basis' % (r, q)
                except (KeyError, ValueError):
                    pass
                except TypeError:
                    pass            # (a form that does not take the argument)
        if full_state(c) != before:
            return 'FAIL a look-up with fatal=True changed the complex'
        names = list(nm)
        cl = {s: set(B.closureOf(c, s)) for s in names}
        for r in (2, 3):
            for tup in itertools.combinations(names, r):
                want = all(not (cl[a] & cl[b]) for a, b in itertools.combinations(tup, 2))
                if B.disjoint(c, list(tup)) != want:
                    return 'FAIL disjoint(%r) = %r' % (tup, not want)
            if len(names) > 7:
                break
        return 'ok'

    # ---- C06 / C07 -------------------------------------------------------------------------------------
    def o_betti(self, h):
        c = self.C(h)
        fam = famof(c)
        b = dict(B.bettiNumbers(c)); want = betti_oracle(fam)
        if b != want:
            return 'FAIL bettiNumbers() = %r, GF(2) ranks give %r' % (b, want)
        if fam and b[0] != components(fam):
            return 'FAIL betti 0 = %d but %d components' % (b[0], components(fam))
        if sum((-1) ** k * v for k, v in b.items()) != B.eulerCharacteristic(c):
            return 'FAIL alternating sum of Betti numbers != Euler characteristic'
        mo = B.maxOrder(c)
        hi = B.bettiNumbers(c, [mo + 1, mo + 3])
        if any(v != 0 for v in hi.values()) or set(hi.keys()) != {mo + 1, mo + 3}:
            return 'FAIL Betti numbers above the maximum order are %r' % (dict(hi),)
        if mo >= 0:
            some = B.bettiNumbers(c, [mo, 0])
            if some[mo] != want[mo] or some[0] != want[0]:
                return 'FAIL bettiNumbers([max, 0]) = %r' % (some,)
            ks = list(range(mo, -1, -1))
            for arg in (iter(ks), tuple(ks), (k for k in ks), reversed(range(mo + 1)), set(ks)):
                got = dict(B.bettiNumbers(c, arg))
                if got != {k: want[k] for k in ks}:
                    return 'FAIL bettiNumbers(%s of %r) = %r' % (type(arg).__name__, ks, got)
        return 'ok'

    def o_snf(self, h):
        c = self.C(h)
        for k in range(0, B.maxOrder(c) + 2):
            S = B.smithNormalForm(c, k); M = B.boundaryOperator(c, k)
            if S.shape != M.shape:
                return 'FAIL smithNormalForm(%d) has shape %r, operator %r' % (k, S.shape, M.shape)
            rows = []
            for j in range(M.shape[1]):
                m = 0
                for i in range(M.shape[0]):
                    if M[i, j] == 1:
                        m |= 1 << i
                rows.append(m)
            rank = gf2rank(rows)
            for i in range(S.shape[0]):
                for j in range(S.shape[1]):
                    want = 1 if (i == j and i < rank) else 0
                    if S[i, j] != want:
                        return 'FAIL smithNormalForm(%d)[%d,%d] = %r with rank %d' % (k, i, j, S[i, j], rank)
        return 'ok'

    def o_zbasis(self, h):
        c = self.C(h)
        mo = B.maxOrder(c)
        asc = list(range(0, mo + 2))
        kss = [asc, asc[::-1]] + [[k, k] for k in asc] + [[k] for k in asc] + [asc[1::2] + asc[0::2]]
        for ks in kss:
            z = B.Z(c, list(ks))
            if list(z.keys()) != list(dict.fromkeys(ks)):
                return 'FAIL Z(%r) has keys %r' % (ks, list(z.keys()))
            r = self._zcheck(c, mo, z, 'Z(%r)' % (ks,))
            if r:
                return r
        for arg in (iter(asc), tuple(asc), (k for k in asc), reversed(asc)):
            z = B.Z(c, arg)
            if sorted(z.keys()) != asc:
                return 'FAIL Z(%s of %r) has keys %r' % (type(arg).__name__, asc, list(z.keys()))
            r = self._zcheck(c, mo, z, 'Z(%s)' % type(arg).__name__)
            if r:
                return r
        dflt = B.Z(c)
        if list(dflt.keys()) != list(range(1, mo + 1)):
            return 'FAIL Z() default orders %r' % (list(dflt.keys()),)
        return self._zcheck(c, mo, dflt, 'Z()') or 'ok'

    def _zcheck(self, c, mo, z, what):
        for k, chains in z.items():
            cols = B.simplicesOfOrder(c, k)
            nk = len(cols)
            if k == 0:
                null = nk
            elif k > mo:
                null = 0
            else:
                idx = {s: i for i, s in enumerate(B.simplicesOfOrder(c, k - 1))}
                null = nk - gf2rank([sum(1 << idx[f] for f in B.faces(c, s)) for s in cols])
            if len(chains) != null:
                return 'FAIL %s[%d] has %d chains, nullity is %d' % (what, k, len(chains), null)
            vecs = []
            idx = {s: i for i, s in enumerate(cols)}
            for ch in chains:
                if any(s not in idx for s in ch):
                    return 'FAIL %s[%d] chain %r is not made of order-%d simplices' % (what, k, ch, k)
                m = 0
                for s in ch:
                    m ^= 1 << idx[s]
                red = [s for s in cols if m >> idx[s] & 1]
                if k > 0 and red and B.boundary(c, red) != set():
                    return 'FAIL %s[%d] chain %r has a boundary' % (what, k, ch)
                vecs.append(m)
            if gf2rank(vecs) != len(vecs):
                return 'FAIL %s[%d] chains are dependent' % (what, k)
        return None

    # ---- C10 -------------------------------------------------------------------------------------------
    def o_cmp(self, ha, hb):
        a, b = self.C(ha), self.C(hb)
        sa, sb = B.simplices(a), B.simplices(b)
        for x in (a, b):
            # a filtration is compared as the complex it shows: this oracle reads it at its last index only
            if isinstance(x, Filtration) and len(x.simplices()) != len(B.simplices(x)):
                return 'ok'
        # the faces of s read off the bases (in a valid complex: the simplices one order down on points of s), so
        # that the expectation does not come from the very look-up the comparison uses
        def facets(c):
            bs = {s: frozenset(B.basisOf(c, s)) for s in B.simplices(c)}
            od = {s: B.orderOf(c, s) for s in B.simplices(c)}
            return {s: frozenset(t for t in bs if od[t] == od[s] - 1 and bs[t] <= bs[s]) for s in bs}, od
        fa, oa = facets(a); fb, ob = facets(b)
        # `addSimplex` also accepts faces that are not the facets of one simplex (k+1 simplices of order k-1 that do
        # not close up); there the bases say nothing about the faces and the stored faces are the only reading of
        # "the same set of faces"
        sfa = {s: frozenset(B.faces(a, s)) for s in sa}; sfb = {s: frozenset(B.faces(b, s)) for s in sb}
        if sfa != fa or sfb != fb:
            fa, fb = sfa, sfb
        le = all(s in fb and ob[s] == oa[s] and fa[s] == fb[s] for s in sa)
        ge = all(s in fa and oa[s] == ob[s] and fa[s] == fb[s] for s in sb)
        want = dict(le=le, lt=le and len(sa) < len(sb), ge=ge, gt=ge and len(sb) < len(sa),
                    eq=le and len(sa) == len(sb), ne=not (le and len(sa) == len(sb)))
        got = dict(le=a <= b, lt=a < b, ge=a >= b, gt=a > b, eq=a == b, ne=a != b)
        if got != want:
            return 'FAIL comparisons %r, expected %r' % (got, want)
        return 'ok'

    def o_equal(self, ha, hb):
        """a complex and a copy of it (copy(), copy into an empty complex, snapshot at the last index) are equal"""
        a, b = self.C(ha), self.C(hb)
        for x in (a, b):
            if isinstance(x, Filtration) and len(x.simplices()) != len(B.simplices(x)):
                return 'ok'
        got = dict(le=a <= b, lt=a < b, ge=a >= b, gt=a > b, eq=a == b, ne=a != b)
        want = dict(le=True, lt=False, ge=True, gt=False, eq=True, ne=False)
        if got != want:
            return 'FAIL a complex and its copy compare as %r' % (got,)
        return 'ok'

    # ---- C11 / C12 -------------------------------------------------------------------------------------
    def o_flag(self, hsrc, hres):
        c, f = self.C(hsrc), self.C(hres)
        if famof(f) != clique_family(famof(c)):
            return 'FAIL flagComplex family %r' % (_short(famof(f)),)
        for s in B.simplices(c):
            if s not in B.simplices(f) or B.faces(f, s) != B.faces(c, s) or B.getAttributes(f, s) != B.getAttributes(c, s):
                return 'FAIL flag complex does not contain %r as in the input' % (s,)
        if not (c <= f):
            return 'FAIL input is not a sub-complex of its flag complex'
        if famof(f.flagComplex()) != famof(f):
            return 'FAIL flagComplex is not idempotent'
        return 'ok'

    def o_growfilt(self, seed):
        """a filtration is a complex: edges added at its last index and growFlagComplex there give the clique complex
        of the graph, and the complexes seen at the earlier indices are as before"""
        import random
        rng = random.Random(int(seed))
        n = rng.randrange(4, 8)
        edges = [e for e in itertools.combinations(range(n), 2) if rng.random() < 0.6]
        rng.shuffle(edges)
        k = rng.randrange(0, len(edges) + 1)
        f = Filtration(0)
        for p in range(n):
            f.addSimplex(id=p)
        g = SimplicialComplex()
        for p in range(n):
            g.addSimplex(id=p)
        f.setIndex(1)
        for (a, b) in edges[:k]:
            f.addSimplex(fs=[a, b], id=('e', a, b)); g.addSimplex(fs=[a, b], id=('e', a, b))
        try:
            f.growFlagComplex([('e', a, b) for (a, b) in edges[:k]])
            early = famof(f)
            f.setIndex(2)
            new = []
            for (a, b) in edges[k:]:
                new.append(f.addSimplex(fs=[a, b], id=('e', a, b)))
            f.growFlagComplex(new)
        except Exception as x:
            return 'FAIL growFlagComplex on a filtration raised %s: %s' % (type(x).__name__, x)
        want = clique_family(frozenset([frozenset([p]) for p in range(n)] + [frozenset(e) for e in edges]))
        if famof(f) != want:
            return 'FAIL growing a filtration at its last index: family %r, cliques %r' % (_short(famof(f)), _short(want))
        f.setIndex(1)
        if frozenset(frozenset(B.basisOf(f, s)) for s in f.simplices()) != early:
            return 'FAIL growing at the last index changed the complex seen at an earlier one'
        return 'ok'

    def o_samefam(self, ha, hb):
        if famof(self.C(ha)) != famof(self.C(hb)):
            return 'FAIL families differ: %r vs %r' % (_short(famof(self.C(ha))), _short(famof(self.C(hb))))
        return 'ok'

    def o_vr(self, he, hres):
        e = self.ex.embs[he]; vr = self.C(hres); eps = self.ex.vr_eps
        under = self.ex.objs.get(self.ex.emb_of.get(he))
        if under is not None and e.complex() is not under:
            return 'FAIL the embedding does not refer to the complex it was made for'
        pts = list((under if under is not None else e.complex()).simplicesOfOrder(0))
        if set(B.simplicesOfOrder(vr, 0)) != set(pts) or any(type(p) not in [type(q) for q in pts] for p in B.simplicesOfOrder(vr, 0)):
            return 'FAIL Vietoris-Rips points differ from the embedding points'
        close = lambda p, q: e.distance(e.positionOf(p), e.positionOf(q)) <= eps
        want = {frozenset([p]) for p in pts}
        for r in range(2, len(pts) + 1):
            for q in itertools.combinations(pts, r):
                if all(close(a, b) for a, b in itertools.combinations(q, 2)):
                    want.add(frozenset(q))
        if famof(vr) != frozenset(want):
            return 'FAIL Vietoris-Rips family at eps=%r: %r' % (eps, _short(famof(vr)))
        return 'ok'

    # ---- C15 -------------------------------------------------------------------------------------------
    def o_post_relabel(self, h, ren, mapping_line_ok='T'):
        c = self.C(h); old = self.snaps[h]; r = self.ex.ren(ren)
        f = lambda x: r.get(x, x)
        if [f(s) for s in old['simplices']] != B.simplices(c):
            return 'FAIL listing after relabel is not the renamed listing'
        for s in old['simplices']:
            t = f(s)
            if B.orderOf(c, t) != old['orders'][s] or frozenset(B.faces(c, t)) != frozenset(map(f, old['faces'][s])) or \
               frozenset(B.basisOf(c, t)) != frozenset(map(f, old['basis'][s])) or B.getAttributes(c, t) != old['attrs'][s]:
                return 'FAIL %r -> %r: order, faces, basis or attributes not carried' % (s, t)
            if type(t) is not type(B.simplices(c)[old['simplices'].index(s)]):
                return 'FAIL name type changed'
            if set(B.cofaces(c, t)) != {f(u) for u in old['simplices'] if s in old['faces'][u]}:
                return 'FAIL cofaces not carried'
        if old['bops'] != [fmt_mat(B.boundaryOperator(c, k)) for k in range(B.maxOrder(c) + 2)]:
            return 'FAIL boundary operators changed by relabelling'
        return 'ok'

    def o_relabel_fn(self, h, kind):
        """relabel with a function: called at most once per simplex, mapping lists exactly the changed names"""
        c = self.C(h)
        calls = collections.Counter()
        fns = {'tuple': lambda s: (s, 'r'), 'str': lambda s: 'r:' + repr(s), 'ident': lambda s: s,
               'some': lambda s: ('r', s) if B.orderOf(c, s) == 0 else s}
        base = fns[kind]
        # order must be read before renaming starts: precompute
        table = {s: base(s) for s in B.simplices(c)}

        def fn(s):
            calls[s] += 1
            return table[s]
        old = full_state(c)
        b0 = dict(B.bettiNumbers(c))
        m = c.relabel(fn)
        if any(n > 1 for n in calls.values()):
            return 'FAIL renaming function called more than once for a simplex'
        if m != {s: t for s, t in table.items() if s != t}:
            return 'FAIL returned mapping %r' % (m,)
        if [table[s] for s in old['simplices']] != B.simplices(c):
            return 'FAIL listing after relabel'
        for s in old['simplices']:
            t = table[s]
            if frozenset(B.faces(c, t)) != frozenset(table[x] for x in old['faces'][s]) or B.getAttributes(c, t) != old['attrs'][s]:
                return 'FAIL faces/attributes not carried'
        if dict(B.bettiNumbers(c)) != b0:
            return 'FAIL Betti numbers changed by relabelling'
        # undo, so that model and implementation stay in step
        inv = {t: s for s, t in table.items()}
        c.relabel(lambda s: inv[s])
        return 'ok'

    def o_addfrom_fn(self, hdst, hsrc, kind):
        """addSimplicesFrom with a renaming *function* (on a deep copy of the target): the function is called at most
        once per simplex and the result contains an isomorphic, attribute-preserving copy of the source"""
        d = copy.deepcopy(self.C(hdst)); src = self.C(hsrc)
        calls = collections.Counter()
        counter = itertools.count()
        fresh = {}

        def fn(s):
            calls[s] += 1
            if kind == 'fresh':
                return ('fresh', next(counter))          # a stateful generator of unique names
            return ('r', s)
        before = set(B.simplices(d))
        try:
            ns = d.addSimplicesFrom(src, rename=fn)
        except (KeyError, ValueError) as e:
            return 'FAIL addSimplicesFrom with a renaming function onto fresh names raised %r' % (e,)
        if any(n > 1 for n in calls.values()):
            return 'FAIL renaming function called %r times for one simplex' % (max(calls.values()),)
        srcs = B.simplices(src)
        if len(ns) != len(srcs) or len(set(ns)) != len(ns) or set(ns) & before:
            return 'FAIL addSimplicesFrom returned %r' % (ns,)
        m = dict(zip(srcs, ns))
        for s in srcs:
            if frozenset(B.faces(d, m[s])) != frozenset(m[x] for x in B.faces(src, s)) or B.getAttributes(d, m[s]) != B.getAttributes(src, s):
                return 'FAIL the renamed copy of %r has other faces or attributes' % (s,)
        return 'ok'

    def o_disjoint_names(self, h, hother):
        c = self.C(h); o = self.C(hother); old = self.snaps[h]
        if set(B.simplices(c)) & set(B.simplices(o)):
            return 'FAIL names still shared after relabelDisjointFrom: %r' % (set(B.simplices(c)) & set(B.simplices(o)),)
        for s_old, s_new in zip(old['simplices'], B.simplices(c)):
            if s_old != s_new and s_old not in B.simplices(o):
                return 'FAIL %r was renamed although it did not collide' % (s_old,)
        return 'ok'

    # ---- C16 -------------------------------------------------------------------------------------------
    def o_compose(self, ha, hb, hres, expect):
        a, b = self.C(ha), self.C(hb)
        na, nb = named(a), named(b)
        compatible = all(na[s] == nb[s] for s in na if s in nb) and \
            all(s == t for s in na for t in nb if na[s] == nb[t])
        # what the library did is read from the previous call's result, not from the script
        if self.last == 'rejK':
            return 'FAIL compose raised KeyError (%s pair); the documented rejection is ValueError' % ('a compatible' if compatible else 'an incompatible')
        if self.last == 'rej':
            return 'ok' if not compatible else 'FAIL compose rejected a compatible pair'
        if not self.last.startswith('ok'):
            return 'FAIL compose raised something else: %s' % self.last
        if not compatible:
            return 'FAIL compose accepted an incompatible pair'
        d = self.C(hres)
        pre = self.snaps.get(hres)
        base_names = set(pre['simplices']) if pre else set()
        want = {**na, **nb}
        got = {s: bs for s, bs in named(d).items() if s not in base_names}
        if got != want:
            return 'FAIL compose result %r' % (_short(got),)
        for s in want:
            wf = B.faces(b, s) if s in nb else B.faces(a, s)
            if B.faces(d, s) != wf:
                return 'FAIL faces of %r in the composition' % (s,)
            if s in na and s in nb:
                wa = dict(B.getAttributes(a, s)); wa.update(B.getAttributes(b, s))
            else:
                wa = B.getAttributes(b, s) if s in nb else B.getAttributes(a, s)
            if B.getAttributes(d, s) != wa:
                return 'FAIL attributes of %r in the composition: %r' % (s, B.getAttributes(d, s))
        return 'ok'

    def o_addfrom_fn_large(self, n):
        """bulk add of a source with several hundred simplices under a renaming function: called at most once per simplex"""
        n = int(n)
        src = SimplicialComplex()
        for i in range(n):
            src.addSimplex(id=i, attr={'i': i})
        for i in range(n):
            src.addSimplex(fs=[i, (i + 1) % n], id=(i, 'e'))
        for i in range(0, n - 2, 3):
            src.addSimplex(fs=[i, i + 2], id=(i, 'd')); src.addSimplex(fs=[(i, 'e'), (i + 1, 'e'), (i, 'd')], id=(i, 't'))
        calls = collections.Counter()
        fresh = itertools.count()
        def fn(s):
            calls[s] += 1
            return ('new', next(fresh))
        dst = SimplicialComplex(); dst.addSimplex(id='own')
        try:
            dst.addSimplicesFrom(src, rename=fn)
        except Exception as x:
            return 'FAIL addSimplicesFrom of %d simplices under a renaming function raised %s: %s' % (len(src), type(x).__name__, x)
        if any(v > 1 for v in calls.values()):
            return 'FAIL the renaming function was called %d times for one simplex' % max(calls.values())
        if len(dst) != len(src) + 1 or sorted(dst.numberOfSimplicesOfOrder()) != sorted([x + (1 if k == 0 else 0) for k, x in enumerate(src.numberOfSimplicesOfOrder())]):
            return 'FAIL wrong number of simplices after the bulk add'
        if dict(dst.bettiNumbers()) != {k: v + (1 if k == 0 else 0) for k, v in dict(src.bettiNumbers()).items()}:
            return 'FAIL the bulk add is not an isomorphic copy (Betti numbers differ)'
        return 'ok'

    # ---- C15 (names that print alike) -------------------------------------------------------------------
    def o_disjoint_twin(self, seed):
        import random
        rng = random.Random(int(seed))
        twins = [0, '0', 1, '1', 2, '2', 3, '3']
        def build():
            c = SimplicialComplex()
            pts = rng.sample(twins, rng.randrange(2, 7))
            for p in pts:
                c.addSimplex(id=p, attr={'p': repr(p)})
            enames = [10, '10', 11, '11', 12, '12']
            rng.shuffle(enames)
            for (a, b), e in zip(rng.sample(list(itertools.combinations(pts, 2)), min(3, len(pts) * (len(pts) - 1) // 2)), enames):
                c.addSimplex(fs=[a, b], id=e, attr={'e': repr(e)})
            return c
        a, b = build(), build()
        before = {s: (B.orderOf(a, s), frozenset(B.faces(a, s)), dict(B.getAttributes(a, s))) for s in B.simplices(a)}
        shared = [s for s in B.simplices(a) if s in B.simplices(b)]
        sb = full_state(b)
        try:
            m = a.relabelDisjointFrom(b)
        except Exception as x:
            return 'FAIL relabelDisjointFrom raised %s: %s (shared names %r)' % (type(x).__name__, x, shared)
        if full_state(b) != sb:
            return 'FAIL relabelDisjointFrom changed its argument'
        if any(s in B.simplices(b) for s in B.simplices(a)):
            return 'FAIL a name is still shared after relabelDisjointFrom'
        if set(m.keys()) != set(shared) or [type(k) for k in sorted(m, key=repr)] != [type(k) for k in sorted(shared, key=repr)]:
            return 'FAIL relabelDisjointFrom renamed %r, the shared names were %r' % (list(m.keys()), shared)
        f = lambda s: m.get(s, s)
        if len(B.simplices(a)) != len(before):
            return 'FAIL relabelDisjointFrom changed the number of simplices'
        for s, (k, fs, at) in before.items():
            t = f(s)
            if t not in B.simplices(a) or B.orderOf(a, t) != k or frozenset(B.faces(a, t)) != frozenset(f(x) for x in fs) or B.getAttributes(a, t) != at:
                return 'FAIL %r was not carried along the renaming' % (s,)
        return 'ok'

    # ---- C09 -------------------------------------------------------------------------------------------
    def o_fcopyinto(self, h):
        """Filtration.copy(target): into an existing filtration that has simplices and index values of its own,
        some of them index values of the source; names disjoint"""
        f = copy.deepcopy(self.C(h))
        inds = f.indices()
        if not inds:
            return 'ok'
        try:
            for variant in range(3):
                t = Filtration(inds[0] if variant == 0 else inds[-1])
                own = {}
                for j, i in enumerate(([inds[-1], inds[0]] if variant == 1 else inds[:2]) + [inds[-1] + 1]):
                    t.setIndex(i)
                    n = ('own', variant, j)
                    t.addSimplex(id=n, attr={'own': j}); own[n] = i
                at = inds[len(inds) // 2] if variant == 2 else t.getIndex()
                t.setIndex(at)
                r = f.copy(t)
                if r is not t:
                    return 'FAIL copy(target) did not return the target'
                if t.getIndex() != at:
                    return 'FAIL copy(target) left the target at index %r instead of %r' % (t.getIndex(), at)
                for n, i in own.items():
                    if not t.containsSimplexAtSomeIndex(n) or t.addedAtIndex(n) != i or B.getAttributes(t, n) != {'own': own_j(n)}:
                        return 'FAIL copy(target) disturbed the target\'s own simplex %r' % (n,)
                for s in B.simplices(f):
                    if not t.containsSimplexAtSomeIndex(s):
                        return 'FAIL %r was not copied into the target filtration' % (s,)
                    if t.addedAtIndex(s) != f.addedAtIndex(s):
                        return 'FAIL %r is born at %r in the source and at %r in the target filtration' % (s, f.addedAtIndex(s), t.addedAtIndex(s))
                    if B.faces(t, s) != B.faces(f, s) or B.getAttributes(t, s) != B.getAttributes(f, s) or B.getAttributes(t, s) is B.getAttributes(f, s):
                        return 'FAIL %r differs between the source and the target filtration' % (s,)
                if len(B.simplices(t)) != len(B.simplices(f)) + len(own):
                    return 'FAIL wrong number of simplices in the target filtration'
        except Exception as x:
            return 'FAIL copy into an existing filtration raised %s: %s' % (type(x).__name__, x)
        return 'ok'

    def o_samecontent(self, ha, hb):
        a, b = self.C(ha), self.C(hb)
        if isinstance(a, Filtration) and not isinstance(b, Filtration):
            sa = a.simplices()
        else:
            sa = B.simplices(a)
        if sorted(map(repr, sa)) != sorted(map(repr, B.simplices(b))):
            return 'FAIL names differ'
        for s in sa:
            if B.orderOf(a, s) != B.orderOf(b, s) or B.faces(a, s) != B.faces(b, s) or B.getAttributes(a, s) != B.getAttributes(b, s):
                return 'FAIL %r differs between source and copy' % (s,)
            if set(B.basisOf(a, s)) != set(B.basisOf(b, s)) or \
               (not isinstance(a, Filtration) and not isinstance(b, Filtration) and set(B.cofaces(a, s)) != set(B.cofaces(b, s))):
                return 'FAIL basis or cofaces of %r differ between source and copy' % (s,)
            t = [x for x in B.simplices(b) if x == s][0]
            if type(t) is not type(s):
                return 'FAIL type of name %r changed' % (s,)
        if isinstance(a, Filtration) and isinstance(b, Filtration):
            for s in sa:
                if a.addedAtIndex(s) != b.addedAtIndex(s):
                    return 'FAIL birth index of %r not copied' % (s,)
        return 'ok'

    def o_samecontent_sub(self, ha, hb):
        """every simplex of a is in b with the same order, faces and attribute values (copy into a target)"""
        a, b = self.C(ha), self.C(hb)
        for s in B.simplices(a):
            if s not in B.simplices(b):
                return 'FAIL %r was not copied into the target' % (s,)
            if B.orderOf(a, s) != B.orderOf(b, s) or B.faces(a, s) != B.faces(b, s) or B.getAttributes(a, s) != B.getAttributes(b, s):
                return 'FAIL %r differs between source and target' % (s,)
        return 'ok'

    def o_deepnested(self, ha, hb):
        """after copy.deepcopy mutable attribute *values* are copies too"""
        a, b = self.C(ha), self.C(hb)
        for s in B.simplices(a):
            for k, v in B.getAttributes(a, s).items():
                if isinstance(v, (list, dict)) and s in B.simplices(b) and B.getAttributes(b, s).get(k) is v:
                    return 'FAIL the deep copy shares the attribute value %r of %r with its source' % (k, s)
        return 'ok'

    def o_nodictshare(self, *hs):
        """a complex built by decoding / copying simplex by simplex: no two of its simplices hold one dict object"""
        seen = {}
        for h in hs:
            if h not in self.ex.objs:
                continue
            c = self.C(h)
            for s in B.simplices(c):
                i = id(B.getAttributes(c, s))
                if i in seen:
                    return 'FAIL %r of %s and %r of %s hold the same attribute dict object' % (seen[i][1], seen[i][0], s, h)
                seen[i] = (h, s)
        return 'ok'

    def o_noshare(self, *hs):
        seen = {}
        for h in hs:
            if h not in self.ex.objs:
                continue            # (a constructor call that was rejected made no object)
            c = self.C(h)
            ids = [('rep', id(c.representation()))] + [('dict', id(B.getAttributes(c, s))) for s in B.simplices(c)]
            for kind, i in ids:
                if i in seen and seen[i] != h:
                    return 'FAIL %s and %s share a %s object' % (seen[i], h, kind)
                seen[i] = h
        return 'ok'

    # ---- C17 / C08 ---------------------------------------------------------------------------------------
    def o_jsonset(self, h):
        """encoding never changes the complex, also when a value is not JSON data (a set: refused with TypeError)"""
        d = copy.deepcopy(self.C(h))
        ss = B.simplices(d)
        if not ss:
            return 'ok'
        B.getAttributes(d, ss[0])['tags'] = {3, 1, 2}
        B.getAttributes(d, ss[-1])['frozen'] = frozenset(['x'])
        before = full_state(d); reprs = [repr(sorted(B.getAttributes(d, s).items(), key=repr)) for s in ss]
        try:
            sfile.as_json(d)
        except TypeError:
            pass
        if full_state(d) != before or reprs != [repr(sorted(B.getAttributes(d, s).items(), key=repr)) for s in ss]:
            return 'FAIL encoding to JSON changed the attributes of the complex'
        return 'ok'

    def o_jsontext(self, h):
        c = self.C(h)
        txt = sfile.as_json(c)
        o = json.loads(txt)
        if o.get('__simplicialcomplex__') is not True or '__version__' not in o or 'simplices' not in o:
            return 'FAIL JSON lacks marker, version or simplices'
        seen = set()
        for s in o['simplices']:
            if set(s.keys()) != {'id', 'faces', 'attributes'}:
                return 'FAIL simplex entry keys %r' % (sorted(s.keys()),)
            if any(f not in seen for f in s['faces']):
                return 'FAIL simplex %r listed before one of its faces' % (s['id'],)
            seen.add(s['id'])
        vis = c.simplices()
        if [s['id'] for s in o['simplices']] != list(vis):
            return 'FAIL encoded simplices are not the complex at the current index'
        for plain in ({'x': [1, {'y': None}], 'z': 'w'}, {'__version__': 0.1, 'payload': {'__version__': 7, 'k': [1, 2]}},
                      {'__simplicialcomplex__': True, 'simplices': 3}, {'__version__': 'other', '__simplicialcomplex__': True, 'n': 1}):
            wrapped = json.loads(json.dumps(plain), object_hook=sfile.as_simplicial_complex)
            if wrapped != plain:
                return 'FAIL decoder changed a JSON object that is not an encoded complex: %r -> %r' % (plain, wrapped)
        nested = json.loads(json.dumps({'a': [json.loads(txt)], 'b': 2}), object_hook=sfile.as_simplicial_complex)
        if not isinstance(nested['a'][0], SimplicialComplex) or nested['b'] != 2:
            return 'FAIL complex wrapped in other JSON not decoded'
        import tempfile, os
        fd, path = tempfile.mkstemp(suffix='.json', dir='/var/tmp')
        os.close(fd)
        try:
            # the file may already exist with longer content
            big = SimplicialComplex()
            for i in range(12):
                big.addSimplex(id='pad%d' % i, attr={'padding': 'x' * 50})
            sfile.write_json(big, path)
            sfile.write_json(c, path)
            d = sfile.read_json(path)
            # the same through a file in which the complex sits inside other JSON, and a file without any complex
            with open(path, 'w') as f:
                f.write('{"a": [%s, 1], "b": {"c": %s}, "d": 2}' % (txt, txt))
            w = sfile.read_json(path)
            with open(path, 'w') as f:
                f.write('[%s]' % txt)
            w2 = sfile.read_json(path)
            with open(path, 'w') as f:
                f.write('{"x": [1, {"y": null}], "z": "w"}')
            w3 = sfile.read_json(path)
        except Exception as e:
            return 'FAIL write_json then read_json on an existing file raised %s: %r' % (type(e).__name__, e)
        finally:
            os.unlink(path)
        cwd = os.getcwd()
        try:
            os.chdir('/var/tmp')
            bare = 'sxverif-%d-%d.json' % (os.getpid(), id(c) % 100000)
            try:
                sfile.write_json(c, bare)
                d2 = sfile.read_json(bare)
            finally:
                if os.path.exists(bare):
                    os.unlink(bare)
        except Exception as e:
            return 'FAIL write_json/read_json with a bare file name raised %s: %r' % (type(e).__name__, e)
        finally:
            os.chdir(cwd)
        if d2.simplices() != list(vis):
            return 'FAIL write_json/read_json with a bare file name'
        if w3 != {'x': [1, {'y': None}], 'z': 'w'}:
            return 'FAIL read_json changed a file without an encoded complex: %r' % (w3,)
        try:
            inner = [w['a'][0], w['b']['c'], w2[0]]
            if w['a'][1] != 1 or w['d'] != 2 or len(w2) != 1:
                return 'FAIL read_json changed the JSON around an encoded complex'
        except Exception as e:
            return 'FAIL read_json of a complex inside other JSON: %s' % type(e).__name__
        for x in inner:
            if not isinstance(x, SimplicialComplex) or x.simplices() != list(vis) or any(x.faces(s) != B.faces(c, s) or x[s] != B.getAttributes(c, s) for s in vis):
                return 'FAIL read_json did not decode a complex inside other JSON'
        if d.simplices() != list(vis) or [type(x) for x in d.simplices()] != [type(x) for x in vis]:
            return 'FAIL write_json/read_json names'
        for s in vis:
            if d.faces(s) != B.faces(c, s) or d[s] != B.getAttributes(c, s):
                return 'FAIL write_json/read_json structure of %r' % (s,)
        return 'ok'

    # ---- C18 -------------------------------------------------------------------------------------------
    def o_gen(self, h, kind, k, *rest):
        c = self.C(h); k = int(k)
        old = self.snaps.get(h)
        base = set(old['simplices']) if old else set()
        new = [s for s in B.simplices(c) if s not in base]
        cnt = collections.Counter(B.orderOf(c, s) for s in new)
        if kind == 'ksimplex':
            want = {j: math.comb(k + 1, j + 1) for j in range(k + 1)}
        elif kind == 'kvoid':
            want = {j: math.comb(k + 2, j + 1) for j in range(k + 1)}
        elif kind == 'kskel':
            want = {0: k + 1, 1: math.comb(k + 1, 2)}
        elif kind == 'ring':
            want = {0: k, 1: k}
        want = {j: n for j, n in want.items() if n}
        if dict(cnt) != want:
            return 'FAIL %s(%d) added %r, expected %r' % (kind, k, dict(cnt), want)
        pts = {s for s in new if B.orderOf(c, s) == 0}
        for s in new:
            if not B.basisOf(c, s) <= pts:
                return 'FAIL new simplex %r uses an old point' % (s,)
        if old:
            r = self._frame(h, old['basis'])
            if r:
                return r
        if not base:
            b = dict(B.bettiNumbers(c))
            if kind == 'ksimplex':
                wb = {j: (1 if j == 0 else 0) for j in range(k + 1)}
            elif kind == 'kvoid':
                wb = {j: (1 if j in (0, k) else 0) for j in range(k + 1)}
                if k == 0:
                    wb = {0: 2}
            elif kind == 'ring':
                wb = {0: 1, 1: 1}
            else:
                wb = None
            if wb is not None and b != wb:
                return 'FAIL Betti numbers of %s(%d): %r' % (kind, k, b)
        if kind == 'ring':
            if any(len(B.cofaces(c, p)) != 2 for p in pts):
                return 'FAIL ring: a point without exactly two edges'
            if components(frozenset(frozenset(B.basisOf(c, s)) for s in new)) != 1:
                return 'FAIL ring is not one cycle'
        if kind in ('ksimplex', 'kvoid', 'kskel', 'ring'):
            # "its faces will be anonymous": only the top simplex of k_simplex is given the requested attributes
            topk = [s for s in new if B.orderOf(c, s) == k] if kind == 'ksimplex' else []
            for s in new:
                if s not in topk and B.getAttributes(c, s) != {}:
                    return 'FAIL generated simplex %r below the top simplex carries attributes %r' % (s, B.getAttributes(c, s))
        if kind == 'ksimplex' and rest:
            top = [s for s in new if B.orderOf(c, s) == k]
            if rest[0] != '-' and top != [self.ex.name(rest[0])]:
                return 'FAIL requested name not given to the top simplex'
            if len(rest) > 1 and rest[1] != '-' and B.getAttributes(c, top[0]) != self.ex.dicts[rest[1]]:
                return 'FAIL requested attributes not on the top simplex'
        return 'ok'

    def o_lattice(self, h, r, cl):
        c = self.C(h); r = int(r); cl = int(cl)
        if len(B.simplicesOfOrder(c, 0)) != r * cl:
            return 'FAIL lattice has %d points' % len(B.simplicesOfOrder(c, 0))
        if r >= 2:
            if B.eulerCharacteristic(c) != 1:
                return 'FAIL lattice Euler characteristic %d' % B.eulerCharacteristic(c)
            b = dict(B.bettiNumbers(c))
            want = {0: 1, 1: 0, 2: 0} if B.maxOrder(c) == 2 else ({0: 1, 1: 0} if B.maxOrder(c) == 1 else {0: 1})
            if cl == 1 and r == 2:
                pass
            if b != want:
                return 'FAIL lattice Betti numbers %r' % (b,)
        return 'ok'

    # ---- C19 -------------------------------------------------------------------------------------------
    def o_integrate(self, h, key, dflt):
        c = self.C(h); k = key_obj(int(key)); dflt = int(dflt)
        before = full_state(c)
        got = EulerIntegrator(k, dflt).integrate(c)
        hgt = lambda p: B.getAttributes(c, p).get(k, dflt)
        want = sum((-1) ** (len(bs) - 1) * min(hgt(p) for p in bs) for bs in named(c).values())
        if got != want:
            return 'FAIL integrate = %r, min-sum formula gives %r' % (got, want)
        lv = 0
        mx = max([hgt(p) for p in B.simplicesOfOrder(c, 0)], default=0)
        for l in range(mx):
            keep = {p for p in B.simplicesOfOrder(c, 0) if hgt(p) > l}
            fam = [bs for bs in named(c).values() if bs <= keep]
            lv += sum((-1) ** (len(bs) - 1) for bs in fam)
        if got != lv:
            return 'FAIL integrate = %r, level-set sum gives %r' % (got, lv)
        if full_state(c) != before:
            return 'FAIL integrate modified its argument'
        again = self.ex.integrator(k, dflt).integrate(c)      # the integrator object the script has been using all along
        if again != want:
            return 'FAIL integrate = %r from an integrator that has been used before, %r from a new one' % (again, want)
        I = EulerIntegrator(k, dflt)
        for s in B.simplices(c):
            if I.metric(c, s) != B.getAttributes(c, s).get(k, dflt):
                return 'FAIL metric(%r)' % (s,)
        d = copy.deepcopy(c)
        ls = I.levelSet(d, 0)
        if {x for x in B.simplices(ls)} != {x for x, bs in named(c).items() if all(hgt(p) > 0 for p in bs)}:
            return 'FAIL levelSet(c, 0)'
        counts = B.numberOfSimplicesOfOrder(c)
        if B.eulerCharacteristic(c) != sum((-1) ** k_ * n for k_, n in enumerate(counts)):
            return 'FAIL eulerCharacteristic is not the alternating sum of counts'
        return 'ok'

    # ---- C13 / C14 -------------------------------------------------------------------------------------
    def o_filt(self, h):
        try:
            return self._filt_body(h)
        except Exception as x:      # every call inside is a public call on a filtration with valid arguments
            return 'FAIL %s raised while the filtration was inspected: %s' % (type(x).__name__, x)

    def _filt_body(self, h):
        f = copy.deepcopy(self.C(h))     # the oracle moves the index: work on a copy
        cur = f.getIndex()
        ss = B.simplices(f)
        births = {s: f.addedAtIndex(s) for s in ss}
        inds = f.indices()
        if inds != sorted(inds):
            return 'FAIL indices() not ascending'
        if not set(births.values()) <= set(inds):
            return 'FAIL a birth index is missing from indices()'
        for s in ss:
            for x in B.faces(f, s):
                if births[x] > births[s]:
                    return 'FAIL face %r born after %r' % (x, s)
        keys0 = list(inds)
        prev = None
        try:
            vis = [s for s in ss if births[s] <= cur]
            if len(f) != len(vis) or f.numberOfSimplices() != len(vis) or f.simplices() != vis:
                return 'FAIL the filtration shows %d simplices at its current index, len() says %d' % (len(vis), len(f))
        except Exception as x:
            return 'FAIL counting / listing the simplices at the current index raised %s' % type(x).__name__
        for i in inds:
            f.setIndex(i)
            want = [s for s in ss if births[s] <= i]
            if f.simplices() != want:
                f.setIndex(cur)
                return 'FAIL simplices() at index %r' % (i,)
            for s in ss:
                if (s in f) != (births[s] <= i):
                    f.setIndex(cur)
                    return 'FAIL membership of %r at index %r' % (s, i)
            per = collections.Counter(B.orderOf(f, s) for s in want)
            cnt = list(f.numberOfSimplicesOfOrder())
            while cnt and cnt[-1] == 0:
                cnt.pop()
            if cnt != [per[k] for k in range(max(per) + 1)] if per else cnt != []:
                f.setIndex(cur)
                return 'FAIL at index %r the complex seen has %r simplices per order, numberOfSimplicesOfOrder() says %r' % (i, dict(per), cnt)
            if len(f) != len(want) or f.numberOfSimplices() != len(want):
                f.setIndex(cur)
                return 'FAIL at index %r the complex seen has %d simplices, len() says %d' % (i, len(want), len(f))
            for j in inds:
                if set(f.simplicesAddedAtIndex(j)) != {s for s in ss if births[s] == j}:
                    f.setIndex(cur)
                    return 'FAIL simplicesAddedAtIndex(%r) asked while at index %r' % (j, i)
            got = f.simplicesAddedAtIndex(i)
            if set(got) != {s for s in ss if births[s] == i} or [B.orderOf(f, s) for s in got] != sorted(B.orderOf(f, s) for s in got):
                f.setIndex(cur)
                return 'FAIL simplicesAddedAtIndex(%r)' % (i,)
            try:
                sn = f.snap()
            except Exception as e:
                f.setIndex(cur)
                return 'FAIL snap() at index %r raised %r' % (i, e)
            if B.simplices(sn) != want:
                f.setIndex(cur)
                return 'FAIL snap() content at %r' % (i,)
            st = State(self.ex); st.ex = _Fake(self.ex, sn)
            r = st.o_inv('x')
            if r != 'ok':
                f.setIndex(cur)
                return 'FAIL complex at index %r is not a legal complex: %s' % (i, r)
            if prev is not None and not (prev <= sn):
                f.setIndex(cur)
                return 'FAIL complex at an earlier index is not a sub-complex of a later one'
            prev = sn
        if f.indices() != keys0:
            return 'FAIL visiting existing indices changed indices()'
        # stepping through complexes() leaves the current index where it was after every snapshot
        f = copy.deepcopy(self.C(h))
        it = iter(f.complexes())
        for _ in keys0:
            next(it)
            if f.getIndex() != cur:
                return 'FAIL complexes() moved the current index to %r while iterating (was %r)' % (f.getIndex(), cur)
        f = copy.deepcopy(self.C(h))
        snaps = list(f.complexes())
        if f.getIndex() != cur:
            return 'FAIL complexes() moved the current index'
        if len(snaps) != len(keys0):
            return 'FAIL complexes() yielded %d snapshots for %d indices' % (len(snaps), len(keys0))
        if len({id(sn) for sn in snaps}) != len(snaps) or len({id(sn.representation()) for sn in snaps}) != len(snaps):
            return 'FAIL complexes() yielded the same object for two indices'
        for i, sn in zip(keys0, snaps):
            if B.simplices(sn) != [s for s in ss if births[s] <= i]:
                return 'FAIL complexes() snapshot at %r' % (i,)
            if isinstance(sn, Filtration) or sn.representation() is f.representation() or sn.representation() is self.C(h).representation():
                return 'FAIL complexes() snapshot is not detached'
        return 'ok'

    def o_filtq(self, h):
        try:
            return self._filtq_body(h)
        except Exception as x:      # every call inside is a public call on a filtration with valid arguments
            return 'FAIL %s raised while the filtration was inspected: %s' % (type(x).__name__, x)

    def _filtq_body(self, h):
        """C14: every read-only query at every index answers as the snapshot taken there"""
        f = copy.deepcopy(self.C(h))
        cur = f.getIndex()
        out = 'ok'
        known = []
        for i in f.indices():
            f.setIndex(i)
            s = f.snap()
            qs = [('numberOfSimplices', lambda x: x.numberOfSimplices()), ('numberOfSimplicesOfOrder', lambda x: x.numberOfSimplicesOfOrder()),
                  ('eulerCharacteristic', lambda x: x.eulerCharacteristic()), ('len', lambda x: len(x)),
                  ('simplices', lambda x: x.simplices()), ('simplices(reverse)', lambda x: x.simplices(reverse=True)),
                  ('maxOrder', lambda x: x.maxOrder()),
                  ('simplicesOfOrder', lambda x: [x.simplicesOfOrder(k) for k in range(4)]),
                  ('bettiNumbers', lambda x: dict(x.bettiNumbers()))]
            for qn, q in qs:
                try:
                    a = q(f)
                except Exception as e:
                    a = 'RAISE ' + type(e).__name__
                try:
                    b = q(s)
                except Exception as e:
                    b = 'RAISE ' + type(e).__name__
                if a != b:
                    # known findings (DESIGN D23): the three inherited queries answer for the whole stored complex
                    unscoped = {'maxOrder': lambda: B.maxOrder(f), 'simplicesOfOrder': lambda: [B.simplicesOfOrder(f, k) for k in range(4)],
                                'bettiNumbers': lambda: betti_oracle(famof(f))}
                    if qn in unscoped and a == unscoped[qn]():
                        known.append({'maxOrder': 'KF-C14-maxOrder', 'simplicesOfOrder': 'KF-C14-ofOrder', 'bettiNumbers': 'KF-C14-betti'}[qn])
                    else:
                        f.setIndex(cur)
                        return 'FAIL %s at index %r: filtration %r, snapshot %r' % (qn, i, a, b)
            for n in s.simplices():
                if f.orderOf(n) != s.orderOf(n) or f.faces(n) != s.faces(n) or f.basisOf(n) != s.basisOf(n) or (n in f) != (n in s):
                    f.setIndex(cur)
                    return 'FAIL order/faces/basis of %r at index %r' % (n, i)
            for n in B.simplices(f):
                if (n in f) != (n in s):
                    f.setIndex(cur)
                    return 'FAIL membership of %r at index %r' % (n, i)
            allp = B.simplicesOfOrder(f, 0)[:6]
            for r in (1, 2, 3):
                for q in itertools.combinations(allp, r):
                    # membership and order of points, asked in one call (the look-up of a simplex by its basis is not
                    # among the queries C14 lists: it is inherited unscoped, like maxOrder)
                    a, b = f.isBasis(list(q)), s.isBasis(list(q))
                    if a != b:
                        f.setIndex(cur)
                        return 'FAIL isBasis(%r) at index %r: filtration %r, snapshot %r' % (list(q), i, a, b)
        f.setIndex(cur)
        if known:
            return 'ok KNOWN ' + ','.join(sorted(set(known)))
        return out

    def o_nav(self, h):
        try:
            return self._nav_body(h)
        except Exception as x:      # every call inside is a public call on a filtration with valid arguments
            return 'FAIL %s raised while the filtration was inspected: %s' % (type(x).__name__, x)

    def _nav_body(self, h):
        f = copy.deepcopy(self.C(h))     # the oracle moves the index: work on a copy
        cur = f.getIndex(); inds = f.indices()
        if cur not in inds:
            return 'ok'
        res = 'ok'
        i = inds.index(cur)
        a = f.setNextIndex(); want = inds[min(i + 1, len(inds) - 1)]
        if a != want or f.getIndex() != want:
            res = 'FAIL setNextIndex from %r gave %r' % (cur, a)
        f.setIndex(cur)
        a = f.setPreviousIndex(); want = inds[max(i - 1, 0)]
        if a != want or f.getIndex() != want:
            res = 'FAIL setPreviousIndex from %r gave %r' % (cur, a)
        f.setIndex(cur)
        f.setMinimumIndex()
        if f.getIndex() != inds[0]:
            res = 'FAIL setMinimumIndex'
        f.setMaximumIndex()
        if f.getIndex() != inds[-1]:
            res = 'FAIL setMaximumIndex'
        f.setIndex(cur)
        return res

    # ---- C20 -------------------------------------------------------------------------------------------
    def o_emb(self, he):
        if he not in self.ex.embs:
            raise RuntimeError('no embedding ' + he)
        try:
            return self._emb(he)
        except Exception as x:      # every call below is a public call with valid arguments
            return 'FAIL %s raised by the embedding interface: %s' % (type(x).__name__, x)

    def _emb(self, he):
        real = self.ex.embs[he]
        under = self.ex.objs.get(self.ex.emb_of.get(he))
        if under is not None and real.complex() is not under:
            return 'FAIL complex() is not the complex the embedding was made for'
        for s, n in getattr(real, 'percount', {}).items():
            if n > 1:
                return 'FAIL position of %r computed %d times since the positions were last cleared' % (s, n)
        e = copy.deepcopy(real); c = e.complex()      # reading positions fills the cache: use a copy
        pts = list(c.simplicesOfOrder(0))
        if hasattr(e, 'percount'):
            for s in pts:
                e.positionOf(s); e[s]; e.positionsOf([s])
                if e.percount.get(s, 0) > 1:
                    return 'FAIL position of %r computed %d times by three reads' % (s, e.percount[s])
        if len(e) != len(pts):
            return 'FAIL len(embedding) = %r' % (len(e),)
        for s in c.simplices():
            if (s in e) != (c.orderOf(s) == 0):
                return 'FAIL `in` for %r' % (s,)
        if set(e.positionsOf().keys()) != set(pts):
            return 'FAIL positionsOf() does not cover exactly the points'
        for s in pts:
            if len(e.positionOf(s)) != e.dimension() or len(e[s]) != e.dimension():
                return 'FAIL the position of %r has %d coordinates in an embedding of dimension %d' % (s, len(e.positionOf(s)), e.dimension())
        if hasattr(e, 'percount') and pts:
            e.clearPositions()
            for s in pts:
                e.positionOf(s)
                if e.percount.get(s, 0) != 1:
                    return 'FAIL after clearPositions() the position of %r was computed %d times by one read (cached positions are cleared too)' % (s, e.percount.get(s, 0))
        if len(pts) >= 2 and e.positionOf(pts[0]) is e.positionOf(pts[1]):
            return 'FAIL two points share one position object'
        if e.origin() is e.origin() or (pts and e.positionOf(pts[0]) is e.origin()):
            return 'FAIL origin() hands out a shared list'
        hi = [s for s in c.simplices() if c.orderOf(s) > 0][:2]
        for s in hi:
            try:
                got = e.positionsOf([s] + pts[:1])
                return 'FAIL positionsOf(%r) returned %r for a simplex of order %d instead of raising ValueError' % ([s] + pts[:1], got, c.orderOf(s))
            except ValueError:
                pass
        for s in c.simplices():
            if c.orderOf(s) > 0:
                for assign in (False, True):
                    if assign:
                        e.positionSimplex(s, [0.0] * e.dimension())
                    try:
                        p = e.positionOf(s)
                        return 'FAIL position request for %r of order %d returned %r instead of raising ValueError' % (s, c.orderOf(s), p)
                    except ValueError:
                        pass
                    try:
                        p = e[s]
                        return 'FAIL e[%r] for a simplex of order %d returned %r instead of raising ValueError' % (s, c.orderOf(s), p)
                    except ValueError:
                        pass
                break
        if e.complex() is not c or e.origin() != [0.0] * e.dimension():
            return 'FAIL complex()/origin()'
        if pts:
            sub = pts[:max(1, len(pts) // 2)]
            got = e.positionsOf(sub)
            if set(got.keys()) != set(sub) or any(got[s] != e.positionOf(s) for s in sub):
                return 'FAIL positionsOf(subset)'
        d = e.dimension()
        p = [0.0] * d; q = [3.0] + [4.0] * (1 if d > 1 else 0) + [0.0] * max(0, d - 2)
        want = math.sqrt(sum((a - b) ** 2 for a, b in zip(p, q)))
        if abs(e.distance(p, q) - want) > 1e-12:
            return 'FAIL default distance is not Euclidean'
        return 'ok'

    def o_latticepos(self, he):
        e = copy.deepcopy(self.ex.embs[he]); c = e.complex()
        pos = {}
        for s in c.simplicesOfOrder(0):
            p = tuple(e.positionOf(s))
            if p in pos:
                return 'FAIL lattice points %r and %r share position %r' % (pos[p], s, p)
            pos[p] = s
            if not (0 <= p[0] <= e.width() and 0 <= p[1] <= e.height()):
                return 'FAIL lattice point %r at %r is outside the box' % (s, p)
        return 'ok'

    # ---- small helpers used by several suites -------------------------------------------------------------
    def o_lastok(self, what='the call'):
        """the previous call must have succeeded (it is valid by construction of the script)"""
        if self.last.startswith('err') or self.last == '':
            raise RuntimeError('no call to judge: ' + self.last)      # (a shrunk script that lost its objects)
        return 'ok' if self.last.startswith('ok') else 'FAIL %s failed on a valid input: %s' % (what.replace('_', ' '), self.last)

    def o_rejected(self):
        """the previous request must have raised KeyError or ValueError"""
        return 'ok' if self.last == 'rej' else 'FAIL the invalid request was not rejected with KeyError/ValueError: %s' % self.last

    def o_expect_betti(self, h, spec):
        want = {int(k): int(v) for k, v in (kv.split(':') for kv in spec.split(','))}
        got = dict(B.bettiNumbers(self.C(h)))
        return 'ok' if got == want else 'FAIL Betti numbers %r, closed form %r' % (got, want)

    def o_additive(self, ha, hb, hu, key, dflt):
        k = key_obj(int(key)); dflt = int(dflt)
        I = EulerIntegrator(k, dflt)
        sa, sb, su = set(B.simplices(self.C(ha))), set(B.simplices(self.C(hb))), set(B.simplices(self.C(hu)))
        if sa & sb or su != sa | sb:
            raise RuntimeError('not a disjoint union')        # (a shrunk script that lost its renaming)
        a, b, u = I.integrate(self.C(ha)), I.integrate(self.C(hb)), I.integrate(self.C(hu))
        J = self.ex.integrator(k, dflt)
        if (J.integrate(self.C(hu)), J.integrate(self.C(hb)), J.integrate(self.C(ha))) != (u, b, a):
            return 'FAIL an integrator that has been used before integrates differently from a new one'
        return 'ok' if a + b == u else 'FAIL integral over a disjoint union %r != %r + %r' % (u, a, b)

    def o_vrmono(self, seed, n):
        """monotone in eps, negative radius, radius >= diameter, overridden metrics - on the implementation alone"""
        import random
        rng = random.Random(int(seed))

        class Manhattan(Embedding):
            def distance(self, p, q):
                return float(sum(abs(a - b) for a, b in zip(p, q)))

        class Chebyshev(Embedding):
            def distance(self, p, q):
                return float(max(abs(a - b) for a, b in zip(p, q)))
        for _ in range(int(n)):
            dim = rng.randrange(1, 4); npts = rng.randrange(1, 7)
            cls = rng.choice([Embedding, Manhattan, Chebyshev])
            c = SimplicialComplex()
            names = [rng.choice([i, 'p%d' % i, (i, 0)]) for i in range(npts)]
            for s in names:
                c.addSimplex(id=s)
            e = cls(c, dim)
            for s in names:
                e[s] = [rng.choice([rng.randrange(0, 4), rng.random() * 3]) for _ in range(dim)]
            ds = sorted({e.distance(e[a], e[b]) for a, b in itertools.combinations(names, 2)})
            epss = sorted(set([-0.5, 0.0] + ds + [d / 2 for d in ds] + [(ds[-1] if ds else 0) + 1]))
            prev = None
            for eps in epss:
                vr = e.vietorisRipsComplex(eps)
                fam = famof(vr)
                want = {frozenset([p]) for p in names}
                for r in range(2, npts + 1):
                    for q in itertools.combinations(names, r):
                        if all(e.distance(e[a], e[b]) <= eps for a, b in itertools.combinations(q, 2)):
                            want.add(frozenset(q))
                if fam != frozenset(want):
                    return 'FAIL %s eps=%r positions=%r: family %r' % (cls.__name__, eps, {s: e[s] for s in names}, _short(fam))
                if sorted(map(repr, vr.simplicesOfOrder(0))) != sorted(map(repr, names)) or any(type(x) not in (int, str, tuple) for x in vr.simplicesOfOrder(0)):
                    return 'FAIL Vietoris-Rips point names'
                if prev is not None and not prev <= fam:
                    return 'FAIL family at a smaller eps not contained in the family at eps=%r' % (eps,)
                prev = fam
            if famof(e.vietorisRipsComplex(-1)) != frozenset(frozenset([p]) for p in names):
                return 'FAIL negative radius does not give just the points'
            if npts >= 1 and len(famof(e.vietorisRipsComplex((ds[-1] if ds else 0)))) != 2 ** npts - 1:
                return 'FAIL radius = diameter does not give the full simplex'
        return 'ok'

    def o_relabel_chain_known(self):
        c = SimplicialComplex()
        c.addSimplex(id='a'); c.addSimplex(id='b'); c.addSimplexWithBasis(['a', 'b'], id='ab')
        try:
            c.relabel({'a': 'b', 'b': 'z'})
        except ValueError:
            if c.simplices() == ['a', 'b', 'ab']:
                return 'ok KNOWN KF-C15-chain'
            return 'FAIL rejected chain renaming left the complex changed'
        if c.simplices() == ['b', 'z', 'ab'] and c.faces('ab') == {'b', 'z'}:
            return 'ok'
        return 'FAIL chain renaming gave %r' % (c.simplices(),)

    def o_json_known(self):
        c = SimplicialComplex()
        inner = {'__simplicialcomplex__': True, '__version__': sfile.json_simplicial.json_simplicial_version, 'simplices': []}
        c.addSimplex(id='a', attr={'x': copy.deepcopy(inner)})
        d = json.loads(sfile.as_json(c), object_hook=sfile.as_simplicial_complex)
        if d['a'] == {'x': inner}:
            return 'ok'
        if isinstance(d['a'].get('x'), SimplicialComplex):
            return 'ok KNOWN KF-C17-marker'
        return 'FAIL attribute value came back as %r' % (d['a'],)

    def o_sameobs(self, ha, hb):
        """two complexes are observably identical, including the next generated name"""
        a, b = self.C(ha), self.C(hb)
        if full_state(a) != full_state(b):
            return 'FAIL %s and %s differ' % (ha, hb)
        if self.ex.obs(a) != self.ex.obs(b):
            return 'FAIL %s and %s differ in the next generated name: %s / %s' % (ha, hb, self.ex.obs(a)[-12:], self.ex.obs(b)[-12:])
        return 'ok'

    def o_noalias(self, h):
        """containers returned by queries are not the complex's own state: changing them changes nothing"""
        c = self.C(h)
        before = full_state(c)
        nxt = self.ex.obs(c)
        mo = B.maxOrder(c)
        got = [c.simplices(), c.simplices(reverse=True), c.numberOfSimplicesOfOrder()]
        got += [c.simplicesOfOrder(k) for k in range(-1, mo + 2)]
        for s in list(B.simplices(c)):
            got += [c.faces(s), c.cofaces(s), c.basisOf(s), c.closureOf(s), c.partOf(s)]
        for k in range(0, mo + 2):
            M = c.boundaryOperator(k)
            if M.size and M.flags.writeable:
                got.append(M)
            S = c.smithNormalForm(k)
            if S.size and S.flags.writeable:
                got.append(S)
        z = c.Z(); bt = c.bettiNumbers()
        got += list(z.values()) + [z, bt]
        for g in got:
            try:
                if isinstance(g, list):
                    g.reverse(); g.append('junk'); del g[0:1]
                elif isinstance(g, set):
                    g.clear()
                elif isinstance(g, dict):
                    g.clear()
                elif isinstance(g, numpy.ndarray) and g is not None:
                    pass
            except Exception:
                pass
        try:
            changed = full_state(c) != before or self.ex.obs(c) != nxt
        except Exception as e:
            return 'FAIL after changing containers returned by queries the complex cannot be inspected any more: %r' % (e,)
        if changed:
            return 'FAIL changing a container returned by a query changed the complex'
        return 'ok'


def own_j(n):
    return n[2]


class _Fake:
    """an executor view exposing one object as handle 'x' (for nested oracle calls)"""
    def __init__(self, ex, obj):
        self._ex = ex
        self.objs = {'x': obj}

    def __getattr__(self, k):
        return getattr(self._ex, k)


def _short(x):
    s = repr(x)
    return s if len(s) < 300 else s[:300] + '…'
