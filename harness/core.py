"""Core of the correspondence harness: atom tokens <-> Python names, the executor that runs an op script on the
real library (imported from $VERIF_REPO or /repo), the runner of the compiled Lean model driver, and the
canonicaliser that makes the two output streams comparable."""
import copy, json, math, os, re, subprocess, sys, itertools

REPO = os.environ.get('VERIF_REPO', '/repo')
if REPO not in sys.path:
    sys.path.insert(0, REPO)
VERIF = os.path.dirname(os.path.dirname(os.path.abspath(__file__)))
DRIVER = os.path.join(VERIF, 'lean', '.lake', 'build', 'bin', 'driver')

import simplicial
from simplicial import (SimplicialComplex, Filtration, Embedding, EulerIntegrator, TriangularLattice,
                        TriangularLatticeEmbedding, k_simplex, k_void, k_skeleton, ring)
import simplicial.file as sfile

GEN_RE = re.compile(r'^(0|[1-9][0-9]*)d(0|[1-9][0-9]*)$')
ARROW_RE = re.compile(r'^(.*)->(0|[1-9][0-9]*)d(0|[1-9][0-9]*)$', re.S)

# ---------------------------------------------------------------------------------------------------------
# name pools: token u<n>  <->  a hashable Python object
# ---------------------------------------------------------------------------------------------------------
POOLS = {
    'int':   lambda n: n,
    'str':   lambda n: 'v%d' % n,
    'tuple': lambda n: (n, 'x'),
    'float': lambda n: n + 0.5,
    'neg':   lambda n: -1 - n,
    'mixed': lambda n: [n, 'm%d' % n, (n,), n + 0.25, ('t', n), 's p%d' % n][n % 6],
    'intstr': lambda n: n if n % 2 == 0 else 'v%d' % n,
    'blank': lambda n: ['north  gate %d', ' [%d]  ', '%d ,  x', '{ %d :  y }'][n % 4] % n,      # runs of blanks, brackets
    'twin':  lambda n: (n if n % 2 == 0 else str(n - 1)),      # u0 = 0 and u1 = '0': different names with one str()
    'falsy0': lambda n: ([0, '', ()][n] if n < 3 else n),      # the points u0, u1, u2 are called 0, '' and ()
    'falsy': lambda n: (n + 1 if n < 10 else (['', 0, ()][n - 10] if n < 13 else n)),   # u10, u11, u12 are falsy names
}
POOL_NAMES = ['int', 'str', 'tuple', 'float', 'neg', 'mixed', 'falsy', 'falsy0']


class Names:
    """token <-> object table for one script (one pool)"""
    def __init__(self, pool='int'):
        self.pool = pool
        self.f = POOLS[pool]
        self.rev = {}
        for n in range(0, 1100):
            o = self.f(n)
            self.rev[(type(o), o)] = 'u%d' % n
        self.seen = {}     # str(obj) -> set of tokens whose object has that str()

    def obj(self, tok):
        o = self._obj(tok)
        self.seen.setdefault(str(o), set()).add(tok)
        return o

    def _obj(self, tok):
        if tok[0] == 'u':
            return self.f(int(tok[1:]))
        if tok[0] == 'a':
            d, i = tok[1:].split('.')
            return '%sd%s' % (d, i)
        if tok[0] == 'w':
            k, u, base = tok[1:].split('.', 2)
            return '%s->%sd%s' % (self._obj(base), k, u)
        raise ValueError('bad token ' + tok)

    def tok(self, o):
        """token of an object returned by the library; type-exact, `foreign:` when it is not a known name"""
        key = (type(o), o) if _hashable(o) else None
        if key is not None and key in self.rev:
            t = self.rev[key]
            self.seen.setdefault(str(o), set()).add(t)
            return t
        if type(o) is str:
            m = GEN_RE.match(o)
            if m:
                t = 'a%s.%s' % (m.group(1), m.group(2))
                self.seen.setdefault(o, set()).add(t)
                return t
            m = ARROW_RE.match(o)
            if m:
                cands = self.seen.get(m.group(1), set())
                if len(cands) == 1:
                    t = 'w%s.%s.%s' % (m.group(2), m.group(3), next(iter(cands)))
                    self.seen.setdefault(o, set()).add(t)
                    return t
        return 'foreign:%s:%r' % (type(o).__name__, o)


def _hashable(o):
    try:
        hash(o)
        return True
    except TypeError:
        return False


# ---------------------------------------------------------------------------------------------------------
# attribute dict encoding: model key k <-> 'k<k>', model value v <-> v (int) or VALS[v-1000]
# ---------------------------------------------------------------------------------------------------------
VALS = ['', 'héllo ✓', [1, [2, 3]], {'n': None}, 1.5, True, None, [], {}, 'x' * 40, {'a': [1, {'b': 2}]}, [0.5, 'z'],
        'interval [0,   1]  and  {a:  b}', ['two  blanks', ' [ ', '  '], {'k  k': ' ]  [ '}]


def val_obj(v):
    return copy.deepcopy(VALS[v - 1000]) if v >= 1000 else v


def val_tok(o):
    if type(o) is int:
        return str(o)
    for i, x in enumerate(VALS):
        if type(x) is type(o) and json.dumps(x, sort_keys=True) == json.dumps(o, sort_keys=True):
            return str(1000 + i)
    return 'foreignval:%r' % (o,)


def key_obj(k):
    # non-negative keys are the strings 'k<n>'; negative ones are the integers 0, 1, ... (-1 is the key 0)
    return 'k%d' % k if k >= 0 else -k - 1


def key_tok(o):
    if type(o) is int:
        return str(-o - 1)
    if type(o) is str and re.match(r'^k-?[0-9]+$', o):
        return o[1:]
    return 'foreignkey:%r' % (o,)


def parse_dict(s):
    body = s[1:-1]
    d = {}
    if body:
        for kv in body.split(','):
            k, v = kv.split(':')
            d[key_obj(int(k))] = val_obj(int(v))
    return d


def fmt_dict(d):
    return '{' + ','.join('%s:%s' % (key_tok(k), val_tok(v)) for k, v in d.items()) + '}'


# ---------------------------------------------------------------------------------------------------------
# canonicalisation: sort the elements of every {...}
# ---------------------------------------------------------------------------------------------------------
def split_top(s, sep):
    out, depth, cur = [], 0, []
    for ch in s:
        if ch == sep and depth == 0:
            out.append(''.join(cur)); cur = []
            continue
        if ch in '[{(':
            depth += 1
        elif ch in ']})':
            depth -= 1
        cur.append(ch)
    out.append(''.join(cur))
    return out


def canon(s):
    res, i = [], 0
    while i < len(s):
        ch = s[i]
        if ch == '{':
            depth, j = 1, i + 1
            while depth:
                if s[j] == '{':
                    depth += 1
                elif s[j] == '}':
                    depth -= 1
                j += 1
            body = s[i + 1:j - 1]
            elems = sorted(canon(e) for e in split_top(body, ',')) if body else []
            res.append('{' + ','.join(elems) + '}')
            i = j
        else:
            res.append(ch); i += 1
    return ''.join(res)


# ---------------------------------------------------------------------------------------------------------
# formatting helpers shared by the executor
# ---------------------------------------------------------------------------------------------------------
def fmt_mat(M):
    r, c = M.shape
    rows = []
    for i in range(r):
        row = []
        for j in range(c):
            v = M[i, j]
            row.append('1' if v == 1 else ('0' if v == 0 else '?'))
        rows.append(''.join(row))
    return '%dx%d:%s' % (r, c, '|'.join(rows))


class OpTimeout(BaseException):
    """one library call ran for more than Executor.OP_TIMEOUT seconds"""


class Rej(Exception):
    pass


class NoObject(Exception):
    pass


class _Handles:
    """handle table whose lookup failure is a script error, not a KeyError of the library"""
    def __init__(self, d):
        self.d = d

    def __getitem__(self, h):
        if h not in self.d:
            raise NoObject(h)
        return self.d[h]


class Executor:
    """runs op lines on the real library; one result line per op, in the driver's format"""

    def __init__(self, pool='int'):
        self.reset(pool)

    def reset(self, pool=None):
        self.N = Names(pool or getattr(self, 'pool', 'int'))
        self.pool = self.N.pool
        self.objs = {}      # handle -> complex
        self.order = []     # handles in creation order
        self.dicts = {}     # D<n> -> dict object
        self.dorder = []
        self.embs = {}
        self.reps = {}      # raw representations driven by primitive calls (Layer R)
        self.integrators = {}
        self.raw_deleted = set()
        self.emb_of = {}        # embedding handle -> handle of the complex it was made for
        self.den = 2        # filtration indices are integers over this denominator

    # -- tokens ------------------------------------------------------------------------------------------
    def name(self, t):
        return self.N.obj(t)

    def names(self, s):
        body = s[1:-1]
        return [self.name(t) for t in split_top(body, ',')] if body else []

    def optname(self, t):
        return None if t == '-' else self.name(t)

    def optdict(self, t):
        if t != '-' and t not in self.dicts:
            raise NoObject(t)
        return None if t == '-' else self.dicts[t]

    def ren(self, s):
        body = s[1:-1]
        d = {}
        if body:
            for kv in split_top(body, ','):
                k, v = split_top(kv, ':')
                d[self.name(k)] = self.name(v)
        return d

    def T(self, o):
        return self.N.tok(o)

    def fl(self, l):
        return '[' + ','.join(self.T(x) for x in l) + ']'

    def fs(self, l):
        return '{' + ','.join(self.T(x) for x in l) + '}'

    def idx(self, s):
        v = int(s)
        return v // self.den if v % self.den == 0 else v / self.den

    def idx_tok(self, x):
        v = x * self.den
        if v != int(v):
            return 'foreignidx:%r' % (x,)
        return str(int(v))

    def orders(self, ks):
        """the orders asked for, as a list, a tuple or a one-shot iterator in turn (any iterable of orders will do)"""
        self.kscalls = getattr(self, 'kscalls', 0) + 1
        k = (self.kscalls + len(ks)) % 3
        return iter(ks) if k == 0 else (tuple(ks) if k == 1 else ks)

    def integrator(self, key, dflt):
        if (key, dflt) not in self.integrators:
            self.integrators[(key, dflt)] = EulerIntegrator(key, dflt)
        return self.integrators[(key, dflt)]

    def put(self, h, o):
        if h not in self.objs:
            self.order.append(h)
        self.objs[h] = o

    def runs(self, c, l):
        """consecutive runs of equal order"""
        out, cur, curk = [], None, None
        for s in l:
            k = SimplicialComplex.orderOf(c, s)
            if cur is not None and k == curk:
                cur.append(s)
            else:
                if cur is not None:
                    out.append('%d:%s' % (curk, self.fs(cur)))
                cur, curk = [s], k
        if cur is not None:
            out.append('%d:%s' % (curk, self.fs(cur)))
        return '[' + ','.join(out) + ']'

    # -- execution ---------------------------------------------------------------------------------------
    OP_TIMEOUT = 30      # seconds for one call of the library (the slowest on the unchanged tree takes well under 1 s)

    def run(self, line):
        self.effective = None       # the line to hand to the model when it differs from the script's (see subdiv)
        import signal, threading
        use_alarm = threading.current_thread() is threading.main_thread()
        if use_alarm:
            def _expired(signum, frame):
                raise OpTimeout()
            old = signal.signal(signal.SIGALRM, _expired)
            signal.setitimer(signal.ITIMER_REAL, self.OP_TIMEOUT)
        try:
            return self._run1(line)
        finally:
            if use_alarm:
                signal.setitimer(signal.ITIMER_REAL, 0)
                signal.signal(signal.SIGALRM, old)

    def _run1(self, line):
        try:
            return self._run(line)
        except (KeyError, ValueError):
            return 'rej'
        except Rej:
            return 'rej'
        except NoObject as e:
            return 'err no-object ' + str(e)
        except OpTimeout:
            return 'crash:Timeout'
        except Exception as e:      # anything else is neither KeyError nor ValueError
            return 'crash:' + type(e).__name__

    def _run(self, line):
        t = line.split()
        if not t:
            return ''
        op = t[0]
        h = t[1] if len(t) > 1 else ''
        O = _Handles(self.objs)
        if op == 'reset':
            self.reset(t[1] if len(t) > 1 else None)
            return 'ok -'
        if op == 'new':
            self.put(h, SimplicialComplex()); return 'ok -'
        if op == 'newf':
            self.put(h, Filtration(self.idx(t[2]))); return 'ok -'
        if op == 'dict':
            if h not in self.dicts:
                self.dorder.append(h)
            self.dicts[h] = parse_dict(t[2]); return 'ok -'
        if op == 'add':
            kw = {} if t[4] == '-' else dict(attr=self.optdict(t[4]))      # no attributes: the argument is left out
            return 'ok ' + self.T(O[h].addSimplex(fs=self.names(t[3]), id=self.optname(t[2]), **kw))
        if op == 'addb':
            kw = {} if t[4] == '-' else dict(attr=self.optdict(t[4]))
            return 'ok ' + self.T(O[h].addSimplexWithBasis(self.names(t[3]), id=self.optname(t[2]), **kw))
        if op == 'addfrom':
            r = self.ren(t[3])
            return 'ok ' + self.fl(O[h].addSimplicesFrom(O[t[2]], rename=(r if r else None)))
        if op == 'del':
            O[h].deleteSimplex(self.name(t[2])); return 'ok -'
        if op == 'delitem':
            # the operator form `del c[s]` of the same request
            self.effective = 'del %s %s' % (h, t[2])
            del O[h][self.name(t[2])]; return 'ok -'
        if op == 'delb':
            O[h].deleteSimplexWithBasis(self.names(t[2])); return 'ok -'
        if op == 'dels':
            O[h].deleteSimplices(self.names(t[2])); return 'ok -'
        if op == 'restrict':
            O[h].restrictBasisTo(self.names(t[2])); return 'ok -'
        if op == 'subdiv':
            # the model is told the order in which this interpreter enumerates the basis (a Python set): it is
            # read here, at run time, so that a stored script does not carry an enumeration of another run
            n = self.name(t[2])
            if SimplicialComplex.containsSimplex(O[h], n):
                self.effective = 'subdiv %s %s [%s]' % (h, t[2], ','.join(self.T(x) for x in SimplicialComplex.basisOf(O[h], n)))
            return 'ok ' + self.T(O[h].barycentricSubdivide(n))
        if op == 'relabel':
            m = O[h].relabel(self.ren(t[2]))
            return 'ok {' + ','.join('%s:%s' % (self.T(a), self.T(b)) for a, b in m.items()) + '}'
        if op == 'relabel1':
            O[h].relabelSimplex(self.name(t[2]), self.name(t[3])); return 'ok -'
        if op == 'delsorder':
            O[h].deleteSimplices(O[h].simplicesOfOrder(int(t[2]))); return 'ok -'
        if op == 'relabeldisj':
            m = O[h].relabelDisjointFrom(O[t[2]])
            return 'ok {' + ','.join('%s:%s' % (self.T(a), self.T(b)) for a, b in m.items()) + '}'
        if op == 'setattr':
            s = self.name(t[2])
            if s not in O[h]:
                raise Rej()
            O[h][s] = self.dicts[t[3]]; return 'ok -'
        if op == 'dset':
            O[h][self.name(t[2])][key_obj(int(t[3]))] = val_obj(int(t[4])); return 'ok -'
        if op == 'ddset':
            self.dicts[h][key_obj(int(t[2]))] = val_obj(int(t[3])); return 'ok -'
        if op == 'copy':
            self.put(t[2], O[h].copy()); return 'ok -'
        if op == 'copyinto':
            O[h].copy(O[t[2]]); return 'ok -'
        if op == 'deepcopy':
            self.put(t[2], copy.deepcopy(O[h])); return 'ok -'
        if op in ('compose', 'composeinto'):
            a, b = O[h], O[t[2]]
            tgt = O[t[3]] if op == 'composeinto' else None
            try:
                r = a.compose(b) if tgt is None else a.compose(b, tgt)
            except KeyError:
                return 'rejK'           # the documented rejection is ValueError: reported apart
            if tgt is None:
                self.put(t[3], r)
            return 'ok -'
        if op == 'flag':
            self.put(t[2], O[h].flagComplex()); return 'ok -'
        if op == 'json':
            txt = sfile.as_json(O[h])
            self.last_json = txt
            self.put(t[2], json.loads(txt, object_hook=sfile.as_simplicial_complex)); return 'ok -'
        if op == 'grow':
            O[h].growFlagComplex(self.names(t[2])); return 'ok -'
        if op == 'growb':
            # the new edges are named by their end points (u3+u4): the names they were given are looked up here, so
            # that a stored script does not depend on the names generated in the run that recorded it
            c = O[h]
            es = []
            for pr in (split_top(t[2][1:-1], ',') if t[2] != '[]' else []):
                e = SimplicialComplex.simplexWithBasis(c, [self.name(x) for x in pr.split('+')])
                es.append(self.T(e) if e is not None else 'u999')
            self.effective = 'grow %s [%s]' % (h, ','.join(es))
            ns = self.names('[' + ','.join(es) + ']')
            self.growcalls = getattr(self, 'growcalls', 0) + 1
            # any iterable of simplices will do: every third call hands over a one-shot iterator, another third a tuple
            k = (self.growcalls + len(ns)) % 3
            c.growFlagComplex(iter(ns) if k == 0 else (tuple(ns) if k == 1 else ns)); return 'ok -'
        if op in ('ksimplex', 'kvoid', 'kskel', 'ring'):
            tgt = None if t[2] == 'new' else O[h]
            k = int(t[3])
            if op == 'ksimplex':
                r = k_simplex(k, id=self.optname(t[4]), attr=self.optdict(t[5]), c=tgt)
            elif op == 'kvoid':
                r = k_void(k, c=tgt)
            elif op == 'kskel':
                r = k_skeleton(k, c=tgt)
            else:
                r = ring(k, c=tgt)
            if tgt is None:
                self.put(h, r)          # (with a target the handle keeps naming the complex that was handed over)
            return 'ok -' if (tgt is None or r is tgt) else 'ok other-object'
        if op == 'lattice':
            self.put(h, TriangularLattice(int(t[2]), int(t[3]))); return 'ok -'
        if op == 'setidx':
            O[h].setIndex(self.idx(t[2])); return 'ok -'
        if op == 'next':
            return 'ok ' + self.idx_tok(O[h].setNextIndex())
        if op == 'prev':
            return 'ok ' + self.idx_tok(O[h].setPreviousIndex())
        if op == 'minidx':
            try:
                O[h].setMinimumIndex()
            except IndexError:
                raise Rej()
            return 'ok -'
        if op == 'maxidx':
            try:
                O[h].setMaximumIndex()
            except IndexError:
                raise Rej()
            return 'ok -'
        if op == 'snap':
            self.put(t[2], O[h].snap()); return 'ok -'
        if op == 'fcopy':
            # likewise the order in which copy() will replay the simplices (simplicesAddedAtIndex, index by index)
            f = O[h]
            if isinstance(f, Filtration):
                self.effective = 'fcopy %s %s [%s]' % (h, t[2], ','.join(self.T(x) for i in f.indices() for x in f.simplicesAddedAtIndex(i)))
            self.put(t[2], f.copy()); return 'ok -'
        if op == 'iter':
            out = []
            for c in O[h].complexes():
                out.append('[' + ','.join('%s:%d:%s' % (self.T(s), c.orderOf(s), self.fs(c.faces(s))) for s in c.simplices()) + ']')
            return 'ok [' + ','.join(out) + ']'
        if op == 'emb':
            self.embs[h] = CountingEmbedding(O[t[2]], int(t[3])); self.emb_of[h] = t[2]; return 'ok -'
        if op == 'lemb':
            self.embs[h] = TriangularLatticeEmbedding(O[t[2]], h=float(t[5]), w=float(t[6])); self.emb_of[h] = t[2]; return 'ok -'
        if op == 'pos':
            self.embs[h][self.name(t[2])] = [int(x) for x in split_top(t[3][1:-1], ',')] if t[3] != '[]' else []
            return 'ok -'
        if op == 'posof':
            e = self.embs[h]
            p = e[self.name(t[2])]
            if isinstance(e, TriangularLatticeEmbedding):
                return 'ok [' + ','.join(str(x) if type(x) is int else repr(float(x)) for x in p) + ']'
            return 'ok [' + ','.join(fmt_num(x) for x in p) + '] calls=%d' % e.calls
        if op == 'clearpos':
            self.embs[h].clearPositions(); return 'ok -'
        if op == 'elen':
            return 'ok %d' % len(self.embs[h])
        if op == 'ein':
            return 'ok ' + ('T' if self.name(t[2]) in self.embs[h] else 'F')
        if op == 'eposall':
            return 'ok ' + self.fs(self.embs[h].positionsOf().keys())
        if op == 'vr':
            e = self.embs[h]
            # which pairs of points are within eps is decided by the real distance function and handed to the model
            # (float arithmetic is not modelled); it is read here, at run time, from the points the complex has now
            try:
                P = list(e.complex().simplicesOfOrder(0))
                close = ['%d.%d' % (a, b) for a in range(len(P)) for b in range(a + 1, len(P))
                         if e.distance(e.positionOf(P[a]), e.positionOf(P[b])) <= self.vr_eps]
                self.effective = 'vr %s %s [%s]' % (h, t[2], ','.join(close))
            except Exception:
                pass
            self.put(t[2], e.vietorisRipsComplex(self.vr_eps)); return 'ok -'
        if op == 'rnew':
            self.reps[h] = SimplicialComplex(); return 'ok -'
        if op in ('radd', 'rrel', 'rdel', 'robs'):
            if h not in self.reps:
                raise NoObject(h)
            rep = self.reps[h].representation()
            if op == 'radd':
                return 'ok ' + self.T(rep.addSimplex(self.names(t[3]), self.name(t[2]), dict()))
            if op == 'rrel':
                rep.relabelSimplex(self.name(t[2]), self.name(t[3])); return 'ok -'
            if op == 'rdel':
                n = self.name(t[2])
                if rep.containsSimplex(n) and len(rep.cofaces(n)) > 0:
                    self.raw_deleted.add(h)        # removed from under its cofaces: the structure is no longer closed
                rep.forceDeleteSimplex(n); return 'ok -'
            return 'ok ' + self.robs(rep)
        if op == 'q':
            return self.query(O[h], t[2:])
        if op == 'obs':
            return 'ok ' + self.obs(O[h])
        if op == 'alias':
            return 'ok ' + self.alias()
        raise AssertionError('unknown op ' + op)

    # -- queries -----------------------------------------------------------------------------------------
    def query(self, c, a):
        q = a[0]
        B = lambda x: 'T' if x else 'F'
        if q in ('closure', 'part'):
            s = self.name(a[1]); rev = a[2] == 'T'; ex = a[3] == 'T'
            l = c.closureOf(s, reverse=rev, exclude_self=ex) if q == 'closure' else c.partOf(s, reverse=rev, exclude_self=ex)
            return 'ok ' + self.runs(c, l)
        if q == 'cofaces':
            return 'ok ' + self.fs(c.cofaces(self.name(a[1])))
        if q == 'faces':
            return 'ok ' + self.fs(c.faces(self.name(a[1])))
        if q == 'basis':
            return 'ok ' + self.fs(c.basisOf(self.name(a[1])))
        if q == 'order':
            return 'ok %d' % c.orderOf(self.name(a[1]))
        if q == 'index':
            return 'ok %d' % c.indexOf(self.name(a[1]))
        if q == 'swb':
            r = c.simplexWithBasis(self.names(a[1]))
            return 'ok ' + ('-' if r is None else self.T(r))
        if q == 'swf':
            r = c.simplexWithFaces(self.names(a[1]))
            return 'ok ' + ('-' if r is None else self.T(r))
        if q == 'isbasis':
            return 'ok ' + B(c.isBasis(self.names(a[1])))
        if q == 'disjoint':
            return 'ok ' + B(c.disjoint(self.names(a[1])))
        if q == 'boundary':
            return 'ok ' + self.fs(c.boundary(self.names(a[1])))
        if q == 'bop':
            return 'ok ' + fmt_mat(c.boundaryOperator(int(a[1])))
        if q == 'snf':
            return 'ok ' + fmt_mat(c.smithNormalForm(int(a[1])))
        if q == 'Z':
            z = c.Z() if len(a) < 2 else c.Z(self.orders([int(x) for x in split_top(a[1][1:-1], ',')] if a[1] != '[]' else []))
            self.last_Z = z
            return 'ok {' + ','.join('%d:[%s]' % (k, ','.join(self.fl(ch) for ch in chains)) for k, chains in z.items()) + '}'
        if q == 'betti':
            b = c.bettiNumbers() if len(a) < 2 else c.bettiNumbers(self.orders([int(x) for x in split_top(a[1][1:-1], ',')] if a[1] != '[]' else []))
            return 'ok {' + ','.join('%d:%d' % (k, v) for k, v in b.items()) + '}'
        if q == 'euler':
            return 'ok %d' % c.eulerCharacteristic()
        if q == 'count':
            return 'ok %d' % c.numberOfSimplices()
        if q == 'counts':
            return 'ok [' + ','.join(str(x) for x in c.numberOfSimplicesOfOrder()) + ']'
        if q == 'max':
            return 'ok %d' % c.maxOrder()
        if q == 'simplices':
            return 'ok ' + self.fl(c.simplices(reverse=(len(a) > 1 and a[1] == 'T')))
        if q == 'oforder':
            return 'ok ' + self.fl(c.simplicesOfOrder(int(a[1])))
        if q == 'contains':
            return 'ok ' + B(self.name(a[1]) in c)
        if q == 'attr':
            return 'ok ' + fmt_dict(c[self.name(a[1])])
        if q in ('le', 'lt', 'ge', 'gt', 'eq', 'ne'):
            d = _Handles(self.objs)[a[1]]
            r = {'le': lambda: c <= d, 'lt': lambda: c < d, 'ge': lambda: c >= d, 'gt': lambda: c > d,
                 'eq': lambda: c == d, 'ne': lambda: c != d}[q]()
            return 'ok ' + B(r)
        if q == 'integrate':
            # one integrator object per (attribute, default) for the whole script, as a caller holding one would use it
            return 'ok %d' % self.integrator(key_obj(int(a[1])), int(a[2])).integrate(c)
        if q == 'added':
            try:
                return 'ok ' + self.idx_tok(c.addedAtIndex(self.name(a[1])))
            except (KeyError, ValueError):
                raise
            except Exception:
                raise Rej()
        if q == 'addedat':
            return 'ok ' + self.runs(c, c.simplicesAddedAtIndex(self.idx(a[1])))
        if q == 'indices':
            return 'ok [' + ','.join(self.idx_tok(i) for i in c.indices()) + ']'
        if q == 'getidx':
            return 'ok ' + self.idx_tok(c.getIndex())
        raise AssertionError('unknown query ' + q)

    # -- whole-object observation ------------------------------------------------------------------------
    def obs(self, c):
        base = SimplicialComplex     # observe the stored complex, not the index-scoped view
        rep = c.representation()
        ss = base.simplices(c)
        parts = []
        for s in ss:
            parts.append('%s:%d:%s:%s:%s' % (self.T(s), base.orderOf(c, s), self.fs(base.faces(c, s)),
                                             self.fs(base.basisOf(c, s)), fmt_dict(base.getAttributes(c, s))))
        counts = [len(base.simplicesOfOrder(c, k)) for k in range(base.maxOrder(c) + 1)]
        r2 = copy.copy(rep)
        nxt = r2.newSimplex(0)
        out = 'max=%d counts=[%s] S=[%s] seq=%s' % (base.maxOrder(c), ','.join(map(str, counts)), ';'.join(parts), self.T(nxt))
        if isinstance(c, Filtration):
            out += ' idx=%s keys={%s} births={%s}' % (
                self.idx_tok(c.getIndex()), ','.join(self.idx_tok(i) for i in c.indices()),
                ','.join('%s:%s' % (self.T(s), self.idx_tok(c.addedAtIndex(s))) for s in ss))
        return out

    def robs(self, rep):
        """everything the representation interface shows: per-order listings, boundary operators, basis matrices
        (rebuilt from basisOf), and per simplex faces / cofaces / basis / order / index"""
        mo = rep.maxOrder()
        idx = [list(rep.simplicesOfOrder(k)) for k in range(mo + 1)]
        bops = ['%d:%s' % (k, fmt_mat(rep.boundaryOperator(k))) for k in range(mo + 2)]
        pts = idx[0] if idx else []
        bases = []
        for k in range(mo + 1):
            rows = [''.join('1' if p in rep.basisOf(s) else '0' for s in idx[k]) for p in pts]
            bases.append('%d:%dx%d:%s' % (k, len(pts), len(idx[k]), '|'.join(rows)))
        per = []
        for s in rep.simplices(False):
            per.append('%s:%s:%s:%s:%d:%d' % (self.T(s), self.fs(rep.faces(s)), self.fs(rep.cofaces(s)), self.fs(rep.basisOf(s)),
                                               rep.orderOf(s), rep.indexOf(s)))
        return 'max=%d I=[%s] B=[%s] S=[%s] Q=[%s]' % (mo, ','.join(self.fl(l) for l in idx), ','.join(bops), ','.join(bases), ';'.join(per))

    def alias(self):
        ids = []
        for h in self.order:
            c = self.objs[h]
            ids.append(id(c.representation()))
            for s in SimplicialComplex.simplices(c):
                ids.append(id(SimplicialComplex.getAttributes(c, s)))
        for d in self.dorder:
            ids.append(id(self.dicts[d]))
        canon_ids = {}
        for i in ids:
            canon_ids.setdefault(i, len(canon_ids))
        objs = []
        for h in self.order:
            c = self.objs[h]
            objs.append('%s:%d:[%s]' % (h, canon_ids[id(c.representation())],
                                        ','.join(str(canon_ids[id(SimplicialComplex.getAttributes(c, s))]) for s in SimplicialComplex.simplices(c))))
        ud = ['%s:%d' % (d, canon_ids[id(self.dicts[d])]) for d in self.dorder]
        return 'objs=[%s] D=[%s]' % (';'.join(objs), ';'.join(ud))


def fmt_num(x):
    if isinstance(x, float) and x == int(x):
        return str(int(x))
    return repr(x)


class CountingEmbedding(Embedding):
    """the default embedding with a counter on computePositionOf (observing 'computed once per point')"""
    def __init__(self, c, dim):
        super().__init__(c, dim)
        self.calls = 0
        self.percount = {}      # point -> computations since the positions were last cleared

    def computePositionOf(self, s):
        self.calls += 1
        self.percount[s] = self.percount.get(s, 0) + 1
        return super().computePositionOf(s)

    def clearPositions(self):
        self.percount = {}
        return super().clearPositions()


# ---------------------------------------------------------------------------------------------------------
# the model side
# ---------------------------------------------------------------------------------------------------------
def run_model(lines):
    """run the compiled Lean driver on the op lines; returns one result line per op"""
    p = subprocess.run([DRIVER], input='\n'.join(lines) + '\n', capture_output=True, text=True)
    if p.returncode != 0:
        raise RuntimeError('driver failed: ' + p.stderr[:500])
    out = p.stdout.split('\n')
    if out and out[-1] == '':
        out.pop()
    if len(out) != len(lines):
        raise RuntimeError('driver returned %d lines for %d ops' % (len(out), len(lines)))
    return out


def run_impl(lines, pool='int', ex=None):
    ex = ex or Executor(pool)
    return [ex.run(l) for l in lines]
