import Sx.Model
import Sx.Proofs
import Sx.Props
