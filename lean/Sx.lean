import Sx.Model
import Sx.Proofs
