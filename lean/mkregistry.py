#!/usr/bin/env python3
"""writes props.json: for every property the Lean modules and theorem names audited by ./check"""
import json
P='Sx.Proofs.'; Q='Sx.Props.'
reg={
 'C01': ([P+m for m in ['FlatAdd','FlatInv','FlatFresh','FlatBasis8','FlatDelete2','FlatRestrict2','FlatSubdiv','FlatRelabel','FlatClosed','FlatDelete']]+[Q+'Relabel',Q+'Copy'],
   ['Flat.addSimplex_ok_inv','Flat.Inv.faces_are_facets','Flat.newSimplex_fresh','Flat.addSimplexWithBasis_spec','Flat.deleteSimplex_spec','Flat.restrict_spec','Flat.subdivide_spec','Flat.Inv.map','Flat.relabelSimplex_inv','Flat.Inv.filter_upclosed','Flat.foldl_forceDelete','Flat.Inv.subset_simplex',
    'Flat.relabel_spec','Flat.relabelDisjointFrom_spec','Flat.copyNew_spec']),
 'C02': ([P+m for m in ['FlatBasis7','FlatBasis8','FlatDelete2','FlatRestrict','FlatRestrict2','FlatSubdiv']],
   ['Flat.addWB_spec','Flat.addSimplexWithBasis_spec','Flat.deleteSimplex_spec','Flat.restrictRetain_spec','Flat.restrict_spec','Flat.coneLoop_spec','Flat.subdivide_spec']),
 'C03': ([P+m for m in ['MatDecode','BdBd','FlatStar']]+[Q+'Views'],
   ['M2.decode_appendCol_old','M2.decode_appendCol_new','M2.decode_appendZeroRow','M2.decode_deleteCol','M2.decode_deleteRow','Flat.bd_bd_even','Flat.mem_cofaces',
    'Flat.cofaces_inverse','Flat.basis_is_closure_points','Flat.bopMat_shape','Flat.bopMat_entry','Flat.bop_bop_zero','Flat.boundary_single','Flat.boundary_mod2','Flat.boundary_boundary_empty']),
 'C04': ([P+m for m in ['FlatClosure','FlatStar','FlatBasis4','FlagAdd','Disjoint']]+[Q+'Views'],
   ['Flat.closureOf_spec','Flat.partOfAux_spec','Flat.simplexWithBasis_spec','Flat.simplexWithFaces_some','Flat.simplexWithFaces_none','Disj.disjointL_iff',
    'Flat.closure_card','Flat.partOf_spec','Flat.closure_part_dual','Flat.disjointQ_spec','Flat.disjointQ_spec_pts','Flat.query_names_mem']),
 'C05': ([Q+'C05'],['Flat.addS_atomic','Flat.addSimplex_rejects','Flat.addS_rejects_state',"Flat.addSimplexWithBasis'_guards","Flat.addSimplexWithBasis'_atomic",'Flat.relabel_atomic','Flat.relabel_rejects','Flat.copyInto_overlap','Flat.deleteSimplex_unknown','Flat.restrict_nonbasis','Flat.subdivide_rejects']),
 'C06': ([P+m for m in ['RankBridge','MatProofs','Betti','Rank']],['M2.snf_rank','M2.snf_shape','M2.snf_counts','M2.euler_poincare','rank_rowop','rank_colop','rank_swap','rank_partialId']),
 'C07': ([P+m for m in ['LabelsBridge','Labels','Labels2','RankBridge']],['M2.Z_core','M2.snf_rank','KerEq.rowop','KerEq.colpass','KerEq.colswap','KerEq.zero_col','cols_independent']),
 'C08': ([P+'Heap'],['Heap.mutate_frame','Heap.dictSet_frame','Heap.copyCx_fresh']),
 'C09': ([P+'Heap',Q+'Copy'],['Heap.copyCx_fresh','Heap.copy_independent','Heap.copy_dict_independent','Flat.copyNew_spec','Flat.copyNew_perm']),
 'C10': ([P+'FlatCmp',Q+'Copy'],['Flat.isSub_iff',"Flat.le_refl'","Flat.le_trans'",'Flat.le_antisymm_eq','Flat.eq_iff','Flat.lt_iff','Flat.copy_eq','Flat.copy_le_not_lt','Flat.delete_lt','Flat.eq_symm','Flat.top_differs_ne']),
 'C11': ([P+m for m in ['FlagMain','FlagGrow','FlagClique','FlagClosed','FlagClosed2','Cycle']],['Flat.flagComplex_spec','Flat.growLoop_spec','Flat.same_graph_same_family','Flat.complete_is_clique','Flat.closed_facets','Flat.facets_closed','cycle_lemma']),
 'C12': ([P+'FlagMain'],['Flat.flagComplex_spec']),
 'C13': ([P+'FiltCore'],['Flat.visible_inv','Flat.visible_mono']),
 'C14': ([P+'FiltQuery'],['Flat.fContains_iff','Flat.fSimplices_eq','Flat.fCount_order','Flat.nextIndex_spec']),
 'C15': ([P+'FlatRelabel',Q+'Relabel'],['Flat.Inv.map','Flat.relabelSimplex_inv','Flat.fold_relabel_eq_map','Flat.relabel_spec','Flat.relabel_spec_pos','Flat.relabel_ok_iff','Flat.relabel_rejected','Flat.relabel_chain_rejected','Flat.freshArrow_fuel','Flat.disjointRenaming_spec','Flat.relabelDisjointFrom_spec']),
 'C16': ([P+'Compose',P+'Compose2',Q+'Copy'],['Flat.compose_union','Flat.compose_ok_iff','Flat.composeNew_eq','Flat.composeNew_spec']),
 'C17': ([P+'Compose',Q+'Copy'],['Flat.compose_union','Flat.copyNew_spec','Flat.copy_eq']),
 'C18': ([P+'FlatCount'],['Flat.full_simplex_counts','Flat.addWB_full']),
 'C19': ([P+'Integrate',P+'Betti',P+'FlatRestrict2',Q+'Euler'],['sum_levels','M2.euler_poincare','Flat.restrict_spec','Flat.euler_def','Flat.levelSet_spec','Flat.levelSet_nested','Flat.integrate_levels','Flat.integrate_minsum','Flat.integrate_points','Flat.integrate_additive']),
 'C20': ([P+'Embedding',P+'Lattice'],['Emb.assigned_wins','Emb.computed_once','Emb.wrong_dim_rejected','Emb.higher_order_rejected','Emb.clear_recomputes','Lattice.lattice_injective','Lattice.lattice_in_box']),
}
json.dump({k:dict(modules=v[0],theorems=v[1]) for k,v in reg.items()}, open('props.json','w'), indent=1)
