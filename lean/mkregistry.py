#!/usr/bin/env python3
"""writes props.json: for every property the Lean modules and theorem names audited by ./check"""
import json
def P(*ms): return ['Sx.Proofs.' + m for m in ms]
def Q(*ms): return ['Sx.Props.' + m for m in ms]
reg = {
 'C01': (P('FlatAdd','FlatInv','FlatFresh','FlatBasis8','FlatDelete2','FlatRestrict2','FlatSubdiv','FlatRelabel','FlatClosed','FlatDelete') + Q('Relabel','Copy','Generators','AddFrom','C01'),
   ['Flat.addSimplex_ok_inv','Flat.Inv.faces_are_facets','Flat.newSimplex_fresh','Flat.addSimplexWithBasis_spec','Flat.deleteSimplex_spec','Flat.restrict_spec','Flat.subdivide_spec','Flat.Inv.map','Flat.relabelSimplex_inv','Flat.Inv.filter_upclosed','Flat.foldl_forceDelete','Flat.Inv.subset_simplex',
    'Flat.relabel_spec','Flat.relabelDisjointFrom_spec','Flat.copyNew_spec','Flat.genPoints_spec','Flat.addFrom_inv',
    'Flat.C01.step_inv','Flat.C01.run_inv','Flat.C01.reachable_inv','Flat.C01.reachable_inv_prefix','Flat.C01.maxOrder_spec','Flat.C01.names_nodup','Flat.C01.sorted_by_order','Flat.C01.perOrder_partition','Flat.C01.checkInv_iff','Flat.C01.reachable_checkInv']),
 'C02': (P('FlatBasis7','FlatBasis8','FlatDelete2','FlatRestrict','FlatRestrict2','FlatSubdiv') + Q('AddFrom'),
   ['Flat.addWB_spec','Flat.addSimplexWithBasis_spec','Flat.deleteSimplex_spec','Flat.restrictRetain_spec','Flat.restrict_spec','Flat.coneLoop_spec','Flat.subdivide_spec','Flat.addFrom_spec','Flat.addFrom_spec_perm','Flat.addFrom_prefix','Flat.addFrom_reject']),
 'C03': (P('MatDecode','BdBd','FlatStar') + Q('Views','Homology'),
   ['M2.decode_appendCol_old','M2.decode_appendCol_new','M2.decode_appendZeroRow','M2.decode_deleteCol','M2.decode_deleteRow','Flat.bd_bd_even','Flat.mem_cofaces',
    'Flat.cofaces_inverse','Flat.basis_is_closure_points','Flat.bopMat_shape','Flat.bopMat_entry','Flat.bopMat_zero','Flat.bop_bop_zero','Flat.boundary_single','Flat.boundary_mod2','Flat.boundary_boundary_empty']),
 'C04': (P('FlatClosure','FlatStar','FlatBasis4','FlagAdd','Disjoint') + Q('Views'),
   ['Flat.closureOf_spec','Flat.partOfAux_spec','Flat.simplexWithBasis_spec','Flat.simplexWithFaces_some','Flat.simplexWithFaces_none','Disj.disjointL_iff',
    'Flat.closure_card','Flat.partOf_spec','Flat.closure_part_dual','Flat.disjointQ_spec','Flat.disjointQ_spec_pts','Flat.query_names_mem']),
 'C05': (Q('C05'), ['Flat.addS_atomic','Flat.addSimplex_rejects','Flat.addS_rejects_state',"Flat.addSimplexWithBasis'_guards","Flat.addSimplexWithBasis'_atomic",'Flat.relabel_atomic','Flat.relabel_rejects','Flat.copyInto_overlap','Flat.deleteSimplex_unknown','Flat.restrict_nonbasis','Flat.subdivide_rejects']),
 'C06': (P('RankBridge','MatProofs','Betti','Rank') + Q('Homology','BettiFam'),
   ['M2.snf_rank','M2.snf_shape','M2.snf_counts','M2.euler_poincare','rank_rowop','rank_colop','rank_swap','rank_partialId',
    'Flat.bettiK_spec','Flat.bettiK_spec_inv','Flat.bettiK_above_max','Flat.euler_poincare_cx','Flat.bopMat_relabel_invariant','Flat.betti_relabel_invariant','Flat.snfK_spec',
    'Flat.betti_fam_invariant','Flat.betti0_components','Flat.betti0_le_points','Flat.betti0_no_edges','M2.incidence_rank']),
 'C07': (P('LabelsBridge','Labels','Labels2','RankBridge') + Q('Homology'),
   ['M2.Z_core','M2.snf_rank','KerEq.rowop','KerEq.colpass','KerEq.colswap','KerEq.zero_col','cols_independent',
    'Flat.snfK_spec','Flat.snfK_eq_mk','Flat.Zk_names','Flat.Zk_length','Flat.Zk_empty','Flat.Zk_cycle_even','Flat.Zk_boundary','Flat.Zk_independent','Flat.Zk_linearIndependent','Flat.Zk_spec']),
 'C08': (Q('Heap'), ['W.copyOp_fresh','W.deepcopyOp_fresh','W.flagOp_fresh','W.jsonOp_fresh','W.snapOp_fresh','W.composeOp_fresh','W.composeOp_atomic','W.mutator_frame','W.dictSetOp_frame']),
 'C09': (Q('Heap','Copy'), ['W.copyOp_fresh',"W.copyOp_fresh'",'W.copyOp_contents','W.deepcopyOp_contents','W.mutator_frame','W.independent_step','W.independent_list','W.independent','W.independent_obs','W.FreshSpec.independent','W.sync_inv','Flat.copyNew_spec','Flat.copyNew_perm']),
 'C10': (P('FlatCmp') + Q('Copy'), ['Flat.isSub_iff',"Flat.le_refl'","Flat.le_trans'",'Flat.le_antisymm_eq','Flat.eq_iff','Flat.lt_iff','Flat.copy_eq','Flat.copy_le_not_lt','Flat.delete_lt','Flat.eq_symm','Flat.top_differs_ne']),
 'C11': (P('FlagMain','FlagGrow','FlagClique','FlagClosed','FlagClosed2','Cycle') + Q('VR','Flag'),
   ['Flat.flagComplex_spec','Flat.growLoop_spec','Flat.same_graph_same_family','Flat.complete_is_clique','Flat.closed_facets','Flat.facets_closed','cycle_lemma','Flat.copyNew_fact',
    'Flat.flagOf_spec','Flat.flagOf_idem','Flat.flagOf_of_complete','Flat.growFlagQ_complete','Flat.addEdges_spec','Flat.growFlagQ_spec','Flat.growFlagQ_unknown','Flat.growFlagQ_nil']),
 'C12': (P('FlagMain') + Q('VR'), ['Flat.flagComplex_spec','Flat.vietorisRips_spec','Flat.vr_mono','Flat.vr_none','Flat.vr_all']),
 'C13': (P('FiltCore') + Q('Filtration'), ['Flat.visible_inv','Flat.visible_mono','Flat.newFS_FInv','Flat.setIndex_FInv','Flat.addByFaces_FInv','Flat.addByFaces_FInv_contract','Flat.addByBasis_FInv','Flat.delete_FInv','Flat.visibleC_spec','Flat.indices_sorted','Flat.iterate_restores','Flat.FInv_iff_check']),
 'C14': (P('FiltQuery') + Q('Filtration'), ['Flat.fContains_iff','Flat.fSimplices_eq','Flat.fCount_order','Flat.nextIndex_spec','Flat.simplices_eq','Flat.visible_eq_contains','Flat.visible_same','Flat.count_eq','Flat.counts_eq','Flat.euler_eq','Flat.next_spec','Flat.prev_spec','Flat.next_not_key','Flat.toMin_spec','Flat.toMax_spec','Flat.maxOrder_not_scoped']),
 'C15': (P('FlatRelabel') + Q('Relabel','AddFrom','Homology'), ['Flat.Inv.map','Flat.relabelSimplex_inv','Flat.fold_relabel_eq_map','Flat.relabel_spec','Flat.relabel_spec_pos','Flat.relabel_ok_iff','Flat.relabel_rejected','Flat.relabel_chain_rejected','Flat.freshArrow_fuel','Flat.disjointRenaming_spec','Flat.relabelDisjointFrom_spec','Flat.addFrom_spec','Flat.betti_relabel_invariant']),
 'C16': (P('Compose','Compose2') + Q('Copy'), ['Flat.compose_union','Flat.compose_ok_iff','Flat.composeNew_eq','Flat.composeNew_spec']),
 'C17': (P('Compose') + Q('Copy','Json'), ['Flat.compose_union','Flat.copyNew_spec','Flat.copy_eq','Flat.decode_encode_eq_copy','Flat.decode_encode','Flat.decode_encode_perm','Flat.encode_names','Flat.encode_faces_before','Flat.addSimplex_perm','Flat.decode_any_face_order','Flat.decode_encode_any_order']),
 'C18': (P('FlatCount') + Q('Generators','BettiFam','GenBettiA','GenBettiB','GenBettiC','GenBettiD','GenBettiE','GenBettiF','GenBettiG'), ['Flat.full_simplex_counts','Flat.addWB_full','Flat.genPoints_spec','Flat.kSimplex_spec','Flat.kSimplex_counts','Flat.kVoid_spec','Flat.kVoid_counts','Flat.kSkeleton_spec','Flat.kSkeleton_counts','Flat.ring_spec',"Flat.ring_counts'",'Flat.ring_small','Flat.betti_fam_invariant'] + ['Flat.GenBetti.kSimplex_betti_0', 'Flat.GenBetti.kSimplex_betti_1', 'Flat.GenBetti.kSimplex_betti_2', 'Flat.GenBetti.kSimplex_betti_3', 'Flat.GenBetti.kSimplex_betti_4', 'Flat.GenBetti.kVoid_betti_0', 'Flat.GenBetti.kVoid_betti_1', 'Flat.GenBetti.kVoid_betti_2', 'Flat.GenBetti.kVoid_betti_3', 'Flat.GenBetti.kSimplex_betti_5', 'Flat.GenBetti.kVoid_betti_4', 'Flat.GenBetti.ring_betti_3', 'Flat.GenBetti.ring_betti_4', 'Flat.GenBetti.ring_betti_5', 'Flat.GenBetti.ring_betti_6', 'Flat.GenBetti.ring_betti_7', 'Flat.GenBetti.ring_betti_8', 'Flat.GenBetti.ring_betti_9', 'Flat.GenBetti.ring_betti_10', 'Flat.GenBetti.ring_betti_11', 'Flat.GenBetti.ring_betti_12', 'Flat.GenBetti.lattice_betti_2_1', 'Flat.GenBetti.lattice_betti_2_2', 'Flat.GenBetti.lattice_betti_2_3', 'Flat.GenBetti.lattice_betti_2_4', 'Flat.GenBetti.lattice_betti_3_1', 'Flat.GenBetti.lattice_betti_3_2', 'Flat.GenBetti.lattice_betti_3_3', 'Flat.GenBetti.lattice_betti_3_4', 'Flat.GenBetti.lattice_betti_4_1', 'Flat.GenBetti.lattice_betti_4_2']),
 'C19': (P('Integrate','Betti','FlatRestrict2') + Q('Euler'), ['sum_levels','M2.euler_poincare','Flat.restrict_spec','Flat.euler_def','Flat.levelSet_spec','Flat.levelSet_nested','Flat.integrate_levels','Flat.integrate_minsum','Flat.integrate_points','Flat.integrate_additive']),
 'C20': (P('Embedding','Lattice') + Q('LatticeEmb'), ['Lat.pRat_eq','Lat.latticePos_eq','Lat.latticeXY_eq','Lat.reduce_val','Lat.latticeXY_injective','Lat.latticePos_injective','Lat.latticeXY_in_box','Emb.assigned_wins','Emb.computed_once','Emb.wrong_dim_rejected','Emb.higher_order_rejected','Emb.clear_recomputes','Lattice.lattice_injective','Lattice.lattice_in_box']),
}
json.dump({k: dict(modules=v[0], theorems=v[1]) for k, v in reg.items()}, open('props.json', 'w'), indent=1)
