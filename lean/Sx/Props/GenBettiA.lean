import Sx.Props.GenBetti

/-! finite Betti tables, part A (see GenBetti.lean) -/
namespace Flat.GenBetti
open Flat
set_option maxRecDepth 100000

theorem kSimplex_betti_0 : (List.range 2).map (bettiK (ks 0)) = [1,0] := by decide +kernel
theorem kSimplex_betti_1 : (List.range 3).map (bettiK (ks 1)) = [1,0,0] := by decide +kernel
theorem kSimplex_betti_2 : (List.range 4).map (bettiK (ks 2)) = [1,0,0,0] := by decide +kernel
theorem kSimplex_betti_3 : (List.range 5).map (bettiK (ks 3)) = [1,0,0,0,0] := by decide +kernel
theorem kSimplex_betti_4 : (List.range 6).map (bettiK (ks 4)) = [1,0,0,0,0,0] := by decide +kernel
theorem kVoid_betti_0 : (List.range 2).map (bettiK (kv 0)) = [2,0] := by decide +kernel
theorem kVoid_betti_1 : (List.range 3).map (bettiK (kv 1)) = [1,1,0] := by decide +kernel
theorem kVoid_betti_2 : (List.range 4).map (bettiK (kv 2)) = [1,0,1,0] := by decide +kernel
theorem kVoid_betti_3 : (List.range 5).map (bettiK (kv 3)) = [1,0,0,1,0] := by decide +kernel

end Flat.GenBetti
