import Sx.Props.MatRep8
import Mathlib.Data.List.Nodup

/-! # C03 — the matrix layer ("Layer R") refines the name-list layer ("Layer A")

Model file: `Sx/Model/MatRep.lean` (`MatRep.Rep` = the state of `ReferenceRepresentation`: `_indices`,
`_boundaries`, `_bases`, `_sequence`; its three mutators `Rep.addSimplex`, `Rep.relabelSimplex`,
`Rep.forceDeleteSimplex`; the queries; and the abstraction `abs : Rep → C`).  The proofs are in
`Sx/Props/MatRep0.lean … MatRep8.lean`; this file states the results under the names of the task, defines the
histories, and gives the worked examples.

Two invariants are used.

* `MInv r` — the *shape* invariant asked for in the task: the three per-order lists have the same length;
  every matrix has the shape dictated by the index lists (and its entry lists have that shape); names are
  pairwise distinct across all orders.  It is preserved by all three mutators unconditionally, and it is all
  that the refinement of `forceDeleteSimplex`, `relabelSimplex`, of every name-valued query, and of the
  *acceptance and resulting state* of `addSimplex` needs.
* `TopNE r` — the top order is inhabited, equivalently `(abs r).maxOrder = r.maxOrder`.  The *error kind*
  of a rejected `addSimplex` and the value of `boundaryOperator k` at the top order depend on `_maxOrder`,
  and raw `forceDeleteSimplex` can leave `_maxOrder` pointing at an empty order (delete all the faces of a
  simplex, then the simplex).  In such a state the Python raises `KeyError` where Layer A raises
  `ValueError`, and returns an `n×0` matrix where Layer A returns the `0×0` one: see
  `add_refines_needs_TopNE` and `boundaryOperator_refines_needs_TopNE` below.  So these two statements carry
  the extra hypothesis.  `TopNE` follows from `Proper r` (no empty order; every boundary column has a one),
  which is preserved by `addSimplex`, `relabelSimplex`, and by `forceDeleteSimplex` *of a simplex without
  cofaces* — the only way the library calls it (`deleteSimplex` deletes `partOf(s)` from the top order down).
-/
namespace MatRep
open Flat M2

/-! ## the invariant, in list form -/

theorem idx_eq_getElem (r : Rep) {k : Nat} (hk : k < r.indices.length) : r.idx k = r.indices[k] := by
  unfold Rep.idx; rw [List.getD_eq_getElem?_getD, List.getElem?_eq_getElem hk]; rfl

/-- the distinctness clause of `MInv` says that the listing of all simplices has no repetition -/
theorem simplices_nodup {r : Rep} (hI : MInv r) : r.simplices.Nodup := by
  unfold Rep.simplices
  rw [List.nodup_flatten]
  constructor
  · intro l hl
    obtain ⟨k, hk, rfl⟩ := List.mem_iff_getElem.mp hl
    rw [← idx_eq_getElem r hk, List.nodup_iff_getElem?_ne_getElem?]
    intro i j hij hj h
    have hj' : (r.idx k)[j]? = some (r.idx k)[j] := List.getElem?_eq_getElem hj
    rw [hj'] at h
    have := (hI.uniq _ _ _ _ _ h hj').2
    omega
  · rw [List.pairwise_iff_getElem]
    intro k k' hk hk' hlt x hx hx'
    rw [← idx_eq_getElem r hk] at hx
    rw [← idx_eq_getElem r hk'] at hx'
    obtain ⟨i, hi⟩ := List.getElem?_of_mem hx
    obtain ⟨i', hi'⟩ := List.getElem?_of_mem hx'
    have := (hI.uniq _ _ _ _ _ hi hi').1
    omega

/-! ## (3) `forceDeleteSimplex` -/

/-- **(3)** `forceDeleteSimplex` refines Layer A's `forceDelete` and preserves the invariant.
(The hypothesis "`s` is a name of `r`" of the task is not needed: an unknown name changes neither layer.) -/
theorem forceDelete_refines {r : Rep} (hI : MInv r) (s : Name) :
    abs (r.forceDeleteSimplex s) = (abs r).forceDelete s ∧ MInv (r.forceDeleteSimplex s) :=
  ⟨forceDelete_abs hI s, forceDelete_MInv hI s⟩

/-! ## (4) queries -/

/-- **(4)** every query of Layer R is the Layer-A query on `abs r`: `faces`, `basisOf`, `cofaces`, `orderOf`,
`containsSimplex`, and `indexOf` = the position in the listing of the simplex's order. -/
theorem queries_refine {r : Rep} (hI : MInv r) (s : Name) :
    r.faces s = (abs r).facesOf s ∧
    r.basisOf s = (abs r).basisOf s ∧
    r.cofaces s = (abs r).cofaces s ∧
    r.orderOf? s = (abs r).orderOf? s ∧
    r.contains s = (abs r).contains s ∧
    r.indexOf? s = ((abs r).orderOf? s).bind (fun k => (((abs r).ofOrder k).map (·.name)).idxOf? s) :=
  ⟨(facesOf_abs hI s).symm, (basisOf_abs hI s).symm, (cofaces_abs hI s).symm, (orderOf_abs hI s).symm,
   (contains_abs hI s).symm, indexOf_abs hI s⟩

/-- the listing of an order and of the whole complex -/
theorem listing_refines (r : Rep) (k : Nat) :
    r.simplicesOfOrder k = ((abs r).ofOrder k).map (·.name) ∧
    r.simplices = (abs r).simps.map (·.name) := by
  constructor
  · rw [ofOrder_abs, level_names]
    unfold Rep.simplicesOfOrder
    split_ifs with h
    · rfl
    · rw [idx_oob r (by unfold Rep.maxOrder at h; unfold Rep.len; omega)]
  · unfold abs Rep.simplices
    simp only
    rw [List.map_flatMap]
    have h1 : (List.range r.len).flatMap (fun k => (r.level k).map (·.name)) =
        (List.range r.len).flatMap r.idx := by
      apply List.flatMap_congr; intro k _; exact level_names r k
    rw [h1]
    -- `indices` is the list of its own entries
    have h2 : r.indices = (List.range r.len).map r.idx := by
      apply List.ext_getElem?
      intro j
      unfold Rep.len Rep.idx
      rw [List.getElem?_map]
      by_cases hj : j < r.indices.length
      · rw [List.getElem?_range hj, List.getElem?_eq_getElem hj]
        simp [List.getD_eq_getElem?_getD, List.getElem?_eq_getElem hj]
      · rw [List.getElem?_eq_none_iff.mpr (by omega),
          List.getElem?_eq_none_iff.mpr (by rw [List.length_range]; omega)]; rfl
    conv_lhs => rw [h2]
    rw [List.flatten_eq_flatMap, List.flatMap_map]
    rfl

/-- **(4) `boundaryOperator_refines`**: the stored matrix IS the face relation — `boundaryOperator k` equals,
as a matrix (shape and every entry), the matrix `bopMat (abs r) k` that Layer A computes from the face lists
(`bopMat_entry`: entry `(i, j)` is set exactly when the `i`-th simplex of order `k-1` is a face of the `j`-th of
order `k`).  Needs the top order to be inhabited: see `boundaryOperator_refines_needs_TopNE`. -/
theorem boundaryOperator_refines {r : Rep} (hI : MInv r) (hT : TopNE r) (k : Nat) :
    r.boundaryOperator k = bopMat (abs r) k := boundaryOperator_abs hI hT k

/-- entrywise reading of the same: row `i` / column `j` of `boundaryOperator k` (`1 ≤ k ≤ maxOrder`) is set
exactly when the `i`-th name of order `k-1` is among the faces of the `j`-th name of order `k`. -/
theorem boundaryOperator_entry {r : Rep} (hI : MInv r) {k : Nat} (hk : 1 ≤ k) (hmax : (k : Int) ≤ r.maxOrder)
    {i j : Nat} {f t : Name} (hf : (r.idx (k - 1))[i]? = some f) (ht : (r.idx k)[j]? = some t) :
    (r.boundaryOperator k).get i j = true ↔ f ∈ r.faces t := by
  unfold Rep.boundaryOperator Rep.faces
  rw [if_neg (by omega), if_neg (by omega), find?_of_get hI ht]
  simp only
  unfold Rep.facesAt
  rw [if_neg (by omega), ← List.contains_iff_mem, contains_decode hI hf]

/-- shape of `boundaryOperator k`: `1 × n₀`; `0 × 0` above the maximum order; else `n_{k-1} × n_k` -/
theorem boundaryOperator_shape {r : Rep} (hI : MInv r) (k : Nat) :
    (k = 0 → (r.boundaryOperator k).m = 1 ∧ (r.boundaryOperator k).n = (r.simplicesOfOrder 0).length) ∧
    (k ≠ 0 → (k : Int) > r.maxOrder → (r.boundaryOperator k).m = 0 ∧ (r.boundaryOperator k).n = 0) ∧
    (k ≠ 0 → (k : Int) ≤ r.maxOrder → (r.boundaryOperator k).m = (r.simplicesOfOrder (k - 1)).length ∧
      (r.boundaryOperator k).n = (r.simplicesOfOrder k).length) := by
  unfold Rep.boundaryOperator
  refine ⟨?_, ?_, ?_⟩
  · rintro rfl; exact ⟨rfl, rfl⟩
  · intro h0 h; rw [if_neg h0, if_pos h]; exact ⟨rfl, rfl⟩
  · intro h0 h
    rw [if_neg h0, if_neg (by omega)]
    unfold Rep.simplicesOfOrder
    rw [if_pos h, if_pos (by omega)]
    exact hI.bdShape k (by omega) (by unfold Rep.maxOrder at h; unfold Rep.len; omega)

/-! ## (1) `addSimplex` -/

/-- **(1) `add_refines`**: the same error or the same resulting Layer-A state, and `MInv` (and `TopNE`) are
preserved on success.  This is why Layer A stores faces and basis in listing order (`canonFaces`,
`canonBasis`): they are what decoding the new matrix columns yields.

Statement of the task: `MInv r → (r.addSimplex fs id).map abs = (abs r).addSimplex fs id`.  With `MInv` the
shape invariant that raw `forceDeleteSimplex` preserves, that statement is *false* (`add_refines_needs_TopNE`);
the hypothesis `TopNE r` is exactly what is missing, and `add_refines_ok` is what holds without it. -/
theorem add_refines {r : Rep} (hI : MInv r) (hT : TopNE r) (fs : List Name) (id : Name) :
    (r.addSimplex fs id).map abs = (abs r).addSimplex fs id ∧
    (∀ r', r.addSimplex fs id = .ok r' → MInv r' ∧ TopNE r') :=
  ⟨addSimplex_abs hI (maxOrder_abs hT) fs id,
   fun _ h => ⟨addSimplex_MInv hI h, addSimplex_TopNE hI hT h⟩⟩

/-- **(1′) `add_refines_ok`**, under `MInv` alone: accepted by one layer iff accepted by the other, with
corresponding resulting states; `MInv` is preserved.  (Only the error *kind* is not covered.) -/
theorem add_refines_ok {r : Rep} (hI : MInv r) (fs : List Name) (id : Name) :
    (r.addSimplex fs id).toOption.map abs = ((abs r).addSimplex fs id).toOption ∧
    (∀ r', r.addSimplex fs id = .ok r' → MInv r') :=
  ⟨addSimplex_abs_ok hI fs id, fun _ h => addSimplex_MInv hI h⟩

/-! ## (2) `relabelSimplex` -/

/-- **(2) `relabel_refines`**: rejected together (`Cx.relabelSimplex` returns `none` for both the ValueError
"`q` in use" and the KeyError "`s` unknown"; `Rep.relabelSimplex` distinguishes them), accepted together with
corresponding states; `MInv` and `TopNE` are preserved. -/
theorem relabel_refines {r : Rep} (hI : MInv r) (s q : Name) :
    (r.relabelSimplex s q).toOption.map abs = (abs r).relabelSimplex s q ∧
    (∀ r', r.relabelSimplex s q = .ok r' → MInv r' ∧ (TopNE r → TopNE r')) :=
  ⟨relabelSimplex_abs hI s q, fun _ h => ⟨relabelSimplex_MInv hI h, fun hT => relabelSimplex_TopNE hI hT h⟩⟩

/-- the error kinds of `relabelSimplex`, as in the Python: ValueError iff `q` is in use, else KeyError iff
`s` is unknown -/
theorem relabel_errors (r : Rep) (s q : Name) :
    (r.relabelSimplex s q = .error .value ↔ r.contains q = true) ∧
    (r.relabelSimplex s q = .error .key ↔ r.contains q = false ∧ r.contains s = false) := by
  rw [relabel_eq]
  unfold Rep.contains
  cases hq : r.find? q <;> cases hs : r.find? s <;> simp

/-! ## (5) histories -/

/-- the primitive calls through which every mutation of a complex goes -/
inductive RCall
  | add (fs : List Name) (id : Name)
  | relabel (s q : Name)
  | delete (s : Name)

/-- one call at Layer R; a rejected call leaves the state unchanged -/
def stepR (r : Rep) : RCall → Rep
  | .add fs id => match r.addSimplex fs id with | .ok r' => r' | .error _ => r
  | .relabel s q => match r.relabelSimplex s q with | .ok r' => r' | .error _ => r
  | .delete s => r.forceDeleteSimplex s

/-- the same call at Layer A -/
def stepA (c : C) : RCall → C
  | .add fs id => match c.addSimplex fs id with | .ok c' => c' | .error _ => c
  | .relabel s q => (c.relabelSimplex s q).getD c
  | .delete s => c.forceDelete s

def runR (cs : List RCall) : Rep := cs.foldl stepR Rep.empty
def runA (cs : List RCall) : C := cs.foldl stepA emptyC

theorem MInv_empty : MInv Rep.empty := by
  refine ⟨rfl, rfl, ?_, ?_, ?_, ?_, ?_⟩
  · intro h; simp [Rep.empty, Rep.len] at h
  · intro k _ h; simp [Rep.empty, Rep.len] at h
  · intro k h; simp [Rep.empty, Rep.len] at h
  · intro k h; simp [Rep.empty, Rep.len] at h
  · intro k i k' i' s h; simp [Rep.empty, Rep.idx] at h

theorem abs_empty : abs Rep.empty = emptyC := rfl

theorem toOption_eq_some {ε α : Type} {x : Except ε α} {a : α} (h : x.toOption = some a) : x = .ok a := by
  cases x with
  | error e => cases h
  | ok b => simp [Except.toOption] at h; rw [h]

theorem toOption_eq_none {ε α : Type} {x : Except ε α} (h : x.toOption = none) : ∃ e, x = .error e := by
  cases x with
  | error e => exact ⟨e, rfl⟩
  | ok b => cases h

/-- one step: the invariant is kept and the two layers stay in correspondence -/
theorem step_refines {r : Rep} (hI : MInv r) (c : RCall) :
    MInv (stepR r c) ∧ abs (stepR r c) = stepA (abs r) c := by
  cases c with
  | add fs id =>
    have h := addSimplex_abs_ok hI fs id
    simp only [stepR, stepA]
    cases hr : r.addSimplex fs id with
    | error e =>
      rw [hr] at h
      obtain ⟨e', he'⟩ := toOption_eq_none h.symm
      rw [he']; exact ⟨hI, rfl⟩
    | ok r' =>
      rw [hr] at h
      have := toOption_eq_some h.symm
      rw [this]
      exact ⟨addSimplex_MInv hI hr, rfl⟩
  | relabel s q =>
    have h := relabelSimplex_abs hI s q
    simp only [stepR, stepA]
    cases hr : r.relabelSimplex s q with
    | error e => rw [hr] at h; rw [← h]; exact ⟨hI, rfl⟩
    | ok r' => rw [hr] at h; rw [← h]; exact ⟨relabelSimplex_MInv hI hr, rfl⟩
  | delete s => exact ⟨forceDelete_MInv hI s, forceDelete_abs hI s⟩

theorem run_refines : ∀ (cs : List RCall) {r : Rep}, MInv r →
    MInv (cs.foldl stepR r) ∧ abs (cs.foldl stepR r) = cs.foldl stepA (abs r) := by
  intro cs
  induction cs with
  | nil => intro r hI; exact ⟨hI, rfl⟩
  | cons c cs ih =>
    intro r hI
    obtain ⟨h1, h2⟩ := step_refines hI c
    simp only [List.foldl_cons]
    rw [← h2]
    exact ih h1

/-- **(5) `reachable_MInv`**: after *any* list of primitive calls from the empty representation — raw
`forceDeleteSimplex` of arbitrary names included — the invariant holds and `abs` of the state is the same
calls folded over Layer A from `emptyC`. -/
theorem reachable_MInv (cs : List RCall) : MInv (runR cs) ∧ abs (runR cs) = runA cs := by
  have := run_refines cs MInv_empty
  rw [abs_empty] at this
  exact this

/-- …and at every point of the history (every prefix is a history) -/
theorem reachable_MInv_prefix (cs : List RCall) (n : Nat) :
    MInv (runR (cs.take n)) ∧ abs (runR (cs.take n)) = runA (cs.take n) := reachable_MInv _

/-! ### disciplined histories: `forceDeleteSimplex` only of simplices without cofaces -/

/-- the call respects the library's discipline in state `r` -/
def RCall.okAt (r : Rep) : RCall → Prop
  | .delete s => r.cofaces s = []
  | _ => True

/-- every `delete` in the history is of a simplex that has no cofaces at that moment -/
def Disciplined : Rep → List RCall → Prop
  | _, [] => True
  | r, c :: cs => c.okAt r ∧ Disciplined (stepR r c) cs

theorem step_proper {r : Rep} (hI : MInv r) (hP : Proper r) {c : RCall} (hc : c.okAt r) :
    Proper (stepR r c) := by
  cases c with
  | add fs id =>
    simp only [stepR]
    cases hr : r.addSimplex fs id with
    | error e => exact hP
    | ok r' => exact addSimplex_proper hI hP hr
  | relabel s q =>
    simp only [stepR]
    cases hr : r.relabelSimplex s q with
    | error e => exact hP
    | ok r' => exact relabelSimplex_proper hI hP hr
  | delete s => exact forceDelete_proper hI hP hc

theorem run_proper : ∀ (cs : List RCall) {r : Rep}, MInv r → Proper r → Disciplined r cs →
    Proper (cs.foldl stepR r) := by
  intro cs
  induction cs with
  | nil => intro r _ hP _; exact hP
  | cons c cs ih =>
    intro r hI hP hD
    exact ih (step_refines hI c).1 (step_proper hI hP hD.1) hD.2

/-- in a disciplined history no order is ever empty and every simplex of order ≥ 1 has a face -/
theorem reachable_proper (cs : List RCall) (hD : Disciplined Rep.empty cs) : Proper (runR cs) :=
  run_proper cs MInv_empty proper_empty hD

theorem disciplined_take : ∀ (cs : List RCall) (r : Rep) (n : Nat), Disciplined r cs → Disciplined r (cs.take n) := by
  intro cs
  induction cs with
  | nil => intro r n h; simpa using h
  | cons c cs ih =>
    intro r n h
    cases n with
    | zero => trivial
    | succ n => exact ⟨h.1, ih _ n h.2⟩

/-- **C03, matrix part**: at every point of a disciplined history, for every `k`, the boundary operator
Layer R has stored is the matrix of the face relation of the Layer-A state reached by the same calls;
the two layers agree on `maxOrder`; and the next `addSimplex` would be answered identically (error kind
included). -/
theorem history_boundaryOperator (cs : List RCall) (hD : Disciplined Rep.empty cs) (n k : Nat) :
    (runR (cs.take n)).boundaryOperator k = bopMat (runA (cs.take n)) k ∧
    (runR (cs.take n)).maxOrder = (runA (cs.take n)).maxOrder ∧
    ∀ fs id, ((runR (cs.take n)).addSimplex fs id).map abs = (runA (cs.take n)).addSimplex fs id := by
  obtain ⟨hI, ha⟩ := reachable_MInv (cs.take n)
  have hT := (reachable_proper (cs.take n) (disciplined_take cs _ n hD)).topNE
  rw [← ha]
  exact ⟨boundaryOperator_abs hI hT k, (maxOrder_abs hT).symm, fun fs id => addSimplex_abs hI (maxOrder_abs hT) fs id⟩

/-! ## worked examples -/

/-- the exception a call raised, if any -/
def errOf {α : Type} : Except Err α → Option Err
  | .error e => some e
  | .ok _ => none


/-- three points, three edges (the third given as `[2, 0]`), the triangle -/
def exCalls : List RCall :=
  [.add [] (.u 0), .add [] (.u 1), .add [] (.u 2),
   .add [.u 0, .u 1] (.u 10), .add [.u 1, .u 2] (.u 11), .add [.u 2, .u 0] (.u 12),
   .add [.u 10, .u 11, .u 12] (.u 20)]

def exR : Rep := runR exCalls

/-- the stored state: index lists, the boundary matrices (with the dummy at order 0), the basis matrices -/
example : exR.indices = [[.u 0, .u 1, .u 2], [.u 10, .u 11, .u 12], [.u 20]] ∧
    exR.boundaries.map (·.e) = [[], [[true, false, true], [true, true, false], [false, true, true]],
      [[true], [true], [true]]] ∧
    exR.bases.map (·.e) = [[[true, false, false], [false, true, false], [false, false, true]],
      [[true, false, true], [true, true, false], [false, true, true]], [[true], [true], [true]]] := by
  decide

/-- `boundaryOperator`: `∂₀` = 1×3 zero row, `∂₁` (points × edges), `∂₂` (edges × triangle), `∂₃` = 0×0 -/
example : (exR.boundaryOperator 0).e = [[false, false, false]] ∧
    (exR.boundaryOperator 1).e = [[true, false, true], [true, true, false], [false, true, true]] ∧
    (exR.boundaryOperator 2).e = [[true], [true], [true]] ∧
    (exR.boundaryOperator 3).e = [] ∧ (exR.boundaryOperator 3).m = 0 := by decide

/-- the queries on it: `faces` in listing order, `cofaces` the inverse, `basisOf`, `indexOf`, `orderOf` -/
example : exR.faces (.u 12) = [.u 0, .u 2] ∧ exR.cofaces (.u 1) = [.u 10, .u 11] ∧
    exR.cofaces (.u 12) = [.u 20] ∧ exR.cofaces (.u 20) = [] ∧
    exR.basisOf (.u 20) = [.u 0, .u 1, .u 2] ∧ exR.indexOf? (.u 12) = some 2 ∧ exR.orderOf? (.u 12) = some 1 ∧
    exR.simplices = [.u 0, .u 1, .u 2, .u 10, .u 11, .u 12, .u 20] := by decide

/-- the Layer-A state it abstracts to -/
example : (abs exR).simps = [⟨.u 0, 0, [], [.u 0]⟩, ⟨.u 1, 0, [], [.u 1]⟩, ⟨.u 2, 0, [], [.u 2]⟩,
    ⟨.u 10, 1, [.u 0, .u 1], [.u 0, .u 1]⟩, ⟨.u 11, 1, [.u 1, .u 2], [.u 1, .u 2]⟩,
    ⟨.u 12, 1, [.u 0, .u 2], [.u 0, .u 2]⟩, ⟨.u 20, 2, [.u 10, .u 11, .u 12], [.u 0, .u 1, .u 2]⟩] ∧
    (abs exR).simps = (runA exCalls).simps := by decide

/-- delete an edge: cascading is not done by the primitive, so the triangle goes first (it has no cofaces),
then the edge `11` (which then has none).  The top order is popped; `∂₁` loses the column of `11`. -/
def exCalls2 : List RCall := exCalls ++ [.delete (.u 20), .delete (.u 11)]

example : (runR exCalls2).indices = [[.u 0, .u 1, .u 2], [.u 10, .u 12]] ∧
    (runR exCalls2).maxOrder = 1 ∧
    ((runR exCalls2).boundaryOperator 1).e = [[true, true], [true, false], [false, true]] ∧
    ((runR exCalls2).boundaryOperator 2).e = [] ∧
    (runR exCalls2).bases.map (·.e) = [[[true, false, false], [false, true, false], [false, false, true]],
      [[true, true], [true, false], [false, true]]] := by decide

/-- deleting a point removes its *row* from every basis matrix and from `∂₁` (raw: the edges keep one face) -/
example : ((runR (exCalls2 ++ [.delete (.u 1)])).boundaryOperator 1).e = [[true, true], [false, true]] ∧
    (runR (exCalls2 ++ [.delete (.u 1)])).bases.map (·.e) = [[[true, false], [false, true]], [[true, true], [false, true]]] ∧
    (abs (runR (exCalls2 ++ [.delete (.u 1)]))).simps = (runA (exCalls2 ++ [.delete (.u 1)])).simps := by decide

/-- `exCalls2` is a disciplined history (each deleted simplex has no cofaces when it is deleted) -/
theorem exCalls2_disciplined : Disciplined Rep.empty exCalls2 := by
  unfold exCalls2 exCalls
  simp only [List.cons_append, List.nil_append, Disciplined, RCall.okAt, true_and, and_true]
  constructor <;> decide

/-- hypotheses of the refinement theorems are satisfiable on a non-trivial state -/
example : MInv exR ∧ TopNE exR ∧ Proper (runR exCalls2) :=
  ⟨(reachable_MInv exCalls).1,
   (reachable_proper exCalls (disciplined_take exCalls2 _ 7 exCalls2_disciplined)).topNE,
   reachable_proper exCalls2 exCalls2_disciplined⟩

/-- rejected calls: same error kinds at both layers (duplicate name; unknown face; face of the wrong order;
a second simplex on the same faces; order too high); relabel onto a used name / of an unknown name -/
example : (exR.addSimplex [] (.u 0)).toOption.isNone ∧
    errOf (exR.addSimplex [] (.u 0)) = some .key ∧
    errOf (exR.addSimplex [.u 0, .u 99] (.u 5)) = some .key ∧
    errOf (exR.addSimplex [.u 0, .u 10] (.u 5)) = some .value ∧
    errOf (exR.addSimplex [.u 1, .u 0] (.u 5)) = some .key ∧
    errOf (exR.addSimplex [.u 0, .u 1, .u 2, .u 10, .u 11] (.u 5)) = some .value ∧
    errOf (exR.relabelSimplex (.u 0) (.u 1)) = some .value ∧
    errOf (exR.relabelSimplex (.u 99) (.u 98)) = some .key ∧
    (exR.relabelSimplex (.u 11) (.u 7)).toOption.map (·.indices) = some [[.u 0, .u 1, .u 2], [.u 10, .u 7, .u 12], [.u 20]] := by
  decide

/-- a remark on error kinds: when the face list holds a face of the wrong order *before* an unknown face, the
Python loop (`for f in fs: unknown? → KeyError; wrong order? → ValueError`) raises `ValueError` for the first
offender, whereas the guard chain of `Flat.Cx.addSimplex` — which `Rep.addSimplex` copies, as required — tests
"some face unknown" for the whole list first and answers `KeyError`.  Both layers agree with each other; the
driver prints `rej` for either kind, so the difference is not observed there. -/
example : errOf (exR.addSimplex [.u 10, .u 99] (.u 5)) = some .key ∧
    errOf ((abs exR).addSimplex [.u 10, .u 99] (.u 5)) = some .key := by decide

/-! ## why `TopNE` is needed -/

/-- a raw history that empties `_maxOrder`'s order without lowering it: two points and an edge; delete the
points (leaving a faceless edge), then the edge.  `_maxOrder` goes from 1 to 0 although order 0 is empty. -/
def badCalls : List RCall :=
  [.add [] (.u 0), .add [] (.u 1), .add [.u 0, .u 1] (.u 10), .delete (.u 0), .delete (.u 1), .delete (.u 10)]

/-- **`add_refines` without `TopNE` is false**: in the state reached by `badCalls` (which satisfies `MInv`),
adding an edge between two unknown points raises `KeyError` at Layer R (`_maxOrder = 0`, so the order check
passes and the first face is looked up) but `ValueError` at Layer A (`maxOrder = -1`). -/
theorem add_refines_needs_TopNE :
    MInv (runR badCalls) ∧ (runR badCalls).indices = [[]] ∧ (runR badCalls).maxOrder = 0 ∧
    (abs (runR badCalls)).maxOrder = -1 ∧
    ((runR badCalls).addSimplex [.u 5, .u 6] (.u 7)).map abs ≠ (abs (runR badCalls)).addSimplex [.u 5, .u 6] (.u 7) ∧
    errOf ((runR badCalls).addSimplex [.u 5, .u 6] (.u 7)) = some .key ∧
    errOf ((abs (runR badCalls)).addSimplex [.u 5, .u 6] (.u 7)) = some .value := by
  refine ⟨(reachable_MInv badCalls).1, by decide, by decide, by decide, ?_, by decide, by decide⟩
  intro h
  have h1 : errOf ((runR badCalls).addSimplex [.u 5, .u 6] (.u 7)) = some .key := by decide
  have h2 : errOf ((abs (runR badCalls)).addSimplex [.u 5, .u 6] (.u 7)) = some .value := by decide
  rw [← h] at h2
  cases hx : (runR badCalls).addSimplex [.u 5, .u 6] (.u 7) with
  | ok r' => rw [hx] at h1; cases h1
  | error e =>
    rw [hx] at h1 h2
    simp only [Except.map, errOf, Option.some.injEq] at h1 h2
    rw [h1] at h2; cases h2

/-- a raw history that leaves an empty top order 1 above three points: a triangle's edges are deleted under
it, then the triangle -/
def badCalls2 : List RCall :=
  exCalls ++ [.delete (.u 10), .delete (.u 11), .delete (.u 12), .delete (.u 20)]

/-- **`boundaryOperator_refines` without `TopNE` is false**: Layer R returns the stored `3×0` matrix
(`_maxOrder` is still 1), Layer A the `0×0` one (its `maxOrder` is 0). -/
theorem boundaryOperator_refines_needs_TopNE :
    MInv (runR badCalls2) ∧ (runR badCalls2).indices = [[.u 0, .u 1, .u 2], []] ∧
    ((runR badCalls2).boundaryOperator 1).m = 3 ∧ (bopMat (abs (runR badCalls2)) 1).m = 0 ∧
    (runR badCalls2).boundaryOperator 1 ≠ bopMat (abs (runR badCalls2)) 1 := by
  refine ⟨(reachable_MInv badCalls2).1, by decide, by decide, by decide, ?_⟩
  intro h
  have h1 : ((runR badCalls2).boundaryOperator 1).m = 3 := by decide
  have h2 : (bopMat (abs (runR badCalls2)) 1).m = 0 := by decide
  rw [h] at h1; rw [h1] at h2; cases h2

end MatRep
