import Sx.Model
import Sx.Props.Copy
import Sx.Props.C05
import Sx.Proofs.FlagClique
import Sx.Proofs.FlatBasis8
import Mathlib.Tactic.SplitIfs
import Mathlib.Data.Finset.Card
import Mathlib.Data.List.Basic

/-! # C11 — the flag complex is the clique complex of the 1-skeleton; growing equals rebuilding

Model reading. `flagComplex()` = `flagOf c`: copy the complex (`copyNew`), then run
`_completePotentialSimplices` on the copy with every order ≥ 1 seeded (`flagComplex`).
`growFlagComplex(ss)` = `growFlagQ c ss`: `orderOf` of every member of `ss` first (KeyError for an unknown
name, before anything changes), then the same completion seeded with `ss` only, in place.

"Complete" (`CompleteAt c j` for every `j ≥ 2`): every set of `j + 1` points all of whose `j`-point subsets
carry a simplex carries a simplex. For a valid complex this is the same as: every clique of the edge graph
of size ≥ 3 carries a simplex (`complete_is_clique`). -/
namespace Flat

/-! ## complete = clique complex -/

/-- a valid complex whose simplices on ≥ 2 points are exactly the cliques of some graph is complete -/
theorem complete_of_clique {f : C} (Ed : Name → Name → Prop)
    (hcl : ∀ X : Finset Name, 2 ≤ X.card →
      ((∃ s ∈ f.simps, s.pts = X) ↔ ∀ a ∈ X, ∀ b ∈ X, a ≠ b → Ed a b)) :
    ∀ j, 2 ≤ j → CompleteAt f j := by
  classical
  intro j hj X hX hfac
  apply (hcl X (by omega)).mpr
  intro a ha b hb hab
  -- a third point to leave out
  obtain ⟨p, hpX, hpn⟩ : ∃ p, p ∈ X ∧ p ∉ ({a, b} : Finset Name) := by
    by_contra hcon
    push Not at hcon
    have : X ⊆ {a, b} := fun x hx => hcon x hx
    have := Finset.card_le_card this
    rw [Finset.card_pair hab] at this
    omega
  simp only [Finset.mem_insert, Finset.mem_singleton, not_or] at hpn
  have hY : X.erase p ∈ X.powersetCard j := by
    rw [Finset.mem_powersetCard]
    exact ⟨Finset.erase_subset _ _, by rw [Finset.card_erase_of_mem hpX, hX]; rfl⟩
  obtain ⟨t, ht, htp⟩ := hfac _ hY
  have hYc : 2 ≤ (X.erase p).card := by rw [(Finset.mem_powersetCard.mp hY).2]; exact hj
  exact (hcl _ hYc).mp ⟨t, ht, htp⟩ a (Finset.mem_erase.mpr ⟨fun e => hpn.1 e.symm, ha⟩)
    b (Finset.mem_erase.mpr ⟨fun e => hpn.2 e.symm, hb⟩) hab

/-! ## (a) `flagOf` -/

/-- **C11 (the flag complex)**: for a valid complex `c`, `flagOf c` succeeds with a valid complex `f` such that
* `f` contains a twin of every simplex of `c` (same name, order, faces and basis as sets), in the same
  relative order in the listing; in particular `c <= f`;
* every simplex of `f` of order ≤ 1 is such a twin: `f` has the same points and edges as `c`;
* for every set `X` of at least two points, `f` has a simplex on `X` iff every two points of `X` are joined by
  an edge of `c`;
* `f` is complete. -/
theorem flagOf_spec {c : C} (hI : Inv c) :
    ∃ f, flagOf c = .ok f ∧ Inv f ∧
      (∃ l, List.Forall₂ Twin c.simps l ∧ l.Sublist f.simps) ∧
      Flat.le c f = true ∧
      (∀ t ∈ f.simps, (∃ s ∈ c.simps, Twin s t) ∨ 2 ≤ t.order) ∧
      (∀ X : Finset Name, X.card ≤ 2 → ((∃ s ∈ f.simps, s.pts = X) ↔ (∃ s ∈ c.simps, s.pts = X))) ∧
      (∀ X : Finset Name, 2 ≤ X.card →
        ((∃ s ∈ f.simps, s.pts = X) ↔ ∀ a ∈ X, ∀ b ∈ X, a ≠ b → ∃ e ∈ c.simps, e.pts = {a, b})) ∧
      (∀ j, 2 ≤ j → CompleteAt f j) := by
  classical
  obtain ⟨d0, hcp, hI0, -, hT⟩ := copyNew_spec hI
  obtain ⟨f, hfl, hIf, hsub, hnew, hcl⟩ := flagComplex_spec d0 hI0
  have hrun : flagOf c = .ok f := by
    unfold flagOf
    simp only [hcp, hfl]
  have hnewT : ∀ t ∈ f.simps, (∃ s ∈ c.simps, Twin s t) ∨ 2 ≤ t.order := by
    intro t ht
    rcases hnew t ht with h | h
    · obtain ⟨s, hs, htw⟩ := forall₂_mem_right hT t h
      exact Or.inl ⟨s, hs, htw⟩
    · exact Or.inr h
  have hedge : ∀ Y : Finset Name, (∃ e ∈ d0.simps, e.pts = Y) ↔ (∃ e ∈ c.simps, e.pts = Y) := by
    intro Y
    constructor
    · rintro ⟨e, he, hep⟩
      obtain ⟨s, hs, htw⟩ := forall₂_mem_right hT e he
      exact ⟨s, hs, htw.pts.symm.trans hep⟩
    · rintro ⟨s, hs, hsp⟩
      obtain ⟨e, he, htw⟩ := forall₂_mem_left hT s hs
      exact ⟨e, he, htw.pts.trans hsp⟩
  have hclc : ∀ X : Finset Name, 2 ≤ X.card →
      ((∃ s ∈ f.simps, s.pts = X) ↔ ∀ a ∈ X, ∀ b ∈ X, a ≠ b → ∃ e ∈ c.simps, e.pts = {a, b}) := by
    intro X hX
    rw [hcl X hX]
    constructor
    · intro h a ha b hb hab; exact (hedge _).mp (h a ha b hb hab)
    · intro h a ha b hb hab; exact (hedge _).mpr (h a ha b hb hab)
  refine ⟨f, hrun, hIf, ⟨d0.simps, hT, hsub⟩, ?_, hnewT, ?_, hclc, ?_⟩
  · apply (isSub_iff hI hIf).mpr
    intro s hs
    obtain ⟨t, ht, htw⟩ := forall₂_mem_left hT s hs
    exact ⟨t, hsub.subset ht, htw.1, htw.2.1, fun x => (htw.2.2.1 x).symm⟩
  · intro X hX
    constructor
    · rintro ⟨t, ht, htp⟩
      rcases hnewT t ht with ⟨s, hs, htw⟩ | h
      · exact ⟨s, hs, htw.pts.symm.trans htp⟩
      · exfalso
        have := hIf.pts_card ht
        rw [htp] at this; omega
    · rintro ⟨s, hs, hsp⟩
      obtain ⟨t, ht, htw⟩ := forall₂_mem_left hT s hs
      exact ⟨t, hsub.subset ht, htw.pts.trans hsp⟩
  · exact complete_of_clique (fun a b => ∃ e ∈ c.simps, e.pts = {a, b}) hclc

/-! ## (b) idempotence -/

/-- the flag complex of a valid complete complex has the same family of vertex sets as that complex -/
theorem flagOf_of_complete {f : C} (hI : Inv f) (hcomp : ∀ j, 2 ≤ j → CompleteAt f j) :
    ∃ f', flagOf f = .ok f' ∧ Inv f' ∧ (∀ j, 2 ≤ j → CompleteAt f' j) ∧
      ∀ X : Finset Name, (∃ s ∈ f'.simps, s.pts = X) ↔ (∃ s ∈ f.simps, s.pts = X) := by
  obtain ⟨f', hrun, hI', -, -, -, hlow, -, hcomp'⟩ := flagOf_spec hI
  exact ⟨f', hrun, hI', hcomp', same_graph_same_family hI' hI hcomp' hcomp hlow⟩

/-- **C11 (idempotence)**: the flag complex of a flag complex has the same family of vertex sets -/
theorem flagOf_idem {c f : C} (hI : Inv c) (hf : flagOf c = .ok f) :
    ∃ f', flagOf f = .ok f' ∧ Inv f' ∧
      ∀ X : Finset Name, (∃ s ∈ f'.simps, s.pts = X) ↔ (∃ s ∈ f.simps, s.pts = X) := by
  obtain ⟨f0, hrun, hI0, -, -, -, -, -, hcomp⟩ := flagOf_spec hI
  rw [hf] at hrun
  injection hrun with hrun
  subst hrun
  obtain ⟨f', h1, h2, -, h3⟩ := flagOf_of_complete hI0 hcomp
  exact ⟨f', h1, h2, h3⟩

/-! ## (c) `growFlagQ` -/

theorem nssGet_map (g : Nat → List Name) (k : Nat) : ∀ ks : List Nat,
    nssGet (ks.map (fun j => (j, g j))) k = if k ∈ ks then some (g k) else none := by
  intro ks
  induction ks with
  | nil => rfl
  | cons a ks ih =>
    unfold nssGet at ih ⊢
    rw [List.map_cons, List.find?_cons]
    by_cases ha : a = k
    · subst ha
      simp
    · have : ((a, g a).1 == k) = false := by simpa using ha
      rw [this]
      simp only
      rw [ih]
      have hk : k ≠ a := fun e => ha e.symm
      simp [hk]

theorem foldl_maxkey_ge (l : List (Nat × List Name)) (a : Nat) :
    a ≤ l.foldl (fun m p => max m p.1) a ∧ ∀ p ∈ l, p.1 ≤ l.foldl (fun m p => max m p.1) a := by
  induction l generalizing a with
  | nil => simp
  | cons y ys ih =>
    simp only [List.foldl_cons]
    obtain ⟨h1, h2⟩ := ih (max a y.1)
    refine ⟨by omega, ?_⟩
    intro x hx
    rcases List.mem_cons.mp hx with rfl | hx
    · omega
    · exact h2 x hx

theorem foldl_maxkey_le (l : List (Nat × List Name)) (a M : Nat) (ha : a ≤ M) (hl : ∀ p ∈ l, p.1 ≤ M) :
    l.foldl (fun m p => max m p.1) a ≤ M := by
  induction l generalizing a with
  | nil => exact ha
  | cons y ys ih =>
    simp only [List.foldl_cons]
    apply ih
    · have := hl y List.mem_cons_self; omega
    · intro p hp; exact hl p (List.mem_cons_of_mem _ hp)

/-- **growing, abstractly**: `c` valid, `news` names of `c`, `E` a collection of (vertex sets of) edges of `c`
whose names are all in `news`, such that no simplex of order ≥ 2 contains an edge of `E` and every set of
≥ 3 points that contains no edge of `E` and has all its facets present is present (`c` was complete before the
edges `E` arrived). Then `growFlagQ c news` succeeds, only adds simplices of order ≥ 2, and the result is
complete. -/
theorem growFlagQ_complete {c : C} (hI : Inv c) {news : List Name}
    (hnews : ∀ n ∈ news, c.contains n = true)
    (E : List (Finset Name))
    (hE : ∀ e ∈ E, ∃ s ∈ c.simps, s.order = 1 ∧ s.pts = e ∧ s.name ∈ news)
    (hhigh : ∀ t ∈ c.simps, 2 ≤ t.order → ¬ HasNew E t.pts)
    (hold : ∀ j, 2 ≤ j → ∀ X : Finset Name, X.card = j + 1 → ¬ HasNew E X →
      (∀ Y ∈ X.powersetCard j, ∃ t ∈ c.simps, t.pts = Y) → ∃ s ∈ c.simps, s.pts = X) :
    ∃ g, growFlagQ c news = (.ok (), g) ∧ Inv g ∧ c.simps.Sublist g.simps ∧
      (∀ t ∈ g.simps, t ∈ c.simps ∨ 2 ≤ t.order) ∧ ∀ j, 2 ≤ j → CompleteAt g j := by
  classical
  set ks := (news.filterMap c.orderOf?).eraseDups with hks
  set gk : Nat → List Name := fun k => news.filter (fun n => c.orderOf? n == some k) with hgk
  set nss := ks.map (fun k => (k, gk k)) with hnss
  have hgrow : growFlagQ c news = complete c nss := by
    unfold growFlagQ
    rw [if_pos (List.all_eq_true.mpr hnews)]
    rfl
  -- a simplex that contains an edge of `E` is that edge, and it is listed
  have hnewedge : ∀ t ∈ c.simps, 1 ≤ t.order → HasNew E t.pts →
      t.order = 1 ∧ 1 ∈ ks ∧ t.name ∈ gk 1 := by
    intro t ht hto hn
    have ho : t.order = 1 := by
      by_contra hne
      exact hhigh t ht (by omega) hn
    obtain ⟨e, he, hsub⟩ := hn
    obtain ⟨s, hs, hso, hsp, hsn⟩ := hE e he
    have hpe : s.pts = t.pts := by
      apply Finset.eq_of_subset_of_card_le (hsp ▸ hsub)
      rw [hI.pts_card hs, hI.pts_card ht]; omega
    have hst : s = t := by
      apply hI.uniq s hs t ht (by omega)
      intro p
      have := Finset.ext_iff.mp hpe p
      simpa only [Simp.pts, List.mem_toFinset] using this
    subst hst
    have hord : c.orderOf? s.name = some 1 := by rw [orderOf_of_mem hI hs, ho]
    refine ⟨ho, ?_, ?_⟩
    · rw [hks, List.mem_eraseDups, List.mem_filterMap]
      exact ⟨s.name, hsn, hord⟩
    · rw [hgk]
      simp only [List.mem_filter, beq_iff_eq]
      exact ⟨hsn, hord⟩
  have hkeys : ∀ p ∈ nss, p.1 + 1 ≤ c.simps.length := by
    intro p hp
    rw [hnss] at hp
    obtain ⟨k, hk, rfl⟩ := List.mem_map.mp hp
    rw [hks, List.mem_eraseDups, List.mem_filterMap] at hk
    obtain ⟨n, -, hn⟩ := hk
    unfold Cx.orderOf? at hn
    obtain ⟨t, ht, hto⟩ := Option.map_eq_some_iff.mp hn
    obtain ⟨htm, -⟩ := lookup_some ht
    have h1 := order_lt_points hI htm
    have h2 : (c.ofOrder 0).length ≤ c.simps.length := List.length_filter_le _ _
    simp only at hto ⊢
    omega
  rw [hgrow]
  unfold complete
  cases hc : nss with
  | nil =>
    refine ⟨c, rfl, hI, List.Sublist.refl _, fun t ht => Or.inl ht, ?_⟩
    have hksnil : ks = [] := by
      rw [hnss] at hc
      exact List.map_eq_nil_iff.mp hc
    have hno : ∀ X, ¬ HasNew E X := by
      rintro X ⟨e, he, -⟩
      obtain ⟨s, hs, hso, hsp, hsn⟩ := hE e he
      have : 1 ∈ ks := by
        rw [hks, List.mem_eraseDups, List.mem_filterMap]
        exact ⟨s.name, hsn, by rw [orderOf_of_mem hI hs, hso]⟩
      rw [hksnil] at this
      cases this
    intro j hj X hX hfac
    exact hold j hj X hX (hno X) hfac
  | cons p ps =>
    simp only
    rw [← hc]
    have hG : GInv E c c nss 1 (nss.foldl (fun m p => max m p.1) 0) (c.simps.length + 1) := by
      refine ⟨Nat.le_refl _, hI, List.Sublist.refl _, fun t ht => Or.inl ht, ?_, ?_, hold, ?_, ?_, ?_, ?_⟩
      · intro t ht hto hn
        obtain ⟨ho, hk, hmem⟩ := hnewedge t ht hto hn
        refine ⟨gk 1, ?_, hmem⟩
        rw [ho, hnss, nssGet_map gk 1 ks, if_pos hk]
      · intro t ht hto hn
        obtain ⟨ho, hk, -⟩ := hnewedge t ht hto hn
        rw [ho]
        exact (foldl_maxkey_ge nss 0).2 (1, gk 1) (by rw [hnss]; exact List.mem_map.mpr ⟨1, hk, rfl⟩)
      · intro j hj hj1; omega
      · apply foldl_maxkey_le _ _ _ (Nat.zero_le _)
        intro p hp; have := hkeys p hp; omega
      · have : (c.ofOrder 0).length ≤ c.simps.length := List.length_filter_le _ _
        omega
      · intro e he
        obtain ⟨s, hs, hso, hsp, -⟩ := hE e he
        rw [← hsp, hI.pts_card hs, hso]
    exact growLoop_spec E c (c.simps.length + 1) (c.simps.length + 3) c nss 1 _ hG (by omega)

/-- add edges one at a time with `addSimplexWithBasis([p, q])` (generated names); returns the names of the
new edges, in order, and the resulting complex; `none` if a call raises -/
def addEdges : C → List (Name × Name) → Option (List Name × C)
  | c, [] => some ([], c)
  | c, pq :: rest =>
    match addSimplexWithBasis' c [pq.1, pq.2] none with
    | (.ok n, c') => (addEdges c' rest).map (fun r => (n :: r.1, r.2))
    | (.error _, _) => none

/-- `addSimplexWithBasis([p, p])` on an existing point raises (ValueError from the final `addSimplex` with a
single face; KeyError should the basis lookup find something): an "edge" needs two distinct end points -/
theorem addEdge_same_fails {c : C} {p : Name} (hp : c.orderOf? p = some 0) :
    (addSimplexWithBasis' c [p, p] none).1 = .error .key ∨
      (addSimplexWithBasis' c [p, p] none).1 = .error .value := by
  have hcont : c.contains p = true := by
    unfold Cx.orderOf? at hp
    unfold Cx.contains
    cases h : c.lookup p with
    | none => rw [h] at hp; cases hp
    | some s => rfl
  unfold addSimplexWithBasis'
  have g1 : idUsed c none = false := rfl
  have g2 : idInBasis [p, p] none = false := rfl
  have g3 : ([p, p] : List Name).any (fun b => c.contains b && c.orderOf? b != some 0) = false := by
    simp [hp]
  rw [g1, g2, g3]
  simp only [Bool.false_eq_true, if_false]
  by_cases hs : (simplexWithBasis c [p, p]).isSome = true
  · rw [if_pos hs]; exact Or.inl rfl
  · rw [if_neg hs]
    have he : ensurePoints c [p, p] = .ok c := by
      simp [ensurePoints, hcont]
    rw [he]
    simp only
    right
    have hnone : simplexWithBasis c [p, p] = none := by
      cases h : simplexWithBasis c [p, p] with
      | none => rfl
      | some x => rw [h] at hs; simp at hs
    have hnone2 : simplexWithBasis (topName c ([p, p].length - 1) none).2 [p, p] = none := hnone
    have hone : simplexWithBasis (topName c ([p, p].length - 1) none).2 [p] = some p := by
      show simplexWithBasis c [p] = some p
      unfold simplexWithBasis
      simp [hp]
    generalize topName c ([p, p].length - 1) none = r at hnone2 hone ⊢
    have hA : addWB r.1 1 1 r.2 [p] = (.ok p, r.2) := by
      unfold addWB; rw [hone]
    have hd : dropOne [p, p] = [[p], [p]] := rfl
    have hF : facetLoop (addWB r.1 1 1) r.2 [] [[p], [p]] = (.ok [p], r.2) := by
      simp [facetLoop, hA]
    show (addWB r.1 1 2 r.2 [p, p]).1 = _
    unfold addWB
    rw [hnone2]
    simp only
    rw [hd, hF]
    simp [addS, Cx.addSimplex]

/-- one successful `addSimplexWithBasis([p, q])` on two existing points (which are then distinct) adds exactly one simplex,
an edge on `{p, q}` that was not there, and returns its name -/
theorem addEdge_step {c c' : C} (hI : Inv c) {p q n : Name} (hpts : PtsIn c [p, q])
    (h : addSimplexWithBasis' c [p, q] none = (.ok n, c')) :
    Inv c' ∧ c.simps.Sublist c'.simps ∧
      ∃ t ∈ c'.simps, t.name = n ∧ t.order = 1 ∧ t.pts = {p, q} ∧ t ∉ c.simps ∧
        ∀ u ∈ c'.simps, u ∈ c.simps ∨ u = t := by
  classical
  have hpq : p ≠ q := by
    intro e
    subst e
    obtain ⟨t, ht, htn, ht0⟩ := hpts p List.mem_cons_self
    have hord : c.orderOf? p = some 0 := by rw [← htn, orderOf_of_mem hI ht, ht0]
    rcases addEdge_same_fails hord with h' | h' <;> rw [h] at h' <;> cases h'
  have hnd : ([p, q] : List Name).Nodup := by simp [hpq]
  have hset : ([p, q] : List Name).toFinset = {p, q} := by simp
  -- success means the guard "already a simplex" did not fire
  have hq : simplexWithBasis c [p, q] = none := by
    cases hq : simplexWithBasis c [p, q] with
    | none => rfl
    | some m =>
      exfalso
      obtain ⟨e, he⟩ := addSimplexWithBasis'_guards c [p, q] none
        (Or.inr (Or.inr (Or.inr (by rw [hq]; rfl))))
      rw [he] at h
      cases h
  have hnone := (simplexWithBasis_spec hI hnd (by simp) hpts).2 hq
  obtain ⟨n', c'', hrun, hI', hsub, hnm, -, hnew⟩ := addSimplexWithBasis_spec hI (bs := [p, q]) hnd (by simp)
    (fun b hb _ => hpts b hb) hnone none (fun n hn => by cases hn)
  rw [h] at hrun
  injection hrun with h1 h2
  injection h1 with h1
  subst h1 h2
  obtain ⟨t, ht, htn, htp⟩ := hnm
  rw [hset] at htp hnew
  have hto : t.order = 1 := by
    have := hI'.pts_card ht
    rw [htp, Finset.card_pair hpq] at this; omega
  refine ⟨hI', hsub, t, ht, htn, hto, htp, fun hin => hnone ⟨t, hin, by rw [htp, hset]⟩, ?_⟩
  intro u hu
  rcases hnew u hu with h' | h'
  · exact Or.inl h'
  · rcases Nat.eq_zero_or_pos u.order with h0 | hpos
    · left
      have hb := (hI'.point u hu h0).2
      have hmem : u.name ∈ u.pts := by rw [Simp.pts, hb]; simp
      have := h' hmem
      simp only [Finset.mem_insert, Finset.mem_singleton] at this
      have hx : u.name ∈ ([p, q] : List Name) := by
        rcases this with e | e <;> simp [e]
      obtain ⟨v, hv, hvn, -⟩ := hpts u.name hx
      have : v = u := hI'.name_inj (hsub.subset hv) hu hvn
      exact this ▸ hv
    · right
      have hc := hI'.pts_card hu
      have hle := Finset.card_le_card h'
      rw [Finset.card_pair hpq] at hle
      have hup : u.pts = {p, q} :=
        Finset.eq_of_subset_of_card_le h' (by rw [Finset.card_pair hpq]; omega)
      apply hI'.uniq u hu t ht (by omega)
      intro x
      have := Finset.ext_iff.mp (hup.trans htp.symm) x
      simpa only [Simp.pts, List.mem_toFinset] using this

/-- the effect of a successful `addEdges`: only edges are added, they are new, and `news` are their names -/
theorem addEdges_spec : ∀ (pairs : List (Name × Name)) (c : C) (news : List Name) (f1 : C), Inv c →
    (∀ pq ∈ pairs, PtsIn c [pq.1, pq.2]) → addEdges c pairs = some (news, f1) →
    Inv f1 ∧ c.simps.Sublist f1.simps ∧
      (∀ t ∈ f1.simps, t ∈ c.simps ∨ (t.order = 1 ∧ t.name ∈ news)) ∧
      (∀ n ∈ news, ∃ t ∈ f1.simps, t.name = n ∧ t.order = 1 ∧ t ∉ c.simps) := by
  intro pairs
  induction pairs with
  | nil =>
    intro c news f1 hI _ h
    simp only [addEdges, Option.some.injEq, Prod.mk.injEq] at h
    obtain ⟨rfl, rfl⟩ := h
    exact ⟨hI, List.Sublist.refl _, fun t ht => Or.inl ht, fun n hn => by cases hn⟩
  | cons pq rest ih =>
    intro c news f1 hI hp h
    unfold addEdges at h
    cases hstep : addSimplexWithBasis' c [pq.1, pq.2] none with
    | mk r c1 =>
      cases r with
      | error e => rw [hstep] at h; cases h
      | ok n =>
        rw [hstep] at h
        simp only at h
        obtain ⟨⟨news', f1'⟩, hrest, heq⟩ := Option.map_eq_some_iff.mp h
        simp only [Prod.mk.injEq] at heq
        obtain ⟨rfl, rfl⟩ := heq
        have hpts := hp pq List.mem_cons_self
        obtain ⟨hI1, hsub1, t, ht, htn, hto, -, htnew, hall⟩ := addEdge_step hI hpts hstep
        obtain ⟨hIf, hsubf, hnewf, hnamesf⟩ := ih c1 news' f1' hI1
          (fun x hx => (hp x (List.mem_cons_of_mem _ hx)).mono hsub1) hrest
        refine ⟨hIf, hsub1.trans hsubf, ?_, ?_⟩
        · intro u hu
          rcases hnewf u hu with h' | ⟨h1, h2⟩
          · rcases hall u h' with h'' | rfl
            · exact Or.inl h''
            · exact Or.inr ⟨hto, by rw [htn]; exact List.mem_cons_self⟩
          · exact Or.inr ⟨h1, List.mem_cons_of_mem _ h2⟩
        · intro m hm
          rcases List.mem_cons.mp hm with rfl | hm
          · exact ⟨t, hsubf.subset ht, htn, hto, htnew⟩
          · obtain ⟨u, hu, hun, huo, hunew⟩ := hnamesf m hm
            exact ⟨u, hu, hun, huo, fun hin => hunew (hsub1.subset hin)⟩

/-- **C11 (growing equals rebuilding)**: let `f` be a valid complete complex, `f1` the result of adding new
edges between existing points of `f` (each by a successful `addSimplexWithBasis([p, q])`, `addEdges`; success
implies `p ≠ q` and that the edge is new), and `news` the names of those edges. Then `growFlagQ f1 news` succeeds with a valid complex `g` that contains `f1` unchanged, has the
same points and edges as `f1`, and is complete; hence `g` has a simplex on a set of ≥ 2 points iff every two of
them are joined by an edge of `f1`, and `g` has the same family of vertex sets as every valid complete complex
with the points and edges of `f1` — in particular as `flagOf c0` for every valid `c0` with those points and
edges (`c0 = f1` included). -/
theorem growFlagQ_spec {f : C} (hIf : Inv f) (hcomp : ∀ j, 2 ≤ j → CompleteAt f j)
    {pairs : List (Name × Name)} (hpairs : ∀ pq ∈ pairs, PtsIn f [pq.1, pq.2])
    {news : List Name} {f1 : C} (hadd : addEdges f pairs = some (news, f1)) :
    ∃ g, growFlagQ f1 news = (.ok (), g) ∧ Inv g ∧ f1.simps.Sublist g.simps ∧
      (∀ t ∈ g.simps, t ∈ f1.simps ∨ 2 ≤ t.order) ∧
      (∀ X : Finset Name, X.card ≤ 2 → ((∃ s ∈ g.simps, s.pts = X) ↔ (∃ s ∈ f1.simps, s.pts = X))) ∧
      (∀ j, 2 ≤ j → CompleteAt g j) ∧
      (∀ X : Finset Name, 2 ≤ X.card →
        ((∃ s ∈ g.simps, s.pts = X) ↔ ∀ a ∈ X, ∀ b ∈ X, a ≠ b → ∃ e ∈ f1.simps, e.pts = {a, b})) ∧
      (∀ h : C, Inv h → (∀ j, 2 ≤ j → CompleteAt h j) →
        (∀ X : Finset Name, X.card ≤ 2 → ((∃ s ∈ h.simps, s.pts = X) ↔ (∃ s ∈ f1.simps, s.pts = X))) →
        ∀ X : Finset Name, (∃ s ∈ g.simps, s.pts = X) ↔ (∃ s ∈ h.simps, s.pts = X)) ∧
      (∀ c0 : C, Inv c0 →
        (∀ X : Finset Name, X.card ≤ 2 → ((∃ s ∈ c0.simps, s.pts = X) ↔ (∃ s ∈ f1.simps, s.pts = X))) →
        ∃ h, flagOf c0 = .ok h ∧
          ∀ X : Finset Name, (∃ s ∈ g.simps, s.pts = X) ↔ (∃ s ∈ h.simps, s.pts = X)) := by
  classical
  obtain ⟨hI1, hsub, hnew, hnames⟩ := addEdges_spec pairs f news f1 hIf hpairs hadd
  -- the new edges
  set E : List (Finset Name) := (f1.simps.filter (fun s => news.contains s.name)).map (·.pts) with hEdef
  have hEmem : ∀ e, e ∈ E ↔ ∃ s ∈ f1.simps, s.name ∈ news ∧ s.pts = e := by
    intro e
    rw [hEdef, List.mem_map]
    constructor
    · rintro ⟨s, hs, rfl⟩
      rw [List.mem_filter, List.contains_iff_mem] at hs
      exact ⟨s, hs.1, hs.2, rfl⟩
    · rintro ⟨s, hs, hn, rfl⟩
      exact ⟨s, by rw [List.mem_filter, List.contains_iff_mem]; exact ⟨hs, hn⟩, rfl⟩
  -- a simplex of `f1` named in `news` is a new edge
  have hnamed : ∀ s ∈ f1.simps, s.name ∈ news → s.order = 1 ∧ s ∉ f.simps := by
    intro s hs hn
    obtain ⟨t, ht, htn, hto, htnew⟩ := hnames s.name hn
    have : t = s := hI1.name_inj ht hs htn
    subst this
    exact ⟨hto, htnew⟩
  have hE : ∀ e ∈ E, ∃ s ∈ f1.simps, s.order = 1 ∧ s.pts = e ∧ s.name ∈ news := by
    intro e he
    obtain ⟨s, hs, hn, hp⟩ := (hEmem e).mp he
    exact ⟨s, hs, (hnamed s hs hn).1, hp, hn⟩
  have hhigh : ∀ t ∈ f1.simps, 2 ≤ t.order → ¬ HasNew E t.pts := by
    rintro t ht hto ⟨e, he, hsubE⟩
    obtain ⟨s, hs, hn, hp⟩ := (hEmem e).mp he
    obtain ⟨hso, hsnew⟩ := hnamed s hs hn
    have htf : t ∈ f.simps := by
      rcases hnew t ht with h | ⟨h, -⟩
      · exact h
      · omega
    have hne : e.Nonempty := by
      rw [← Finset.card_pos, ← hp, hI1.pts_card hs]; omega
    obtain ⟨u, hu, hup⟩ := hIf.subset_simplex htf hsubE hne
    have hu1 := hsub.subset hu
    have : u = s := by
      apply hI1.uniq u hu1 s hs
      · have e1 := hI1.pts_card hu1
        have e2 := hI1.pts_card hs
        rw [hup, ← hp] at e1; omega
      · intro x
        have := Finset.ext_iff.mp (hup.trans hp.symm) x
        simpa only [Simp.pts, List.mem_toFinset] using this
    exact hsnew (this ▸ hu)
  have hold : ∀ j, 2 ≤ j → ∀ X : Finset Name, X.card = j + 1 → ¬ HasNew E X →
      (∀ Y ∈ X.powersetCard j, ∃ t ∈ f1.simps, t.pts = Y) → ∃ s ∈ f1.simps, s.pts = X := by
    intro j hj X hX hn hfac
    obtain ⟨s, hs, hsp⟩ := hcomp j hj X hX (by
      intro Y hY
      obtain ⟨t, ht, htp⟩ := hfac Y hY
      rcases hnew t ht with h | ⟨-, h⟩
      · exact ⟨t, h, htp⟩
      · exfalso
        apply hn
        exact ⟨t.pts, (hEmem _).mpr ⟨t, ht, h, rfl⟩, by rw [htp]; exact (Finset.mem_powersetCard.mp hY).1⟩)
    exact ⟨s, hsub.subset hs, hsp⟩
  have hcont : ∀ n ∈ news, f1.contains n = true := by
    intro n hn
    obtain ⟨t, ht, htn, -⟩ := hnames n hn
    exact contains_iff.mpr ⟨t, ht, htn⟩
  obtain ⟨g, hrun, hIg, hsubg, hnewg, hcompg⟩ := growFlagQ_complete hI1 hcont E hE hhigh hold
  have hlow : ∀ X : Finset Name, X.card ≤ 2 →
      ((∃ s ∈ g.simps, s.pts = X) ↔ (∃ s ∈ f1.simps, s.pts = X)) := by
    intro X hX
    constructor
    · rintro ⟨s, hs, hsp⟩
      rcases hnewg s hs with h | h
      · exact ⟨s, h, hsp⟩
      · exfalso
        have := hIg.pts_card hs
        rw [hsp] at this; omega
    · rintro ⟨s, hs, hsp⟩
      exact ⟨s, hsubg.subset hs, hsp⟩
  have hfam : ∀ h : C, Inv h → (∀ j, 2 ≤ j → CompleteAt h j) →
      (∀ X : Finset Name, X.card ≤ 2 → ((∃ s ∈ h.simps, s.pts = X) ↔ (∃ s ∈ f1.simps, s.pts = X))) →
      ∀ X : Finset Name, (∃ s ∈ g.simps, s.pts = X) ↔ (∃ s ∈ h.simps, s.pts = X) := by
    intro h hIh hch hlowh
    exact same_graph_same_family hIg hIh hcompg hch (fun X hX => (hlow X hX).trans (hlowh X hX).symm)
  refine ⟨g, hrun, hIg, hsubg, hnewg, hlow, hcompg, ?_, hfam, ?_⟩
  · intro X hX
    rw [complete_is_clique hIg hcompg X hX]
    constructor
    · intro h a ha b hb hab
      exact (hlow {a, b} (by rw [Finset.card_pair hab])).mp (h a ha b hb hab)
    · intro h a ha b hb hab
      exact (hlow {a, b} (by rw [Finset.card_pair hab])).mpr (h a ha b hb hab)
  · intro c0 hI0 hlow0
    obtain ⟨h, hrunh, hIh, -, -, -, hlowh, -, hcomph⟩ := flagOf_spec hI0
    exact ⟨h, hrunh, hfam h hIh hcomph (fun X hX => (hlowh X hX).trans (hlow0 X hX))⟩

/-- **C11 (unknown simplex)**: if some member of `news` is not a name of `c`, `growFlagQ` raises KeyError and
leaves the complex untouched -/
theorem growFlagQ_unknown (c : C) {news : List Name} (h : ∃ n ∈ news, c.contains n = false) :
    growFlagQ c news = (.error .key, c) := by
  unfold growFlagQ
  rw [if_neg]
  rw [List.all_eq_true]
  obtain ⟨n, hn, hc⟩ := h
  intro hall
  rw [hall n hn] at hc
  cases hc

/-- growing by nothing does nothing -/
theorem growFlagQ_nil (c : C) : growFlagQ c [] = (.ok (), c) := rfl

/-! ## non-vacuity -/

/-- the hollow triangle on `u1 u2 u3` -/
def flagExH : C := (buildC emptyC [([], .u 1), ([], .u 2), ([], .u 3), ([.u 1, .u 2], .u 12), ([.u 1, .u 3], .u 13),
  ([.u 2, .u 3], .u 23)]).getD emptyC

theorem flagExH_inv : Inv flagExH := buildC_inv _ _ _ emptyC_inv (by rfl :
  buildC emptyC [([], .u 1), ([], .u 2), ([], .u 3), ([.u 1, .u 2], .u 12), ([.u 1, .u 3], .u 13),
    ([.u 2, .u 3], .u 23)] = some flagExH)

-- flagOf_spec / flagOf_idem: the hypothesis holds for the hollow triangle (6 simplices); its flag complex has the
-- 2-simplex as well, and taking the flag complex again changes nothing
example : Inv flagExH := flagExH_inv
example : (flagOf flagExH).toOption.map (fun f => f.simps.map (·.basis)) =
    some [[.u 1], [.u 2], [.u 3], [.u 1, .u 2], [.u 1, .u 3], [.u 2, .u 3], [.u 1, .u 2, .u 3]] := by rfl
example : ((flagOf flagExH).toOption.bind (fun f => (flagOf f).toOption)).map (fun f => f.simps.map (·.basis)) =
    some [[.u 1], [.u 2], [.u 3], [.u 1, .u 2], [.u 1, .u 3], [.u 2, .u 3], [.u 1, .u 2, .u 3]] := by rfl

/-- four points, the edges `12 23 14 24` -/
def flagExP : C := (buildC emptyC [([], .u 1), ([], .u 2), ([], .u 3), ([], .u 4), ([.u 1, .u 2], .u 12),
  ([.u 2, .u 3], .u 23), ([.u 1, .u 4], .u 14), ([.u 2, .u 4], .u 24)]).getD emptyC

theorem flagExP_inv : Inv flagExP := buildC_inv _ _ _ emptyC_inv (by rfl :
  buildC emptyC [([], .u 1), ([], .u 2), ([], .u 3), ([], .u 4), ([.u 1, .u 2], .u 12),
    ([.u 2, .u 3], .u 23), ([.u 1, .u 4], .u 14), ([.u 2, .u 4], .u 24)] = some flagExP)

/-- its flag complex (the triangle `124` is filled): a valid complete complex -/
def flagExPf : C := (flagOf flagExP).toOption.getD emptyC

theorem flagExPf_run : flagOf flagExP = .ok flagExPf := rfl

theorem flagExPf_ok : Inv flagExPf ∧ ∀ j, 2 ≤ j → CompleteAt flagExPf j := by
  obtain ⟨f, hrun, hI, -, -, -, -, -, hc⟩ := flagOf_spec flagExP_inv
  rw [flagExPf_run] at hrun
  injection hrun with h
  subst h
  exact ⟨hI, hc⟩

theorem flagExPf_pts : ∀ pq ∈ [((.u 1 : Name), (.u 3 : Name)), (.u 3, .u 4)], PtsIn flagExPf [pq.1, pq.2] := by
  have h : ∀ n ∈ [1, 3, 4], ∃ t ∈ flagExPf.simps, t.name = .u n ∧ t.order = 0 := by
    intro n hn
    refine ⟨⟨.u n, 0, [], [.u n]⟩, ?_, rfl, rfl⟩
    simp only [List.mem_cons, List.not_mem_nil, or_false] at hn
    rcases hn with rfl | rfl | rfl <;> decide
  intro pq hpq p hp
  simp only [List.mem_cons, List.not_mem_nil, or_false] at hpq
  rcases hpq with rfl | rfl <;> simp only [List.mem_cons, List.not_mem_nil, or_false] at hp <;>
    rcases hp with rfl | rfl <;> exact h _ (by decide)

-- growFlagQ_spec: all hypotheses hold for `flagExPf` and the two new edges `13`, `34`; growing fills in three
-- triangles and the tetrahedron, the same vertex sets as rebuilding the flag complex from scratch
example : (addEdges flagExPf [(.u 1, .u 3), (.u 3, .u 4)]).map (fun r => (r.1, r.2.simps.length)) =
    some ([.auto 1 1, .auto 1 2], 11) := by rfl
example : (addEdges flagExPf [(.u 1, .u 3), (.u 3, .u 4)]).map
      (fun r => ((growFlagQ r.2 r.1).1, (growFlagQ r.2 r.1).2.simps.map (·.basis))) =
    some (.ok (), [[.u 1], [.u 2], [.u 3], [.u 4], [.u 1, .u 2], [.u 2, .u 3], [.u 1, .u 4], [.u 2, .u 4],
      [.u 1, .u 3], [.u 3, .u 4], [.u 1, .u 2, .u 4], [.u 1, .u 2, .u 3], [.u 2, .u 3, .u 4], [.u 1, .u 3, .u 4],
      [.u 1, .u 2, .u 3, .u 4]]) := by rfl
example : (addEdges flagExPf [(.u 1, .u 3), (.u 3, .u 4)]).bind
      (fun r => (flagOf r.2).toOption.map (fun f => f.simps.map (·.basis))) =
    some [[.u 1], [.u 2], [.u 3], [.u 4], [.u 1, .u 2], [.u 2, .u 3], [.u 1, .u 4], [.u 2, .u 4],
      [.u 1, .u 3], [.u 3, .u 4], [.u 1, .u 2, .u 4], [.u 1, .u 2, .u 3], [.u 2, .u 3, .u 4], [.u 1, .u 3, .u 4],
      [.u 1, .u 2, .u 3, .u 4]] := by rfl

/-- the two edges added: names and resulting complex -/
def flagExPf1 : List Name × C := (addEdges flagExPf [(.u 1, .u 3), (.u 3, .u 4)]).getD ([], emptyC)

theorem flagExPf1_run : addEdges flagExPf [(.u 1, .u 3), (.u 3, .u 4)] = some (flagExPf1.1, flagExPf1.2) := rfl

-- the theorem applied to this input: every hypothesis is discharged, the conclusion is about the run above
example : ∃ g, growFlagQ flagExPf1.2 flagExPf1.1 = (.ok (), g) ∧ Inv g ∧ (∀ j, 2 ≤ j → CompleteAt g j) ∧
    ∃ h, flagOf flagExPf1.2 = .ok h ∧ ∀ X : Finset Name, (∃ s ∈ g.simps, s.pts = X) ↔ (∃ s ∈ h.simps, s.pts = X) := by
  obtain ⟨g, h1, h2, -, -, -, h3, -, -, h4⟩ := growFlagQ_spec flagExPf_ok.1 flagExPf_ok.2 flagExPf_pts flagExPf1_run
  exact ⟨g, h1, h2, h3, h4 flagExPf1.2 (addEdges_spec _ _ _ _ flagExPf_ok.1 flagExPf_pts flagExPf1_run).1 (fun _ _ => Iff.rfl)⟩

-- an "edge" on one point, or an edge that exists already, makes `addEdges` fail: its success is a real hypothesis
example : addEdges flagExPf [(.u 1, .u 1)] = none ∧ addEdges flagExPf [(.u 1, .u 2)] = none := ⟨rfl, rfl⟩

-- growFlagQ_unknown: `u 99` is not a simplex of `flagExPf`
example : flagExPf.contains (.u 99) = false ∧ growFlagQ flagExPf [.u 12, .u 99] = (.error .key, flagExPf) :=
  ⟨rfl, growFlagQ_unknown flagExPf ⟨.u 99, by simp, rfl⟩⟩

end Flat
