import Sx.Props.GenBetti

/-! finite Betti tables, part G (see GenBetti.lean) -/
namespace Flat.GenBetti
open Flat
set_option maxRecDepth 100000

theorem lattice_betti_4_1 : (List.range 3).map (bettiK (lt 4 1)) = [1,0,0] ∧ euler (lt 4 1) = 1 ∧ ((lt 4 1).ofOrder 0).length = 4 := by decide +kernel
theorem lattice_betti_4_2 : (List.range 3).map (bettiK (lt 4 2)) = [1,0,0] ∧ euler (lt 4 2) = 1 ∧ ((lt 4 2).ofOrder 0).length = 8 := by decide +kernel

end Flat.GenBetti
