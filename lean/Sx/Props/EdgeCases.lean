import Sx.Model
import Sx.Props.Views
import Sx.Props.Flag
import Sx.Props.Euler
import Sx.Props.C01Ext
import Sx.Proofs.FlatRestrict2
import Mathlib.Tactic.SplitIfs
import Mathlib.Data.List.Basic
import Mathlib.Data.List.Dedup

/-! # Edge cases: repeated points, points handed to `growFlagComplex`, attributes of higher simplices

Three small families of theorems that close gaps between what earlier theorems assume and what the driver is
fed.

* **A (C02)** `restrictBasisTo c bs` for ANY list `bs` - repeats, any order, unknown names, non-points: the
  whole result (the new complex, or the rejection) is a function of the *set* of members of `bs`
  (`restrict_congr`); in particular repeats can be erased (`restrict_repeats`, for core `List.eraseDups`,
  Mathlib `List.dedup` and the model's own `dedupL`), and `restrict_spec_any` is the complete description.
  (`restrict_spec` of `FlatRestrict2` has no no-repeat hypothesis either: it assumes `PtsIn c bs`, "every member is
  the name of a point", which is exactly the guard of the model function; `restrict_spec_any` replaces it by
  the guard itself and adds the rejection branch.)
* **B (C11)** `growFlagQ c l` ignores the members of `l` that are points of `c`: exact equality of the whole
  result (outcome, `simps`, `seq`) with the run on the list without them (`growFlagQ_filter_points`,
  `growFlagQ_points`); holds for every `c`, valid or not. Handing over points only does nothing
  (`growFlagQ_only_points`). Beyond the task: the list is read as a *set* (`growFlagQ_congr`: same members apart
  from points, in any order and with any repeats, give the same result).
* **C (C19)** `levelSet` and `integrate` read the metric on the points only (`levelSet_congr_points`,
  `integrate_congr_points`). -/
namespace Flat
open Finset

/-! ## A. `restrictBasisTo` with repeated points -/

/-- the guard of `restrictBasisTo` (`isBasis(bs, fatal=True)` does not raise) says that every member of `bs` is
the name of a point -/
theorem restrict_guard_pts {c : C} {bs : List Name}
    (h : bs.all (fun b => c.orderOf? b == some 0) = true) : PtsIn c bs := by
  intro b hb
  obtain ⟨t, ht, hn, ho, -⟩ :=
    orderOf_some (by simpa using List.all_eq_true.mp h b hb : c.orderOf? b = some 0)
  exact ⟨t, ht, hn, ho⟩

/-- the guard only looks at which names occur in the list -/
theorem restrict_guard_congr (c : C) {bs bs' : List Name} (h : ∀ n, n ∈ bs ↔ n ∈ bs') :
    bs.all (fun b => c.orderOf? b == some 0) = bs'.all (fun b => c.orderOf? b == some 0) := by
  rw [Bool.eq_iff_iff, List.all_eq_true, List.all_eq_true]
  exact ⟨fun hh b hb => hh b ((h b).mpr hb), fun hh b hb => hh b ((h b).mp hb)⟩

/-- **rejection, exactly**: `restrictBasisTo` raises iff some member of the list is not (the name of) a point of
the complex - an unknown name, or the name of a simplex of positive order. No hypothesis on `c`. -/
theorem restrict_none_iff (c : C) (bs : List Name) :
    restrictBasisTo c bs = none ↔ ∃ b ∈ bs, c.orderOf? b ≠ some 0 := by
  unfold restrictBasisTo
  by_cases hg : bs.all (fun b => c.orderOf? b == some 0) = true
  · simp only [hg, Bool.not_true, Bool.false_eq_true, if_false]
    constructor
    · intro h; cases h
    · rintro ⟨b, hb, hne⟩
      exact absurd (by simpa using List.all_eq_true.mp hg b hb) hne
  · simp only [hg, Bool.not_false, if_true, true_iff]
    rw [List.all_eq_true] at hg
    push Not at hg
    obtain ⟨b, hb, hne⟩ := hg
    exact ⟨b, hb, by simpa using hne⟩

/-- **`restrictBasisTo` for any list of names** (repeats allowed, any order, any names): the call is accepted iff
every member is a point, and then the result is the complex with exactly the simplices all of whose points occur
in the list (same counter); otherwise it is rejected. -/
theorem restrict_spec_any {c : C} (hI : Inv c) (bs : List Name) :
    restrictBasisTo c bs =
      if bs.all (fun b => c.orderOf? b == some 0) then
        some { c with simps := c.simps.filter (fun t => t.pts ⊆ bs.toFinset) }
      else none := by
  by_cases hg : bs.all (fun b => c.orderOf? b == some 0) = true
  · rw [if_pos hg]
    obtain ⟨c', hr, -, hc'⟩ := restrict_spec hI (restrict_guard_pts hg)
    rw [hr, hc']
  · rw [if_neg hg]
    unfold restrictBasisTo
    simp [hg]

/-- the accepted case of `restrict_spec_any` with the validity of the result, in membership form: a simplex
survives iff every member of its basis occurs in the list -/
theorem restrict_spec_any_mem {c : C} (hI : Inv c) {bs : List Name}
    (hg : ∀ b ∈ bs, c.orderOf? b = some 0) :
    ∃ c', restrictBasisTo c bs = some c' ∧ Inv c' ∧ c'.seq = c.seq ∧ c'.simps.Sublist c.simps ∧
      ∀ t, t ∈ c'.simps ↔ t ∈ c.simps ∧ ∀ p ∈ t.basis, p ∈ bs := by
  have hg' : bs.all (fun b => c.orderOf? b == some 0) = true := by
    rw [List.all_eq_true]; intro b hb; simp [hg b hb]
  obtain ⟨c', hr, hI', hc'⟩ := restrict_spec hI (restrict_guard_pts hg')
  refine ⟨c', hr, hI', by rw [hc'], by rw [hc']; exact List.filter_sublist, ?_⟩
  intro t
  rw [hc']
  show t ∈ c.simps.filter (fun t => t.pts ⊆ bs.toFinset) ↔ _
  rw [List.mem_filter, decide_eq_true_iff]
  unfold Simp.pts
  constructor
  · rintro ⟨ht, hsub⟩
    exact ⟨ht, fun p hp => List.mem_toFinset.mp (hsub (List.mem_toFinset.mpr hp))⟩
  · rintro ⟨ht, hall⟩
    exact ⟨ht, fun p hp => List.mem_toFinset.mpr (hall p (List.mem_toFinset.mp hp))⟩

/-- **congruence**: two lists with the same members give the same result - the same complex (`simps` and
counter) when accepted, and one is rejected iff the other is (an unknown name or a non-point in one list is in
the other list too) -/
theorem restrict_congr {c : C} (hI : Inv c) {bs bs' : List Name} (h : ∀ n, n ∈ bs ↔ n ∈ bs') :
    restrictBasisTo c bs = restrictBasisTo c bs' := by
  rw [restrict_spec_any hI bs, restrict_spec_any hI bs', restrict_guard_congr c h]
  have : bs.toFinset = bs'.toFinset := by
    ext n; rw [List.mem_toFinset, List.mem_toFinset]; exact h n
  rw [this]

/-- the rejected half of the congruence needs no hypothesis on `c` -/
theorem restrict_congr_none (c : C) {bs bs' : List Name} (h : ∀ n, n ∈ bs ↔ n ∈ bs') :
    restrictBasisTo c bs = none ↔ restrictBasisTo c bs' = none := by
  rw [restrict_none_iff, restrict_none_iff]
  exact ⟨fun ⟨b, hb, hne⟩ => ⟨b, (h b).mp hb, hne⟩, fun ⟨b, hb, hne⟩ => ⟨b, (h b).mpr hb, hne⟩⟩

/-- **repeats do not matter** (core `List.eraseDups`) -/
theorem restrict_repeats {c : C} (hI : Inv c) (bs : List Name) :
    restrictBasisTo c bs = restrictBasisTo c bs.eraseDups :=
  restrict_congr hI (fun _ => List.mem_eraseDups.symm)

/-- the same for Mathlib's `List.dedup` -/
theorem restrict_repeats_dedup {c : C} (hI : Inv c) (bs : List Name) :
    restrictBasisTo c bs = restrictBasisTo c bs.dedup :=
  restrict_congr hI (fun _ => List.mem_dedup.symm)

/-- the same for the model's own `dedupL` (the Python `set(bs)`) -/
theorem restrict_repeats_dedupL {c : C} (hI : Inv c) (bs : List Name) :
    restrictBasisTo c bs = restrictBasisTo c (dedupL bs) :=
  restrict_congr hI (fun _ => mem_dedupL.symm)

/-- the order of the list does not matter -/
theorem restrict_perm {c : C} (hI : Inv c) {bs bs' : List Name} (h : bs.Perm bs') :
    restrictBasisTo c bs = restrictBasisTo c bs' :=
  restrict_congr hI (fun _ => h.mem_iff)

-- on `exE` (filled triangle 012, tail 23, isolated point 4): restricting to `[2, 0, 2, 3, 0]` (repeats, not in
-- listing order) keeps the points 0 2 3 and the edges 02 and 23, as restricting to `[0, 2, 3]` does;
-- a list with an edge name or an unknown name is rejected whatever else it contains and in whatever order
example : Inv exE := exE_inv
example : (restrictBasisTo exE [.u 2, .u 0, .u 2, .u 3, .u 0]).map (fun d => (d.simps.map (·.name), d.seq)) =
      some ([.u 0, .u 2, .u 3, .u 11, .u 13], 0) ∧
    (restrictBasisTo exE [.u 0, .u 2, .u 3]).map (fun d => (d.simps, d.seq)) =
      (restrictBasisTo exE [.u 2, .u 0, .u 2, .u 3, .u 0]).map (fun d => (d.simps, d.seq)) := by decide
example : [(.u 2 : Name), .u 0, .u 2, .u 3, .u 0].eraseDups = [.u 2, .u 0, .u 3] := by decide
example : restrictBasisTo exE [.u 2, .u 0, .u 2, .u 3, .u 0] = restrictBasisTo exE [.u 2, .u 0, .u 3] :=
  restrict_repeats exE_inv _
example : (restrictBasisTo exE [.u 0, .u 13, .u 0]).isNone ∧ (restrictBasisTo exE [.u 13, .u 0]).isNone ∧
    (restrictBasisTo exE [.u 99, .u 0, .u 99]).isNone ∧ (restrictBasisTo exE [.u 0, .u 99]).isNone := by decide

/-! ## B. `growFlagComplex` handed points -/

theorem find?_congr_mem {β : Type} {p q : β → Bool} : ∀ {l : List β}, (∀ a ∈ l, p a = q a) →
    l.find? p = l.find? q
  | [], _ => rfl
  | x :: xs, h => by
    rw [List.find?_cons, List.find?_cons, h x List.mem_cons_self,
      find?_congr_mem (fun a ha => h a (List.mem_cons_of_mem _ ha))]

theorem nssGet_nssSet (nss : List (Nat × List Name)) (k j : Nat) (v : List Name) :
    nssGet (nssSet nss k v) j = if j = k then some v else nssGet nss j := by
  unfold nssGet nssSet
  rw [List.find?_cons]
  by_cases hjk : j = k
  · subst hjk; simp
  · have : ((k, v).1 == j) = false := by simpa using fun e => hjk e.symm
    rw [this, if_neg hjk]
    simp only
    rw [List.find?_filter]
    congr 1
    apply find?_congr_mem
    intro a _
    by_cases ha : a.1 = j
    · simp [ha, hjk]
    · simp [ha]

/-- the completion loop reads the table of new simplices at the orders `≥ 1` only -/
theorem completeLoop_congr : ∀ (fuel : Nat) (c : C) (nss nss' : List (Nat × List Name)) (k maxk : Nat),
    1 ≤ k → (∀ j, 1 ≤ j → nssGet nss j = nssGet nss' j) →
    completeLoop fuel c nss k maxk = completeLoop fuel c nss' k maxk := by
  intro fuel
  induction fuel with
  | zero => intro c nss nss' k maxk _ _; rfl
  | succ fuel ih =>
    intro c nss nss' k maxk hk h
    unfold completeLoop
    by_cases hle : k ≤ maxk + 1
    · rw [if_pos hle, if_pos hle]
      simp only
      rw [h (k + 1 - 1) (by omega), h (k + 1) (by omega)]
      split
      · exact ih c nss nss' (k + 1) maxk (by omega) h
      · exact ih c nss nss' (k + 1) maxk (by omega) h
      · split
        · rfl
        · apply ih _ _ _ (k + 1) _ (by omega)
          intro j hj
          rw [nssGet_nssSet, nssGet_nssSet, h j hj]
    · rw [if_neg hle, if_neg hle]

/-- `_completePotentialSimplices` as one call of its loop, also for the empty table -/
theorem complete_eq_loop (c : C) (nss : List (Nat × List Name)) :
    complete c nss = completeLoop (c.simps.length + 3) c nss 1 (nss.foldl (fun m p => max m p.1) 0) := by
  unfold complete
  cases nss with
  | nil => simp [completeLoop, nssGet]
  | cons p ps => rfl

/-- two tables with the same entries at the orders `≥ 1` and the same largest key are completed alike -/
theorem complete_congr (c : C) {nss nss' : List (Nat × List Name)}
    (h : ∀ j, 1 ≤ j → nssGet nss j = nssGet nss' j)
    (hmax : nss.foldl (fun m p => max m p.1) 0 = nss'.foldl (fun m p => max m p.1) 0) :
    complete c nss = complete c nss' := by
  rw [complete_eq_loop, complete_eq_loop, hmax]
  exact completeLoop_congr _ c nss nss' 1 _ (Nat.le_refl _) h

/-- a simplex whose order is known is in the complex -/
theorem contains_of_orderOf {c : C} {n : Name} {k : Nat} (h : c.orderOf? n = some k) : c.contains n = true := by
  unfold Cx.orderOf? at h
  unfold Cx.contains
  cases hl : c.lookup n with
  | none => rw [hl] at h; cases h
  | some s => rfl

/-- `growFlag` (the body of `growFlagComplex` after the look-ups) ignores the points among the new simplices -/
theorem growFlag_filter_points (c : C) (l : List Name) :
    growFlag c l = growFlag c (l.filter (fun n => c.orderOf? n != some 0)) := by
  unfold growFlag
  simp only
  set l' := l.filter (fun n => c.orderOf? n != some 0) with hl'
  set ks := (l.filterMap c.orderOf?).eraseDups with hks
  set ks' := (l'.filterMap c.orderOf?).eraseDups with hks'
  set g : Nat → List Name := fun k => l.filter (fun n => c.orderOf? n == some k) with hg
  set g' : Nat → List Name := fun k => l'.filter (fun n => c.orderOf? n == some k) with hg'
  have hmem : ∀ j, j ∈ ks ↔ ∃ n ∈ l, c.orderOf? n = some j := by
    intro j; rw [hks, List.mem_eraseDups, List.mem_filterMap]
  have hmem' : ∀ j, j ∈ ks' ↔ (∃ n ∈ l, c.orderOf? n = some j) ∧ j ≠ 0 := by
    intro j
    rw [hks', List.mem_eraseDups, List.mem_filterMap, hl']
    constructor
    · rintro ⟨n, hn, ho⟩
      rw [List.mem_filter] at hn
      refine ⟨⟨n, hn.1, ho⟩, ?_⟩
      rintro rfl
      simp [ho] at hn
    · rintro ⟨⟨n, hn, ho⟩, hj⟩
      refine ⟨n, List.mem_filter.mpr ⟨hn, ?_⟩, ho⟩
      simp only [ho, bne_iff_ne, ne_eq, Option.some.injEq]
      exact hj
  have hgg : ∀ j, 1 ≤ j → g' j = g j := by
    intro j hj
    rw [hg', hg, hl']
    simp only [List.filter_filter]
    apply List.filter_congr
    intro n _
    by_cases ho : c.orderOf? n = some j
    · have : j ≠ 0 := by omega
      simp [ho, this]
    · simp [ho]
  apply complete_congr
  · intro j hj
    rw [nssGet_map g j ks, nssGet_map g' j ks', hgg j hj]
    have : j ∈ ks ↔ j ∈ ks' := by
      rw [hmem, hmem']
      exact ⟨fun hh => ⟨hh, by omega⟩, fun hh => hh.1⟩
    by_cases hin : j ∈ ks
    · rw [if_pos hin, if_pos (this.mp hin)]
    · rw [if_neg hin, if_neg (fun hh => hin (this.mpr hh))]
  · apply Nat.le_antisymm
    · apply foldl_maxkey_le _ _ _ (Nat.zero_le _)
      intro p hp
      obtain ⟨k, hk, rfl⟩ := List.mem_map.mp hp
      by_cases hk0 : k = 0
      · simp [hk0]
      · exact (foldl_maxkey_ge (ks'.map (fun k => (k, g' k))) 0).2 (k, g' k)
          (List.mem_map.mpr ⟨k, (hmem' k).mpr ⟨(hmem k).mp hk, hk0⟩, rfl⟩)
    · apply foldl_maxkey_le _ _ _ (Nat.zero_le _)
      intro p hp
      obtain ⟨k, hk, rfl⟩ := List.mem_map.mp hp
      exact (foldl_maxkey_ge (ks.map (fun k => (k, g k))) 0).2 (k, g k)
        (List.mem_map.mpr ⟨k, (hmem k).mpr ((hmem' k).mp hk).1, rfl⟩)

/-- **C11 ("0-simplices will have no effect")**: `growFlagComplex(l)` gives exactly the result - outcome,
`simps` in the same listing order, name counter - of the call on `l` with the points of `c` left out. This
includes the KeyError case: an unknown name is not a point and stays in the list. Holds for every `c`. -/
theorem growFlagQ_filter_points (c : C) (l : List Name) :
    growFlagQ c l = growFlagQ c (l.filter (fun n => c.orderOf? n != some 0)) := by
  unfold growFlagQ
  have hall : (l.filter (fun n => c.orderOf? n != some 0)).all c.contains = l.all c.contains := by
    rw [Bool.eq_iff_iff, List.all_eq_true, List.all_eq_true]
    constructor
    · intro h n hn
      by_cases ho : c.orderOf? n = some 0
      · exact contains_of_orderOf ho
      · exact h n (List.mem_filter.mpr ⟨hn, by simpa using ho⟩)
    · intro h n hn
      exact h n (List.mem_filter.mp hn).1
  rw [hall]
  split_ifs
  · exact growFlag_filter_points c l
  · rfl

/-- **points among the new simplices are ignored**: if `l` and `es` agree after the points of `c` have been
removed - e.g. `l` is any interleaving of `es` with a list `ps` of points - the two calls give the same result
(outcome, `simps`, `seq`) -/
theorem growFlagQ_points (c : C) {l es : List Name}
    (h : l.filter (fun n => c.orderOf? n != some 0) = es.filter (fun n => c.orderOf? n != some 0)) :
    growFlagQ c l = growFlagQ c es := by
  rw [growFlagQ_filter_points c l, growFlagQ_filter_points c es, h]

/-- the interleaving form: `ps` names of points of `c`, `es` without points, `l` any list that has `es` as the
sub-list of its non-`ps` members (so `l` is `es` with members of `ps` put in anywhere, any number of times) -/
theorem growFlagQ_interleave (c : C) {ps es l : List Name}
    (hps : ∀ p ∈ ps, c.orderOf? p = some 0) (hes : ∀ e ∈ es, c.orderOf? e ≠ some 0)
    (hl : l.filter (fun n => !ps.contains n) = es) (hlm : ∀ n ∈ l, n ∈ ps ∨ n ∈ es) :
    growFlagQ c l = growFlagQ c es := by
  apply growFlagQ_points
  have h1 : es.filter (fun n => c.orderOf? n != some 0) = es := by
    rw [List.filter_eq_self]
    intro e he
    simpa using hes e he
  rw [h1, ← hl]
  apply List.filter_congr
  intro n hn
  by_cases hp : n ∈ ps
  · simp [hp, hps n hp]
  · have hne : n ∈ es := (hlm n hn).resolve_left hp
    simp [hp, hes n hne]

/-- handing over points only does nothing at all -/
theorem growFlagQ_only_points (c : C) {ps : List Name} (hps : ∀ p ∈ ps, c.orderOf? p = some 0) :
    growFlagQ c ps = (.ok (), c) := by
  rw [growFlagQ_filter_points]
  have : ps.filter (fun n => c.orderOf? n != some 0) = [] := by
    rw [List.filter_eq_nil_iff]
    intro p hp
    simp [hps p hp]
  rw [this]
  rfl

/-- the component-wise reading for a valid complex: the result is valid, and outcome, `simps` and `seq` are
those of the run without the points. (To use `growFlagQ_spec` - growing equals rebuilding - for a list `l` that
has points among the new edges `news`, rewrite with `growFlagQ_points : growFlagQ f1 l = growFlagQ f1 news`.) -/
theorem growFlagQ_points_valid {c : C} (hI : Inv c) (l : List Name) :
    Inv (growFlagQ c l).2 ∧
    (growFlagQ c l).2.simps = (growFlagQ c (l.filter (fun n => c.orderOf? n != some 0))).2.simps ∧
    (growFlagQ c l).2.seq = (growFlagQ c (l.filter (fun n => c.orderOf? n != some 0))).2.seq ∧
    (growFlagQ c l).1 = (growFlagQ c (l.filter (fun n => c.orderOf? n != some 0))).1 := by
  refine ⟨?_, ?_, ?_, ?_⟩
  · exact C01X.growFlagQ_inv hI l
  all_goals rw [← growFlagQ_filter_points]

-- on `flagExPf1` (the flag complex of four points with the edges 12 23 14 24, then the new edges 13 and 34, named
-- `auto 1 1`, `auto 1 2`): growing by the two new edges interleaved with the points `u 1`, `u 3`, `u 1` adds the
-- same three triangles and the tetrahedron, with the same names and the same counter
example : Inv flagExPf1.2 := (addEdges_spec _ _ _ _ flagExPf_ok.1 flagExPf_pts flagExPf1_run).1
example : flagExPf1.1 = [.auto 1 1, .auto 1 2] ∧
    [(.u 1 : Name), .auto 1 1, .u 3, .u 1, .auto 1 2].filter (fun n => flagExPf1.2.orderOf? n != some 0) =
      [.auto 1 1, .auto 1 2] := by decide
example :
    let r := growFlagQ flagExPf1.2 [.u 1, .auto 1 1, .u 3, .u 1, .auto 1 2]
    let r' := growFlagQ flagExPf1.2 [.auto 1 1, .auto 1 2]
    r.1 = .ok () ∧ r.1 = r'.1 ∧ r.2.simps = r'.2.simps ∧ r.2.seq = r'.2.seq ∧
      r.2.simps.length = 15 ∧ flagExPf1.2.simps.length = 11 := by decide
example : growFlagQ flagExPf1.2 [.u 1, .auto 1 1, .u 3, .u 1, .auto 1 2] = growFlagQ flagExPf1.2 flagExPf1.1 :=
  growFlagQ_points _ (by decide)
example : growFlagQ flagExPf1.2 [.u 1, .u 3, .u 1] = (.ok (), flagExPf1.2) :=
  growFlagQ_only_points _ (by decide)
-- an unknown name among points: KeyError, as for the list without the points
example : (growFlagQ flagExPf1.2 [.u 1, .u 99, .u 3]).1 = .error .key ∧
    (growFlagQ flagExPf1.2 [.u 99]).1 = .error .key := by decide

/-! ## B'. `growFlagComplex` takes a *set*: order and repeats in the list do not matter either -/

/-- one pass reads the list of new faces through membership tests only -/
theorem passLoop_congr {newPrev newPrev' : List Name} (h : ∀ x, newPrev.contains x = newPrev'.contains x) :
    ∀ (cands : List (List (Simp Name))) (c : C) (newK : List Name),
      passLoop newPrev c newK cands = passLoop newPrev' c newK cands := by
  intro cands
  induction cands with
  | nil => intro c newK; rfl
  | cons cand rest ih =>
    intro c newK
    unfold passLoop
    simp only [h]
    split_ifs
    · split
      · exact ih _ _
      · split
        · exact ih _ _
        · rfl
    · exact ih _ _

/-- two tables of new simplices with, at every order `≥ 1`, entries with the same members (or no entry in both) -/
def SameTab (nss nss' : List (Nat × List Name)) : Prop :=
  ∀ j, 1 ≤ j → (nssGet nss j = none ∧ nssGet nss' j = none) ∨
    ∃ v v', nssGet nss j = some v ∧ nssGet nss' j = some v' ∧ ∀ x, x ∈ v ↔ x ∈ v'

theorem SameTab.of_eq {nss nss' : List (Nat × List Name)} (h : ∀ j, 1 ≤ j → nssGet nss j = nssGet nss' j) :
    SameTab nss nss' := by
  intro j hj
  cases hv : nssGet nss' j with
  | none => exact Or.inl ⟨by rw [h j hj, hv], rfl⟩
  | some v => exact Or.inr ⟨v, v, by rw [h j hj, hv], rfl, fun _ => Iff.rfl⟩

/-- the completion loop reads the table at the orders `≥ 1` only, and every entry as a set -/
theorem completeLoop_congr_set : ∀ (fuel : Nat) (c : C) (nss nss' : List (Nat × List Name)) (k maxk : Nat),
    1 ≤ k → SameTab nss nss' →
    completeLoop fuel c nss k maxk = completeLoop fuel c nss' k maxk := by
  intro fuel
  induction fuel with
  | zero => intro c nss nss' k maxk _ _; rfl
  | succ fuel ih =>
    intro c nss nss' k maxk hk h
    unfold completeLoop
    by_cases hle : k ≤ maxk + 1
    · rw [if_pos hle, if_pos hle]
      simp only
      rcases h (k + 1 - 1) (by omega) with ⟨h1, h1'⟩ | ⟨v, v', h1, h1', hv⟩
      · rw [h1, h1']
        exact ih c nss nss' (k + 1) maxk (by omega) h
      · rw [h1, h1']
        cases v with
        | nil =>
          have : v' = [] := by
            cases v' with
            | nil => rfl
            | cons b bs => exact absurd ((hv b).mpr List.mem_cons_self) (by simp)
          subst this
          exact ih c nss nss' (k + 1) maxk (by omega) h
        | cons a as =>
          cases v' with
          | nil => exact absurd ((hv a).mp List.mem_cons_self) (by simp)
          | cons b bs =>
            simp only
            have hp : ∀ x, (a :: as).contains x = (b :: bs).contains x := by
              intro x
              rw [Bool.eq_iff_iff, List.contains_iff_mem, List.contains_iff_mem]
              exact hv x
            rw [passLoop_congr hp]
            split
            · rfl
            · rename_i added c' _
              apply ih _ _ _ (k + 1) _ (by omega)
              intro j hj
              rw [nssGet_nssSet, nssGet_nssSet]
              by_cases hjk : j = k + 1
              · rw [if_pos hjk, if_pos hjk]
                refine Or.inr ⟨_, _, rfl, rfl, ?_⟩
                intro x
                rw [List.mem_append, List.mem_append]
                have : x ∈ (nssGet nss (k + 1)).getD [] ↔ x ∈ (nssGet nss' (k + 1)).getD [] := by
                  rcases h (k + 1) (by omega) with ⟨h2, h2'⟩ | ⟨w, w', h2, h2', hw⟩
                  · rw [h2, h2']
                  · rw [h2, h2']; exact hw x
                rw [this]
              · rw [if_neg hjk, if_neg hjk]
                exact h j hj
    · rw [if_neg hle, if_neg hle]

theorem complete_congr_set (c : C) {nss nss' : List (Nat × List Name)} (h : SameTab nss nss')
    (hmax : nss.foldl (fun m p => max m p.1) 0 = nss'.foldl (fun m p => max m p.1) 0) :
    complete c nss = complete c nss' := by
  rw [complete_eq_loop, complete_eq_loop, hmax]
  exact completeLoop_congr_set _ c nss nss' 1 _ (Nat.le_refl _) h

/-- `growFlag` depends on the set of members of the list only -/
theorem growFlag_congr_set (c : C) {l l' : List Name} (h : ∀ n, n ∈ l ↔ n ∈ l') :
    growFlag c l = growFlag c l' := by
  unfold growFlag
  simp only
  set ks := (l.filterMap c.orderOf?).eraseDups with hks
  set ks' := (l'.filterMap c.orderOf?).eraseDups with hks'
  set g : Nat → List Name := fun k => l.filter (fun n => c.orderOf? n == some k) with hg
  set g' : Nat → List Name := fun k => l'.filter (fun n => c.orderOf? n == some k) with hg'
  have hmem : ∀ j, j ∈ ks ↔ j ∈ ks' := by
    intro j
    rw [hks, hks', List.mem_eraseDups, List.mem_eraseDups, List.mem_filterMap, List.mem_filterMap]
    exact ⟨fun ⟨n, hn, ho⟩ => ⟨n, (h n).mp hn, ho⟩, fun ⟨n, hn, ho⟩ => ⟨n, (h n).mpr hn, ho⟩⟩
  have hgg : ∀ j x, x ∈ g j ↔ x ∈ g' j := by
    intro j x
    rw [hg, hg']
    simp only [List.mem_filter, h x]
  apply complete_congr_set
  · intro j _
    rw [nssGet_map g j ks, nssGet_map g' j ks']
    by_cases hin : j ∈ ks
    · rw [if_pos hin, if_pos ((hmem j).mp hin)]
      exact Or.inr ⟨_, _, rfl, rfl, hgg j⟩
    · rw [if_neg hin, if_neg (fun hh => hin ((hmem j).mpr hh))]
      exact Or.inl ⟨rfl, rfl⟩
  · apply Nat.le_antisymm
    · apply foldl_maxkey_le _ _ _ (Nat.zero_le _)
      intro p hp
      obtain ⟨k, hk, rfl⟩ := List.mem_map.mp hp
      exact (foldl_maxkey_ge (ks'.map (fun k => (k, g' k))) 0).2 (k, g' k)
        (List.mem_map.mpr ⟨k, (hmem k).mp hk, rfl⟩)
    · apply foldl_maxkey_le _ _ _ (Nat.zero_le _)
      intro p hp
      obtain ⟨k, hk, rfl⟩ := List.mem_map.mp hp
      exact (foldl_maxkey_ge (ks.map (fun k => (k, g k))) 0).2 (k, g k)
        (List.mem_map.mpr ⟨k, (hmem k).mpr hk, rfl⟩)

/-- **`growFlagComplex` takes a set, and points in it are ignored**: if two lists have the same members apart
from points of `c` (any order, any repeats, any points added or left out), the two calls give the same result -
outcome, `simps` in the same listing order, name counter. Holds for every `c`. -/
theorem growFlagQ_congr (c : C) {l l' : List Name}
    (h : ∀ n, c.orderOf? n ≠ some 0 → (n ∈ l ↔ n ∈ l')) :
    growFlagQ c l = growFlagQ c l' := by
  rw [growFlagQ_filter_points c l, growFlagQ_filter_points c l']
  have hm : ∀ n, n ∈ l.filter (fun n => c.orderOf? n != some 0) ↔
      n ∈ l'.filter (fun n => c.orderOf? n != some 0) := by
    intro n
    simp only [List.mem_filter, bne_iff_ne, ne_eq]
    exact ⟨fun ⟨h1, h2⟩ => ⟨(h n h2).mp h1, h2⟩, fun ⟨h1, h2⟩ => ⟨(h n h2).mpr h1, h2⟩⟩
  unfold growFlagQ
  have hall : (l.filter (fun n => c.orderOf? n != some 0)).all c.contains =
      (l'.filter (fun n => c.orderOf? n != some 0)).all c.contains := by
    rw [Bool.eq_iff_iff, List.all_eq_true, List.all_eq_true]
    exact ⟨fun hh n hn => hh n ((hm n).mpr hn), fun hh n hn => hh n ((hm n).mp hn)⟩
  rw [hall]
  split_ifs
  · exact growFlag_congr_set c hm
  · rfl

/-- the same with bounded (decidable) hypotheses -/
theorem growFlagQ_congr' (c : C) {l l' : List Name}
    (h1 : ∀ n ∈ l, c.orderOf? n ≠ some 0 → n ∈ l') (h2 : ∀ n ∈ l', c.orderOf? n ≠ some 0 → n ∈ l) :
    growFlagQ c l = growFlagQ c l' :=
  growFlagQ_congr c (fun n hn => ⟨fun hl => h1 n hl hn, fun hl => h2 n hl hn⟩)

-- the new edges in the other order, repeated, with points in between: the same result again
example : growFlagQ flagExPf1.2 [.auto 1 2, .u 3, .auto 1 1, .auto 1 2, .u 4] = growFlagQ flagExPf1.2 flagExPf1.1 :=
  growFlagQ_congr' _ (by decide) (by decide)
example :
    let r := growFlagQ flagExPf1.2 [.auto 1 2, .u 3, .auto 1 1, .auto 1 2, .u 4]
    let r' := growFlagQ flagExPf1.2 [.auto 1 1, .auto 1 2]
    r.1 = r'.1 ∧ r.2.simps = r'.2.simps ∧ r.2.seq = r'.2.seq := by decide

/-! ## C. the Euler integral ignores the metric of higher simplices -/

/-- **`levelSet` reads the metric on the points only**: two metrics that agree on every point of `c` give the
same level set (the same complex: `simps` and counter). No hypothesis on `c`. -/
theorem levelSet_congr_points (c : C) {m m' : Name → Int}
    (h : ∀ s ∈ c.simps, s.order = 0 → m s.name = m' s.name) (l : Int) :
    levelSet c m l = levelSet c m' l := by
  unfold levelSet
  simp only
  have : (c.ofOrder 0).filter (fun s => decide (m s.name > l)) =
      (c.ofOrder 0).filter (fun s => decide (m' s.name > l)) := by
    apply List.filter_congr
    intro s hs
    unfold Cx.ofOrder at hs
    obtain ⟨hs1, hs0⟩ := List.mem_filter.mp hs
    rw [h s hs1 (by simpa using hs0)]
  rw [this]

/-- **`integrate` reads the metric on the points only**: for a valid complex, two metrics that agree on every
point give the same integral - whatever they say on the simplices of positive order (those values only change
the number of turns of the loop, and the extra turns add the Euler characteristic of the empty complex) -/
theorem integrate_congr_points {c : C} (hI : Inv c) {m m' : Name → Int}
    (h : ∀ s ∈ c.simps, s.order = 0 → m s.name = m' s.name) :
    integrate c m = integrate c m' := by
  rw [(integrate_levels hI m).2, (integrate_levels hI m').2]
  have hmap : (c.ofOrder 0).map (fun s => m s.name) = (c.ofOrder 0).map (fun s => m' s.name) := by
    apply List.map_congr_left
    intro s hs
    unfold Cx.ofOrder at hs
    obtain ⟨hs1, hs0⟩ := List.mem_filter.mp hs
    exact h s hs1 (by simpa using hs0)
  rw [hmap]
  apply Finset.sum_congr rfl
  intro l _
  rw [levelSet_congr_points c h]

/-- `exM` with other values on the simplices of positive order: 12 on the edge 01, 7 on the triangle, and the 9
on the edge 23 removed -/
def exM' : Name → Int
  | .u 0 => 3 | .u 1 => 2 | .u 2 => 2 | .u 3 => 1 | .u 4 => 5 | .u 10 => 12 | .u 20 => 7 | _ => 0

example : Inv exE ∧ (∀ s ∈ exE.simps, s.order = 0 → exM s.name = exM' s.name) ∧
    exM (.u 13) ≠ exM' (.u 13) ∧ exM (.u 10) ≠ exM' (.u 10) ∧ exM (.u 20) ≠ exM' (.u 20) :=
  ⟨exE_inv, by decide, by decide, by decide, by decide⟩
example : integrate exE exM = 8 ∧ integrate exE exM' = 8 := by decide
example : integrate exE exM = integrate exE exM' := integrate_congr_points exE_inv (by decide)
example : (levelSet exE exM 1).simps = (levelSet exE exM' 1).simps ∧
    (levelSet exE exM 1).seq = (levelSet exE exM' 1).seq ∧ (levelSet exE exM 1).simps.length = 8 := by decide
example : levelSet exE exM 1 = levelSet exE exM' 1 := levelSet_congr_points exE (by decide) 1

end Flat
