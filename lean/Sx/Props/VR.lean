import Sx.Model
import Sx.Props.Generators
import Sx.Proofs.FlagMain
import Sx.Proofs.Compose
import Sx.Proofs.FlatCount
import Mathlib.Tactic.SplitIfs
import Mathlib.Data.Finset.Card
import Mathlib.Data.List.Basic

/-! # C12 — the Vietoris–Rips complex is the clique complex of the closeness graph

`vietorisRips pts close`: `pts` = the names of the embedded points, `close` = the pairs of positions `(i, j)`,
`i < j`, whose points are within `eps` (the float comparison is made by the real code and handed in).

The last step of the construction is `flagOf`, which works on a copy (`copyNew`). The one fact about `copyNew`
that is needed is `CopyFact` (the copy succeeds, is valid, and has a simplex on exactly the same vertex sets);
it is proved here (`copyNew_fact`) from `composeLoop_spec`, so the theorems below carry no hypothesis about
copying. (The full structural `copyNew_spec` is someone else's task; `CopyFact` is a consequence of it.) -/
namespace Flat
open Finset

/-- what is needed about `copyNew`: copying a valid complex succeeds and gives a valid complex with a simplex
on exactly the same vertex sets -/
def CopyFact : Prop :=
  ∀ a : C, Inv a → ∃ l a', copyNew a = (.ok l, a') ∧ Inv a' ∧
    ∀ X : Finset Name, (∃ s ∈ a'.simps, s.pts = X) ↔ (∃ s ∈ a.simps, s.pts = X)

/-! ## the fact about `copyNew`: it performs the additions of `compose` into the empty complex -/

theorem simplexWithBasis_emptyC (bs : List Name) : simplexWithBasis emptyC bs = none := by
  cases bs <;> rfl

theorem addFromLoop_of_composeLoop : ∀ (L : List (Simp Name)) (d : C) (acc : List Name) (d' : C),
    composeLoop emptyC d L = .ok d' → ∃ acc', addFromLoop id d acc L = (.ok acc', d') := by
  intro L
  induction L with
  | nil =>
    intro d acc d' h
    unfold composeLoop at h
    injection h with h
    exact ⟨acc, by rw [← h]; rfl⟩
  | cons s L ih =>
    intro d acc d' h
    unfold composeLoop at h
    have hc : emptyC.contains s.name = false := rfl
    simp only [hc, simplexWithBasis_emptyC, Bool.false_eq_true, if_false] at h
    unfold addFromLoop
    simp only [id, bne_self_eq_false, Bool.false_and, Bool.false_eq_true, if_false, List.map_id]
    cases hadd : d.addSimplex s.faces s.name with
    | error e => rw [hadd] at h; cases h
    | ok d1 =>
      rw [hadd] at h
      simp only at h ⊢
      exact ih d1 _ d' h

theorem copyNew_fact : CopyFact := by
  intro a hIa
  have hcomp : Compatible emptyC a := ⟨fun _ _ t ht => (by cases ht), fun _ _ t ht => (by cases ht)⟩
  obtain ⟨d', hrun, hC⟩ := composeLoop_spec gen_inv_emptyC hIa hcomp a.simps [] emptyC (by simp)
    ⟨gen_inv_emptyC, List.Sublist.refl _, fun t ht => Or.inl ht, by simp⟩
  obtain ⟨l, hl⟩ := addFromLoop_of_composeLoop a.simps emptyC [] d' hrun
  refine ⟨l, d', hl, hC.inv, ?_⟩
  intro X
  constructor
  · rintro ⟨t, ht, rfl⟩
    rcases hC.src t ht with h | ⟨s, hs, -, hp, -⟩
    · cases h
    · exact ⟨s, hs, hp.symm⟩
  · rintro ⟨s, hs, rfl⟩
    obtain ⟨t, ht, -, hp⟩ := hC.done s hs
    exact ⟨t, ht, hp⟩

/-! ## the three stages of `vietorisRips` -/

def vrPtStep (acc : Except Err C) (p : Name) : Except Err C :=
  match acc with
  | .error e => .error e
  | .ok c => c.addSimplex [] p

def vrPairs (n : Nat) : List (Nat × Nat) :=
  (List.range (n - 1)).flatMap (fun i => ((List.range n).filter (fun j => i < j)).map (fun j => (i, j)))

def vrEdgeStep (pts : List Name) (close : List (Nat × Nat)) (acc : Except Err C) (ij : Nat × Nat) :
    Except Err C :=
  match acc with
  | .error e => .error e
  | .ok c =>
    if close.contains ij then
      match pts[ij.1]?, pts[ij.2]? with
      | some p, some q =>
        match addSimplexWithBasis' c [p, q] none with
        | (.ok _, c') => .ok c'
        | (.error e, _) => .error e
      | _, _ => .ok c
    else .ok c

theorem vietorisRips_eq (pts : List Name) (close : List (Nat × Nat)) :
    vietorisRips pts close =
      match pts.foldl vrPtStep (.ok emptyC) with
      | .error e => .error e
      | .ok c0 =>
        match (vrPairs pts.length).foldl (vrEdgeStep pts close) (.ok c0) with
        | .error e => .error e
        | .ok c1 => flagOf c1 := rfl

theorem mem_vrPairs {n i j : Nat} : (i, j) ∈ vrPairs n ↔ i < j ∧ j < n := by
  unfold vrPairs
  simp only [List.mem_flatMap, List.mem_map, List.mem_filter, List.mem_range, decide_eq_true_eq,
    Prod.mk.injEq]
  constructor
  · rintro ⟨a, ha, b, ⟨hb, hab⟩, rfl, rfl⟩
    exact ⟨hab, hb⟩
  · rintro ⟨h1, h2⟩
    exact ⟨i, by omega, j, ⟨h2, h1⟩, rfl, rfl⟩

theorem vrPairs_nodup (n : Nat) : (vrPairs n).Nodup := by
  unfold vrPairs
  rw [List.nodup_flatMap]
  constructor
  · intro i _
    apply List.Nodup.map
    · intro a b h; exact (Prod.mk.inj h).2
    · exact List.nodup_range.filter _
  · refine List.Pairwise.imp_of_mem (fun {a b} _ _ hab => ?_) (List.nodup_range (n := n - 1))
    intro x hxa hxb
    obtain ⟨j, -, rfl⟩ := List.mem_map.mp hxa
    obtain ⟨j', -, h⟩ := List.mem_map.mp hxb
    exact hab (Prod.mk.inj h).1.symm

/-- the first loop: one point per name -/
theorem ptLoop_spec : ∀ (l : List Name) (c : C), Inv c → l.Nodup → (∀ p ∈ l, c.contains p = false) →
    ∃ c', l.foldl vrPtStep (.ok c) = .ok c' ∧ Inv c' ∧ c.simps.Sublist c'.simps ∧
      (∀ t, t ∈ c'.simps ↔ t ∈ c.simps ∨ ∃ p ∈ l, t = ptS p) := by
  intro l
  induction l with
  | nil =>
    intro c hI _ _
    exact ⟨c, rfl, hI, List.Sublist.refl _, by simp⟩
  | cons p l ih =>
    intro c hI hnd hfr
    rw [List.nodup_cons] at hnd
    obtain ⟨c1, hadd, hI1, hs1⟩ := addPoint_spec hI (hfr p List.mem_cons_self)
    have hmem1 : ∀ t, t ∈ c1.simps ↔ t = ptS p ∨ t ∈ c.simps := by
      intro t; rw [hs1]; exact mem_insertSorted
    obtain ⟨c', hrun, hI', hsub, hmem⟩ := ih c1 hI1 hnd.2 (by
      intro q hq
      rw [contains_false_iff]
      intro t ht
      rcases (hmem1 t).mp ht with rfl | h
      · intro e; exact hnd.1 (by rw [show p = q from e]; exact hq)
      · exact contains_false_iff.mp (hfr q (List.mem_cons_of_mem _ hq)) t h)
    refine ⟨c', ?_, hI', ?_, ?_⟩
    · rw [List.foldl_cons]
      show l.foldl vrPtStep (c.addSimplex [] p) = _
      rw [hadd]; exact hrun
    · refine List.Sublist.trans ?_ hsub
      rw [hs1]; exact sublist_insertSorted _ _
    · intro t
      rw [hmem t, hmem1 t]
      constructor
      · rintro ((rfl | h) | ⟨q, hq, rfl⟩)
        · exact Or.inr ⟨p, List.mem_cons_self, rfl⟩
        · exact Or.inl h
        · exact Or.inr ⟨q, List.mem_cons_of_mem _ hq, rfl⟩
      · rintro (h | ⟨q, hq, rfl⟩)
        · exact Or.inl (Or.inr h)
        · rcases List.mem_cons.mp hq with rfl | hq
          · exact Or.inl (Or.inl rfl)
          · exact Or.inr ⟨q, hq, rfl⟩

/-! ## the graph built by the second loop -/

/-- `c` consists of the points `pts` and one edge for each pair of positions in `E` -/
structure Graph (pts : List Name) (c : C) (E : List (Nat × Nat)) : Prop where
  inv : Inv c
  pmem : ∀ p ∈ pts, ptS p ∈ c.simps
  shape : ∀ t ∈ c.simps, (t.order = 0 ∧ t.name ∈ pts) ∨
    (∃ ij ∈ E, ∃ a b, pts[ij.1]? = some a ∧ pts[ij.2]? = some b ∧ t.pts = {a, b})
  edges : ∀ ij ∈ E, ∀ a b, pts[ij.1]? = some a → pts[ij.2]? = some b → ∃ t ∈ c.simps, t.pts = {a, b}

theorem idx_inj {pts : List Name} (hnd : pts.Nodup) {i j : Nat} {a : Name}
    (hi : pts[i]? = some a) (hj : pts[j]? = some a) : i = j := by
  have hlt : i < pts.length := (List.getElem?_eq_some_iff.mp hi).1
  exact (List.getElem?_inj hlt hnd).mp (hi.trans hj.symm)

/-- two increasing pairs of positions with the same pair of points are the same pair -/
theorem pair_idx {pts : List Name} (hnd : pts.Nodup) {i j i' j' : Nat} {a b p q : Name}
    (h1 : i' < j') (h2 : i < j) (ha : pts[i']? = some a) (hb : pts[j']? = some b)
    (hp : pts[i]? = some p) (hq : pts[j]? = some q) (he : ({a, b} : Finset Name) = {p, q}) :
    i' = i ∧ j' = j := by
  have haa : a ∈ ({p, q} : Finset Name) := he ▸ (by simp)
  have hbb : b ∈ ({p, q} : Finset Name) := he ▸ (by simp)
  simp only [Finset.mem_insert, Finset.mem_singleton] at haa hbb
  rcases haa with rfl | rfl <;> rcases hbb with rfl | rfl
  · have := idx_inj hnd ha hb; omega
  · exact ⟨idx_inj hnd ha hp, idx_inj hnd hb hq⟩
  · have e1 := idx_inj hnd ha hq
    have e2 := idx_inj hnd hb hp
    omega
  · have := idx_inj hnd ha hb; omega

theorem edge_add {pts : List Name} (hnd : pts.Nodup) {c : C} {E : List (Nat × Nat)} (G : Graph pts c E)
    (hE : ∀ ij ∈ E, ij.1 < ij.2) {i j : Nat} (hij : i < j) (hnew : (i, j) ∉ E) {p q : Name}
    (hp : pts[i]? = some p) (hq : pts[j]? = some q) :
    ∃ n c', addSimplexWithBasis' c [p, q] none = (.ok n, c') ∧ Graph pts c' (E ++ [(i, j)]) := by
  classical
  have hpq : p ≠ q := by
    intro e; subst e
    have := idx_inj hnd hp hq; omega
  have hset : ([p, q] : List Name).toFinset = {p, q} := by simp
  have hpm : p ∈ pts := List.mem_of_getElem? hp
  have hqm : q ∈ pts := List.mem_of_getElem? hq
  have hnone : ¬ ∃ t ∈ c.simps, t.pts = ([p, q] : List Name).toFinset := by
    rintro ⟨t, ht, htp⟩
    rw [hset] at htp
    rcases G.shape t ht with ⟨h0, -⟩ | ⟨ij, hijE, a, b, ha, hb, hab⟩
    · have := G.inv.pts_card ht
      rw [htp, Finset.card_pair hpq, h0] at this; omega
    · obtain ⟨e1, e2⟩ := pair_idx hnd (hE ij hijE) hij ha hb hp hq (hab.symm.trans htp)
      apply hnew
      rw [← e1, ← e2]; exact hijE
  obtain ⟨n, c', hrun, hI', hsub, hnm, -, hnew'⟩ := addSimplexWithBasis_spec G.inv (bs := [p, q])
    (by simp [hpq]) (by simp) (by
      intro b hb _
      simp only [List.mem_cons, List.not_mem_nil, or_false] at hb
      rcases hb with rfl | rfl
      · exact ⟨ptS b, G.pmem b hpm, rfl, rfl⟩
      · exact ⟨ptS b, G.pmem b hqm, rfl, rfl⟩) hnone none (fun n hn => by cases hn)
  refine ⟨n, c', hrun, hI', fun x hx => hsub.subset (G.pmem x hx), ?_, ?_⟩
  · intro t ht
    rcases hnew' t ht with h | h
    · rcases G.shape t h with h0 | ⟨ij, hijE, rest⟩
      · exact Or.inl h0
      · exact Or.inr ⟨ij, List.mem_append_left _ hijE, rest⟩
    · rw [hset] at h
      have hc := hI'.pts_card ht
      have hle := Finset.card_le_card h
      rw [Finset.card_pair hpq] at hle
      rcases Nat.eq_zero_or_pos t.order with h0 | hpos
      · left
        refine ⟨h0, ?_⟩
        have hb := (hI'.point t ht h0).2
        have : t.name ∈ t.pts := by rw [Simp.pts, hb]; simp
        have := h this
        simp only [Finset.mem_insert, Finset.mem_singleton] at this
        rcases this with e | e <;> rw [e] <;> assumption
      · right
        refine ⟨(i, j), by simp, p, q, hp, hq, ?_⟩
        exact Finset.eq_of_subset_of_card_le h (by rw [Finset.card_pair hpq]; omega)
  · intro ij hijE a b ha hb
    rcases List.mem_append.mp hijE with h | h
    · obtain ⟨t, ht, htp⟩ := G.edges ij h a b ha hb
      exact ⟨t, hsub.subset ht, htp⟩
    · rw [List.mem_singleton] at h
      subst h
      simp only at ha hb
      have e1 : a = p := Option.some.inj (ha.symm.trans hp)
      have e2 : b = q := Option.some.inj (hb.symm.trans hq)
      obtain ⟨t, ht, -, htp⟩ := hnm
      exact ⟨t, ht, by rw [htp, hset, e1, e2]⟩

theorem Graph.weaken {pts : List Name} {c : C} {E E' : List (Nat × Nat)} (G : Graph pts c E)
    (h : ∀ x, x ∈ E ↔ x ∈ E') : Graph pts c E' := by
  refine ⟨G.inv, G.pmem, ?_, ?_⟩
  · intro t ht
    rcases G.shape t ht with h0 | ⟨ij, hijE, rest⟩
    · exact Or.inl h0
    · exact Or.inr ⟨ij, (h ij).mp hijE, rest⟩
  · intro ij hij; exact G.edges ij ((h ij).mpr hij)

/-- the second loop: an edge for each listed pair that is close -/
theorem edgeLoop_spec {pts : List Name} (hnd : pts.Nodup) (close : List (Nat × Nat)) :
    ∀ (L E : List (Nat × Nat)) (c : C), Graph pts c E →
      (∀ ij ∈ E ++ L, ij.1 < ij.2 ∧ ij.2 < pts.length) → (E ++ L).Nodup →
      ∃ c', L.foldl (vrEdgeStep pts close) (.ok c) = .ok c' ∧
        Graph pts c' (E ++ L.filter (fun ij => close.contains ij)) := by
  intro L
  induction L with
  | nil =>
    intro E c G _ _
    exact ⟨c, rfl, by simpa using G⟩
  | cons ij L ih =>
    intro E c G hidx hnodup
    obtain ⟨i, j⟩ := ij
    have hij := hidx (i, j) (by simp)
    simp only at hij
    rw [List.foldl_cons]
    by_cases hcl : close.contains (i, j) = true
    · obtain ⟨p, hp⟩ : ∃ p, pts[i]? = some p := ⟨pts[i]'(by omega), List.getElem?_eq_getElem (by omega)⟩
      obtain ⟨q, hq⟩ : ∃ q, pts[j]? = some q := ⟨pts[j]'(by omega), List.getElem?_eq_getElem (by omega)⟩
      have hnotin : (i, j) ∉ E := by
        intro hin
        rw [List.nodup_append] at hnodup
        exact hnodup.2.2 _ hin _ List.mem_cons_self rfl
      obtain ⟨n, c2, hrun, G2⟩ := edge_add hnd G (fun x hx => (hidx x (List.mem_append_left _ hx)).1)
        hij.1 hnotin hp hq
      have hstep : vrEdgeStep pts close (.ok c) (i, j) = .ok c2 := by
        unfold vrEdgeStep
        simp only [hcl, if_true, hp, hq, hrun]
      rw [hstep]
      obtain ⟨c', hrun', G'⟩ := ih (E ++ [(i, j)]) c2 G2
        (by intro x hx; exact hidx x (by simpa using hx))
        (by simpa using hnodup)
      refine ⟨c', hrun', G'.weaken ?_⟩
      intro x
      have hcl' : (i, j) ∈ close := by simpa using hcl
      simp [hcl']
    · have hstep : vrEdgeStep pts close (.ok c) (i, j) = .ok c := by
        unfold vrEdgeStep
        simp only [hcl]
        rfl
      rw [hstep]
      obtain ⟨c', hrun', G'⟩ := ih E c G
        (by
          intro x hx
          apply hidx x
          rcases List.mem_append.mp hx with h | h
          · exact List.mem_append_left _ h
          · exact List.mem_append_right _ (List.mem_cons_of_mem _ h))
        (by
          rw [List.nodup_append] at hnodup ⊢
          exact ⟨hnodup.1, (List.nodup_cons.mp hnodup.2.1).2,
            fun a ha b hb => hnodup.2.2 a ha b (List.mem_cons_of_mem _ hb)⟩)
      refine ⟨c', hrun', G'.weaken ?_⟩
      intro x
      have hcl' : (i, j) ∉ close := by simpa using hcl
      simp [hcl']

theorem Graph.point {pts : List Name} (hnd : pts.Nodup) {c : C} {E : List (Nat × Nat)} (G : Graph pts c E)
    (hE : ∀ ij ∈ E, ij.1 < ij.2) {s : Simp Name} (hs : s ∈ c.simps) (h0 : s.order = 0) : s.name ∈ pts := by
  rcases G.shape s hs with h | ⟨ij, hij, a, b, ha, hb, hab⟩
  · exact h.2
  · exfalso
    have hne : a ≠ b := by
      intro e; subst e
      have := idx_inj hnd ha hb
      have := hE ij hij
      omega
    have := G.inv.pts_card hs
    rw [hab, Finset.card_pair hne, h0] at this
    omega

theorem Graph.edge_iff {pts : List Name} {c : C} {E : List (Nat × Nat)} (G : Graph pts c E)
    {a b : Name} (hab : a ≠ b) :
    (∃ e ∈ c.simps, e.pts = {a, b}) ↔
      ∃ i j, (i, j) ∈ E ∧ ((pts[i]? = some a ∧ pts[j]? = some b) ∨ (pts[i]? = some b ∧ pts[j]? = some a)) := by
  constructor
  · rintro ⟨e, he, hep⟩
    rcases G.shape e he with ⟨h0, -⟩ | ⟨ij, hij, a', b', ha', hb', hab'⟩
    · exfalso
      have := G.inv.pts_card he
      rw [hep, Finset.card_pair hab, h0] at this; omega
    · have heq : ({a', b'} : Finset Name) = {a, b} := hab'.symm.trans hep
      have h1 : a' ∈ ({a, b} : Finset Name) := heq ▸ (by simp)
      have h2 : b' ∈ ({a, b} : Finset Name) := heq ▸ (by simp)
      have h3 : a ∈ ({a', b'} : Finset Name) := heq ▸ (by simp)
      have h4 : b ∈ ({a', b'} : Finset Name) := heq ▸ (by simp)
      simp only [Finset.mem_insert, Finset.mem_singleton] at h1 h2 h3 h4
      refine ⟨ij.1, ij.2, hij, ?_⟩
      rcases h1 with rfl | rfl <;> rcases h2 with rfl | rfl
      · exfalso; rcases h4 with e | e <;> exact hab e.symm
      · exact Or.inl ⟨ha', hb'⟩
      · exact Or.inr ⟨ha', hb'⟩
      · exfalso; rcases h3 with e | e <;> exact hab e
  · rintro ⟨i, j, hij, ⟨h1, h2⟩ | ⟨h1, h2⟩⟩
    · exact G.edges (i, j) hij a b h1 h2
    · obtain ⟨t, ht, htp⟩ := G.edges (i, j) hij b a h1 h2
      exact ⟨t, ht, by rw [htp, Finset.pair_comm]⟩

/-! ## the result -/

/-- what `vietorisRips pts close` returns: a valid complex whose points are exactly `pts`, whose simplices all
lie on `pts`, and which has a simplex on a set `X` of at least two of the points iff every two members of `X`
(at positions `i < j`) are close -/
structure VRSpec (pts : List Name) (close : List (Nat × Nat)) (v : C) : Prop where
  inv : Inv v
  points : ∀ p, (∃ t ∈ v.simps, t.order = 0 ∧ t.name = p) ↔ p ∈ pts
  within : ∀ t ∈ v.simps, t.pts ⊆ pts.toFinset
  clique : ∀ X : Finset Name, 2 ≤ X.card → X ⊆ pts.toFinset →
    ((∃ s ∈ v.simps, s.pts = X) ↔
      ∀ i j a b, i < j → pts[i]? = some a → pts[j]? = some b → a ∈ X → b ∈ X → (i, j) ∈ close)

/-- **C12**: for a repeat-free list of names the construction succeeds and yields the clique complex of the
closeness graph -/
theorem vietorisRips_spec {pts : List Name} (hnd : pts.Nodup) (close : List (Nat × Nat)) :
    ∃ v, vietorisRips pts close = .ok v ∧ VRSpec pts close v := by
  classical
  rw [vietorisRips_eq]
  obtain ⟨c0, h0run, hI0, -, hmem0⟩ := ptLoop_spec pts emptyC gen_inv_emptyC hnd (by intro p _; rfl)
  rw [h0run]
  simp only
  have G0 : Graph pts c0 [] := by
    refine ⟨hI0, fun p hp => (hmem0 _).mpr (Or.inr ⟨p, hp, rfl⟩), ?_, by intro ij h; cases h⟩
    intro t ht
    rcases (hmem0 t).mp ht with h | ⟨p, hp, rfl⟩
    · cases h
    · exact Or.inl ⟨rfl, hp⟩
  obtain ⟨c1, h1run, G1⟩ := edgeLoop_spec hnd close (vrPairs pts.length) [] c0 G0
    (by
      intro ij hij
      obtain ⟨i, j⟩ := ij
      exact mem_vrPairs.mp (by simpa using hij))
    (by simpa using vrPairs_nodup _)
  rw [h1run]
  simp only [List.nil_append] at G1 ⊢
  have hEmem : ∀ i j, (i, j) ∈ (vrPairs pts.length).filter (fun ij => close.contains ij) ↔
      (i < j ∧ j < pts.length) ∧ (i, j) ∈ close := by
    intro i j
    rw [List.mem_filter, mem_vrPairs]
    simp
  have hElt : ∀ ij ∈ (vrPairs pts.length).filter (fun ij => close.contains ij), ij.1 < ij.2 := by
    intro ij hij
    obtain ⟨i, j⟩ := ij
    exact ((hEmem i j).mp hij).1.1
  obtain ⟨l, d0, hcp, hId0, hsame⟩ := copyNew_fact c1 G1.inv
  obtain ⟨v, hfl, hIv, hsubv, hnewv, hcl⟩ := flagComplex_spec d0 hId0
  have hres : flagOf c1 = .ok v := by
    unfold flagOf
    simp only [hcp, hfl]
  have hpoints : ∀ p, (∃ t ∈ v.simps, t.order = 0 ∧ t.name = p) ↔ p ∈ pts := by
    intro p
    constructor
    · rintro ⟨t, ht, h0, rfl⟩
      have htd : t ∈ d0.simps := by
        rcases hnewv t ht with h | h
        · exact h
        · omega
      obtain ⟨s, hs, hsp⟩ := (hsame t.pts).mp ⟨t, htd, rfl⟩
      have hs0 : s.order = 0 := by
        have h1 := G1.inv.pts_card hs
        have h2 := hIv.pts_card ht
        rw [hsp] at h1; omega
      have := G1.point hnd hElt hs hs0
      rw [point_pts G1.inv hs hs0, point_pts hIv ht h0] at hsp
      rw [← Finset.singleton_injective hsp]; exact this
    · intro hp
      obtain ⟨s, hs, hsp⟩ := (hsame {p}).mpr ⟨ptS p, G1.pmem p hp, ptS_pts p⟩
      have hsv := hsubv.subset hs
      have hs0 : s.order = 0 := by
        have h1 := hIv.pts_card hsv
        rw [hsp] at h1; simp at h1; omega
      refine ⟨s, hsv, hs0, ?_⟩
      rw [point_pts hIv hsv hs0] at hsp
      exact Finset.singleton_injective hsp
  refine ⟨v, hres, hIv, hpoints, ?_, ?_⟩
  · intro t ht x hx
    rw [Simp.pts, List.mem_toFinset] at hx
    obtain ⟨u, hu, hn, h0, -⟩ := hIv.basis_point t.order ht rfl x hx
    exact List.mem_toFinset.mpr ((hpoints x).mp ⟨u, hu, h0, hn⟩)
  · intro X h2 hXp
    rw [hcl X h2]
    constructor
    · intro hs i j a b hij ha hb haX hbX
      have hab : a ≠ b := by
        intro e; subst e
        have := idx_inj hnd ha hb; omega
      obtain ⟨i', j', hE', hor⟩ := (G1.edge_iff hab).mp ((hsame _).mp (hs a haX b hbX hab))
      obtain ⟨⟨h1, -⟩, h3⟩ := (hEmem i' j').mp hE'
      rcases hor with ⟨e1, e2⟩ | ⟨e1, e2⟩
      · rw [← idx_inj hnd e1 ha, ← idx_inj hnd e2 hb]; exact h3
      · exfalso
        have := idx_inj hnd e1 hb
        have := idx_inj hnd e2 ha
        omega
    · intro hidx a ha b hb hab
      apply (hsame _).mpr
      apply (G1.edge_iff hab).mpr
      obtain ⟨i, hi⟩ := List.getElem?_of_mem (List.mem_toFinset.mp (hXp ha))
      obtain ⟨j, hj⟩ := List.getElem?_of_mem (List.mem_toFinset.mp (hXp hb))
      have hil : i < pts.length := (List.getElem?_eq_some_iff.mp hi).1
      have hjl : j < pts.length := (List.getElem?_eq_some_iff.mp hj).1
      have hne : i ≠ j := by
        intro e; subst e
        exact hab (Option.some.inj (hi.symm.trans hj))
      rcases Nat.lt_or_gt_of_ne hne with hlt | hgt
      · exact ⟨i, j, (hEmem i j).mpr ⟨⟨hlt, hjl⟩, hidx i j a b hlt hi hj ha hb⟩, Or.inl ⟨hi, hj⟩⟩
      · exact ⟨j, i, (hEmem j i).mpr ⟨⟨hgt, hil⟩, hidx j i b a hgt hj hi hb ha⟩, Or.inr ⟨hj, hi⟩⟩

/-! ## consequences -/

/-- a simplex of the result on a one-element set is the point of that name -/
theorem VRSpec.point_iff {pts : List Name} {close : List (Nat × Nat)} {v : C} (h : VRSpec pts close v)
    (p : Name) : (∃ s ∈ v.simps, s.pts = {p}) ↔ p ∈ pts := by
  rw [← h.points p]
  constructor
  · rintro ⟨s, hs, hsp⟩
    have hs0 : s.order = 0 := by
      have h1 := h.inv.pts_card hs
      rw [hsp] at h1; simp at h1; omega
    rw [point_pts h.inv hs hs0] at hsp
    exact ⟨s, hs, hs0, Finset.singleton_injective hsp⟩
  · rintro ⟨s, hs, hs0, rfl⟩
    exact ⟨s, hs, point_pts h.inv hs hs0⟩

theorem VRSpec.mono {pts : List Name} {close₁ close₂ : List (Nat × Nat)} {v₁ v₂ : C}
    (h1 : VRSpec pts close₁ v₁) (h2 : VRSpec pts close₂ v₂) (hsub : close₁ ⊆ close₂) (X : Finset Name) :
    (∃ s ∈ v₁.simps, s.pts = X) → ∃ s ∈ v₂.simps, s.pts = X := by
  rintro ⟨s, hs, rfl⟩
  rcases Nat.eq_zero_or_pos s.order with h0 | hpos
  · rw [point_pts h1.inv hs h0]
    exact (h2.point_iff _).mpr ((h1.point_iff _).mp ⟨s, hs, point_pts h1.inv hs h0⟩)
  · have hc : 2 ≤ s.pts.card := by rw [h1.inv.pts_card hs]; omega
    have hw := h1.within s hs
    apply (h2.clique _ hc hw).mpr
    intro i j a b hij ha hb haX hbX
    exact hsub ((h1.clique _ hc hw).mp ⟨s, hs, rfl⟩ i j a b hij ha hb haX hbX)

/-- **monotonicity in the closeness relation** (i.e. in `eps`): every vertex set that carries a simplex for the
smaller relation carries one for the larger -/
theorem vr_mono {pts : List Name} (hnd : pts.Nodup) {close₁ close₂ : List (Nat × Nat)}
    (hsub : close₁ ⊆ close₂) :
    ∃ v₁ v₂, vietorisRips pts close₁ = .ok v₁ ∧ vietorisRips pts close₂ = .ok v₂ ∧
      ∀ X : Finset Name, (∃ s ∈ v₁.simps, s.pts = X) → ∃ s ∈ v₂.simps, s.pts = X := by
  obtain ⟨v₁, hr1, hs1⟩ := vietorisRips_spec hnd close₁
  obtain ⟨v₂, hr2, hs2⟩ := vietorisRips_spec hnd close₂
  exact ⟨v₁, v₂, hr1, hr2, hs1.mono hs2 hsub⟩

/-- nothing close: just the points -/
theorem vr_none {pts : List Name} (hnd : pts.Nodup) :
    ∃ v, vietorisRips pts [] = .ok v ∧ Inv v ∧ (∀ t ∈ v.simps, t.order = 0) ∧
      (v.simps.map (·.name)).Perm pts := by
  obtain ⟨v, hr, hs⟩ := vietorisRips_spec hnd []
  have hall0 : ∀ t ∈ v.simps, t.order = 0 := by
    intro t ht
    by_contra hne
    have hc : 2 ≤ t.pts.card := by rw [hs.inv.pts_card ht]; omega
    have hw := hs.within t ht
    obtain ⟨a, ha, b, hb, hab⟩ := Finset.one_lt_card.mp (show 1 < t.pts.card by omega)
    obtain ⟨i, hi⟩ := List.getElem?_of_mem (List.mem_toFinset.mp (hw ha))
    obtain ⟨j, hj⟩ := List.getElem?_of_mem (List.mem_toFinset.mp (hw hb))
    have hne : i ≠ j := by
      intro e; subst e
      exact hab (Option.some.inj (hi.symm.trans hj))
    have hcl := (hs.clique _ hc hw).mp ⟨t, ht, rfl⟩
    rcases Nat.lt_or_gt_of_ne hne with hlt | hgt
    · exact List.not_mem_nil (hcl i j a b hlt hi hj ha hb)
    · exact List.not_mem_nil (hcl j i b a hgt hj hi hb ha)
  refine ⟨v, hr, hs.inv, hall0, ?_⟩
  apply (List.perm_ext_iff_of_nodup hs.inv.nodup hnd).mpr
  intro p
  rw [← hs.points p, List.mem_map]
  constructor
  · rintro ⟨t, ht, hn⟩; exact ⟨t, ht, hall0 t ht, hn⟩
  · rintro ⟨t, ht, -, hn⟩; exact ⟨t, ht, hn⟩

/-- everything close: the full simplex on the points, `C(n, j+1)` simplices of order `j` -/
theorem vr_all {pts : List Name} (hnd : pts.Nodup) {close : List (Nat × Nat)}
    (hall : ∀ i j, i < j → j < pts.length → (i, j) ∈ close) :
    ∃ v, vietorisRips pts close = .ok v ∧ Inv v ∧ (∀ t ∈ v.simps, t.pts ⊆ pts.toFinset) ∧
      (∀ X : Finset Name, X ⊆ pts.toFinset → X.Nonempty → ∃ s ∈ v.simps, s.pts = X) ∧
      ∀ j, (v.ofOrder j).length = pts.length.choose (j + 1) := by
  obtain ⟨v, hr, hs⟩ := vietorisRips_spec hnd close
  have hfull : ∀ X : Finset Name, X ⊆ pts.toFinset → X.Nonempty → ∃ s ∈ v.simps, s.pts = X := by
    intro X hX hne
    by_cases h1 : X.card = 1
    · obtain ⟨p, rfl⟩ := Finset.card_eq_one.mp h1
      exact (hs.point_iff p).mpr (List.mem_toFinset.mp (hX (Finset.mem_singleton_self p)))
    · have hc : 2 ≤ X.card := by have := Finset.card_pos.mpr hne; omega
      apply (hs.clique X hc hX).mpr
      intro i j a b hij _ hb _ _
      exact hall i j hij (List.getElem?_eq_some_iff.mp hb).1
  refine ⟨v, hr, hs.inv, hs.within, hfull, ?_⟩
  intro j
  rw [full_simplex_counts hs.inv pts.toFinset hs.within hfull j, List.toFinset_card_of_nodup hnd]

/-! ## non-vacuity: the construction on three points, the first two and the last two close -/

example : ([.u 1, .u 2, .u 3] : List Name).Nodup := by decide

example : (vietorisRips [.u 1, .u 2, .u 3] [(0, 1), (1, 2)]).toOption.map (fun v => v.simps.map (·.basis)) =
    some [[.u 1], [.u 2], [.u 3], [.u 1, .u 2], [.u 2, .u 3]] := by rfl

example : (vietorisRips [.u 1, .u 2, .u 3] [(0, 1), (1, 2), (0, 2)]).toOption.map
    (fun v => v.simps.map (·.basis)) =
    some [[.u 1], [.u 2], [.u 3], [.u 1, .u 2], [.u 1, .u 3], [.u 2, .u 3], [.u 1, .u 2, .u 3]] := by rfl

end Flat
