import Sx.Model
import Sx.Props.Copy
import Sx.Props.Heap
import Sx.Proofs.FlatClosed
import Mathlib.Tactic.SplitIfs

/-! # C16 — `a.compose(b, d)` into an existing target, and the attribute dicts of a composition

Model reading. `a.compose(b, d)` is `Flat.composeInto a b d` on the structures (`self.copy(d)`, then the loop
over the simplices of `b`, with the checks made against `a`; returns outcome, new target, and the names whose
attributes are merged) and `W.composeIntoOp` on the heap (`sync` gives the new simplices of the target their
dict objects, `mergeAttrs` replaces the dicts of the merged simplices). `a.compose(b)` is `Flat.composeNew` /
`W.composeOp`. "Raises ValueError" = the outcome is `.error .value`.

* Part 1 (`Flat`): `composeInto_spec` (success: the target keeps its simplices, in order, and gains exactly the
  name-respecting union of `a` and `b`, simplex by simplex with name, order, faces and basis: `Twin`),
  `composeInto_ok_compat` (only compatible operands can succeed, whatever the target), `composeInto_incompatible`
  (failure is ValueError), `composeInto_ok_iff`, `composeInto_shared_name`.
  Disjointness needed: no simplex NAME of `d` is a name of `a` or of `b` (`NamesDisjoint`). Bases/points need
  no separate hypothesis: the points of a simplex are names of order-0 simplices of the same complex
  (`pts_ne_of_namesDisjoint`).
* Part 2 (`W`): `mergeAttrs_attrs`, `composeOp_attrs` (+ `composeOp_attrs_cases`, `composeOp_ok_iff`),
  `composeIntoOp_attrs` (any outcome), `composeIntoOp_ok` (success), `composeIntoOp_ok_iff`.
* Part 2b: `composeNew = composeInto … emptyC`, hence `composeNew_twins` (`composeNew_spec` with faces, and
  ValueError for incompatible operands).
* Part 3: examples. -/
namespace Flat
open List

/-! ## generalities -/

theorem Twin.rfl' (s : Simp Name) : Twin s s := ⟨rfl, rfl, fun _ => Iff.rfl, fun _ => Iff.rfl⟩

theorem Twin.trans {s t u : Simp Name} (h1 : Twin s t) (h2 : Twin t u) : Twin s u :=
  ⟨h2.1.trans h1.1, h2.2.1.trans h1.2.1, fun f => (h2.2.2.1 f).trans (h1.2.2.1 f),
    fun p => (h2.2.2.2 p).trans (h1.2.2.2 p)⟩

/-- `d` and `x` have no simplex name in common -/
def NamesDisjoint (d x : C) : Prop := ∀ n, d.contains n = true → x.contains n = false

theorem mem_names_iff {c : C} {n : Name} : n ∈ c.names ↔ c.contains n = true := by
  rw [contains_iff]; unfold Cx.names; rw [List.mem_map]

/-- the basis of a simplex consists of names of (order-0) simplices: complexes without a common name have no
common point set either, so only names matter in the disjointness hypothesis -/
theorem pts_ne_of_namesDisjoint {d x : C} (hId : Inv d) (hIx : Inv x) (hdis : NamesDisjoint d x)
    {u s : Simp Name} (hu : u ∈ d.simps) (hs : s ∈ x.simps) : u.pts ≠ s.pts := by
  intro heq
  have hb := hIx.basis_card hs
  obtain ⟨p, hp⟩ : ∃ p, p ∈ s.basis := List.exists_mem_of_length_pos (by omega)
  obtain ⟨q, hq, hqn, -⟩ := hIx.basis_point s.order hs rfl p hp
  have hpu : p ∈ u.basis := by
    have : p ∈ s.pts := by rw [Simp.pts, List.mem_toFinset]; exact hp
    rw [← heq, Simp.pts, List.mem_toFinset] at this; exact this
  obtain ⟨q', hq', hqn', -⟩ := hId.basis_point u.order hu rfl p hpu
  have h1 := hdis p (contains_iff.mpr ⟨q', hq', hqn'⟩)
  have h2 := contains_iff.mpr ⟨q, hq, hqn⟩
  rw [h1] at h2; cases h2

/-! ## adding a twin of a simplex of another complex -/

/-- the one structural step of `copy` and of `compose`: the simplex `s` of a valid complex `x` is added, under
its own name and with its own faces, to a valid complex `dc` that already contains a twin of every face of `s`,
does not know the name and has no simplex on the same points. The call succeeds and inserts a twin of `s`. -/
theorem add_twin {x dc : C} (hIx : Inv x) (hId : Inv dc) {s : Simp Name} (hs : s ∈ x.simps)
    (hfaces : ∀ u ∈ x.simps, u.order + 1 = s.order → u.name ∈ s.faces → ∃ t ∈ dc.simps, Twin u t)
    (hfresh : dc.contains s.name = false)
    (hnoPts : ∀ u ∈ dc.simps, u.pts ≠ s.pts) :
    ∃ d1 t, dc.addSimplex s.faces s.name = .ok d1 ∧ Inv d1 ∧ d1.seq = dc.seq ∧
      d1.simps = insertSorted t dc.simps ∧ Twin s t := by
  classical
  rcases Nat.eq_zero_or_pos s.order with h0 | hpos
  · obtain ⟨hf0, hb0⟩ := hIx.point s hs h0
    have hadd : dc.addSimplex s.faces s.name = .ok { dc with simps :=
        (insertSorted ⟨s.name, 0, [], [s.name]⟩ dc.simps) } := by
      rw [hf0]
      unfold Cx.addSimplex
      simp only [List.length_nil, List.isEmpty_nil, if_true]
      rw [if_neg (by omega), if_neg (by simp [hfresh]), if_neg (by simp)]
      have : ¬ ((0 - 1 : Nat) : Int) > dc.maxOrder + 1 := by
        have : (-1 : Int) ≤ dc.maxOrder := by
          unfold Cx.maxOrder; cases dc.simps.getLast? <;> simp
        simp; omega
      rw [if_neg this]
    exact ⟨_, ⟨s.name, 0, [], [s.name]⟩, hadd, addSimplex_ok_inv hId (Or.inl hf0) hadd, rfl, rfl,
      ⟨rfl, h0.symm, by simp [hf0], by simp [hb0]⟩⟩
  · obtain ⟨fn, fl, fex, bn, bl, biff⟩ := hIx.higher s hs hpos
    have hfaceTwin : ∀ f ∈ s.faces, ∃ u ∈ x.simps, u.name = f ∧ u.order + 1 = s.order ∧
        ∃ t ∈ dc.simps, Twin u t := by
      intro f hf
      obtain ⟨u, hu, hun, huo⟩ := fex f hf
      exact ⟨u, hu, hun, huo, hfaces u hu huo (by rw [hun]; exact hf)⟩
    obtain ⟨c'', fs', bs, hadd, hI'', hsimps'', hfs, hbs, hseq⟩ := addFacets (cN := dc) (fs := s.faces)
      (nm := s.name) (k := s.order) (B := s.pts) hId hpos fn fl
      (by
        intro f hf
        obtain ⟨u, hu, hun, huo, t, ht, htw⟩ := hfaceTwin f hf
        refine ⟨t, ht, htw.1.trans hun, by rw [htw.2.1]; omega, ?_⟩
        rw [htw.pts]
        exact ((hIx.faces_are_facets hs hu hpos).mp (by rw [hun]; exact hf)).2)
      (by
        intro p hp
        rw [Simp.pts, List.mem_toFinset] at hp
        obtain ⟨f, hf, u, hu, hun, hxu⟩ := (biff p).mp hp
        obtain ⟨u', hu', hun', -, t, ht, htw⟩ := hfaceTwin f hf
        have : u' = u := hIx.name_inj hu' hu (hun'.trans hun.symm)
        subst this
        exact ⟨f, hf, t, ht, htw.1.trans hun, by rw [htw.pts, Simp.pts, List.mem_toFinset]; exact hxu⟩)
      (hIx.pts_card hs) hfresh
      (by
        intro t ht
        by_contra hcon
        have heq : setEqB t.faces s.faces = true := by simpa using hcon
        unfold Cx.ofOrder at ht
        rw [List.mem_filter] at ht
        obtain ⟨ht1, ht2⟩ := ht
        have hto : t.order = s.order := by simpa using ht2
        apply hnoPts t ht1
        symm
        apply Finset.eq_of_subset_of_card_le
        · intro p hp
          rw [Simp.pts, List.mem_toFinset] at hp
          obtain ⟨f, hf, u, hu, hun, hxu⟩ := (biff p).mp hp
          obtain ⟨u', hu', hun', -, t', ht', htw⟩ := hfaceTwin f hf
          have : u' = u := hIx.name_inj hu' hu (hun'.trans hun.symm)
          subst this
          have hft : f ∈ t.faces := by
            have := Finset.ext_iff.mp (setEqB_iff.mp heq) f
            simp only [List.mem_toFinset] at this
            exact this.mpr hf
          have := (hId.faces_are_facets ht1 ht' (by omega)).mp (by rw [htw.1, hun']; exact hft)
          apply this.2
          rw [htw.pts, Simp.pts, List.mem_toFinset]; exact hxu
        · rw [hId.pts_card ht1, hIx.pts_card hs, hto])
    refine ⟨c'', ⟨s.name, s.order, fs', bs⟩, hadd, hI'', hseq, hsimps'', rfl, rfl, ?_, ?_⟩
    · intro f
      have := Finset.ext_iff.mp hfs f
      simpa only [List.mem_toFinset] using this
    · intro p
      have := Finset.ext_iff.mp hbs p
      simpa only [Simp.pts, List.mem_toFinset] using this

/-! ## the invariant of both loops -/

/-- the target `d` after twins of the simplices `Q` (of the operands) have been added: a valid complex that
still lists the simplices of `d`, unchanged and in their order, plus exactly one twin of each element of `Q` -/
structure UInv (d : C) (Q : List (Simp Name)) (dc : C) : Prop where
  inv : Inv dc
  seq : dc.seq = d.seq
  sub : d.simps.Sublist dc.simps
  src : ∀ t ∈ dc.simps, t ∈ d.simps ∨ ∃ s ∈ Q, Twin s t
  done : ∀ s ∈ Q, ∃ t ∈ dc.simps, Twin s t
  perm : dc.names.Perm (d.names ++ Q.map (·.name))

theorem UInv.init {d : C} (hId : Inv d) : UInv d [] d :=
  ⟨hId, rfl, List.Sublist.refl _, fun t ht => Or.inl ht, fun s hs => (by cases hs), (by simp)⟩

theorem UInv.step {x d dc : C} {Q : List (Simp Name)} (hU : UInv d Q dc) (hIx : Inv x) {s : Simp Name}
    (hs : s ∈ x.simps)
    (hfaces : ∀ u ∈ x.simps, u.order + 1 = s.order → u.name ∈ s.faces → ∃ t ∈ dc.simps, Twin u t)
    (hnameD : d.contains s.name = false) (hnameQ : ∀ s' ∈ Q, s'.name ≠ s.name)
    (hptsD : ∀ u ∈ d.simps, u.pts ≠ s.pts) (hptsQ : ∀ s' ∈ Q, s'.pts ≠ s.pts) :
    ∃ d1, dc.addSimplex s.faces s.name = .ok d1 ∧ UInv d (Q ++ [s]) d1 ∧ dc.simps.Sublist d1.simps := by
  have hfresh : dc.contains s.name = false := by
    rw [contains_false_iff]
    intro u hu hun
    rcases hU.src u hu with h | ⟨s', hs', htw⟩
    · have := contains_iff.mpr ⟨u, h, hun⟩
      rw [hnameD] at this; cases this
    · exact hnameQ s' hs' (htw.1.symm.trans hun)
  have hnoPts : ∀ u ∈ dc.simps, u.pts ≠ s.pts := by
    intro u hu
    rcases hU.src u hu with h | ⟨s', hs', htw⟩
    · exact hptsD u h
    · rw [htw.pts]; exact hptsQ s' hs'
  obtain ⟨d1, t, hadd, hI1, hseq1, hsimps1, htw⟩ := add_twin hIx hU.inv hs hfaces hfresh hnoPts
  have hsub1 : dc.simps.Sublist d1.simps := by rw [hsimps1]; exact sublist_insertSorted _ _
  have hmem : ∀ y, y ∈ d1.simps ↔ y = t ∨ y ∈ dc.simps := by
    intro y; rw [hsimps1]; exact mem_insertSorted
  refine ⟨d1, hadd, ⟨hI1, hseq1.trans hU.seq, hU.sub.trans hsub1, ?_, ?_, ?_⟩, hsub1⟩
  · intro y hy
    rcases (hmem y).mp hy with rfl | hy
    · exact Or.inr ⟨s, by simp, htw⟩
    · rcases hU.src y hy with h | ⟨s', hs', h'⟩
      · exact Or.inl h
      · exact Or.inr ⟨s', List.mem_append_left _ hs', h'⟩
  · intro s' hs'
    rcases List.mem_append.mp hs' with h | h
    · obtain ⟨y, hy, h'⟩ := hU.done s' h
      exact ⟨y, (hmem y).mpr (Or.inr hy), h'⟩
    · rw [List.mem_singleton] at h; subst h
      exact ⟨t, (hmem t).mpr (Or.inl rfl), htw⟩
  · have h1 : d1.names.Perm (t.name :: dc.names) := by
      unfold Cx.names; rw [hsimps1]
      exact (insertSorted_perm t dc.simps).map _
    rw [List.map_append, ← List.append_assoc]
    refine h1.trans ?_
    rw [htw.1]
    exact ((List.perm_append_singleton s.name _).symm.trans
      (List.Perm.append_right _ hU.perm)).trans (by simp)

/-! ## `copy(d)` into an existing complex -/

theorem copyInto_loop {a d : C} (hIa : Inv a) (hId : Inv d) (hda : NamesDisjoint d a) :
    ∀ (R P : List (Simp Name)) (dc : C) (acc : List Name), a.simps = P ++ R → UInv d P dc →
      ∃ d', addFromLoop id dc acc R = (.ok (acc ++ R.map (·.name)), d') ∧ UInv d a.simps d' := by
  intro R
  induction R with
  | nil =>
    intro P dc acc hPR hU
    simp only [List.append_nil] at hPR
    exact ⟨dc, by simp [addFromLoop], hPR ▸ hU⟩
  | cons s R ih =>
    intro P dc acc hPR hU
    have hsa : s ∈ a.simps := by rw [hPR]; simp
    have hPa : ∀ u ∈ P, u ∈ a.simps := fun u hu => by rw [hPR]; exact List.mem_append_left _ hu
    have hand : a.simps.Nodup := List.Nodup.of_map _ hIa.nodup
    have hsP : s ∉ P := by
      rw [hPR] at hand
      intro hin
      exact (List.nodup_append.mp hand).2.2 s hin s List.mem_cons_self rfl
    have hsorted := hIa.sorted
    rw [hPR, List.pairwise_append] at hsorted
    have hPR' : a.simps = (P ++ [s]) ++ R := by rw [hPR]; simp
    obtain ⟨d1, hadd, hU1, -⟩ := hU.step hIa hsa
      (by
        intro u hu huo _
        have huP : u ∈ P := by
          rw [hPR] at hu
          rcases List.mem_append.mp hu with h | h
          · exact h
          · exfalso
            rcases List.mem_cons.mp h with rfl | h'
            · omega
            · have := (List.pairwise_cons.mp hsorted.2.1).1 u h'
              omega
        exact hU.done u huP)
      (by
        cases hc : d.contains s.name with
        | false => rfl
        | true => have := hda _ hc; rw [contains_iff.mpr ⟨s, hsa, rfl⟩] at this; cases this)
      (by
        intro s' hs' hn
        have : s' = s := hIa.name_inj (hPa s' hs') hsa hn
        exact hsP (this ▸ hs'))
      (fun u hu => pts_ne_of_namesDisjoint hId hIa hda hu hsa)
      (by
        intro s' hs' hp
        have : s' = s := by
          apply hIa.uniq s' (hPa s' hs') s hsa
          · have e1 := hIa.pts_card (hPa s' hs'); have e2 := hIa.pts_card hsa
            rw [hp] at e1; omega
          · intro p
            have := Finset.ext_iff.mp hp p
            simpa [Simp.pts] using this
        exact hsP (this ▸ hs'))
    obtain ⟨d', hrun, hU'⟩ := ih (P ++ [s]) d1 (acc ++ [s.name]) hPR' hU1
    refine ⟨d', ?_, hU'⟩
    unfold addFromLoop
    simp only [id, bne_self_eq_false, Bool.false_and, Bool.false_eq_true, if_false]
    rw [List.map_id, hadd]
    simp only
    rw [hrun]
    simp

/-- **`a.copy(d)`** for valid `a`, `d` without a common name: succeeds, returns the names of `a`; `d` keeps its
simplices (unchanged, same relative order) and gains exactly one twin of every simplex of `a` -/
theorem copyInto_spec {a d : C} (hIa : Inv a) (hId : Inv d) (hda : NamesDisjoint d a) :
    ∃ d0, copyInto a d = (.ok a.names, d0) ∧ UInv d a.simps d0 := by
  obtain ⟨d0, hrun, hU⟩ := copyInto_loop hIa hId hda a.simps [] d [] (by simp) (UInv.init hId)
  refine ⟨d0, ?_, hU⟩
  have hany : a.names.any d.contains = false := by
    cases h : a.names.any d.contains with
    | false => rfl
    | true =>
      obtain ⟨n, hn, hc⟩ := List.any_eq_true.mp h
      have := hda n hc
      rw [mem_names_iff.mp hn] at this; cases this
  unfold copyInto addFrom
  rw [hany, hrun]
  simp [Cx.names]

/-! ## the compose loop -/

/-- the condition the loop tests for one simplex `s` of the argument: a simplex of `a` with the name of `s` has
the points of `s`, and a simplex of `a` with the points of `s` has the name of `s` -/
def LC (a : C) (s : Simp Name) : Prop :=
  (∀ t ∈ a.simps, t.name = s.name → t.pts = s.pts) ∧ (∀ t ∈ a.simps, t.pts = s.pts → t.name = s.name)

theorem compatible_iff_LC {a b : C} : Compatible a b ↔ ∀ s ∈ b.simps, LC a s :=
  ⟨fun h s hs => ⟨h.name_pts s hs, h.pts_name s hs⟩,
   fun h => ⟨fun s hs => (h s hs).1, fun s hs => (h s hs).2⟩⟩

/-- what the loop body computes for `s` -/
def stepOK (a : C) (s : Simp Name) : Prop :=
  if a.contains s.name = true then simplexWithBasis a s.basis = some s.name
  else simplexWithBasis a s.basis = none

theorem LC_iff_stepOK {a b : C} (hIa : Inv a) (hIb : Inv b) {s : Simp Name} (hs : s ∈ b.simps) :
    LC a s ↔ stepOK a s := by
  classical
  have hbasis := hIb.basis_card hs
  have hbne : s.basis ≠ [] := by intro e; rw [e] at hbasis; simp at hbasis
  have hptsA : ∀ t ∈ a.simps, t.pts = s.pts → PtsIn a s.basis := by
    intro t ht htp p hp
    have : p ∈ t.basis := by
      have h1 : p ∈ s.pts := by rw [Simp.pts, List.mem_toFinset]; exact hp
      rw [← htp, Simp.pts, List.mem_toFinset] at h1; exact h1
    exact hIa.basis_pts_points ht p this
  have huniq : ∀ t ∈ a.simps, ∀ t' ∈ a.simps, t.pts = s.pts → t'.pts = s.pts → t' = t := by
    intro t ht t' ht' hp hp'
    apply hIa.uniq t' ht' t ht
    · have e1 := hIa.pts_card ht'; have e2 := hIa.pts_card ht
      rw [hp'] at e1; rw [hp] at e2; omega
    · intro p
      have := Finset.ext_iff.mp (hp'.trans hp.symm) p
      simpa [Simp.pts] using this
  unfold stepOK
  by_cases hin : a.contains s.name = true
  · rw [if_pos hin]
    obtain ⟨t, ht, htn⟩ := contains_iff.mp hin
    constructor
    · intro hL
      have htp := hL.1 t ht htn
      obtain ⟨hsome, hnone⟩ := simplexWithBasis_spec hIa hbasis.1 hbne (hptsA t ht htp)
      cases hq : simplexWithBasis a s.basis with
      | none => exact absurd ⟨t, ht, htp⟩ (hnone hq)
      | some n =>
        obtain ⟨t', ht', hn', hp'⟩ := hsome n hq
        rw [← hn', hL.2 t' ht' hp']
    · intro hq
      obtain ⟨t0, ht0, htn0, htp0⟩ := simplexWithBasis_sound hIa hbasis.1 hbne hq
      have htp0' : t0.pts = s.pts := htp0
      refine ⟨?_, ?_⟩
      · intro t' ht' hn'
        have : t' = t0 := hIa.name_inj ht' ht0 (hn'.trans htn0.symm)
        rw [this]; exact htp0'
      · intro t' ht' hp'
        rw [huniq t0 ht0 t' ht' htp0' hp']; exact htn0
  · rw [if_neg hin]
    constructor
    · intro hL
      cases hq : simplexWithBasis a s.basis with
      | none => rfl
      | some n =>
        exfalso
        obtain ⟨t, ht, -, htp⟩ := simplexWithBasis_sound hIa hbasis.1 hbne hq
        exact hin (contains_iff.mpr ⟨t, ht, hL.2 t ht htp⟩)
    · intro hq
      refine ⟨?_, ?_⟩
      · intro t ht hn
        exact absurd (contains_iff.mpr ⟨t, ht, hn⟩) hin
      · intro t ht hp
        exfalso
        exact (simplexWithBasis_spec hIa hbasis.1 hbne (hptsA t ht hp)).2 hq ⟨t, ht, hp⟩

/-! the four ways one round of the loop can go -/

theorem composeIntoLoop_merge {a dc : C} {m : List Name} {s : Simp Name} {R : List (Simp Name)}
    (h1 : a.contains s.name = true) (h2 : simplexWithBasis a s.basis = some s.name) :
    composeIntoLoop a dc m (s :: R) = composeIntoLoop a dc (m ++ [s.name]) R := by
  rw [composeIntoLoop]; simp only [h1, h2, if_true]

theorem composeIntoLoop_add {a dc d1 : C} {m : List Name} {s : Simp Name} {R : List (Simp Name)}
    (h1 : a.contains s.name = false) (h2 : simplexWithBasis a s.basis = none)
    (h3 : dc.addSimplex s.faces s.name = .ok d1) :
    composeIntoLoop a dc m (s :: R) = composeIntoLoop a d1 m R := by
  rw [composeIntoLoop]; simp only [h1, h2, h3, Bool.false_eq_true, if_false]

theorem composeIntoLoop_add_err {a dc : C} {m : List Name} {s : Simp Name} {R : List (Simp Name)} {e : Err}
    (h1 : a.contains s.name = false) (h2 : simplexWithBasis a s.basis = none)
    (h3 : dc.addSimplex s.faces s.name = .error e) :
    composeIntoLoop a dc m (s :: R) = (.error e, dc, m) := by
  rw [composeIntoLoop]; simp only [h1, h2, h3, Bool.false_eq_true, if_false]

theorem composeIntoLoop_bad {a dc : C} {m : List Name} {s : Simp Name} {R : List (Simp Name)}
    (h : ¬ stepOK a s) : composeIntoLoop a dc m (s :: R) = (.error .value, dc, m) := by
  unfold stepOK at h
  rw [composeIntoLoop]
  by_cases hin : a.contains s.name = true
  · rw [if_pos hin] at h
    simp only [hin, if_true]
    cases hq : simplexWithBasis a s.basis with
    | none => rfl
    | some n =>
      have : n ≠ s.name := fun e => h (by rw [hq, e])
      simp only [this, if_false]
  · rw [if_neg hin] at h
    simp only [hin]
    cases hq : simplexWithBasis a s.basis with
    | none => exact absurd hq h
    | some n => rfl

/-- a simplex of `b` and the simplex of `a` with the same name are twins as soon as the test passes for the
simplex and its faces: same order, same points, and the same face names -/
theorem compat_twin {a b : C} (hIa : Inv a) (hIb : Inv b) {s t : Simp Name} (hs : s ∈ b.simps)
    (ht : t ∈ a.simps) (hLs : LC a s)
    (hLf : ∀ u ∈ b.simps, u.order + 1 = s.order → u.name ∈ s.faces → LC a u)
    (hn : t.name = s.name) : Twin s t := by
  classical
  have hp : t.pts = s.pts := hLs.1 t ht hn
  have ho : t.order = s.order := by
    have e1 := hIa.pts_card ht; have e2 := hIb.pts_card hs
    rw [hp] at e1; omega
  refine ⟨hn, ho, ?_, ?_⟩
  · rcases Nat.eq_zero_or_pos s.order with h0 | hpos
    · rw [(hIb.point s hs h0).1, (hIa.point t ht (ho.trans h0)).1]; intro f; rfl
    · have hpos' : 0 < t.order := by omega
      intro f
      constructor
      · intro hf
        obtain ⟨-, -, fex, -⟩ := hIa.higher t ht hpos'
        obtain ⟨u', hu', hun', huo'⟩ := fex f hf
        have hsub : u'.pts ⊆ s.pts := by
          rw [← hp]; exact ((hIa.faces_are_facets ht hu' hpos').mp (by rw [hun']; exact hf)).2
        obtain ⟨u, hu, huf, huo, hup⟩ := hIb.facets_exist hs hpos hsub (by rw [hIa.pts_card hu']; omega)
        have hLu := hLf u hu huo huf
        have : u'.name = u.name := hLu.2 u' hu' hup.symm
        rw [← hun', this]; exact huf
      · intro hf
        obtain ⟨-, -, fex, -⟩ := hIb.higher s hs hpos
        obtain ⟨u, hu, hun, huo⟩ := fex f hf
        have hfu : u.name ∈ s.faces := by rw [hun]; exact hf
        have hsub : u.pts ⊆ t.pts := by
          rw [hp]; exact ((hIb.faces_are_facets hs hu hpos).mp hfu).2
        obtain ⟨u', hu', huf', huo', hup'⟩ := hIa.facets_exist ht hpos' hsub (by rw [hIb.pts_card hu]; omega)
        have hLu := hLf u hu huo hfu
        have : u'.name = u.name := hLu.2 u' hu' hup'
        rw [← hun, ← this]; exact huf'
  · intro p
    have := Finset.ext_iff.mp hp p
    simpa [Simp.pts] using this

/-- the loop of `compose(c, d)` started after a prefix `P` of `b` has been processed without an exception:
either every remaining simplex passes the test and the loop runs to the end (merged names in listing order; the
target holds `d`, a twin of every simplex of `a` and of every simplex of `b`, and nothing else), or some
remaining simplex fails it and the loop raises ValueError -/
theorem composeIntoLoop_spec {a b d : C} (hIa : Inv a) (hIb : Inv b) (hId : Inv d) (hdb : NamesDisjoint d b) :
    ∀ (R P : List (Simp Name)) (dc : C) (m : List Name), b.simps = P ++ R →
      (∀ s ∈ P, LC a s) →
      UInv d (a.simps ++ P.filter (fun s => !a.contains s.name)) dc →
      (∀ u ∈ P, ∃ t ∈ dc.simps, Twin u t) →
      ((∀ s ∈ R, LC a s) ∧
        ∃ d', composeIntoLoop a dc m R = (.ok (), d', m ++ (R.map (·.name)).filter a.contains) ∧
          UInv d (a.simps ++ b.simps.filter (fun s => !a.contains s.name)) d' ∧
          ∀ u ∈ b.simps, ∃ t ∈ d'.simps, Twin u t) ∨
      (¬ (∀ s ∈ R, LC a s) ∧ (composeIntoLoop a dc m R).1 = .error .value) := by
  classical
  intro R
  induction R with
  | nil =>
    intro P dc m hPR hLP hU hdone
    simp only [List.append_nil] at hPR
    left
    refine ⟨by simp, dc, by simp [composeIntoLoop], ?_, ?_⟩
    · rw [hPR]; exact hU
    · rw [hPR]; exact hdone
  | cons s R ih =>
    intro P dc m hPR hLP hU hdone
    have hsb : s ∈ b.simps := by rw [hPR]; simp
    have hPb : ∀ u ∈ P, u ∈ b.simps := fun u hu => by rw [hPR]; exact List.mem_append_left _ hu
    have hbnd : b.simps.Nodup := List.Nodup.of_map _ hIb.nodup
    have hsP : s ∉ P := by
      rw [hPR] at hbnd
      intro hin
      exact (List.nodup_append.mp hbnd).2.2 s hin s List.mem_cons_self rfl
    have hsorted := hIb.sorted
    rw [hPR, List.pairwise_append] at hsorted
    have hPR' : b.simps = (P ++ [s]) ++ R := by rw [hPR]; simp
    have hfaceP : ∀ u ∈ b.simps, u.order + 1 = s.order → u ∈ P := by
      intro u hu huo
      rw [hPR] at hu
      rcases List.mem_append.mp hu with h | h
      · exact h
      · exfalso
        rcases List.mem_cons.mp h with rfl | h'
        · omega
        · have := (List.pairwise_cons.mp hsorted.2.1).1 u h'
          omega
    by_cases hL : LC a s
    · have hst := (LC_iff_stepOK hIa hIb hsb).mp hL
      unfold stepOK at hst
      have hLP' : ∀ x ∈ P ++ [s], LC a x := by
        intro x hx
        rcases List.mem_append.mp hx with h | h
        · exact hLP x h
        · rw [List.mem_singleton] at h; rw [h]; exact hL
      have key : ∃ dc' m', composeIntoLoop a dc m (s :: R) = composeIntoLoop a dc' m' R ∧
          m' ++ (R.map (·.name)).filter a.contains = m ++ ((s :: R).map (·.name)).filter a.contains ∧
          UInv d (a.simps ++ (P ++ [s]).filter (fun s => !a.contains s.name)) dc' ∧
          (∀ u ∈ P ++ [s], ∃ t ∈ dc'.simps, Twin u t) := by
        by_cases hin : a.contains s.name = true
        · rw [if_pos hin] at hst
          refine ⟨dc, m ++ [s.name], composeIntoLoop_merge hin hst, ?_, ?_, ?_⟩
          · simp [hin]
          · have : (P ++ [s]).filter (fun s => !a.contains s.name) = P.filter (fun s => !a.contains s.name) := by
              simp [List.filter_append, hin]
            rw [this]; exact hU
          · intro u hu
            rcases List.mem_append.mp hu with h | h
            · exact hdone u h
            · rw [List.mem_singleton] at h; subst h
              obtain ⟨t, ht, htn⟩ := contains_iff.mp hin
              have htw : Twin u t := compat_twin hIa hIb hsb ht hL
                (fun x hx hxo _ => hLP x (hfaceP x hx hxo)) htn
              obtain ⟨t', ht', htw'⟩ := hU.done t (List.mem_append_left _ ht)
              exact ⟨t', ht', htw.trans htw'⟩
        · have hin' : a.contains s.name = false := by simpa using hin
          rw [if_neg hin] at hst
          obtain ⟨d1, hadd, hU1, hsub1⟩ := hU.step hIb hsb
            (fun u hu huo _ => hdone u (hfaceP u hu huo))
            (by
              cases hc : d.contains s.name with
              | false => rfl
              | true => have := hdb _ hc; rw [contains_iff.mpr ⟨s, hsb, rfl⟩] at this; cases this)
            (by
              intro s' hs' hn
              rcases List.mem_append.mp hs' with h | h
              · exact hin (contains_iff.mpr ⟨s', h, hn⟩)
              · have hs'P := (List.mem_filter.mp h).1
                have : s' = s := hIb.name_inj (hPb s' hs'P) hsb hn
                exact hsP (this ▸ hs'P))
            (fun u hu => pts_ne_of_namesDisjoint hId hIb hdb hu hsb)
            (by
              intro s' hs' hp
              rcases List.mem_append.mp hs' with h | h
              · exact hin (contains_iff.mpr ⟨s', h, hL.2 s' h hp⟩)
              · have hs'P := (List.mem_filter.mp h).1
                have : s' = s := by
                  apply hIb.uniq s' (hPb s' hs'P) s hsb
                  · have e1 := hIb.pts_card (hPb s' hs'P); have e2 := hIb.pts_card hsb
                    rw [hp] at e1; omega
                  · intro p
                    have := Finset.ext_iff.mp hp p
                    simpa [Simp.pts] using this
                exact hsP (this ▸ hs'P))
          refine ⟨d1, m, composeIntoLoop_add hin' hst hadd, ?_, ?_, ?_⟩
          · simp [hin']
          · have : (P ++ [s]).filter (fun s => !a.contains s.name) =
                P.filter (fun s => !a.contains s.name) ++ [s] := by
              simp [List.filter_append, hin']
            rw [this, ← List.append_assoc]; exact hU1
          · intro u hu
            rcases List.mem_append.mp hu with h | h
            · obtain ⟨t, ht, htw⟩ := hdone u h
              exact ⟨t, hsub1.subset ht, htw⟩
            · rw [List.mem_singleton] at h; subst h
              exact hU1.done u (by simp)
      obtain ⟨dc', m', heq, hm, hU', hdone'⟩ := key
      rcases ih (P ++ [s]) dc' m' hPR' hLP' hU' hdone' with ⟨hR, d', hrun, hUf, hall⟩ | ⟨hR, herr⟩
      · left
        refine ⟨?_, d', by rw [heq, hrun, hm], hUf, hall⟩
        intro x hx
        rcases List.mem_cons.mp hx with rfl | hx
        · exact hL
        · exact hR x hx
      · right
        exact ⟨fun h => hR (fun x hx => h x (List.mem_cons_of_mem _ hx)), by rw [heq]; exact herr⟩
    · right
      refine ⟨fun h => hL (h s List.mem_cons_self), ?_⟩
      rw [composeIntoLoop_bad (fun h => hL ((LC_iff_stepOK hIa hIb hsb).mpr h))]

/-! ## `compose(c, d)`: the theorems -/

/-- a sublist of a repeat-free list is what a filter that recognises its elements keeps -/
theorem sublist_eq_filter {α : Type} {l1 l2 : List α} (h : l1.Sublist l2) (hn : l2.Nodup) (q : α → Bool)
    (hq : ∀ t ∈ l2, q t = true ↔ t ∈ l1) : l2.filter q = l1 := by
  induction h with
  | slnil => rfl
  | @cons l1 l2 x hsub ih =>
    rw [List.nodup_cons] at hn
    have hx : q x = false := by
      rw [← Bool.not_eq_true, hq x List.mem_cons_self]
      exact fun hx => hn.1 (hsub.subset hx)
    rw [List.filter_cons, hx]
    exact ih hn.2 (fun t ht => hq t (List.mem_cons_of_mem _ ht))
  | @cons_cons l1 l2 x hsub ih =>
    rw [List.nodup_cons] at hn
    have hx : q x = true := (hq x List.mem_cons_self).mpr List.mem_cons_self
    rw [List.filter_cons, hx]
    simp only [if_true]
    congr 1
    apply ih hn.2
    intro t ht
    rw [hq t (List.mem_cons_of_mem _ ht), List.mem_cons]
    constructor
    · rintro (rfl | h)
      · exact absurd ht hn.1
      · exact h
    · exact Or.inr

/-- **C16, `a.compose(b, d)`, success**: for valid `a`, `b`, `d`, `a` and `b` compatible, and `d` having no
simplex name in common with `a` or with `b` (names only: the points of a simplex are names of simplices, so
disjoint names imply disjoint bases, `pts_ne_of_namesDisjoint`), the call succeeds; the names whose attributes
are merged are the names of `b` that `a` knows, in `b`'s listing order; the new target `r` is a valid complex
with the name counter of `d`; the simplices of `d` are in `r`, unchanged and in the same relative order (both
as a sublist and as the filter "name known to `d`"); `r` contains a twin (same name, order, faces as a set,
basis as a set) of every simplex of `a` and of every simplex of `b`; every simplex of `r` is one of these; and
the names of `r` are, up to order, the names of `d`, then those of `a`, then those of `b` unknown to `a`, each
once. (Names are distinct in `r`, so the twins are unique: a simplex of `b` whose name `a` knows is represented
by the twin of `a`'s simplex, which by compatibility has the same order, faces and basis.) -/
theorem composeInto_spec {a b d : C} (hIa : Inv a) (hIb : Inv b) (hId : Inv d) (hc : Compatible a b)
    (hda : NamesDisjoint d a) (hdb : NamesDisjoint d b) :
    ∃ r, composeInto a b d = (.ok (), r, b.names.filter a.contains) ∧ Inv r ∧ r.seq = d.seq ∧
      d.simps.Sublist r.simps ∧ r.simps.filter (fun t => d.contains t.name) = d.simps ∧
      (∀ s ∈ a.simps, ∃ t ∈ r.simps, Twin s t) ∧ (∀ s ∈ b.simps, ∃ t ∈ r.simps, Twin s t) ∧
      (∀ t ∈ r.simps, t ∈ d.simps ∨ (∃ s ∈ a.simps, Twin s t) ∨ (∃ s ∈ b.simps, Twin s t)) ∧
      r.names.Perm (d.names ++ a.names ++ b.names.filter (fun n => !a.contains n)) := by
  obtain ⟨d0, hcopy, hU0⟩ := copyInto_spec hIa hId hda
  rcases composeIntoLoop_spec hIa hIb hId hdb b.simps [] d0 [] (by simp) (by simp) (by simpa using hU0)
      (by simp) with ⟨-, r, hrun, hU, hall⟩ | ⟨hno, -⟩
  · refine ⟨r, ?_, hU.inv, hU.seq, hU.sub, ?_, ?_, hall, ?_, ?_⟩
    · unfold composeInto
      rw [hcopy]
      simp only
      rw [hrun]
      simp [Cx.names]
    · apply sublist_eq_filter hU.sub (List.Nodup.of_map _ hU.inv.nodup)
      intro t ht
      constructor
      · intro hdc
        obtain ⟨u, hu, hun⟩ := contains_iff.mp hdc
        have : u = t := hU.inv.name_inj (hU.sub.subset hu) ht hun
        rw [← this]; exact hu
      · intro htd
        exact contains_iff.mpr ⟨t, htd, rfl⟩
    · intro s hs
      exact hU.done s (List.mem_append_left _ hs)
    · intro t ht
      rcases hU.src t ht with h | ⟨s, hs, htw⟩
      · exact Or.inl h
      · rcases List.mem_append.mp hs with h | h
        · exact Or.inr (Or.inl ⟨s, h, htw⟩)
        · exact Or.inr (Or.inr ⟨s, (List.mem_filter.mp h).1, htw⟩)
    · have := hU.perm
      rw [List.map_append, ← List.append_assoc] at this
      have e : (b.simps.filter (fun s => !a.contains s.name)).map (·.name) =
          b.names.filter (fun n => !a.contains n) := by
        unfold Cx.names; rw [List.filter_map]; rfl
      rw [e] at this
      exact this
  · exact absurd (compatible_iff_LC.mp hc) hno

/-- whatever the target: if the loop does not raise, every simplex it has seen passes the test -/
theorem composeIntoLoop_ok_LC {a b : C} (hIa : Inv a) (hIb : Inv b) :
    ∀ (R : List (Simp Name)) (dc : C) (m : List Name), (∀ s ∈ R, s ∈ b.simps) →
      (composeIntoLoop a dc m R).1 = .ok () → ∀ s ∈ R, LC a s := by
  intro R
  induction R with
  | nil => intro dc m _ _ s hs; cases hs
  | cons s R ih =>
    intro dc m hR hok
    have hsb := hR s List.mem_cons_self
    have hR' : ∀ x ∈ R, x ∈ b.simps := fun x hx => hR x (List.mem_cons_of_mem _ hx)
    by_cases hst : stepOK a s
    · have hL := (LC_iff_stepOK hIa hIb hsb).mpr hst
      have hrest : ∀ x ∈ R, LC a x := by
        unfold stepOK at hst
        by_cases hin : a.contains s.name = true
        · rw [if_pos hin] at hst
          rw [composeIntoLoop_merge hin hst] at hok
          exact ih dc _ hR' hok
        · have hin' : a.contains s.name = false := by simpa using hin
          rw [if_neg hin] at hst
          cases hadd : dc.addSimplex s.faces s.name with
          | error e => rw [composeIntoLoop_add_err hin' hst hadd] at hok; cases hok
          | ok d1 =>
            rw [composeIntoLoop_add hin' hst hadd] at hok
            exact ih d1 _ hR' hok
      intro x hx
      rcases List.mem_cons.mp hx with rfl | hx
      · exact hL
      · exact hrest x hx
    · rw [composeIntoLoop_bad hst] at hok; cases hok

/-- **C16, `a.compose(b, d)`, only compatible operands can succeed** — for every target `d` whatsoever (not
even `Inv d` is needed): if the call does not raise, `a` and `b` are compatible -/
theorem composeInto_ok_compat {a b : C} (hIa : Inv a) (hIb : Inv b) (d : C)
    (h : (composeInto a b d).1 = .ok ()) : Compatible a b := by
  unfold composeInto at h
  rcases hcp : copyInto a d with ⟨r, d0⟩
  rw [hcp] at h
  cases r with
  | error e => cases h
  | ok l =>
    simp only at h
    exact compatible_iff_LC.mpr (composeIntoLoop_ok_LC hIa hIb b.simps d0 [] (fun s hs => hs) h)

/-- **C16, `a.compose(b, d)`, failure is ValueError**: for valid `a`, `b`, `d` with `d` sharing no name with
`a` or `b`, incompatible operands raise ValueError (`.value`). The hypothesis on the names of `b` cannot be
dropped: see `exKey` below, where a name of `b` that `d` already uses makes `addSimplex` raise KeyError before
the incompatible simplex is reached. -/
theorem composeInto_incompatible {a b d : C} (hIa : Inv a) (hIb : Inv b) (hId : Inv d)
    (hda : NamesDisjoint d a) (hdb : NamesDisjoint d b) (hnc : ¬ Compatible a b) :
    (composeInto a b d).1 = .error .value := by
  obtain ⟨d0, hcopy, hU0⟩ := copyInto_spec hIa hId hda
  rcases composeIntoLoop_spec hIa hIb hId hdb b.simps [] d0 [] (by simp) (by simp) (by simpa using hU0)
      (by simp) with ⟨hall, -⟩ | ⟨-, herr⟩
  · exact absurd (compatible_iff_LC.mpr hall) hnc
  · unfold composeInto
    rw [hcopy]
    exact herr

/-- when the target already uses a name of `a`, `self.copy(d)` raises ValueError before anything is changed,
whatever `b` is -/
theorem composeInto_shared_name (a b d : C) (h : a.names.any d.contains = true) :
    composeInto a b d = (.error .value, d, []) := by
  unfold composeInto copyInto
  simp [h]

/-- **C16, `a.compose(b, d)`**: with a target of unrelated names the call succeeds exactly on compatible
operands, and every failure is a ValueError -/
theorem composeInto_ok_iff {a b d : C} (hIa : Inv a) (hIb : Inv b) (hId : Inv d)
    (hda : NamesDisjoint d a) (hdb : NamesDisjoint d b) :
    ((composeInto a b d).1 = .ok () ↔ Compatible a b) ∧
    ((composeInto a b d).1 = .error .value ↔ ¬ Compatible a b) := by
  refine ⟨⟨composeInto_ok_compat hIa hIb d, fun hc => ?_⟩, ⟨fun h hc => ?_, composeInto_incompatible hIa hIb hId hda hdb⟩⟩
  · obtain ⟨r, hr, -⟩ := composeInto_spec hIa hIb hId hc hda hdb
    rw [hr]
  · obtain ⟨r, hr, -⟩ := composeInto_spec hIa hIb hId hc hda hdb
    rw [hr] at h; cases h

end Flat

/-! # Part 2 — the attribute dicts of a composition (heap layer) -/
namespace W
open Flat

/-- reading the dict of a simplex through an object whose dict ids lie below `w.next` gives the same content in
every world that agrees with `w` below `w.next` -/
theorem dictOf_stable {w w' : World} {o : Obj} (hlt : ∀ d ∈ o.ids, d < w.next)
    (hc : ∀ d, d < w.next → w'.cell? d = w.cell? d) (n : Name) : o.dictOf w' n = o.dictOf w n := by
  unfold Obj.dictOf
  cases ha : o.attr? n with
  | none => rfl
  | some d => simp only; rw [hc d (hlt d (attr?_mem_ids ha))]

theorem dictOf_of_attr {o : Obj} {w : World} {n : Name} {e : Nat} (h : o.attr? n = some e) :
    o.dictOf w n = (w.cell? e).getD [] := by
  unfold Obj.dictOf; rw [h]

theorem attr?_isSome_iff {o : Obj} {n : Name} : (o.attr? n).isSome = true ↔ n ∈ o.attrs.map (·.1) := by
  rw [attr?_eq]
  constructor
  · intro h
    cases hk : kfind o.attrs n with
    | none => rw [hk] at h; cases h
    | some d => exact List.mem_map.mpr ⟨(n, d), kfind_mem hk, rfl⟩
  · intro h
    obtain ⟨p, hp, rfl⟩ := List.mem_map.mp h
    exact kfind_isSome_of_mem hp

theorem attr?_relabel (o : Obj) (m n : Name) (v : Nat) :
    Obj.attr? { o with attrs := o.attrs.map (fun p => if p.1 = m then (m, v) else p) } n =
      if n = m then (o.attr? m).map (fun _ => v) else o.attr? n := by
  have hfun : (fun p : Name × Nat => if p.1 = m then (m, v) else p) =
      (fun p => if (p.1 == m) = true then (m, v) else p) := by
    funext p; by_cases h : p.1 = m <;> simp [h]
  rw [attr?_eq, attr?_eq, attr?_eq]
  simp only [hfun]
  exact kfind_map_upd _ _ _ _

/-- one round of the loop of `mergeAttrs`, in full -/
theorem mergeStep_attrs {w : World} (hw : WInv w) (a b : Obj) (h : String) (m : Name) (o : Obj)
    (ho : w.obj? h = some o) :
    ∃ o1, (mergeStep a b h w m).obj? h = some o1 ∧ Frame w (mergeStep a b h w m) h ∧
      WInv (mergeStep a b h w m) ∧ (mergeStep a b h w m).next = w.next + 1 ∧
      o1.rep = o.rep ∧ o1.c = o.c ∧ o1.filt = o.filt ∧ o1.attrs.map (·.1) = o.attrs.map (·.1) ∧
      (∀ n, o1.attr? n = if n = m then (o.attr? m).map (fun _ => w.next) else o.attr? n) ∧
      (mergeStep a b h w m).cell? w.next = some (Dict.update (a.dictOf w m) (b.dictOf w m)) := by
  obtain ⟨o1, f, hw1, ho1, -⟩ := mergeStep_spec hw a b h m 0 o ho (Nat.zero_le _) (fun _ _ => Nat.zero_le _)
  have hform : mergeStep a b h w m = (w.alloc (Dict.update (a.dictOf w m) (b.dictOf w m))).2.setObj h
      { o with attrs := o.attrs.map (fun p => if p.1 = m then (m, w.next) else p) } := by
    unfold mergeStep
    simp only
    have ho' : (w.alloc (Dict.update (a.dictOf w m) (b.dictOf w m))).2.obj? h = some o := ho
    rw [ho']
    rfl
  rw [hform] at ho1 f hw1 ⊢
  rw [obj?_setObj_self] at ho1
  injection ho1 with ho1
  subst ho1
  refine ⟨_, obj?_setObj_self _ _ _, f, hw1, by simp [alloc_next], rfl, rfl, rfl, ?_, ?_, ?_⟩
  · simp only [List.map_map]
    apply List.map_congr_left
    intro p _
    by_cases hp : p.1 = m <;> simp [hp]
  · intro n; exact attr?_relabel o m n w.next
  · rw [setObj_cell?]; exact alloc_cell?_self w _ hw.cell_lt

/-- **the loop of `mergeAttrs`**: the object at `h` keeps its identity, structure and list of simplices; a
simplex not in `shared` keeps its dict object; a simplex in `shared` (that has a dict) gets a NEW dict object
holding `a`'s dict for it updated with `b`'s (both read in the world `w0` in which the operands were looked
up); nothing else changes -/
theorem mergeAttrs_attrs (a b : Obj) (h : String) (w0 : World)
    (ha : ∀ d ∈ a.ids, d < w0.next) (hb : ∀ d ∈ b.ids, d < w0.next) :
    ∀ (shared : List Name) (w : World) (o : Obj), WInv w → w.obj? h = some o → w0.next ≤ w.next →
      (∀ d, d < w0.next → w.cell? d = w0.cell? d) →
      ∃ o', (mergeAttrs w a b h shared).obj? h = some o' ∧ Frame w (mergeAttrs w a b h shared) h ∧
        WInv (mergeAttrs w a b h shared) ∧
        o'.rep = o.rep ∧ o'.c = o.c ∧ o'.filt = o.filt ∧ o'.attrs.map (·.1) = o.attrs.map (·.1) ∧
        (∀ n, n ∉ shared → o'.attr? n = o.attr? n) ∧
        (∀ n, n ∈ shared → (o.attr? n).isSome = true → ∃ e, o'.attr? n = some e ∧ w.next ≤ e ∧
            (mergeAttrs w a b h shared).cell? e = some (Dict.update (a.dictOf w0 n) (b.dictOf w0 n))) := by
  intro shared
  induction shared with
  | nil =>
    intro w o hw ho _ _
    exact ⟨o, ho, Frame.refl w h, hw, rfl, rfl, rfl, rfl, fun _ _ => rfl, fun n hn => by cases hn⟩
  | cons m rest ih =>
    intro w o hw ho hle hcell
    obtain ⟨o1, ho1, f1, hw1, hn1, r1, c1, fl1, nm1, at1, cl1⟩ := mergeStep_attrs hw a b h m o ho
    obtain ⟨o2, ho2, f2, hw2, r2, c2, fl2, nm2, keep2, new2⟩ := ih (mergeStep a b h w m) o1 hw1 ho1
      (Nat.le_trans hle f1.next_le)
      (fun d hd => (f1.cell_old d (Nat.lt_of_lt_of_le hd hle)).trans (hcell d hd))
    rw [mergeAttrs_eq] at ho2 f2 hw2 new2
    rw [mergeAttrs_eq, List.foldl_cons]
    refine ⟨o2, ho2, f1.trans f2, hw2, r2.trans r1, c2.trans c1, fl2.trans fl1, nm2.trans nm1, ?_, ?_⟩
    · intro n hn
      rw [List.mem_cons, not_or] at hn
      rw [keep2 n hn.2, at1 n, if_neg hn.1]
    · intro n hn hsome
      by_cases hr : n ∈ rest
      · have hs1 : (o1.attr? n).isSome = true := by
          rw [at1 n]
          split_ifs with e
          · rw [← e, Option.isSome_map]; exact hsome
          · exact hsome
        obtain ⟨e, he, hle2, hc2⟩ := new2 n hr hs1
        exact ⟨e, he, Nat.le_trans f1.next_le hle2, hc2⟩
      · have hnm : n = m := by
          rcases List.mem_cons.mp hn with h1 | h1
          · exact h1
          · exact absurd h1 hr
        subst hnm
        obtain ⟨e0, he0⟩ := Option.isSome_iff_exists.mp hsome
        refine ⟨w.next, ?_, Nat.le_refl _, ?_⟩
        · rw [keep2 n hr, at1 n, if_pos rfl, he0]; rfl
        · rw [f2.cell_old w.next (by rw [hn1]; exact Nat.lt_succ_self _), cl1,
            dictOf_stable ha hcell, dictOf_stable hb hcell]

/-! ## `a.compose(b)` into a new object -/

/-- the content of the dict of simplex `n` of a composition: `a`'s dict overwritten by `b`'s when both have
`n`, `a`'s when only `a` has it, `b`'s otherwise -/
def composedDict (w : World) (a b : Obj) (n : Name) : Dict :=
  if a.c.contains n then
    (if b.c.contains n then Dict.update (a.dictOf w n) (b.dictOf w n) else a.dictOf w n)
  else b.dictOf w n

/-- **C16 (attributes), `a.compose(b)`**: after a successful `composeOp w ha hb h` the object at `h` has the
structure computed by `composeNew` (see `Flat.composeNew_spec`), a dict for exactly its simplices, and for every
simplex `n` its dict object `e` is fresh (`w.next ≤ e`: not a cell of any object of `w`, as in `composeOp_fresh`,
which also gives the freshness of the representation, the frame and `WInv w'`) and holds `composedDict w a b n`:
`a`'s dict updated with `b`'s when both operands have `n`, `a`'s when only `a` has it, `b`'s when only `b` has
it. No hypothesis on the handles: `h` may be new or rebind `ha` or `hb`, and `ha = hb` is allowed. -/
theorem composeOp_attrs {w w' : World} (hw : WInv w) (ha hb h : String) (a b : Obj)
    (hoa : w.obj? ha = some a) (hob : w.obj? hb = some b) (hc : composeOp w ha hb h = (.ok (), w')) :
    ∃ c' o', composeNew a.c b.c = .ok c' ∧ w'.obj? h = some o' ∧ o'.c = c' ∧ o'.filt = none ∧
      o'.attrs.map (·.1) = c'.names ∧
      ∀ n ∈ c'.names, ∃ e, o'.attr? n = some e ∧ w.next ≤ e ∧
        w'.cell? e = some (composedDict w a b n) ∧ o'.dictOf w' n = composedDict w a b n := by
  unfold composeOp at hc
  rw [hoa, hob] at hc
  simp only at hc
  cases hcn : composeNew a.c b.c with
  | error e => rw [hcn] at hc; simp at hc
  | ok c' =>
    rw [hcn] at hc
    simp only at hc
    injection hc with _ hw'
    obtain ⟨fs, hcc, hfl, -, hnames, hd⟩ := fresh_sync hw (Frame.freshId w h)
      { rep := w.freshId.1, c := emptyC, attrs := [] } c'
      (fun n => if a.c.contains n then a.dictOf w n else b.dictOf w n)
      (Nat.le_refl _) (Nat.lt_succ_self _) rfl
    obtain ⟨o2, ho2, f2, hw2, -, c2, fl2, nm2, keep2, new2⟩ := mergeAttrs_attrs a b h w
      (hw.ok ha a hoa).ids_lt (hw.ok hb b hob).ids_lt (b.c.names.filter a.c.contains) _ _
      fs.inv fs.obj fs.frame.next_le fs.frame.cell_old
    rw [hw'] at ho2 f2 hw2 new2
    refine ⟨c', o2, rfl, ho2, c2.trans hcc, fl2.trans hfl, nm2.trans hnames, ?_⟩
    intro n hn
    have hok1 := fs.inv.ok h _ fs.obj
    have hsome : ((W.sync w.freshId.2 { rep := w.freshId.1, c := emptyC, attrs := [] } c' noSpecial
        (fun n => if a.c.contains n then a.dictOf w n else b.dictOf w n)).1.attr? n).isSome = true := by
      rw [attr?_isSome_iff, hnames]; exact hn
    have key : ∃ e, o2.attr? n = some e ∧ w.next ≤ e ∧ w'.cell? e = some (composedDict w a b n) := by
      by_cases hsh : n ∈ b.c.names.filter a.c.contains
      · obtain ⟨e, he, hle, hce⟩ := new2 n hsh hsome
        refine ⟨e, he, Nat.le_trans fs.frame.next_le hle, ?_⟩
        rw [List.mem_filter] at hsh
        rw [hce]; unfold composedDict
        rw [if_pos hsh.2, if_pos (mem_names_iff.mp hsh.1)]
      · obtain ⟨e1, he1⟩ := Option.isSome_iff_exists.mp hsome
        have hid := attr?_mem_ids he1
        have hcell1 := hok1.ids_cell e1 hid
        have hd1 := hd n hn
        obtain ⟨v, hv⟩ := Option.isSome_iff_exists.mp hcell1
        rw [dictOf_of_attr he1, hv] at hd1
        simp only [Option.getD_some] at hd1
        refine ⟨e1, by rw [keep2 n hsh]; exact he1, fs.ids_fresh e1 hid, ?_⟩
        rw [f2.cell_old e1 (hok1.ids_lt e1 hid), hv, hd1]
        unfold composedDict
        by_cases hca : a.c.contains n = true
        · have hcb : ¬ b.c.contains n = true := fun hcb =>
            hsh (List.mem_filter.mpr ⟨mem_names_iff.mpr hcb, hca⟩)
          rw [if_pos hca, if_pos hca, if_neg hcb]
        · rw [if_neg hca, if_neg hca]
    obtain ⟨e, he, hle, hce⟩ := key
    refine ⟨e, he, hle, hce, ?_⟩
    rw [dictOf_of_attr he, hce]; rfl

/-! ## `a.compose(b, d)` into an existing object -/

theorem composeIntoOp_eq (w : World) (ha hb ht : String) (a b t : Obj)
    (hoa : w.obj? ha = some a) (hob : w.obj? hb = some b) (hot : w.obj? ht = some t) :
    composeIntoOp w ha hb ht =
      ((composeInto a.c b.c t.c).1,
        mergeAttrs
          ((sync w t (composeInto a.c b.c t.c).2.1 noSpecial
              (fun n => if a.c.contains n then a.dictOf w n else b.dictOf w n)).2.setObj ht
            (sync w t (composeInto a.c b.c t.c).2.1 noSpecial
              (fun n => if a.c.contains n then a.dictOf w n else b.dictOf w n)).1)
          a b ht (composeInto a.c b.c t.c).2.2) := by
  unfold composeIntoOp
  rw [hoa, hob, hot]

/-- **`a.compose(b, d)` on the heap, whatever the outcome** (the call is not atomic on the target): the result
is the one of `composeInto` on the structures; the target object keeps its identity and filtration fields, gets
the structure left by `composeInto` and a dict for exactly its simplices; every other object and every dict
object of `w` is unchanged (in particular the operands and their dicts); and for every simplex `n` of the new
structure: if its attributes were merged, a fresh dict object holding `a`'s dict updated with `b`'s; otherwise,
if the target had a dict object for `n`, that very object, with its content; otherwise a fresh dict object
holding a copy of `a`'s dict (when `a` has `n`) or of `b`'s. -/
theorem composeIntoOp_attrs {w : World} (hw : WInv w) (ha hb ht : String) (a b t : Obj)
    (hoa : w.obj? ha = some a) (hob : w.obj? hb = some b) (hot : w.obj? ht = some t) :
    (composeIntoOp w ha hb ht).1 = (composeInto a.c b.c t.c).1 ∧
    ∃ o', (composeIntoOp w ha hb ht).2.obj? ht = some o' ∧ o'.c = (composeInto a.c b.c t.c).2.1 ∧
      o'.rep = t.rep ∧ o'.filt = t.filt ∧ o'.attrs.map (·.1) = (composeInto a.c b.c t.c).2.1.names ∧
      WInv (composeIntoOp w ha hb ht).2 ∧
      (∀ g, g ≠ ht → (composeIntoOp w ha hb ht).2.obj? g = w.obj? g) ∧
      (∀ d, d < w.next → (composeIntoOp w ha hb ht).2.cell? d = w.cell? d) ∧
      ∀ n ∈ (composeInto a.c b.c t.c).2.1.names,
        (n ∈ (composeInto a.c b.c t.c).2.2 → ∃ e, o'.attr? n = some e ∧ w.next ≤ e ∧
          (composeIntoOp w ha hb ht).2.cell? e = some (Dict.update (a.dictOf w n) (b.dictOf w n))) ∧
        (n ∉ (composeInto a.c b.c t.c).2.2 → ∀ e, t.attr? n = some e →
          o'.attr? n = some e ∧ e < w.next ∧ (composeIntoOp w ha hb ht).2.cell? e = w.cell? e) ∧
        (n ∉ (composeInto a.c b.c t.c).2.2 → t.attr? n = none → ∃ e, o'.attr? n = some e ∧ w.next ≤ e ∧
          (composeIntoOp w ha hb ht).2.cell? e =
            some (if a.c.contains n then a.dictOf w n else b.dictOf w n)) := by
  rw [composeIntoOp_eq w ha hb ht a b t hoa hob hot]
  generalize hr : composeInto a.c b.c t.c = r
  have s := sync_spec w t r.2.1 noSpecial (fun n => if a.c.contains n then a.dictOf w n else b.dictOf w n)
    hw.cell_lt
  have hw1 := sync_inv hw ht t (hw.ok ht t hot) r.2.1 noSpecial
    (fun n => if a.c.contains n then a.dictOf w n else b.dictOf w n) (fun n d e => by cases e)
  have f1 : Frame w ((W.sync w t r.2.1 noSpecial
      (fun n => if a.c.contains n then a.dictOf w n else b.dictOf w n)).2.setObj ht
      (W.sync w t r.2.1 noSpecial (fun n => if a.c.contains n then a.dictOf w n else b.dictOf w n)).1) ht :=
    (s.frame ht).trans (Frame.setObj _ ht _)
  obtain ⟨o2, ho2, f2, hw2, r2, c2, fl2, nm2, keep2, new2⟩ := mergeAttrs_attrs a b ht w
    (hw.ok ha a hoa).ids_lt (hw.ok hb b hob).ids_lt r.2.2 _ _ hw1 (obj?_setObj_self _ _ _)
    f1.next_le f1.cell_old
  have f := f1.trans f2
  refine ⟨rfl, o2, ho2, c2.trans s.c, r2.trans s.rep, fl2.trans s.filt, nm2.trans s.names, hw2,
    f.obj_other, f.cell_old, ?_⟩
  intro n hn
  obtain ⟨d, hd, hgood⟩ := s.attr? hn
  have hokt := hw.ok ht t hot
  refine ⟨fun hm => ?_, fun hm e he => ?_, fun hm hnone => ?_⟩
  · obtain ⟨e, he, hle, hce⟩ := new2 n hm (by rw [hd]; rfl)
    exact ⟨e, he, Nat.le_trans f1.next_le hle, hce⟩
  · have hlt : e < w.next := hokt.ids_lt e (attr?_mem_ids he)
    rcases hgood with h1 | ⟨h1, -⟩ | ⟨h1, -⟩
    · simp only at h1
      rw [he] at h1; injection h1 with h1; subst h1
      exact ⟨by rw [keep2 n hm]; exact hd, hlt, f.cell_old e hlt⟩
    · simp only at h1; rw [he] at h1; cases h1
    · simp only at h1; rw [he] at h1; cases h1
  · rcases hgood with h1 | ⟨-, h2⟩ | ⟨-, -, h3, h4, h5⟩
    · simp only at h1; rw [hnone] at h1; cases h1
    · cases h2
    · simp only at h3 h4 h5
      refine ⟨d, by rw [keep2 n hm]; exact hd, h3, ?_⟩
      rw [f2.cell_old d (by simpa using h4), setObj_cell?, h5]

/-- **C16 (attributes), `a.compose(b, d)`, success**: for valid structures, `a` and `b` compatible, a target
`t` without a name in common with `a` or `b` (`Flat.composeInto_spec`) that has a dict for exactly its simplices
(what every operation establishes for the object it stores: `SyncSpec.names`), in a well-formed world: the
call succeeds; the target object keeps its identity, has the structure `r` of `Flat.composeInto_spec`, whose
simplices are those of `t`, `a` and `b`; every other object and every old dict object is unchanged (the operands
in particular); a simplex of the target keeps its dict OBJECT and its content; every other simplex `n` gets a
fresh dict object (`w.next ≤ e`) holding `composedDict w a b n`. No hypothesis on the handles. -/
theorem composeIntoOp_ok {w : World} (hw : WInv w) (ha hb ht : String) (a b t : Obj)
    (hoa : w.obj? ha = some a) (hob : w.obj? hb = some b) (hot : w.obj? ht = some t)
    (hIa : Inv a.c) (hIb : Inv b.c) (hIt : Inv t.c) (hc : Compatible a.c b.c)
    (hda : NamesDisjoint t.c a.c) (hdb : NamesDisjoint t.c b.c) (hT : t.attrs.map (·.1) = t.c.names) :
    (composeIntoOp w ha hb ht).1 = .ok () ∧
    ∃ r o', composeInto a.c b.c t.c = (.ok (), r, b.c.names.filter a.c.contains) ∧
      (composeIntoOp w ha hb ht).2.obj? ht = some o' ∧ o'.c = r ∧ o'.rep = t.rep ∧ o'.filt = t.filt ∧
      o'.attrs.map (·.1) = r.names ∧ WInv (composeIntoOp w ha hb ht).2 ∧
      (∀ g, g ≠ ht → (composeIntoOp w ha hb ht).2.obj? g = w.obj? g) ∧
      (∀ d, d < w.next → (composeIntoOp w ha hb ht).2.cell? d = w.cell? d) ∧
      (∀ n, n ∈ r.names ↔ (t.c.contains n = true ∨ a.c.contains n = true ∨ b.c.contains n = true)) ∧
      (∀ n, t.c.contains n = true → ∃ e, t.attr? n = some e ∧ o'.attr? n = some e ∧ e < w.next ∧
        (composeIntoOp w ha hb ht).2.cell? e = w.cell? e ∧
        o'.dictOf (composeIntoOp w ha hb ht).2 n = t.dictOf w n) ∧
      (∀ n, t.c.contains n = false → (a.c.contains n = true ∨ b.c.contains n = true) →
        ∃ e, o'.attr? n = some e ∧ w.next ≤ e ∧
          (composeIntoOp w ha hb ht).2.cell? e = some (composedDict w a b n) ∧
          o'.dictOf (composeIntoOp w ha hb ht).2 n = composedDict w a b n) := by
  obtain ⟨r, hr, -, -, -, -, -, -, -, hperm⟩ := composeInto_spec hIa hIb hIt hc hda hdb
  obtain ⟨hres, o', ho', hc', hrep, hfl, hnm, hw', hobj, hcell, hall⟩ :=
    composeIntoOp_attrs hw ha hb ht a b t hoa hob hot
  rw [hr] at hres hc' hnm hall
  simp only at hres hc' hnm hall
  have hnames : ∀ n, n ∈ r.names ↔ (t.c.contains n = true ∨ a.c.contains n = true ∨ b.c.contains n = true) := by
    intro n
    rw [hperm.mem_iff, List.mem_append, List.mem_append, List.mem_filter, mem_names_iff, mem_names_iff,
      mem_names_iff]
    by_cases h1 : a.c.contains n = true <;> simp [h1]
  have hattr : ∀ n, (t.attr? n).isSome = true ↔ t.c.contains n = true := by
    intro n; rw [attr?_isSome_iff, hT, mem_names_iff]
  refine ⟨hres, r, o', hr, ho', hc', hrep, hfl, hnm, hw', hobj, hcell, hnames, ?_, ?_⟩
  · intro n hn
    have hnr : n ∈ r.names := (hnames n).mpr (Or.inl hn)
    have hnm' : n ∉ b.c.names.filter a.c.contains := by
      intro hm
      have := hda n hn
      rw [(List.mem_filter.mp hm).2] at this; cases this
    obtain ⟨e, he⟩ := Option.isSome_iff_exists.mp ((hattr n).mpr hn)
    obtain ⟨h1, h2, h3⟩ := (hall n hnr).2.1 hnm' e he
    exact ⟨e, he, h1, h2, h3, by rw [dictOf_of_attr h1, dictOf_of_attr he, h3]⟩
  · intro n hn hab
    have hnr : n ∈ r.names := (hnames n).mpr (Or.inr hab)
    have hnone : t.attr? n = none := by
      cases hk : t.attr? n with
      | none => rfl
      | some e =>
        have := (hattr n).mp (by rw [hk]; rfl)
        rw [hn] at this; cases this
    have key : ∃ e, o'.attr? n = some e ∧ w.next ≤ e ∧
        (composeIntoOp w ha hb ht).2.cell? e = some (composedDict w a b n) := by
      by_cases hm : n ∈ b.c.names.filter a.c.contains
      · obtain ⟨e, h1, h2, h3⟩ := (hall n hnr).1 hm
        refine ⟨e, h1, h2, ?_⟩
        rw [List.mem_filter] at hm
        rw [h3]; unfold composedDict
        rw [if_pos hm.2, if_pos (mem_names_iff.mp hm.1)]
      · obtain ⟨e, h1, h2, h3⟩ := (hall n hnr).2.2 hm hnone
        refine ⟨e, h1, h2, ?_⟩
        rw [h3]; unfold composedDict
        by_cases hca : a.c.contains n = true
        · have hcb : ¬ b.c.contains n = true := fun hcb =>
            hm (List.mem_filter.mpr ⟨mem_names_iff.mpr hcb, hca⟩)
          rw [if_pos hca, if_pos hca, if_neg hcb]
        · rw [if_neg hca, if_neg hca]
    obtain ⟨e, h1, h2, h3⟩ := key
    exact ⟨e, h1, h2, h3, by rw [dictOf_of_attr h1, h3]; rfl⟩

end W

/-! # Part 2b — `a.compose(b)` is `a.compose(b, SimplicialComplex())`: the plain composition again, with faces -/
namespace Flat

/-- the two loops of the model differ only in the list of merged names that `composeIntoLoop` returns -/
theorem composeLoop_eq_into (a : C) : ∀ (R : List (Simp Name)) (d : C) (m : List Name),
    composeLoop a d R = (match composeIntoLoop a d m R with
      | (.ok _, d', _) => .ok d'
      | (.error e, _, _) => .error e) := by
  intro R
  induction R with
  | nil => intro d m; rfl
  | cons s R ih =>
    intro d m
    rw [composeLoop, composeIntoLoop]
    by_cases hin : a.contains s.name = true
    · simp only [hin, if_true]
      cases simplexWithBasis a s.basis with
      | none => rfl
      | some n =>
        simp only
        by_cases hn : n = s.name
        · simp only [hn, if_true]; exact ih d _
        · simp only [hn, if_false]
    · simp only [hin]
      cases simplexWithBasis a s.basis with
      | some n => rfl
      | none =>
        simp only
        cases d.addSimplex s.faces s.name with
        | error e => rfl
        | ok d' => simp only; exact ih d' m

theorem composeNew_eq_into (a b : C) :
    composeNew a b = (match composeInto a b emptyC with
      | (.ok _, d', _) => .ok d'
      | (.error e, _, _) => .error e) := by
  have hany : a.names.any emptyC.contains = false := by
    rw [List.any_eq_false]; intro n _; simp [Cx.contains, Cx.lookup, emptyC]
  unfold composeNew composeInto copyNew copyInto
  rw [hany]
  simp only [Bool.false_eq_true, if_false]
  rcases addFrom emptyC a id with ⟨r, d0⟩
  cases r with
  | error e => rfl
  | ok l => simp only; exact composeLoop_eq_into a b.simps d0 []

theorem namesDisjoint_emptyC (x : C) : NamesDisjoint emptyC x := by
  intro n hn; simp [Cx.contains, Cx.lookup, emptyC] at hn

/-- **C16, `a.compose(b)`, with faces** (`composeNew_spec` gives names, orders and points of the simplices that
come from `b`; here also their faces): for compatible valid operands the new complex contains a twin (same name,
order, faces as a set, basis as a set) of every simplex of `a` and of every simplex of `b`, nothing else, and
its names are those of `a` followed by those of `b` unknown to `a`, up to order, each once; for incompatible
operands the call raises ValueError. -/
theorem composeNew_twins {a b : C} (hIa : Inv a) (hIb : Inv b) :
    (Compatible a b → ∃ r, composeNew a b = .ok r ∧ Inv r ∧ r.seq = 0 ∧
      (∀ s ∈ a.simps, ∃ t ∈ r.simps, Twin s t) ∧ (∀ s ∈ b.simps, ∃ t ∈ r.simps, Twin s t) ∧
      (∀ t ∈ r.simps, (∃ s ∈ a.simps, Twin s t) ∨ ∃ s ∈ b.simps, Twin s t) ∧
      r.names.Perm (a.names ++ b.names.filter (fun n => !a.contains n))) ∧
    (¬ Compatible a b → composeNew a b = .error .value) := by
  constructor
  · intro hc
    obtain ⟨r, hr, hI, hseq, -, -, hA, hB, hsrc, hperm⟩ := composeInto_spec hIa hIb emptyC_inv hc
      (namesDisjoint_emptyC a) (namesDisjoint_emptyC b)
    refine ⟨r, by rw [composeNew_eq_into, hr], hI, hseq, hA, hB, ?_, ?_⟩
    · intro t ht
      rcases hsrc t ht with h | h | h
      · cases h
      · exact Or.inl h
      · exact Or.inr h
    · simpa [Cx.names, emptyC] using hperm
  · intro hnc
    have h := composeInto_incompatible hIa hIb emptyC_inv (namesDisjoint_emptyC a) (namesDisjoint_emptyC b) hnc
    rw [composeNew_eq_into]
    rcases hci : composeInto a b emptyC with ⟨r, d', m⟩
    rw [hci] at h
    simp only at h
    rw [h]

/-- the simplices of a composition are those of the operands -/
theorem composeNew_names {a b d : C} (hIa : Inv a) (hIb : Inv b) (h : composeNew a b = .ok d) (n : Name) :
    n ∈ d.names ↔ (a.contains n = true ∨ b.contains n = true) := by
  obtain ⟨-, -, hA, hB, hsrc⟩ := (composeNew_spec hIa hIb).2 d h
  rw [mem_names_iff, contains_iff]
  constructor
  · rintro ⟨t, ht, rfl⟩
    rcases hsrc t ht with ⟨s, hs, htw⟩ | ⟨s, hs, hn, -⟩
    · exact Or.inl (contains_iff.mpr ⟨s, hs, htw.1.symm⟩)
    · exact Or.inr (contains_iff.mpr ⟨s, hs, hn⟩)
  · rintro (h1 | h1)
    · obtain ⟨s, hs, rfl⟩ := contains_iff.mp h1
      obtain ⟨t, ht, htw⟩ := hA s hs
      exact ⟨t, ht, htw.1⟩
    · obtain ⟨s, hs, rfl⟩ := contains_iff.mp h1
      obtain ⟨t, ht, hn, -⟩ := hB s hs
      exact ⟨t, ht, hn⟩

end Flat

namespace W
open Flat

/-- **C16 on the heap, `a.compose(b)`, both directions**: for valid structures the call succeeds exactly on
compatible operands; otherwise it raises ValueError and the world is unchanged (`composeOp_atomic`) -/
theorem composeOp_ok_iff {w : World} (hw : WInv w) (ha hb h : String) (a b : Obj)
    (hoa : w.obj? ha = some a) (hob : w.obj? hb = some b) (hIa : Inv a.c) (hIb : Inv b.c) :
    ((composeOp w ha hb h).1 = .ok () ↔ Compatible a.c b.c) ∧
    (¬ Compatible a.c b.c → composeOp w ha hb h = (.error .value, w)) := by
  have hT := composeNew_twins hIa hIb
  rcases composeOp_spec hw ha hb h a b hoa hob with ⟨e, he, hop⟩ | ⟨c', o', hc', hok, -⟩
  · have hnc : ¬ Compatible a.c b.c := by
      intro hc
      obtain ⟨r, hr, -⟩ := hT.1 hc
      rw [hr] at he; cases he
    refine ⟨⟨fun h1 => ?_, fun hc => absurd hc hnc⟩, fun _ => ?_⟩
    · rw [hop] at h1; cases h1
    · rw [hT.2 hnc] at he
      injection he with he
      rw [hop, he]
  · have hc : Compatible a.c b.c := ((composeNew_spec hIa hIb).1).mp ⟨c', hc'⟩
    exact ⟨⟨fun _ => hc, fun _ => hok⟩, fun hnc => absurd hc hnc⟩

/-- **C16 (attributes), `a.compose(b)`, case by case**: for valid structures, after a successful call the new
object has a dict for exactly the simplices of `a` and of `b`; the dict of a simplex both have is `a`'s
overwritten by `b`'s, of one only `a` has `a`'s, of one only `b` has `b`'s; all these dict objects are new, and
every object and dict object of `w` other than the handle `h` is unchanged (`composeOp_fresh`) -/
theorem composeOp_attrs_cases {w w' : World} (hw : WInv w) (ha hb h : String) (a b : Obj)
    (hoa : w.obj? ha = some a) (hob : w.obj? hb = some b) (hIa : Inv a.c) (hIb : Inv b.c)
    (hc : composeOp w ha hb h = (.ok (), w')) :
    ∃ o', w'.obj? h = some o' ∧ w.next ≤ o'.rep ∧ (∀ d ∈ o'.ids, w.next ≤ d) ∧
      (∀ g, g ≠ h → w'.obj? g = w.obj? g) ∧ (∀ d, d < w.next → w'.cell? d = w.cell? d) ∧ WInv w' ∧
      (∀ n, (o'.attr? n).isSome = true ↔ (a.c.contains n = true ∨ b.c.contains n = true)) ∧
      (∀ n, a.c.contains n = true → b.c.contains n = true →
        o'.dictOf w' n = Dict.update (a.dictOf w n) (b.dictOf w n)) ∧
      (∀ n, a.c.contains n = true → b.c.contains n = false → o'.dictOf w' n = a.dictOf w n) ∧
      (∀ n, a.c.contains n = false → b.c.contains n = true → o'.dictOf w' n = b.dictOf w n) := by
  obtain ⟨o1, ho1, hrep, hids, hobj, hcell, hw'⟩ := composeOp_fresh hw ha hb h hc
  obtain ⟨c', o', hc', ho', hoc, -, hnm, hall⟩ := composeOp_attrs hw ha hb h a b hoa hob hc
  rw [ho1] at ho'; injection ho' with ho'; subst ho'
  have hnames := composeNew_names hIa hIb hc'
  refine ⟨o1, ho1, hrep, hids, hobj, hcell, hw', ?_, ?_, ?_, ?_⟩
  · intro n; rw [attr?_isSome_iff, hnm]; exact hnames n
  · intro n h1 h2
    obtain ⟨e, -, -, -, hd⟩ := hall n ((hnames n).mpr (Or.inl h1))
    rw [hd]; unfold composedDict; rw [if_pos h1, if_pos h2]
  · intro n h1 h2
    obtain ⟨e, -, -, -, hd⟩ := hall n ((hnames n).mpr (Or.inl h1))
    rw [hd]; unfold composedDict; rw [if_pos h1, h2]; rfl
  · intro n h1 h2
    obtain ⟨e, -, -, -, hd⟩ := hall n ((hnames n).mpr (Or.inr h2))
    rw [hd]; unfold composedDict; rw [h1]; rfl

/-- **C16 on the heap, `a.compose(b, d)`, both directions**: for valid structures and a target without a name
in common with the operands, the call succeeds exactly on compatible operands and raises ValueError otherwise
(the state after a failure is described by `composeIntoOp_attrs`: the call is not atomic on the target) -/
theorem composeIntoOp_ok_iff {w : World} (hw : WInv w) (ha hb ht : String) (a b t : Obj)
    (hoa : w.obj? ha = some a) (hob : w.obj? hb = some b) (hot : w.obj? ht = some t)
    (hIa : Inv a.c) (hIb : Inv b.c) (hIt : Inv t.c)
    (hda : NamesDisjoint t.c a.c) (hdb : NamesDisjoint t.c b.c) :
    ((composeIntoOp w ha hb ht).1 = .ok () ↔ Compatible a.c b.c) ∧
    ((composeIntoOp w ha hb ht).1 = .error .value ↔ ¬ Compatible a.c b.c) := by
  rw [(composeIntoOp_attrs hw ha hb ht a b t hoa hob hot).1]
  exact composeInto_ok_iff hIa hIb hIt hda hdb

end W

/-! # Part 3 — the hypotheses are satisfiable; concrete compositions -/
namespace Flat

theorem namesDisjoint_iff {d x : C} : NamesDisjoint d x ↔ ∀ n ∈ d.names, x.contains n = false :=
  ⟨fun h n hn => h n (mem_names_iff.mp hn), fun h n hn => h n (mem_names_iff.mpr hn)⟩

/-- the full triangle on `u2 u3 u4`; it shares the edge `23` and its two points (same names, same points) with
the triangle `exA` on `u1 u2 u3` -/
def exT2 : C := (buildC emptyC [([], .u 2), ([], .u 3), ([], .u 4), ([.u 2, .u 3], .u 23), ([.u 2, .u 4], .u 24),
  ([.u 3, .u 4], .u 34), ([.u 23, .u 24, .u 34], .u 234)]).getD emptyC

theorem exT2_inv : Inv exT2 := buildC_inv _ _ _ emptyC_inv (by rfl :
  buildC emptyC [([], .u 2), ([], .u 3), ([], .u 4), ([.u 2, .u 3], .u 23), ([.u 2, .u 4], .u 24),
    ([.u 3, .u 4], .u 34), ([.u 23, .u 24, .u 34], .u 234)] = some exT2)

/-- a target with unrelated names: the edge `78` on `u7 u8` -/
def exD : C := (buildC emptyC [([], .u 7), ([], .u 8), ([.u 7, .u 8], .u 78)]).getD emptyC

theorem exD_inv : Inv exD := buildC_inv _ _ _ emptyC_inv (by rfl :
  buildC emptyC [([], .u 7), ([], .u 8), ([.u 7, .u 8], .u 78)] = some exD)

/-- same basis, different names: the edge on `u2 u3` is called `99` here and `23` in `exA` -/
def exB'' : C := (buildC emptyC [([], .u 2), ([], .u 3), ([.u 2, .u 3], .u 99)]).getD emptyC

theorem exB''_inv : Inv exB'' := buildC_inv _ _ _ emptyC_inv (by rfl :
  buildC emptyC [([], .u 2), ([], .u 3), ([.u 2, .u 3], .u 99)] = some exB'')

theorem exD_exA : NamesDisjoint exD exA := namesDisjoint_iff.mpr (by decide)
theorem exD_exT2 : NamesDisjoint exD exT2 := namesDisjoint_iff.mpr (by decide)
theorem exD_exB' : NamesDisjoint exD exB' := namesDisjoint_iff.mpr (by decide)
theorem exD_exB'' : NamesDisjoint exD exB'' := namesDisjoint_iff.mpr (by decide)

/-- the two triangles are compatible (obtained from the run, through `composeInto_ok_compat`) -/
theorem exA_exT2 : Compatible exA exT2 := composeInto_ok_compat exA_inv exT2_inv exD (by decide)

-- `composeInto_spec`: all hypotheses hold for (`exA`, `exT2`, `exD`); the run: 3 + 7 + 4 simplices, the three
-- shared names reported as merged, the target's simplices still there in their order
example := composeInto_spec exA_inv exT2_inv exD_inv exA_exT2 exD_exA exD_exT2
example : (composeInto exA exT2 exD).1 = .ok () ∧ (composeInto exA exT2 exD).2.2 = [.u 2, .u 3, .u 23] ∧
    (composeInto exA exT2 exD).2.1.names = [.u 7, .u 8, .u 1, .u 2, .u 3, .u 4, .u 78, .u 12, .u 13, .u 23, .u 24,
      .u 34, .u 123, .u 234] ∧
    (composeInto exA exT2 exD).2.1.simps.filter (fun t => exD.contains t.name) = exD.simps := by decide

-- same name, different basis (`23` is the edge `u3 u4` in `exB'`): ValueError, by the run and by the theorem
example : (composeInto exA exB' exD).1 = .error .value := by decide
example : ¬ Compatible exA exB' := fun h => by
  have := (composeInto_ok_iff exA_inv exB'_inv exD_inv exD_exA exD_exB').1.mpr h
  revert this; decide
example : (composeInto exA exB' exD).1 = .error .value :=
  composeInto_incompatible exA_inv exB'_inv exD_inv exD_exA exD_exB' (fun h => by
    have := (composeInto_ok_iff exA_inv exB'_inv exD_inv exD_exA exD_exB').1.mpr h
    revert this; decide)

-- same basis, different names (`u2 u3` is `99` in `exB''`, `23` in `exA`): ValueError
example : (composeInto exA exB'' exD).1 = .error .value ∧ composeNew exA exB'' = .error .value := by
  constructor
  · decide
  · rfl
example : ¬ Compatible exA exB'' := fun h => by
  have := (composeInto_ok_iff exA_inv exB''_inv exD_inv exD_exA exD_exB'').1.mpr h
  revert this; decide

-- `composeNew_twins` on the examples: the plain composition of the two triangles has 7 + 4 simplices
example := (composeNew_twins exA_inv exT2_inv).1 exA_exT2
example : (composeNew exA exT2).toOption.map (·.names) =
    some [.u 1, .u 2, .u 3, .u 4, .u 12, .u 13, .u 23, .u 24, .u 34, .u 123, .u 234] := by decide

-- a target that uses a name of `a`: ValueError from `self.copy(d)`, target untouched
example : composeInto exA exT2 exA = (.error .value, exA, []) := composeInto_shared_name _ _ _ (by decide)

/-- the hypothesis `NamesDisjoint d b` of `composeInto_incompatible` is needed: `exK` (the point `u4`, then the
incompatible edge `99` on `u2 u3`) is not compatible with `exA`, the target `exK4` (the point `u4`) shares no
name with `exA`, and the call raises KeyError (from `addSimplex`, on `u4`), not ValueError -/
def exK : C := (buildC emptyC [([], .u 4), ([], .u 2), ([], .u 3), ([.u 2, .u 3], .u 99)]).getD emptyC
def exK4 : C := (buildC emptyC [([], .u 4)]).getD emptyC
theorem exK_inv : Inv exK := buildC_inv _ _ _ emptyC_inv (by rfl :
  buildC emptyC [([], .u 4), ([], .u 2), ([], .u 3), ([.u 2, .u 3], .u 99)] = some exK)
theorem exK4_inv : Inv exK4 := buildC_inv _ _ _ emptyC_inv (by rfl : buildC emptyC [([], .u 4)] = some exK4)
example : NamesDisjoint exK4 exA ∧ ¬ Compatible exA exK ∧ (composeInto exA exK exK4).1 = .error .key := by
  refine ⟨namesDisjoint_iff.mpr (by decide), fun h => ?_, by decide⟩
  have := (composeInto_ok_iff exA_inv exK_inv exD_inv exD_exA (namesDisjoint_iff.mpr (by decide))).1.mpr h
  revert this; decide

end Flat

namespace W
open Flat

/-- `for fs, n in l: h.addSimplex(fs=fs, id=n)` -/
def addAll (w : World) (h : String) : List (List Name × Name) → World
  | [] => w
  | (fs, n) :: rest => addAll (addFacesOp w h fs (some n) none).2 h rest

/-- `for s, k, v in l: h[s][k] = v` -/
def setAll (w : World) (h : String) : List (Name × Int × Int) → World
  | [] => w
  | (s, k, v) :: rest => setAll (dictSetOp w h s k v).2 h rest

theorem addAll_inv (h : String) : ∀ (l : List (List Name × Name)) (w : World), WInv w → WInv (addAll w h l) := by
  intro l
  induction l with
  | nil => intro w hw; exact hw
  | cons p rest ih =>
    intro w hw
    obtain ⟨fs, n⟩ := p
    exact ih _ (addFacesOp_inv hw h fs (some n) none (argOK_none _))

theorem setAll_inv (h : String) : ∀ (l : List (Name × Int × Int)) (w : World), WInv w → WInv (setAll w h l) := by
  intro l
  induction l with
  | nil => intro w hw; exact hw
  | cons p rest ih =>
    intro w hw
    obtain ⟨s, k, v⟩ := p
    exact ih _ (dictSetOp_inv hw h s k v)

def triA : List (List Name × Name) := [([], .u 1), ([], .u 2), ([], .u 3), ([.u 1, .u 2], .u 12),
  ([.u 1, .u 3], .u 13), ([.u 2, .u 3], .u 23), ([.u 12, .u 13, .u 23], .u 123)]
def triB : List (List Name × Name) := [([], .u 2), ([], .u 3), ([], .u 4), ([.u 2, .u 3], .u 23),
  ([.u 2, .u 4], .u 24), ([.u 3, .u 4], .u 34), ([.u 23, .u 24, .u 34], .u 234)]

/-- the two triangles as objects `a`, `b` with attributes: the shared edge `23` has `{1: 10, 2: 20}` in `a`
and `{2: 21, 3: 30}` in `b` (key 2 overlaps); `12` (only in `a`) has `{5: 50}`, `34` (only in `b`) has `{6: 60}`;
a target `t` with the point `u9` carrying `{7: 70}`; `p` and `q` are the two incompatible complexes -/
def exCW : World :=
  let w1 := setAll (addAll (newCx {} "a") "a" triA) "a" [(.u 23, 1, 10), (.u 23, 2, 20), (.u 12, 5, 50)]
  let w2 := setAll (addAll (newCx w1 "b") "b" triB) "b" [(.u 23, 2, 21), (.u 23, 3, 30), (.u 34, 6, 60)]
  let w3 := setAll (addAll (newCx w2 "t") "t" [([], .u 9)]) "t" [(.u 9, 7, 70)]
  let w4 := addAll (newCx w3 "p") "p" [([], .u 2), ([], .u 3), ([], .u 4), ([.u 3, .u 4], .u 23)]
  addAll (newCx w4 "q") "q" [([], .u 2), ([], .u 3), ([.u 2, .u 3], .u 99)]

theorem exCW_inv : WInv exCW :=
  addAll_inv _ _ _ (newCx_inv (addAll_inv _ _ _ (newCx_inv (setAll_inv _ _ _ (addAll_inv _ _ _ (newCx_inv
    (setAll_inv _ _ _ (addAll_inv _ _ _ (newCx_inv (setAll_inv _ _ _ (addAll_inv _ _ _
      (newCx_inv WInv.empty "a"))) "b"))) "t"))) "p")) "q")

set_option maxRecDepth 100000

example : (exCW.obj? "a").map (·.c.simps) = some exA.simps ∧ (exCW.obj? "b").map (·.c.simps) = some exT2.simps ∧
    (exCW.obj? "p").map (·.c.simps) = some exB'.simps ∧ (exCW.obj? "q").map (·.c.simps) = some exB''.simps := by
  decide

/-- **`c = a.compose(b)`**: succeeds; the shared edge carries `a`'s dict overwritten by `b`'s, the others their
own; every dict object of `c` is new (ids from `exCW.next` on), `a` and `b` still read their own dicts -/
example : (composeOp exCW "a" "b" "c").1 = .ok () ∧
    ((composeOp exCW "a" "b" "c").2.obj? "c").map (fun o =>
      [o.dictOf (composeOp exCW "a" "b" "c").2 (.u 23), o.dictOf (composeOp exCW "a" "b" "c").2 (.u 12),
       o.dictOf (composeOp exCW "a" "b" "c").2 (.u 34), o.dictOf (composeOp exCW "a" "b" "c").2 (.u 1)]) =
      some [[(1, 10), (2, 21), (3, 30)], [(5, 50)], [(6, 60)], []] ∧
    ((composeOp exCW "a" "b" "c").2.obj? "c").map (fun o => o.ids.all (fun d => exCW.next ≤ d)) = some true ∧
    ((composeOp exCW "a" "b" "c").2.obj? "a").map (fun o => o.dictOf (composeOp exCW "a" "b" "c").2 (.u 23)) =
      some [(1, 10), (2, 20)] ∧
    ((composeOp exCW "a" "b" "c").2.obj? "b").map (fun o => o.dictOf (composeOp exCW "a" "b" "c").2 (.u 23)) =
      some [(2, 21), (3, 30)] := by decide

-- `composeOp_attrs` on the example
example := composeOp_attrs exCW_inv "a" "b" "c" _ _ rfl rfl
  (Prod.ext (by decide : (composeOp exCW "a" "b" "c").1 = .ok ()) rfl)

/-- same name, different basis (`p`); same basis, different names (`q`): ValueError, nothing changes -/
example : (composeOp exCW "a" "p" "c").1 = .error .value ∧ (composeOp exCW "a" "q" "c").1 = .error .value ∧
    (composeIntoOp exCW "a" "p" "t").1 = .error .value ∧ (composeIntoOp exCW "a" "q" "t").1 = .error .value := by
  decide
example : (composeOp exCW "a" "p" "c").2 = exCW := composeOp_atomic exCW_inv "a" "p" "c" .value (by decide)

/-- **`a.compose(b, t)`**: succeeds; the target's point `u9` keeps its dict object (same id, same content), the
shared edge gets the merged dict, the others copies of their own -/
example : (composeIntoOp exCW "a" "b" "t").1 = .ok () ∧
    ((composeIntoOp exCW "a" "b" "t").2.obj? "t").map (fun o =>
      [o.dictOf (composeIntoOp exCW "a" "b" "t").2 (.u 9), o.dictOf (composeIntoOp exCW "a" "b" "t").2 (.u 23),
       o.dictOf (composeIntoOp exCW "a" "b" "t").2 (.u 12), o.dictOf (composeIntoOp exCW "a" "b" "t").2 (.u 34)]) =
      some [[(7, 70)], [(1, 10), (2, 21), (3, 30)], [(5, 50)], [(6, 60)]] ∧
    ((composeIntoOp exCW "a" "b" "t").2.obj? "t").bind (fun o => o.attr? (.u 9)) =
      (exCW.obj? "t").bind (fun o => o.attr? (.u 9)) ∧
    ((composeIntoOp exCW "a" "b" "t").2.obj? "t").map (fun o => o.c.names.length) = some 12 := by decide

-- `composeIntoOp_attrs` (any outcome) and `composeIntoOp_ok` on the example: all hypotheses hold
theorem Cx_eq {c c' : C} (h1 : c.simps = c'.simps) (h2 : c.seq = c'.seq) : c = c' := by
  cases c; cases c'; simp_all

/-- the object behind a handle of a concrete world -/
def objOf (w : World) (h : String) : Obj := (w.obj? h).getD { rep := 0, c := emptyC, attrs := [] }

/-- the target's structure: the point `u9` -/
def exT9 : C := (buildC emptyC [([], .u 9)]).getD emptyC
theorem exT9_inv : Inv exT9 := buildC_inv _ _ _ emptyC_inv (by rfl : buildC emptyC [([], .u 9)] = some exT9)

theorem exCW_oa : exCW.obj? "a" = some (objOf exCW "a") := by rfl
theorem exCW_ob : exCW.obj? "b" = some (objOf exCW "b") := by rfl
theorem exCW_ot : exCW.obj? "t" = some (objOf exCW "t") := by rfl
theorem exCW_ac : (objOf exCW "a").c = exA := Cx_eq (by decide) (by decide)
theorem exCW_bc : (objOf exCW "b").c = exT2 := Cx_eq (by decide) (by decide)
theorem exCW_tc : (objOf exCW "t").c = exT9 := Cx_eq (by decide) (by decide)

theorem exCW_op : exCW.obj? "p" = some (objOf exCW "p") := by rfl
theorem exCW_pc : (objOf exCW "p").c = exB' := Cx_eq (by decide) (by decide)

example := composeOp_attrs_cases exCW_inv "a" "b" "c" _ _ exCW_oa exCW_ob
  (by rw [exCW_ac]; exact exA_inv) (by rw [exCW_bc]; exact exT2_inv)
  (Prod.ext (by decide : (composeOp exCW "a" "b" "c").1 = .ok ()) rfl)
example : composeOp exCW "a" "p" "c" = (.error .value, exCW) :=
  (composeOp_ok_iff exCW_inv "a" "p" "c" _ _ exCW_oa exCW_op (by rw [exCW_ac]; exact exA_inv)
    (by rw [exCW_pc]; exact exB'_inv)).2 (by
      rw [exCW_ac, exCW_pc]; intro h
      have := (composeInto_ok_iff exA_inv exB'_inv exD_inv exD_exA exD_exB').1.mpr h
      revert this; decide)
example := composeIntoOp_attrs exCW_inv "a" "b" "t" _ _ _ exCW_oa exCW_ob exCW_ot
example := composeIntoOp_ok_iff exCW_inv "a" "b" "t" _ _ _ exCW_oa exCW_ob exCW_ot
  (by rw [exCW_ac]; exact exA_inv) (by rw [exCW_bc]; exact exT2_inv) (by rw [exCW_tc]; exact exT9_inv)
  (by rw [exCW_tc, exCW_ac]; exact namesDisjoint_iff.mpr (by decide))
  (by rw [exCW_tc, exCW_bc]; exact namesDisjoint_iff.mpr (by decide))
example := composeIntoOp_ok exCW_inv "a" "b" "t" _ _ _ exCW_oa exCW_ob exCW_ot
  (by rw [exCW_ac]; exact exA_inv) (by rw [exCW_bc]; exact exT2_inv) (by rw [exCW_tc]; exact exT9_inv)
  (by rw [exCW_ac, exCW_bc]; exact exA_exT2)
  (by rw [exCW_tc, exCW_ac]; exact namesDisjoint_iff.mpr (by decide))
  (by rw [exCW_tc, exCW_bc]; exact namesDisjoint_iff.mpr (by decide)) (by decide)

end W
