import Sx.Model
import Sx.Proofs.FlatInv

/-! lemmas shared by several property files -/
namespace Flat

theorem emptyC_inv : Inv emptyC := by
  refine ⟨List.Pairwise.nil, List.nodup_nil, ?_, ?_, ?_⟩ <;> intro s hs <;> cases hs

end Flat
