import Sx.Props.MatRep7

/-! # Layer R — part 8: properness (no empty order, no simplex of order ≥ 1 without a face) is kept by
`addSimplex`, `relabelSimplex` and by `forceDeleteSimplex` of a simplex that has no cofaces — the only way
the library ever calls it (`deleteSimplex` deletes cofaces first).  Properness gives `TopNE`. -/
namespace MatRep
open Flat M2
set_option linter.unusedSectionVars false

/-- no order `0.._maxOrder` is empty, and every column of every boundary matrix has a one -/
structure Proper (r : Rep) : Prop where
  nonempty : ∀ k, k < r.len → r.idx k ≠ []
  colNZ    : ∀ k, 0 < k → k < r.len → ∀ j, j < (r.idx k).length →
               ∃ i, i < (r.idx (k - 1)).length ∧ (r.bd k).get i j = true

theorem Proper.topNE {r : Rep} (h : Proper r) : TopNE r := fun h0 => h.nonempty _ (by omega)

theorem proper_empty : Proper Rep.empty :=
  ⟨fun k hk => by simp [Rep.empty, Rep.len] at hk, fun k _ hk => by simp [Rep.empty, Rep.len] at hk⟩

/-! ## `addSimplex` -/

/-- an accepted call has checked that every face is a simplex one order down -/
theorem guardR_none_faces {r : Rep} {fs : List Name} {id : Name} (h : guardR r fs id = none) :
    ∀ f ∈ fs, r.orderOf? f = some (fs.length - 1 - 1) := by
  intro f hf
  by_cases he : fs.isEmpty = true
  · rw [List.isEmpty_iff.mp he] at hf; cases hf
  · unfold guardR at h
    simp only at h
    rw [if_neg he] at h
    by_contra hne'
    have hany : fs.any (fun f => r.orderOf? f != some (fs.length - 1 - 1)) = true := by
      rw [List.any_eq_true]
      exact ⟨f, hf, by simpa using hne'⟩
    rw [hany] at h
    split_ifs at h
    all_goals simp_all

theorem addResult_proper {r : Rep} (hI : MInv r) (hP : Proper r) {fs : List Name} {id : Name}
    (hg : guardR r fs id = none) : Proper (addResult r fs id) := by
  obtain ⟨h1, h2, hk⟩ := guardR_none hg
  have hlen := addResult_len hI id h1 hk
  have hidx := addResult_idx hI id h1 hk
  constructor
  · intro j hj
    rw [hidx]
    split_ifs with hjk
    · simp
    · rw [hlen] at hj
      exact hP.nonempty j (by omega)
  · intro j hj0 hj c hc
    rw [hlen] at hj
    rw [hidx] at hc ⊢
    by_cases he : fs.isEmpty = true
    · -- a new point: only `boundaries[1]` changes, by a zero row
      have hfs : fs = [] := List.isEmpty_iff.mp he
      subst hfs
      simp only [List.length_nil, Nat.zero_sub] at hj hc hidx ⊢
      rw [if_neg (by omega)] at hc
      have hjl : j < r.len := by omega
      obtain ⟨i, hi, hget⟩ := hP.colNZ j hj0 hjl c hc
      obtain ⟨hm, hn⟩ := hI.bdShape j hj0 hjl
      have hbd : (addResult r [] id).bd j = if j = 1 ∧ 1 < r.len then appendZeroRow (r.bd j) else r.bd j := by
        have : addResult r [] id = (prep r 0).addPoint id := rfl
        rw [this, addPoint_bd hI, if_neg (show ¬ (j = 0 ∧ 0 = r.len) by omega)]
      rw [hbd]
      refine ⟨i, ?_, ?_⟩
      · split_ifs with h
        · rw [h] at hi; rw [List.length_append, List.length_singleton]; omega
        · exact hi
      · split_ifs with h
        · unfold appendZeroRow
          rw [get_mk (by omega) (by omega), if_pos (by omega)]; exact hget
        · exact hget
    · -- a new simplex of order k ≥ 1
      have hk1 : 0 < fs.length - 1 := by
        cases fs with
        | nil => simp at he
        | cons a l => cases l with
          | nil => simp at h1
          | cons b l => simp
      have hbd : (addResult r fs id).bd j =
          if j = fs.length - 1 then appendCol (bdBefore r (fs.length - 1)) (r.bdCol (fs.length - 1) fs)
          else if j = fs.length - 1 + 1 ∧ fs.length - 1 + 1 < r.len then appendZeroRow (r.bd j) else r.bd j := by
        unfold addResult
        rw [if_neg he, addHigher_bd hI hk hk1]
      rw [hbd]
      obtain ⟨hbm, hbn⟩ := bdBefore_shape hI hk hk1
      by_cases hjk : j = fs.length - 1
      · subst hjk
        rw [if_pos rfl] at hc ⊢
        rw [if_neg (by omega)]
        rw [List.length_append, List.length_singleton] at hc
        by_cases hcn : c < (r.idx (fs.length - 1)).length
        · -- an old column
          have hjl : fs.length - 1 < r.len := by
            by_contra h; rw [idx_oob r (by omega)] at hcn; simp at hcn
          obtain ⟨i, hi, hget⟩ := hP.colNZ _ hj0 hjl c hcn
          refine ⟨i, hi, ?_⟩
          unfold appendCol
          rw [get_mk (by omega) (by omega), if_pos (by omega)]
          unfold bdBefore; rw [if_neg (by omega)]; exact hget
        · -- the new column: any face marks a row
          have hcn' : c = (r.idx (fs.length - 1)).length := by omega
          have hne : fs ≠ [] := fun h => he (by rw [h]; rfl)
          obtain ⟨f, hf⟩ := List.exists_mem_of_ne_nil fs hne
          -- the guards established that `f` is a simplex of order k - 1
          have hord : r.orderOf? f = some (fs.length - 1 - 1) := guardR_none_faces hg f hf
          unfold Rep.orderOf? at hord
          cases hff : r.find? f with
          | none => rw [hff] at hord; cases hord
          | some p =>
            obtain ⟨k', i'⟩ := p
            rw [hff] at hord
            simp only [Option.map_some, Option.some.injEq] at hord
            subst hord
            obtain ⟨-, hget⟩ := find?_some hff
            have hi' : i' < (r.idx (fs.length - 1 - 1)).length := (List.getElem?_eq_some_iff.mp hget).1
            refine ⟨i', hi', ?_⟩
            unfold appendCol
            rw [get_mk (by omega) (by omega), if_neg (by omega), bdCol_spec hI _ _ hi']
            rw [List.getElem?_eq_getElem hi'] at hget
            rw [List.contains_iff_mem, Option.some.inj hget]; exact hf
      · rw [if_neg hjk] at hc ⊢
        have hjl : j < r.len := by omega
        obtain ⟨i, hi, hget⟩ := hP.colNZ j hj0 hjl c hc
        obtain ⟨hm, hn⟩ := hI.bdShape j hj0 hjl
        refine ⟨i, ?_, ?_⟩
        · split_ifs with h
          · rw [h] at hi; rw [List.length_append, List.length_singleton]; omega
          · exact hi
        · split_ifs with h
          · unfold appendZeroRow
            rw [get_mk (by omega) (by omega), if_pos (by omega)]; exact hget
          · exact hget

/-- an accepted `addSimplex` keeps the representation proper -/
theorem addSimplex_proper {r r' : Rep} (hI : MInv r) (hP : Proper r) {fs : List Name} {id : Name}
    (h : r.addSimplex fs id = .ok r') : Proper r' := by
  rw [addSimplex_eq] at h
  cases hg : guardR r fs id with
  | some e => rw [hg] at h; cases h
  | none =>
    rw [hg] at h
    rw [← Except.ok.inj h]
    exact addResult_proper hI hP hg

/-! ## `relabelSimplex` -/

theorem relabelSimplex_proper {r r' : Rep} (hI : MInv r) (hP : Proper r) {s q : Name}
    (h : r.relabelSimplex s q = .ok r') : Proper r' := by
  rw [relabel_eq] at h
  by_cases hq : r.contains q = true
  · rw [if_pos hq] at h; cases h
  · rw [if_neg hq] at h
    cases hf : r.find? s with
    | none => rw [hf] at h; cases h
    | some p =>
      obtain ⟨k, i⟩ := p
      rw [hf] at h
      rw [← Except.ok.inj h]
      have hlen : (relabelResult r k i q).len = r.len := by
        unfold relabelResult Rep.len; simp
      constructor
      · intro j hj
        rw [hlen] at hj
        rw [relabel_idx hI hf]
        intro he
        exact hP.nonempty j hj (List.map_eq_nil_iff.mp he)
      · intro j hj0 hj c hc
        rw [hlen] at hj
        rw [relabel_idx hI hf, List.length_map] at hc ⊢
        exact hP.colNZ j hj0 hj c hc

/-! ## `forceDeleteSimplex` of a simplex without cofaces -/

/-- no cofaces = a zero row in the boundary matrix one order up -/
theorem row_zero_of_cofaces_nil {r : Rep} {s : Name} {k i : Nat} (hf : r.find? s = some (k, i))
    (hk1 : k + 1 < r.len) (hc : r.cofaces s = []) :
    ∀ j, j < (r.idx (k + 1)).length → (r.bd (k + 1)).get i j = false := by
  intro j hj
  unfold Rep.cofaces at hc
  rw [hf] at hc
  simp only at hc
  rw [if_neg (by rw [eq_maxOrder_iff]; omega), List.filterMap_eq_nil_iff] at hc
  have := hc j (List.mem_range.mpr hj)
  by_contra hne
  have hb : (r.bd (k + 1)).get i j = true := by simpa using hne
  rw [if_pos hb, List.getElem?_eq_getElem hj] at this
  cases this

theorem get_deleteRow {B : Mat} {i r c : Nat} (hr : r < B.m - 1) (hc : c < B.n) :
    (deleteRow B i).get r c = B.get (skip i r) c := by
  unfold deleteRow; rw [get_mk hr hc]; rfl

section del
variable {r : Rep} (hI : MInv r) (hP : Proper r) {s : Name} {k i : Nat} (hf : r.find? s = some (k, i))
  (hc : r.cofaces s = [])
include hI hP hf hc

theorem delCore_colNZ (j : Nat) (hj0 : 0 < j) (hj : j < r.len) (c : Nat)
    (hcl : c < ((delCore r k i).idx j).length) :
    ∃ row, row < ((delCore r k i).idx (j - 1)).length ∧ ((delCore r k i).bd j).get row c = true := by
  obtain ⟨hk, hget⟩ := find?_some hf
  have hilt : i < (r.idx k).length := (List.getElem?_eq_some_iff.mp hget).1
  obtain ⟨hm, hn⟩ := hI.bdShape j hj0 hj
  rw [delCore_idx hI hk] at hcl ⊢
  rw [delCore_bd hI hk]
  by_cases hjk : j = k
  · subst hjk
    rw [if_pos rfl, List.length_eraseIdx, if_pos hilt] at hcl
    rw [if_neg (by omega), if_neg (by omega), if_pos ⟨rfl, hj0⟩]
    obtain ⟨row, hrow, hg⟩ := hP.colNZ j hj0 hj (skip i c) (by unfold skip; split_ifs <;> omega)
    exact ⟨row, hrow, by rw [get_deleteCol (by omega) (by omega)]; exact hg⟩
  · rw [if_neg hjk] at hcl
    by_cases hj1 : j = k + 1
    · subst hj1
      rw [Nat.add_sub_cancel] at hm ⊢
      rw [if_pos rfl, if_pos ⟨rfl, hj⟩, List.length_eraseIdx, if_pos hilt]
      obtain ⟨row, hrow, hg⟩ := hP.colNZ (k + 1) hj0 hj c hcl
      rw [Nat.add_sub_cancel] at hrow
      have hne : row ≠ i := by
        rintro rfl
        rw [row_zero_of_cofaces_nil hf hj hc c hcl] at hg
        cases hg
      refine ⟨if row < i then row else row - 1, by split_ifs <;> omega, ?_⟩
      rw [get_deleteRow (by split_ifs <;> omega) (by omega)]
      have : skip i (if row < i then row else row - 1) = row := by
        unfold skip; split_ifs <;> omega
      rw [this]; exact hg
    · rw [if_neg (by omega), if_neg (fun hh => hj1 hh.1), if_neg (fun hh => hjk hh.1)]
      exact hP.colNZ j hj0 hj c hcl

theorem delCore_nonempty_ne (j : Nat) (hj : j < r.len) (hjk : j ≠ k) : (delCore r k i).idx j ≠ [] := by
  rw [delCore_idx hI (find?_some hf).1, if_neg hjk]
  exact hP.nonempty j hj

/-- deleting a simplex that has no cofaces keeps the representation proper -/
theorem forceDelete_proper_aux : Proper (r.forceDeleteSimplex s) := by
  obtain ⟨hk, hget⟩ := find?_some hf
  have hilt : i < (r.idx k).length := (List.getElem?_eq_some_iff.mp hget).1
  have hI' := MInv_delCore hI hf
  have hlen := delCore_len hI hk (i := i)
  rw [forceDelete_eq, hf]
  simp only
  split_ifs with hpop
  · obtain ⟨h1, h2⟩ := hpop
    have hkl := (eq_maxOrder_iff r k).mp h1
    have hlen' : (delCore r k i).len = k + 1 := by rw [hlen]; exact hkl.symm
    constructor
    · intro j hj
      rw [popTop_len hI' hlen'] at hj
      rw [popTop_idx hI' hlen' hj]
      exact delCore_nonempty_ne hI hP hf hc j (by omega) (by omega)
    · intro j hj0 hj c hcl
      rw [popTop_len hI' hlen'] at hj
      rw [popTop_idx hI' hlen' hj] at hcl
      rw [popTop_idx hI' hlen' (by omega : j - 1 < k), popTop_bd hI' hlen' hj]
      exact delCore_colNZ hI hP hf hc j hj0 (by omega) c hcl
  · constructor
    · intro j hj
      rw [hlen] at hj
      by_cases hjk : j = k
      · subst hjk
        intro he
        -- the order would be emptied below a higher one: that one's first column needs a row
        have hk1 : j + 1 < r.len := by
          by_contra hh
          apply hpop
          refine ⟨(eq_maxOrder_iff r j).mpr (by omega), by rw [he]; rfl⟩
        rw [delCore_idx hI hk, if_pos rfl] at he
        have hl1 : (r.idx j).length = 1 := by
          have := congrArg List.length he
          rw [List.length_eraseIdx, if_pos hilt] at this
          simp at this; omega
        have hne := hP.nonempty (j + 1) hk1
        have hpos : 0 < (r.idx (j + 1)).length := List.length_pos_iff.mpr hne
        obtain ⟨row, hrow, hg⟩ := hP.colNZ (j + 1) (by omega) hk1 0 hpos
        rw [Nat.add_sub_cancel] at hrow
        have : row = i := by omega
        subst this
        rw [row_zero_of_cofaces_nil hf hk1 hc 0 hpos] at hg
        cases hg
      · exact delCore_nonempty_ne hI hP hf hc j hj hjk
    · intro j hj0 hj c hcl
      rw [hlen] at hj
      exact delCore_colNZ hI hP hf hc j hj0 hj c hcl

end del

/-- **`forceDeleteSimplex` of a simplex without cofaces keeps the representation proper** (an unknown name
changes nothing) -/
theorem forceDelete_proper {r : Rep} (hI : MInv r) (hP : Proper r) {s : Name} (hc : r.cofaces s = []) :
    Proper (r.forceDeleteSimplex s) := by
  cases hf : r.find? s with
  | none => rw [forceDelete_eq, hf]; exact hP
  | some p =>
    obtain ⟨k, i⟩ := p
    exact forceDelete_proper_aux hI hP hf hc

end MatRep
