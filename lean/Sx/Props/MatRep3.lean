import Sx.Props.MatRep2
import Sx.Proofs.FlatAdd

/-! # Layer R — part 3: `addSimplex`, generic part: appending one simplex to one level -/
namespace MatRep
open Flat M2
set_option linter.unusedSectionVars false

/-! ## `insertSorted` on a list that is already split at the insertion point -/

theorem insertSorted_append_le {s : Simp Name} {L1 L2 : List (Simp Name)}
    (h : ∀ t ∈ L1, t.order ≤ s.order) : insertSorted s (L1 ++ L2) = L1 ++ insertSorted s L2 := by
  induction L1 with
  | nil => rfl
  | cons a L1 ih =>
    rw [List.cons_append, insertSorted, if_pos (h a List.mem_cons_self), ih (fun t ht => h t (List.mem_cons_of_mem _ ht))]
    rfl

theorem insertSorted_lt {s : Simp Name} {L2 : List (Simp Name)} (h : ∀ t ∈ L2, s.order < t.order) :
    insertSorted s L2 = s :: L2 := by
  cases L2 with
  | nil => rfl
  | cons a L2 =>
    have := h a List.mem_cons_self
    rw [insertSorted, if_neg (by omega)]

/-- appending `s` to level `k` of a list of levels = `insertSorted s` on the flattened list -/
theorem insertSorted_levels (g g' : Nat → List (Simp Name)) (s : Simp Name) (k n n' : Nat)
    (hord : ∀ j, ∀ t ∈ g j, t.order = j) (hs : s.order = k)
    (hk : k ≤ n) (hn' : n' = max n (k + 1)) (hg : ∀ j, n ≤ j → g j = [])
    (hg' : ∀ j, g' j = if j = k then g k ++ [s] else g j) :
    (List.range n').flatMap g' = insertSorted s ((List.range n).flatMap g) := by
  -- the tail of empty levels does not matter
  have hpad : (List.range n).flatMap g = (List.range n').flatMap g := by
    by_cases hkn : k < n
    · have : n' = n := by omega
      rw [this]
    · have : n' = n + 1 := by omega
      rw [this, flatMap_range_succ, hg n (Nat.le_refl n), List.append_nil]
  obtain ⟨m, hm⟩ : ∃ m, n' = (k + 1) + m := ⟨n' - (k + 1), by omega⟩
  have hsplit : ∀ f : Nat → List (Simp Name), (List.range n').flatMap f =
      ((List.range k).flatMap f ++ f k) ++ (List.range m).flatMap (fun x => f (k + 1 + x)) := by
    intro f
    rw [hm, List.range_add, List.flatMap_append, flatMap_range_succ, List.flatMap_map]
  rw [hpad, hsplit g, hsplit g']
  rw [insertSorted_append_le, insertSorted_lt]
  · have h1 : (List.range k).flatMap g' = (List.range k).flatMap g := by
      apply flatMap_range_congr
      intro j hj; rw [hg', if_neg (by omega)]
    have h2 : (List.range m).flatMap (fun x => g' (k + 1 + x)) = (List.range m).flatMap (fun x => g (k + 1 + x)) := by
      apply flatMap_range_congr
      intro j hj; rw [hg', if_neg (by omega)]
    rw [h1, h2, hg' k, if_pos rfl]
    simp
  · intro t ht
    rw [List.mem_flatMap] at ht
    obtain ⟨x, -, hx⟩ := ht
    rw [hord _ t hx, hs]; omega
  · intro t ht
    rw [List.mem_append] at ht
    rcases ht with ht | ht
    · rw [List.mem_flatMap] at ht
      obtain ⟨x, hx, hx'⟩ := ht
      rw [List.mem_range] at hx
      rw [hord _ t hx', hs]; omega
    · rw [hord _ t ht, hs]

/-- **appending one simplex**: if `r'` has the index lists of `r` with `id` appended to order `k`, decodes
every old column as `r` does, and decodes the new column to `nf` / `nb`, then `abs r'` is Layer A's
`insertSorted` of the new record. -/
theorem abs_insert {r r' : Rep} {k : Nat} {id : Name} {nf nb : List Name}
    (hk : k ≤ r.len) (hlen : r'.len = max r.len (k + 1))
    (hidx : ∀ j, r'.idx j = if j = k then r.idx k ++ [id] else r.idx j)
    (hold : ∀ j i, i < (r.idx j).length → r'.facesAt j i = r.facesAt j i ∧ r'.basisAt j i = r.basisAt j i)
    (hnew : r'.facesAt k (r.idx k).length = nf ∧ r'.basisAt k (r.idx k).length = nb) :
    (abs r').simps = insertSorted ⟨id, k, nf, nb⟩ (abs r).simps := by
  unfold abs
  simp only
  apply insertSorted_levels r.level r'.level _ k r.len r'.len (fun j t ht => level_order ht) rfl hk hlen
    (fun j hj => level_oob r hj)
  intro j
  have hcong : ∀ (l : List Name), l.length ≤ (r.idx j).length →
      l.mapIdx (fun i n => r'.simpAt j i n) = l.mapIdx (fun i n => r.simpAt j i n) := by
    intro l hl
    apply mapIdx_congr'
    intro i a ha
    have hi : i < l.length := (List.getElem?_eq_some_iff.mp ha).1
    obtain ⟨h1, h2⟩ := hold j i (by omega)
    unfold Rep.simpAt; rw [h1, h2]
  unfold Rep.level
  rw [hidx j]
  by_cases hjk : j = k
  · subst hjk
    rw [if_pos rfl, if_pos rfl, List.mapIdx_concat, hcong _ (Nat.le_refl _)]
    unfold Rep.simpAt
    rw [hnew.1, hnew.2]
  · rw [if_neg hjk, if_neg hjk, hcong _ (Nat.le_refl _)]

/-! ## the state after "create the necessary structures" and "extend the boundary operator above" -/

/-- the first two steps of `addSimplex` for order `k` -/
def prep (r : Rep) (k : Nat) : Rep := (if (k : Int) > r.maxOrder then r.newOrder k else r).extendAbove k

section prep
variable {r : Rep} (hI : MInv r) {k : Nat} (hk : k ≤ r.len)
include hI hk

theorem prep_indices : (prep r k).indices = if k = r.len then r.indices ++ [[]] else r.indices := by
  unfold prep Rep.extendAbove
  by_cases h : (k : Int) > r.maxOrder
  · have : k = r.len := by have := (gt_maxOrder_iff r k).mp h; omega
    rw [if_pos h, if_pos this]
    split_ifs <;> rfl
  · have : k ≠ r.len := by have := (gt_maxOrder_iff r k); omega
    rw [if_neg h, if_neg this]
    split_ifs <;> rfl

theorem prep_len : (prep r k).len = max r.len (k + 1) := by
  unfold Rep.len
  rw [prep_indices hI hk]
  unfold Rep.len at hk ⊢
  split_ifs with h
  · rw [List.length_append, List.length_singleton]; omega
  · omega

theorem prep_idx (j : Nat) : (prep r k).idx j = r.idx j := by
  unfold Rep.idx
  rw [prep_indices hI hk]
  split_ifs with h
  · rw [getD_append_one]
    split_ifs with h1 h2
    · rfl
    · rw [getD_oob _ _ _ (by omega)]
    · rw [getD_oob _ _ _ (by omega)]
  · rfl

theorem prep_bases : (prep r k).bases =
    if k = r.len then r.bases ++ [zeros (r.idx 0).length 0] else r.bases := by
  unfold prep Rep.extendAbove
  by_cases h : (k : Int) > r.maxOrder
  · have : k = r.len := by have := (gt_maxOrder_iff r k).mp h; omega
    rw [if_pos h, if_pos this]
    split_ifs <;> rfl
  · have : k ≠ r.len := by have := (gt_maxOrder_iff r k); omega
    rw [if_neg h, if_neg this]
    split_ifs <;> rfl

theorem prep_bs (j : Nat) : (prep r k).bs j =
    if j = k ∧ k = r.len then zeros (r.idx 0).length 0 else r.bs j := by
  unfold Rep.bs
  rw [prep_bases hI hk]
  have hl := hI.lenS
  unfold Rep.len at hk ⊢
  by_cases h : k = r.indices.length
  · rw [if_pos h, getD_append_one]
    by_cases hj : j = k
    · rw [if_neg (show ¬ j < r.bases.length by omega), if_pos (show j = r.bases.length by omega),
        if_pos (show j = k ∧ k = r.indices.length from ⟨hj, h⟩)]
    · rw [if_neg (show ¬ (j = k ∧ k = r.indices.length) from fun hh => hj hh.1)]
      by_cases hjl : j < r.bases.length
      · rw [if_pos hjl]
      · rw [if_neg hjl, if_neg (show ¬ j = r.bases.length by omega), getD_oob _ _ _ (by omega)]
  · rw [if_neg h, if_neg (show ¬ (j = k ∧ k = r.indices.length) from fun hh => h hh.2)]

theorem prep_lenS : (prep r k).bases.length = max r.len (k + 1) := by
  rw [prep_bases hI hk]
  have hl := hI.lenS
  unfold Rep.len at hk ⊢
  split_ifs with h
  · rw [List.length_append, List.length_singleton]; omega
  · omega

theorem prep_bd (j : Nat) : (prep r k).bd j =
    if j = k ∧ k = r.len then zeros (r.idx (k - 1)).length 0
    else if j = k + 1 ∧ k + 1 < r.len then appendZeroRow (r.bd j) else r.bd j := by
  have hl := hI.lenB
  unfold prep
  by_cases h : (k : Int) > r.maxOrder
  · have hkl : k = r.len := by have := (gt_maxOrder_iff r k).mp h; omega
    rw [if_pos h]
    have hno : ¬ ((r.newOrder k).maxOrder > (k : Int)) := by
      unfold Rep.newOrder Rep.maxOrder; simp only [List.length_append, List.length_singleton]
      unfold Rep.len at hkl; omega
    unfold Rep.extendAbove
    rw [if_neg hno]
    unfold Rep.bd Rep.newOrder
    simp only
    rw [getD_append_one]
    have hkl' : k = r.indices.length := hkl
    by_cases hj : j = k
    · rw [if_neg (show ¬ j < r.boundaries.length by omega), if_pos (show j = r.boundaries.length by omega),
        if_pos (show j = k ∧ k = r.len from ⟨hj, hkl⟩)]
    · rw [if_neg (show ¬ (j = k ∧ k = r.len) from fun hh => hj hh.1),
        if_neg (show ¬ (j = k + 1 ∧ k + 1 < r.len) by omega)]
      by_cases hjl : j < r.boundaries.length
      · rw [if_pos hjl]
      · rw [if_neg hjl, if_neg (show ¬ j = r.boundaries.length by omega), getD_oob _ _ _ (by omega)]
  · have hkl : k ≠ r.len := by have := (gt_maxOrder_iff r k); omega
    rw [if_neg h, if_neg (show ¬ (j = k ∧ k = r.len) from fun hh => hkl hh.2)]
    unfold Rep.extendAbove
    by_cases hm : r.maxOrder > (k : Int)
    · have hk1 : k + 1 < r.len := (lt_maxOrder_iff r k).mp hm
      rw [if_pos hm]
      unfold Rep.bd
      simp only
      rw [getD_modify]
      have hk1' : k + 1 < r.indices.length := hk1
      by_cases hj : j = k + 1
      · rw [if_pos (show j = k + 1 ∧ k + 1 < r.boundaries.length from ⟨hj, by omega⟩),
          if_pos (show j = k + 1 ∧ k + 1 < r.len from ⟨hj, hk1⟩)]
      · rw [if_neg (show ¬ (j = k + 1 ∧ k + 1 < r.boundaries.length) from fun hh => hj hh.1),
          if_neg (show ¬ (j = k + 1 ∧ k + 1 < r.len) from fun hh => hj hh.1)]
    · have hk1 : ¬ k + 1 < r.len := fun hh => hm ((lt_maxOrder_iff r k).mpr hh)
      rw [if_neg hm, if_neg (show ¬ (j = k + 1 ∧ k + 1 < r.len) from fun hh => hk1 hh.2)]

theorem prep_lenB : (prep r k).boundaries.length = max r.len (k + 1) := by
  have hl := hI.lenB
  unfold prep
  by_cases h : (k : Int) > r.maxOrder
  · have hkl : k = r.len := by have := (gt_maxOrder_iff r k).mp h; omega
    rw [if_pos h]
    have hno : ¬ ((r.newOrder k).maxOrder > (k : Int)) := by
      unfold Rep.newOrder Rep.maxOrder; simp only [List.length_append, List.length_singleton]
      unfold Rep.len at hkl; omega
    unfold Rep.extendAbove
    rw [if_neg hno]
    unfold Rep.newOrder
    simp only [List.length_append, List.length_singleton]
    unfold Rep.len at hkl hk ⊢; omega
  · have hkl : k ≠ r.len := by have := (gt_maxOrder_iff r k); omega
    rw [if_neg h]
    unfold Rep.extendAbove
    unfold Rep.len at hkl hk ⊢
    by_cases hm : r.maxOrder > (k : Int)
    · rw [if_pos hm]; simp only [List.length_modify]; omega
    · rw [if_neg hm]; omega

theorem prep_seq : (prep r k).seq = r.seq := by
  unfold prep Rep.extendAbove Rep.newOrder
  split_ifs <;> rfl

end prep

/-- the dictionary only depends on the index lists, and ignores a tail of empty orders -/
theorem find?_congr {r1 r2 : Rep} (hidx : ∀ j, r1.idx j = r2.idx j) (hlen : r1.len ≤ r2.len) (s : Name) :
    r2.find? s = r1.find? s := by
  unfold Rep.find?
  obtain ⟨m, hm⟩ : ∃ m, r2.len = r1.len + m := ⟨r2.len - r1.len, by omega⟩
  rw [hm, List.range_add, List.findSome?_append]
  have h1 : (List.range r1.len).findSome? (fun k => ((r2.idx k).idxOf? s).map (fun i => (k, i))) =
      (List.range r1.len).findSome? (fun k => ((r1.idx k).idxOf? s).map (fun i => (k, i))) := by
    congr 1; funext k; rw [hidx]
  have h2 : ((List.range m).map (fun x => r1.len + x)).findSome?
      (fun k => ((r2.idx k).idxOf? s).map (fun i => (k, i))) = none := by
    rw [List.findSome?_eq_none_iff]
    intro k hk
    rw [List.mem_map] at hk
    obtain ⟨x, -, rfl⟩ := hk
    rw [← hidx, idx_oob r1 (by omega)]
    rfl
  rw [h1, h2, Option.or_none]

theorem prep_find? {r : Rep} (hI : MInv r) {k : Nat} (hk : k ≤ r.len) (s : Name) :
    (prep r k).find? s = r.find? s :=
  find?_congr (fun j => (prep_idx hI hk j).symm) (by rw [prep_len hI hk]; omega) s

theorem prep_basisOf {r : Rep} (hI : MInv r) {k : Nat} (hk : k ≤ r.len) (s : Name) :
    (prep r k).basisOf s = r.basisOf s := by
  unfold Rep.basisOf
  rw [prep_find? hI hk]
  cases hf : r.find? s with
  | none => rfl
  | some p =>
    obtain ⟨k', i'⟩ := p
    simp only
    unfold Rep.basisAt
    have := (find?_some hf).1
    rw [prep_idx hI hk, prep_bs hI hk, if_neg (by omega)]

end MatRep
