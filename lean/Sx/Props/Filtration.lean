import Sx.Model
import Sx.Proofs.FiltQuery
import Sx.Proofs.FlatBasis8
import Sx.Proofs.FlatDelete2
import Mathlib.Tactic.SplitIfs

/-! # C13 / C14 — the filtration

`FS` (Sx/Model/FiltOps.lean) mirrors `Filtration`: a complex, a birth index per simplex, the set of existing
indices and the current index.

* `FInv` — the filtration invariant, and its preservation by every mutator of the model;
* C13 — `visibleC_spec` (the complex seen at the current index is a valid complex, consists of exactly the
  simplices born at or before the index, and grows with the index), `indices_sorted`, `iterate_restores`;
* C14 — the index-aware queries answer as the visible complex; navigation moves to the adjacent index;
  `maxOrder` is *not* scoped (recorded finding). -/
namespace Flat

/-! ## the invariant -/

/-- the birth index as a total function (0 for unknown names), the form used by the abstract cores
`visible_inv` / `visible_mono` -/
def FS.birthD (f : FS) (n : Name) : Int := (f.birth? n).getD 0

/-- the filtration invariant: a valid complex; the names in `births` are exactly the names of the complex,
without repeats; every birth index is an existing index; the existing indices have no repeats; a face is
born no later than the simplex -/
structure FInv (f : FS) : Prop where
  inv       : Inv f.c
  names     : ∀ n, n ∈ f.births.map (·.1) ↔ n ∈ f.c.names
  nodup     : (f.births.map (·.1)).Nodup
  keys      : ∀ p ∈ f.births, p.2 ∈ f.keys
  keysNodup : f.keys.Nodup
  mono      : ∀ s ∈ f.c.simps, ∀ x ∈ s.faces, f.birthD x ≤ f.birthD s.name

/-! ## births as a finite map -/

theorem find_fst {L : List (Name × Int)} (hnd : (L.map (·.1)).Nodup) {n : Name} {b : Int} :
    (L.find? (fun p => p.1 == n)).map (·.2) = some b ↔ (n, b) ∈ L := by
  induction L with
  | nil => simp
  | cons p L ih =>
    rw [List.map_cons, List.nodup_cons] at hnd
    by_cases hp : p.1 = n
    · rw [List.find?_cons_of_pos (by simpa using hp)]
      simp only [Option.map_some, Option.some.injEq, List.mem_cons]
      constructor
      · intro h; left; exact Prod.ext hp.symm h.symm
      · rintro (h | h)
        · rw [← h]
        · exfalso; apply hnd.1; rw [hp]; exact List.mem_map.mpr ⟨(n, b), h, rfl⟩
    · rw [List.find?_cons_of_neg (by simpa using hp), ih hnd.2, List.mem_cons]
      constructor
      · exact Or.inr
      · rintro (h | h)
        · exfalso; apply hp; rw [← h]
        · exact h

theorem birth?_eq_some_iff {f : FS} (hnd : (f.births.map (·.1)).Nodup) {n : Name} {b : Int} :
    f.birth? n = some b ↔ (n, b) ∈ f.births := find_fst hnd

theorem birth?_isSome_iff {f : FS} {n : Name} : (f.birth? n).isSome = true ↔ n ∈ f.births.map (·.1) := by
  unfold FS.birth?
  rw [Option.isSome_map, List.find?_isSome, List.mem_map]
  constructor
  · rintro ⟨p, hp, h⟩; exact ⟨p, hp, by simpa using h⟩
  · rintro ⟨p, hp, h⟩; exact ⟨p, hp, by simpa using h⟩

theorem birthD_of_mem {f : FS} (hnd : (f.births.map (·.1)).Nodup) {n : Name} {b : Int} (h : (n, b) ∈ f.births) :
    f.birthD n = b := by
  unfold FS.birthD; rw [(birth?_eq_some_iff hnd).mpr h]; rfl

/-- under the invariant every simplex of the complex has a recorded birth -/
theorem FInv.birth_of_mem {f : FS} (hF : FInv f) {s : Simp Name} (hs : s ∈ f.c.simps) :
    (s.name, f.birthD s.name) ∈ f.births ∧ f.birth? s.name = some (f.birthD s.name) := by
  have : s.name ∈ f.births.map (·.1) := (hF.names s.name).mpr (List.mem_map.mpr ⟨s, hs, rfl⟩)
  obtain ⟨p, hp, hpn⟩ := List.mem_map.mp this
  have hp' : (s.name, p.2) ∈ f.births := by rw [← hpn]; exact hp
  have hb := birthD_of_mem hF.nodup hp'
  rw [hb]
  exact ⟨hp', (birth?_eq_some_iff hF.nodup).mpr hp'⟩

/-- under the invariant, `containsSimplex` of a simplex of the complex compares its birth with the index -/
theorem FInv.visible_of_mem {f : FS} (hF : FInv f) {s : Simp Name} (hs : s ∈ f.c.simps) :
    f.visible s.name = decide (f.birthD s.name ≤ f.index) := by
  unfold FS.visible
  rw [(hF.birth_of_mem hs).2, contains_iff.mpr ⟨s, hs, rfl⟩]
  simp

theorem visible_contains {f : FS} {n : Name} (h : f.visible n = true) : f.c.contains n = true := by
  unfold FS.visible at h
  rw [Bool.and_eq_true] at h
  exact h.1

/-! ## preservation of the invariant -/

theorem FInv.congr {f g : FS} (hF : FInv f) (hc : g.c = f.c) (hb : g.births = f.births)
    (hk : ∀ k ∈ f.keys, k ∈ g.keys) (hn : g.keys.Nodup) : FInv g := by
  have hbd : g.birthD = f.birthD := by funext n; unfold FS.birthD FS.birth?; rw [hb]
  refine ⟨hc ▸ hF.inv, ?_, hb ▸ hF.nodup, ?_, hn, ?_⟩
  · rw [hb, hc]; exact hF.names
  · rw [hb]; exact fun p hp => hk _ (hF.keys p hp)
  · rw [hc, hbd]; exact hF.mono

theorem setIndex_fields (f : FS) (i : Int) :
    (f.setIndex i).c = f.c ∧ (f.setIndex i).births = f.births ∧ (f.setIndex i).index = i ∧
    (∀ k, k ∈ (f.setIndex i).keys ↔ k ∈ f.keys ∨ k = i) := by
  unfold FS.setIndex FS.ensureKey
  split
  · rename_i h
    refine ⟨rfl, rfl, rfl, fun k => ⟨Or.inl, ?_⟩⟩
    rintro (h' | rfl)
    · exact h'
    · simpa using h
  · exact ⟨rfl, rfl, rfl, fun k => by simp⟩

theorem setIndex_of_mem {f : FS} {i : Int} (h : i ∈ f.keys) : f.setIndex i = { f with index := i } := by
  unfold FS.setIndex FS.ensureKey
  rw [if_pos (by simpa using h)]

theorem setIndex_birthD (f : FS) (i : Int) : (f.setIndex i).birthD = f.birthD := by
  funext n; unfold FS.birthD FS.birth?; rw [(setIndex_fields f i).2.1]

/-- **`FInv` is preserved by `setIndex`** -/
theorem setIndex_FInv {f : FS} (hF : FInv f) (i : Int) : FInv (f.setIndex i) := by
  obtain ⟨h1, h2, -, h4⟩ := setIndex_fields f i
  refine hF.congr h1 h2 (fun k hk => (h4 k).mpr (Or.inl hk)) ?_
  unfold FS.setIndex FS.ensureKey
  split
  · exact hF.keysNodup
  · rename_i h
    show (f.keys ++ [i]).Nodup
    rw [List.nodup_append]
    refine ⟨hF.keysNodup, List.nodup_singleton _, ?_⟩
    intro a ha b hb
    rw [List.mem_singleton] at hb
    subst hb
    intro e; subst e
    exact h (by simpa using ha)



theorem filt_inv_emptyC : Inv emptyC :=
  ⟨List.Pairwise.nil, List.nodup_nil, fun _ h => by simp [emptyC] at h, fun _ h => by simp [emptyC] at h,
    fun _ h => by simp [emptyC] at h⟩

/-- **`FInv` holds for a new filtration** -/
theorem newFS_FInv (i : Int) : FInv (newFS i) :=
  ⟨filt_inv_emptyC, fun n => by simp [newFS, emptyC, Cx.names], List.nodup_nil, fun p hp => by simp [newFS] at hp,
    List.nodup_singleton _, fun s hs => by simp [newFS, emptyC] at hs⟩

theorem FInv.birthD_le_of_visible {f : FS} (hF : FInv f) {n : Name} (h : f.visible n = true) :
    f.birthD n ≤ f.index := by
  obtain ⟨s, hs, hn⟩ := contains_iff.mp (visible_contains h)
  rw [← hn] at h ⊢
  rw [hF.visible_of_mem hs, decide_eq_true_eq] at h
  exact h

/-- the heart of `register`: extending the complex by simplices born now, all of whose old faces are visible -/
theorem register_core {f : FS} (hF : FInv f) {c' : C} (hI : Inv c')
    (hsub : ∀ s ∈ f.c.simps, s ∈ c'.simps)
    (hnew : ∀ s ∈ c'.simps, f.c.contains s.name = false → ∀ x ∈ s.faces, f.c.contains x = true →
      f.birthD x ≤ f.index)
    (K : List Int) (hK1 : ∀ k ∈ f.keys, k ∈ K) (hK2 : K.Nodup)
    (hK3 : c'.names.filter (fun n => !f.c.contains n) ≠ [] → f.index ∈ K) :
    FInv ⟨c', f.index,
      f.births ++ (c'.names.filter (fun n => !f.c.contains n)).map (fun n => (n, f.index)), K⟩ := by
  generalize hnews : c'.names.filter (fun n => !f.c.contains n) = news at hK3 ⊢
  have hnewsmem : ∀ n, n ∈ news ↔ n ∈ c'.names ∧ f.c.contains n = false := by
    intro n; rw [← hnews, List.mem_filter]; simp
  have hbn : ∀ n, n ∈ f.births.map (·.1) ↔ f.c.contains n = true := by
    intro n; rw [hF.names, contains_iff]; unfold Cx.names; rw [List.mem_map]
  generalize hg : (⟨c', f.index, f.births ++ news.map (fun n => (n, f.index)), K⟩ : FS) = g
  have hgc : g.c = c' := by rw [← hg]
  have hgb : g.births = f.births ++ news.map (fun n => (n, f.index)) := by rw [← hg]
  have hgk : g.keys = K := by rw [← hg]
  have hgmap : g.births.map (·.1) = f.births.map (·.1) ++ news := by
    rw [hgb, List.map_append, List.map_map]
    congr 1
    exact List.map_id _
  have hnd : (g.births.map (·.1)).Nodup := by
    rw [hgmap, List.nodup_append]
    refine ⟨hF.nodup, ?_, ?_⟩
    · rw [← hnews]; exact hI.nodup.filter _
    · intro a ha b hb e; subst e
      have h1 := (hbn a).mp ha
      have h2 := ((hnewsmem a).mp hb).2
      rw [h1] at h2; cases h2
  have hold : ∀ n, f.c.contains n = true → g.birthD n = f.birthD n := by
    intro n hn
    obtain ⟨p, hp, hpn⟩ := List.mem_map.mp ((hbn n).mpr hn)
    have hp' : (n, p.2) ∈ f.births := by rw [← hpn]; exact hp
    rw [birthD_of_mem hnd (by rw [hgb]; exact List.mem_append_left _ hp'), birthD_of_mem hF.nodup hp']
  have hfresh : ∀ n ∈ news, g.birthD n = f.index := by
    intro n hn
    exact birthD_of_mem hnd (by rw [hgb]; exact List.mem_append_right _ (List.mem_map.mpr ⟨n, hn, rfl⟩))
  refine ⟨hgc ▸ hI, ?_, hnd, ?_, hgk ▸ hK2, ?_⟩
  · intro n
    rw [hgmap, List.mem_append, hbn, hnewsmem, hgc]
    constructor
    · rintro (h | h)
      · obtain ⟨s, hs, hsn⟩ := contains_iff.mp h
        exact List.mem_map.mpr ⟨s, hsub s hs, hsn⟩
      · exact h.1
    · intro h
      by_cases hc : f.c.contains n = true
      · exact Or.inl hc
      · exact Or.inr ⟨h, by simpa using hc⟩
  · intro p hp
    rw [hgk]
    rw [hgb] at hp
    rcases List.mem_append.mp hp with h | h
    · exact hK1 _ (hF.keys p h)
    · obtain ⟨n, hn, rfl⟩ := List.mem_map.mp h
      exact hK3 (List.ne_nil_of_mem hn)
  · rw [hgc]
    intro s hs x hx
    have hpos : 0 < s.order := by
      rcases Nat.eq_zero_or_pos s.order with h0 | h
      · rw [(hI.point s hs h0).1] at hx; simp at hx
      · exact h
    obtain ⟨-, -, hfex, -⟩ := hI.higher s hs hpos
    obtain ⟨t, ht, htn, -⟩ := hfex x hx
    by_cases hsold : f.c.contains s.name = true
    · obtain ⟨s', hs', hsn⟩ := contains_iff.mp hsold
      have hss : s' = s := hI.name_inj (hsub s' hs') hs hsn
      have hs0 : s ∈ f.c.simps := hss ▸ hs'
      have hxold : f.c.contains x = true := by
        obtain ⟨-, -, hfex', -⟩ := hF.inv.higher s hs0 hpos
        obtain ⟨t', ht', htn', -⟩ := hfex' x hx
        exact contains_iff.mpr ⟨t', ht', htn'⟩
      rw [hold _ hsold, hold _ hxold]; exact hF.mono s hs0 x hx
    · have hsnew : f.c.contains s.name = false := by simpa using hsold
      rw [hfresh s.name ((hnewsmem _).mpr ⟨List.mem_map.mpr ⟨s, hs, rfl⟩, hsnew⟩)]
      by_cases hxold : f.c.contains x = true
      · rw [hold _ hxold]; exact hnew s hs hsnew x hx hxold
      · rw [hfresh x ((hnewsmem _).mpr ⟨List.mem_map.mpr ⟨t, ht, htn⟩, by simpa using hxold⟩)]

theorem register_c (f : FS) (c' : C) : (f.register c').c = c' := by
  unfold FS.register FS.ensureKey
  simp only []
  split
  · rfl
  · split <;> rfl

/-- **`register` preserves `FInv`** when the new complex is valid, keeps every old simplex, and every new
simplex has only visible (or new) faces -/
theorem register_FInv {f : FS} (hF : FInv f) {c' : C} (hI : Inv c')
    (hsub : ∀ s ∈ f.c.simps, s ∈ c'.simps)
    (hnew : ∀ s ∈ c'.simps, f.c.contains s.name = false → ∀ x ∈ s.faces, f.c.contains x = true →
      f.birthD x ≤ f.index) :
    FInv (f.register c') := by
  unfold FS.register
  simp only []
  split
  · rename_i hemp
    have hnil : c'.names.filter (fun n => !f.c.contains n) = [] := by simpa using hemp
    have := register_core hF hI hsub hnew f.keys (fun k h => h) hF.keysNodup (fun h => absurd hnil h)
    rw [hnil] at this
    simp only [List.map_nil, List.append_nil] at this
    exact this
  · unfold FS.ensureKey
    simp only []
    split
    · rename_i hc
      exact register_core hF hI hsub hnew f.keys (fun k h => h) hF.keysNodup (fun _ => by simpa using hc)
    · rename_i hc
      refine register_core hF hI hsub hnew (f.keys ++ [f.index]) (fun k h => List.mem_append_left _ h) ?_
        (fun _ => by simp)
      rw [List.nodup_append]
      refine ⟨hF.keysNodup, List.nodup_singleton _, ?_⟩
      intro a ha b hb
      rw [List.mem_singleton] at hb
      subst hb
      intro e; subst e
      exact hc (by simpa using ha)

/-! ### `addSimplex` on a filtration -/

theorem addSimplex_ok_shape {c c' : C} {fs : List Name} {id : Name} (h : c.addSimplex fs id = .ok c') :
    c.contains id = false ∧ (∀ x ∈ fs, c.contains x = true) ∧
    ∃ s : Simp Name, s.name = id ∧ (∀ x ∈ s.faces, x ∈ fs) ∧ c'.simps = insertSorted s c.simps := by
  unfold Cx.addSimplex at h
  simp only at h
  split at h; · cases h
  split at h; · cases h
  rename_i hcont
  split at h; · cases h
  split at h; · cases h
  split at h
  · rename_i hemp
    have hfs : fs = [] := by simpa using hemp
    injection h with h; subst h
    refine ⟨by simpa using hcont, by rw [hfs]; simp, ⟨id, 0, [], [id]⟩, rfl, by simp, rfl⟩
  · split at h; · cases h
    rename_i hknown
    split at h; · cases h
    split at h; · cases h
    injection h with h; subst h
    refine ⟨by simpa using hcont, ?_, ⟨id, _, canonFaces c (fs.length - 1) fs, canonBasis c fs⟩, rfl, ?_, rfl⟩
    · intro x hx
      by_contra hcon
      exact hknown (List.any_eq_true.mpr ⟨x, hx, by simpa using hcon⟩)
    · intro x hx
      rw [canonFaces, List.mem_filter] at hx
      simpa using hx.2

theorem addS_ok {c c' : C} {fs : List Name} {id : Option Name} {n : Name} (h : addS c fs id = (.ok n, c')) :
    ∃ c'', c.addSimplex fs n = .ok c'' ∧ c'.simps = c''.simps := by
  unfold addS at h
  cases id with
  | some m =>
    simp only at h
    cases hadd : c.addSimplex fs m with
    | error e => rw [hadd] at h; cases h
    | ok c'' =>
      rw [hadd] at h
      injection h with h1 h2
      injection h1 with h1
      subst h1; subst h2
      exact ⟨c'', hadd, rfl⟩
  | none =>
    simp only at h
    cases hadd : c.addSimplex fs (newSimplex c (fs.length - 1)).1 with
    | error e => rw [hadd] at h; cases h
    | ok c'' =>
      rw [hadd] at h
      injection h with h1 h2
      injection h1 with h1
      subst h1; subst h2
      exact ⟨c'', hadd, rfl⟩

theorem addByFaces_cases (f : FS) (fs : List Name) (id : Option Name) :
    (f.addByFaces fs id).2 = f ∨
    ∃ n c', addS f.c fs id = (.ok n, c') ∧ (∀ x ∈ fs, f.c.contains x = true → f.visible x = true) ∧
      f.addByFaces fs id = (.ok n, f.register c') := by
  unfold FS.addByFaces
  split
  · exact Or.inl rfl
  · rename_i hvis
    cases hadd : addS f.c fs id with
    | mk r c' =>
      cases r with
      | error e => exact Or.inl rfl
      | ok n =>
        refine Or.inr ⟨n, c', rfl, ?_, rfl⟩
        intro x hx hc
        by_contra hcon
        exact hvis (List.any_eq_true.mpr ⟨x, hx, by simp [hc, hcon]⟩)

/-- **`FInv` is preserved by `addSimplex` on a filtration** whenever the call leaves a valid complex: the new
simplex is born at the current index, and all its faces are visible, i.e. born at or before it -/
theorem addByFaces_FInv {f : FS} (hF : FInv f) (fs : List Name) (id : Option Name)
    (hI : Inv (f.addByFaces fs id).2.c) : FInv (f.addByFaces fs id).2 := by
  rcases addByFaces_cases f fs id with h | ⟨n, c', hadd, hvis, h⟩
  · rw [h]; exact hF
  · rw [h] at hI ⊢
    simp only [register_c] at hI
    obtain ⟨c'', hadd', hsimps⟩ := addS_ok hadd
    obtain ⟨hfr, hfs, s, hsn, hsf, hins⟩ := addSimplex_ok_shape hadd'
    have hmem : ∀ x, x ∈ c'.simps ↔ x = s ∨ x ∈ f.c.simps := by
      intro x; rw [hsimps, hins]; exact mem_insertSorted
    apply register_FInv hF hI (fun t ht => (hmem t).mpr (Or.inr ht))
    intro t ht htnew x hx hxold
    rcases (hmem t).mp ht with rfl | hold
    · exact hF.birthD_le_of_visible (hvis x (hsf x hx) hxold)
    · rw [contains_iff.mpr ⟨t, hold, rfl⟩] at htnew; cases htnew

/-- the same under the contract of `addSimplex` (the faces span exactly `fs.length` points) -/
theorem addByFaces_FInv_contract {f : FS} (hF : FInv f) (fs : List Name) (id : Option Name)
    (hc : InContract f.c fs) : FInv (f.addByFaces fs id).2 := by
  apply addByFaces_FInv hF
  rcases addByFaces_cases f fs id with h | ⟨n, c', hadd, -, h⟩
  · rw [h]; exact hF.inv
  · rw [h]
    simp only [register_c]
    obtain ⟨c'', hadd', hsimps⟩ := addS_ok hadd
    exact inv_of_simps_eq hsimps (addSimplex_ok_inv hF.inv hc hadd')

/-! ### `deleteSimplex` on a filtration -/

theorem afterDelete_FInv {f : FS} (hF : FInv f) {c' : C} (hI : Inv c')
    (hsub : ∀ s ∈ c'.simps, s ∈ f.c.simps) : FInv (f.afterDelete c') := by
  generalize hg : f.afterDelete c' = g
  have hgc : g.c = c' := by rw [← hg]; rfl
  have hgb : g.births = f.births.filter (fun p => c'.contains p.1) := by rw [← hg]; rfl
  have hgk : g.keys = f.keys.filter (fun k =>
      !((f.births.filter (fun p => !c'.contains p.1)).any (fun p => p.2 == k) &&
        !(f.births.filter (fun p => c'.contains p.1)).any (fun p => p.2 == k))) := by rw [← hg]; rfl
  have hnd : (g.births.map (·.1)).Nodup := by
    rw [hgb]; exact hF.nodup.sublist (List.Sublist.map _ List.filter_sublist)
  have hbd : ∀ n, c'.contains n = true → g.birthD n = f.birthD n := by
    intro n hn
    obtain ⟨u, hu, hun⟩ := contains_iff.mp hn
    have := (hF.birth_of_mem (hsub u hu)).1
    rw [hun] at this
    rw [birthD_of_mem hnd (by rw [hgb]; exact List.mem_filter.mpr ⟨this, by simpa using hn⟩)]
  refine ⟨hgc ▸ hI, ?_, hnd, ?_, by rw [hgk]; exact hF.keysNodup.filter _, ?_⟩
  · intro n
    rw [hgb, hgc]
    constructor
    · intro h
      obtain ⟨p, hp, rfl⟩ := List.mem_map.mp h
      have := (List.mem_filter.mp hp).2
      obtain ⟨u, hu, hun⟩ := contains_iff.mp this
      exact List.mem_map.mpr ⟨u, hu, hun⟩
    · intro h
      obtain ⟨u, hu, hun⟩ := List.mem_map.mp h
      have := (hF.birth_of_mem (hsub u hu)).1
      rw [hun] at this
      exact List.mem_map.mpr ⟨_, List.mem_filter.mpr ⟨this, contains_iff.mpr ⟨u, hu, hun⟩⟩, rfl⟩
  · intro p hp
    rw [hgb] at hp
    rw [hgk, List.mem_filter]
    refine ⟨hF.keys p (List.mem_filter.mp hp).1, ?_⟩
    have : (f.births.filter (fun p => c'.contains p.1)).any (fun q => q.2 == p.2) = true :=
      List.any_eq_true.mpr ⟨p, hp, by simp⟩
    simp [this]
  · rw [hgc]
    intro s hs x hx
    have hpos : 0 < s.order := by
      rcases Nat.eq_zero_or_pos s.order with h0 | h
      · rw [(hI.point s hs h0).1] at hx; simp at hx
      · exact h
    obtain ⟨-, -, hfex, -⟩ := hI.higher s hs hpos
    obtain ⟨t, ht, htn, -⟩ := hfex x hx
    rw [hbd _ (contains_iff.mpr ⟨s, hs, rfl⟩), hbd _ (contains_iff.mpr ⟨t, ht, htn⟩)]
    exact hF.mono s (hsub s hs) x hx

/-- **`FInv` is preserved by `deleteSimplex` on a filtration**: the survivors are the complement of a star,
which is closed under faces; the births of the deleted simplices are forgotten -/
theorem delete_FInv {f f' : FS} (hF : FInv f) {s : Name} (h : f.delete s = some f') : FInv f' := by
  unfold FS.delete at h
  cases hd : deleteSimplex f.c s with
  | none => rw [hd] at h; cases h
  | some c' =>
    rw [hd] at h
    injection h with h; subst h
    have hs : ∃ t ∈ f.c.simps, t.name = s := by
      unfold deleteSimplex at hd
      cases ho : f.c.orderOf? s with
      | none => rw [ho] at hd; cases hd
      | some k =>
        unfold Cx.orderOf? at ho
        obtain ⟨t, ht, -⟩ := Option.map_eq_some_iff.mp ho
        exact ⟨t, (lookup_some ht).1, (lookup_some ht).2⟩
    obtain ⟨t, ht, rfl⟩ := hs
    obtain ⟨c'', hd', hI', hc'⟩ := deleteSimplex_spec hF.inv ht
    rw [hd] at hd'
    injection hd' with hd'; subst hd'
    apply afterDelete_FInv hF hI'
    intro u hu
    rw [hc'] at hu
    exact (List.mem_filter.mp hu).1

/-! ### `addSimplexWithBasis` on a filtration

The existing effect theorem `addSimplexWithBasis_spec` is about a repeat-free basis. A basis with a repeated
point is outside the documented use of the library; we show that such a call always raises (so the filtration
is unchanged), which makes the preservation theorem unconditional in the basis. -/

theorem nodup_of_card_eq {p : List Name} (h : p.toFinset.card = p.length) : p.Nodup := by
  rw [List.card_toFinset] at h
  have := (List.dedup_sublist p).eq_of_length h
  rw [← this]; exact List.nodup_dedup p

/-- a basis with a repeated point never defines an existing simplex -/
theorem simplexWithBasis_dup {c : C} (hI : Inv c) {p : List Name} (hd : ¬ p.Nodup) :
    simplexWithBasis c p = none := by
  unfold simplexWithBasis
  split
  · rfl
  · split
    · rfl
    · exact absurd (List.nodup_singleton _) hd
    · rw [Option.map_eq_none_iff, List.find?_eq_none]
      intro s hs hse
      unfold Cx.ofOrder at hs
      obtain ⟨hs1, hs2⟩ := List.mem_filter.mp hs
      simp only [beq_iff_eq] at hs2
      have hse' := setEqB_iff.mp (by simpa using hse)
      have hc := hI.pts_card hs1
      rw [Simp.pts, hse'] at hc
      apply hd
      apply nodup_of_card_eq
      have := List.toFinset_card_le p
      have hne : p ≠ [] := fun e => hd (e ▸ List.nodup_nil)
      have : 0 < p.length := List.length_pos_iff.mpr hne
      omega

theorem dropOne_dup {p : List Name} (hd : ¬ p.Nodup) (h3 : 3 ≤ p.length) :
    ∃ q ∈ dropOne p, ¬ q.Nodup := by
  match p, hd, h3 with
  | x :: xs, hd, h3 =>
    by_cases hxs : xs.Nodup
    · have hx : x ∈ xs := by
        by_contra hcon
        exact hd (List.nodup_cons.mpr ⟨hcon, hxs⟩)
      obtain ⟨q, hq, hxq⟩ := facets_cover hxs (by simp at h3; omega) hx
      refine ⟨x :: q, ?_, ?_⟩
      · simp only [dropOne, List.mem_append, List.mem_map]
        exact Or.inl ⟨q, hq, rfl⟩
      · intro h; exact (List.nodup_cons.mp h).1 hxq
    · refine ⟨xs, ?_, hxs⟩
      simp [dropOne]

/-- the facet loop over a list of facets one of which has a repeated point raises -/
theorem facetLoop_dup (id : Name) (k fuel : Nat) (p : List Name)
    (ih : ∀ (c : C) (q : List Name), Inv c → ¬ q.Nodup → q.length ≤ fuel → PtsIn c q →
      c.contains id = false → q.length - 1 ≤ k → ∃ e c', addWB id k fuel c q = (.error e, c'))
    (hp2 : 2 ≤ p.length) (hpf : p.length ≤ fuel + 1) (hk : p.length - 1 ≤ k) :
    ∀ (qs : List (List Name)) (c : C) (acc : List Name),
      (∀ q ∈ qs, q.Sublist p ∧ q.length + 1 = p.length) → Inv c → PtsIn c p → c.contains id = false →
      (∃ q ∈ qs, ¬ q.Nodup) → ∃ e c', facetLoop (addWB id k fuel) c acc qs = (.error e, c') := by
  intro qs
  induction qs with
  | nil => intro c acc _ _ _ _ ⟨q, hq, _⟩; simp at hq
  | cons q qs ihq =>
    intro c acc hqs hI hpts hfr hex
    obtain ⟨hsub, hql⟩ := hqs q List.mem_cons_self
    unfold facetLoop
    by_cases hq : q.Nodup
    · have hqne : q ≠ [] := by intro e; rw [e] at hql; simp at hql; omega
      obtain ⟨n, c', hr, hext, -, hfr', -⟩ := addWB_spec id k fuel c q hI hq hqne (by omega)
        (hpts.sublist hsub) hfr (by omega) (fun e => by omega)
      rw [hr]
      simp only []
      apply ihq c' _ (fun q' hq' => hqs q' (List.mem_cons_of_mem _ hq')) hext.inv (hpts.mono hext.sub)
        (hfr' (by omega))
      obtain ⟨q', hq', hnd'⟩ := hex
      rcases List.mem_cons.mp hq' with rfl | hq'
      · exact absurd hq hnd'
      · exact ⟨q', hq', hnd'⟩
    · obtain ⟨e, c', hr⟩ := ih c q hI hq (by omega) (hpts.sublist hsub) hfr (by omega)
      rw [hr]
      exact ⟨e, c', rfl⟩

/-- `_addSimplexWithBasis` on a basis with a repeated point raises -/
theorem addWB_dup (id : Name) (k : Nat) :
    ∀ (fuel : Nat) (c : C) (p : List Name), Inv c → ¬ p.Nodup → p.length ≤ fuel → PtsIn c p →
      c.contains id = false → p.length - 1 ≤ k → ∃ e c', addWB id k fuel c p = (.error e, c') := by
  intro fuel
  induction fuel with
  | zero => intro c p _ _ _ _ _ _; exact ⟨_, _, rfl⟩
  | succ fuel ih =>
    intro c p hI hd hlen hpts hfr hk
    have h2 : 2 ≤ p.length := by
      match p, hd with
      | [], hd => simp at hd
      | [_], hd => simp at hd
      | _ :: _ :: _, _ => simp
    unfold addWB
    rw [simplexWithBasis_dup hI hd]
    simp only []
    by_cases h3 : p.length = 2
    · match p, h3, hd, hpts, hlen with
      | [a, b], _, hd, hpts, hlen =>
        have hab : a = b := by
          by_contra hne; apply hd; simp [hne]
        subst hab
        obtain ⟨fuel', rfl⟩ : ∃ m, fuel = m + 1 := ⟨fuel - 1, by simp at hlen; omega⟩
        have hsw : simplexWithBasis c [a] = some a := by
          obtain ⟨t, ht, hn, h0⟩ := hpts a (by simp)
          have : c.orderOf? a = some 0 := by rw [← hn, orderOf_of_mem hI ht, h0]
          unfold simplexWithBasis
          simp [this]
        have hrec : addWB id k (fuel' + 1) c [a] = (.ok a, c) := by
          unfold addWB; rw [hsw]
        have hloop : facetLoop (addWB id k (fuel' + 1)) c [] (dropOne [a, a]) = (.ok [a], c) := by
          simp [dropOne, facetLoop, hrec]
        rw [hloop]
        simp only []
        split
        · refine ⟨.value, c, ?_⟩
          simp [addS, Cx.addSimplex]
        · refine ⟨.value, c, ?_⟩
          simp [addFace, Cx.addSimplex]
    · obtain ⟨e, c', hl⟩ := facetLoop_dup id k fuel p ih h2 hlen hk (dropOne p) c []
        (fun q hq => dropOne_mem hq) hI hpts hfr (dropOne_dup hd (by omega))
      rw [hl]
      exact ⟨e, c', rfl⟩

/-- **a basis with a repeated point is always rejected** by `addSimplexWithBasis` (|bs| ≥ 2) on a valid complex -/
theorem addSimplexWithBasis'_dup {c : C} (hI : Inv c) {bs : List Name} (hd : ¬ bs.Nodup) (id : Option Name) :
    ∃ e, (addSimplexWithBasis' c bs id).1 = .error e := by
  unfold addSimplexWithBasis'
  split_ifs with g1 g1b g2 g3
  · exact ⟨_, rfl⟩
  · exact ⟨_, rfl⟩
  · exact ⟨_, rfl⟩
  · exact ⟨_, rfl⟩
  have hpt : ∀ b ∈ bs, c.contains b = true → ∃ t ∈ c.simps, t.name = b ∧ t.order = 0 := by
    intro b hb hcb
    have : ¬ (c.contains b && c.orderOf? b != some 0) = true := by
      intro hx; exact g2 (List.any_eq_true.mpr ⟨b, hb, hx⟩)
    simp only [hcb, Bool.true_and, bne_iff_ne, ne_eq, Decidable.not_not] at this
    obtain ⟨t, ht, hn⟩ := (contains_iff).mp hcb
    refine ⟨t, ht, hn, ?_⟩
    have ho := orderOf_of_mem hI ht
    rw [hn, this] at ho
    exact (Option.some.inj ho).symm
  obtain ⟨c1, he, hI1, hsub1, hpts1, hnew1⟩ := ensurePoints_spec bs c hI hpt
  rw [he]
  simp only
  have hname : ∃ nm c2, topName c1 (bs.length - 1) id = (nm, c2) ∧
      c2.simps = c1.simps ∧ c2.contains nm = false := by
    cases hidc : id with
    | some n =>
      refine ⟨n, c1, rfl, rfl, ?_⟩
      rw [contains_false_iff]
      intro t ht htn
      rcases hnew1 t ht with h | ⟨-, hb⟩
      · apply g1; rw [hidc]; exact contains_iff.mpr ⟨t, h, htn⟩
      · apply g1b; rw [hidc]; simpa [idInBasis] using (htn ▸ hb)
    | none =>
      obtain ⟨f1, f2, -⟩ := newSimplex_fresh hI1.nodup (bs.length - 1)
      refine ⟨(newSimplex c1 (bs.length - 1)).1, (newSimplex c1 (bs.length - 1)).2, rfl, f2, ?_⟩
      rw [contains_of_simps_eq f2]; exact f1
  obtain ⟨nm, c2, hr, hs2, hfr2⟩ := hname
  rw [hr]
  simp only
  obtain ⟨e, c', hrun⟩ := addWB_dup nm (bs.length - 1) bs.length c2 bs (inv_of_simps_eq hs2 hI1) hd
    (Nat.le_refl _) (by intro p hp; obtain ⟨t, ht, h1, h0⟩ := hpts1 p hp; exact ⟨t, hs2 ▸ ht, h1, h0⟩)
    hfr2 (Nat.le_refl _)
  rw [hrun]
  exact ⟨e, rfl⟩

/-- a successful `addSimplexWithBasis` (|bs| ≥ 2) on a valid complex: the result is valid, keeps every old
simplex, and every new simplex lies inside the basis — for *every* argument list, repeat-free or not -/
theorem addSimplexWithBasis'_ok {c c' : C} (hI : Inv c) {bs : List Name} (h2 : 2 ≤ bs.length)
    {id : Option Name} {n : Name} (h : addSimplexWithBasis' c bs id = (.ok n, c')) :
    Inv c' ∧ c.simps.Sublist c'.simps ∧ ∀ t ∈ c'.simps, t ∈ c.simps ∨ t.pts ⊆ bs.toFinset := by
  classical
  by_cases hnd : bs.Nodup
  · by_cases g1 : idUsed c id = true
    · unfold addSimplexWithBasis' at h; rw [if_pos g1] at h; cases h
    by_cases g1b : idInBasis bs id = true
    · unfold addSimplexWithBasis' at h; rw [if_neg g1, if_pos g1b] at h; cases h
    by_cases g2 : bs.any (fun b => c.contains b && c.orderOf? b != some 0) = true
    · unfold addSimplexWithBasis' at h; rw [if_neg g1, if_neg g1b, if_pos g2] at h; cases h
    by_cases g3 : (simplexWithBasis c bs).isSome = true
    · unfold addSimplexWithBasis' at h; rw [if_neg g1, if_neg g1b, if_neg g2, if_pos g3] at h; cases h
    have hpt : ∀ b ∈ bs, c.contains b = true → ∃ t ∈ c.simps, t.name = b ∧ t.order = 0 := by
      intro b hb hcb
      have : ¬ (c.contains b && c.orderOf? b != some 0) = true := by
        intro hx; exact g2 (List.any_eq_true.mpr ⟨b, hb, hx⟩)
      simp only [hcb, Bool.true_and, bne_iff_ne, ne_eq, Decidable.not_not] at this
      obtain ⟨t, ht, hn⟩ := (contains_iff).mp hcb
      refine ⟨t, ht, hn, ?_⟩
      have ho := orderOf_of_mem hI ht
      rw [hn, this] at ho
      exact (Option.some.inj ho).symm
    have hnone : ¬ ∃ t ∈ c.simps, t.pts = bs.toFinset := by
      rintro ⟨t, ht, hp⟩
      have hall : PtsIn c bs := by
        intro b hb
        have hbp : b ∈ t.pts := by rw [hp]; exact List.mem_toFinset.mpr hb
        obtain ⟨u, hu, hn, h0, -⟩ := hI.basis_point t.order ht rfl b (by simpa [Simp.pts] using hbp)
        exact ⟨u, hu, hn, h0⟩
      have hne : bs ≠ [] := by intro e; rw [e] at h2; simp at h2
      have hsp := simplexWithBasis_spec hI hnd hne hall
      cases hsw : simplexWithBasis c bs with
      | none => exact hsp.2 hsw ⟨t, ht, hp⟩
      | some n => rw [hsw] at g3; exact g3 rfl
    have hid : ∀ m, id = some m → c.contains m = false ∧ m ∉ bs := by
      intro m hm
      subst hm
      refine ⟨by simpa [idUsed] using g1, ?_⟩
      simpa [idInBasis] using g1b
    obtain ⟨n', c'', hok, hI', hsub, -, -, hnew⟩ := addSimplexWithBasis_spec hI hnd h2 hpt hnone id hid
    rw [hok] at h
    injection h with h1 h3
    subst h3
    exact ⟨hI', hsub, hnew⟩
  · obtain ⟨e, he⟩ := addSimplexWithBasis'_dup hI hnd id
    rw [h] at he; cases he

/-- the public `addSimplexWithBasis` for every length of the basis -/
theorem addSimplexWithBasisQ_ok {c c' : C} (hI : Inv c) {bs : List Name} {id : Option Name} {n : Name}
    (h : addSimplexWithBasisQ c bs id = (.ok n, c')) :
    Inv c' ∧ (∀ t ∈ c.simps, t ∈ c'.simps) ∧
    ∀ t ∈ c'.simps, t ∈ c.simps ∨ t.faces = [] ∨ t.pts ⊆ bs.toFinset := by
  unfold addSimplexWithBasisQ at h
  split at h; · cases h
  split at h; · cases h
  split at h
  · cases h
  · split at h; · cases h
    obtain ⟨c'', hadd, hsimps⟩ := addS_ok h
    have hI' : Inv c' := inv_of_simps_eq hsimps (addSimplex_ok_inv hI (Or.inl rfl) hadd)
    obtain ⟨-, -, s, -, hsf, hins⟩ := addSimplex_ok_shape hadd
    have hmem : ∀ x, x ∈ c'.simps ↔ x = s ∨ x ∈ c.simps := by
      intro x; rw [hsimps, hins]; exact mem_insertSorted
    refine ⟨hI', fun t ht => (hmem t).mpr (Or.inr ht), ?_⟩
    intro t ht
    rcases (hmem t).mp ht with rfl | hold
    · right; left
      exact List.eq_nil_iff_forall_not_mem.mpr (fun x hx => by simpa using hsf x hx)
    · exact Or.inl hold
  · rename_i hn0 hn1
    have h2 : 2 ≤ bs.length := by
      match bs, hn0, hn1 with
      | [], hn0, _ => exact absurd rfl hn0
      | [b], _, hn1 => exact absurd rfl (hn1 b)
      | _ :: _ :: _, _, _ => simp
    obtain ⟨hI', hsub, hnew⟩ := addSimplexWithBasis'_ok hI h2 h
    exact ⟨hI', fun t ht => hsub.subset ht, fun t ht => (hnew t ht).imp (fun x => x) Or.inr⟩

/-- **`FInv` is preserved by `addSimplexWithBasis` on a filtration** for every call the driver models
(`basisCallModelled`): every existing simplex inside the basis is visible, so every old face of a new simplex
is born at or before the current index. The validity of the resulting complex is a consequence, not a
hypothesis. -/
theorem addByBasis_FInv {f : FS} (hF : FInv f) (bs : List Name) (id : Option Name)
    (hm : f.basisCallModelled bs id = true) : FInv (f.addByBasis bs id).2 := by
  unfold FS.addByBasis
  cases hadd : addSimplexWithBasisQ f.c bs id with
  | mk r c' =>
    cases r with
    | error e => exact hF
    | ok n =>
      simp only []
      obtain ⟨hI', hsub, hnew⟩ := addSimplexWithBasisQ_ok hF.inv hadd
      apply register_FInv hF hI' hsub
      intro t ht htnew x hx hxold
      rcases hnew t ht with h | h | h
      · rw [contains_iff.mpr ⟨t, h, rfl⟩] at htnew; cases htnew
      · rw [h] at hx; simp at hx
      · obtain ⟨u, hu, hun⟩ := contains_iff.mp hxold
        have hu' := hsub u hu
        have hpos : 0 < t.order := by
          rcases Nat.eq_zero_or_pos t.order with h0 | h'
          · rw [(hI'.point t ht h0).1] at hx; simp at hx
          · exact h'
        have hfac := (hI'.faces_are_facets ht hu' hpos).mp (hun ▸ hx)
        have hsb : subsetB u.basis bs = true := by
          unfold subsetB
          rw [List.all_eq_true]
          intro p hp
          have : p ∈ bs.toFinset := h (hfac.2 (List.mem_toFinset.mpr hp))
          simpa using this
        unfold FS.basisCallModelled at hm
        rw [Bool.and_eq_true] at hm
        have hv := List.all_eq_true.mp hm.2 u hu
        rw [hsb] at hv
        simp only [Bool.not_true, Bool.false_or] at hv
        rw [← hun]
        exact hF.birthD_le_of_visible hv

/-- in particular a modelled `addSimplexWithBasis` call leaves a valid complex -/
theorem addByBasis_inv {f : FS} (hF : FInv f) (bs : List Name) (id : Option Name)
    (hm : f.basisCallModelled bs id = true) : Inv (f.addByBasis bs id).2.c :=
  (addByBasis_FInv hF bs id hm).inv

/-! ### the decidable form of the invariant

The driver's `finv` query evaluates `checkInv o.c && f.checkFInv` on observed states; `checkFInv` is `FInv`
minus the validity of the complex and minus "the existing indices have no repeats" (they are dict keys). -/

theorem nodupB_iff (l : List Name) : nodupB l = true ↔ l.Nodup := by
  induction l with
  | nil => simp [nodupB]
  | cons x xs ih => simp [nodupB, ih, List.nodup_cons]

theorem FInv_iff_check (f : FS) : FInv f ↔ Inv f.c ∧ f.keys.Nodup ∧ f.checkFInv = true := by
  have hcn : ∀ n, f.c.contains n = true ↔ n ∈ f.c.names := by
    intro n; rw [contains_iff]; unfold Cx.names; rw [List.mem_map]
  constructor
  · intro hF
    refine ⟨hF.inv, hF.keysNodup, ?_⟩
    unfold FS.checkFInv
    rw [Bool.and_eq_true, Bool.and_eq_true, Bool.and_eq_true]
    refine ⟨⟨⟨?_, ?_⟩, ?_⟩, ?_⟩
    · rw [List.all_eq_true]
      intro n hn; exact birth?_isSome_iff.mpr ((hF.names n).mpr hn)
    · rw [List.all_eq_true]
      intro p hp
      rw [Bool.and_eq_true]
      exact ⟨(hcn _).mpr ((hF.names _).mp (List.mem_map.mpr ⟨p, hp, rfl⟩)), by simpa using hF.keys p hp⟩
    · exact (nodupB_iff _).mpr hF.nodup
    · rw [List.all_eq_true]
      intro s hs
      rw [List.all_eq_true]
      intro x hx
      have hpos : 0 < s.order := by
        rcases Nat.eq_zero_or_pos s.order with h0 | h
        · rw [(hF.inv.point s hs h0).1] at hx; simp at hx
        · exact h
      obtain ⟨-, -, hfex, -⟩ := hF.inv.higher s hs hpos
      obtain ⟨t, ht, htn, -⟩ := hfex x hx
      have h1 := (hF.birth_of_mem ht).2
      rw [htn] at h1
      rw [h1, (hF.birth_of_mem hs).2]
      simpa using hF.mono s hs x hx
  · rintro ⟨hI, hk, hc⟩
    unfold FS.checkFInv at hc
    rw [Bool.and_eq_true, Bool.and_eq_true, Bool.and_eq_true] at hc
    obtain ⟨⟨⟨hA, hB⟩, hD⟩, hE⟩ := hc
    rw [List.all_eq_true] at hA hB hE
    have hnd := (nodupB_iff _).mp hD
    refine ⟨hI, ?_, hnd, ?_, hk, ?_⟩
    · intro n
      constructor
      · intro h
        obtain ⟨p, hp, rfl⟩ := List.mem_map.mp h
        have := hB p hp
        rw [Bool.and_eq_true] at this
        exact (hcn _).mp this.1
      · intro h; exact birth?_isSome_iff.mp (hA n h)
    · intro p hp
      have := hB p hp
      rw [Bool.and_eq_true] at this
      simpa using this.2
    · intro s hs x hx
      have := List.all_eq_true.mp (hE s hs) x hx
      unfold FS.birthD
      cases h1 : f.birth? x with
      | none => rw [h1] at this; simp at this
      | some a =>
        cases h2 : f.birth? s.name with
        | none => rw [h1, h2] at this; simp at this
        | some b => rw [h1, h2] at this; simpa using this

/-! ## a concrete filtration for the non-vacuity examples -/

/-- two points born at index 0, the edge between them born at index 1; the current index is 0 -/
def exF : FS :=
  ((((((newFS 0).addByFaces [] (some (.u 1))).2.addByFaces [] (some (.u 2))).2.setIndex 1).addByFaces
    [.u 1, .u 2] (some (.u 12))).2.setIndex 0)

example : exF.c.names = [.u 1, .u 2, .u 12] ∧ exF.births = [(.u 1, 0), (.u 2, 0), (.u 12, 1)] ∧
    exF.keys = [0, 1] ∧ exF.index = 0 := by decide

/-- the invariant holds on the example (by the preservation theorems, not by evaluation) -/
theorem exF_FInv : FInv exF := by
  unfold exF
  exact setIndex_FInv (addByFaces_FInv_contract (setIndex_FInv (addByFaces_FInv_contract
    (addByFaces_FInv_contract (newFS_FInv 0) [] _ (Or.inl rfl)) [] _ (Or.inl rfl)) 1) [.u 1, .u 2] _
    (Or.inr (by decide))) 0

example : checkInv exF.c = true ∧ exF.checkFInv = true := by decide
-- `addSimplex` on a filtration: in contract, accepted, and a hidden face is rejected
example : InContract ((exF.setIndex 1).c) [.u 1, .u 2] := Or.inr (by decide)
example : (exF.addByFaces [] (some (.u 3))).1 = .ok (.u 3) ∧
    (exF.addByFaces [] (some (.u 3))).2.births = [(.u 1, 0), (.u 2, 0), (.u 12, 1), (.u 3, 0)] := by
  constructor <;> rfl
example : (exF.addByFaces [.u 12, .u 12] none).1 = .error .key := rfl
-- `addSimplexWithBasis` on a filtration: a modelled call that creates a point and an edge at index 1
example : (exF.setIndex 1).basisCallModelled [.u 1, .u 3] none = true := by decide
example : ((exF.setIndex 1).addByBasis [.u 1, .u 3] none).1 = .ok (.auto 1 0) ∧
    ((exF.setIndex 1).addByBasis [.u 1, .u 3] none).2.births =
      [(.u 1, 0), (.u 2, 0), (.u 12, 1), (.u 3, 1), (.auto 1 0, 1)] := by
  constructor <;> rfl
-- a repeated basis point is rejected
example : ((exF.setIndex 1).addByBasis [.u 1, .u 1] none).1 = .error .value := rfl
-- `deleteSimplex` on a filtration: the star of `u1` goes, and with it the emptied index 1
example : (exF.delete (.u 1)).map (fun g => (g.c.names, g.births, g.keys)) =
    some ([.u 2], [(.u 2, 0)], [0]) := by decide

/-! ## sorting the indices -/

theorem insertInt_perm (x : Int) (l : List Int) : (insertInt x l).Perm (x :: l) := by
  induction l with
  | nil => exact List.Perm.refl _
  | cons y ys ih =>
    unfold insertInt
    split
    · exact List.Perm.refl _
    · exact (List.Perm.cons y ih).trans (List.Perm.swap x y ys)

theorem insertInt_sorted (x : Int) {l : List Int} (h : l.Pairwise (· ≤ ·)) :
    (insertInt x l).Pairwise (· ≤ ·) := by
  induction l with
  | nil => simp [insertInt]
  | cons y ys ih =>
    have h' := List.pairwise_cons.mp h
    unfold insertInt
    split
    · rename_i hxy
      rw [List.pairwise_cons]
      refine ⟨?_, h⟩
      intro z hz
      rcases List.mem_cons.mp hz with rfl | hz
      · exact hxy
      · exact Int.le_trans hxy (h'.1 z hz)
    · rename_i hxy
      rw [List.pairwise_cons]
      refine ⟨?_, ih h'.2⟩
      intro z hz
      rcases List.mem_cons.mp ((insertInt_perm x ys).subset hz) with rfl | hz
      · omega
      · exact h'.1 z hz

theorem sortInts_perm (l : List Int) : (sortInts l).Perm l := by
  induction l with
  | nil => exact List.Perm.refl _
  | cons x xs ih =>
    show (insertInt x (sortInts xs)).Perm (x :: xs)
    exact (insertInt_perm x _).trans (List.Perm.cons x ih)

theorem sortInts_sorted (l : List Int) : (sortInts l).Pairwise (· ≤ ·) := by
  induction l with
  | nil => exact List.Pairwise.nil
  | cons x xs ih => exact insertInt_sorted x ih

theorem sortInts_strict {l : List Int} (h : l.Nodup) : (sortInts l).Pairwise (· < ·) := by
  have hnd : (sortInts l).Nodup := (sortInts_perm l).nodup_iff.mpr h
  exact ((sortInts_sorted l).and hnd).imp (fun ⟨a, b⟩ => by omega)

/-- **`indices()`** is sorted ascending and lists exactly the existing indices (each once when the keys
have no repeats, as under `FInv`) -/
theorem indices_sorted (f : FS) :
    f.indices.Pairwise (· ≤ ·) ∧ f.indices.Perm f.keys ∧ (∀ k, k ∈ f.indices ↔ k ∈ f.keys) ∧
    (f.keys.Nodup → f.indices.Pairwise (· < ·)) :=
  ⟨sortInts_sorted _, sortInts_perm _, fun _ => (sortInts_perm _).mem_iff, sortInts_strict⟩

example : (FS.mk emptyC 0 [] [3, -1, 2]).indices = [-1, 2, 3] := by decide
example : exF.keys.Nodup ∧ exF.indices = [0, 1] := by decide

/-! ## C13: the complex seen at the current index -/

/-- the abstract core applies: births are monotone along faces -/
theorem FInv.monotoneBirth {f : FS} (hF : FInv f) : MonotoneBirth f.c f.birthD := hF.mono

/-- bridge to the abstract core `visibleAt` -/
theorem visibleC_eq {f : FS} (hF : FInv f) : f.visibleC = visibleAt f.c f.birthD f.index := by
  unfold FS.visibleC visibleAt
  show Cx.mk _ _ = Cx.mk _ _
  congr 1
  apply List.filter_congr
  intro s hs
  exact hF.visible_of_mem hs

/-- **C13** — under the invariant the complex seen at the current index
(1) consists of exactly the simplices of the complex born at or before the index,
(2) is the abstract `visibleAt` for the birth function `birthD`,
(3) is a valid complex,
(4) is a sub-complex of the whole complex,
(5) grows with the index: for `i ≤ j` the complex seen at `i` is a sub-complex of the one seen at `j`. -/
theorem visibleC_spec {f : FS} (hF : FInv f) :
    (∀ s, s ∈ f.visibleC.simps ↔ s ∈ f.c.simps ∧ ∃ b, f.birth? s.name = some b ∧ b ≤ f.index) ∧
    f.visibleC = visibleAt f.c f.birthD f.index ∧
    Inv f.visibleC ∧
    Flat.le f.visibleC f.c = true ∧
    (∀ i j : Int, i ≤ j → Flat.le (f.setIndex i).visibleC (f.setIndex j).visibleC = true) := by
  have hI : Inv f.visibleC := by rw [visibleC_eq hF]; exact visible_inv hF.inv hF.monotoneBirth _
  refine ⟨?_, visibleC_eq hF, hI, ?_, ?_⟩
  · intro s
    show s ∈ f.c.simps.filter (fun s => f.visible s.name) ↔ _
    rw [List.mem_filter]
    constructor
    · rintro ⟨hs, hv⟩
      rw [hF.visible_of_mem hs, decide_eq_true_eq] at hv
      exact ⟨hs, _, (hF.birth_of_mem hs).2, hv⟩
    · rintro ⟨hs, b, hb, hle⟩
      refine ⟨hs, ?_⟩
      rw [hF.visible_of_mem hs, decide_eq_true_eq]
      have := (hF.birth_of_mem hs).2
      rw [hb] at this
      rw [← Option.some.inj this]; exact hle
  · rw [le, isSub_iff hI hF.inv]
    intro s hs
    exact ⟨s, (List.mem_filter.mp hs).1, rfl, rfl, fun _ => Iff.rfl⟩
  · intro i j hij
    have hi := visibleC_eq (setIndex_FInv hF i)
    have hj := visibleC_eq (setIndex_FInv hF j)
    rw [setIndex_birthD, (setIndex_fields f i).1, (setIndex_fields f i).2.2.1] at hi
    rw [setIndex_birthD, (setIndex_fields f j).1, (setIndex_fields f j).2.2.1] at hj
    rw [hi, hj]
    exact visible_mono hF.inv hF.monotoneBirth hij

-- non-vacuity: the example satisfies the invariant; at index 0 it shows the two points, at index 1 everything
example : FInv exF ∧ exF.visibleC.names = [.u 1, .u 2] ∧ (exF.setIndex 1).visibleC.names = [.u 1, .u 2, .u 12] :=
  ⟨exF_FInv, by decide, by decide⟩
example : Flat.le (exF.setIndex 0).visibleC (exF.setIndex 1).visibleC = true ∧
    Flat.le (exF.setIndex 1).visibleC (exF.setIndex 0).visibleC = false := by decide

/-! ## C13: `complexes()` restores the index -/

theorem iterate_restores (f : FS) :
    (f.iterate).2.index = f.index ∧ (f.iterate).1.length = f.indices.length := by
  unfold FS.iterate
  have key : ∀ (l : List Int) (acc : List C × FS),
      (l.foldl (fun (acc : List C × FS) ind =>
        let old := acc.2.index
        let g := acc.2.setIndex ind
        let snap := g.snap.2
        (acc.1 ++ [snap], g.setIndex old)) acc).2.index = acc.2.index ∧
      (l.foldl (fun (acc : List C × FS) ind =>
        let old := acc.2.index
        let g := acc.2.setIndex ind
        let snap := g.snap.2
        (acc.1 ++ [snap], g.setIndex old)) acc).1.length = acc.1.length + l.length := by
    intro l
    induction l with
    | nil => intro acc; exact ⟨rfl, rfl⟩
    | cons x xs ih =>
      intro acc
      rw [List.foldl_cons]
      obtain ⟨h1, h2⟩ := ih ((fun (acc : List C × FS) ind =>
        let old := acc.2.index
        let g := acc.2.setIndex ind
        let snap := g.snap.2
        (acc.1 ++ [snap], g.setIndex old)) acc x)
      rw [h1, h2]
      refine ⟨(setIndex_fields _ _).2.2.1, ?_⟩
      simp only [List.length_append, List.length_cons, List.length_nil]
      omega
  obtain ⟨h1, h2⟩ := key f.indices ([], f)
  exact ⟨h1, by rw [h2]; simp⟩

/-- when the current index is an existing index, `complexes()` leaves the whole state as it was and yields,
for every existing index in ascending order, the snapshot taken at that index -/
theorem iterate_eq (f : FS) (hk : f.index ∈ f.keys) :
    f.iterate = (f.indices.map (fun i => ({ f with index := i } : FS).snap.2), f) := by
  unfold FS.iterate
  have key : ∀ (l : List Int), (∀ i ∈ l, i ∈ f.keys) → ∀ (acc1 : List C),
      l.foldl (fun (acc : List C × FS) ind =>
        let old := acc.2.index
        let g := acc.2.setIndex ind
        let snap := g.snap.2
        (acc.1 ++ [snap], g.setIndex old)) (acc1, f)
      = (acc1 ++ l.map (fun i => ({ f with index := i } : FS).snap.2), f) := by
    intro l
    induction l with
    | nil => intro _ acc1; simp
    | cons x xs ih =>
      intro hl acc1
      rw [List.foldl_cons]
      have hx : x ∈ f.keys := hl x List.mem_cons_self
      have h1 : f.setIndex x = { f with index := x } := setIndex_of_mem hx
      have h2 : ({ f with index := x } : FS).setIndex f.index = f := by
        rw [setIndex_of_mem (f := { f with index := x }) hk]
      simp only [h1, h2]
      rw [ih (fun i hi => hl i (List.mem_cons_of_mem _ hi))]
      simp
  have := key f.indices (fun i hi => ((indices_sorted f).2.2.1 i).mp hi) []
  simpa using this

example : (exF.iterate).2.index = exF.index ∧ (exF.iterate).1.map (·.names) = [[.u 1, .u 2], [.u 1, .u 2, .u 12]] := by
  decide

/-! ## C14: the queries answer as the visible complex -/

/-- `simplices()` lists the names of the visible complex, in the same order -/
theorem simplices_eq (f : FS) : f.simplices = f.visibleC.names := by
  unfold FS.simplices FS.visibleC Cx.names
  rw [List.filter_map]
  rfl

/-- `containsSimplex` is membership in the visible complex -/
theorem visible_eq_contains (f : FS) (n : Name) : f.visible n = f.visibleC.contains n := by
  rw [Bool.eq_iff_iff, contains_iff]
  constructor
  · intro h
    obtain ⟨s, hs, hn⟩ := contains_iff.mp (visible_contains h)
    exact ⟨s, List.mem_filter.mpr ⟨hs, by rw [hn]; exact h⟩, hn⟩
  · rintro ⟨s, hs, hn⟩
    rw [← hn]; exact (List.mem_filter.mp hs).2

/-- a visible simplex is the same record (order, faces, basis) in the whole and in the visible complex -/
theorem lookup_visible (f : FS) {n : Name} (h : f.visible n = true) : f.visibleC.lookup n = f.c.lookup n := by
  unfold Cx.lookup FS.visibleC
  simp only [List.find?_filter]
  congr 1; funext a
  by_cases ha : a.name = n
  · simp [ha, h]
  · simp [ha]

theorem visible_same (f : FS) {n : Name} (h : f.visible n = true) :
    f.visibleC.orderOf? n = f.c.orderOf? n ∧ f.visibleC.facesOf n = f.c.facesOf n ∧
    f.visibleC.basisOf n = f.c.basisOf n := by
  unfold Cx.orderOf? Cx.facesOf Cx.basisOf
  rw [lookup_visible f h]
  exact ⟨rfl, rfl, rfl⟩

/-- `numberOfSimplices()` counts the visible complex -/
theorem count_eq {f : FS} (hF : FInv f) : f.count = f.visibleC.simps.length := by
  unfold FS.count
  have h1 : f.births.filter (fun p => decide (p.2 ≤ f.index))
      = f.births.filter ((fun n => decide (f.birthD n ≤ f.index)) ∘ (·.1)) := by
    apply List.filter_congr
    intro p hp
    simp only [Function.comp]
    rw [birthD_of_mem hF.nodup (show (p.1, p.2) ∈ f.births from hp)]
  have h3 : (f.births.map (·.1)).Perm f.c.names :=
    (List.perm_ext_iff_of_nodup hF.nodup hF.inv.nodup).mpr hF.names
  have h4 := (h3.filter (fun n => decide (f.birthD n ≤ f.index))).length_eq
  rw [h1, ← List.length_map (f := (·.1)), ← List.filter_map, h4]
  unfold Cx.names
  rw [List.filter_map, List.length_map]
  congr 1
  apply List.filter_congr
  intro s hs
  simp only [Function.comp]
  exact (hF.visible_of_mem hs).symm

/-! ### per-order counts and the Euler characteristic -/

theorem dropZeros_append_of_nil {zs : List Nat} (hz : dropZeros zs = []) (xs : List Nat) :
    dropZeros (xs ++ zs) = dropZeros xs := by
  induction xs with
  | nil => simpa [dropZeros] using hz
  | cons x xs ih => simp only [List.cons_append, dropZeros, ih]

theorem dropZeros_replicate (n : Nat) : dropZeros (List.replicate n 0) = [] := by
  induction n with
  | zero => rfl
  | succ n ih => simp [List.replicate_succ, dropZeros, ih]

theorem dropZeros_last_ne (xs : List Nat) {y : Nat} (hy : y ≠ 0) : dropZeros (xs ++ [y]) = xs ++ [y] := by
  induction xs with
  | nil => simp [dropZeros, hy]
  | cons x xs ih =>
    simp only [List.cons_append, dropZeros, ih]
    cases h : xs ++ [y] with
    | nil => simp at h
    | cons a as => rfl

/-- the counts of a complex never end in a zero: the last simplex of the listing has the maximal order -/
theorem dropZeros_countsOf (c : C) : dropZeros (countsOf c) = countsOf c := by
  unfold countsOf Cx.maxOrder
  cases hl : c.simps.getLast? with
  | none => rfl
  | some s =>
    simp only []
    have : ((s.order : Int) + 1).toNat = s.order + 1 := by omega
    rw [this, List.range_succ, List.map_append, List.map_cons, List.map_nil]
    apply dropZeros_last_ne
    have hs : s ∈ c.simps := List.mem_of_getLast? hl
    have : s ∈ c.ofOrder s.order := by
      unfold Cx.ofOrder; exact List.mem_filter.mpr ⟨hs, by simp⟩
    intro h0
    rw [List.length_eq_zero_iff] at h0
    rw [h0] at this; simp at this

theorem ofOrder_visible_length (f : FS) (k : Nat) :
    ((f.c.ofOrder k).filter (fun s => f.visible s.name)).length = (f.visibleC.ofOrder k).length := by
  unfold Cx.ofOrder FS.visibleC
  simp only [List.filter_filter]
  congr 1
  apply List.filter_congr
  intro s _
  exact Bool.and_comm _ _

/-- `numberOfSimplicesOfOrder()` is the per-order count of the visible complex: the counts up to the maximal
order of the *whole* complex with the trailing zeros dropped are the counts of the visible complex up to
*its* maximal order -/
theorem counts_eq {f : FS} (hF : FInv f) :
    f.counts = dropZeros (countsOf f.visibleC) ∧ f.counts = countsOf f.visibleC := by
  have hIv : Inv f.visibleC := (visibleC_spec hF).2.2.1
  have hmain : f.counts = dropZeros (countsOf f.visibleC) := by
    unfold FS.counts countsOf
    simp only [ofOrder_visible_length]
    -- the visible complex is no higher than the whole complex
    have hMN : (f.visibleC.maxOrder + 1).toNat ≤ (f.c.maxOrder + 1).toNat := by
      have : f.visibleC.maxOrder ≤ f.c.maxOrder := by
        cases hl : f.visibleC.simps.getLast? with
        | none =>
          have h1 : f.visibleC.maxOrder = -1 := by unfold Cx.maxOrder; rw [hl]
          have h2 : (-1 : Int) ≤ f.c.maxOrder := by
            unfold Cx.maxOrder; cases f.c.simps.getLast? <;> simp
          omega
        | some s =>
          have h1 : f.visibleC.maxOrder = s.order := by unfold Cx.maxOrder; rw [hl]
          have hs : s ∈ f.c.simps := (List.mem_filter.mp (List.mem_of_getLast? hl)).1
          have := maxOrder_ge hF.inv hs
          omega
      omega
    obtain ⟨d, hd⟩ := Nat.exists_eq_add_of_le hMN
    rw [hd, List.range_add, List.map_append]
    apply dropZeros_append_of_nil
    have : ((List.range d).map (fun x => (f.visibleC.maxOrder + 1).toNat + x)).map
        (fun k => (f.visibleC.ofOrder k).length) = List.replicate d 0 := by
      rw [List.eq_replicate_iff]
      refine ⟨by simp, ?_⟩
      intro b hb
      obtain ⟨k, hk, rfl⟩ := List.mem_map.mp hb
      obtain ⟨x, -, rfl⟩ := List.mem_map.mp hk
      rw [List.length_eq_zero_iff, List.eq_nil_iff_forall_not_mem]
      intro s hs
      unfold Cx.ofOrder at hs
      obtain ⟨hs1, hs2⟩ := List.mem_filter.mp hs
      have := maxOrder_ge hIv hs1
      simp only [beq_iff_eq] at hs2
      omega
    rw [this]
    exact dropZeros_replicate d
  exact ⟨hmain, by rw [hmain, dropZeros_countsOf]⟩

/-- `eulerCharacteristic()` of the filtration is that of the visible complex -/
theorem euler_eq {f : FS} (hF : FInv f) : f.euler = euler f.visibleC := by
  unfold FS.euler euler
  rw [(counts_eq hF).2]

-- non-vacuity of C14 on the example (invariant: `exF_FInv`): at index 0 the edge is not counted or listed
example : exF.simplices = [.u 1, .u 2] ∧ exF.count = 2 ∧ exF.counts = [2] ∧ exF.euler = 2 ∧
    exF.visible (.u 12) = false ∧ exF.visible (.u 1) = true := by decide
example : (exF.setIndex 1).simplices = [.u 1, .u 2, .u 12] ∧ (exF.setIndex 1).count = 3 ∧
    (exF.setIndex 1).counts = [2, 1] ∧ (exF.setIndex 1).euler = 1 := by decide

/-! ## navigation: `next`, `prev`, `toMin`, `toMax` -/

theorem findIdx_first (l1 l2 : List Int) (x : Int) (h : x ∉ l1) :
    (l1 ++ x :: l2).findIdx (· == x) = l1.length := by
  induction l1 with
  | nil => simp [List.findIdx_cons]
  | cons y ys ih =>
    have hy : (y == x) = false := by
      rw [beq_eq_false_iff_ne]; exact fun e => h (e ▸ List.mem_cons_self)
    have := ih (fun hm => h (List.mem_cons_of_mem _ hm))
    simp [List.findIdx_cons, hy, this]

theorem idxOf_first (l1 l2 : List Int) (x : Int) (h : x ∉ l1) :
    idxOf (l1 ++ x :: l2) x = some l1.length := by
  unfold idxOf
  simp only [findIdx_first l1 l2 x h]
  rw [if_pos (by simp)]

theorem idxOf_none {l : List Int} {x : Int} (h : x ∉ l) : idxOf l x = none := by
  unfold idxOf
  have : l.findIdx (· == x) = l.length :=
    List.findIdx_eq_length.mpr (by intro y hy; simp; intro e; exact h (e ▸ hy))
  simp [this]

theorem sorted_split {l : List Int} (hs : l.Pairwise (· < ·)) {x : Int} (hx : x ∈ l) :
    ∃ l1 l2, l = l1 ++ x :: l2 ∧ (∀ y ∈ l1, y < x) ∧ (∀ y ∈ l2, x < y) ∧ x ∉ l1 := by
  obtain ⟨l1, l2, rfl⟩ := List.append_of_mem hx
  rw [List.pairwise_append] at hs
  obtain ⟨h1, h2, h3⟩ := hs
  rw [List.pairwise_cons] at h2
  refine ⟨l1, l2, rfl, fun y hy => h3 y hy x List.mem_cons_self, h2.1, ?_⟩
  intro hm; have := h3 x hm x List.mem_cons_self; omega

/-- **`next`**: from an existing index, move to the least existing index above the current one, or stay at
the greatest one; the value returned is the new current index -/
theorem next_spec (f : FS) (hnd : f.keys.Nodup) (hk : f.index ∈ f.keys) :
    ∃ j, f.next = (.ok j, { f with index := j }) ∧
      ((∃ k ∈ f.keys, f.index < k) → j ∈ f.keys ∧ f.index < j ∧ ∀ k ∈ f.keys, f.index < k → j ≤ k) ∧
      ((¬ ∃ k ∈ f.keys, f.index < k) → j = f.index) := by
  obtain ⟨-, -, hmem, hstr⟩ := indices_sorted f
  obtain ⟨l1, l2, hl, h1, h2, hx⟩ := sorted_split (hstr hnd) ((hmem _).mpr hk)
  have hs := hstr hnd
  unfold FS.next
  simp only []
  rw [hl, idxOf_first l1 l2 _ hx]
  simp only []
  cases l2 with
  | nil =>
    rw [if_pos (by simp)]
    refine ⟨f.index, rfl, ?_, fun _ => rfl⟩
    rintro ⟨k, hk', hlt⟩
    exfalso
    have := (hmem k).mpr hk'
    rw [hl] at this
    rcases List.mem_append.mp this with h | h
    · have := h1 k h; omega
    · simp at h; omega
  | cons j l2' =>
    rw [if_neg (by simp)]
    have hget : (l1 ++ f.index :: j :: l2').getD (l1.length + 1) f.index = j := by simp
    rw [hget]
    have hj : j ∈ f.keys := (hmem j).mp (by rw [hl]; simp)
    have hlt : f.index < j := h2 j List.mem_cons_self
    refine ⟨j, rfl, fun _ => ⟨hj, hlt, ?_⟩, fun hno => absurd ⟨j, hj, hlt⟩ hno⟩
    intro k hk' hkl
    have := (hmem k).mpr hk'
    rw [hl] at this
    rcases List.mem_append.mp this with h | h
    · have := h1 k h; omega
    · rcases List.mem_cons.mp h with h | h
      · omega
      · rcases List.mem_cons.mp h with h | h
        · omega
        · rw [hl, List.pairwise_append] at hs
          have := (List.pairwise_cons.mp (List.pairwise_cons.mp hs.2.1).2).1 k h
          omega

/-- `next` when the current index is not an existing index: `list.index` raises ValueError -/
theorem next_not_key (f : FS) (hk : f.index ∉ f.keys) : f.next = (.error .value, f) := by
  unfold FS.next
  simp only []
  rw [idxOf_none (fun h => hk ((indices_sorted f).2.2.1 _ |>.mp h))]

/-- **`prev`**: from an existing index, move to the greatest existing index below the current one, or stay at
the least one; the value returned is the new current index -/
theorem prev_spec (f : FS) (hnd : f.keys.Nodup) (hk : f.index ∈ f.keys) :
    ∃ j, f.prev = (.ok j, { f with index := j }) ∧
      ((∃ k ∈ f.keys, k < f.index) → j ∈ f.keys ∧ j < f.index ∧ ∀ k ∈ f.keys, k < f.index → k ≤ j) ∧
      ((¬ ∃ k ∈ f.keys, k < f.index) → j = f.index) := by
  obtain ⟨-, -, hmem, hstr⟩ := indices_sorted f
  obtain ⟨l1, l2, hl, h1, h2, hx⟩ := sorted_split (hstr hnd) ((hmem _).mpr hk)
  have hs := hstr hnd
  unfold FS.prev
  simp only []
  rw [hl, idxOf_first l1 l2 _ hx]
  simp only []
  rcases List.eq_nil_or_concat' l1 with rfl | ⟨l1', j, rfl⟩
  · rw [if_pos (by simp)]
    refine ⟨f.index, rfl, ?_, fun _ => rfl⟩
    rintro ⟨k, hk', hlt⟩
    exfalso
    have := (hmem k).mpr hk'
    rw [hl] at this
    rcases List.mem_cons.mp (by simpa using this) with h | h
    · omega
    · have := h2 k h; omega
  · rw [if_neg (by simp)]
    have hget : (l1' ++ [j] ++ f.index :: l2).getD ((l1' ++ [j]).length - 1) f.index = j := by simp
    rw [hget]
    have hj : j ∈ f.keys := (hmem j).mp (by rw [hl]; simp)
    have hlt : j < f.index := h1 j (by simp)
    refine ⟨j, rfl, fun _ => ⟨hj, hlt, ?_⟩, fun hno => absurd ⟨j, hj, hlt⟩ hno⟩
    intro k hk' hkl
    have := (hmem k).mpr hk'
    rw [hl] at this
    rcases List.mem_append.mp this with h | h
    · rcases List.mem_append.mp h with h | h
      · rw [hl, List.pairwise_append] at hs
        have := (List.pairwise_append.mp hs.1).2.2 k h j (by simp)
        omega
      · simp at h; omega
    · rcases List.mem_cons.mp h with h | h
      · omega
      · have := h2 k h; omega

theorem prev_not_key (f : FS) (hk : f.index ∉ f.keys) : f.prev = (.error .value, f) := by
  unfold FS.prev
  simp only []
  rw [idxOf_none (fun h => hk ((indices_sorted f).2.2.1 _ |>.mp h))]

/-- **`toMin`** moves to the least existing index -/
theorem toMin_spec (f : FS) (hne : f.keys ≠ []) :
    ∃ i, f.toMin = (.ok (), { f with index := i }) ∧ i ∈ f.keys ∧ ∀ k ∈ f.keys, i ≤ k := by
  obtain ⟨hs, hp, hmem, -⟩ := indices_sorted f
  unfold FS.toMin
  cases hl : f.indices with
  | nil => rw [hl] at hp; exact absurd hp.symm.eq_nil hne
  | cons i rest =>
    simp only []
    have hi : i ∈ f.keys := (hmem i).mp (by rw [hl]; simp)
    refine ⟨i, by rw [setIndex_of_mem hi], hi, ?_⟩
    intro k hk
    have := (hmem k).mpr hk
    rw [hl] at this hs
    rcases List.mem_cons.mp this with h | h
    · omega
    · exact (List.pairwise_cons.mp hs).1 k h

/-- **`toMax`** moves to the greatest existing index -/
theorem toMax_spec (f : FS) (hne : f.keys ≠ []) :
    ∃ i, f.toMax = (.ok (), { f with index := i }) ∧ i ∈ f.keys ∧ ∀ k ∈ f.keys, k ≤ i := by
  obtain ⟨hs, hp, hmem, -⟩ := indices_sorted f
  unfold FS.toMax
  cases hl : f.indices.getLast? with
  | none =>
    rw [List.getLast?_eq_none_iff] at hl
    rw [hl] at hp; exact absurd hp.symm.eq_nil hne
  | some i =>
    simp only []
    obtain ⟨l, hl'⟩ := List.getLast?_eq_some_iff.mp hl
    have hi : i ∈ f.keys := (hmem i).mp (by rw [hl']; simp)
    refine ⟨i, by rw [setIndex_of_mem hi], hi, ?_⟩
    intro k hk
    have := (hmem k).mpr hk
    rw [hl'] at this hs
    rcases List.mem_append.mp this with h | h
    · exact (List.pairwise_append.mp hs).2.2 k h i (by simp)
    · simp at h; omega

/-- with no index at all `toMin` / `toMax` raise and change nothing -/
theorem toMin_toMax_empty (f : FS) (h : f.keys = []) :
    f.toMin = (.error .key, f) ∧ f.toMax = (.error .key, f) := by
  have : f.indices = [] := by unfold FS.indices; rw [h]; rfl
  unfold FS.toMin FS.toMax
  rw [this]
  exact ⟨rfl, rfl⟩

-- non-vacuity of the navigation theorems on the example (keys `[0, 1]`, current index 0)
example : exF.keys.Nodup ∧ exF.index ∈ exF.keys ∧ exF.keys ≠ [] := by decide
example : (exF.next).1 = .ok 1 ∧ (exF.next).2.index = 1 ∧ (exF.prev).1 = .ok 0 ∧ (exF.prev).2.index = 0 ∧
    (exF.next).2.next.1 = .ok 1 ∧ (exF.toMax).2.index = 1 ∧ ((exF.toMax).2.toMin).2.index = 0 := by
  refine ⟨rfl, rfl, rfl, rfl, rfl, rfl, rfl⟩
example : ({ exF with index := 7 } : FS).next.1 = .error .value := rfl

/-! ## recorded finding: `maxOrder` is not scoped by the index -/

/-- **`maxOrder()` is NOT index-aware** (known finding of the code): on a filtration satisfying the invariant,
with two points born at 0 and an edge born at 1, at index 0 the inherited `maxOrder()` answers 1 although the
complex seen at index 0 has maximal order 0 -/
theorem maxOrder_not_scoped : FInv exF ∧ exF.index = 0 ∧ exF.c.maxOrder = 1 ∧ exF.visibleC.maxOrder = 0 :=
  ⟨exF_FInv, by decide, by decide, by decide⟩

end Flat
