import Sx.Props.MatRep3

/-! # Layer R — part 5: `addSimplex` of a point -/
namespace MatRep
open Flat M2
set_option linter.unusedSectionVars false

/-! ## the new row and column of `_bases[0]` -/

/-- `newPointBasis` is the old square matrix bordered by a zero row and column, with a one in the corner -/
theorem newPointBasis_eq {B : Mat} {si : Nat} (hm : B.m = si) (hn : B.n = si) :
    newPointBasis B si = mk (si + 1) (si + 1)
      (fun r c => if r = si ∧ c = si then true else if r < si ∧ c < si then B.get r c else false) := by
  unfold newPointBasis
  by_cases h0 : B.m = 0
  · rw [if_pos h0]
    have : si = 0 := by omega
    subst this
    apply mk_congr
    intro i j hi hj
    have : i = 0 ∧ j = 0 := by omega
    rw [if_pos this]
  · rw [if_neg h0]
    unfold setOne
    have e1 : (appendZeroRow (appendCol B fun _ => false)).m = si + 1 := by
      simp only [appendZeroRow, appendCol, mk_m]; omega
    have e2 : (appendZeroRow (appendCol B fun _ => false)).n = si + 1 := by
      simp only [appendZeroRow, appendCol, mk_n]; omega
    rw [e1, e2]
    apply mk_congr
    intro i j hi hj
    by_cases hc : i = si ∧ j = si
    · rw [if_pos hc, if_pos hc]
    · rw [if_neg hc, if_neg hc]
      unfold appendZeroRow
      rw [get_mk (by simp only [appendCol, mk_m]; omega) (by simp only [appendCol, mk_n]; omega)]
      simp only [appendCol, mk_m]
      by_cases hi' : i < si
      · rw [if_pos (by omega)]
        rw [get_mk (by omega) (by omega)]
        by_cases hj' : j < si
        · rw [if_pos (by omega), if_pos ⟨hi', hj'⟩]
        · rw [if_neg (by omega), if_neg (fun hh => hj' hh.2)]
      · rw [if_neg (by omega), if_neg (fun hh => hi' hh.1)]

theorem decode_np_old {names : List Name} {new : Name} {B : Mat} {si i : Nat}
    (hl : names.length = si) (hm : B.m = si) (hn : B.n = si) (hi : i < si) :
    decodeCol (names ++ [new]) (newPointBasis B si) i = decodeCol names B i := by
  rw [newPointBasis_eq hm hn]
  unfold decodeCol
  rw [List.length_append, List.length_singleton, List.range_succ, List.filterMap_append, hl]
  have hlast : (mk (si + 1) (si + 1)
      (fun r c => if r = si ∧ c = si then true else if r < si ∧ c < si then B.get r c else false)).get si i
      = false := by
    rw [get_mk (by omega) (by omega), if_neg (show ¬ (si = si ∧ i = si) by omega),
      if_neg (show ¬ (si < si ∧ i < si) by omega)]
  simp only [List.filterMap_cons, List.filterMap_nil, hlast, Bool.false_eq_true, if_false, List.append_nil]
  apply List.filterMap_congr
  intro r hr
  rw [List.mem_range] at hr
  have hent : (mk (si + 1) (si + 1)
      (fun r c => if r = si ∧ c = si then true else if r < si ∧ c < si then B.get r c else false)).get r i
      = B.get r i := by
    rw [get_mk (by omega) (by omega), if_neg (show ¬ (r = si ∧ i = si) by omega),
      if_pos (show r < si ∧ i < si from ⟨hr, hi⟩)]
  rw [hent, List.getElem?_append_left (by omega)]

theorem decode_np_new {names : List Name} {new : Name} {B : Mat} {si : Nat}
    (hl : names.length = si) (hm : B.m = si) (hn : B.n = si) :
    decodeCol (names ++ [new]) (newPointBasis B si) si = [new] := by
  rw [newPointBasis_eq hm hn]
  unfold decodeCol
  rw [List.length_append, List.length_singleton, List.range_succ, List.filterMap_append, hl]
  have hlast : (mk (si + 1) (si + 1)
      (fun r c => if r = si ∧ c = si then true else if r < si ∧ c < si then B.get r c else false)).get si si
      = true := by
    rw [get_mk (by omega) (by omega), if_pos ⟨rfl, rfl⟩]
  have hget : (names ++ [new])[si]? = some new := by
    rw [List.getElem?_append_right (by omega), hl]; simp
  simp only [List.filterMap_cons, List.filterMap_nil, hlast, if_true, hget]
  have : (List.range si).filterMap (fun r =>
      if (mk (si + 1) (si + 1)
        (fun r c => if r = si ∧ c = si then true else if r < si ∧ c < si then B.get r c else false)).get r si
        = true then (names ++ [new])[r]? else none) = [] := by
    rw [List.filterMap_eq_nil_iff]
    intro r hr
    rw [List.mem_range] at hr
    have hent : (mk (si + 1) (si + 1)
        (fun r c => if r = si ∧ c = si then true else if r < si ∧ c < si then B.get r c else false)).get r si
        = false := by
      rw [get_mk (by omega) (by omega), if_neg (show ¬ (r = si ∧ si = si) by omega),
        if_neg (show ¬ (r < si ∧ si < si) by omega)]
    rw [hent]; rfl
  rw [this]; rfl

/-! ## the state after adding a point -/

/-- `_bases[0]` before the point is added -/
def bs0Before (r : Rep) : Mat := if 0 = r.len then zeros (r.idx 0).length 0 else r.bs 0

section point
variable {r : Rep} (hI : MInv r) (id : Name)
include hI

theorem bs0Before_shape : (bs0Before r).m = (r.idx 0).length ∧ (bs0Before r).n = (r.idx 0).length := by
  unfold bs0Before
  split_ifs with h
  · rw [idx_oob r (by omega : r.len ≤ 0)]; exact ⟨rfl, rfl⟩
  · exact hI.bsShape 0 (by omega)

theorem addPoint_len : ((prep r 0).addPoint id).len = max r.len 1 := by
  unfold Rep.addPoint Rep.len
  simp only [List.length_modify]
  exact prep_len hI (Nat.zero_le _)

theorem addPoint_idx (j : Nat) :
    ((prep r 0).addPoint id).idx j = if j = 0 then r.idx 0 ++ [id] else r.idx j := by
  unfold Rep.addPoint Rep.idx
  simp only
  rw [getD_modify]
  have h1 : 0 < (prep r 0).indices.length := by
    have := prep_len hI (Nat.zero_le r.len); unfold Rep.len at this; omega
  have h2 := prep_idx hI (Nat.zero_le r.len) j
  unfold Rep.idx at h2
  by_cases hj : j = 0
  · rw [if_pos ⟨hj, h1⟩, if_pos hj, h2, hj]
  · rw [if_neg (fun hh => hj hh.1), if_neg hj, h2]

theorem addPoint_bd (j : Nat) : ((prep r 0).addPoint id).bd j =
    if j = 0 ∧ 0 = r.len then zeros (r.idx 0).length 0
    else if j = 1 ∧ 1 < r.len then appendZeroRow (r.bd j) else r.bd j := by
  show (prep r 0).bd j = _
  rw [prep_bd hI (Nat.zero_le _)]

theorem addPoint_bs (j : Nat) (hj : j < max r.len 1) : ((prep r 0).addPoint id).bs j =
    if j = 0 then newPointBasis (bs0Before r) (r.idx 0).length else appendZeroRow (r.bs j) := by
  unfold Rep.addPoint Rep.bs
  simp only
  rw [getD_mapIdx _ _ _ _ (by rw [prep_lenS hI (Nat.zero_le _)]; exact hj)]
  have h2 := prep_bs hI (Nat.zero_le r.len) j
  unfold Rep.bs at h2
  rw [h2, prep_idx hI (Nat.zero_le _)]
  by_cases hj0 : j = 0
  · subst hj0
    rw [if_pos rfl, if_pos rfl]
    unfold bs0Before
    by_cases hl : 0 = r.len
    · rw [if_pos ⟨rfl, hl⟩, if_pos hl]
    · rw [if_neg (fun hh => hl hh.2), if_neg hl]; rfl
  · rw [if_neg hj0, if_neg hj0, if_neg (fun hh => hj0 hh.1)]

/-- old columns decode as before -/
theorem addPoint_old (j i : Nat) (hi : i < (r.idx j).length) :
    ((prep r 0).addPoint id).facesAt j i = r.facesAt j i ∧
    ((prep r 0).addPoint id).basisAt j i = r.basisAt j i := by
  have hj : j < r.len := by
    by_contra h; rw [idx_oob r (by omega)] at hi; simp at hi
  obtain ⟨hsm, hsn⟩ := hI.bsShape j hj
  constructor
  · unfold Rep.facesAt
    by_cases h0 : j = 0
    · rw [if_pos h0, if_pos h0]
    · rw [if_neg h0, if_neg h0, addPoint_idx hI, addPoint_bd hI,
        if_neg (show ¬ (j = 0 ∧ 0 = r.len) from fun hh => h0 hh.1)]
      obtain ⟨hm, hn⟩ := hI.bdShape j (by omega) hj
      by_cases hj1 : j = 1
      · subst hj1
        rw [if_pos rfl, if_pos ⟨rfl, hj⟩]
        exact decode_appendZeroRow _ _ _ hm.symm (by omega)
      · rw [if_neg (by omega), if_neg (fun hh => hj1 hh.1)]
  · unfold Rep.basisAt
    rw [addPoint_idx hI, addPoint_bs hI id j (by omega), if_pos rfl]
    by_cases h0 : j = 0
    · subst h0
      rw [if_pos rfl]
      have : bs0Before r = r.bs 0 := by unfold bs0Before; rw [if_neg (by omega)]
      rw [this]
      exact decode_np_old rfl hsm hsn hi
    · rw [if_neg h0]
      exact decode_appendZeroRow _ _ _ hsm.symm (by omega)

theorem addPoint_new :
    ((prep r 0).addPoint id).facesAt 0 (r.idx 0).length = [] ∧
    ((prep r 0).addPoint id).basisAt 0 (r.idx 0).length = [id] := by
  constructor
  · unfold Rep.facesAt; rw [if_pos rfl]
  · unfold Rep.basisAt
    rw [addPoint_idx hI, addPoint_bs hI id 0 (by omega), if_pos rfl, if_pos rfl]
    obtain ⟨hm, hn⟩ := bs0Before_shape hI
    exact decode_np_new rfl hm hn

/-- **Layer A sees one `insertSorted`** -/
theorem abs_addPoint : (abs ((prep r 0).addPoint id)).simps =
    insertSorted ⟨id, 0, [], [id]⟩ (abs r).simps :=
  abs_insert (Nat.zero_le _) (addPoint_len hI id) (addPoint_idx hI id) (addPoint_old hI id) (addPoint_new hI id)

theorem addPoint_seq : ((prep r 0).addPoint id).seq = r.seq := by
  unfold Rep.addPoint; exact prep_seq hI (Nat.zero_le _)

/-- the invariant survives, provided the new name is new -/
theorem MInv_addPoint (hid : r.find? id = none) : MInv ((prep r 0).addPoint id) := by
  have hlen := addPoint_len hI id
  have hidxlen : ∀ j, (((prep r 0).addPoint id).idx j).length =
      if j = 0 then (r.idx 0).length + 1 else (r.idx j).length := by
    intro j
    rw [addPoint_idx hI]
    split_ifs
    · rw [List.length_append, List.length_singleton]
    · rfl
  obtain ⟨h0m, h0n⟩ := bs0Before_shape hI
  refine ⟨?_, ?_, ?_, ?_, ?_, ?_, ?_⟩
  · show (prep r 0).boundaries.length = ((prep r 0).indices.modify 0 _).length
    rw [List.length_modify, prep_lenB hI (Nat.zero_le _)]
    exact (prep_len hI (Nat.zero_le _)).symm
  · show ((prep r 0).bases.mapIdx _).length = ((prep r 0).indices.modify 0 _).length
    rw [List.length_mapIdx, List.length_modify, prep_lenS hI (Nat.zero_le _)]
    exact (prep_len hI (Nat.zero_le _)).symm
  · intro _
    rw [addPoint_bd hI]
    by_cases hl : 0 = r.len
    · rw [if_pos ⟨rfl, hl⟩, idx_oob r (by omega)]; exact ⟨rfl, rfl⟩
    · rw [if_neg (fun hh => hl hh.2), if_neg (by omega)]
      exact hI.bd0 (by omega)
  · intro j hj0 hj
    rw [hlen] at hj
    have hjl : j < r.len := by omega
    obtain ⟨hm, hn⟩ := hI.bdShape j hj0 hjl
    rw [addPoint_bd hI, hidxlen, hidxlen, if_neg (show ¬ (j = 0 ∧ 0 = r.len) by omega),
      if_neg (show ¬ j = 0 by omega)]
    have e1 : j - 1 = 0 → (r.idx (j - 1)).length = (r.idx 0).length := fun h => by rw [h]
    split_ifs <;> refine ⟨?_, ?_⟩ <;> (try simp only [appendZeroRow, mk_m, mk_n]) <;> omega
  · intro j hj
    rw [hlen] at hj
    rw [addPoint_bs hI id j hj, hidxlen, hidxlen, if_pos rfl]
    by_cases hj0 : j = 0
    · rw [if_pos hj0, if_pos hj0, newPointBasis_eq h0m h0n]
      exact ⟨rfl, rfl⟩
    · have hjl : j < r.len := by omega
      obtain ⟨hm, hn⟩ := hI.bsShape j hjl
      rw [if_neg hj0, if_neg hj0]
      refine ⟨?_, ?_⟩ <;> simp only [appendZeroRow, mk_m, mk_n] <;> omega
  · intro j hj
    rw [hlen] at hj
    rw [addPoint_bd hI, addPoint_bs hI id j hj]
    constructor
    · split_ifs
      · exact isMk_mk _ _ _
      · exact isMk_mk _ _ _
      · exact (hI.isMk j (by omega)).1
    · split_ifs
      · rw [newPointBasis_eq h0m h0n]; exact isMk_mk _ _ _
      · exact isMk_mk _ _ _
  · intro j a j' a' x h1 h2
    have key : ∀ (j a : Nat), (((prep r 0).addPoint id).idx j)[a]? = some x →
        (r.idx j)[a]? = some x ∨ (j = 0 ∧ a = (r.idx 0).length ∧ x = id) := by
      intro j a h
      rw [addPoint_idx hI] at h
      split_ifs at h with hjk
      · rw [List.getElem?_append] at h
        split_ifs at h with ha
        · left; rw [hjk]; exact h
        · right
          have hx := List.getElem?_eq_some_iff.mp h
          obtain ⟨hlt, hget⟩ := hx
          simp only [List.length_singleton] at hlt
          have : a - (r.idx 0).length = 0 := by omega
          simp only [this, List.getElem_cons_zero] at hget
          exact ⟨hjk, by omega, hget.symm⟩
      · left; exact h
    have hfresh : ∀ (j a : Nat), (r.idx j)[a]? ≠ some id := by
      intro j a h
      exact find?_none hid j (List.mem_of_getElem? h)
    rcases key j a h1 with h1' | ⟨e1, e2, e3⟩
    · rcases key j' a' h2 with h2' | ⟨f1, f2, f3⟩
      · exact hI.uniq _ _ _ _ _ h1' h2'
      · rw [f3] at h1'; exact absurd h1' (hfresh _ _)
    · rcases key j' a' h2 with h2' | ⟨f1, f2, f3⟩
      · rw [e3] at h2'; exact absurd h2' (hfresh _ _)
      · exact ⟨by rw [e1, f1], by rw [e2, f2]⟩

end point

end MatRep
