import Sx.Model
import Sx.Props.MatRepMany
import Sx.Props.Relabel
import Mathlib.Tactic.SplitIfs

/-! # the dict-relabel loop (`for s in mapping: self.relabelSimplex(s, mapping[s])`) is a list of public
`relabel` calls at Layer R -/

namespace MatRep
open Flat M2

theorem abs_stepP_relabel {r : Rep} (hI : MInv r) (s q : Name) :
    abs (stepP r (.relabel s q)) = ((abs r).relabelSimplex s q).getD (abs r) :=
  (run_refines [RCall.relabel s q] hI).2

/-- **(1)** the fold of `Flat.relabel` (Model/Ops.lean) is the list of public `relabel` calls -/
theorem relabelPairs_refines {r : Rep} (hI : MInv r) (ps : List (Name × Name)) :
    abs ((ps.map (fun p => PCall.relabel p.1 p.2)).foldl stepP r) =
      ps.foldl (fun c p => (c.relabelSimplex p.1 p.2).getD c) (abs r) := by
  induction ps generalizing r with
  | nil => rfl
  | cons p ps ih =>
    simp only [List.map_cons, List.foldl_cons]
    rw [ih (stepP_MInv hI _), abs_stepP_relabel hI]

/-- **(2)** relabels need no contract -/
theorem PRun_relabels (r : Rep) (ps : List (Name × Name)) :
    PRun r (ps.map (fun p => PCall.relabel p.1 p.2)) := by
  induction ps generalizing r with
  | nil => trivial
  | cons p ps ih => exact ⟨trivial, ih _⟩

theorem PRun_append_relabels (cs : List PCall) (h : PRun Rep.empty cs) (ps : List (Name × Name)) :
    PRun Rep.empty (cs ++ ps.map (fun p => PCall.relabel p.1 p.2)) :=
  (PRun_append_list cs _ Rep.empty).mpr ⟨h, PRun_relabels _ ps⟩

theorem runP_append_relabels (cs : List PCall) (h : PRun Rep.empty cs) (ps : List (Name × Name)) :
    abs (runP (cs ++ ps.map (fun p => PCall.relabel p.1 p.2))) =
      ps.foldl (fun c p => (c.relabelSimplex p.1 p.2).getD c) (abs (runP cs)) := by
  unfold runP; rw [List.foldl_append]
  exact relabelPairs_refines (public_run_end cs h).1 ps

/-- **(3)** an accepted `Flat.relabel` ends in the abstraction of the Layer-R run of the public `relabel`
calls of the returned mapping; a rejected one leaves the state unchanged -/
theorem relabel_refines_run {r : Rep} (hI : MInv r) (ρ : Name → Name) {m : List (Name × Name)}
    (h : (Flat.relabel (abs r) ρ).1 = .ok m) :
    m = relabelMapping (abs r) ρ ∧
    (Flat.relabel (abs r) ρ).2 = abs ((m.map (fun p => PCall.relabel p.1 p.2)).foldl stepP r) ∧
    PRun r (m.map (fun p => PCall.relabel p.1 p.2)) := by
  rw [Flat.relabel_eq] at h ⊢
  split_ifs at h ⊢ with h1 h2
  cases h
  refine ⟨rfl, ?_, PRun_relabels _ _⟩
  exact (relabelPairs_refines hI (relabelMapping (abs r) ρ)).symm

theorem relabel_rejected_state (c : C) (ρ : Name → Name) {e : Err}
    (h : (Flat.relabel c ρ).1 = .error e) : (Flat.relabel c ρ).2 = c := by
  rw [Flat.relabel_eq] at h ⊢
  split_ifs at h ⊢ with h1 h2
  all_goals rfl

example : MInv exR ∧
    (Flat.relabel (abs exR) (fun n => if n = .u 11 then .u 7 else if n = .u 0 then .u 5 else n)).1 =
      .ok [(.u 0, .u 5), (.u 11, .u 7)] :=
  ⟨(reachable_MInv exCalls).1, by decide⟩

example : MInv exR ∧
    (abs (([(Name.u 11, Name.u 7), (.u 0, .u 5)].map (fun p => PCall.relabel p.1 p.2)).foldl stepP exR)).simps.map (·.name) =
      ([(Name.u 11, Name.u 7), (.u 0, .u 5)].foldl (fun c p => (c.relabelSimplex p.1 p.2).getD c) (abs exR)).simps.map (·.name) :=
  ⟨(reachable_MInv exCalls).1, by decide⟩

example : PRun exR ([(Name.u 11, Name.u 7), (.u 0, .u 5)].map (fun p => PCall.relabel p.1 p.2)) := by decide

end MatRep
