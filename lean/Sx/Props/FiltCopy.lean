import Sx.Model
import Sx.Props.Filtration
import Sx.Props.Copy
import Sx.Proofs.FlagAdd
import Mathlib.Tactic.SplitIfs
import Mathlib.Data.List.Forall2

/-! # C09 / C13 — `Filtration.snap`, `Filtration.complexes`, `Filtration.copy`

* `snap_spec` — `snap()` builds a valid plain complex that is, position by position, a `Twin` of the complex
  seen at the current index (exactly the simplices born at or before the index);
* `iterate_spec` — `complexes()` yields one snapshot per existing index in ascending order, nested, and what
  it does to the filtration itself (nothing when the current index is an existing index; otherwise the
  iterator's `setIndex(old)` creates the current index as a new, empty index);
* `copyF_spec` — `copy()` replays the simplices index by index; the copy satisfies the invariant, has the same
  names, orders, faces, basis points and birth indices, the same existing indices, sits at the least index,
  and shows the same complex at every index. -/
namespace Flat
open List

/-! ## (1) `snap()` -/

/-- **`snap()`** under the invariant: it succeeds, returns the names visible now in listing order, and the
new complex is valid, has a fresh name counter and is position by position a twin (same name, same order, same
faces and basis points as sets) of the complex seen at the current index, whose simplices are exactly the
simplices of the filtration born at or before the current index -/
theorem snap_spec {f : FS} (hF : FInv f) :
    ∃ c', f.snap = (.ok f.visibleC.names, c') ∧ Inv c' ∧ c'.seq = 0 ∧
      Forall₂ Twin f.visibleC.simps c'.simps ∧
      (∀ s, s ∈ f.visibleC.simps ↔ s ∈ f.c.simps ∧ ∃ b, f.birth? s.name = some b ∧ b ≤ f.index) := by
  obtain ⟨hmem, -, hI, -, -⟩ := visibleC_spec hF
  obtain ⟨c', h1, h2, h3, h4⟩ := copyNew_spec hI
  exact ⟨c', h1, h2, h3, h4, hmem⟩

/-- the snapshot depends only on the complex, the births and the current index -/
theorem snap_congr {f g : FS} (hc : g.c = f.c) (hb : g.births = f.births) (hi : g.index = f.index) :
    g.snap = f.snap := by
  unfold FS.snap FS.visibleC
  have : g.visible = f.visible := by
    funext n; unfold FS.visible FS.birth?; rw [hc, hb, hi]
  rw [this, hc]

theorem setIndex_snap_congr {f g : FS} (hc : g.c = f.c) (hb : g.births = f.births) (i : Int) :
    (g.setIndex i).snap = (f.setIndex i).snap := by
  obtain ⟨a1, a2, a3, -⟩ := setIndex_fields g i
  obtain ⟨b1, b2, b3, -⟩ := setIndex_fields f i
  exact snap_congr (by rw [a1, b1, hc]) (by rw [a2, b2, hb]) (by rw [a3, b3])

/-- snapshots grow with the index -/
theorem snap_mono {f : FS} (hF : FInv f) {i j : Int} (hij : i ≤ j) :
    Flat.le (f.setIndex i).snap.2 (f.setIndex j).snap.2 = true := by
  obtain ⟨a, ha, hIa, -, hTa, -⟩ := snap_spec (setIndex_FInv hF i)
  obtain ⟨b, hb, hIb, -, hTb, -⟩ := snap_spec (setIndex_FInv hF j)
  have hle := (visibleC_spec hF).2.2.2.2 i j hij
  have hIi := (visibleC_spec (setIndex_FInv hF i)).2.2.1
  have hIj := (visibleC_spec (setIndex_FInv hF j)).2.2.1
  rw [Flat.le, isSub_iff hIi hIj] at hle
  rw [ha, hb, Flat.le, isSub_iff hIa hIb]
  intro s' hs'
  obtain ⟨s, hs, hst⟩ := forall₂_mem_right hTa s' hs'
  obtain ⟨t, ht, htn, hto, htf⟩ := hle s hs
  obtain ⟨t', ht', htt⟩ := forall₂_mem_left hTb t ht
  refine ⟨t', ht', ?_, ?_, ?_⟩
  · rw [htt.1, htn, hst.1]
  · rw [htt.2.1, hto, hst.2.1]
  · intro x; rw [hst.2.2.1 x, htf x, htt.2.2.1 x]

/-! ## (2) `complexes()` -/

/-- the iterator's step -/
def iterStep (acc : List C × FS) (ind : Int) : List C × FS :=
  let old := acc.2.index
  let g := acc.2.setIndex ind
  let snap := g.snap.2
  (acc.1 ++ [snap], g.setIndex old)

theorem iterate_def (f : FS) : f.iterate = f.indices.foldl iterStep ([], f) := rfl

/-- from a state whose current index exists, over existing indices, the loop leaves the state alone -/
theorem iterLoop_stable (h : FS) (hk : h.index ∈ h.keys) :
    ∀ (l : List Int), (∀ i ∈ l, i ∈ h.keys) → ∀ (acc1 : List C),
      l.foldl iterStep (acc1, h) = (acc1 ++ l.map (fun i => (h.setIndex i).snap.2), h) := by
  intro l
  induction l with
  | nil => intro _ acc1; simp
  | cons x xs ih =>
    intro hl acc1
    rw [List.foldl_cons]
    have hx : x ∈ h.keys := hl x List.mem_cons_self
    have h1 : h.setIndex x = { h with index := x } := setIndex_of_mem hx
    have h2 : ({ h with index := x } : FS).setIndex h.index = h := by
      rw [setIndex_of_mem (f := { h with index := x }) hk]
    have hstep : iterStep (acc1, h) x = (acc1 ++ [(h.setIndex x).snap.2], h) := by
      unfold iterStep
      simp only [h1, h2]
    rw [hstep, ih (fun i hi => hl i (List.mem_cons_of_mem _ hi))]
    simp

/-- **`complexes()`**, for every filtration satisfying the invariant:
* the complexes yielded are the snapshots `(f.setIndex i).snap.2` for the existing indices `i` in strictly
  ascending order (each existing index once);
* every one of them is a valid complex with a fresh counter, a position-by-position twin of the complex seen
  at that index;
* they are nested: each is a sub-complex (`<=`) of every later one;
* afterwards the filtration is exactly as before when the current index is an existing index; when it is
  not (and there is at least one index), the iterator's `setIndex(old)` has created it: the state is
  `f.ensureKey f.index`, i.e. `f` with the current index appended to the existing indices (nothing born
  there); with no index at all nothing is yielded and nothing changes. -/
theorem iterate_spec {f : FS} (hF : FInv f) :
    (f.iterate).1 = f.indices.map (fun i => (f.setIndex i).snap.2) ∧
    f.indices.Pairwise (· < ·) ∧ (∀ k, k ∈ f.indices ↔ k ∈ f.keys) ∧
    (∀ i, ∃ c', (f.setIndex i).snap = (.ok (f.setIndex i).visibleC.names, c') ∧ Inv c' ∧ c'.seq = 0 ∧
      Forall₂ Twin (f.setIndex i).visibleC.simps c'.simps) ∧
    (f.iterate).1.Pairwise (fun a b => Flat.le a b = true) ∧
    (f.index ∈ f.keys → (f.iterate).2 = f) ∧
    (f.index ∉ f.keys → f.keys ≠ [] → (f.iterate).2 = { f with keys := f.keys ++ [f.index] }) ∧
    (f.keys = [] → f.iterate = ([], f)) := by
  obtain ⟨hsorted, hperm, hmem, hstr⟩ := indices_sorted f
  have hlist : (f.iterate).1 = f.indices.map (fun i => (f.setIndex i).snap.2) ∧
      (f.index ∈ f.keys → (f.iterate).2 = f) ∧
      (f.index ∉ f.keys → f.keys ≠ [] → (f.iterate).2 = { f with keys := f.keys ++ [f.index] }) := by
    rw [iterate_def]
    by_cases hk : f.index ∈ f.keys
    · rw [iterLoop_stable f hk f.indices (fun i hi => (hmem i).mp hi) []]
      exact ⟨by simp, fun _ => rfl, fun h => absurd hk h⟩
    · cases hl : f.indices with
      | nil =>
        refine ⟨rfl, fun h => absurd h hk, fun _ hne => ?_⟩
        rw [hl] at hperm
        exact absurd hperm.symm.eq_nil hne
      | cons x xs =>
        have hx : x ∈ f.keys := (hmem x).mp (by rw [hl]; exact List.mem_cons_self)
        have hxs : ∀ i ∈ xs, i ∈ f.keys := fun i hi => (hmem i).mp (by rw [hl]; exact List.mem_cons_of_mem _ hi)
        have hens : f.ensureKey f.index = { f with keys := f.keys ++ [f.index] } := by
          unfold FS.ensureKey
          rw [if_neg (by simpa using hk)]
        have hstep : iterStep ([], f) x = ([(f.setIndex x).snap.2], { f with keys := f.keys ++ [f.index] }) := by
          unfold iterStep
          simp only [List.nil_append]
          rw [setIndex_of_mem hx]
          show (_, FS.ensureKey f f.index) = _
          rw [hens]
        rw [List.foldl_cons, hstep]
        generalize hg : ({ f with keys := f.keys ++ [f.index] } : FS) = g
        have hgc : g.c = f.c := by rw [← hg]
        have hgb : g.births = f.births := by rw [← hg]
        have hgi : g.index ∈ g.keys := by rw [← hg]; simp
        have hgk : ∀ i ∈ xs, i ∈ g.keys := by
          intro i hi; rw [← hg]; exact List.mem_append_left _ (hxs i hi)
        rw [iterLoop_stable g hgi xs hgk]
        refine ⟨?_, fun h => absurd h hk, fun _ _ => rfl⟩
        simp only [List.map_cons, List.cons_append, List.nil_append, List.cons.injEq, true_and]
        apply List.map_congr_left
        intro i _
        rw [setIndex_snap_congr hgc hgb]
  refine ⟨hlist.1, hstr hF.keysNodup, hmem, ?_, ?_, hlist.2.1, hlist.2.2, ?_⟩
  · intro i
    obtain ⟨c', h1, h2, h3, h4, -⟩ := snap_spec (setIndex_FInv hF i)
    exact ⟨c', h1, h2, h3, h4⟩
  · rw [hlist.1, List.pairwise_map]
    exact (hstr hF.keysNodup).imp (fun {a b} hab => snap_mono hF (Int.le_of_lt hab))
  · intro hnil
    rw [iterate_def]
    have : f.indices = [] := by unfold FS.indices; rw [hnil]; rfl
    rw [this]; rfl

/-! ## (3) `copy()` -/

/-! ### the step on plain complexes -/

/-- adding, to a partial copy `d` of `a` (every simplex of `d` is a twin of one of `a`), a simplex `s` of `a`
that is not there yet and all of whose faces are: the call succeeds and inserts a twin of `s` -/
theorem addSimplex_twin {a d : C} (hIa : Inv a) (hId : Inv d)
    (hT : ∀ t ∈ d.simps, ∃ u ∈ a.simps, Twin u t)
    {s : Simp Name} (hsa : s ∈ a.simps) (hfresh : d.contains s.name = false)
    (hfaces : ∀ x ∈ s.faces, d.contains x = true) :
    ∃ d1 t, d.addSimplex s.faces s.name = .ok d1 ∧ Inv d1 ∧ d1.seq = d.seq ∧
      d1.simps = insertSorted t d.simps ∧ Twin s t := by
  classical
  rcases Nat.eq_zero_or_pos s.order with h0 | hpos
  · -- a point
    obtain ⟨hf0, hb0⟩ := hIa.point s hsa h0
    have hadd : d.addSimplex s.faces s.name = .ok { d with simps :=
        (insertSorted ⟨s.name, 0, [], [s.name]⟩ d.simps) } := by
      rw [hf0]
      unfold Cx.addSimplex
      simp only [List.length_nil, List.isEmpty_nil, if_true]
      rw [if_neg (by omega), if_neg (by simp [hfresh]), if_neg (by simp)]
      have : ¬ ((0 - 1 : Nat) : Int) > d.maxOrder + 1 := by
        have : (-1 : Int) ≤ d.maxOrder := by
          unfold Cx.maxOrder; cases d.simps.getLast? <;> simp
        simp; omega
      rw [if_neg this]
    exact ⟨_, ⟨s.name, 0, [], [s.name]⟩, hadd, addSimplex_ok_inv hId (Or.inl hf0) hadd, rfl, rfl,
      ⟨rfl, h0.symm, by simp [hf0], by simp [hb0]⟩⟩
  · -- a higher simplex: its faces have twins in `d`
    obtain ⟨fn, fl, fex, bn, bl, biff⟩ := hIa.higher s hsa hpos
    have hfaceTwin : ∀ f ∈ s.faces, ∃ u ∈ a.simps, u.name = f ∧ u.order + 1 = s.order ∧
        ∃ t ∈ d.simps, Twin u t := by
      intro f hf
      obtain ⟨u, hu, hun, huo⟩ := fex f hf
      obtain ⟨t, ht, htn⟩ := contains_iff.mp (hfaces f hf)
      obtain ⟨u', hu', htw⟩ := hT t ht
      have : u' = u := hIa.name_inj hu' hu (by rw [← htw.1, htn, hun])
      subst this
      exact ⟨u', hu, hun, huo, t, ht, htw⟩
    obtain ⟨c'', fs', bs, hadd, hI'', hsimps'', hfs, hbs, hseq⟩ := addFacets (cN := d) (fs := s.faces)
      (nm := s.name) (k := s.order) (B := s.pts) hId hpos fn fl
      (by
        intro f hf
        obtain ⟨u, hu, hun, huo, t, ht, htw⟩ := hfaceTwin f hf
        refine ⟨t, ht, htw.1.trans hun, by rw [htw.2.1]; omega, ?_⟩
        rw [htw.pts]
        exact ((hIa.faces_are_facets hsa hu hpos).mp (hun ▸ hf)).2)
      (by
        intro x hx
        rw [Simp.pts, List.mem_toFinset] at hx
        obtain ⟨f, hf, u, hu, hun, hxu⟩ := (biff x).mp hx
        obtain ⟨u', hu', hun', -, t, ht, htw⟩ := hfaceTwin f hf
        have : u' = u := hIa.name_inj hu' hu (hun'.trans hun.symm)
        subst this
        exact ⟨f, hf, t, ht, htw.1.trans hun, by rw [htw.pts, Simp.pts, List.mem_toFinset]; exact hxu⟩)
      (hIa.pts_card hsa) hfresh
      (by
        intro t ht
        by_contra hcon
        have heq : setEqB t.faces s.faces = true := by simpa using hcon
        unfold Cx.ofOrder at ht
        rw [List.mem_filter] at ht
        obtain ⟨ht1, ht2⟩ := ht
        have hto : t.order = s.order := by simpa using ht2
        obtain ⟨u, hua, hut⟩ := hT t ht1
        have huo : u.order = s.order := hut.2.1.symm.trans hto
        have hfeq : ∀ f, f ∈ u.faces ↔ f ∈ s.faces := by
          intro f
          have := Finset.ext_iff.mp (setEqB_iff.mp heq) f
          simp only [List.mem_toFinset] at this
          exact (hut.2.2.1 f).symm.trans this
        obtain ⟨-, -, -, -, -, biffu⟩ := hIa.higher u hua (by omega)
        have : u = s := by
          apply hIa.uniq u hua s hsa huo
          intro p
          rw [biffu p, biff p]
          constructor
          · rintro ⟨f, hf, r⟩; exact ⟨f, (hfeq f).mp hf, r⟩
          · rintro ⟨f, hf, r⟩; exact ⟨f, (hfeq f).mpr hf, r⟩
        exact contains_false_iff.mp hfresh t ht1 (by rw [hut.1, this]))
    refine ⟨c'', ⟨s.name, s.order, fs', bs⟩, hadd, hI'', hseq, hsimps'', rfl, rfl, ?_, ?_⟩
    · intro f
      have := Finset.ext_iff.mp hfs f
      simpa only [List.mem_toFinset] using this
    · intro p
      have := Finset.ext_iff.mp hbs p
      simpa only [Simp.pts, List.mem_toFinset] using this

/-! ### the step on filtrations -/

theorem register_fields (f : FS) (c' : C) :
    (f.register c').c = c' ∧ (f.register c').index = f.index ∧
    (f.register c').births =
      f.births ++ (c'.names.filter (fun n => !f.c.contains n)).map (fun n => (n, f.index)) ∧
    (f.index ∈ f.keys → (f.register c').keys = f.keys) := by
  unfold FS.register FS.ensureKey
  simp only []
  split
  · rename_i h
    have : c'.names.filter (fun n => !f.c.contains n) = [] := by simpa using h
    refine ⟨rfl, rfl, ?_, fun _ => rfl⟩
    rw [this]; simp
  · split
    · exact ⟨rfl, rfl, rfl, fun _ => rfl⟩
    · rename_i hc
      exact ⟨rfl, rfl, rfl, fun h => absurd (by simpa using h) hc⟩

theorem addByFaces_ok {g : FS} {fs : List Name} {n : Name} {d1 : C}
    (hvis : ∀ x ∈ fs, g.c.contains x = true → g.visible x = true)
    (hadd : g.c.addSimplex fs n = .ok d1) : g.addByFaces fs (some n) = (.ok n, g.register d1) := by
  unfold FS.addByFaces
  rw [if_neg]
  · simp only [addS, hadd]
  · intro h
    obtain ⟨x, hx, hb⟩ := List.any_eq_true.mp h
    rw [Bool.and_eq_true] at hb
    have := hvis x hx hb.1
    rw [this] at hb; simp at hb

theorem eq_singleton_of_nodup {l : List Name} {a : Name} (hnd : l.Nodup) (h : ∀ x, x ∈ l ↔ x = a) :
    l = [a] := by
  have : l.Perm [a] := (List.perm_ext_iff_of_nodup hnd (List.nodup_singleton a)).mpr (by simpa using h)
  exact List.perm_singleton.mp this

/-- `g` is a partial copy of `f`: a valid filtration whose simplices are twins of simplices of `f`, born at
the same indices -/
structure Part (f g : FS) : Prop where
  finv  : FInv g
  twin  : ∀ t ∈ g.c.simps, ∃ s ∈ f.c.simps, Twin s t
  birth : ∀ n, g.c.contains n = true → g.birth? n = f.birth? n

theorem faces_pos {c : C} (hI : Inv c) {s : Simp Name} (hs : s ∈ c.simps) {x : Name} (hx : x ∈ s.faces) :
    0 < s.order := by
  rcases Nat.eq_zero_or_pos s.order with h0 | h
  · rw [(hI.point s hs h0).1] at hx; simp at hx
  · exact h

/-- one call of the replay: the simplex `s` of `f`, born at the copy's current index, all of whose faces
have been copied, is added to the copy and registered at the current index -/
theorem copyStep {f g : FS} (hF : FInv f) (hP : Part f g) (hk : g.index ∈ g.keys)
    {s : Simp Name} (hs : s ∈ f.c.simps) (hb : f.birth? s.name = some g.index)
    (hfresh : g.c.contains s.name = false) (hfaces : ∀ x ∈ s.faces, g.c.contains x = true) :
    ∃ g', g.addByFaces (f.c.facesOf s.name) (some s.name) = (.ok s.name, g') ∧ Part f g' ∧
      g'.index = g.index ∧ g'.keys = g.keys ∧ g'.c.seq = g.c.seq ∧
      ∀ n, g'.c.contains n = true ↔ (g.c.contains n = true ∨ n = s.name) := by
  rw [facesOf_of_mem hF.inv hs]
  obtain ⟨d1, t, hadd, hI1, hseq1, hsimps, htw⟩ := addSimplex_twin hF.inv hP.finv.inv hP.twin hs hfresh hfaces
  have hbD : f.birthD s.name = g.index := by unfold FS.birthD; rw [hb]; rfl
  have hvis : ∀ x ∈ s.faces, g.c.contains x = true → g.visible x = true := by
    intro x hx hc
    have hpos := faces_pos hF.inv hs hx
    obtain ⟨-, -, hfex, -⟩ := hF.inv.higher s hs hpos
    obtain ⟨u, hu, hun, -⟩ := hfex x hx
    have h1 := (hF.birth_of_mem hu).2
    rw [hun] at h1
    have h2 := hF.mono s hs x hx
    unfold FS.visible
    rw [hc, hP.birth x hc, h1]
    simp only [Bool.true_and, decide_eq_true_eq]
    omega
  have hres := addByFaces_ok hvis hadd
  obtain ⟨hc', hi', hb', hk'⟩ := register_fields g d1
  have hF' : FInv (g.register d1) := by
    have := addByFaces_FInv hP.finv s.faces (some s.name) (by rw [hres]; show Inv (g.register d1).c; rw [hc']; exact hI1)
    rwa [hres] at this
  have hmem : ∀ x, x ∈ d1.simps ↔ x = t ∨ x ∈ g.c.simps := by
    intro x; rw [hsimps]; exact mem_insertSorted
  have hnews : d1.names.filter (fun n => !g.c.contains n) = [s.name] := by
    apply eq_singleton_of_nodup (hI1.nodup.filter _)
    intro x
    rw [List.mem_filter]
    constructor
    · rintro ⟨hx, hnc⟩
      obtain ⟨y, hy, rfl⟩ := List.mem_map.mp hx
      rcases (hmem y).mp hy with rfl | hy
      · exact htw.1
      · rw [contains_iff.mpr ⟨y, hy, rfl⟩] at hnc; simp at hnc
    · rintro rfl
      exact ⟨List.mem_map.mpr ⟨t, (hmem t).mpr (Or.inl rfl), htw.1⟩, by simp [hfresh]⟩
  rw [hnews] at hb'
  have hcont : ∀ n, (g.register d1).c.contains n = true ↔ (g.c.contains n = true ∨ n = s.name) := by
    intro n
    rw [hc', contains_iff, contains_iff]
    constructor
    · rintro ⟨y, hy, rfl⟩
      rcases (hmem y).mp hy with rfl | hy
      · exact Or.inr htw.1
      · exact Or.inl ⟨y, hy, rfl⟩
    · rintro (⟨y, hy, rfl⟩ | rfl)
      · exact ⟨y, (hmem y).mpr (Or.inr hy), rfl⟩
      · exact ⟨t, (hmem t).mpr (Or.inl rfl), htw.1⟩
  refine ⟨g.register d1, hres, ⟨hF', ?_, ?_⟩, hi', hk' hk, by rw [hc']; exact hseq1, hcont⟩
  · intro t' ht'
    rw [hc'] at ht'
    rcases (hmem t').mp ht' with rfl | h
    · exact ⟨s, hs, htw⟩
    · exact hP.twin t' h
  · intro n hn
    rcases (hcont n).mp hn with h | rfl
    · have hsome : (g.birth? n).isSome = true := by
        rw [birth?_isSome_iff, hP.finv.names]
        obtain ⟨y, hy, rfl⟩ := contains_iff.mp h
        exact List.mem_map.mpr ⟨y, hy, rfl⟩
      obtain ⟨b, hbn⟩ := Option.isSome_iff_exists.mp hsome
      have h1 := (birth?_eq_some_iff hP.finv.nodup).mp hbn
      have h2 : (n, b) ∈ (g.register d1).births := by rw [hb']; exact List.mem_append_left _ h1
      rw [(birth?_eq_some_iff hF'.nodup).mpr h2, ← hbn, hP.birth n h]
    · have h2 : (s.name, g.index) ∈ (g.register d1).births := by
        rw [hb']; exact List.mem_append_right _ (by simp)
      rw [(birth?_eq_some_iff hF'.nodup).mpr h2, hb]

/-! ### the two loops -/

/-- the body of the inner loop of `copy()` -/
def cpInner (f : FS) (acc : Except Err FS) (n : Name) : Except Err FS :=
  match acc with
  | .error e => .error e
  | .ok g =>
    match (g.addByFaces (f.c.facesOf n) (some n)) with
    | (.ok _, g') => .ok g'
    | (.error e, _) => .error e

/-- the body of the outer loop of `copy()` -/
def cpOuter (f : FS) (order : List Name) (acc : Except Err FS) (ind : Int) : Except Err FS :=
  match acc with
  | .error e => .error e
  | .ok g => (order.filter (fun n => f.birth? n == some ind)).foldl (cpInner f) (.ok (g.setIndex ind))

theorem copyF_def (f : FS) (order : List Name) : f.copyF order =
    match f.indices with
    | [] => .ok (newFS f.index)
    | i0 :: _ =>
      match f.indices.foldl (cpOuter f order) (.ok (newFS i0)) with
      | .error e => .error e
      | .ok g => .ok (g.setIndex i0) := rfl

/-- the inner loop: the simplices of `f` born at the copy's current index, none of them copied yet, listed
so that no simplex comes before one of its faces, every face being either copied already or in the list -/
theorem copyInner {f : FS} (hF : FInv f) :
    ∀ (L : List Name) (g : FS), Part f g → g.index ∈ g.keys → L.Nodup →
      (∀ n ∈ L, g.c.contains n = false ∧ ∃ s ∈ f.c.simps, s.name = n ∧ f.birth? n = some g.index) →
      L.Pairwise (fun a b => b ∉ f.c.facesOf a) →
      (∀ n ∈ L, ∀ x ∈ f.c.facesOf n, g.c.contains x = true ∨ x ∈ L) →
      ∃ g', L.foldl (cpInner f) (.ok g) = .ok g' ∧ Part f g' ∧ g'.index = g.index ∧ g'.keys = g.keys ∧
        g'.c.seq = g.c.seq ∧ ∀ n, g'.c.contains n = true ↔ (g.c.contains n = true ∨ n ∈ L) := by
  intro L
  induction L with
  | nil =>
    intro g hP _ _ _ _ _
    exact ⟨g, rfl, hP, rfl, rfl, rfl, fun n => by simp⟩
  | cons n L ih =>
    intro g hP hk hnd hL hpw hfc
    obtain ⟨hfresh, s, hs, rfl, hb⟩ := hL _ List.mem_cons_self
    rw [List.nodup_cons] at hnd
    rw [List.pairwise_cons] at hpw
    have hfo := facesOf_of_mem hF.inv hs
    have hfaces : ∀ x ∈ s.faces, g.c.contains x = true := by
      intro x hx
      rcases hfc s.name List.mem_cons_self x (by rw [hfo]; exact hx) with h | h
      · exact h
      · exfalso
        rcases List.mem_cons.mp h with rfl | h
        · have hpos := faces_pos hF.inv hs hx
          obtain ⟨-, -, hfex, -⟩ := hF.inv.higher s hs hpos
          obtain ⟨u, hu, hun, huo⟩ := hfex _ hx
          have : u = s := hF.inv.name_inj hu hs hun
          subst this; omega
        · exact hpw.1 x h (by rw [hfo]; exact hx)
    obtain ⟨g1, hres, hP1, hi1, hk1, hq1, hc1⟩ := copyStep hF hP hk hs hb hfresh hfaces
    have hstep : cpInner f (.ok g) s.name = .ok g1 := by
      unfold cpInner
      simp only [hres]
    obtain ⟨g', hrun, hP', hi', hk', hq', hc'⟩ := ih g1 hP1 (by rw [hi1, hk1]; exact hk) hnd.2
      (by
        intro m hm
        obtain ⟨hmf, hmb⟩ := hL m (List.mem_cons_of_mem _ hm)
        refine ⟨?_, by rw [hi1]; exact hmb⟩
        rw [← Bool.not_eq_true, hc1 m]
        rintro (h | rfl)
        · rw [hmf] at h; cases h
        · exact hnd.1 hm)
      hpw.2
      (by
        intro m hm x hx
        rcases hfc m (List.mem_cons_of_mem _ hm) x hx with h | h
        · exact Or.inl ((hc1 x).mpr (Or.inl h))
        · rcases List.mem_cons.mp h with rfl | h
          · exact Or.inl ((hc1 _).mpr (Or.inr rfl))
          · exact Or.inr h)
    refine ⟨g', by rw [List.foldl_cons, hstep, hrun], hP', hi'.trans hi1, hk'.trans hk1, hq'.trans hq1, ?_⟩
    intro m
    rw [hc' m, hc1 m, List.mem_cons]
    tauto

/-- the outer loop: `K` = the indices visited so far, `I` = the indices still to come (ascending, all above
`K`); every simplex of `f` born at an index of `K` has been copied, and nothing else -/
theorem copyOuter {f : FS} (hF : FInv f) {order : List Name} (hnd : order.Nodup)
    (hmem : ∀ n, n ∈ order ↔ n ∈ f.c.names)
    (hord : order.Pairwise (fun a b => ¬ (b ∈ f.c.facesOf a ∧ f.birth? b = f.birth? a))) (i0 : Int) :
    ∀ (I K : List Int) (g : FS), I.Pairwise (· < ·) → (∀ k ∈ K, ∀ i ∈ I, k < i) →
      Part f g →
      (∀ n, g.c.contains n = true ↔ ∃ s ∈ f.c.simps, s.name = n ∧ f.birthD n ∈ K) →
      (∀ s ∈ f.c.simps, f.birthD s.name ∈ K ∨ f.birthD s.name ∈ I) →
      (∀ k, k ∈ g.keys ↔ k ∈ K ∨ k = i0) →
      ∃ g', I.foldl (cpOuter f order) (.ok g) = .ok g' ∧ Part f g' ∧ g'.c.seq = g.c.seq ∧
        (∀ n, g'.c.contains n = true ↔ n ∈ f.c.names) ∧
        (∀ k, k ∈ g'.keys ↔ k ∈ K ∨ k ∈ I ∨ k = i0) := by
  have hbs : ∀ s ∈ f.c.simps, f.birth? s.name = some (f.birthD s.name) := fun s hs => (hF.birth_of_mem hs).2
  intro I
  induction I with
  | nil =>
    intro K g _ _ hP hc hall hkeys
    refine ⟨g, rfl, hP, rfl, ?_, fun k => by rw [hkeys k]; simp⟩
    intro n
    rw [hc n]
    unfold Cx.names
    rw [List.mem_map]
    constructor
    · rintro ⟨s, hs, hn, -⟩; exact ⟨s, hs, hn⟩
    · rintro ⟨s, hs, rfl⟩
      rcases hall s hs with h | h
      · exact ⟨s, hs, rfl, h⟩
      · cases h
  | cons ind I ih =>
    intro K g hI hKI hP hc hall hkeys
    rw [List.pairwise_cons] at hI
    obtain ⟨e1, e2, e3, e4⟩ := setIndex_fields g ind
    have hP1 : Part f (g.setIndex ind) := by
      refine ⟨setIndex_FInv hP.finv ind, by rw [e1]; exact hP.twin, ?_⟩
      intro n hn
      rw [e1] at hn
      have := hP.birth n hn
      unfold FS.birth? at this ⊢
      rw [e2]; exact this
    have hindK : ind ∉ K := fun h => by have := hKI ind h ind List.mem_cons_self; omega
    have hLmem : ∀ n, n ∈ order.filter (fun n => f.birth? n == some ind) ↔
        ∃ s ∈ f.c.simps, s.name = n ∧ f.birthD n = ind := by
      intro n
      rw [List.mem_filter, hmem n]
      unfold Cx.names
      rw [List.mem_map]
      constructor
      · rintro ⟨⟨s, hs, rfl⟩, hb⟩
        refine ⟨s, hs, rfl, ?_⟩
        rw [hbs s hs] at hb
        simpa using hb
      · rintro ⟨s, hs, rfl, hb⟩
        exact ⟨⟨s, hs, rfl⟩, by rw [hbs s hs, hb]; simp⟩
    obtain ⟨g2, hrun, hP2, hi2, hk2, hq2, hc2⟩ := copyInner hF (order.filter (fun n => f.birth? n == some ind))
      (g.setIndex ind) hP1 (by rw [e3]; exact (e4 ind).mpr (Or.inr rfl)) (hnd.filter _)
      (by
        intro n hn
        obtain ⟨s, hs, rfl, hb⟩ := (hLmem n).mp hn
        refine ⟨?_, s, hs, rfl, by rw [e3, hbs s hs, hb]⟩
        rw [e1, ← Bool.not_eq_true, hc]
        rintro ⟨-, -, -, h⟩
        rw [hb] at h; exact hindK h)
      (by
        apply (hord.filter _).imp_of_mem
        intro a b ha hb hab hface
        apply hab
        refine ⟨hface, ?_⟩
        have h1 := (List.mem_filter.mp ha).2
        have h2 := (List.mem_filter.mp hb).2
        simp only [beq_iff_eq] at h1 h2
        rw [h1, h2])
      (by
        intro n hn x hx
        obtain ⟨s, hs, rfl, hb⟩ := (hLmem n).mp hn
        rw [facesOf_of_mem hF.inv hs] at hx
        have hpos := faces_pos hF.inv hs hx
        obtain ⟨-, -, hfex, -⟩ := hF.inv.higher s hs hpos
        obtain ⟨u, hu, rfl, -⟩ := hfex x hx
        have hle := hF.mono s hs _ hx
        rcases hall u hu with h | h
        · left; rw [e1, hc]; exact ⟨u, hu, rfl, h⟩
        · rcases List.mem_cons.mp h with h | h
          · right; exact (hLmem _).mpr ⟨u, hu, rfl, h⟩
          · exfalso
            have := hI.1 _ h
            omega)
    have hstep : cpOuter f order (.ok g) ind = .ok g2 := by
      unfold cpOuter
      exact hrun
    obtain ⟨g', hrun', hP', hq', hc', hk'⟩ := ih (K ++ [ind]) g2 hI.2
      (by
        intro k hk i hi
        rcases List.mem_append.mp hk with h | h
        · exact hKI k h i (List.mem_cons_of_mem _ hi)
        · rw [List.mem_singleton] at h; subst h; exact hI.1 i hi)
      hP2
      (by
        intro n
        rw [hc2 n, e1, hc n, hLmem n]
        constructor
        · rintro (⟨s, hs, hn, hb⟩ | ⟨s, hs, hn, hb⟩)
          · exact ⟨s, hs, hn, List.mem_append_left _ hb⟩
          · exact ⟨s, hs, hn, by rw [hb]; simp⟩
        · rintro ⟨s, hs, hn, hb⟩
          rcases List.mem_append.mp hb with h | h
          · exact Or.inl ⟨s, hs, hn, h⟩
          · exact Or.inr ⟨s, hs, hn, by simpa using h⟩)
      (by
        intro s hs
        rcases hall s hs with h | h
        · exact Or.inl (List.mem_append_left _ h)
        · rcases List.mem_cons.mp h with h | h
          · exact Or.inl (by rw [h]; simp)
          · exact Or.inr h)
      (by
        intro k
        rw [hk2, e4 k, hkeys k, List.mem_append, List.mem_singleton]
        tauto)
    refine ⟨g', by rw [List.foldl_cons, hstep, hrun'], hP', by rw [hq', hq2, e1], hc', ?_⟩
    intro k
    rw [hk' k, List.mem_append, List.mem_singleton, List.mem_cons]
    tauto

/-! ### two filtrations that are the same up to listing order -/

/-- `g` is `f` again, up to the listing order of the simplices and the order inside the stored face and basis
lists: the simplices correspond one to one as twins and are born at the same indices -/
structure SameFilt (f g : FS) : Prop where
  twinL : ∀ s ∈ f.c.simps, ∃ t ∈ g.c.simps, Twin s t
  twinR : ∀ t ∈ g.c.simps, ∃ s ∈ f.c.simps, Twin s t
  birth : ∀ n, g.birth? n = f.birth? n

theorem SameFilt.contains {f g : FS} (h : SameFilt f g) (n : Name) : g.c.contains n = f.c.contains n := by
  rw [Bool.eq_iff_iff, contains_iff, contains_iff]
  constructor
  · rintro ⟨t, ht, rfl⟩
    obtain ⟨s, hs, hst⟩ := h.twinR t ht
    exact ⟨s, hs, hst.1.symm⟩
  · rintro ⟨s, hs, rfl⟩
    obtain ⟨t, ht, hst⟩ := h.twinL s hs
    exact ⟨t, ht, hst.1⟩

theorem SameFilt.names {f g : FS} (h : SameFilt f g) (n : Name) : n ∈ g.c.names ↔ n ∈ f.c.names := by
  have := h.contains n
  rw [Bool.eq_iff_iff, contains_iff, contains_iff] at this
  unfold Cx.names
  rw [List.mem_map, List.mem_map]
  exact this

theorem visible_setIndex (f : FS) (i : Int) (n : Name) :
    (f.setIndex i).visible n =
      (f.c.contains n && match f.birth? n with | some b => decide (b ≤ i) | none => false) := by
  obtain ⟨e1, e2, e3, -⟩ := setIndex_fields f i
  unfold FS.visible FS.birth?
  rw [e1, e2, e3]
  rfl

theorem mem_visibleC_setIndex (f : FS) (i : Int) (s : Simp Name) :
    s ∈ (f.setIndex i).visibleC.simps ↔ s ∈ f.c.simps ∧ (f.setIndex i).visible s.name = true := by
  show s ∈ (f.setIndex i).c.simps.filter (fun s => (f.setIndex i).visible s.name) ↔ _
  rw [List.mem_filter, (setIndex_fields f i).1]

/-- the same queries answer the same on both: order, faces and basis of every name -/
theorem SameFilt.queries {f g : FS} (hF : FInv f) (hG : FInv g) (h : SameFilt f g) (n : Name) :
    g.c.orderOf? n = f.c.orderOf? n ∧ (∀ x, x ∈ g.c.facesOf n ↔ x ∈ f.c.facesOf n) ∧
    (∀ p, p ∈ g.c.basisOf n ↔ p ∈ f.c.basisOf n) := by
  by_cases hn : f.c.contains n = true
  · obtain ⟨s, hs, rfl⟩ := contains_iff.mp hn
    obtain ⟨t, ht, hst⟩ := h.twinL s hs
    have e1 : g.c.lookup s.name = some t := by rw [← hst.1]; exact lookup_of_mem hG.inv ht
    have e2 : f.c.lookup s.name = some s := lookup_of_mem hF.inv hs
    unfold Cx.orderOf? Cx.facesOf Cx.basisOf
    rw [e1, e2]
    exact ⟨by simp [hst.2.1], hst.2.2.1, hst.2.2.2⟩
  · have hn' : g.c.contains n = true → False := by rw [h.contains n]; exact hn
    have e1 : g.c.lookup n = none := by
      cases hl : g.c.lookup n with
      | none => rfl
      | some t => exact absurd (contains_iff.mpr ⟨t, lookup_some hl⟩) hn'
    have e2 : f.c.lookup n = none := by
      cases hl : f.c.lookup n with
      | none => rfl
      | some t => exact absurd (contains_iff.mpr ⟨t, lookup_some hl⟩) hn
    unfold Cx.orderOf? Cx.facesOf Cx.basisOf
    rw [e1, e2]
    exact ⟨rfl, fun _ => Iff.rfl, fun _ => Iff.rfl⟩

/-- **the same complex at every index**: for every index `i`, a name is visible at `i` in `g` exactly when it
is in `f`; the complexes seen at `i` correspond simplex by simplex as twins (so they have the same names and
the same family of vertex sets); and the snapshots taken at `i` compare equal -/
theorem SameFilt.at_index {f g : FS} (hF : FInv f) (hG : FInv g) (h : SameFilt f g) (i : Int) :
    (∀ n, (g.setIndex i).visible n = (f.setIndex i).visible n) ∧
    (∀ s ∈ (f.setIndex i).visibleC.simps, ∃ t ∈ (g.setIndex i).visibleC.simps, Twin s t) ∧
    (∀ t ∈ (g.setIndex i).visibleC.simps, ∃ s ∈ (f.setIndex i).visibleC.simps, Twin s t) ∧
    (g.setIndex i).visibleC.names.Perm (f.setIndex i).visibleC.names ∧
    (∀ X : Finset Name, (∃ t ∈ (g.setIndex i).visibleC.simps, t.pts = X) ↔
      ∃ s ∈ (f.setIndex i).visibleC.simps, s.pts = X) ∧
    Flat.eq (f.setIndex i).snap.2 (g.setIndex i).snap.2 = true := by
  have hvis : ∀ n, (g.setIndex i).visible n = (f.setIndex i).visible n := by
    intro n; rw [visible_setIndex, visible_setIndex, h.contains n, h.birth n]
  have hL : ∀ s ∈ (f.setIndex i).visibleC.simps, ∃ t ∈ (g.setIndex i).visibleC.simps, Twin s t := by
    intro s hs
    rw [mem_visibleC_setIndex] at hs
    obtain ⟨t, ht, hst⟩ := h.twinL s hs.1
    exact ⟨t, (mem_visibleC_setIndex g i t).mpr ⟨ht, by rw [hst.1, hvis]; exact hs.2⟩, hst⟩
  have hR : ∀ t ∈ (g.setIndex i).visibleC.simps, ∃ s ∈ (f.setIndex i).visibleC.simps, Twin s t := by
    intro t ht
    rw [mem_visibleC_setIndex] at ht
    obtain ⟨s, hs, hst⟩ := h.twinR t ht.1
    exact ⟨s, (mem_visibleC_setIndex f i s).mpr ⟨hs, by rw [← hvis, ← hst.1]; exact ht.2⟩, hst⟩
  have hIf := (visibleC_spec (setIndex_FInv hF i)).2.2.1
  have hIg := (visibleC_spec (setIndex_FInv hG i)).2.2.1
  have hperm : (g.setIndex i).visibleC.names.Perm (f.setIndex i).visibleC.names := by
    apply (List.perm_ext_iff_of_nodup hIg.nodup hIf.nodup).mpr
    intro n
    rw [List.mem_map, List.mem_map]
    constructor
    · rintro ⟨t, ht, rfl⟩
      obtain ⟨s, hs, hst⟩ := hR t ht
      exact ⟨s, hs, hst.1.symm⟩
    · rintro ⟨s, hs, rfl⟩
      obtain ⟨t, ht, hst⟩ := hL s hs
      exact ⟨t, ht, hst.1⟩
  refine ⟨hvis, hL, hR, hperm, ?_, ?_⟩
  · intro X
    constructor
    · rintro ⟨t, ht, rfl⟩
      obtain ⟨s, hs, hst⟩ := hR t ht
      exact ⟨s, hs, hst.pts.symm⟩
    · rintro ⟨s, hs, rfl⟩
      obtain ⟨t, ht, hst⟩ := hL s hs
      exact ⟨t, ht, hst.pts⟩
  · obtain ⟨a, ha, hIa, -, hTa, -⟩ := snap_spec (setIndex_FInv hF i)
    obtain ⟨b, hb, hIb, -, hTb, -⟩ := snap_spec (setIndex_FInv hG i)
    rw [ha, hb, eq_iff hIa hIb]
    constructor
    · intro a' ha'
      obtain ⟨s, hs, h1⟩ := forall₂_mem_right hTa a' ha'
      obtain ⟨t, ht, h2⟩ := hL s hs
      obtain ⟨b', hb', h3⟩ := forall₂_mem_left hTb t ht
      refine ⟨b', hb', ?_, ?_, ?_⟩
      · rw [h3.1, h2.1, h1.1]
      · rw [h3.2.1, h2.2.1, h1.2.1]
      · intro x; rw [h1.2.2.1 x, ← h2.2.2.1 x, ← h3.2.2.1 x]
    · have l1 := hTa.length_eq
      have l2 := hTb.length_eq
      have l3 := hperm.length_eq
      unfold Cx.names at l3
      rw [List.length_map, List.length_map] at l3
      omega

/-! ### the hypothesis on the replay order -/

/-- what `simplicesAddedAtIndex` guarantees is enough: if the names replayed at each index come sorted by
simplex order, then no simplex is replayed before a face born at the same index -/
theorem order_ok_of_sorted {f : FS} (hF : FInv f) {order : List Name}
    (hsub : ∀ n ∈ order, n ∈ f.c.names)
    (hs : ∀ i ∈ f.keys, (order.filter (fun n => f.birth? n == some i)).Pairwise
      (fun a b => (f.c.orderOf? a).getD 0 ≤ (f.c.orderOf? b).getD 0)) :
    order.Pairwise (fun a b => ¬ (b ∈ f.c.facesOf a ∧ f.birth? b = f.birth? a)) := by
  rw [List.pairwise_iff_forall_sublist]
  intro a b hab
  rintro ⟨hface, hbirth⟩
  have ha : a ∈ order := hab.subset (by simp)
  obtain ⟨s, hs', rfl⟩ := List.mem_map.mp (hsub a ha)
  rw [facesOf_of_mem hF.inv hs'] at hface
  have hpos := faces_pos hF.inv hs' hface
  obtain ⟨-, -, hfex, -⟩ := hF.inv.higher s hs' hpos
  obtain ⟨u, hu, rfl, huo⟩ := hfex b hface
  have hbs := (hF.birth_of_mem hs').2
  have hsub2 : [s.name, u.name] <+ order.filter (fun n => f.birth? n == some (f.birthD s.name)) := by
    have := hab.filter (fun n => f.birth? n == some (f.birthD s.name))
    rw [List.filter_cons_of_pos (by simp [hbs]), List.filter_cons_of_pos (by simp [hbirth, hbs])] at this
    simpa using this
  have := (List.pairwise_iff_forall_sublist.mp (hs (f.birthD s.name)
    (hF.keys _ (hF.birth_of_mem hs').1))) hsub2
  rw [orderOf_of_mem hF.inv hs', orderOf_of_mem hF.inv hu] at this
  simp only [Option.getD_some] at this
  omega

/-! ### `copy()` -/

theorem birth?_none_of_not_mem {f : FS} (hF : FInv f) {n : Name} (h : n ∉ f.c.names) : f.birth? n = none := by
  cases hb : f.birth? n with
  | none => rfl
  | some b =>
    have : (f.birth? n).isSome = true := by rw [hb]; rfl
    exact absurd ((hF.names n).mp (birth?_isSome_iff.mp this)) h

/-- with no index at all (every simplex was deleted) `copy()` is a new empty filtration at the current index -/
theorem copyF_empty (f : FS) (order : List Name) (h : f.keys = []) : f.copyF order = .ok (newFS f.index) := by
  have : f.indices = [] := by unfold FS.indices; rw [h]; rfl
  rw [copyF_def, this]

/-- the remaining case of `copy()`: a filtration with no index left has no simplex either, and its copy is an
empty filtration at the same current index, which is `f` again in the sense of `SameFilt` -/
theorem copyF_empty_spec {f : FS} (hF : FInv f) (h : f.keys = []) (order : List Name) :
    ∃ g, f.copyF order = .ok g ∧ FInv g ∧ SameFilt f g ∧ g.index = f.index ∧ g.c.simps = [] := by
  have hb : f.births = [] := by
    apply List.eq_nil_iff_forall_not_mem.mpr
    intro p hp
    have := hF.keys p hp
    rw [h] at this
    cases this
  have hn : f.c.simps = [] := by
    apply List.eq_nil_iff_forall_not_mem.mpr
    intro s hs
    have h1 : s.name ∈ f.c.names := List.mem_map.mpr ⟨s, hs, rfl⟩
    have h2 := (hF.names s.name).mpr h1
    rw [hb] at h2
    cases h2
  refine ⟨newFS f.index, copyF_empty f order h, newFS_FInv _, ⟨?_, ?_, ?_⟩, rfl, rfl⟩
  · intro s hs; rw [hn] at hs; cases hs
  · intro t ht; cases ht
  · intro n; simp [FS.birth?, newFS, hb]

/-- **`Filtration.copy()`**. Let `f` satisfy the invariant and have at least one index, and let `order`
enumerate the names of `f` (each once) so that no simplex comes before one of its faces born at the same index
(`order_ok_of_sorted`: true when, as `simplicesAddedAtIndex` does, the names replayed at each index come sorted
by simplex order). Then the replay never raises and the copy `g`
* satisfies the invariant, and its complex has a fresh name counter;
* is `f` again up to listing order (`SameFilt`): the simplices of `g` and of `f` correspond one to one as
  twins — same name, same order, same faces and same basis points as sets — and every name has the same birth
  index in both (`g.birth? n = f.birth? n` for every `n`);
* has exactly the existing indices of `f` — all of them are visited by the loop, also those at which nothing
  was born — so `indices()` returns the same list;
* sits at the least index. -/
theorem copyF_spec {f : FS} (hF : FInv f) (hne : f.keys ≠ []) {order : List Name}
    (hperm : order.Perm f.c.names)
    (hord : order.Pairwise (fun a b => ¬ (b ∈ f.c.facesOf a ∧ f.birth? b = f.birth? a))) :
    ∃ g, f.copyF order = .ok g ∧ FInv g ∧ SameFilt f g ∧
      g.c.names.Perm f.c.names ∧ g.c.seq = 0 ∧
      (∀ k, k ∈ g.keys ↔ k ∈ f.keys) ∧ g.indices = f.indices ∧
      g.index ∈ f.keys ∧ (∀ k ∈ f.keys, g.index ≤ k) := by
  obtain ⟨hsorted, hpermI, hmemI, hstr⟩ := indices_sorted f
  cases hl : f.indices with
  | nil => rw [hl] at hpermI; exact absurd hpermI.symm.eq_nil hne
  | cons i0 rest =>
    have hi0 : i0 ∈ f.keys := (hmemI i0).mp (by rw [hl]; exact List.mem_cons_self)
    have hmin : ∀ k ∈ f.keys, i0 ≤ k := by
      intro k hk
      have := (hmemI k).mpr hk
      rw [hl] at this hsorted
      rcases List.mem_cons.mp this with h | h
      · omega
      · exact (List.pairwise_cons.mp hsorted).1 k h
    have hP0 : Part f (newFS i0) :=
      ⟨newFS_FInv i0, fun t ht => by simp [newFS, emptyC] at ht,
        fun n hn => by simp [newFS, emptyC, Cx.contains, Cx.lookup] at hn⟩
    obtain ⟨g', hrun, hP', hq', hc', hk'⟩ := copyOuter hF (hperm.nodup_iff.mpr hF.inv.nodup)
      (fun n => hperm.mem_iff) hord i0 f.indices [] (newFS i0) (hstr hF.keysNodup)
      (fun k hk => by cases hk) hP0
      (by
        intro n
        constructor
        · intro hn; simp [newFS, emptyC, Cx.contains, Cx.lookup] at hn
        · rintro ⟨_, _, _, h⟩; cases h)
      (by
        intro s hs
        right
        exact (hmemI _).mpr (hF.keys _ (hF.birth_of_mem hs).1))
      (by intro k; simp [newFS])
    obtain ⟨e1, e2, e3, e4⟩ := setIndex_fields g' i0
    have hFg : FInv (g'.setIndex i0) := setIndex_FInv hP'.finv i0
    have hcopy : f.copyF order = .ok (g'.setIndex i0) := by
      rw [copyF_def]
      simp only [hl] at hrun ⊢
      rw [hrun]
    have hsame : SameFilt f (g'.setIndex i0) := by
      refine ⟨?_, by rw [e1]; exact hP'.twin, ?_⟩
      · intro s hs
        rw [e1]
        have : g'.c.contains s.name = true := (hc' _).mpr (List.mem_map.mpr ⟨s, hs, rfl⟩)
        obtain ⟨t, ht, htn⟩ := contains_iff.mp this
        obtain ⟨s', hs', hst⟩ := hP'.twin t ht
        have : s' = s := hF.inv.name_inj hs' hs (by rw [← hst.1, htn])
        subst this
        exact ⟨t, ht, hst⟩
      · intro n
        have hb : (g'.setIndex i0).birth? n = g'.birth? n := by unfold FS.birth?; rw [e2]
        rw [hb]
        by_cases hn : g'.c.contains n = true
        · exact hP'.birth n hn
        · have h1 : n ∉ f.c.names := fun h => hn ((hc' n).mpr h)
          have h2 : n ∉ g'.c.names := by
            intro h
            obtain ⟨t, ht, htn⟩ := List.mem_map.mp h
            exact hn (contains_iff.mpr ⟨t, ht, htn⟩)
          rw [birth?_none_of_not_mem hF h1, birth?_none_of_not_mem hP'.finv h2]
    have hkeys : ∀ k, k ∈ (g'.setIndex i0).keys ↔ k ∈ f.keys := by
      intro k
      rw [e4 k, hk' k, hmemI k]
      constructor
      · rintro ((h | h | h) | h)
        · cases h
        · exact h
        · rw [h]; exact hi0
        · rw [h]; exact hi0
      · intro h; exact Or.inl (Or.inr (Or.inl h))
    refine ⟨g'.setIndex i0, hcopy, hFg, hsame, ?_, ?_, hkeys, ?_, by rw [e3]; exact hi0,
      by rw [e3]; exact hmin⟩
    · exact (List.perm_ext_iff_of_nodup hFg.inv.nodup hF.inv.nodup).mpr hsame.names
    · rw [e1, hq']; rfl
    · have hpk : (g'.setIndex i0).keys.Perm f.keys :=
        (List.perm_ext_iff_of_nodup hFg.keysNodup hF.keysNodup).mpr hkeys
      have hpi : (g'.setIndex i0).indices.Perm f.indices :=
        ((indices_sorted _).2.1.trans hpk).trans hpermI.symm
      rw [← hl]
      exact hpi.eq_of_pairwise (fun a b _ _ h1 h2 => Int.le_antisymm h1 h2) (indices_sorted _).1 hsorted

/-- `copyF_spec` under the hypothesis in the form `simplicesAddedAtIndex` provides it: the names replayed at
each existing index come sorted by simplex order -/
theorem copyF_spec_sorted {f : FS} (hF : FInv f) (hne : f.keys ≠ []) {order : List Name}
    (hperm : order.Perm f.c.names)
    (hs : ∀ i ∈ f.keys, (order.filter (fun n => f.birth? n == some i)).Pairwise
      (fun a b => (f.c.orderOf? a).getD 0 ≤ (f.c.orderOf? b).getD 0)) :
    ∃ g, f.copyF order = .ok g ∧ FInv g ∧ SameFilt f g ∧
      g.c.names.Perm f.c.names ∧ g.c.seq = 0 ∧
      (∀ k, k ∈ g.keys ↔ k ∈ f.keys) ∧ g.indices = f.indices ∧
      g.index ∈ f.keys ∧ (∀ k ∈ f.keys, g.index ≤ k) :=
  copyF_spec hF hne hperm (order_ok_of_sorted hF (fun _ hn => hperm.subset hn) hs)

/-- **the copy shows the same complex at every index**: under the hypotheses of `copyF_spec`, for every index
`i` a name is visible at `i` in the copy exactly when it is in the original; the complexes seen at `i`
correspond simplex by simplex as twins, so they have the same names and the same family of vertex sets; every
query (`orderOf`, `faces`, `basisOf`) answers alike; and the snapshots at `i` compare equal (`==`) -/
theorem copyF_at_index {f : FS} (hF : FInv f) (hne : f.keys ≠ []) {order : List Name}
    (hperm : order.Perm f.c.names)
    (hord : order.Pairwise (fun a b => ¬ (b ∈ f.c.facesOf a ∧ f.birth? b = f.birth? a))) :
    ∃ g, f.copyF order = .ok g ∧
      (∀ n, g.c.orderOf? n = f.c.orderOf? n ∧ (∀ x, x ∈ g.c.facesOf n ↔ x ∈ f.c.facesOf n) ∧
        (∀ p, p ∈ g.c.basisOf n ↔ p ∈ f.c.basisOf n)) ∧
      ∀ i : Int,
        (∀ n, (g.setIndex i).visible n = (f.setIndex i).visible n) ∧
        (∀ s ∈ (f.setIndex i).visibleC.simps, ∃ t ∈ (g.setIndex i).visibleC.simps, Twin s t) ∧
        (∀ t ∈ (g.setIndex i).visibleC.simps, ∃ s ∈ (f.setIndex i).visibleC.simps, Twin s t) ∧
        (g.setIndex i).visibleC.names.Perm (f.setIndex i).visibleC.names ∧
        (∀ X : Finset Name, (∃ t ∈ (g.setIndex i).visibleC.simps, t.pts = X) ↔
          ∃ s ∈ (f.setIndex i).visibleC.simps, s.pts = X) ∧
        Flat.eq (f.setIndex i).snap.2 (g.setIndex i).snap.2 = true := by
  obtain ⟨g, h1, hG, hS, -⟩ := copyF_spec hF hne hperm hord
  exact ⟨g, h1, fun n => hS.queries hF hG n, fun i => hS.at_index hF hG i⟩

/-! ## non-vacuity: a filtration with four indices built out of ascending order -/

/-- the points `u1`, `u2` born at index 1, the edge `u12` at index 3; afterwards the points `u3`, `u4` and
the edge `u34` at index -1; the index 2 exists with nothing born at it; the current index is 3 -/
def fcExG : FS :=
  ((((((((((newFS 1).addByFaces [] (some (.u 1))).2.addByFaces [] (some (.u 2))).2.setIndex 3).addByFaces
    [.u 1, .u 2] (some (.u 12))).2.setIndex (-1)).addByFaces [] (some (.u 3))).2.addByFaces [] (some (.u 4))).2.addByFaces
    [.u 3, .u 4] (some (.u 34))).2.setIndex 2).setIndex 3

example : fcExG.c.names = [.u 1, .u 2, .u 3, .u 4, .u 12, .u 34] ∧
    fcExG.births = [(.u 1, 1), (.u 2, 1), (.u 12, 3), (.u 3, -1), (.u 4, -1), (.u 34, -1)] ∧
    fcExG.keys = [1, 3, -1, 2] ∧ fcExG.index = 3 ∧ fcExG.indices = [-1, 1, 2, 3] := by decide

/-- the invariant holds on the example (by the preservation theorems) -/
theorem fcExG_FInv : FInv fcExG := by
  unfold fcExG
  exact setIndex_FInv (setIndex_FInv (addByFaces_FInv_contract (addByFaces_FInv_contract
    (addByFaces_FInv_contract (setIndex_FInv (addByFaces_FInv_contract (setIndex_FInv
      (addByFaces_FInv_contract (addByFaces_FInv_contract (newFS_FInv 1) [] _ (Or.inl rfl)) [] _ (Or.inl rfl)) 3)
      [.u 1, .u 2] _ (Or.inr (by decide))) (-1)) [] _ (Or.inl rfl)) [] _ (Or.inl rfl))
    [.u 3, .u 4] _ (Or.inr (by decide))) 2) 3

-- `snap_spec`: the hypothesis holds; at index 3 everything is copied, at index 1 the late edge is not
example : FInv fcExG ∧ fcExG.snap.1 = .ok [.u 1, .u 2, .u 3, .u 4, .u 12, .u 34] ∧
    (fcExG.setIndex 1).snap.2.names = [.u 1, .u 2, .u 3, .u 4, .u 34] ∧ (fcExG.setIndex 1).snap.2.seq = 0 :=
  ⟨fcExG_FInv, by decide, by decide, by decide⟩

-- `iterate_spec`: one complex per index in ascending order, nested; the filtration is left as it was
example : fcExG.index ∈ fcExG.keys ∧ (fcExG.iterate).1.map (·.names) =
    [[.u 3, .u 4, .u 34], [.u 1, .u 2, .u 3, .u 4, .u 34], [.u 1, .u 2, .u 3, .u 4, .u 34],
      [.u 1, .u 2, .u 3, .u 4, .u 12, .u 34]] ∧
    (fcExG.iterate).2.index = 3 ∧ (fcExG.iterate).2.keys = [1, 3, -1, 2] := by decide
-- from a current index that is not an existing index the iterator creates it
example : FInv { fcExG with index := 7 } ∧ ({ fcExG with index := 7 } : FS).index ∉ ({ fcExG with index := 7 } : FS).keys ∧
    ({ fcExG with index := 7 } : FS).iterate.2.keys = [1, 3, -1, 2, 7] ∧
    ({ fcExG with index := 7 } : FS).iterate.2.index = 7 :=
  ⟨fcExG_FInv.congr rfl rfl (fun _ h => h) fcExG_FInv.keysNodup, by decide, by decide, by decide⟩

/-- a replay order in which, within each index, faces come before cofaces (the indices are interleaved: only the
relative order of the names born at the same index matters, `copy()` filters the list index by index) -/
def fcExOrder : List Name := [.u 3, .u 1, .u 4, .u 34, .u 2, .u 12]

def okOf {α : Type} : Except Err α → Option α
  | .ok a => some a
  | .error _ => none

-- `copyF_spec`: all hypotheses hold on the example …
example : FInv fcExG ∧ fcExG.keys ≠ [] ∧ fcExOrder.Perm fcExG.c.names ∧
    fcExOrder.Pairwise (fun a b => ¬ (b ∈ fcExG.c.facesOf a ∧ fcExG.birth? b = fcExG.birth? a)) :=
  ⟨fcExG_FInv, by decide, by decide, by decide⟩
-- … and also in the sorted-by-order form of `order_ok_of_sorted`
example : (∀ n ∈ fcExOrder, n ∈ fcExG.c.names) ∧
    ∀ i ∈ fcExG.keys, (fcExOrder.filter (fun n => fcExG.birth? n == some i)).Pairwise
      (fun a b => (fcExG.c.orderOf? a).getD 0 ≤ (fcExG.c.orderOf? b).getD 0) := by
  decide
example : ∃ g, fcExG.copyF fcExOrder = .ok g ∧ FInv g ∧ SameFilt fcExG g := by
  obtain ⟨g, h1, h2, h3, -⟩ := copyF_spec (order := fcExOrder) fcExG_FInv (by decide) (by decide) (by decide)
  exact ⟨g, h1, h2, h3⟩
-- the copy: same births and indices, listing order by replay (not the original one), at the least index
example : (okOf (fcExG.copyF fcExOrder)).map (fun g => (g.c.names, g.births, g.keys, g.index)) =
    some ([.u 3, .u 4, .u 1, .u 2, .u 34, .u 12],
      [(.u 3, -1), (.u 4, -1), (.u 34, -1), (.u 1, 1), (.u 2, 1), (.u 12, 3)], [-1, 1, 2, 3], -1) := by
  decide
-- an order that lists the edge before its endpoints (born at the same index) is outside the hypothesis, and raises
example : (okOf (fcExG.copyF [.u 34, .u 3, .u 4, .u 1, .u 2, .u 12])).isNone = true := by decide

end Flat
