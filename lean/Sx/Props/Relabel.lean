import Sx.Model
import Sx.Proofs.FlatAdd
import Sx.Proofs.FlatRelabel
import Mathlib.Tactic.SplitIfs
import Mathlib.Data.List.Basic
import Mathlib.Data.List.Induction

/-! # C15 / C01 — relabelling

`relabel(rename)` (base.py) computes the dict of changed names, validates it, and then renames the
simplices *one at a time* with `relabelSimplex`. The model (`Flat.relabel`, `Sx/Model/Ops.lean`) does the
same: a `foldl` of `Cx.relabelSimplex` over the mapping. The theorems below say that this sequential fold
is the *simultaneous* renaming `Cx.map ρ` (every simplex keeps its order and its listing position; faces
and bases are carried along), that the invariant is preserved, exactly when the call is accepted, and that
`relabelDisjointFrom` always succeeds and produces a complex sharing no name with the other one, changing
only the shared names. -/
namespace Flat

/-! ## small facts about names, `Cx.map` and `renameOf` -/

theorem contains_iff_names {c : C} {n : Name} : c.contains n = true ↔ n ∈ c.names := by
  rw [contains_iff]; simp [Cx.names, List.mem_map]

theorem contains_false_iff_names {c : C} {n : Name} : c.contains n = false ↔ n ∉ c.names := by
  rw [← contains_iff_names]; simp

theorem Cx.map_names (c : C) (f : Name → Name) : (c.map f).names = c.names.map f := by
  simp [Cx.map, Cx.names, Simp.map, List.map_map, Function.comp_def]

theorem Cx.map_seq (c : C) (f : Name → Name) : (c.map f).seq = c.seq := rfl

theorem Simp.map_map (f g : Name → Name) (s : Simp Name) :
    Simp.map g (Simp.map f s) = Simp.map (fun n => g (f n)) s := by
  simp [Simp.map, List.map_map, Function.comp_def]

theorem Cx.map_map (c : C) (f g : Name → Name) : (c.map f).map g = c.map (fun n => g (f n)) := by
  simp [Cx.map, List.map_map, Function.comp_def, Simp.map_map]

theorem Cx.map_id (c : C) : c.map (fun n => n) = c := by
  cases c with
  | mk simps seq =>
    have : Simp.map (fun n : Name => n) = id := by
      funext s; cases s; simp [Simp.map]
    simp [Cx.map, this]

/-- two renamings that agree on every name occurring in the complex give the same complex -/
theorem Cx.map_congr {c : C} (hI : Inv c) {f g : Name → Name} (h : ∀ n ∈ c.names, f n = g n) :
    c.map f = c.map g := by
  have : ∀ s ∈ c.simps, Simp.map f s = Simp.map g s := by
    intro s hs
    obtain ⟨hf, hb⟩ := hI.faces_are_names hs
    have h1 : f s.name = g s.name := h _ (List.mem_map.mpr ⟨s, hs, rfl⟩)
    have h2 : s.faces.map f = s.faces.map g := by
      apply List.map_congr_left
      intro a ha; obtain ⟨t, ht, hn⟩ := hf a ha
      exact h _ (List.mem_map.mpr ⟨t, ht, hn⟩)
    have h3 : s.basis.map f = s.basis.map g := by
      apply List.map_congr_left
      intro a ha; obtain ⟨t, ht, hn⟩ := hb a ha
      exact h _ (List.mem_map.mpr ⟨t, ht, hn⟩)
    simp [Simp.map, h1, h2, h3]
  simp only [Cx.map]
  rw [List.map_congr_left this]

theorem renameOf_cons (s q : Name) (rest : List (Name × Name)) (n : Name) :
    renameOf ((s, q) :: rest) n = if n = s then q else renameOf rest n := by
  unfold renameOf
  simp only [List.find?_cons]
  by_cases h : n = s
  · subst h; simp
  · have : (s == n) = false := by simpa using fun e => h e.symm
    simp [this, h]

theorem renameOf_not_source {m : List (Name × Name)} {n : Name} (h : n ∉ m.map (·.1)) :
    renameOf m n = n := by
  induction m with
  | nil => rfl
  | cons p rest ih =>
    obtain ⟨s, q⟩ := p
    simp only [List.map_cons, List.mem_cons, not_or] at h
    rw [renameOf_cons, if_neg h.1, ih h.2]

/-- either `n` is not a key of the dict and stays, or the dict has the entry `(n, renameOf m n)` -/
theorem renameOf_cases (m : List (Name × Name)) (n : Name) :
    (n ∉ m.map (·.1) ∧ renameOf m n = n) ∨ (n, renameOf m n) ∈ m := by
  induction m with
  | nil => left; exact ⟨by simp, rfl⟩
  | cons p rest ih =>
    obtain ⟨s, q⟩ := p
    rw [renameOf_cons]
    by_cases h : n = s
    · subst h; right; simp
    · rw [if_neg h]
      rcases ih with ⟨h1, h2⟩ | h1
      · left; exact ⟨by simpa [h] using h1, h2⟩
      · right; exact List.mem_cons_of_mem _ h1

/-- with distinct keys, `renameOf` returns the value of the (unique) entry -/
theorem renameOf_of_mem {m : List (Name × Name)} (hnd : (m.map (·.1)).Nodup) {s q : Name}
    (h : (s, q) ∈ m) : renameOf m s = q := by
  induction m with
  | nil => cases h
  | cons p rest ih =>
    obtain ⟨s', q'⟩ := p
    rw [renameOf_cons]
    simp only [List.map_cons, List.nodup_cons] at hnd
    rcases List.mem_cons.mp h with e | hr
    · injection e with e1 e2; subst e1; subst e2; simp
    · have : s ≠ s' := by
        intro e; subst e
        exact hnd.1 (List.mem_map.mpr ⟨(s, q), hr, rfl⟩)
      rw [if_neg this]; exact ih hnd.2 hr

/-! ## concrete valid complexes used by the `example`s below -/

theorem rel_inv_emptyC : Inv emptyC :=
  ⟨List.Pairwise.nil, List.nodup_nil, by simp [emptyC], by simp [emptyC], by simp [emptyC]⟩

/-- points `u1`, `u2` and the edge `u3` on them -/
def chainC : C :=
  { simps := [⟨.u 1, 0, [], [.u 1]⟩, ⟨.u 2, 0, [], [.u 2]⟩, ⟨.u 3, 1, [.u 1, .u 2], [.u 1, .u 2]⟩], seq := 0 }

theorem inv_chainC : Inv chainC := by
  have h1 : Inv ({ simps := [⟨.u 1, 0, [], [.u 1]⟩], seq := 0 } : C) :=
    addSimplex_ok_inv (fs := []) (id := .u 1) rel_inv_emptyC (Or.inl rfl) rfl
  have h2 : Inv ({ simps := [⟨.u 1, 0, [], [.u 1]⟩, ⟨.u 2, 0, [], [.u 2]⟩], seq := 0 } : C) :=
    addSimplex_ok_inv (fs := []) (id := .u 2) h1 (Or.inl rfl) rfl
  exact addSimplex_ok_inv (fs := [.u 1, .u 2]) (id := .u 3) h2 (Or.inr rfl) rfl

/-- a second complex sharing the point `u2` and the edge name `u3` with `chainC`; it also already uses the
first candidate name `u2->0d1`, so the search has to move on to `u2->0d2` -/
def otherC : C :=
  { simps := [⟨.u 2, 0, [], [.u 2]⟩, ⟨.arrow (.u 2) 0 1, 0, [], [.arrow (.u 2) 0 1]⟩,
              ⟨.u 3, 1, [.u 2, .arrow (.u 2) 0 1], [.u 2, .arrow (.u 2) 0 1]⟩], seq := 0 }

theorem inv_otherC : Inv otherC := by
  have h1 : Inv ({ simps := [⟨.u 2, 0, [], [.u 2]⟩], seq := 0 } : C) :=
    addSimplex_ok_inv (fs := []) (id := .u 2) rel_inv_emptyC (Or.inl rfl) rfl
  have h2 : Inv ({ simps := [⟨.u 2, 0, [], [.u 2]⟩,
      ⟨.arrow (.u 2) 0 1, 0, [], [.arrow (.u 2) 0 1]⟩], seq := 0 } : C) :=
    addSimplex_ok_inv (fs := []) (id := .arrow (.u 2) 0 1) h1 (Or.inl rfl) rfl
  exact addSimplex_ok_inv (fs := [.u 2, .arrow (.u 2) 0 1]) (id := .u 3) h2 (Or.inr rfl) rfl

/-! ## the sequential fold is the simultaneous renaming -/

/-- **renaming one simplex at a time = renaming all at once**, when the old names are distinct names of
the complex and the new names are distinct and not names of the complex -/
theorem fold_relabel_eq_map : ∀ (m : List (Name × Name)) (c : C),
    (∀ p ∈ m, p.1 ∈ c.names) → (∀ p ∈ m, p.2 ∉ c.names) →
    (m.map (·.1)).Nodup → (m.map (·.2)).Nodup →
    m.foldl (fun c p => (c.relabelSimplex p.1 p.2).getD c) c = c.map (renameOf m) := by
  intro m
  induction m with
  | nil =>
    intro c _ _ _ _
    have : renameOf [] = fun n => n := rfl
    rw [this, Cx.map_id]; rfl
  | cons p rest ih =>
    intro c hsrc htgt hnd1 hnd2
    obtain ⟨s, q⟩ := p
    simp only [List.map_cons, List.nodup_cons] at hnd1 hnd2
    have hs : s ∈ c.names := hsrc (s, q) (List.mem_cons_self ..)
    have hq : q ∉ c.names := htgt (s, q) (List.mem_cons_self ..)
    have hstep : c.relabelSimplex s q = some (c.map (fun n => if n = s then q else n)) := by
      unfold Cx.relabelSimplex
      rw [if_neg (by rw [contains_iff_names]; exact hq)]
      rw [if_neg (by simp [contains_iff_names.mpr hs])]
    rw [List.foldl_cons]
    simp only [hstep, Option.getD_some]
    rw [ih]
    · rw [Cx.map_map]
      congr 1
      funext n
      rw [renameOf_cons]
      by_cases hn : n = s
      · rw [if_pos hn, if_pos hn]
        apply renameOf_not_source
        intro hmem
        obtain ⟨p, hp, hp1⟩ := List.mem_map.mp hmem
        exact hq (hp1 ▸ hsrc p (List.mem_cons_of_mem _ hp))
      · rw [if_neg hn, if_neg hn]
    · intro p hp
      rw [Cx.map_names]
      have h1 : p.1 ∈ c.names := hsrc p (List.mem_cons_of_mem _ hp)
      have h2 : p.1 ≠ s := fun e => hnd1.1 (List.mem_map.mpr ⟨p, hp, e⟩)
      exact List.mem_map.mpr ⟨p.1, h1, by simp [h2]⟩
    · intro p hp
      rw [Cx.map_names]
      intro hmem
      obtain ⟨n, hn, he⟩ := List.mem_map.mp hmem
      by_cases hns : n = s
      · rw [if_pos hns] at he
        exact hnd2.1 (List.mem_map.mpr ⟨p, hp, he.symm⟩)
      · rw [if_neg hns] at he
        exact htgt p (List.mem_cons_of_mem _ hp) (he ▸ hn)
    · exact hnd1.2
    · exact hnd2.2

/-! ## the mapping computed by `relabel` -/

/-- the dict built by the first loop of `relabel`: `(s, ρ s)` for the names with `ρ s ≠ s`, in listing order -/
def relabelMapping (c : C) (ρ : Name → Name) : List (Name × Name) :=
  c.names.filterMap (fun s => if ρ s = s then none else some (s, ρ s))

theorem filterMap_changed (ρ : Name → Name) (l : List Name) :
    l.filterMap (fun s => if ρ s = s then none else some (s, ρ s))
      = (l.filter (fun s => decide (ρ s ≠ s))).map (fun s => (s, ρ s)) := by
  induction l with
  | nil => rfl
  | cons a l ih =>
    by_cases h : ρ a = a
    · simp [h, ih]
    · simp [h, ih]

theorem relabelMapping_eq (c : C) (ρ : Name → Name) :
    relabelMapping c ρ = (c.names.filter (fun s => decide (ρ s ≠ s))).map (fun s => (s, ρ s)) :=
  filterMap_changed ρ c.names

theorem mem_relabelMapping {c : C} {ρ : Name → Name} {p : Name × Name} :
    p ∈ relabelMapping c ρ ↔ p.1 ∈ c.names ∧ ρ p.1 ≠ p.1 ∧ p.2 = ρ p.1 := by
  rw [relabelMapping_eq]
  simp only [List.mem_map, List.mem_filter, decide_eq_true_eq]
  constructor
  · rintro ⟨s, ⟨h1, h2⟩, rfl⟩; exact ⟨h1, h2, rfl⟩
  · rintro ⟨h1, h2, h3⟩; exact ⟨p.1, ⟨h1, h2⟩, by rw [← h3]⟩

theorem relabelMapping_sources (c : C) (ρ : Name → Name) :
    (relabelMapping c ρ).map (·.1) = c.names.filter (fun s => decide (ρ s ≠ s)) := by
  rw [relabelMapping_eq, List.map_map]
  simp [Function.comp_def]

theorem relabelMapping_targets (c : C) (ρ : Name → Name) :
    (relabelMapping c ρ).map (·.2) = (c.names.filter (fun s => decide (ρ s ≠ s))).map ρ := by
  rw [relabelMapping_eq, List.map_map]
  simp [Function.comp_def]

/-- the dict, read back as a function, is `ρ` on the names of the complex (and the identity elsewhere) -/
theorem renameOf_relabelMapping (c : C) (ρ : Name → Name) (n : Name) :
    renameOf (relabelMapping c ρ) n = if n ∈ c.names then ρ n else n := by
  rcases renameOf_cases (relabelMapping c ρ) n with ⟨h1, h2⟩ | h
  · rw [h2]
    split_ifs with hn
    · by_contra hne
      apply h1
      rw [relabelMapping_sources]
      exact List.mem_filter.mpr ⟨hn, by simpa using fun e => hne e.symm⟩
    · rfl
  · obtain ⟨h1, -, h3⟩ := mem_relabelMapping.mp h
    rw [if_pos h1]; exact h3

/-- `relabel`, with the dict named -/
theorem relabel_eq (c : C) (ρ : Name → Name) :
    relabel c ρ =
      if ((relabelMapping c ρ).map (·.2)).any c.contains then (.error .value, c) else
      if ¬ ((relabelMapping c ρ).map (·.2)).Nodup then (.error .value, c) else
      (.ok (relabelMapping c ρ),
        (relabelMapping c ρ).foldl (fun c p => (c.relabelSimplex p.1 p.2).getD c) c) := rfl

/-- the code's acceptance condition: the new names are not names of the complex (not even names that are
themselves renamed away), and no two simplices get the same new name -/
def RelabelOK (c : C) (ρ : Name → Name) : Prop :=
  (∀ s ∈ c.names, ρ s ≠ s → ρ s ∉ c.names) ∧
  (∀ s ∈ c.names, ∀ t ∈ c.names, ρ s ≠ s → ρ t ≠ t → ρ s = ρ t → s = t)

theorem targets_any_iff (c : C) (ρ : Name → Name) :
    ((relabelMapping c ρ).map (·.2)).any c.contains = true ↔ ∃ s ∈ c.names, ρ s ≠ s ∧ ρ s ∈ c.names := by
  rw [relabelMapping_targets]
  simp only [List.any_eq_true, List.mem_map, List.mem_filter, decide_eq_true_eq, contains_iff_names]
  constructor
  · rintro ⟨q, ⟨s, ⟨h1, h2⟩, rfl⟩, h3⟩; exact ⟨s, h1, h2, h3⟩
  · rintro ⟨s, h1, h2, h3⟩; exact ⟨ρ s, ⟨s, ⟨h1, h2⟩, rfl⟩, h3⟩

theorem targets_nodup_iff {c : C} (hnd : c.names.Nodup) (ρ : Name → Name) :
    ((relabelMapping c ρ).map (·.2)).Nodup ↔
      ∀ s ∈ c.names, ∀ t ∈ c.names, ρ s ≠ s → ρ t ≠ t → ρ s = ρ t → s = t := by
  rw [relabelMapping_targets]
  have hf : (c.names.filter (fun s => decide (ρ s ≠ s))).Nodup := hnd.filter _
  constructor
  · intro h s hs t ht h1 h2 he
    exact List.inj_on_of_nodup_map h (List.mem_filter.mpr ⟨hs, by simpa using h1⟩)
      (List.mem_filter.mpr ⟨ht, by simpa using h2⟩) he
  · intro h
    apply List.Nodup.map_on _ hf
    intro a ha b hb he
    simp only [List.mem_filter, decide_eq_true_eq] at ha hb
    exact h a ha.1 b hb.1 ha.2 hb.2 he

theorem Inv.names_nodup {c : C} (hI : Inv c) : c.names.Nodup := hI.nodup

theorem relabel_ok_iff_aux {c : C} (hI : Inv c) (ρ : Name → Name) :
    ((∃ m c', relabel c ρ = (.ok m, c')) ↔ RelabelOK c ρ) ∧
    (¬ RelabelOK c ρ → relabel c ρ = (.error .value, c)) := by
  have key : RelabelOK c ρ ↔ (¬ ((relabelMapping c ρ).map (·.2)).any c.contains = true
      ∧ ((relabelMapping c ρ).map (·.2)).Nodup) := by
    rw [targets_any_iff, targets_nodup_iff hI.names_nodup]
    unfold RelabelOK
    constructor
    · rintro ⟨h1, h2⟩; exact ⟨fun ⟨s, hs, a, b⟩ => h1 s hs a b, h2⟩
    · rintro ⟨h1, h2⟩; exact ⟨fun s hs a b => h1 ⟨s, hs, a, b⟩, h2⟩
  by_cases h1 : ((relabelMapping c ρ).map (·.2)).any c.contains = true
  · have hr : relabel c ρ = (.error .value, c) := by rw [relabel_eq, if_pos h1]
    have hno : ¬ RelabelOK c ρ := fun hk => (key.mp hk).1 h1
    refine ⟨⟨?_, fun hk => absurd hk hno⟩, fun _ => hr⟩
    rintro ⟨m, c', h⟩; rw [hr] at h; cases h
  · by_cases h2 : ((relabelMapping c ρ).map (·.2)).Nodup
    · have hr : relabel c ρ = (.ok (relabelMapping c ρ),
          (relabelMapping c ρ).foldl (fun c p => (c.relabelSimplex p.1 p.2).getD c) c) := by
        rw [relabel_eq, if_neg h1, if_neg (not_not.mpr h2)]
      have hyes : RelabelOK c ρ := key.mpr ⟨h1, h2⟩
      exact ⟨⟨fun _ => hyes, fun _ => ⟨_, _, hr⟩⟩, fun hno => absurd hyes hno⟩
    · have hr : relabel c ρ = (.error .value, c) := by rw [relabel_eq, if_neg h1, if_pos h2]
      have hno : ¬ RelabelOK c ρ := fun hk => h2 (key.mp hk).2
      refine ⟨⟨?_, fun hk => absurd hk hno⟩, fun _ => hr⟩
      rintro ⟨m, c', h⟩; rw [hr] at h; cases h

/-- **(2) `relabel` succeeds iff the new names are pairwise distinct and none is a name of the complex** -/
theorem relabel_ok_iff {c : C} (hI : Inv c) (ρ : Name → Name) :
    (∃ m c', relabel c ρ = (.ok m, c')) ↔ RelabelOK c ρ := (relabel_ok_iff_aux hI ρ).1

/-- otherwise it raises `ValueError` and leaves the complex (structure and name counter) as it was -/
theorem relabel_rejected {c : C} (hI : Inv c) (ρ : Name → Name) (h : ¬ RelabelOK c ρ) :
    relabel c ρ = (.error .value, c) := (relabel_ok_iff_aux hI ρ).2 h

/-- the dict `{u1: u2, u2: u9}` -/
def chainρ : Name → Name := renameOf [(.u 1, .u 2), (.u 2, .u 9)]

/-- **the code is stricter than property C15.** On the edge `u3 = {u1, u2}` the renaming `{u1 ↦ u2, u2 ↦ u9}`
is injective on the names of the complex, its new names `u2, u9` avoid the only name that stays (`u3`), and the
simultaneous renaming is a valid complex - yet `relabel` rejects it with `ValueError` (the new name `u2` is
still in the complex when the check runs), leaving the complex untouched. -/
theorem relabel_chain_rejected :
    (∀ s ∈ chainC.names, ∀ t ∈ chainC.names, chainρ s = chainρ t → s = t)
    ∧ (∀ s ∈ chainC.names, chainρ s ≠ s → ∀ t ∈ chainC.names, chainρ t = t → chainρ s ≠ t)
    ∧ Inv (chainC.map chainρ)
    ∧ (relabel chainC chainρ).1 = .error .value
    ∧ (relabel chainC chainρ).2.simps = chainC.simps
    ∧ (relabel chainC chainρ).2.seq = chainC.seq
    ∧ ¬ RelabelOK chainC chainρ := by
  have hinj : ∀ s ∈ chainC.names, ∀ t ∈ chainC.names, chainρ s = chainρ t → s = t := by decide
  refine ⟨hinj, by decide, ?_, rfl, rfl, rfl, ?_⟩
  · apply inv_chainC.map
    intro s hs t ht
    exact hinj _ (List.mem_map.mpr ⟨s, hs, rfl⟩) _ (List.mem_map.mpr ⟨t, ht, rfl⟩)
  · intro h
    exact h.1 (.u 1) (by decide) (by decide) (by decide)

/-- what an accepted `relabel` returns -/
theorem relabel_of_ok {c : C} (hI : Inv c) {ρ : Name → Name} (hok : RelabelOK c ρ) :
    relabel c ρ = (.ok (relabelMapping c ρ),
      (relabelMapping c ρ).foldl (fun c p => (c.relabelSimplex p.1 p.2).getD c) c)
    ∧ ((relabelMapping c ρ).map (·.2)).Nodup := by
  have h2 : ((relabelMapping c ρ).map (·.2)).Nodup :=
    (targets_nodup_iff hI.names_nodup ρ).mpr hok.2
  have h1 : ¬ ((relabelMapping c ρ).map (·.2)).any c.contains = true := by
    rw [targets_any_iff]; rintro ⟨s, hs, a, b⟩; exact hok.1 s hs a b
  exact ⟨by rw [relabel_eq, if_neg h1, if_neg (not_not.mpr h2)], h2⟩

/-- **(1) the sequential renaming is the simultaneous one.** If `relabel c ρ` returns `mapping` and the new
complex `c'` then: `mapping` lists the pairs `(s, ρ s)` for the names `s` of `c`, in listing order, with
`ρ s ≠ s`; read as a function it agrees with `ρ` on the names of `c`; `c'` is `c` with every name - simplex
names, face lists, bases - replaced through it, position by position (so orders and listing positions are
kept); the name counter is untouched; and `c'` satisfies the invariant. -/
theorem relabel_spec {c c' : C} (hI : Inv c) (ρ : Name → Name) {mapping : List (Name × Name)}
    (h : relabel c ρ = (.ok mapping, c')) :
    mapping = (c.names.filter (fun s => decide (ρ s ≠ s))).map (fun s => (s, ρ s))
    ∧ (∀ n ∈ c.names, renameOf mapping n = ρ n)
    ∧ c'.simps = (c.map (renameOf mapping)).simps
    ∧ c'.simps = (c.map ρ).simps
    ∧ c'.seq = c.seq
    ∧ Inv c' := by
  obtain ⟨hok1, hok2⟩ := (relabel_ok_iff hI ρ).mp ⟨_, _, h⟩
  obtain ⟨hr, h2⟩ := relabel_of_ok hI ⟨hok1, hok2⟩
  rw [hr] at h
  injection h with hm hc
  injection hm with hm
  subst hm
  have hagree : ∀ n ∈ c.names, renameOf (relabelMapping c ρ) n = ρ n := by
    intro n hn; rw [renameOf_relabelMapping, if_pos hn]
  have hsrc_nd : ((relabelMapping c ρ).map (·.1)).Nodup := by
    rw [relabelMapping_sources]; exact hI.names_nodup.filter _
  have hfold := fold_relabel_eq_map (relabelMapping c ρ) c
    (fun p hp => (mem_relabelMapping.mp hp).1)
    (fun p hp => by
      obtain ⟨a, b, e⟩ := mem_relabelMapping.mp hp
      rw [e]; exact hok1 _ a b)
    hsrc_nd h2
  rw [hfold] at hc
  have hcongr : c.map (renameOf (relabelMapping c ρ)) = c.map ρ := Cx.map_congr hI hagree
  refine ⟨relabelMapping_eq c ρ, hagree, by rw [← hc], by rw [← hc, hcongr], by rw [← hc]; rfl, ?_⟩
  rw [← hc, hcongr]
  apply hI.map
  intro s hs t ht he
  have hsn : s.name ∈ c.names := List.mem_map.mpr ⟨s, hs, rfl⟩
  have htn : t.name ∈ c.names := List.mem_map.mpr ⟨t, ht, rfl⟩
  by_cases a : ρ s.name = s.name <;> by_cases b : ρ t.name = t.name
  · rw [← a, ← b, he]
  · exact absurd (by rw [← he, a]; exact hsn) (hok1 _ htn b)
  · exact absurd (by rw [he, b]; exact htn) (hok1 _ hsn a)
  · exact hok2 _ hsn _ htn a b he

/-- the same, position by position: the `i`-th simplex of the result is the `i`-th simplex of `c` with its
name, faces and basis renamed and its order kept -/
theorem relabel_spec_pos {c c' : C} (hI : Inv c) (ρ : Name → Name) {mapping : List (Name × Name)}
    (h : relabel c ρ = (.ok mapping, c')) :
    c'.simps.length = c.simps.length ∧
    ∀ (i : Nat) (h1 : i < c.simps.length) (h2 : i < c'.simps.length),
      c'.simps[i].name = ρ c.simps[i].name ∧ c'.simps[i].order = c.simps[i].order ∧
      c'.simps[i].faces = c.simps[i].faces.map ρ ∧ c'.simps[i].basis = c.simps[i].basis.map ρ := by
  obtain ⟨-, -, -, hs, -, -⟩ := relabel_spec hI ρ h
  constructor
  · rw [hs]; simp [Cx.map]
  · intro i h1 h2
    have : c'.simps[i] = Simp.map ρ c.simps[i] := by
      simp [hs, Cx.map]
    rw [this]; exact ⟨rfl, rfl, rfl, rfl⟩

/-- a renaming accepted on the same complex (`relabel_spec`, `relabel_ok_iff` are not vacuous): rename the
point `u1` to `u7` and the edge to `u8` -/
example : Inv chainC ∧ RelabelOK chainC (renameOf [(.u 1, .u 7), (.u 3, .u 8)])
    ∧ (relabel chainC (renameOf [(.u 1, .u 7), (.u 3, .u 8)])).1 = .ok [(.u 1, .u 7), (.u 3, .u 8)]
    ∧ (relabel chainC (renameOf [(.u 1, .u 7), (.u 3, .u 8)])).2.simps
        = [⟨.u 7, 0, [], [.u 7]⟩, ⟨.u 2, 0, [], [.u 2]⟩, ⟨.u 8, 1, [.u 7, .u 2], [.u 7, .u 2]⟩] :=
  ⟨inv_chainC, by constructor <;> decide, rfl, rfl⟩

/-! ## `_createDisjointRenaming`: the search for a fresh name terminates within the fuel -/

/-- how many names of the form `s->{k}d{j'}` with `j' ≥ j` occur in `L` -/
def arrowsFrom (L : List Name) (s : Name) (k j : Nat) : Nat :=
  (L.filter (fun n => match n with
    | .arrow b k' j' => b == s && k' == k && decide (j ≤ j')
    | _ => false)).length

theorem arrowsFrom_le (L : List Name) (s : Name) (k j : Nat) : arrowsFrom L s k j ≤ L.length :=
  List.length_filter_le _ _

theorem arrowsFrom_succ {L : List Name} {s : Name} {k j : Nat} (h : Name.arrow s k j ∈ L) :
    arrowsFrom L s k (j + 1) + 1 ≤ arrowsFrom L s k j := by
  unfold arrowsFrom
  set p1 : Name → Bool := fun n => match n with
    | .arrow b k' j' => b == s && k' == k && decide (j + 1 ≤ j')
    | _ => false
  set p0 : Name → Bool := fun n => match n with
    | .arrow b k' j' => b == s && k' == k && decide (j ≤ j')
    | _ => false
  have himp : ∀ x, p1 x = true → p0 x = true := by
    intro x hx
    simp only [p1, p0] at hx ⊢
    split at hx <;> simp_all
    omega
  have hs0 : p0 (.arrow s k j) = true := by simp [p0]
  have hs1 : p1 (.arrow s k j) = false := by simp [p1]
  have e : L.filter p1 = (L.filter p0).filter p1 := by
    rw [List.filter_filter]
    apply List.filter_congr
    intro x _
    by_cases hx : p1 x = true
    · simp [hx, himp x hx]
    · simp [hx]
  rw [e]
  have hmem : Name.arrow s k j ∈ L.filter p0 := List.mem_filter.mpr ⟨h, hs0⟩
  have hlt : ((L.filter p0).filter p1).length < (L.filter p0).length := by
    apply List.length_filter_lt_length_iff_exists.mpr
    exact ⟨_, hmem, by simp [hs1]⟩
  omega

/-- the loop test of `_createDisjointRenaming`, as list membership -/
theorem blocked_iff (self other : C) (used : List Name) (q : Name) :
    (self.contains q || other.contains q || used.contains q) = true
      ↔ q ∈ self.names ++ other.names ++ used := by
  simp only [Bool.or_eq_true, contains_iff_names, List.contains_iff_mem, List.mem_append]

/-- **fuel sufficiency**: with more fuel than blocked candidates the search returns the *first* `j' ≥ j`
whose name `s->{k}d{j'}` is in neither complex and not yet chosen -/
theorem freshArrow_spec (self other : C) (used : List Name) (s : Name) (k : Nat) :
    ∀ (fuel j : Nat), arrowsFrom (self.names ++ other.names ++ used) s k j < fuel →
      ∃ j', j ≤ j' ∧ freshArrow self other used s k fuel j = .arrow s k j' ∧
        Name.arrow s k j' ∉ self.names ++ other.names ++ used ∧
        ∀ i, j ≤ i → i < j' → Name.arrow s k i ∈ self.names ++ other.names ++ used := by
  intro fuel
  induction fuel with
  | zero => intro j h; omega
  | succ fuel ih =>
    intro j h
    unfold freshArrow
    by_cases hb : (self.contains (.arrow s k j) || other.contains (.arrow s k j)
        || used.contains (.arrow s k j)) = true
    · simp only [hb, if_true]
      have hmem := (blocked_iff self other used _).mp hb
      have := arrowsFrom_succ hmem
      obtain ⟨j', h1, h2, h3, h4⟩ := ih (j + 1) (by omega)
      refine ⟨j', by omega, h2, h3, ?_⟩
      intro i hi1 hi2
      by_cases e : i = j
      · subst e; exact hmem
      · exact h4 i (by omega) hi2
    · simp only [hb]
      refine ⟨j, Nat.le_refl _, rfl, ?_, ?_⟩
      · rw [← blocked_iff]; exact hb
      · intro i hi1 hi2; omega

/-- the fuel the model passes to `freshArrow` is enough -/
theorem freshArrow_fuel (self other : C) (ren : List (Name × Name)) (s : Name) (k : Nat) :
    arrowsFrom (self.names ++ other.names ++ ren.map (·.2)) s k 1
      < self.simps.length + other.simps.length + ren.length + 1 := by
  have h1 := arrowsFrom_le (self.names ++ other.names ++ ren.map (·.2)) s k 1
  have h2 : (self.names ++ other.names ++ ren.map (·.2)).length
      = self.simps.length + other.simps.length + ren.length := by
    simp [Cx.names]; omega
  omega

/-! ## `_createDisjointRenaming` -/

/-- one iteration of the loop over the simplices of `other` -/
def drStep (self other : C) (ren : List (Name × Name)) (s : Simp Name) : List (Name × Name) :=
  if self.contains s.name then
    ren ++ [(s.name, freshArrow self other (ren.map (·.2)) s.name s.order
              (self.simps.length + other.simps.length + ren.length + 1) 1)]
  else ren

theorem disjointRenaming_eq (self other : C) :
    disjointRenaming self other = other.simps.foldl (drStep self other) [] := rfl

/-- the loop invariant of `_createDisjointRenaming` after the simplices `l` of `other` -/
structure DRGood (slf oth : C) (l : List (Simp Name)) (ren : List (Name × Name)) : Prop where
  sources : ren.map (·.1) = (l.map (·.name)).filter slf.contains
  entry : ∀ p ∈ ren, ∃ t ∈ l, t.name = p.1 ∧ ∃ j, 1 ≤ j ∧ p.2 = .arrow p.1 t.order j ∧
      p.2 ∉ slf.names ∧ p.2 ∉ oth.names ∧
      ∀ i, 1 ≤ i → i < j → Name.arrow p.1 t.order i ∈ slf.names ∨ Name.arrow p.1 t.order i ∈ oth.names
          ∨ Name.arrow p.1 t.order i ∈ ren.map (·.2)
  nodup : (ren.map (·.2)).Nodup

theorem drGood (self other : C) (l : List (Simp Name)) :
    DRGood self other l (l.foldl (drStep self other) []) := by
  induction l using List.reverseRecOn with
  | nil => exact ⟨rfl, by simp, by simp⟩
  | append_singleton l a ih =>
    rw [List.foldl_append, List.foldl_cons, List.foldl_nil]
    set ren := l.foldl (drStep self other) [] with hren
    unfold drStep
    by_cases hc : self.contains a.name = true
    · rw [if_pos hc]
      obtain ⟨j, hj1, hj2, hj3, hj4⟩ := freshArrow_spec self other (ren.map (·.2)) a.name a.order _ 1
        (freshArrow_fuel self other ren a.name a.order)
      rw [hj2]
      simp only [List.mem_append, not_or] at hj3
      refine ⟨?_, ?_, ?_⟩
      · simp [ih.sources, List.filter_append, hc]
      · intro p hp
        rcases List.mem_append.mp hp with hp | hp
        · obtain ⟨t, ht, hn, j0, h1, h2, h3, h4, h5⟩ := ih.entry p hp
          refine ⟨t, List.mem_append_left _ ht, hn, j0, h1, h2, h3, h4, ?_⟩
          intro i hi1 hi2
          rcases h5 i hi1 hi2 with h | h | h
          · exact Or.inl h
          · exact Or.inr (Or.inl h)
          · right; right; rw [List.map_append]; exact List.mem_append_left _ h
        · rw [List.mem_singleton] at hp; subst hp
          refine ⟨a, by simp, rfl, j, hj1, rfl, hj3.1.1, hj3.1.2, ?_⟩
          intro i hi1 hi2
          have := hj4 i hi1 hi2
          simp only [List.mem_append] at this
          rcases this with (h | h) | h
          · exact Or.inl h
          · exact Or.inr (Or.inl h)
          · right; right; rw [List.map_append]; exact List.mem_append_left _ h
      · rw [List.map_append, List.map_singleton]
        apply List.Nodup.append ih.nodup (List.nodup_singleton _)
        intro x hx hx'
        rw [List.mem_singleton] at hx'; subst hx'
        exact hj3.2 hx
    · rw [if_neg hc]
      refine ⟨?_, ?_, ih.nodup⟩
      · simp [ih.sources, List.filter_append, hc]
      · intro p hp
        obtain ⟨t, ht, rest⟩ := ih.entry p hp
        exact ⟨t, List.mem_append_left _ ht, rest⟩

/-- **(3a) the renaming built by `_createDisjointRenaming`**: its keys are exactly the names of `other` that
are also names of `self` (in the listing order of `other`); each is sent to `s->{k}d{j}` where `k` is the order
of `s` in `other` and `j ≥ 1` is the first index whose name is in neither complex and not already chosen; the
new names are pairwise distinct. (No hypothesis on the two complexes is needed for this.) -/
theorem disjointRenaming_spec (self other : C) :
    (disjointRenaming self other).map (·.1) = other.names.filter self.contains
    ∧ (∀ p ∈ disjointRenaming self other, ∃ t ∈ other.simps, t.name = p.1 ∧ ∃ j, 1 ≤ j ∧
        p.2 = .arrow p.1 t.order j ∧ p.2 ∉ self.names ∧ p.2 ∉ other.names ∧
        ∀ i, 1 ≤ i → i < j → Name.arrow p.1 t.order i ∈ self.names ∨ Name.arrow p.1 t.order i ∈ other.names
          ∨ Name.arrow p.1 t.order i ∈ (disjointRenaming self other).map (·.2))
    ∧ ((disjointRenaming self other).map (·.2)).Nodup := by
  have := drGood self other other.simps
  rw [← disjointRenaming_eq] at this
  exact ⟨this.sources, this.entry, this.nodup⟩

/-- the renaming read as a function (the dict is partial: unmentioned names stay): a name shared by the two
complexes goes to a fresh `s->{k}d{j}`, `k` the order of `s` in `other`; every other name stays -/
theorem renameOf_disjointRenaming (self : C) {other : C} (hO : Inv other) (n : Name) :
    (n ∈ self.names → n ∈ other.names →
      ∃ k j, other.orderOf? n = some k ∧ 1 ≤ j ∧
        renameOf (disjointRenaming self other) n = .arrow n k j ∧
        Name.arrow n k j ∉ self.names ∧ Name.arrow n k j ∉ other.names)
    ∧ (¬ (n ∈ self.names ∧ n ∈ other.names) → renameOf (disjointRenaming self other) n = n) := by
  obtain ⟨hsrc, hent, -⟩ := disjointRenaming_spec self other
  have hsrcnd : ((disjointRenaming self other).map (·.1)).Nodup := by
    rw [hsrc]; exact hO.names_nodup.filter _
  constructor
  · intro h1 h2
    have hmem : n ∈ (disjointRenaming self other).map (·.1) := by
      rw [hsrc]; exact List.mem_filter.mpr ⟨h2, contains_iff_names.mpr h1⟩
    obtain ⟨p, hp, hp1⟩ := List.mem_map.mp hmem
    obtain ⟨t, ht, hn, j, hj, he, ha, hb, -⟩ := hent p hp
    have hp1' : p.1 = n := hp1
    have hr : renameOf (disjointRenaming self other) n = p.2 :=
      renameOf_of_mem hsrcnd (by rw [← hp1']; exact hp)
    rw [hp1'] at he hn
    refine ⟨t.order, j, ?_, hj, by rw [hr, he], by rw [← he]; exact ha, by rw [← he]; exact hb⟩
    have := lookup_of_mem hO ht
    unfold Cx.orderOf?
    rw [← hn, this]; rfl
  · intro h
    apply renameOf_not_source
    rw [hsrc]; intro hm
    obtain ⟨a, b⟩ := List.mem_filter.mp hm
    exact h ⟨contains_iff_names.mp b, a⟩

/-- the disjoint renaming always passes the checks of `relabel` -/
theorem disjointRenaming_ok (self : C) {other : C} (hO : Inv other) :
    RelabelOK self (renameOf (disjointRenaming self other)) := by
  constructor
  · intro s hs hne
    by_cases ho : s ∈ other.names
    · obtain ⟨k, j, -, -, he, ha, -⟩ := (renameOf_disjointRenaming self hO s).1 hs ho
      rw [he]; exact ha
    · exact absurd ((renameOf_disjointRenaming self hO s).2 (fun h => ho h.2)) hne
  · intro s hs t ht hs' ht' he
    by_cases ho : s ∈ other.names
    · by_cases ho' : t ∈ other.names
      · obtain ⟨k, j, -, -, e1, -, -⟩ := (renameOf_disjointRenaming self hO s).1 hs ho
        obtain ⟨k', j', -, -, e2, -, -⟩ := (renameOf_disjointRenaming self hO t).1 ht ho'
        rw [e1, e2] at he
        injection he
      · exact absurd ((renameOf_disjointRenaming self hO t).2 (fun h => ho' h.2)) ht'
    · exact absurd ((renameOf_disjointRenaming self hO s).2 (fun h => ho h.2)) hs'

/-- **(3b) `relabelDisjointFrom` always succeeds and makes the complexes name-disjoint, minimally.**
For valid `self` and `other`: the call returns a mapping `m` and a complex `c'` with: `c'` valid, name counter
untouched; no name of `c'` is a name of `other`; `m` lists `(s, new s)` for exactly the names of `self` shared
with `other` (in `self`'s listing order); `c'` is `self` renamed simultaneously, so at every position the order
is kept, a name not in `other` is unchanged, and a shared name `s` has become `s->{k}d{j}` with `k` the order of
`s` in `other` and `j ≥ 1`. -/
theorem relabelDisjointFrom_spec {self other : C} (hS : Inv self) (hO : Inv other) :
    ∃ m c', relabelDisjointFrom self other = (.ok m, c')
      ∧ Inv c' ∧ c'.seq = self.seq
      ∧ (∀ n ∈ c'.names, n ∉ other.names)
      ∧ m = (self.names.filter other.contains).map
              (fun s => (s, renameOf (disjointRenaming self other) s))
      ∧ c'.simps = (self.map (renameOf (disjointRenaming self other))).simps
      ∧ c'.simps.length = self.simps.length
      ∧ ∀ (i : Nat) (h1 : i < self.simps.length) (h2 : i < c'.simps.length),
          c'.simps[i].order = self.simps[i].order
          ∧ (self.simps[i].name ∉ other.names → c'.simps[i].name = self.simps[i].name)
          ∧ (self.simps[i].name ∈ other.names → ∃ k j, other.orderOf? self.simps[i].name = some k ∧
              1 ≤ j ∧ c'.simps[i].name = .arrow self.simps[i].name k j) := by
  have hok := disjointRenaming_ok self hO
  obtain ⟨m, c', h⟩ := (relabel_ok_iff hS _).mpr hok
  obtain ⟨hm, -, -, hsimps, hseq, hI'⟩ := relabel_spec hS _ h
  obtain ⟨hlen, hpos⟩ := relabel_spec_pos hS _ h
  refine ⟨m, c', h, hI', hseq, ?_, ?_, hsimps, hlen, ?_⟩
  · intro n hn
    have : c'.names = self.names.map (renameOf (disjointRenaming self other)) := by
      rw [← Cx.map_names]; unfold Cx.names; rw [hsimps]
    rw [this] at hn
    obtain ⟨s, hs, rfl⟩ := List.mem_map.mp hn
    by_cases ho : s ∈ other.names
    · obtain ⟨k, j, -, -, he, -, hb⟩ := (renameOf_disjointRenaming self hO s).1 hs ho
      rw [he]; exact hb
    · rw [(renameOf_disjointRenaming self hO s).2 (fun h => ho h.2)]; exact ho
  · rw [hm]
    congr 1
    apply List.filter_congr
    intro s hs
    by_cases ho : s ∈ other.names
    · obtain ⟨k, j, -, -, he, ha, -⟩ := (renameOf_disjointRenaming self hO s).1 hs ho
      have : renameOf (disjointRenaming self other) s ≠ s := by
        intro e; rw [he] at e; rw [e] at ha; exact ha hs
      simp [this, contains_iff_names.mpr ho]
    · have := (renameOf_disjointRenaming self hO s).2 (fun h => ho h.2)
      simp [this, contains_false_iff_names.mpr ho]
  · intro i h1 h2
    obtain ⟨hn, hord, -, -⟩ := hpos i h1 h2
    have hs : self.simps[i].name ∈ self.names :=
      List.mem_map.mpr ⟨_, List.getElem_mem h1, rfl⟩
    refine ⟨hord, ?_, ?_⟩
    · intro ho
      rw [hn, (renameOf_disjointRenaming self hO _).2 (fun h => ho h.2)]
    · intro ho
      obtain ⟨k, j, hk, hj, he, -, -⟩ := (renameOf_disjointRenaming self hO _).1 hs ho
      exact ⟨k, j, hk, hj, by rw [hn, he]⟩

/-- `relabelDisjointFrom_spec` on a concrete pair -/
example : Inv chainC ∧ Inv otherC
    ∧ disjointRenaming chainC otherC = [(.u 2, .arrow (.u 2) 0 2), (.u 3, .arrow (.u 3) 1 1)]
    ∧ (relabelDisjointFrom chainC otherC).1 = .ok [(.u 2, .arrow (.u 2) 0 2), (.u 3, .arrow (.u 3) 1 1)]
    ∧ (relabelDisjointFrom chainC otherC).2.simps
        = [⟨.u 1, 0, [], [.u 1]⟩, ⟨.arrow (.u 2) 0 2, 0, [], [.arrow (.u 2) 0 2]⟩,
           ⟨.arrow (.u 3) 1 1, 1, [.u 1, .arrow (.u 2) 0 2], [.u 1, .arrow (.u 2) 0 2]⟩] :=
  ⟨inv_chainC, inv_otherC, rfl, rfl, rfl⟩

end Flat
