import Sx.Model
import Sx.Props.MatRepDelete
import Sx.Props.C01
import Sx.Proofs.FlatAdd
import Sx.Proofs.FlatDelete2
import Sx.Proofs.FlatRelabel
import Mathlib.Tactic.SplitIfs

/-! # histories of public calls at Layer R: the invariant of the abstraction is derived

`Props/MatRepDelete.lean` proves `public_history_proper` / `public_history_boundaryOperator` under the
hypothesis `hInv : ∀ n, Inv (abs (runP (cs.take n)))`.  Here that hypothesis is derived for histories whose
calls are in contract (`PRun`): the only contract is the one of `addSimplex` (`Flat.InContract`, the faces,
if accepted, are the facets of one simplex); `relabelSimplex` and `deleteSimplex` need none. -/

namespace MatRep
open Flat M2

/-- the contract of a public call made in state `r` -/
def PCall.inContract (r : Rep) : PCall → Prop
  | .add fs _ => Flat.InContract (abs r) fs
  | .relabel _ _ => True
  | .delete _ => True

/-- a history all of whose calls are in contract in the state in which they are made -/
def PRun : Rep → List PCall → Prop
  | _, [] => True
  | r, c :: cs => c.inContract r ∧ PRun (stepP r c) cs

instance decInContractFlat (c : C) (fs : List Name) : Decidable (Flat.InContract c fs) := by
  unfold Flat.InContract; infer_instance

instance decInContract (r : Rep) : (c : PCall) → Decidable (c.inContract r)
  | .add fs _ => decInContractFlat (abs r) fs
  | .relabel _ _ => isTrue trivial
  | .delete _ => isTrue trivial

def decPRun : (cs : List PCall) → (r : Rep) → Decidable (PRun r cs)
  | [], _ => isTrue trivial
  | c :: cs, r => @instDecidableAnd _ _ (decInContract r c) (decPRun cs (stepP r c))

instance (r : Rep) (cs : List PCall) : Decidable (PRun r cs) := decPRun cs r

/-- the Layer-A step of a primitive call keeps `Inv` when the call is `add` in contract or `relabel` -/
theorem stepA_add_inv {c : C} (hA : Inv c) {fs : List Name} (hc : Flat.InContract c fs) (id : Name) :
    Inv (stepA c (.add fs id)) := by
  simp only [stepA]
  cases h : c.addSimplex fs id with
  | error e => exact hA
  | ok c' => exact addSimplex_ok_inv hA hc h

theorem stepA_relabel_inv {c : C} (hA : Inv c) (s q : Name) : Inv (stepA c (.relabel s q)) := by
  simp only [stepA]
  cases h : c.relabelSimplex s q with
  | none => exact hA
  | some c' => exact relabelSimplex_inv hA h

/-- **one public call in contract keeps the invariant of the abstraction** (a rejected call leaves the state
unchanged) -/
theorem stepP_abs_inv {r : Rep} (hI : MInv r) (hA : Inv (abs r)) {c : PCall} (hc : c.inContract r) :
    Inv (abs (stepP r c)) := by
  cases c with
  | add fs id =>
    have h : abs (stepP r (.add fs id)) = stepA (abs r) (.add fs id) := (step_refines hI (.add fs id)).2
    rw [h]; exact stepA_add_inv hA hc id
  | relabel s q =>
    have h : abs (stepP r (.relabel s q)) = stepA (abs r) (.relabel s q) := (step_refines hI (.relabel s q)).2
    rw [h]; exact stepA_relabel_inv hA s q
  | delete s =>
    have h : abs (stepP r (.delete s)) = (deleteSimplex (abs r) s).getD (abs r) := deleteCalls_refines hI s
    rw [h]; exact Flat.C01.deleteSimplex_inv hA s

/-- the hypotheses are satisfiable: the triangle `exR`, adding nothing new / relabelling / deleting a point -/
example : MInv exR ∧ Inv (abs exR) ∧ (PCall.add [.u 10, .u 11, .u 12] (.u 21)).inContract exR ∧
    (PCall.delete (.u 1)).inContract exR :=
  ⟨(reachable_MInv exCalls).1, exR_inv, by decide, trivial⟩

theorem PRun_append : ∀ (cs : List PCall) (r : Rep) (c : PCall),
    PRun r (cs ++ [c]) ↔ PRun r cs ∧ c.inContract (cs.foldl stepP r) := by
  intro cs
  induction cs with
  | nil => intro r c; simp [PRun]
  | cons d cs ih =>
    intro r c
    simp only [List.cons_append, PRun, List.foldl_cons, ih, and_assoc]

/-- a public history in contract: `MInv`, `Inv` of the abstraction at the end -/
theorem public_run_end (cs : List PCall) (h : PRun Rep.empty cs) :
    MInv (runP cs) ∧ Inv (abs (runP cs)) := by
  induction cs using List.reverseRecOn with
  | nil => exact ⟨MInv_empty, by rw [show runP [] = Rep.empty from rfl, abs_empty]; exact emptyC_inv⟩
  | append_singleton cs c ih =>
    obtain ⟨h1, h2⟩ := (PRun_append cs Rep.empty c).mp h
    obtain ⟨hI, hA⟩ := ih h1
    rw [runP_snoc]
    exact ⟨stepP_MInv hI c, stepP_abs_inv hI hA h2⟩

theorem PRun_take : ∀ (cs : List PCall) (r : Rep) (n : Nat), PRun r cs → PRun r (cs.take n) := by
  intro cs
  induction cs with
  | nil => intro r n _; simp [PRun]
  | cons c cs ih =>
    intro r n h
    cases n with
    | zero => simp [PRun]
    | succ n => exact ⟨h.1, ih _ n h.2⟩

/-- **the invariant of the abstraction holds along every public history in contract** -/
theorem public_run_inv (cs : List PCall) (h : PRun Rep.empty cs) : ∀ n, Inv (abs (runP (cs.take n))) :=
  fun n => (public_run_end _ (PRun_take cs _ n h)).2

/-- **headline**: after a history of public calls in contract from the empty representation, the stored
boundary operators are the face relation of the abstraction, the abstraction is a valid complex, the
representation is `Proper`; also `MInv`, `maxOrder` agrees, and the next `addSimplex` is answered identically -/
theorem public_run_boundaryOperator (cs : List PCall) (h : PRun Rep.empty cs) (k : Nat) :
    (runP cs).boundaryOperator k = bopMat (abs (runP cs)) k ∧ Inv (abs (runP cs)) ∧ Proper (runP cs) ∧
    MInv (runP cs) ∧ (runP cs).maxOrder = (abs (runP cs)).maxOrder ∧
    ∀ fs id, ((runP cs).addSimplex fs id).map abs = (abs (runP cs)).addSimplex fs id := by
  have hInv := public_run_inv cs h
  obtain ⟨h1, h2, h3⟩ := public_history_boundaryOperator cs hInv k
  obtain ⟨hI, hP⟩ := public_history_proper cs hInv
  exact ⟨h1, (public_run_end cs h).2, hP, hI, h2, h3⟩

/-- three points, three edges, the triangle, `deleteSimplex` of a point, a relabelling, a rejected relabelling,
a rejected addition -/
def exP' : List PCall :=
  [.add [] (.u 0), .add [] (.u 1), .add [] (.u 2),
   .add [.u 0, .u 1] (.u 10), .add [.u 1, .u 2] (.u 11), .add [.u 2, .u 0] (.u 12),
   .add [.u 10, .u 11, .u 12] (.u 20), .delete (.u 1), .relabel (.u 12) (.u 30),
   .relabel (.u 0) (.u 2), .add [.u 0, .u 2] (.u 30)]

theorem exP'_run : PRun Rep.empty exP' := by decide

example : (runP exP').indices = [[.u 0, .u 2], [.u 30]] := by decide

example : Inv (abs (runP exP')) ∧ Proper (runP exP') :=
  let h := public_run_boundaryOperator exP' exP'_run 1
  ⟨h.2.1, h.2.2.1⟩

/-- a call out of contract (four faces spanning only three points); the duplicated edge `[10, 10]` is in
contract (it is rejected by `addSimplex`, and the contract only speaks about accepted calls' shape) -/
example : ¬ (PCall.add [.u 10, .u 11, .u 12, .u 20] (.u 40)).inContract exR ∧
    (PCall.add [.u 10, .u 10] (.u 40)).inContract exR := by decide

end MatRep
