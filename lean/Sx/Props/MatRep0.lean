import Sx.Model
import Sx.Model.MatRep
import Sx.Proofs.MatDecode
import Sx.Proofs.MatProofs
import Sx.Props.Homology
import Mathlib.Tactic.SplitIfs
import Mathlib.Data.List.Basic
import Mathlib.Data.List.Induction

/-! # Layer R (matrix representation) — part 0: list utilities, accessors, the invariant `MInv`,
the structure of `abs`, the `_simplices` dictionary `find?` -/
namespace MatRep
open Flat M2

/-! ## list utilities -/

theorem getD_modify {α : Type} (l : List α) (k j : Nat) (f : α → α) (d : α) :
    (l.modify k f).getD j d = if j = k ∧ k < l.length then f (l.getD j d) else l.getD j d := by
  rw [List.getD_eq_getElem?_getD, List.getD_eq_getElem?_getD, List.getElem?_modify]
  by_cases hj : j < l.length
  · rw [List.getElem?_eq_getElem hj]
    by_cases hk : k = j
    · subst hk; simp [hj]
    · have : ¬ (j = k ∧ k < l.length) := fun h => hk h.1.symm
      simp [hk, this]
  · have hn : l[j]? = none := List.getElem?_eq_none_iff.mpr (by omega)
    have : ¬ (j = k ∧ k < l.length) := fun h => hj (h.1 ▸ h.2)
    simp [hn, this]

theorem getD_append_one {α : Type} (l : List α) (a d : α) (j : Nat) :
    (l ++ [a]).getD j d = if j < l.length then l.getD j d else if j = l.length then a else d := by
  rw [List.getD_eq_getElem?_getD, List.getD_eq_getElem?_getD, List.getElem?_append]
  by_cases hj : j < l.length
  · simp [hj]
  · by_cases hj2 : j = l.length
    · subst hj2; simp
    · have : j - l.length ≠ 0 := by omega
      have h3 : [a][j - l.length]? = none := by
        rw [List.getElem?_eq_none_iff]; simp; omega
      simp [hj, hj2, h3]

theorem getD_mapIdx {α : Type} (l : List α) (f : Nat → α → α) (d : α) (j : Nat) (hj : j < l.length) :
    (l.mapIdx f).getD j d = f j (l.getD j d) := by
  rw [List.getD_eq_getElem?_getD, List.getD_eq_getElem?_getD, List.getElem?_mapIdx,
    List.getElem?_eq_getElem hj]; rfl

theorem getD_map {α : Type} (l : List α) (f : α → α) (d : α) (j : Nat) (hj : j < l.length) :
    (l.map f).getD j d = f (l.getD j d) := by
  rw [List.getD_eq_getElem?_getD, List.getD_eq_getElem?_getD, List.getElem?_map,
    List.getElem?_eq_getElem hj]; rfl

theorem getD_oob {α : Type} (l : List α) (d : α) (j : Nat) (hj : l.length ≤ j) : l.getD j d = d := by
  rw [List.getD_eq_getElem?_getD, List.getElem?_eq_none_iff.mpr hj]; rfl

theorem getD_eraseIdx_last {α : Type} (l : List α) (d : α) (k j : Nat) (hj : j < k) :
    (l.eraseIdx k).getD j d = l.getD j d := by
  rw [List.getD_eq_getElem?_getD, List.getD_eq_getElem?_getD, List.getElem?_eraseIdx, if_pos hj]

/-- a unique witness is what `find?` returns -/
theorem find?_unique {α : Type} {l : List α} {p : α → Bool} {t : α} (ht : t ∈ l) (hp : p t = true)
    (hu : ∀ t' ∈ l, p t' = true → t' = t) : l.find? p = some t := by
  induction l with
  | nil => cases ht
  | cons a l ih =>
    rw [List.find?_cons]
    by_cases hpa : p a = true
    · rw [hpa]; simp only; rw [hu a List.mem_cons_self hpa]
    · have hpa' : p a = false := by simpa using hpa
      rw [hpa']; simp only
      have hta : t ∈ l := by
        rcases List.mem_cons.mp ht with h | h
        · subst h; rw [hp] at hpa'; cases hpa'
        · exact h
      exact ih hta (fun t' ht' => hu t' (List.mem_cons_of_mem _ ht'))

/-- selecting by position = filtering by a predicate that agrees with the selector -/
theorem filterMap_range_eq {α β : Type} (l : List α) (c : Nat → Bool) (F : Nat → α → β) (P : β → Bool)
    (N : β → α) (h : ∀ j (hj : j < l.length), N (F j l[j]) = l[j] ∧ P (F j l[j]) = c j) :
    (List.range l.length).filterMap (fun j => if c j then l[j]? else none) =
      ((l.mapIdx F).filter P).map N := by
  induction l using List.reverseRecOn with
  | nil => simp
  | append_singleton xs x ih =>
    rw [List.length_append, List.length_singleton, List.range_succ, List.filterMap_append,
      List.mapIdx_concat, List.filter_append, List.map_append]
    have h1 : (List.range xs.length).filterMap (fun j => if c j then (xs ++ [x])[j]? else none) =
        (List.range xs.length).filterMap (fun j => if c j then xs[j]? else none) := by
      apply List.filterMap_congr
      intro j hj
      rw [List.mem_range] at hj
      rw [List.getElem?_append_left hj]
    rw [h1, ih]
    · congr 1
      have hx := h xs.length (by simp)
      have hget : (xs ++ [x])[xs.length]'(by simp) = x := by simp
      rw [hget] at hx
      by_cases hc : c xs.length = true
      · simp [hc, hx.1, hx.2]
      · have hc' : c xs.length = false := by simpa using hc
        simp [hc', hx.2]
    · intro j hj
      have := h j (by simp; omega)
      rw [List.getElem_append_left hj] at this
      exact this

/-- the instance with no index dependence: a decoded column is the filtered name list -/
theorem filterMap_range_eq_filter {α : Type} (l : List α) (c : Nat → Bool) (p : α → Bool)
    (h : ∀ j (hj : j < l.length), c j = p l[j]) :
    (List.range l.length).filterMap (fun j => if c j then l[j]? else none) = l.filter p := by
  have := filterMap_range_eq l c (fun _ a => a) p id (fun j hj => ⟨rfl, (h j hj).symm⟩)
  rw [this]
  have hid : l.mapIdx (fun _ a => a) = l := by
    apply List.ext_getElem? ; intro i; rw [List.getElem?_mapIdx]; cases l[i]? <;> rfl
  rw [hid, List.map_id]

theorem mem_decodeCol {ν : Type} {names : List ν} {B : Mat} {c : Nat} {x : ν} :
    x ∈ decodeCol names B c ↔ ∃ r, B.get r c = true ∧ names[r]? = some x := by
  unfold decodeCol
  rw [List.mem_filterMap]
  constructor
  · rintro ⟨r, -, h⟩
    by_cases hb : B.get r c = true
    · rw [if_pos hb] at h; exact ⟨r, hb, h⟩
    · rw [if_neg hb] at h; cases h
  · rintro ⟨r, hb, h⟩
    refine ⟨r, ?_, by rw [if_pos hb]; exact h⟩
    rw [List.mem_range]
    exact (List.getElem?_eq_some_iff.mp h).1

/-- filtering one name out of a decoded column = skipping its row -/
theorem decode_filter_ne {names : List Name} {B : Mat} {c i : Nat} {s : Name}
    (hi : names[i]? = some s) (hu : ∀ r, names[r]? = some s → r = i) :
    (decodeCol names B c).filter (· != s) =
      ((List.range names.length).filter (fun r => r != i)).filterMap
        (fun r => if B.get r c then names[r]? else none) := by
  unfold decodeCol
  rw [List.filter_filterMap, List.filterMap_filter]
  apply List.filterMap_congr
  intro r hr
  rw [List.mem_range] at hr
  by_cases hri : r = i
  · subst hri
    simp only [bne_self_eq_false, Bool.false_eq_true, if_false]
    split_ifs
    · rw [hi]; simp
    · rfl
  · have h1 : (r != i) = true := by simpa using hri
    rw [h1, if_pos rfl]
    split_ifs
    · rw [List.getElem?_eq_getElem hr]
      have : names[r] ≠ s := by
        intro h; apply hri; apply hu; rw [List.getElem?_eq_getElem hr, h]
      simp [Option.filter, this]
    · rfl

/-- dropping position `i` from an indexed map -/
theorem filter_mapIdx_erase {α β : Type} (l : List α) (F : Nat → α → β) (P : β → Bool) (i : Nat)
    (h : ∀ j (hj : j < l.length), P (F j l[j]) = (j != i)) :
    (l.mapIdx F).filter P = (l.eraseIdx i).mapIdx (fun j a => F (skip i j) a) := by
  induction l generalizing F i with
  | nil => simp
  | cons a l ih =>
    rw [List.mapIdx_cons, List.filter_cons]
    have h0 := h 0 (by simp)
    simp only [List.getElem_cons_zero] at h0
    have hrest : ∀ i', (∀ j (hj : j < l.length), P (F (j + 1) l[j]) = (j != i')) →
        (l.mapIdx (fun j => F (j + 1))).filter P = (l.eraseIdx i').mapIdx (fun j a => F (skip i' j + 1) a) :=
      fun i' hh => ih (fun j => F (j + 1)) i' hh
    cases i with
    | zero =>
      rw [h0]; simp only [bne_self_eq_false, Bool.false_eq_true, if_false, List.eraseIdx_cons_zero]
      -- nothing else is dropped
      have hall : (l.mapIdx (fun j => F (j + 1))).filter P = l.mapIdx (fun j => F (j + 1)) := by
        rw [List.filter_eq_self]
        intro b hb
        obtain ⟨j, hj, rfl⟩ := List.mem_mapIdx.mp hb
        have := h (j + 1) (by simp; omega)
        simpa using this
      rw [hall]
      apply List.ext_getElem?
      intro j
      simp only [List.getElem?_mapIdx, skip, Nat.not_lt_zero, if_false]
    | succ i =>
      have : (0 != i + 1) = true := by simp
      rw [h0, this, if_pos rfl, List.eraseIdx_cons_succ, List.mapIdx_cons]
      have hs0 : skip (i + 1) 0 = 0 := by simp [skip]
      rw [hs0]
      congr 1
      rw [hrest i]
      · apply List.ext_getElem?
        intro j
        simp only [List.getElem?_mapIdx]
        have : skip i j + 1 = skip (i + 1) (j + 1) := by unfold skip; split_ifs <;> omega
        rw [this]
      · intro j hj
        have := h (j + 1) (by simp; omega)
        simpa using this

theorem any_mapIdx {α β : Type} (l : List α) (F : Nat → α → β) (P : β → Bool) (Q : Nat → Bool)
    (h : ∀ j (hj : j < l.length), P (F j l[j]) = Q j) :
    (l.mapIdx F).any P = (List.range l.length).any Q := by
  rw [Bool.eq_iff_iff, List.any_eq_true, List.any_eq_true]
  constructor
  · rintro ⟨b, hb, hp⟩
    obtain ⟨j, hj, rfl⟩ := List.mem_mapIdx.mp hb
    exact ⟨j, List.mem_range.mpr hj, by rw [← h j hj]; exact hp⟩
  · rintro ⟨j, hj, hq⟩
    rw [List.mem_range] at hj
    exact ⟨F j l[j], List.mem_mapIdx.mpr ⟨j, hj, rfl⟩, by rw [h j hj]; exact hq⟩

/-- flat maps over an initial segment of the naturals, levelwise -/
theorem flatMap_range_congr {β : Type} {g g' : Nat → List β} {n : Nat} (h : ∀ j, j < n → g j = g' j) :
    (List.range n).flatMap g = (List.range n).flatMap g' :=
  List.flatMap_congr (fun j hj => h j (List.mem_range.mp hj))

theorem flatMap_range_succ {β : Type} (g : Nat → List β) (n : Nat) :
    (List.range (n + 1)).flatMap g = (List.range n).flatMap g ++ g n := by
  rw [List.range_succ, List.flatMap_append]; simp

end MatRep

