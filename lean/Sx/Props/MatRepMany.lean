import Sx.Model
import Sx.Props.MatRepPublic
import Mathlib.Tactic.SplitIfs

/-! # `deleteSimplices` and the loop of `restrictBasisTo` are lists of public `delete` calls at Layer R -/

namespace MatRep
open Flat M2

/-- deleting an absent name changes nothing -/
theorem deleteSimplex_getD_absent (c : C) (s : Name) (h : c.contains s = false) :
    (deleteSimplex c s).getD c = c := by
  unfold deleteSimplex
  have : c.orderOf? s = none := by
    unfold Cx.orderOf?; unfold Cx.contains at h
    cases hl : c.lookup s with
    | none => rfl
    | some x => rw [hl] at h; simp at h
  rw [this]; rfl

theorem abs_stepP_delete {r : Rep} (hI : MInv r) (s : Name) :
    abs (stepP r (.delete s)) = (deleteSimplex (abs r) s).getD (abs r) := deleteCalls_refines hI s

/-- **(1)** `deleteSimplices` is the list of public `delete` calls (the `containsSimplex` guard is immaterial) -/
theorem deleteMany_refines {r : Rep} (hI : MInv r) (ss : List Name) :
    abs ((ss.map PCall.delete).foldl stepP r) = deleteSimplices (abs r) ss := by
  induction ss generalizing r with
  | nil => rfl
  | cons s ss ih =>
    simp only [List.map_cons, List.foldl_cons, deleteSimplices]
    rw [ih (stepP_MInv hI _), abs_stepP_delete hI]
    cases h : (abs r).contains s with
    | true => simp
    | false => rw [deleteSimplex_getD_absent _ _ h]; simp

/-- **(2)** the loop of `restrictBasisTo` is the list of public `delete` calls of the names not retained -/
theorem restrictLoop_refines {r : Rep} (hI : MInv r) (retain ns : List Name) :
    abs (((ns.filter (fun n => !retain.contains n)).map PCall.delete).foldl stepP r) =
      restrictLoop retain (abs r) ns := by
  induction ns generalizing r with
  | nil => rfl
  | cons n ns ih =>
    simp only [restrictLoop, List.filter_cons]
    cases hr : retain.contains n with
    | true => simp only [Bool.not_true, Bool.and_false, Bool.false_eq_true, if_false]; exact ih hI
    | false =>
      simp only [Bool.not_false, Bool.and_true, if_true, List.map_cons, List.foldl_cons]
      rw [ih (stepP_MInv hI _), abs_stepP_delete hI]
      cases h : (abs r).contains n with
      | true => simp
      | false => rw [deleteSimplex_getD_absent _ _ h]; simp

/-- **(3)** deletes need no contract -/
theorem PRun_deletes (r : Rep) (ss : List Name) : PRun r (ss.map PCall.delete) := by
  induction ss generalizing r with
  | nil => trivial
  | cons s ss ih => exact ⟨trivial, ih _⟩

theorem PRun_append_list : ∀ (cs ds : List PCall) (r : Rep),
    PRun r (cs ++ ds) ↔ PRun r cs ∧ PRun (cs.foldl stepP r) ds := by
  intro cs
  induction cs with
  | nil => intro ds r; simp [PRun]
  | cons d cs ih =>
    intro ds r
    simp only [List.cons_append, PRun, List.foldl_cons, ih, and_assoc]

/-- appending public deletions to a history in contract gives a history in contract
(so `public_run_boundaryOperator` applies to it) -/
theorem PRun_append_deletes (cs : List PCall) (h : PRun Rep.empty cs) (ss : List Name) :
    PRun Rep.empty (cs ++ ss.map PCall.delete) :=
  (PRun_append_list cs _ Rep.empty).mpr ⟨h, PRun_deletes _ ss⟩

/-- the state reached by such a history abstracts to `deleteSimplices` of the previous abstraction -/
theorem runP_append_deletes (cs : List PCall) (h : PRun Rep.empty cs) (ss : List Name) :
    abs (runP (cs ++ ss.map PCall.delete)) = deleteSimplices (abs (runP cs)) ss := by
  unfold runP; rw [List.foldl_append]
  exact deleteMany_refines (public_run_end cs h).1 ss

/-- on the triangle `exR`: an absent name, the edge `10`, the triangle `20` (already gone with `10`) -/
example : MInv exR ∧
    (abs (([Name.u 99, .u 10, .u 20].map PCall.delete).foldl stepP exR)).simps.map (·.name) =
      (deleteSimplices (abs exR) [.u 99, .u 10, .u 20]).simps.map (·.name) ∧
    (deleteSimplices (abs exR) [.u 99, .u 10, .u 20]).simps.map (·.name) =
      [.u 0, .u 1, .u 2, .u 11, .u 12] :=
  ⟨(reachable_MInv exCalls).1, by decide, by decide⟩

example : PRun exR ([Name.u 99, .u 10, .u 20].map PCall.delete) := by decide

end MatRep
