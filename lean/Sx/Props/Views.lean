import Sx.Model
import Sx.Props.Common
import Sx.Proofs.FlatStar
import Sx.Proofs.BdBd
import Sx.Proofs.FlatBasis4
import Sx.Proofs.FlatBasis8
import Sx.Proofs.FlagAdd
import Sx.Proofs.Disjoint
import Sx.Proofs.MatProofs
import Mathlib.Tactic.SplitIfs
import Mathlib.Data.Finset.Powerset
import Mathlib.Data.Finset.Card
import Mathlib.Data.List.Basic

/-! # C03 / C04 — the read-only views of a complex are consistent with each other

C03: cofaces is the inverse of faces; the basis of a simplex is the set of points of its closure; consecutive
boundary operators multiply to zero mod 2; `boundary` is the mod-2 sum of the faces, and the boundary of a
boundary is empty.

C04: the closure of an order-`k` simplex has exactly `2^(k+1) - 1` members; `partOf` (the star) is exact and is
dual to the closure; `disjoint` decides pairwise disjointness of the closures; every name returned by a query
is the name of a simplex of the complex.

Model reading: a "name of `c`" is a `n : Name` with `c.contains n = true`, equivalently (`contains_iff`) the name
of some `t ∈ c.simps`; under `Inv c` names determine simplices (`Inv.name_inj`), so theorems are stated either
for a name with `c.contains`/`c.orderOf?` hypotheses or for `s ∈ c.simps` and its `s.name`, whichever reads
better; `mem_of_contains` converts. `Option` results: `none` = the Python call raises. -/
namespace Flat

/-! ## small helpers -/

theorem mem_of_contains {c : C} {n : Name} (h : c.contains n = true) :
    ∃ s ∈ c.simps, s.name = n ∧ c.lookup n = some s := by
  unfold Cx.contains at h
  obtain ⟨s, hs⟩ := Option.isSome_iff_exists.mp h
  exact ⟨s, (lookup_some hs).1, (lookup_some hs).2, hs⟩

theorem contains_of_mem {c : C} {s : Simp Name} (hs : s ∈ c.simps) : c.contains s.name = true :=
  contains_iff.mpr ⟨s, hs, rfl⟩

theorem basisOf_of_mem {c : C} (hI : Inv c) {t : Simp Name} (ht : t ∈ c.simps) :
    c.basisOf t.name = t.basis := by
  unfold Cx.basisOf; rw [lookup_of_mem hI ht]; rfl

theorem orderOf_some {c : C} {n : Name} {k : Nat} (h : c.orderOf? n = some k) :
    ∃ s ∈ c.simps, s.name = n ∧ s.order = k ∧ c.lookup n = some s := by
  unfold Cx.orderOf? at h
  obtain ⟨s, hs, ho⟩ := Option.map_eq_some_iff.mp h
  exact ⟨s, (lookup_some hs).1, (lookup_some hs).2, ho, hs⟩

theorem dedupL_of_nodup {l : List Name} (h : l.Nodup) : dedupL l = l := by
  induction l with
  | nil => rfl
  | cons x xs ih =>
    rw [List.nodup_cons] at h
    simp only [dedupL, ih h.2]
    simp [h.1]

/-- equal point sets, equal simplices -/
theorem pts_inj {c : C} (hI : Inv c) {s t : Simp Name} (hs : s ∈ c.simps) (ht : t ∈ c.simps)
    (h : s.pts = t.pts) : s = t := by
  apply hI.uniq s hs t ht
  · have h1 := hI.pts_card hs
    have h2 := hI.pts_card ht
    rw [h] at h1; omega
  · intro p
    have := Finset.ext_iff.mp h p
    simpa [Simp.pts] using this

/-- containment of point sets bounds the order -/
theorem order_le_of_pts_subset {c : C} (hI : Inv c) {s t : Simp Name} (hs : s ∈ c.simps) (ht : t ∈ c.simps)
    (h : s.pts ⊆ t.pts) : s.order ≤ t.order := by
  have := Finset.card_le_card h
  rw [hI.pts_card hs, hI.pts_card ht] at this; omega

/-! ## the running example (non-vacuity): a triangle `u123` on points `u1 u2 u3` (edges `a1.0 = {u1,u2}`,
`a1.1 = {u1,u3}`, `a1.2 = {u2,u3}`, generated names) with a pendant edge `u34` on `u3 u4`; it satisfies `Inv` -/

def exT : C := (addSimplexWithBasis' emptyC [.u 1, .u 2, .u 3] (some (.u 123))).2
def viewsExV : C := (addSimplexWithBasis' exT [.u 3, .u 4] (some (.u 34))).2

theorem exT_inv : Inv exT := by
  obtain ⟨n, c', hok, hInv, -⟩ := addSimplexWithBasis_spec emptyC_inv (bs := [.u 1, .u 2, .u 3]) (by decide)
    (by decide) (fun b _ h => by simp [Cx.contains, Cx.lookup, emptyC] at h)
    (by rintro ⟨t, ht, -⟩; simp [emptyC] at ht) (some (.u 123))
    (fun n hn => by obtain rfl := Option.some.inj hn; exact ⟨rfl, by decide⟩)
  have : exT = c' := by unfold exT; rw [hok]
  rw [this]; exact hInv

theorem viewsExV_inv : Inv viewsExV := by
  obtain ⟨n, c', hok, hInv, -⟩ := addSimplexWithBasis_spec exT_inv (bs := [.u 3, .u 4]) (by decide)
    (by decide)
    (fun b hb h => by
      simp only [List.mem_cons, List.not_mem_nil, or_false] at hb
      rcases hb with rfl | rfl
      · exact ⟨⟨.u 3, 0, [], [.u 3]⟩, by decide, rfl, rfl⟩
      · exact absurd h (by decide))
    (by decide) (some (.u 34))
    (fun n hn => by obtain rfl := Option.some.inj hn; exact ⟨by decide, by decide⟩)
  have : viewsExV = c' := by unfold viewsExV; rw [hok]
  rw [this]; exact hInv

/-! ## C03 (a): cofaces is the inverse of faces -/

/-- `t ∈ cofaces(s) ↔ s ∈ faces(t)`. Holds for all names: for a name that is not in the complex both views are
empty (the model's `cofaces`/`facesOf` return `[]` where Python raises). -/
theorem cofaces_inverse {c : C} (hI : Inv c) (s t : Name) : t ∈ c.cofaces s ↔ s ∈ c.facesOf t := by
  constructor
  · intro h
    cases hl : c.lookup s with
    | none =>
      exfalso
      unfold Cx.cofaces Cx.orderOf? at h
      rw [hl] at h; simp at h
    | some s' =>
      obtain ⟨hs', rfl⟩ := lookup_some hl
      obtain ⟨t', ht', rfl, -, hf⟩ := (mem_cofaces hI hs').mp h
      rw [facesOf_of_mem hI ht']; exact hf
  · intro h
    cases hl : c.lookup t with
    | none =>
      exfalso
      unfold Cx.facesOf at h
      rw [hl] at h; simp at h
    | some t' =>
      obtain ⟨ht', rfl⟩ := lookup_some hl
      rw [facesOf_of_mem hI ht'] at h
      have hpos : 0 < t'.order := by
        rcases Nat.eq_zero_or_pos t'.order with h0 | hp
        · rw [(hI.point t' ht' h0).1] at h; simp at h
        · exact hp
      obtain ⟨-, -, hfex, -⟩ := hI.higher t' ht' hpos
      obtain ⟨u, hu, rfl, huo⟩ := hfex s h
      exact (mem_cofaces hI hu).mpr ⟨t', ht', rfl, by omega, h⟩

example : Inv viewsExV ∧ Name.u 123 ∈ viewsExV.cofaces (.auto 1 0) ∧ Name.auto 1 0 ∈ viewsExV.facesOf (.u 123) ∧
    viewsExV.cofaces (.u 3) = [.auto 1 1, .auto 1 2, .u 34] := ⟨viewsExV_inv, by decide, by decide, rfl⟩

/-! ## C03 (b): the basis is the set of points of the closure -/

/-- the members of `basisOf(s)` are exactly the order-0 names in `closureOf(s)` -/
theorem basis_is_closure_points {c : C} (hI : Inv c) {s : Name} (hs : c.contains s = true) :
    ∃ l, closureOf c s false false = some l ∧
      ∀ p, p ∈ c.basisOf s ↔ (p ∈ l ∧ c.orderOf? p = some 0) := by
  obtain ⟨s', hs', rfl, -⟩ := mem_of_contains hs
  obtain ⟨l, hl, hmem⟩ := closureOf_spec hI hs' false false
  refine ⟨l, hl, ?_⟩
  intro p
  rw [basisOf_of_mem hI hs', hmem]
  constructor
  · intro hp
    obtain ⟨t, ht, htn, ht0, htp⟩ := hI.basis_point s'.order hs' rfl p hp
    refine ⟨⟨t, ht, htn, htp, by simp⟩, ?_⟩
    rw [← htn, orderOf_of_mem hI ht, ht0]
  · rintro ⟨⟨t, ht, rfl, htp, -⟩, ho⟩
    rw [orderOf_of_mem hI ht] at ho
    have h0 : t.order = 0 := Option.some.inj ho
    have : t.name ∈ s'.pts := htp (by rw [point_pts hI ht h0]; simp)
    simpa [Simp.pts] using this

example : Inv viewsExV ∧ viewsExV.contains (.u 123) = true ∧ viewsExV.basisOf (.u 123) = [.u 1, .u 2, .u 3] ∧
    closureOf viewsExV (.u 123) false false =
      some [.u 1, .u 2, .u 3, .auto 1 0, .auto 1 1, .auto 1 2, .u 123] := ⟨viewsExV_inv, rfl, rfl, rfl⟩

/-! ## C03 (c): boundary operators -/

theorem bopMat_eq {c : C} {k : Nat} (hk : 1 ≤ k) (hmax : (k : Int) ≤ c.maxOrder) :
    bopMat c k = M2.mk ((c.ofOrder (k - 1)).map (·.name)).length (c.ofOrder k).length (fun i j =>
      match ((c.ofOrder (k - 1)).map (·.name))[i]?, (c.ofOrder k)[j]? with
      | some r, some s => s.faces.contains r
      | _, _ => false) := by
  unfold bopMat
  rw [if_neg (by omega), if_neg (by omega)]
  rfl

/-- shape of the order-`k` boundary operator: rows = order-(k-1) simplices, columns = order-k simplices -/
theorem v_bopMat_shape {c : C} {k : Nat} (hk : 1 ≤ k) (hmax : (k : Int) ≤ c.maxOrder) :
    (bopMat c k).m = (c.ofOrder (k - 1)).length ∧ (bopMat c k).n = (c.ofOrder k).length := by
  rw [bopMat_eq hk hmax]; simp

/-- in-range entries, as a Boolean equation -/
theorem bopMat_get {c : C} {k : Nat} (hk : 1 ≤ k) (hmax : (k : Int) ≤ c.maxOrder) {i j : Nat}
    (hi : i < (c.ofOrder (k - 1)).length) (hj : j < (c.ofOrder k).length) :
    (bopMat c k).get i j = ((c.ofOrder k)[j]).faces.contains ((c.ofOrder (k - 1))[i]).name := by
  rw [bopMat_eq hk hmax, M2.get_mk (by simpa using hi) hj]
  simp [List.getElem?_eq_getElem hi, List.getElem?_eq_getElem hj]

/-- out-of-range entries are zero -/
theorem bopMat_get_oob {c : C} {k : Nat} (hk : 1 ≤ k) (hmax : (k : Int) ≤ c.maxOrder) {i j : Nat}
    (h : ¬ (i < (c.ofOrder (k - 1)).length ∧ j < (c.ofOrder k).length)) :
    (bopMat c k).get i j = false := by
  rw [bopMat_eq hk hmax, M2.get_mk_oob (by simpa using h)]

/-- **entry characterisation of the boundary operator**: entry `(i, j)` is set iff the `i`-th order-(k-1) name is
a member of the faces of the `j`-th order-`k` simplex -/
theorem v_bopMat_entry {c : C} {k : Nat} (hk : 1 ≤ k) (hmax : (k : Int) ≤ c.maxOrder) (i j : Nat) :
    (bopMat c k).get i j = true ↔
      ∃ r s, ((c.ofOrder (k - 1)).map (·.name))[i]? = some r ∧ (c.ofOrder k)[j]? = some s ∧ r ∈ s.faces := by
  by_cases h : i < (c.ofOrder (k - 1)).length ∧ j < (c.ofOrder k).length
  · obtain ⟨hi, hj⟩ := h
    rw [bopMat_get hk hmax hi hj, List.contains_iff_mem]
    constructor
    · intro hm
      exact ⟨_, _, by simp [List.getElem?_eq_getElem hi], List.getElem?_eq_getElem hj, hm⟩
    · rintro ⟨r, s, hr, hs, hm⟩
      simp only [List.getElem?_map, List.getElem?_eq_getElem hi, Option.map_some, Option.some.injEq] at hr
      rw [List.getElem?_eq_getElem hj, Option.some.injEq] at hs
      subst hr; subst hs; exact hm
  · rw [bopMat_get_oob hk hmax h]
    simp only [Bool.false_eq_true, false_iff]
    rintro ⟨r, s, hr, hs, -⟩
    apply h
    constructor
    · have := (List.getElem?_eq_some_iff.mp hr).1; simpa using this
    · exact (List.getElem?_eq_some_iff.mp hs).1

example : 1 ≤ 1 ∧ ((1 : Nat) : Int) ≤ viewsExV.maxOrder ∧
    (bopMat viewsExV 1).e = [[true, true, false, false], [true, false, true, false], [false, true, true, true],
      [false, false, false, true]] := ⟨by decide, by decide, rfl⟩

/-- counting the indices of a list that satisfy a predicate on the entry -/
theorem length_filter_range {β : Type} (l : List β) (p : β → Bool) :
    ∀ (q : Nat → Bool), (∀ r (hr : r < l.length), q r = p l[r]) →
      ((List.range l.length).filter q).length = (l.filter p).length := by
  induction l using List.reverseRecOn with
  | nil => intro q _; simp
  | append_singleton l a ih =>
    intro q hq
    rw [List.length_append, List.length_singleton, List.range_succ, List.filter_append, List.filter_append,
      List.length_append, List.length_append]
    congr 1
    · apply ih
      intro r hr
      have := hq r (by rw [List.length_append]; omega)
      rw [this, List.getElem_append_left hr]
    · have := hq l.length (by simp)
      simp only [List.getElem_concat_length] at this
      simp only [List.filter_cons, this]
      split <;> rfl

theorem mem_ofOrder {c : C} {k : Nat} {u : Simp Name} : u ∈ c.ofOrder k ↔ u ∈ c.simps ∧ u.order = k := by
  unfold Cx.ofOrder; simp [List.mem_filter]

theorem ofOrder_names_nodup {c : C} (hI : Inv c) (k : Nat) : ((c.ofOrder k).map (·.name)).Nodup := by
  apply List.Nodup.sublist _ hI.nodup
  exact List.Sublist.map _ List.filter_sublist

/-- the order-(k-1) simplices that are faces of `s` and have `n` as a face, counted in listing order, are as many
as the faces of `s` that have `n` as a face -/
theorem count_between {c : C} (hI : Inv c) {s : Simp Name} (hs : s ∈ c.simps) (hk : 1 ≤ s.order) (n : Name) :
    ((c.ofOrder (s.order - 1)).filter (fun u => u.faces.contains n && s.faces.contains u.name)).length =
      (s.faces.filter (fun f => (c.facesOf f).contains n)).length := by
  obtain ⟨hfn, -, hfex, -⟩ := hI.higher s hs (by omega)
  rw [← List.length_map (f := fun u : Simp Name => u.name)]
  apply List.Perm.length_eq
  rw [List.perm_ext_iff_of_nodup]
  · intro x
    simp only [List.mem_map, List.mem_filter, mem_ofOrder, Bool.and_eq_true, List.contains_iff_mem]
    constructor
    · rintro ⟨u, ⟨⟨hu, -⟩, hnu, hus⟩, rfl⟩
      exact ⟨hus, by rw [facesOf_of_mem hI hu]; exact hnu⟩
    · rintro ⟨hx, hnx⟩
      obtain ⟨u, hu, rfl, huo⟩ := hfex x hx
      rw [facesOf_of_mem hI hu] at hnx
      exact ⟨u, ⟨⟨hu, by omega⟩, hnx, hx⟩, rfl⟩
  · apply List.Nodup.sublist _ (ofOrder_names_nodup hI (s.order - 1))
    exact List.Sublist.map _ List.filter_sublist
  · exact hfn.sublist List.filter_sublist

/-- **consecutive boundary operators multiply to zero mod 2**: for `2 ≤ k ≤ maxOrder` every entry of
`∂_{k-1} · ∂_k`, i.e. the number of `r` with `∂_{k-1}[i, r]` and `∂_k[r, j]` both set, is even. The index `r`
ranges over the common dimension (`(bopMat c (k-1)).n = (bopMat c k).m`, the number of order-(k-1) simplices);
outside it both entries are zero (`bopMat_get_oob`). -/
theorem bop_bop_zero {c : C} (hI : Inv c) {k : Nat} (hk : 2 ≤ k) (hmax : (k : Int) ≤ c.maxOrder) (i j : Nat) :
    (bopMat c (k - 1)).n = (bopMat c k).m ∧
    ((List.range (bopMat c k).m).filter (fun r => (bopMat c (k - 1)).get i r && (bopMat c k).get r j)).length % 2
      = 0 := by
  have hk1 : 1 ≤ k - 1 := by omega
  have hmax1 : ((k - 1 : Nat) : Int) ≤ c.maxOrder := by omega
  have hk0 : 1 ≤ k := by omega
  refine ⟨by rw [(v_bopMat_shape hk1 hmax1).2, (v_bopMat_shape hk0 hmax).1], ?_⟩
  rw [(v_bopMat_shape hk0 hmax).1]
  by_cases hj : j < (c.ofOrder k).length
  · by_cases hi : i < (c.ofOrder (k - 1 - 1)).length
    · -- the generic entry
      have hsm : (c.ofOrder k)[j] ∈ c.ofOrder k := List.getElem_mem hj
      obtain ⟨hs, hso⟩ := mem_ofOrder.mp hsm
      rw [length_filter_range (c.ofOrder (k - 1))
        (fun u => u.faces.contains ((c.ofOrder (k - 1 - 1))[i]).name && ((c.ofOrder k)[j]).faces.contains u.name)]
      · have := count_between hI hs (by omega) ((c.ofOrder (k - 1 - 1))[i]).name
        rw [hso] at this
        rw [this]
        exact bd_bd_even hI hs (by omega) _
      · intro r hr
        rw [bopMat_get hk1 hmax1 hi hr, bopMat_get hk0 hmax hr hj]
    · -- row index out of range
      rw [List.filter_eq_nil_iff.mpr]; · rfl
      intro r _
      rw [bopMat_get_oob hk1 hmax1 (fun h => hi h.1)]; simp
  · -- column index out of range
    rw [List.filter_eq_nil_iff.mpr]; · rfl
    intro r _
    rw [bopMat_get_oob hk0 hmax (fun h => hj h.2)]; simp

/-- the same count over any index range that covers the common dimension: indices beyond it contribute nothing -/
theorem bop_bop_zero_any {c : C} (hI : Inv c) {k : Nat} (hk : 2 ≤ k) (hmax : (k : Int) ≤ c.maxOrder) (i j N : Nat)
    (hN : (bopMat c k).m ≤ N) :
    ((List.range N).filter (fun r => (bopMat c (k - 1)).get i r && (bopMat c k).get r j)).length % 2 = 0 := by
  obtain ⟨d, rfl⟩ : ∃ d, N = (bopMat c k).m + d := ⟨N - (bopMat c k).m, by omega⟩
  have h0 := (bop_bop_zero hI hk hmax i j).2
  have h1 : ((List.map (fun x => (bopMat c k).m + x) (List.range d)).filter
      (fun r => (bopMat c (k - 1)).get i r && (bopMat c k).get r j)) = [] := by
    rw [List.filter_eq_nil_iff]
    intro r hr
    obtain ⟨e, -, rfl⟩ := List.mem_map.mp hr
    rw [bopMat_get_oob (by omega) hmax (fun h => by
      have := (v_bopMat_shape (c := c) (k := k) (by omega) hmax).1; omega)]
    simp
  rw [List.range_add, List.filter_append, List.length_append, h1]
  simpa using h0

example : Inv viewsExV ∧ 2 ≤ 2 ∧ ((2 : Nat) : Int) ≤ viewsExV.maxOrder ∧ (bopMat viewsExV 2).e = [[true], [true], [true], [false]] :=
  ⟨viewsExV_inv, by decide, by decide, rfl⟩

/-! ## C03 (d): the boundary of a chain -/

theorem v_mem_symmDiff {a b : List Name} {x : Name} :
    x ∈ symmDiff a b ↔ (x ∈ a ∧ x ∉ b) ∨ (x ∈ b ∧ x ∉ a) := by
  simp [symmDiff, List.mem_append, List.mem_filter]

theorem nodup_symmDiff {a b : List Name} (ha : a.Nodup) (hb : b.Nodup) : (symmDiff a b).Nodup := by
  unfold symmDiff
  rw [List.nodup_append]
  refine ⟨ha.sublist List.filter_sublist, hb.sublist List.filter_sublist, ?_⟩
  intro x hx y hy hxy
  subst hxy
  simp only [List.mem_filter] at hx hy
  simp_all

/-- the fold of `bs ^= g(s)`: membership flips once per `s` with `f ∈ g(s)` -/
theorem foldl_symmDiff_spec (g : Name → List Name) (hg : ∀ s, (g s).Nodup) :
    ∀ (ss : List Name) (acc : List Name), acc.Nodup →
      (ss.foldl (fun bs s => symmDiff bs (g s)) acc).Nodup ∧
      ∀ f, f ∈ ss.foldl (fun bs s => symmDiff bs (g s)) acc ↔
        ((if f ∈ acc then 1 else 0) + (ss.filter (fun s => (g s).contains f)).length) % 2 = 1 := by
  intro ss
  induction ss with
  | nil =>
    intro acc hacc
    refine ⟨hacc, fun f => ?_⟩
    by_cases h : f ∈ acc <;> simp [h]
  | cons s ss ih =>
    intro acc hacc
    obtain ⟨h1, h2⟩ := ih (symmDiff acc (g s)) (nodup_symmDiff hacc (hg s))
    refine ⟨h1, fun f => ?_⟩
    rw [List.foldl_cons, h2 f]
    by_cases ha : f ∈ acc <;> by_cases hb : f ∈ g s <;>
      simp [v_mem_symmDiff, ha, hb] <;> omega

/-- `boundary(ss)` succeeds on a chain (all members simplices of one order `p`) -/
theorem v_boundaryChain_eq {c : C} {ss : List Name} {p : Nat} (hp : ∀ s ∈ ss, c.orderOf? s = some p) :
    boundaryChain c ss = some (ss.foldl (fun bs s => symmDiff bs (dedupL (c.facesOf s))) []) := by
  unfold boundaryChain
  cases ss with
  | nil => rfl
  | cons s0 rest =>
    simp only
    rw [hp s0 List.mem_cons_self]
    simp only
    rw [if_pos]
    rw [List.all_eq_true]
    intro s hs
    rw [hp s hs]; simp

/-- **boundary of a single simplex**: its faces (as a set: deduplicated; under `Inv` the stored faces have no
repeats, so this is the face list itself) -/
theorem boundary_single {c : C} {s : Name} (hs : c.contains s = true) :
    boundaryChain c [s] = some (dedupL (c.facesOf s)) := by
  obtain ⟨s', hs', rfl, hl⟩ := mem_of_contains hs
  have ho : c.orderOf? s'.name = some s'.order := by unfold Cx.orderOf?; rw [hl]; rfl
  rw [v_boundaryChain_eq (p := s'.order) (by intro x hx; rw [List.mem_singleton] at hx; rw [hx, ho])]
  simp [symmDiff]

theorem boundary_single' {c : C} (hI : Inv c) {s : Name} (hs : c.contains s = true) :
    boundaryChain c [s] = some (c.facesOf s) := by
  rw [boundary_single hs]
  obtain ⟨s', hs', rfl, -⟩ := mem_of_contains hs
  rw [facesOf_of_mem hI hs', dedupL_of_nodup (hI.faces_len hs').1]

example : viewsExV.contains (.u 123) = true ∧
    boundaryChain viewsExV [.u 123] = some [.auto 1 0, .auto 1 1, .auto 1 2] := ⟨rfl, rfl⟩

/-- **boundary is the mod-2 sum**: for a chain `ss` (simplices all of order `p`) a name is in `boundary(ss)` iff it
is a face of an odd number of members of `ss`. The count is `(ss.filter …).length`, i.e. with multiplicity; for a
repeat-free `ss` it is the number of members having `f` as a face. The result has no repeats. (Needs no
invariant.) -/
theorem boundary_mod2 {c : C} {ss : List Name} {p : Nat} (hp : ∀ s ∈ ss, c.orderOf? s = some p) :
    ∃ l, boundaryChain c ss = some l ∧ l.Nodup ∧
      ∀ f, f ∈ l ↔ (ss.filter (fun s => (c.facesOf s).contains f)).length % 2 = 1 := by
  refine ⟨_, v_boundaryChain_eq hp, ?_⟩
  obtain ⟨h1, h2⟩ := foldl_symmDiff_spec (fun s => dedupL (c.facesOf s)) (fun s => nodup_dedupL _) ss []
    List.nodup_nil
  refine ⟨h1, fun f => ?_⟩
  rw [h2 f]
  have : (ss.filter (fun s => (dedupL (c.facesOf s)).contains f)) =
      (ss.filter (fun s => (c.facesOf s).contains f)) := by
    apply List.filter_congr
    intro s _
    rw [Bool.eq_iff_iff, List.contains_iff_mem, List.contains_iff_mem, mem_dedupL]
  rw [this]; simp

example : (∀ s ∈ [Name.auto 1 0, .auto 1 1, .u 34], viewsExV.orderOf? s = some 1) ∧
    boundaryChain viewsExV [.auto 1 0, .auto 1 1, .u 34] = some [.u 2, .u 4] := ⟨by decide, rfl⟩

/-- a list that is not a chain of `c` is rejected (`isChain(ss, fatal=True)` raises) -/
theorem boundary_rejects {c : C} {ss : List Name}
    (h : ∃ s ∈ ss, ∀ s0 ∈ ss.head?, c.orderOf? s ≠ c.orderOf? s0 ∨ c.orderOf? s = none) :
    boundaryChain c ss = none := by
  obtain ⟨s, hs, hh⟩ := h
  unfold boundaryChain
  cases ss with
  | nil => simp at hs
  | cons s0 rest =>
    simp only
    have hh := hh s0 (by simp)
    cases ho : c.orderOf? s0 with
    | none => rfl
    | some p =>
      simp only
      rw [if_neg]
      rw [List.all_eq_true]
      intro hall
      have := hall s hs
      simp only [beq_iff_eq] at this
      rw [ho] at hh
      rcases hh with hh | hh
      · exact hh this
      · rw [hh] at this; cases this

/-- **the boundary of a boundary is empty**: for a simplex of order ≥ 2 -/
theorem boundary_boundary_empty {c : C} (hI : Inv c) {s : Name} {k : Nat} (hs : c.orderOf? s = some k)
    (hk : 2 ≤ k) : boundaryChain c (c.facesOf s) = some [] := by
  obtain ⟨s', hs', rfl, rfl, -⟩ := orderOf_some hs
  rw [facesOf_of_mem hI hs']
  obtain ⟨-, -, hfex, -⟩ := hI.higher s' hs' (by omega)
  have hp : ∀ f ∈ s'.faces, c.orderOf? f = some (s'.order - 1) := by
    intro f hf
    obtain ⟨t, ht, rfl, hto⟩ := hfex f hf
    rw [orderOf_of_mem hI ht]; congr 1; omega
  obtain ⟨l, hl, -, hmem⟩ := boundary_mod2 hp
  rw [hl]
  congr 1
  rw [List.eq_nil_iff_forall_not_mem]
  intro f hf
  have := bd_bd_even hI hs' hk f
  rw [(hmem f).mp hf] at this
  cases this

example : Inv viewsExV ∧ viewsExV.orderOf? (.u 123) = some 2 ∧ boundaryChain viewsExV (viewsExV.facesOf (.u 123)) = some [] :=
  ⟨viewsExV_inv, rfl, rfl⟩

/-! ## C04 (a): the size of a closure -/

theorem closureLevels_nodup (c : C) : ∀ (k : Nat) (lvl : List Name), lvl.Nodup →
    ∀ l ∈ closureLevels c lvl k, l.Nodup := by
  intro k
  induction k with
  | zero => intro lvl h l hl; simp only [closureLevels, List.mem_singleton] at hl; rw [hl]; exact h
  | succ k ih =>
    intro lvl h l hl
    simp only [closureLevels, List.mem_cons] at hl
    rcases hl with rfl | hl
    · exact h
    · exact ih _ (nodup_dedupL _) l hl

theorem top_exact {c : C} (hI : Inv c) {s : Simp Name} (hs : s ∈ c.simps) :
    ExactLevel c s s.order [s.name] := by
  intro n
  simp only [List.mem_singleton]
  constructor
  · rintro rfl; exact ⟨s, hs, rfl, rfl, Finset.Subset.refl _⟩
  · rintro ⟨t, ht, rfl, hto, htp⟩
    have hc : t.pts = s.pts := by
      apply Finset.eq_of_subset_of_card_le htp
      rw [hI.pts_card ht, hI.pts_card hs, hto]
    rw [pts_inj hI ht hs hc]

/-- the levels of the closure walk are pairwise disjoint (they hold simplices of different orders) -/
theorem closureLevels_disjoint {c : C} (hI : Inv c) {s : Simp Name} (hs : s ∈ c.simps) :
    (closureLevels c [s.name] s.order).Pairwise List.Disjoint := by
  have hex := closureLevels_exact hI hs s.order [s.name] (Nat.le_refl _) (top_exact hI hs)
  have hlen : (closureLevels c [s.name] s.order).length = s.order + 1 := closureLevels_length _ _ _
  rw [List.pairwise_iff_getElem]
  intro i j hi hj hij x hxi hxj
  obtain ⟨t, ht, htn, hto, -⟩ := ((hex i hi) x).mp hxi
  obtain ⟨t', ht', htn', hto', -⟩ := ((hex j hj) x).mp hxj
  have : t = t' := hI.name_inj ht ht' (htn.trans htn'.symm)
  subst this
  omega

/-- the closure, as a set of point sets, is the set of non-empty subsets of the points of `s` -/
theorem closure_image {c : C} (hI : Inv c) {s : Simp Name} (hs : s ∈ c.simps) {l : List Name}
    (hmem : ∀ n, n ∈ l ↔ ∃ t ∈ c.simps, t.name = n ∧ t.pts ⊆ s.pts) :
    l.toFinset.image (fun n => (c.basisOf n).toFinset) = s.pts.powerset.erase ∅ ∧
    Set.InjOn (fun n => (c.basisOf n).toFinset) (l.toFinset : Set Name) := by
  constructor
  · ext X
    simp only [Finset.mem_image, List.mem_toFinset, Finset.mem_erase, Finset.mem_powerset, hmem]
    constructor
    · rintro ⟨n, ⟨t, ht, rfl, htp⟩, rfl⟩
      rw [basisOf_of_mem hI ht]
      refine ⟨?_, htp⟩
      intro he
      have := hI.pts_card ht
      rw [Simp.pts, he] at this
      simp at this
    · rintro ⟨hne, hX⟩
      obtain ⟨t, ht, htp⟩ := hI.subset_simplex hs hX (Finset.nonempty_iff_ne_empty.mpr hne)
      exact ⟨t.name, ⟨t, ht, rfl, htp ▸ hX⟩, by rw [basisOf_of_mem hI ht]; exact htp⟩
  · intro a ha b hb hab
    simp only [Finset.mem_coe, List.mem_toFinset, hmem] at ha hb
    obtain ⟨t, ht, rfl, -⟩ := ha
    obtain ⟨t', ht', rfl, -⟩ := hb
    simp only [basisOf_of_mem hI ht, basisOf_of_mem hI ht'] at hab
    rw [pts_inj hI ht ht' hab]

/-- **the closure of an order-`k` simplex has `2^(k+1) - 1` members, without repeats** (either listing direction) -/
theorem closure_card {c : C} (hI : Inv c) {s : Name} {k : Nat} (hs : c.orderOf? s = some k) (rev : Bool) :
    ∃ l, closureOf c s rev false = some l ∧ l.Nodup ∧ l.length = 2 ^ (k + 1) - 1 := by
  classical
  obtain ⟨s', hs', rfl, rfl, -⟩ := orderOf_some hs
  obtain ⟨l, hl, hmem⟩ := closureOf_spec hI hs' rev false
  refine ⟨l, hl, ?_⟩
  have hnd : l.Nodup := by
    have hl' := hl
    unfold closureOf at hl'
    rw [hs] at hl'
    simp only [Bool.false_eq_true, if_false, Option.some.injEq] at hl'
    have h1 := closureLevels_nodup c s'.order [s'.name] (List.nodup_singleton _)
    have h2 := closureLevels_disjoint hI hs'
    rw [← hl']
    cases rev
    · simp only [Bool.false_eq_true, if_false]
      rw [List.nodup_flatten]
      refine ⟨fun x hx => h1 x (List.mem_reverse.mp hx), ?_⟩
      rw [List.pairwise_reverse]
      exact h2.imp (fun h => h.symm)
    · simp only [if_true]
      rw [List.nodup_flatten]
      exact ⟨h1, h2⟩
  refine ⟨hnd, ?_⟩
  have hmem' : ∀ n, n ∈ l ↔ ∃ t ∈ c.simps, t.name = n ∧ t.pts ⊆ s'.pts := by
    intro n; rw [hmem n]; simp
  obtain ⟨himg, hinj⟩ := closure_image hI hs' hmem'
  rw [← List.toFinset_card_of_nodup hnd, ← Finset.card_image_of_injOn hinj, himg,
    Finset.card_erase_of_mem (Finset.empty_mem_powerset _), Finset.card_powerset, hI.pts_card hs']

example : Inv viewsExV ∧ viewsExV.orderOf? (.u 123) = some 2 ∧
    (closureOf viewsExV (.u 123) false false).map List.length = some (2 ^ (2 + 1) - 1) := ⟨viewsExV_inv, rfl, rfl⟩

/-! ## C04 (b): `partOf` -/

/-- a complex with a simplex of order `k` has more than `k` simplices (its basis points are among them) -/
theorem order_lt_length {c : C} (hI : Inv c) {t : Simp Name} (ht : t ∈ c.simps) : t.order < c.simps.length := by
  obtain ⟨hnd, hlen⟩ := hI.basis_card ht
  have hsub : t.basis ⊆ c.simps.map (·.name) := by
    intro p hp
    obtain ⟨u, hu, hun, -⟩ := hI.basis_point t.order ht rfl p hp
    exact List.mem_map.mpr ⟨u, hu, hun⟩
  have := (List.subperm_of_subset hnd hsub).length_le
  rw [List.length_map] at this
  omega

/-- **`partOf` is exact**: the public function returns, without repeats, exactly the pairs `(j, n)` where `n` names
a simplex of order `j` whose point set strictly contains that of `s` -/
theorem partOf_spec {c : C} (hI : Inv c) {s : Simp Name} (hs : s ∈ c.simps) :
    ∃ ps, partOfPairs c s.name = some ps ∧ ps.Nodup ∧
      ∀ j n, (j, n) ∈ ps ↔ ∃ t ∈ c.simps, t.name = n ∧ t.order = j ∧ s.pts ⊂ t.pts := by
  unfold partOfPairs
  rw [orderOf_of_mem hI hs]
  refine ⟨_, rfl, nodup_dedupL _, ?_⟩
  intro j n
  rw [mem_dedupL, partOfAux_spec hI hs c.simps.length
    (fun t ht => by have := order_lt_length hI ht; omega) j n]
  constructor
  · rintro ⟨t, ht, rfl, rfl, hlt, hsub⟩
    refine ⟨t, ht, rfl, rfl, hsub, ?_⟩
    intro hts
    have := order_le_of_pts_subset hI ht hs hts
    omega
  · rintro ⟨t, ht, rfl, rfl, hss⟩
    refine ⟨t, ht, rfl, rfl, ?_, hss.1⟩
    have := Finset.card_lt_card hss
    rw [hI.pts_card hs, hI.pts_card ht] at this
    omega

example : Inv viewsExV ∧ (⟨.u 3, 0, [], [.u 3]⟩ : Simp Name) ∈ viewsExV.simps ∧
    partOfPairs viewsExV (.u 3) = some [(1, .auto 1 1), (1, .auto 1 2), (2, .u 123), (1, .u 34)] :=
  ⟨viewsExV_inv, by decide, rfl⟩

/-- an unknown simplex is rejected (KeyError) -/
theorem partOfPairs_unknown {c : C} {s : Name} (h : c.contains s = false) : partOfPairs c s = none := by
  unfold partOfPairs Cx.orderOf?
  unfold Cx.contains at h
  cases hl : c.lookup s with
  | none => rfl
  | some x => rw [hl] at h; cases h

/-! ## C04 (c): closure and star are dual -/

/-- membership in the closure, for two simplices of the complex: containment of point sets -/
theorem mem_closure_iff {c : C} (hI : Inv c) {s t : Simp Name} (hs : s ∈ c.simps) (ht : t ∈ c.simps)
    {l : List Name} {rev : Bool} (hl : closureOf c s.name rev false = some l) : t.name ∈ l ↔ t.pts ⊆ s.pts := by
  obtain ⟨l', hl', hmem⟩ := closureOf_spec hI hs rev false
  rw [hl] at hl'
  obtain rfl := Option.some.inj hl'
  rw [hmem]
  constructor
  · rintro ⟨u, hu, hun, hup, -⟩
    rw [← hI.name_inj hu ht hun]; exact hup
  · intro h; exact ⟨t, ht, rfl, h, by simp⟩

/-- **closure and star are dual**: `t ∈ closureOf(s) ↔ s ∈ partOf(t)`, where `partOf(t)` is `t` itself together
with the names of `partOfPairs c t` -/
theorem closure_part_dual {c : C} (hI : Inv c) {s t : Name} (hs : c.contains s = true) (ht : c.contains t = true) :
    ∃ l ps, closureOf c s false false = some l ∧ partOfPairs c t = some ps ∧
      (t ∈ l ↔ (s = t ∨ s ∈ ps.map (·.2))) := by
  obtain ⟨s', hs', rfl, -⟩ := mem_of_contains hs
  obtain ⟨t', ht', rfl, -⟩ := mem_of_contains ht
  obtain ⟨l, hl, -⟩ := closureOf_spec hI hs' false false
  obtain ⟨ps, hps, -, hmem⟩ := partOf_spec hI ht'
  refine ⟨l, ps, hl, hps, ?_⟩
  rw [mem_closure_iff hI hs' ht' hl]
  constructor
  · intro hsub
    by_cases heq : t'.pts = s'.pts
    · left; rw [pts_inj hI ht' hs' heq]
    · right
      rw [List.mem_map]
      refine ⟨(s'.order, s'.name), (hmem _ _).mpr ⟨s', hs', rfl, rfl, ?_⟩, rfl⟩
      exact Finset.ssubset_iff_subset_ne.mpr ⟨hsub, heq⟩
  · rintro (heq | hin)
    · rw [hI.name_inj hs' ht' heq]
    · obtain ⟨⟨j, n⟩, hjn, hn⟩ := List.mem_map.mp hin
      simp only at hn
      subst hn
      obtain ⟨u, hu, hun, -, hss⟩ := (hmem _ _).mp hjn
      rw [← hI.name_inj hu hs' hun]
      exact hss.1

example : Inv viewsExV ∧ viewsExV.contains (.u 123) = true ∧ viewsExV.contains (.u 3) = true ∧
    Name.u 3 ∈ (closureOf viewsExV (.u 123) false false).getD [] ∧
    Name.u 123 ∈ ((partOfPairs viewsExV (.u 3)).getD []).map (·.2) := ⟨viewsExV_inv, rfl, rfl, by decide, by decide⟩

/-! ## C04 (d): `disjoint` -/

theorem closureOf_some {c : C} {s : Name} (hs : c.contains s = true) (rev ex : Bool) :
    ∃ l, closureOf c s rev ex = some l := by
  obtain ⟨s', -, -, hl⟩ := mem_of_contains hs
  unfold closureOf Cx.orderOf?
  rw [hl]
  exact ⟨_, rfl⟩

/-- two closures share no name iff the two simplices share no point -/
theorem closures_disjoint_iff {c : C} (hI : Inv c) {a b : Simp Name} (ha : a ∈ c.simps) (hb : b ∈ c.simps)
    {la lb : List Name} (hla : closureOf c a.name false false = some la)
    (hlb : closureOf c b.name false false = some lb) :
    (∀ z ∈ la, z ∉ lb) ↔ Disjoint a.pts b.pts := by
  constructor
  · intro h
    rw [Finset.disjoint_left]
    intro p hpa hpb
    obtain ⟨t, ht, htn, ht0, -⟩ := hI.basis_point a.order ha rfl p (by simpa [Simp.pts] using hpa)
    have hsing := point_pts hI ht ht0
    apply h t.name
    · rw [mem_closure_iff hI ha ht hla, hsing, htn]; simpa using hpa
    · rw [mem_closure_iff hI hb ht hlb, hsing, htn]; simpa using hpb
  · intro h z hza hzb
    obtain ⟨l', hl', hmema⟩ := closureOf_spec hI ha false false
    rw [hla] at hl'; obtain rfl := Option.some.inj hl'
    obtain ⟨t, ht, rfl, hta, -⟩ := (hmema z).mp hza
    have htb := (mem_closure_iff hI hb ht hlb).mp hzb
    have hcard := hI.pts_card ht
    obtain ⟨p, hp⟩ : t.pts.Nonempty := Finset.card_pos.mp (by omega)
    exact (Finset.disjoint_left.mp h) (hta hp) (htb hp)

/-- **`disjoint` is exact**: for simplices of `c` the answer is `true` iff the closures are pairwise disjoint.
(As in Python a repeated member makes the answer `false`: a closure is never disjoint from itself.) -/
theorem disjointQ_spec {c : C} {ss : List Name} (hss : ∀ s ∈ ss, c.contains s = true) :
    ∃ b, disjointQ c ss = some b ∧
      (b = true ↔ ss.Pairwise (fun x y => ∀ lx ly, closureOf c x false false = some lx →
        closureOf c y false false = some ly → ∀ z ∈ lx, z ∉ ly)) := by
  unfold disjointQ
  rw [if_pos (List.all_eq_true.mpr hss)]
  refine ⟨_, rfl, ?_⟩
  rw [Disj.disjointL_iff, List.pairwise_map]
  constructor
  · apply List.Pairwise.imp_of_mem
    intro x y hx hy h lx ly hlx hly
    rw [hlx, hly] at h
    exact h
  · apply List.Pairwise.imp_of_mem
    intro x y hx hy h
    obtain ⟨lx, hlx⟩ := closureOf_some (hss x hx) false false
    obtain ⟨ly, hly⟩ := closureOf_some (hss y hy) false false
    rw [hlx, hly]
    exact h lx ly hlx hly

/-- the same in terms of points: under `Inv`, `disjoint(ss)` is `true` iff the members pairwise share no point -/
theorem disjointQ_spec_pts {c : C} (hI : Inv c) {ss : List Name} (hss : ∀ s ∈ ss, c.contains s = true) :
    ∃ b, disjointQ c ss = some b ∧
      (b = true ↔ ss.Pairwise (fun x y => Disjoint (c.basisOf x).toFinset (c.basisOf y).toFinset)) := by
  obtain ⟨b, hb, hiff⟩ := disjointQ_spec hss
  refine ⟨b, hb, ?_⟩
  rw [hiff]
  have key : ∀ x ∈ ss, ∀ y ∈ ss,
      (∀ lx ly, closureOf c x false false = some lx → closureOf c y false false = some ly → ∀ z ∈ lx, z ∉ ly) ↔
        Disjoint (c.basisOf x).toFinset (c.basisOf y).toFinset := by
    intro x hx y hy
    obtain ⟨a, ha, rfl, -⟩ := mem_of_contains (hss x hx)
    obtain ⟨b', hb', rfl, -⟩ := mem_of_contains (hss y hy)
    obtain ⟨lx, hlx⟩ := closureOf_some (hss _ hx) false false
    obtain ⟨ly, hly⟩ := closureOf_some (hss _ hy) false false
    rw [basisOf_of_mem hI ha, basisOf_of_mem hI hb']
    have hcd := closures_disjoint_iff hI ha hb' hlx hly
    simp only [Simp.pts] at hcd
    rw [← hcd]
    constructor
    · intro h; exact h lx ly hlx hly
    · intro h lx' ly' hlx' hly'
      rw [hlx] at hlx'; rw [hly] at hly'
      obtain rfl := Option.some.inj hlx'
      obtain rfl := Option.some.inj hly'
      exact h
  constructor
  · apply List.Pairwise.imp_of_mem
    intro x y hx hy h; exact (key x hx y hy).mp h
  · apply List.Pairwise.imp_of_mem
    intro x y hx hy h; exact (key x hx y hy).mpr h

example : Inv viewsExV ∧ (∀ s ∈ [Name.u 34, .auto 1 0], viewsExV.contains s = true) ∧
    disjointQ viewsExV [.u 34, .auto 1 0] = some true ∧ disjointQ viewsExV [.u 34, .u 123] = some false :=
  ⟨viewsExV_inv, by decide, rfl, rfl⟩

/-- an unknown simplex is rejected (KeyError) -/
theorem disjointQ_unknown {c : C} {ss : List Name} (h : ∃ s ∈ ss, c.contains s = false) :
    disjointQ c ss = none := by
  unfold disjointQ
  rw [if_neg]
  rw [List.all_eq_true]
  intro hall
  obtain ⟨s, hs, hc⟩ := h
  rw [hall s hs] at hc; cases hc

/-! ## C04 (e): queries only return names of the complex -/

theorem closureOf_names_mem {c : C} (hI : Inv c) {s : Name} {rev ex : Bool} {l : List Name}
    (h : closureOf c s rev ex = some l) : ∀ n ∈ l, c.contains n = true := by
  cases ho : c.orderOf? s with
  | none => unfold closureOf at h; rw [ho] at h; cases h
  | some k =>
    obtain ⟨s', hs', rfl, -, -⟩ := orderOf_some ho
    obtain ⟨l', hl', hmem⟩ := closureOf_spec hI hs' rev ex
    rw [h] at hl'; obtain rfl := Option.some.inj hl'
    intro n hn
    obtain ⟨t, ht, rfl, -⟩ := (hmem n).mp hn
    exact contains_of_mem ht

theorem partOfPairs_names_mem {c : C} (hI : Inv c) {s : Name} {ps : List (Nat × Name)}
    (h : partOfPairs c s = some ps) : ∀ p ∈ ps, c.contains p.2 = true ∧ c.orderOf? p.2 = some p.1 := by
  cases ho : c.orderOf? s with
  | none => unfold partOfPairs at h; rw [ho] at h; cases h
  | some k =>
    obtain ⟨s', hs', rfl, -, -⟩ := orderOf_some ho
    obtain ⟨ps', hps', -, hmem⟩ := partOf_spec hI hs'
    rw [h] at hps'; obtain rfl := Option.some.inj hps'
    rintro ⟨j, n⟩ hp
    obtain ⟨t, ht, rfl, rfl, -⟩ := (hmem j n).mp hp
    exact ⟨contains_of_mem ht, orderOf_of_mem hI ht⟩

theorem cofaces_names_mem {c : C} {s n : Name} (h : n ∈ c.cofaces s) : c.contains n = true := by
  unfold Cx.cofaces at h
  cases ho : c.orderOf? s with
  | none => rw [ho] at h; simp at h
  | some k =>
    rw [ho] at h
    simp only [List.mem_map, List.mem_filter, mem_ofOrder] at h
    obtain ⟨t, ⟨⟨ht, -⟩, -⟩, rfl⟩ := h
    exact contains_of_mem ht

theorem simplexWithBasis_names_mem {c : C} {bs : List Name} {n : Name} (h : simplexWithBasis c bs = some n) :
    c.contains n = true := by
  unfold simplexWithBasis at h
  split at h
  · cases h
  · rename_i hg
    simp only [Bool.not_eq_true', Bool.not_eq_false] at hg
    split at h
    · cases h
    · rename_i b
      obtain rfl := Option.some.inj h
      have := List.all_eq_true.mp hg b (by simp)
      simp only [beq_iff_eq] at this
      obtain ⟨t, ht, rfl, -⟩ := orderOf_some this
      exact contains_of_mem ht
    · obtain ⟨t, htf, rfl⟩ := Option.map_eq_some_iff.mp h
      exact contains_of_mem (mem_ofOrder.mp (List.mem_of_find?_eq_some htf)).1

theorem simplexWithFaces_names_mem {c : C} {fs : List Name} {n : Name} (h : simplexWithFaces c fs = some n) :
    c.contains n = true := by
  obtain ⟨t, ht, rfl, -⟩ := simplexWithFaces_some h
  exact contains_of_mem ht

/-- **every name returned by a query names a simplex of the complex** -/
theorem query_names_mem {c : C} (hI : Inv c) :
    (∀ s rev ex l, closureOf c s rev ex = some l → ∀ n ∈ l, c.contains n = true) ∧
    (∀ s ps, partOfPairs c s = some ps → ∀ p ∈ ps, c.contains p.2 = true) ∧
    (∀ s, ∀ n ∈ c.cofaces s, c.contains n = true) ∧
    (∀ bs n, simplexWithBasis c bs = some n → c.contains n = true) ∧
    (∀ fs n, simplexWithFaces c fs = some n → c.contains n = true) :=
  ⟨fun _ _ _ _ h => closureOf_names_mem hI h,
   fun _ _ h p hp => (partOfPairs_names_mem hI h p hp).1,
   fun _ _ h => cofaces_names_mem h,
   fun _ _ h => simplexWithBasis_names_mem h,
   fun _ _ h => simplexWithFaces_names_mem h⟩

example : Inv viewsExV ∧ simplexWithBasis viewsExV [.u 3, .u 1] = some (.auto 1 1) ∧
    simplexWithFaces viewsExV [.auto 1 2, .auto 1 0, .auto 1 1] = some (.u 123) := ⟨viewsExV_inv, rfl, rfl⟩

end Flat
