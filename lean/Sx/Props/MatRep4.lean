import Sx.Props.MatRep3

/-! # Layer R — part 4: `addSimplex` of a simplex of order `k ≥ 1` -/
namespace MatRep
open Flat M2
set_option linter.unusedSectionVars false

/-! ## the two new columns -/

/-- the boundary column marks exactly the rows whose name is among the faces -/
theorem bdCol_spec {r : Rep} (hI : MInv r) (k : Nat) (fs : List Name) {row : Nat}
    (hrow : row < (r.idx (k - 1)).length) :
    r.bdCol k fs row = fs.contains (r.idx (k - 1))[row] := by
  unfold Rep.bdCol
  rw [Bool.eq_iff_iff, List.any_eq_true, List.contains_iff_mem]
  constructor
  · rintro ⟨f, hf, h⟩
    have h' : r.find? f = some (k - 1, row) := by simpa using h
    have := (find?_some h').2
    rw [List.getElem?_eq_getElem hrow] at this
    rw [Option.some.inj this]; exact hf
  · intro h
    refine ⟨_, h, ?_⟩
    rw [find?_of_get hI (List.getElem?_eq_getElem hrow)]
    simp

theorem mem_basisOf {r : Rep} {f b : Name} (h : b ∈ r.basisOf f) : ∃ row : Nat, (r.idx 0)[row]? = some b := by
  unfold Rep.basisOf at h
  cases hf : r.find? f with
  | none => rw [hf] at h; cases h
  | some p =>
    obtain ⟨k', i'⟩ := p
    rw [hf] at h
    simp only at h
    unfold Rep.basisAt at h
    obtain ⟨row, -, hr⟩ := mem_decodeCol.mp h
    exact ⟨row, hr⟩

/-- the basis column marks exactly the points lying in the basis of some face -/
theorem bsCol_spec {r : Rep} (hI : MInv r) (fs : List Name) {row : Nat} (hrow : row < (r.idx 0).length) :
    r.bsCol fs row = fs.any (fun f => (r.basisOf f).contains (r.idx 0)[row]) := by
  unfold Rep.bsCol
  congr 1
  funext f
  rw [Bool.eq_iff_iff, List.any_eq_true, List.contains_iff_mem]
  constructor
  · rintro ⟨b, hb, h⟩
    obtain ⟨row', hr'⟩ := mem_basisOf hb
    have hfb := find?_of_get hI hr'
    unfold Rep.indexOf? at h
    rw [hfb] at h
    have : row' = row := by simpa using h
    subst this
    rw [List.getElem?_eq_getElem hrow] at hr'
    rw [Option.some.inj hr']; exact hb
  · intro h
    refine ⟨_, h, ?_⟩
    unfold Rep.indexOf?
    rw [find?_of_get hI (List.getElem?_eq_getElem hrow)]
    simp

theorem prep_bdCol {r : Rep} (hI : MInv r) {k : Nat} (hk : k ≤ r.len) (fs : List Name) :
    (prep r k).bdCol k fs = r.bdCol k fs := by
  unfold Rep.bdCol
  funext row
  congr 1
  funext f
  rw [prep_find? hI hk]

theorem prep_bsCol {r : Rep} (hI : MInv r) {k : Nat} (hk : k ≤ r.len) (fs : List Name) :
    (prep r k).bsCol fs = r.bsCol fs := by
  unfold Rep.bsCol
  funext row
  congr 1
  funext f
  rw [prep_basisOf hI hk]
  congr 1
  funext b
  unfold Rep.indexOf?
  rw [prep_find? hI hk]

/-! ## the state after adding a simplex of order `k ≥ 1` -/

/-- the boundary matrix of order `k` before the new column is appended -/
def bdBefore (r : Rep) (k : Nat) : Mat := if k = r.len then zeros (r.idx (k - 1)).length 0 else r.bd k
/-- the basis matrix of order `k` before the new column is appended -/
def bsBefore (r : Rep) (k : Nat) : Mat := if k = r.len then zeros (r.idx 0).length 0 else r.bs k

section higher
variable {r : Rep} (hI : MInv r) {k : Nat} (hk : k ≤ r.len) (hk1 : 0 < k) (fs : List Name) (id : Name)
include hI hk hk1

theorem bdBefore_shape : (bdBefore r k).m = (r.idx (k - 1)).length ∧ (bdBefore r k).n = (r.idx k).length := by
  unfold bdBefore
  split_ifs with h
  · rw [idx_oob r (by omega : r.len ≤ k)]; exact ⟨rfl, rfl⟩
  · exact hI.bdShape k hk1 (by omega)

theorem bsBefore_shape : (bsBefore r k).m = (r.idx 0).length ∧ (bsBefore r k).n = (r.idx k).length := by
  unfold bsBefore
  split_ifs with h
  · rw [idx_oob r (by omega : r.len ≤ k)]; exact ⟨rfl, rfl⟩
  · exact hI.bsShape k (by omega)

theorem addHigher_len : ((prep r k).addHigher k fs id).len = max r.len (k + 1) := by
  unfold Rep.addHigher Rep.len
  simp only [List.length_modify]
  exact prep_len hI hk

theorem addHigher_idx (j : Nat) :
    ((prep r k).addHigher k fs id).idx j = if j = k then r.idx k ++ [id] else r.idx j := by
  unfold Rep.addHigher Rep.idx
  simp only
  rw [getD_modify]
  have h1 : k < (prep r k).indices.length := by have := prep_len hI hk; unfold Rep.len at this; omega
  have h2 := prep_idx hI hk j
  unfold Rep.idx at h2
  by_cases hj : j = k
  · rw [if_pos ⟨hj, h1⟩, if_pos hj, h2, hj]
  · rw [if_neg (fun hh => hj hh.1), if_neg hj, h2]

theorem addHigher_bd (j : Nat) : ((prep r k).addHigher k fs id).bd j =
    if j = k then appendCol (bdBefore r k) (r.bdCol k fs)
    else if j = k + 1 ∧ k + 1 < r.len then appendZeroRow (r.bd j) else r.bd j := by
  unfold Rep.addHigher Rep.bd
  simp only
  rw [getD_modify]
  have h1 : k < (prep r k).boundaries.length := by rw [prep_lenB hI hk]; omega
  have h2 := prep_bd hI hk j
  unfold Rep.bd at h2
  rw [h2, prep_bdCol hI hk]
  unfold bdBefore
  by_cases hj : j = k
  · subst hj
    rw [if_pos ⟨rfl, h1⟩, if_pos rfl]
    by_cases hl : j = r.len
    · rw [if_pos ⟨rfl, hl⟩, if_pos hl]
    · rw [if_neg (fun hh => hl hh.2), if_neg hl, if_neg (by omega)]; rfl
  · rw [if_neg (fun hh => hj hh.1), if_neg hj, if_neg (fun hh => hj hh.1)]

theorem addHigher_bs (j : Nat) : ((prep r k).addHigher k fs id).bs j =
    if j = k then appendCol (bsBefore r k) (r.bsCol fs) else r.bs j := by
  unfold Rep.addHigher Rep.bs
  simp only
  rw [getD_modify]
  have h1 : k < (prep r k).bases.length := by rw [prep_lenS hI hk]; omega
  have h2 := prep_bs hI hk j
  unfold Rep.bs at h2
  rw [h2, prep_bsCol hI hk]
  unfold bsBefore
  by_cases hj : j = k
  · subst hj
    rw [if_pos ⟨rfl, h1⟩, if_pos rfl]
    by_cases hl : j = r.len
    · rw [if_pos ⟨rfl, hl⟩, if_pos hl]
    · rw [if_neg (fun hh => hl hh.2), if_neg hl]; rfl
  · rw [if_neg (fun hh => hj hh.1), if_neg hj, if_neg (fun hh => hj hh.1)]

/-- old columns decode as before -/
theorem addHigher_old (j i : Nat) (hi : i < (r.idx j).length) :
    ((prep r k).addHigher k fs id).facesAt j i = r.facesAt j i ∧
    ((prep r k).addHigher k fs id).basisAt j i = r.basisAt j i := by
  have hj : j < r.len := by
    by_contra h; rw [idx_oob r (by omega)] at hi; simp at hi
  constructor
  · unfold Rep.facesAt
    by_cases h0 : j = 0
    · rw [if_pos h0, if_pos h0]
    · rw [if_neg h0, if_neg h0, addHigher_idx hI hk hk1, addHigher_bd hI hk hk1]
      obtain ⟨hm, hn⟩ := hI.bdShape j (by omega) hj
      by_cases hjk : j = k
      · subst hjk
        rw [if_neg (by omega), if_pos rfl]
        have : bdBefore r j = r.bd j := by unfold bdBefore; rw [if_neg (by omega)]
        rw [this]
        exact decode_appendCol_old _ _ _ hm.symm (by omega)
      · rw [if_neg hjk]
        by_cases hj1 : j = k + 1
        · subst hj1
          rw [Nat.add_sub_cancel, if_pos rfl, if_pos ⟨rfl, hj⟩]
          rw [Nat.add_sub_cancel] at hm
          exact decode_appendZeroRow _ _ _ hm.symm (by omega)
        · rw [if_neg (by omega), if_neg (fun hh => hj1 hh.1)]
  · unfold Rep.basisAt
    rw [addHigher_idx hI hk hk1, addHigher_bs hI hk hk1, if_neg (by omega)]
    obtain ⟨hm, hn⟩ := hI.bsShape j hj
    by_cases hjk : j = k
    · subst hjk
      rw [if_pos rfl]
      have : bsBefore r j = r.bs j := by unfold bsBefore; rw [if_neg (by omega)]
      rw [this]
      exact decode_appendCol_old _ _ _ hm.symm (by omega)
    · rw [if_neg hjk]

/-- the new columns decode to Layer A's canonical face and basis lists -/
theorem addHigher_new :
    ((prep r k).addHigher k fs id).facesAt k (r.idx k).length = canonFaces (abs r) k fs ∧
    ((prep r k).addHigher k fs id).basisAt k (r.idx k).length = canonBasis (abs r) fs := by
  constructor
  · unfold Rep.facesAt
    rw [if_neg (by omega), addHigher_idx hI hk hk1, addHigher_bd hI hk hk1, if_neg (by omega), if_pos rfl]
    obtain ⟨hm, hn⟩ := bdBefore_shape hI hk hk1
    rw [← hn, decode_appendCol_new _ _ _ hm.symm]
    unfold canonFaces
    rw [ofOrder_abs, level_names]
    apply filterMap_range_eq_filter
    intro row hrow
    exact bdCol_spec hI k fs hrow
  · unfold Rep.basisAt
    rw [addHigher_idx hI hk hk1, addHigher_bs hI hk hk1, if_neg (by omega), if_pos rfl]
    obtain ⟨hm, hn⟩ := bsBefore_shape hI hk hk1
    rw [← hn, decode_appendCol_new _ _ _ hm.symm]
    unfold canonBasis
    rw [ofOrder_abs, level_names]
    have : (fun p => fs.any (fun f => ((abs r).basisOf f).contains p)) =
        (fun p => fs.any (fun f => (r.basisOf f).contains p)) := by
      funext p; congr 1; funext f; rw [basisOf_abs hI]
    rw [this]
    apply filterMap_range_eq_filter
    intro row hrow
    exact bsCol_spec hI fs hrow

/-- **Layer A sees one `insertSorted`** -/
theorem abs_addHigher : (abs ((prep r k).addHigher k fs id)).simps =
    insertSorted ⟨id, k, canonFaces (abs r) k fs, canonBasis (abs r) fs⟩ (abs r).simps :=
  abs_insert hk (addHigher_len hI hk hk1 fs id) (addHigher_idx hI hk hk1 fs id)
    (addHigher_old hI hk hk1 fs id) (addHigher_new hI hk hk1 fs id)

theorem addHigher_seq : ((prep r k).addHigher k fs id).seq = r.seq := by
  unfold Rep.addHigher; exact prep_seq hI hk

/-- the invariant survives, provided the new name is new -/
theorem MInv_addHigher (hid : r.find? id = none) : MInv ((prep r k).addHigher k fs id) := by
  have hlen := addHigher_len hI hk hk1 fs id
  have hidxlen : ∀ j, (((prep r k).addHigher k fs id).idx j).length =
      if j = k then (r.idx k).length + 1 else (r.idx j).length := by
    intro j
    rw [addHigher_idx hI hk hk1]
    split_ifs
    · rw [List.length_append, List.length_singleton]
    · rfl
  obtain ⟨hbm, hbn⟩ := bdBefore_shape hI hk hk1
  obtain ⟨hsm, hsn⟩ := bsBefore_shape hI hk hk1
  refine ⟨?_, ?_, ?_, ?_, ?_, ?_, ?_⟩
  · show ((prep r k).boundaries.modify k _).length = ((prep r k).indices.modify k _).length
    rw [List.length_modify, List.length_modify, prep_lenB hI hk]
    exact (prep_len hI hk).symm
  · show ((prep r k).bases.modify k _).length = ((prep r k).indices.modify k _).length
    rw [List.length_modify, List.length_modify, prep_lenS hI hk]
    exact (prep_len hI hk).symm
  · intro _
    rw [addHigher_bd hI hk hk1, if_neg (by omega), if_neg (by omega)]
    exact hI.bd0 (by omega)
  · intro j hj0 hj
    rw [hlen] at hj
    rw [addHigher_bd hI hk hk1, hidxlen, hidxlen]
    have e1 : j - 1 = k → (r.idx (j - 1)).length = (r.idx k).length := fun h => by rw [h]
    have e2 : j = k → (r.idx j).length = (r.idx k).length := fun h => by rw [h]
    have e3 : j = k → (r.idx (j - 1)).length = (r.idx (k - 1)).length := fun h => by rw [h]
    by_cases hjk : j = k
    · rw [if_pos hjk, if_neg (by omega), if_pos hjk]
      refine ⟨?_, ?_⟩ <;> simp only [appendCol, mk_m, mk_n] <;> omega
    · have hjl : j < r.len := by omega
      obtain ⟨hm, hn⟩ := hI.bdShape j hj0 hjl
      rw [if_neg hjk, if_neg hjk]
      split_ifs <;> refine ⟨?_, ?_⟩ <;> (try simp only [appendZeroRow, mk_m, mk_n]) <;> omega
  · intro j hj
    rw [hlen] at hj
    rw [addHigher_bs hI hk hk1, hidxlen, hidxlen, if_neg (show ¬ (0 = k) by omega)]
    by_cases hjk : j = k
    · rw [if_pos hjk, if_pos hjk]
      refine ⟨?_, ?_⟩ <;> simp only [appendCol, mk_m, mk_n] <;> omega
    · have hjl : j < r.len := by omega
      rw [if_neg hjk, if_neg hjk]
      exact hI.bsShape j hjl
  · intro j hj
    rw [hlen] at hj
    rw [addHigher_bd hI hk hk1, addHigher_bs hI hk hk1]
    by_cases hjk : j = k
    · rw [if_pos hjk, if_pos hjk]; exact ⟨isMk_mk _ _ _, isMk_mk _ _ _⟩
    · have hjl : j < r.len := by omega
      rw [if_neg hjk, if_neg hjk]
      refine ⟨?_, (hI.isMk j hjl).2⟩
      split_ifs
      · exact isMk_mk _ _ _
      · exact (hI.isMk j hjl).1
  · intro j a j' a' x h1 h2
    have key : ∀ (j a : Nat), (((prep r k).addHigher k fs id).idx j)[a]? = some x →
        (r.idx j)[a]? = some x ∨ (j = k ∧ a = (r.idx k).length ∧ x = id) := by
      intro j a h
      rw [addHigher_idx hI hk hk1] at h
      split_ifs at h with hjk
      · rw [List.getElem?_append] at h
        split_ifs at h with ha
        · left; rw [hjk]; exact h
        · right
          have hx := List.getElem?_eq_some_iff.mp h
          obtain ⟨hlt, hget⟩ := hx
          simp only [List.length_singleton] at hlt
          have : a - (r.idx k).length = 0 := by omega
          simp only [this, List.getElem_cons_zero] at hget
          exact ⟨hjk, by omega, hget.symm⟩
      · left; exact h
    have hfresh : ∀ (j a : Nat), (r.idx j)[a]? ≠ some id := by
      intro j a h
      exact find?_none hid j (List.mem_of_getElem? h)
    rcases key j a h1 with h1' | ⟨e1, e2, e3⟩
    · rcases key j' a' h2 with h2' | ⟨f1, f2, f3⟩
      · exact hI.uniq _ _ _ _ _ h1' h2'
      · rw [f3] at h1'; exact absurd h1' (hfresh _ _)
    · rcases key j' a' h2 with h2' | ⟨f1, f2, f3⟩
      · rw [e3] at h2'; exact absurd h2' (hfresh _ _)
      · exact ⟨by rw [e1, f1], by rw [e2, f2]⟩

end higher

end MatRep
