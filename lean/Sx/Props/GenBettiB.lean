import Sx.Props.GenBetti

/-! finite Betti tables, part B (see GenBetti.lean) -/
namespace Flat.GenBetti
open Flat
set_option maxRecDepth 100000

theorem kSimplex_betti_5 : (List.range 7).map (bettiK (ks 5)) = [1,0,0,0,0,0,0] := by decide +kernel

end Flat.GenBetti
