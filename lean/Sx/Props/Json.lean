import Sx.Model
import Sx.Props.Copy
import Mathlib.Tactic.SplitIfs
import Mathlib.Data.List.Basic

/-! # C17 — the JSON layer: writing a complex out and reading it back gives the complex again

Model reading (`simplicial/file/json_simplicial.py`). `JSONSimplicialComplexEncoder.default` produces an object
whose `simplices` field is the list, for `s in o.simplices()` (listing order: ascending order of simplices,
within an order the order of addition), of `dict(id = s, faces = list(c.faces(s)), attributes = c[s])`:
this is `encode`. `as_simplicial_complex` makes an empty `SimplicialComplex()` and calls
`addSimplex(id = s['id'], fs = s['faces'], attr = s['attributes'])` for every entry in turn: this is `decode`
(the first exception propagates; attributes play no part in the structure and are carried along untouched,
which is why they are an uninterpreted payload `List (Int × Int)` here). The textual JSON step in between
(`json.dumps` / `json.load`) is the standard library's and is not modelled: names must survive it, which is a
statement about the name type, not about the complex. -/
namespace Flat

/-- one entry of the `simplices` array -/
structure JSimplex where
  id : Name
  faces : List Name
  attrs : List (Int × Int)

/-- the `simplices` field of the documented JSON object, in listing order -/
def encode (c : C) (attrOf : Name → List (Int × Int)) : List JSimplex :=
  c.simps.map (fun s => ⟨s.name, s.faces, attrOf s.name⟩)

/-- `as_simplicial_complex`: `addSimplex(id, fs, attr)` for every entry, in order, into a new complex -/
def decode (l : List JSimplex) : Except Err C :=
  l.foldl (fun acc j => acc.bind (fun c => c.addSimplex j.faces j.id)) (.ok emptyC)

/-- one step of the reading loop -/
def decStep (acc : Except Err C) (j : JSimplex) : Except Err C :=
  acc.bind (fun c => c.addSimplex j.faces j.id)

theorem decode_eq (l : List JSimplex) : decode l = l.foldl decStep (.ok emptyC) := rfl

theorem decStep_foldl_error (l : List JSimplex) (e : Err) : l.foldl decStep (.error e) = .error e := by
  induction l with
  | nil => rfl
  | cons j l ih => rw [List.foldl_cons]; exact ih

/-- result and state of `addSimplicesFrom`, as the reader sees them: the complex, or the exception -/
def asExcept {ρ : Type} (r : R ρ) : Except Err C :=
  match r with
  | (.ok _, d) => .ok d
  | (.error e, _) => .error e

/-- reading the entries written for a listing `L` into `d` performs exactly the additions that
`addSimplicesFrom` (identity renaming) performs for `L` on `d` -/
theorem decode_loop (attrOf : Name → List (Int × Int)) :
    ∀ (L : List (Simp Name)) (d : C) (acc : List Name),
      (L.map (fun s => (⟨s.name, s.faces, attrOf s.name⟩ : JSimplex))).foldl decStep (.ok d) =
        asExcept (addFromLoop id d acc L) := by
  intro L
  induction L with
  | nil => intro d acc; rfl
  | cons s L ih =>
    intro d acc
    rw [List.map_cons, List.foldl_cons]
    have hstep : decStep (.ok d) (⟨s.name, s.faces, attrOf s.name⟩ : JSimplex) = d.addSimplex s.faces s.name := rfl
    rw [hstep]
    unfold addFromLoop
    simp only [id, bne_self_eq_false, Bool.false_and, Bool.false_eq_true, if_false, List.map_id]
    cases hadd : d.addSimplex s.faces s.name with
    | error e => simp only; rw [decStep_foldl_error]; rfl
    | ok d1 => simp only; exact ih d1 _

/-- reading back what was written is `copy()` -/
theorem decode_encode_eq_copy (c : C) (attrOf : Name → List (Int × Int)) :
    decode (encode c attrOf) = asExcept (copyNew c) := by
  rw [decode_eq]
  unfold encode copyNew addFrom
  exact decode_loop attrOf c.simps emptyC []

/-- **C17 (round trip)**: for a valid complex, reading back the written entries succeeds and yields exactly
the complex that `copy()` yields: a valid complex, with a fresh name counter, that is the original simplex by
simplex in the same listing order (`Twin`: same name, same order, same faces and same basis points as sets),
and that compares equal to the original in both directions. The attributes written are irrelevant to this. -/
theorem decode_encode {c : C} (hI : Inv c) (attrOf : Name → List (Int × Int)) :
    ∃ c', decode (encode c attrOf) = .ok c' ∧ c' = (copyNew c).2 ∧ Inv c' ∧ c'.seq = 0 ∧
      List.Forall₂ Twin c.simps c'.simps ∧ Flat.eq c c' = true ∧ Flat.eq c' c = true := by
  obtain ⟨a', h1, hI', hseq, hT⟩ := copyNew_spec hI
  have heq := copy_eq hI
  rw [h1] at heq
  refine ⟨a', ?_, by rw [h1], hI', hseq, hT, heq.1, heq.2⟩
  rw [decode_encode_eq_copy, h1]
  rfl

/-- the same with the stored lists compared as permutations -/
theorem decode_encode_perm {c : C} (hI : Inv c) (attrOf : Name → List (Int × Int)) :
    ∃ c', decode (encode c attrOf) = .ok c' ∧
      List.Forall₂ (fun s t => t.name = s.name ∧ t.order = s.order ∧ t.faces.Perm s.faces ∧ t.basis.Perm s.basis)
        c.simps c'.simps := by
  obtain ⟨a', h1, -, -, hT⟩ := copyNew_perm hI
  refine ⟨a', ?_, hT⟩
  rw [decode_encode_eq_copy, h1]
  rfl

/-- **C17 (ids)**: the ids of the entries are the names of the complex, in listing order -/
theorem encode_names (c : C) (attrOf : Name → List (Int × Int)) :
    (encode c attrOf).map (·.id) = c.names := by
  unfold encode Cx.names
  rw [List.map_map]
  rfl

/-- the entries carry the faces and the attributes of the simplex they name -/
theorem encode_entry (c : C) (attrOf : Name → List (Int × Int)) (j : JSimplex) (hj : j ∈ encode c attrOf) :
    ∃ s ∈ c.simps, j.id = s.name ∧ j.faces = s.faces ∧ j.attrs = attrOf s.name := by
  unfold encode at hj
  obtain ⟨s, hs, rfl⟩ := List.mem_map.mp hj
  exact ⟨s, hs, rfl, rfl, rfl⟩

/-- **C17 (faces first)**: in the written list every entry comes after the entries of all its faces: however
the list is cut at an entry `j`, every face of `j` is the id of an entry in the part before it. (The listing is
sorted by order and a face has a lower order than the simplex.) -/
theorem encode_faces_before {c : C} (hI : Inv c) (attrOf : Name → List (Int × Int))
    {pre post : List JSimplex} {j : JSimplex} (h : encode c attrOf = pre ++ j :: post) :
    ∀ f ∈ j.faces, ∃ j' ∈ pre, j'.id = f := by
  unfold encode at h
  obtain ⟨P, R', hPR, hP, hR⟩ := List.map_eq_append_iff.mp h
  obtain ⟨s, R, hR', hs, hRR⟩ := List.map_eq_cons_iff.mp hR
  subst hR'
  intro f hf
  have hfs : f ∈ s.faces := by rw [← hs] at hf; exact hf
  have hsa : s ∈ c.simps := by rw [hPR]; simp
  have hpos : 0 < s.order := by
    rcases Nat.eq_zero_or_pos s.order with h0 | hpos
    · rw [(hI.point s hsa h0).1] at hfs; cases hfs
    · exact hpos
  obtain ⟨-, -, fex, -⟩ := hI.higher s hsa hpos
  obtain ⟨u, hu, hun, huo⟩ := fex f hfs
  have hsorted := hI.sorted
  rw [hPR, List.pairwise_append] at hsorted
  have huP : u ∈ P := by
    rw [hPR] at hu
    rcases List.mem_append.mp hu with h' | h'
    · exact h'
    · exfalso
      rcases List.mem_cons.mp h' with rfl | h''
      · omega
      · have := (List.pairwise_cons.mp hsorted.2.1).1 u h''
        omega
  refine ⟨⟨u.name, u.faces, attrOf u.name⟩, ?_, hun⟩
  rw [← hP]
  exact List.mem_map.mpr ⟨u, huP, rfl⟩

/-- positional form: the entry at position `i` has each of its faces as the id of an entry at a position `< i` -/
theorem encode_faces_before_idx {c : C} (hI : Inv c) (attrOf : Name → List (Int × Int))
    {i : Nat} {j : JSimplex} (hi : (encode c attrOf)[i]? = some j) :
    ∀ f ∈ j.faces, ∃ i' j', i' < i ∧ (encode c attrOf)[i']? = some j' ∧ j'.id = f := by
  intro f hf
  obtain ⟨hlt, hget⟩ := List.getElem?_eq_some_iff.mp hi
  have hsplit : encode c attrOf = (encode c attrOf).take i ++ j :: (encode c attrOf).drop (i + 1) := by
    rw [← hget]
    exact (List.take_append_drop i _).symm.trans (by rw [List.drop_eq_getElem_cons hlt])
  obtain ⟨j', hj', hid⟩ := encode_faces_before hI attrOf hsplit f hf
  obtain ⟨i', hi'⟩ := List.getElem?_of_mem hj'
  obtain ⟨hlt', -⟩ := List.getElem?_eq_some_iff.mp hi'
  rw [List.length_take] at hlt'
  refine ⟨i', j', by omega, ?_, hid⟩
  rw [← hi', List.getElem?_take]
  rw [if_pos (by omega)]

/-! ## the order in which an entry lists its faces does not matter -/

/-- `addSimplex` only looks at the set of faces it is given, not at their order -/
theorem addSimplex_perm (c : C) {fs fs' : List Name} (h : fs.Perm fs') (id : Name) :
    c.addSimplex fs id = c.addSimplex fs' id := by
  have e1 : fs.length = fs'.length := h.length_eq
  have e2 : fs.Nodup ↔ fs'.Nodup := h.nodup_iff
  have e3 : fs.isEmpty = fs'.isEmpty := by
    cases fs <;> cases fs' <;> simp_all
  have e4 : ∀ p : Name → Bool, fs.any p = fs'.any p := fun p => h.any_eq
  have e4' : ∀ n : Name, fs.contains n = fs'.contains n := by
    intro n
    rw [Bool.eq_iff_iff, List.contains_iff_mem, List.contains_iff_mem]
    exact h.mem_iff
  have e5 : ∀ s : List Name, setEqB s fs = setEqB s fs' := by
    intro s
    unfold setEqB subsetB
    rw [h.all_eq]
    simp only [e4']
  have e6 : ∀ k, canonFaces c k fs = canonFaces c k fs' := by
    intro k
    unfold canonFaces
    congr 1
    funext n; exact e4' n
  have e7 : canonBasis c fs = canonBasis c fs' := by
    unfold canonBasis
    congr 1
    funext p; exact e4 _
  unfold Cx.addSimplex
  simp only [e1, e2, e3, e4, e5, e6, e7]

/-- **C17 (face order)**: reading is insensitive to the order in which each entry lists its faces (Python's
`list(c.faces(s))` comes from a set and has no specified order) and to the attributes: two entry lists with,
position by position, the same id and the same faces up to a permutation are read to the same result — the
same complex (same `simps`, same name counter) or the same exception. -/
theorem decode_any_face_order {l1 l2 : List JSimplex}
    (h : List.Forall₂ (fun a b => a.id = b.id ∧ a.faces.Perm b.faces) l1 l2) : decode l1 = decode l2 := by
  rw [decode_eq, decode_eq]
  generalize (Except.ok emptyC : Except Err C) = acc
  induction h generalizing acc with
  | nil => rfl
  | @cons a b l1 l2 hab _ ih =>
    rw [List.foldl_cons, List.foldl_cons]
    have : decStep acc a = decStep acc b := by
      cases acc with
      | error e => rfl
      | ok d =>
        show d.addSimplex a.faces a.id = d.addSimplex b.faces b.id
        rw [hab.1, addSimplex_perm d hab.2]
    rw [this]
    exact ih _

/-- in particular the resulting listings agree -/
theorem decode_any_face_order_simps {l1 l2 : List JSimplex}
    (h : List.Forall₂ (fun a b => a.id = b.id ∧ a.faces.Perm b.faces) l1 l2) :
    (decode l1).toOption.map (·.simps) = (decode l2).toOption.map (·.simps) := by
  rw [decode_any_face_order h]

/-- hence: whatever order the writer lists the faces in, the round trip yields the copy -/
theorem decode_encode_any_order {c : C} (hI : Inv c) (attrOf : Name → List (Int × Int)) {l : List JSimplex}
    (h : List.Forall₂ (fun a b => a.id = b.id ∧ a.faces.Perm b.faces) l (encode c attrOf)) :
    decode l = .ok (copyNew c).2 := by
  obtain ⟨c', h1, h2, -⟩ := decode_encode hI attrOf
  rw [decode_any_face_order h, h1, h2]

/-! ## non-vacuity: the full triangle `exA` of `Copy.lean` (7 simplices, orders 0..2) -/

def jsonExAttr : Name → List (Int × Int)
  | .u n => [(0, n)]
  | _ => []

example : Inv exA := exA_inv

-- the entries: ids in listing order, faces, attributes
example : (encode exA jsonExAttr).map (fun j => (j.id, j.faces, j.attrs)) =
    [(.u 1, [], [(0, 1)]), (.u 2, [], [(0, 2)]), (.u 3, [], [(0, 3)]),
     (.u 12, [.u 1, .u 2], [(0, 12)]), (.u 13, [.u 1, .u 3], [(0, 13)]), (.u 23, [.u 2, .u 3], [(0, 23)]),
     (.u 123, [.u 12, .u 13, .u 23], [(0, 123)])] := by decide

-- the round trip succeeds and gives the 7 simplices back
example : (decode (encode exA jsonExAttr)).toOption.map (·.simps) = some exA.simps := by rfl

-- an entry list that lists the faces in other orders (and has other attributes) is related to the written one
-- and reads to the same complex
def jsonExShuffled : List JSimplex :=
  [⟨.u 1, [], []⟩, ⟨.u 2, [], []⟩, ⟨.u 3, [], []⟩, ⟨.u 12, [.u 2, .u 1], []⟩, ⟨.u 13, [.u 3, .u 1], []⟩,
   ⟨.u 23, [.u 2, .u 3], []⟩, ⟨.u 123, [.u 23, .u 12, .u 13], []⟩]

theorem jsonExShuffled_rel :
    List.Forall₂ (fun a b => a.id = b.id ∧ a.faces.Perm b.faces) jsonExShuffled (encode exA jsonExAttr) := by
  have e : encode exA jsonExAttr = [⟨.u 1, [], [(0, 1)]⟩, ⟨.u 2, [], [(0, 2)]⟩, ⟨.u 3, [], [(0, 3)]⟩,
     ⟨.u 12, [.u 1, .u 2], [(0, 12)]⟩, ⟨.u 13, [.u 1, .u 3], [(0, 13)]⟩, ⟨.u 23, [.u 2, .u 3], [(0, 23)]⟩,
     ⟨.u 123, [.u 12, .u 13, .u 23], [(0, 123)]⟩] := by rfl
  rw [e]
  unfold jsonExShuffled
  repeat (first | exact List.Forall₂.nil | refine List.Forall₂.cons ⟨rfl, by decide⟩ ?_)

example : (decode jsonExShuffled).toOption.map (·.simps) = some exA.simps := by rfl

-- a list in which an entry precedes one of its faces is not a written list: reading it raises
example : (decode [⟨.u 12, [.u 1, .u 2], []⟩, ⟨.u 1, [], []⟩, ⟨.u 2, [], []⟩]).toOption.isNone = true := by rfl

end Flat
