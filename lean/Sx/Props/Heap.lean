import Sx.Model
import Sx.Proofs.FlatAdd
import Mathlib.Tactic.SplitIfs
import Mathlib.Data.List.Basic

/-! # C08 / C09 — queries and constructors do not modify their inputs; copies share no mutable state

Model reading (`Sx/Model/World.lean`): a Python complex object is a handle `h ↦ Obj` with a representation
identity `rep`, a structure `c` and, for every simplex, the identity of its attribute dict (`attrs`); dict
objects live in `cells`. "Does not modify its inputs" = every other handle reads the same `Obj` and every
dict object that existed before reads the same content. "Shares no mutable state" = the identities of the
new object (`rep` and all dict ids) were allocated by the call (`≥ w.next`), so that no later in-place change
made through one object is visible through the other (`independent`).

Parts: 1 (association lists, `WInv`, `Frame`, the specification of `sync`), 2 (the shape of every
operation: `MutRel`/`MutSpec` for mutators, `FreshSpec`/`fresh_sync` for constructors), 3 (the theorems
(1)–(4): `copyOp_fresh`, `copyOp_contents`, `mutator_frame`, `independent`, and the `_inv` theorems; for
`copy.deepcopy`: `deepcopyOp_fresh`, `deepcopyOp_contents` and `deepcopyOp_sharing`, the sharing of dict objects
inside one complex is preserved by a deep copy). -/
namespace W
open Flat

/-! ## Part 1 — the heap layer: association lists, the invariant `WInv`, frames, `sync`

`W.World` keeps Python objects (`objs`, by handle) and attribute dict objects (`cells`, by identity) in
association lists that are read with `find?` and written with "replace if present, else append". This file
proves the read/write laws, defines the well-formedness invariant `WInv` and the frame relation `Frame`, and
gives the specification of `sync` (the one place where dict objects are allocated). -/

/-! ## association lists -/
section kfind
variable {κ β : Type} [DecidableEq κ] [BEq κ] [LawfulBEq κ]

/-- lookup in an association list (the body of `World.obj?`, `World.cell?`, `Obj.attr?`) -/
def kfind (l : List (κ × β)) (k : κ) : Option β := (l.find? (fun p => p.1 == k)).map (·.2)

/-- "replace if present, else append" (the body of `World.setObj`, `World.setCell`) -/
def kset (l : List (κ × β)) (k : κ) (v : β) : List (κ × β) :=
  if l.any (fun p => p.1 == k) then l.map (fun p => if p.1 == k then (k, v) else p) else l ++ [(k, v)]

omit [DecidableEq κ] [LawfulBEq κ] in
theorem kfind_nil (k : κ) : kfind ([] : List (κ × β)) k = none := rfl

theorem kfind_cons (p : κ × β) (l : List (κ × β)) (k : κ) :
    kfind (p :: l) k = if p.1 = k then some p.2 else kfind l k := by
  unfold kfind; rw [List.find?_cons]
  by_cases h : p.1 = k
  · simp [h]
  · have hb : (p.1 == k) = false := beq_false_of_ne h
    simp [hb, h]

theorem kfind_append_single_ne (l : List (κ × β)) {k g : κ} (v : β) (h : g ≠ k) :
    kfind (l ++ [(k, v)]) g = kfind l g := by
  induction l with
  | nil => simp [kfind_cons, kfind_nil, Ne.symm h]
  | cons p l ih => simp [kfind_cons, ih]

theorem kfind_append_single_self (l : List (κ × β)) (k : κ) (v : β) (h : kfind l k = none) :
    kfind (l ++ [(k, v)]) k = some v := by
  induction l with
  | nil => simp [kfind_cons]
  | cons p l ih =>
    rw [kfind_cons] at h
    split_ifs at h with hp
    simp [kfind_cons, hp, ih h]

theorem any_eq_isSome (l : List (κ × β)) (k : κ) : l.any (fun p => p.1 == k) = (kfind l k).isSome := by
  induction l with
  | nil => rfl
  | cons p l ih =>
    rw [kfind_cons, List.any_cons, ih]
    by_cases hp : p.1 = k <;> simp [hp]

theorem kfind_map_upd (l : List (κ × β)) (k g : κ) (v : β) :
    kfind (l.map (fun p => if p.1 == k then (k, v) else p)) g =
      if g = k then (kfind l k).map (fun _ => v) else kfind l g := by
  induction l with
  | nil => simp [kfind_nil]
  | cons p l ih =>
    rw [List.map_cons, kfind_cons, ih]
    by_cases hp : p.1 = k
    · by_cases hg : g = k
      · subst hg; simp [hp, kfind_cons]
      · have : ¬ k = g := fun e => hg e.symm
        have : ¬ p.1 = g := fun e => hg (e.symm.trans hp)
        simp [kfind_cons, *]
    · by_cases hg : g = k
      · subst hg; simp [hp, kfind_cons]
      · simp [hp, hg, kfind_cons]

theorem kfind_kset (l : List (κ × β)) (k g : κ) (v : β) :
    kfind (kset l k v) g = if g = k then some v else kfind l g := by
  unfold kset
  by_cases ha : l.any (fun p => p.1 == k) = true
  · rw [if_pos ha, kfind_map_upd]
    rw [any_eq_isSome] at ha
    by_cases hg : g = k
    · simp only [hg, if_true]
      cases hk : kfind l k with
      | none => rw [hk] at ha; cases ha
      | some x => rfl
    · simp [hg]
  · rw [if_neg ha]
    rw [any_eq_isSome] at ha
    by_cases hg : g = k
    · subst hg
      rw [if_pos rfl]
      apply kfind_append_single_self
      cases hk : kfind l g with
      | none => rfl
      | some x => rw [hk] at ha; exact absurd rfl ha
    · rw [if_neg hg, kfind_append_single_ne _ _ hg]

theorem kfind_mem {l : List (κ × β)} {k : κ} {v : β} (h : kfind l k = some v) : (k, v) ∈ l := by
  induction l with
  | nil => cases h
  | cons p l ih =>
    rw [kfind_cons] at h
    split_ifs at h with hp
    · cases h; subst hp; exact List.mem_cons_self
    · exact List.mem_cons_of_mem _ (ih h)

theorem kfind_none {l : List (κ × β)} {k : κ} (h : kfind l k = none) : ∀ p ∈ l, p.1 ≠ k := by
  induction l with
  | nil => intro p hp; cases hp
  | cons q l ih =>
    rw [kfind_cons] at h
    split_ifs at h with hq
    intro p hp
    rcases List.mem_cons.mp hp with rfl | hp
    · exact hq
    · exact ih h p hp

theorem kfind_isSome_of_mem {l : List (κ × β)} {p : κ × β} (h : p ∈ l) : (kfind l p.1).isSome = true := by
  cases hk : kfind l p.1 with
  | none => exact absurd rfl (kfind_none hk p h)
  | some x => rfl

theorem kfind_of_mem_nodup {l : List (κ × β)} (hn : (l.map (·.1)).Nodup) {k : κ} {v : β}
    (h : (k, v) ∈ l) : kfind l k = some v := by
  induction l with
  | nil => cases h
  | cons p l ih =>
    rw [List.map_cons, List.nodup_cons] at hn
    rw [kfind_cons]
    rcases List.mem_cons.mp h with rfl | h
    · simp
    · have : p.1 ≠ k := by
        intro e; apply hn.1; rw [e]; exact List.mem_map.mpr ⟨(k, v), h, rfl⟩
      rw [if_neg this]; exact ih hn.2 h

theorem keys_kset (l : List (κ × β)) (k : κ) (v : β) :
    (kset l k v).map (·.1) = if l.any (fun p => p.1 == k) then l.map (·.1) else l.map (·.1) ++ [k] := by
  unfold kset
  split_ifs with ha
  · rw [List.map_map]; apply List.map_congr_left
    intro p _; by_cases hp : p.1 = k <;> simp [hp]
  · simp

theorem keys_kset_nodup {l : List (κ × β)} (k : κ) (v : β) (hn : (l.map (·.1)).Nodup) :
    ((kset l k v).map (·.1)).Nodup := by
  rw [keys_kset]
  split_ifs with ha
  · exact hn
  · rw [any_eq_isSome] at ha
    have hk : kfind l k = none := by
      cases hk : kfind l k with
      | none => rfl
      | some x => rw [hk] at ha; exact absurd rfl ha
    rw [List.nodup_append]
    refine ⟨hn, by simp, ?_⟩
    intro a hma b hb
    rw [List.mem_singleton] at hb; subst hb
    obtain ⟨p, hp, rfl⟩ := List.mem_map.mp hma
    exact kfind_none hk p hp

end kfind

/-! ## reading and writing a world -/

theorem obj?_eq (w : World) (h : String) : w.obj? h = kfind w.objs h := rfl
theorem cell?_eq (w : World) (d : Nat) : w.cell? d = kfind w.cells d := rfl
theorem attr?_eq (o : Obj) (n : Name) : o.attr? n = kfind o.attrs n := rfl

theorem setObj_eq (w : World) (h : String) (o : Obj) : w.setObj h o = { w with objs := kset w.objs h o } := by
  unfold World.setObj kset; split <;> rfl

theorem setCell_eq (w : World) (d : Nat) (v : Dict) : w.setCell d v = { w with cells := kset w.cells d v } := by
  unfold World.setCell kset; split <;> rfl

@[simp] theorem setObj_cells (w : World) (h : String) (o : Obj) : (w.setObj h o).cells = w.cells := by
  rw [setObj_eq]
@[simp] theorem setObj_next (w : World) (h : String) (o : Obj) : (w.setObj h o).next = w.next := by
  rw [setObj_eq]
@[simp] theorem setObj_udict (w : World) (h : String) (o : Obj) : (w.setObj h o).udict = w.udict := by
  rw [setObj_eq]
@[simp] theorem setObj_embs (w : World) (h : String) (o : Obj) : (w.setObj h o).embs = w.embs := by
  rw [setObj_eq]
@[simp] theorem setObj_cell? (w : World) (h : String) (o : Obj) (d : Nat) : (w.setObj h o).cell? d = w.cell? d := by
  rw [cell?_eq, cell?_eq, setObj_cells]

/-- reading after writing an object -/
theorem obj?_setObj (w : World) (h g : String) (o : Obj) :
    (w.setObj h o).obj? g = if g = h then some o else w.obj? g := by
  rw [setObj_eq, obj?_eq, obj?_eq]; exact kfind_kset _ _ _ _

theorem obj?_setObj_self (w : World) (h : String) (o : Obj) : (w.setObj h o).obj? h = some o := by
  rw [obj?_setObj, if_pos rfl]

theorem obj?_setObj_ne (w : World) {h g : String} (o : Obj) (hg : g ≠ h) : (w.setObj h o).obj? g = w.obj? g := by
  rw [obj?_setObj, if_neg hg]

@[simp] theorem setCell_objs (w : World) (d : Nat) (v : Dict) : (w.setCell d v).objs = w.objs := by
  rw [setCell_eq]
@[simp] theorem setCell_next (w : World) (d : Nat) (v : Dict) : (w.setCell d v).next = w.next := by
  rw [setCell_eq]
@[simp] theorem setCell_udict (w : World) (d : Nat) (v : Dict) : (w.setCell d v).udict = w.udict := by
  rw [setCell_eq]
@[simp] theorem setCell_embs (w : World) (d : Nat) (v : Dict) : (w.setCell d v).embs = w.embs := by
  rw [setCell_eq]
@[simp] theorem setCell_obj? (w : World) (d : Nat) (v : Dict) (g : String) : (w.setCell d v).obj? g = w.obj? g := by
  rw [obj?_eq, obj?_eq, setCell_objs]

/-- reading after writing a dict object -/
theorem cell?_setCell (w : World) (d e : Nat) (v : Dict) :
    (w.setCell d v).cell? e = if e = d then some v else w.cell? e := by
  rw [setCell_eq, cell?_eq, cell?_eq]; exact kfind_kset _ _ _ _

/-- the dict ids an object refers to -/
def Obj.ids (o : Obj) : List Nat := o.attrs.map (·.2)

theorem attr?_mem_ids {o : Obj} {n : Name} {d : Nat} (h : o.attr? n = some d) : d ∈ o.ids := by
  rw [attr?_eq] at h
  exact List.mem_map.mpr ⟨(n, d), kfind_mem h, rfl⟩

/-! ## the invariant -/

/-- no dict object lives at or above the allocation pointer -/
def CellLt (w : World) : Prop := ∀ d, w.next ≤ d → w.cell? d = none

/-- an object is well-formed in `w`: its identities have been allocated, its dict objects exist -/
structure OK (w : World) (o : Obj) : Prop where
  rep_lt : o.rep < w.next
  ids_lt : ∀ d ∈ o.ids, d < w.next
  ids_cell : ∀ d ∈ o.ids, (w.cell? d).isSome = true

/-- **well-formedness of a world**: every identity in use (`rep`, the dict ids of every `attrs` list, the keys
of `cells`, the `udict` targets) is below `next`; handles are distinct; every dict id in an `attrs` list has a
cell. (Objects are quantified through `obj?`; with distinct handles that is every element of `objs`, see
`WInv.ok_of_mem`; the keys of `cells` are quantified through `cell?`, see `WInv.cell_key_lt`.) -/
structure WInv (w : World) : Prop where
  ok : ∀ h o, w.obj? h = some o → OK w o
  cell_lt : CellLt w
  udict_lt : ∀ p ∈ w.udict, p.2 < w.next
  handles : (w.objs.map (·.1)).Nodup

theorem WInv.ok_of_mem {w : World} (hw : WInv w) {p : String × Obj} (hp : p ∈ w.objs) : OK w p.2 :=
  hw.ok p.1 p.2 (by rw [obj?_eq]; exact kfind_of_mem_nodup hw.handles hp)

theorem WInv.cell_key_lt {w : World} (hw : WInv w) {p : Nat × Dict} (hp : p ∈ w.cells) : p.1 < w.next := by
  by_contra hlt
  have h1 := hw.cell_lt p.1 (Nat.le_of_not_lt hlt)
  have h2 := kfind_isSome_of_mem hp
  rw [cell?_eq] at h1; rw [h1] at h2; cases h2

theorem cellLt_of_keys {w : World} (h : ∀ p ∈ w.cells, p.1 < w.next) : CellLt w := by
  intro d hd
  cases hk : w.cell? d with
  | none => rfl
  | some v =>
    rw [cell?_eq] at hk
    have := h _ (kfind_mem hk)
    simp only at this; omega

/-- the empty world is well-formed -/
theorem WInv.empty : WInv ({} : World) where
  ok h o e := by cases e
  cell_lt d _ := rfl
  udict_lt p hp := by cases hp
  handles := List.nodup_nil

/-! ## frames -/

/-- `w'` differs from `w` at most in the object with handle `h` and in freshly allocated identities -/
structure Frame (w w' : World) (h : String) : Prop where
  next_le : w.next ≤ w'.next
  obj_other : ∀ g, g ≠ h → w'.obj? g = w.obj? g
  cell_old : ∀ d, d < w.next → w'.cell? d = w.cell? d
  cell_lt : CellLt w → CellLt w'
  udict : w'.udict = w.udict
  embs : w'.embs = w.embs
  handles : (w.objs.map (·.1)).Nodup → (w'.objs.map (·.1)).Nodup

theorem Frame.refl (w : World) (h : String) : Frame w w h :=
  ⟨Nat.le_refl _, fun _ _ => rfl, fun _ _ => rfl, id, rfl, rfl, id⟩

theorem Frame.trans {w w1 w2 : World} {h : String} (a : Frame w w1 h) (b : Frame w1 w2 h) : Frame w w2 h where
  next_le := Nat.le_trans a.next_le b.next_le
  obj_other g hg := (b.obj_other g hg).trans (a.obj_other g hg)
  cell_old d hd := (b.cell_old d (Nat.lt_of_lt_of_le hd a.next_le)).trans (a.cell_old d hd)
  cell_lt := b.cell_lt ∘ a.cell_lt
  udict := b.udict.trans a.udict
  embs := b.embs.trans a.embs
  handles := b.handles ∘ a.handles

theorem Frame.setObj (w : World) (h : String) (o : Obj) : Frame w (w.setObj h o) h where
  next_le := by simp
  obj_other g hg := obj?_setObj_ne w o hg
  cell_old d _ := by simp
  cell_lt hc d hd := by rw [setObj_cell?]; exact hc d (by simpa using hd)
  udict := by simp
  embs := by simp
  handles hn := by rw [setObj_eq]; exact keys_kset_nodup h o hn

/-- a world that differs only in `cells`/`next`, by allocation above `next` -/
theorem Frame.of_objs_eq {w w' : World} (h : String) (ho : w'.objs = w.objs) (hu : w'.udict = w.udict)
    (he : w'.embs = w.embs) (hn : w.next ≤ w'.next) (hc : ∀ d, d < w.next → w'.cell? d = w.cell? d)
    (hl : CellLt w → CellLt w') : Frame w w' h where
  next_le := hn
  obj_other g _ := by rw [obj?_eq, obj?_eq, ho]
  cell_old := hc
  cell_lt := hl
  udict := hu
  embs := he
  handles := by rw [ho]; exact id

theorem alloc_fst (w : World) (v : Dict) : (w.alloc v).1 = w.next := rfl
theorem alloc_next (w : World) (v : Dict) : (w.alloc v).2.next = w.next + 1 := rfl
theorem alloc_objs (w : World) (v : Dict) : (w.alloc v).2.objs = w.objs := rfl

theorem alloc_cell?_ne (w : World) (v : Dict) {d : Nat} (hd : d ≠ w.next) : (w.alloc v).2.cell? d = w.cell? d := by
  rw [cell?_eq, cell?_eq]; exact kfind_append_single_ne _ _ hd

theorem alloc_cell?_self (w : World) (v : Dict) (hc : CellLt w) : (w.alloc v).2.cell? w.next = some v := by
  rw [cell?_eq]; exact kfind_append_single_self _ _ _ (hc _ (Nat.le_refl _))

theorem alloc_cellLt (w : World) (v : Dict) (hc : CellLt w) : CellLt (w.alloc v).2 := by
  intro d hd
  rw [alloc_next] at hd
  rw [alloc_cell?_ne w v (by omega)]; exact hc d (by omega)

theorem Frame.alloc (w : World) (v : Dict) (h : String) : Frame w (w.alloc v).2 h :=
  Frame.of_objs_eq h rfl rfl rfl (by rw [alloc_next]; omega)
    (fun d hd => alloc_cell?_ne w v (by omega)) (alloc_cellLt w v)

theorem Frame.freshId (w : World) (h : String) : Frame w w.freshId.2 h :=
  Frame.of_objs_eq h rfl rfl rfl (Nat.le_succ _) (fun _ _ => rfl) (fun hc d hd => hc d (Nat.le_of_succ_le hd))

theorem OK.mono {w w' : World} {o : Obj} (ho : OK w o) (hn : w.next ≤ w'.next)
    (hc : ∀ d, d < w.next → w'.cell? d = w.cell? d) : OK w' o where
  rep_lt := Nat.lt_of_lt_of_le ho.rep_lt hn
  ids_lt d hd := Nat.lt_of_lt_of_le (ho.ids_lt d hd) hn
  ids_cell d hd := by rw [hc d (ho.ids_lt d hd)]; exact ho.ids_cell d hd

/-- the invariant passes along a frame as soon as the object at `h` is well-formed in the new world -/
theorem WInv.of_frame {w w' : World} {h : String} (hw : WInv w) (f : Frame w w' h)
    (hh : ∀ o', w'.obj? h = some o' → OK w' o') : WInv w' where
  ok g o hg := by
    by_cases e : g = h
    · subst e; exact hh o hg
    · rw [f.obj_other g e] at hg
      exact (hw.ok g o hg).mono f.next_le f.cell_old
  cell_lt := f.cell_lt hw.cell_lt
  udict_lt p hp := by rw [f.udict] at hp; exact Nat.lt_of_lt_of_le (hw.udict_lt p hp) f.next_le
  handles := f.handles hw.handles

/-! ## `sync` -/

/-- one step of the loop of `sync` -/
def syncStep (o : Obj) (special : Name → Option Nat) (content : Name → Dict)
    (acc : List (Name × Nat) × World) (n : Name) : List (Name × Nat) × World :=
  match o.attr? n with
  | some d => (acc.1 ++ [(n, d)], acc.2)
  | none =>
    match special n with
    | some d => (acc.1 ++ [(n, d)], acc.2)
    | none => let a := acc.2.alloc (content n); (acc.1 ++ [(n, a.1)], a.2)

theorem sync_eq (w : World) (o : Obj) (c' : C) (sp : Name → Option Nat) (ct : Name → Dict) :
    sync w o c' sp ct =
      ({ o with c := c', attrs := (c'.names.foldl (syncStep o sp ct) ([], w)).1 },
        (c'.names.foldl (syncStep o sp ct) ([], w)).2) := rfl

/-- where the dict of a simplex of the new structure comes from: kept from the old object, the `special`
one, or a fresh dict object (allocated between `w.next` and `w'.next`) holding `content` -/
def Good (o : Obj) (sp : Name → Option Nat) (ct : Name → Dict) (w w' : World) (p : Name × Nat) : Prop :=
  o.attr? p.1 = some p.2 ∨
  (o.attr? p.1 = none ∧ sp p.1 = some p.2) ∨
  (o.attr? p.1 = none ∧ sp p.1 = none ∧ w.next ≤ p.2 ∧ p.2 < w'.next ∧ w'.cell? p.2 = some (ct p.1))

theorem syncFold_spec (o : Obj) (sp : Name → Option Nat) (ct : Name → Dict) :
    ∀ (ns : List Name) (A : List (Name × Nat)) (w0 : World), CellLt w0 →
      (ns.foldl (syncStep o sp ct) (A, w0)).2.objs = w0.objs ∧
      (ns.foldl (syncStep o sp ct) (A, w0)).2.udict = w0.udict ∧
      (ns.foldl (syncStep o sp ct) (A, w0)).2.embs = w0.embs ∧
      w0.next ≤ (ns.foldl (syncStep o sp ct) (A, w0)).2.next ∧
      (∀ d, d < w0.next → (ns.foldl (syncStep o sp ct) (A, w0)).2.cell? d = w0.cell? d) ∧
      CellLt (ns.foldl (syncStep o sp ct) (A, w0)).2 ∧
      ∃ B, (ns.foldl (syncStep o sp ct) (A, w0)).1 = A ++ B ∧ B.map (·.1) = ns ∧
        ∀ p ∈ B, Good o sp ct w0 (ns.foldl (syncStep o sp ct) (A, w0)).2 p := by
  intro ns
  induction ns with
  | nil =>
    intro A w0 hc
    exact ⟨rfl, rfl, rfl, Nat.le_refl _, fun _ _ => rfl, hc, [], by simp, rfl, fun p hp => by cases hp⟩
  | cons n rest ih =>
    intro A w0 hc
    rw [List.foldl_cons]
    -- the first step
    have hstep : ∃ d w1, syncStep o sp ct (A, w0) n = (A ++ [(n, d)], w1) ∧
        w1.objs = w0.objs ∧ w1.udict = w0.udict ∧ w1.embs = w0.embs ∧ w0.next ≤ w1.next ∧
        (∀ e, e < w0.next → w1.cell? e = w0.cell? e) ∧ CellLt w1 ∧
        (o.attr? n = some d ∨ (o.attr? n = none ∧ sp n = some d) ∨
          (o.attr? n = none ∧ sp n = none ∧ d = w0.next ∧ d < w1.next ∧ w1.cell? d = some (ct n))) := by
      unfold syncStep
      cases ha : o.attr? n with
      | some d =>
        exact ⟨d, w0, rfl, rfl, rfl, rfl, Nat.le_refl _, fun _ _ => rfl, hc, Or.inl rfl⟩
      | none =>
        cases hs : sp n with
        | some d =>
          exact ⟨d, w0, rfl, rfl, rfl, rfl, Nat.le_refl _, fun _ _ => rfl, hc, Or.inr (Or.inl ⟨rfl, rfl⟩)⟩
        | none =>
          refine ⟨w0.next, (w0.alloc (ct n)).2, rfl, rfl, rfl, rfl, by rw [alloc_next]; omega,
            fun e he => alloc_cell?_ne w0 _ (by omega), alloc_cellLt w0 _ hc,
            Or.inr (Or.inr ⟨rfl, rfl, rfl, by rw [alloc_next]; omega, alloc_cell?_self w0 _ hc⟩)⟩
    obtain ⟨d, w1, hs, ho1, hu1, he1, hn1, hc1, hl1, hg1⟩ := hstep
    rw [hs]
    obtain ⟨io, iu, ie, inx, ic, il, B, hB, hBn, hBg⟩ := ih (A ++ [(n, d)]) w1 hl1
    refine ⟨io.trans ho1, iu.trans hu1, ie.trans he1, Nat.le_trans hn1 inx,
      fun e he => (ic e (Nat.lt_of_lt_of_le he hn1)).trans (hc1 e he), il, (n, d) :: B, ?_, ?_, ?_⟩
    · rw [hB]; simp
    · simp [hBn]
    · intro p hp
      rcases List.mem_cons.mp hp with rfl | hp
      · rcases hg1 with h1 | h1 | ⟨h1, h2, h3, h4, h5⟩
        · exact Or.inl h1
        · exact Or.inr (Or.inl h1)
        · refine Or.inr (Or.inr ⟨h1, h2, ?_, Nat.lt_of_lt_of_le h4 inx, ?_⟩)
          · simp only; omega
          · rw [ic _ h4]; exact h5
      · rcases hBg p hp with h1 | h1 | ⟨h1, h2, h3, h4, h5⟩
        · exact Or.inl h1
        · exact Or.inr (Or.inl h1)
        · exact Or.inr (Or.inr ⟨h1, h2, Nat.le_trans hn1 h3, h4, h5⟩)

/-- the specification of `sync w o c' sp ct = (o', w')` -/
structure SyncSpec (w : World) (o : Obj) (c' : C) (sp : Name → Option Nat) (ct : Name → Dict)
    (o' : Obj) (w' : World) : Prop where
  objs : w'.objs = w.objs
  udict : w'.udict = w.udict
  embs : w'.embs = w.embs
  next_le : w.next ≤ w'.next
  cell_old : ∀ d, d < w.next → w'.cell? d = w.cell? d
  cell_lt : CellLt w'
  rep : o'.rep = o.rep
  c : o'.c = c'
  filt : o'.filt = o.filt
  names : o'.attrs.map (·.1) = c'.names
  good : ∀ p ∈ o'.attrs, Good o sp ct w w' p

theorem sync_spec (w : World) (o : Obj) (c' : C) (sp : Name → Option Nat) (ct : Name → Dict) (hc : CellLt w) :
    SyncSpec w o c' sp ct (sync w o c' sp ct).1 (sync w o c' sp ct).2 := by
  obtain ⟨io, iu, ie, inx, ic, il, B, hB, hBn, hBg⟩ := syncFold_spec o sp ct c'.names [] w hc
  rw [sync_eq]
  rw [List.nil_append] at hB
  refine ⟨io, iu, ie, inx, ic, il, rfl, rfl, rfl, ?_, ?_⟩
  · simp only; rw [hB]; exact hBn
  · simp only; rw [hB]; exact hBg

theorem SyncSpec.frame {w : World} {o : Obj} {c' : C} {sp : Name → Option Nat} {ct : Name → Dict} {o' : Obj}
    {w' : World} (s : SyncSpec w o c' sp ct o' w') (h : String) : Frame w w' h :=
  Frame.of_objs_eq h s.objs s.udict s.embs s.next_le s.cell_old (fun _ => s.cell_lt)

/-- the dict of a simplex of the new structure -/
theorem SyncSpec.attr? {w : World} {o : Obj} {c' : C} {sp : Name → Option Nat} {ct : Name → Dict} {o' : Obj}
    {w' : World} (s : SyncSpec w o c' sp ct o' w') {n : Name} (hn : n ∈ c'.names) :
    ∃ d, o'.attr? n = some d ∧ Good o sp ct w w' (n, d) := by
  rw [← s.names] at hn
  obtain ⟨p, hp, rfl⟩ := List.mem_map.mp hn
  have h1 := kfind_isSome_of_mem hp
  cases hk : kfind o'.attrs p.1 with
  | none => rw [hk] at h1; cases h1
  | some d => exact ⟨d, hk, s.good _ (kfind_mem hk)⟩

/-- every dict id of the new object is an old one of `o`, a `special` one, or fresh -/
theorem SyncSpec.ids {w : World} {o : Obj} {c' : C} {sp : Name → Option Nat} {ct : Name → Dict} {o' : Obj}
    {w' : World} (s : SyncSpec w o c' sp ct o' w') {d : Nat} (hd : d ∈ o'.ids) :
    d ∈ o.ids ∨ (∃ n, sp n = some d) ∨ (w.next ≤ d ∧ d < w'.next ∧ (w'.cell? d).isSome = true) := by
  obtain ⟨p, hp, rfl⟩ := List.mem_map.mp hd
  rcases s.good p hp with h1 | ⟨_, h2⟩ | ⟨_, _, h3, h4, h5⟩
  · exact Or.inl (attr?_mem_ids h1)
  · exact Or.inr (Or.inl ⟨_, h2⟩)
  · exact Or.inr (Or.inr ⟨h3, h4, by rw [h5]; rfl⟩)

/-- the new object is well-formed when the old one and the `special` dicts are -/
theorem SyncSpec.ok {w : World} {o : Obj} {c' : C} {sp : Name → Option Nat} {ct : Name → Dict} {o' : Obj}
    {w' : World} (s : SyncSpec w o c' sp ct o' w') (ho : OK w o)
    (hsp : ∀ n d, sp n = some d → d < w.next ∧ (w.cell? d).isSome = true) : OK w' o' where
  rep_lt := by rw [s.rep]; exact Nat.lt_of_lt_of_le ho.rep_lt s.next_le
  ids_lt d hd := by
    rcases s.ids hd with h1 | ⟨n, h2⟩ | ⟨_, h4, _⟩
    · exact Nat.lt_of_lt_of_le (ho.ids_lt d h1) s.next_le
    · exact Nat.lt_of_lt_of_le (hsp n d h2).1 s.next_le
    · exact h4
  ids_cell d hd := by
    rcases s.ids hd with h1 | ⟨n, h2⟩ | ⟨_, _, h5⟩
    · rw [s.cell_old d (ho.ids_lt d h1)]; exact ho.ids_cell d h1
    · rw [s.cell_old d (hsp n d h2).1]; exact (hsp n d h2).2
    · exact h5

theorem OK.setObj {w : World} {o : Obj} (h : String) (x : Obj) (ho : OK w o) : OK (w.setObj h x) o where
  rep_lt := by simpa using ho.rep_lt
  ids_lt d hd := by simpa using ho.ids_lt d hd
  ids_cell d hd := by simpa using ho.ids_cell d hd

/-! ## Part 2 — the shape of the operations of `Sx/Model/World.lean`

Every mutator on a handle `h` either leaves the world alone, replaces the object at `h` by one with the same
dict ids (plus possibly the `attr` argument), or runs `sync` and stores the result at `h` (`MutRel`). Every
copy-like constructor runs `sync` from an object without dicts into a new identity (`FreshRel`). The frame
properties and the preservation of `WInv` are derived once from these two shapes. -/

/-- the optional `attr` argument (a dict object of the script) is an allocated dict object -/
def ArgOK (w : World) (arg : Option Nat) : Prop := ∀ d, arg = some d → d < w.next ∧ (w.cell? d).isSome = true

theorem argDict_frame (w : World) (arg : Option Nat) (h : String) : Frame w (argDict w arg).2 h := by
  cases arg with
  | none => exact Frame.alloc w [] h
  | some d => exact Frame.refl w h

theorem argDict_objs (w : World) (arg : Option Nat) : (argDict w arg).2.objs = w.objs := by
  cases arg <;> rfl

theorem argDict_ok (w : World) (arg : Option Nat) (hc : CellLt w) (ha : ArgOK w arg) :
    (argDict w arg).1 < (argDict w arg).2.next ∧ ((argDict w arg).2.cell? (argDict w arg).1).isSome = true ∧
      (arg = some (argDict w arg).1 ∨ (argDict w arg).1 = w.next) := by
  cases arg with
  | none =>
    refine ⟨Nat.lt_succ_self _, ?_, Or.inr rfl⟩
    show ((w.alloc []).2.cell? w.next).isSome = true
    rw [alloc_cell?_self w [] hc]; rfl
  | some d => exact ⟨(ha d rfl).1, (ha d rfl).2, Or.inl rfl⟩

/-! ## mutators -/

/-- the shape of one mutator call on the object with handle `h` (`arg` = its optional dict argument) -/
inductive MutRel (w : World) (h : String) (arg : Option Nat) : World → Prop
  | same : MutRel w h arg w
  | set (o o' : Obj) : w.obj? h = some o → o'.rep = o.rep → (∀ d ∈ o'.ids, d ∈ o.ids ∨ arg = some d) →
      MutRel w h arg (w.setObj h o')
  | sync (o o1 : Obj) (c' : C) (sp : Name → Option Nat) (ct : Name → Dict) :
      w.obj? h = some o → o1.rep = o.rep → (∀ d ∈ o1.ids, d ∈ o.ids) → (∀ n, sp n = none) →
      MutRel w h arg ((sync w o1 c' sp ct).2.setObj h (sync w o1 c' sp ct).1)
  | syncArg (o o1 : Obj) (c' : C) (sp : Name → Option Nat) (ct : Name → Dict) :
      w.obj? h = some o → o1.rep = o.rep → (∀ d ∈ o1.ids, d ∈ o.ids) →
      (∀ n d, sp n = some d → d = (argDict w arg).1) →
      MutRel w h arg ((sync (argDict w arg).2 o1 c' sp ct).2.setObj h (sync (argDict w arg).2 o1 c' sp ct).1)

theorem OK.sub {w : World} {o o1 : Obj} (ho : OK w o) (hr : o1.rep = o.rep) (hi : ∀ d ∈ o1.ids, d ∈ o.ids) :
    OK w o1 :=
  ⟨by rw [hr]; exact ho.rep_lt, fun d hd => ho.ids_lt d (hi d hd), fun d hd => ho.ids_cell d (hi d hd)⟩

/-- everything we need to know about a mutator step, in one statement -/
structure MutSpec (w : World) (h : String) (arg : Option Nat) (w' : World) : Prop where
  frame : Frame w w' h
  inv : ArgOK w arg → WInv w'
  ids : ∀ o', w'.obj? h = some o' → ∃ o, w.obj? h = some o ∧ o'.rep = o.rep ∧
    ∀ d ∈ o'.ids, d ∈ o.ids ∨ w.next ≤ d ∨ arg = some d
  absent : w.obj? h = none → w' = w

theorem MutRel.spec {w : World} {h : String} {arg : Option Nat} {w' : World} (hw : WInv w)
    (r : MutRel w h arg w') : MutSpec w h arg w' := by
  cases r with
  | same =>
    exact ⟨Frame.refl w h, fun _ => hw, fun o' ho' => ⟨o', ho', rfl, fun d hd => Or.inl hd⟩, fun _ => rfl⟩
  | set o o' ho hr hi =>
    have f := Frame.setObj w h o'
    refine ⟨f, fun ha => ?_, fun x hx => ?_, fun hn => by rw [hn] at ho; cases ho⟩
    · refine hw.of_frame f (fun x hx => ?_)
      rw [obj?_setObj_self] at hx; cases hx
      have hok := hw.ok h o ho
      refine OK.setObj h _ ⟨by rw [hr]; exact hok.rep_lt, fun d hd => ?_, fun d hd => ?_⟩
      · rcases hi d hd with h1 | h1
        · exact hok.ids_lt d h1
        · exact (ha d h1).1
      · rcases hi d hd with h1 | h1
        · exact hok.ids_cell d h1
        · exact (ha d h1).2
    · rw [obj?_setObj_self] at hx; cases hx
      exact ⟨o, ho, hr, fun d hd => (hi d hd).elim Or.inl (fun e => Or.inr (Or.inr e))⟩
  | sync o o1 c' sp ct ho hr hi hsp =>
    have s := sync_spec w o1 c' sp ct hw.cell_lt
    have f : Frame w ((W.sync w o1 c' sp ct).2.setObj h (W.sync w o1 c' sp ct).1) h :=
      (s.frame h).trans (Frame.setObj _ h _)
    refine ⟨f, fun _ => ?_, fun x hx => ?_, fun hn => by rw [hn] at ho; cases ho⟩
    · refine hw.of_frame f (fun x hx => ?_)
      rw [obj?_setObj_self] at hx; cases hx
      exact OK.setObj h _ (s.ok ((hw.ok h o ho).sub hr hi) (fun n d e => by rw [hsp n] at e; cases e))
    · rw [obj?_setObj_self] at hx; cases hx
      refine ⟨o, ho, s.rep.trans hr, fun d hd => ?_⟩
      rcases s.ids hd with h1 | ⟨n, h2⟩ | ⟨h3, _, _⟩
      · exact Or.inl (hi d h1)
      · rw [hsp n] at h2; cases h2
      · exact Or.inr (Or.inl h3)
  | syncArg o o1 c' sp ct ho hr hi hsp =>
    have fa := argDict_frame w arg h
    have hc0 := fa.cell_lt hw.cell_lt
    have s := sync_spec (argDict w arg).2 o1 c' sp ct hc0
    have f : Frame w ((W.sync (argDict w arg).2 o1 c' sp ct).2.setObj h (W.sync (argDict w arg).2 o1 c' sp ct).1) h :=
      (fa.trans (s.frame h)).trans (Frame.setObj _ h _)
    refine ⟨f, fun ha => ?_, fun x hx => ?_, fun hn => by rw [hn] at ho; cases ho⟩
    · refine hw.of_frame f (fun x hx => ?_)
      rw [obj?_setObj_self] at hx; cases hx
      have hok : OK (argDict w arg).2 o1 := ((hw.ok h o ho).sub hr hi).mono fa.next_le fa.cell_old
      obtain ⟨a1, a2, _⟩ := argDict_ok w arg hw.cell_lt ha
      exact OK.setObj h _ (s.ok hok (fun n d e => by rw [hsp n d e]; exact ⟨a1, a2⟩))
    · rw [obj?_setObj_self] at hx; cases hx
      refine ⟨o, ho, s.rep.trans hr, fun d hd => ?_⟩
      rcases s.ids hd with h1 | ⟨n, h2⟩ | ⟨h3, _, _⟩
      · exact Or.inl (hi d h1)
      · have e := hsp n d h2
        cases arg with
        | none => exact Or.inr (Or.inl (by rw [e]; exact Nat.le_refl _))
        | some d0 => exact Or.inr (Or.inr (by rw [e]; rfl))
      · exact Or.inr (Or.inl (Nat.le_trans fa.next_le h3))

theorem withFS_rep (o : Obj) (f : FS) : (o.withFS f).rep = o.rep := rfl
theorem withFS_ids (o : Obj) (f : FS) : (o.withFS f).ids = o.ids := rfl

theorem addFacesOp_rel (w : World) (h : String) (fs : List Name) (id : Option Name) (attr : Option Nat) :
    MutRel w h attr (addFacesOp w h fs id attr).2 := by
  unfold addFacesOp
  cases ho : w.obj? h with
  | none => exact .same
  | some o =>
    simp only
    cases hf : o.fs with
    | none =>
      simp only
      split
      · exact .same
      · exact .syncArg o o _ _ _ ho rfl (fun _ hd => hd) (by intro n d hh; split_ifs at hh; simp_all)
    | some f =>
      simp only
      split
      · exact .same
      · exact .syncArg o _ _ _ _ ho rfl (fun _ hd => hd) (by intro n d hh; split_ifs at hh; simp_all)

theorem addBasisOp_rel (w : World) (h : String) (bs : List Name) (id : Option Name) (attr : Option Nat) :
    MutRel w h attr (addBasisOp w h bs id attr).2 := by
  unfold addBasisOp
  cases ho : w.obj? h with
  | none => exact .same
  | some o =>
    simp only
    cases hf : o.fs with
    | none =>
      simp only
      generalize addSimplexWithBasisQ o.c bs id = r
      obtain ⟨res, c'⟩ := r
      cases res with
      | error e =>
        simp only
        split_ifs
        · exact .same
        · exact .syncArg o o _ _ _ ho rfl (fun _ hd => hd) (by intro n d hh; split_ifs at hh; simp_all)
      | ok n =>
        exact .syncArg o o _ _ _ ho rfl (fun _ hd => hd) (by intro n d hh; split_ifs at hh; simp_all)
    | some f =>
      simp only
      generalize f.addByBasis bs id = r
      obtain ⟨res, f'⟩ := r
      cases res with
      | error e =>
        simp only
        split_ifs
        · exact .same
        · exact .syncArg o _ _ _ _ ho rfl (fun _ hd => hd) (by intro n d hh; split_ifs at hh; simp_all)
      | ok n =>
        exact .syncArg o _ _ _ _ ho rfl (fun _ hd => hd) (by intro n d hh; split_ifs at hh; simp_all)

theorem structOp_rel (w : World) (h : String) (f : C → Option C) : MutRel w h none (structOp w h f).2 := by
  unfold structOp
  cases ho : w.obj? h with
  | none => exact .same
  | some o =>
    simp only
    cases hc : f o.c with
    | none => exact .same
    | some c' =>
      simp only
      cases hf : o.fs with
      | none => exact .sync o o _ _ _ ho rfl (fun _ hd => hd) (fun _ => rfl)
      | some fs => exact .sync o _ _ _ _ ho rfl (fun _ hd => hd) (fun _ => rfl)

theorem subdivideOp_rel (w : World) (h : String) (s : Name) (order : List Name) :
    MutRel w h none (subdivideOp w h s order).2 := by
  unfold subdivideOp
  cases ho : w.obj? h with
  | none => exact .same
  | some o =>
    simp only
    cases hc : subdivide o.c s order with
    | error e => exact .same
    | ok r =>
      obtain ⟨mid, c'⟩ := r
      simp only
      refine .sync o _ _ _ _ ho rfl (fun d hd => ?_) (fun _ => rfl)
      obtain ⟨p, hp, rfl⟩ := List.mem_map.mp hd
      exact List.mem_map.mpr ⟨p, (List.mem_filter.mp hp).1, rfl⟩

theorem relabelWith_rel (w : World) (h : String) (f : C → R (List (Name × Name))) :
    MutRel w h none (relabelWith w h f).2 := by
  unfold relabelWith
  cases ho : w.obj? h with
  | none => exact .same
  | some o =>
    simp only
    split
    · exact .same
    · refine .set o _ ho rfl (fun d hd => Or.inl ?_)
      simp only [Obj.ids, List.map_map] at hd ⊢
      exact hd

theorem relabelDisjointOp_rel (w : World) (h other : String) : MutRel w h none (relabelDisjointOp w h other).2 := by
  unfold relabelDisjointOp
  cases w.obj? other with
  | none => exact .same
  | some oo => exact relabelWith_rel w h _

theorem setAttrOp_rel (w : World) (h : String) (s : Name) (d : Nat) : MutRel w h (some d) (setAttrOp w h s d).2 := by
  unfold setAttrOp
  cases ho : w.obj? h with
  | none => exact .same
  | some o =>
    simp only
    split_ifs
    · refine .set o _ ho rfl (fun e he => ?_)
      obtain ⟨p, hp, rfl⟩ := List.mem_map.mp he
      obtain ⟨q, hq, rfl⟩ := List.mem_map.mp hp
      split_ifs
      · exact Or.inr rfl
      · exact Or.inl (List.mem_map.mpr ⟨q, hq, rfl⟩)
    · exact .same

theorem growOp_rel (w : World) (h : String) (ss : List Name) : MutRel w h none (growOp w h ss).2 := by
  unfold growOp
  cases ho : w.obj? h with
  | none => exact .same
  | some o => exact .sync o o _ _ _ ho rfl (fun _ hd => hd) (fun _ => rfl)

theorem addFromOp_rel (w : World) (dst src : String) (ρ : List (Name × Name)) :
    MutRel w dst none (addFromOp w dst src ρ).2 := by
  unfold addFromOp
  cases ho : w.obj? dst with
  | none => exact .same
  | some d =>
    cases hs : w.obj? src with
    | none => exact .same
    | some s => exact .sync d d _ _ _ ho rfl (fun _ hd => hd) (fun _ => rfl)

theorem filtOp_rel {ρ : Type} (w : World) (h : String) (f : FS → Except Err ρ × FS) :
    MutRel w h none (filtOp w h f).2 := by
  unfold filtOp
  cases ho : w.obj? h with
  | none => exact .same
  | some o =>
    simp only
    cases hf : o.fs with
    | none => exact .same
    | some fs => exact .set o _ ho rfl (fun d hd => Or.inl hd)

/-! ### `dictSetOp`: the one mutator that writes a cell -/

/-- `c[s][k] = v` changes the one dict object `attr? s` of the object at `h` and nothing else -/
structure DictSetSpec (w : World) (h : String) (s : Name) (w' : World) : Prop where
  objs : w'.objs = w.objs
  next : w'.next = w.next
  udict : w'.udict = w.udict
  embs : w'.embs = w.embs
  cell_other : ∀ d, (∀ o, w.obj? h = some o → o.attr? s ≠ some d) → w'.cell? d = w.cell? d
  cell_some : ∀ d, (w.cell? d).isSome = true → (w'.cell? d).isSome = true
  inv : WInv w'

theorem dictSetOp_spec {w : World} (hw : WInv w) (h : String) (s : Name) (k v : Int) :
    DictSetSpec w h s (dictSetOp w h s k v).2 := by
  have triv : DictSetSpec w h s w := ⟨rfl, rfl, rfl, rfl, fun _ _ => rfl, fun _ hd => hd, hw⟩
  unfold dictSetOp
  cases ho : w.obj? h with
  | none => exact triv
  | some o =>
    simp only
    cases ha : o.attr? s with
    | none => exact triv
    | some d =>
      simp only
      have hd := hw.ok h o ho
      have hdl : d < w.next := hd.ids_lt d (attr?_mem_ids ha)
      have hsome : ∀ e, (w.cell? e).isSome = true → ((w.setCell d (Dict.set ((w.cell? d).getD []) k v)).cell? e).isSome = true := by
        intro e he; rw [cell?_setCell]; split_ifs
        · rfl
        · exact he
      refine ⟨by simp, by simp, by simp, by simp, fun e he => ?_, hsome, ?_⟩
      · rw [cell?_setCell, if_neg]
        intro e'; subst e'; exact he o ho ha
      · refine ⟨fun g x hx => ?_, fun e he => ?_, fun p hp => ?_, by simpa using hw.handles⟩
        · rw [setCell_obj?] at hx
          have hx' := hw.ok g x hx
          exact ⟨by simpa using hx'.rep_lt, fun e he => by simpa using hx'.ids_lt e he,
            fun e he => hsome e (hx'.ids_cell e he)⟩
        · rw [cell?_setCell, if_neg]
          · exact hw.cell_lt e (by simpa using he)
          · simp only [setCell_next] at he; omega
        · simp only [setCell_udict] at hp; simpa using hw.udict_lt p hp

/-! ## copy-like constructors -/

/-- a new object at `h` made of fresh identities only; nothing that existed in `w` is touched -/
structure FreshSpec (w : World) (h : String) (w' : World) (o' : Obj) : Prop where
  frame : Frame w w' h
  inv : WInv w'
  obj : w'.obj? h = some o'
  rep_fresh : w.next ≤ o'.rep
  ids_fresh : ∀ d ∈ o'.ids, w.next ≤ d

/-- **the general lemma**: `sync` from an object without dicts and with a fresh identity, stored at `h` -/
theorem fresh_sync {w w0 : World} {h : String} (hw : WInv w) (f0 : Frame w w0 h) (o : Obj) (c' : C)
    (ct : Name → Dict) (hr1 : w.next ≤ o.rep) (hr2 : o.rep < w0.next) (ha : o.attrs = []) :
    FreshSpec w h ((sync w0 o c' noSpecial ct).2.setObj h (sync w0 o c' noSpecial ct).1)
        (sync w0 o c' noSpecial ct).1 ∧
      (sync w0 o c' noSpecial ct).1.c = c' ∧ (sync w0 o c' noSpecial ct).1.filt = o.filt ∧
      (sync w0 o c' noSpecial ct).1.rep = o.rep ∧
      (sync w0 o c' noSpecial ct).1.attrs.map (·.1) = c'.names ∧
      ∀ n ∈ c'.names, (sync w0 o c' noSpecial ct).1.dictOf
        ((sync w0 o c' noSpecial ct).2.setObj h (sync w0 o c' noSpecial ct).1) n = ct n := by
  have s := sync_spec w0 o c' noSpecial ct (f0.cell_lt hw.cell_lt)
  have f : Frame w ((W.sync w0 o c' noSpecial ct).2.setObj h (W.sync w0 o c' noSpecial ct).1) h :=
    (f0.trans (s.frame h)).trans (Frame.setObj _ h _)
  have hok0 : OK w0 o := ⟨hr2, fun d hd => by simp [Obj.ids, ha] at hd, fun d hd => by simp [Obj.ids, ha] at hd⟩
  have hno : ∀ n, o.attr? n = none := fun n => by rw [attr?_eq, ha]; rfl
  refine ⟨⟨f, ?_, obj?_setObj_self _ _ _, by rw [s.rep]; exact hr1, fun d hd => ?_⟩, s.c, s.filt, s.rep, s.names,
    fun n hn => ?_⟩
  · refine hw.of_frame f (fun x hx => ?_)
    rw [obj?_setObj_self] at hx; cases hx
    exact OK.setObj h _ (s.ok hok0 (fun n d e => by cases e))
  · rcases s.ids hd with h1 | ⟨n, h2⟩ | ⟨h3, _, _⟩
    · simp [Obj.ids, ha] at h1
    · cases h2
    · exact Nat.le_trans f0.next_le h3
  · obtain ⟨d, hd, hg⟩ := s.attr? hn
    unfold Obj.dictOf
    rw [hd]; simp only [setObj_cell?]
    rcases hg with h1 | ⟨_, h2⟩ | ⟨_, _, _, _, h5⟩
    · rw [hno] at h1; cases h1
    · cases h2
    · rw [h5]; rfl

theorem newCx_spec {w : World} (hw : WInv w) (h : String) :
    FreshSpec w h (newCx w h) { rep := w.next, c := emptyC, attrs := [] } := by
  have f : Frame w (newCx w h) h := (Frame.freshId w h).trans (Frame.setObj _ h _)
  refine ⟨f, ?_, obj?_setObj_self _ _ _, Nat.le_refl _, fun d hd => by cases hd⟩
  refine hw.of_frame f (fun x hx => ?_)
  unfold newCx at hx
  rw [obj?_setObj_self] at hx; cases hx
  exact OK.setObj h _ ⟨Nat.lt_succ_self _, (fun d hd => by cases hd), (fun d hd => by cases hd)⟩

theorem newFilt_spec {w : World} (hw : WInv w) (h : String) (ind : Int) :
    FreshSpec w h (newFilt w h ind)
      { rep := w.next, c := emptyC, attrs := [], filt := some { index := ind, births := [], keys := [ind] } } := by
  have f : Frame w (newFilt w h ind) h := (Frame.freshId w h).trans (Frame.setObj _ h _)
  refine ⟨f, ?_, obj?_setObj_self _ _ _, Nat.le_refl _, fun d hd => by cases hd⟩
  refine hw.of_frame f (fun x hx => ?_)
  unfold newFilt at hx
  rw [obj?_setObj_self] at hx; cases hx
  exact OK.setObj h _ ⟨Nat.lt_succ_self _, (fun d hd => by cases hd), (fun d hd => by cases hd)⟩

/-! ## Part 3 — the theorems -/

/-! ## `WInv` is preserved by every operation -/

theorem newCx_inv {w : World} (hw : WInv w) (h : String) : WInv (newCx w h) := (newCx_spec hw h).inv
theorem newFilt_inv {w : World} (hw : WInv w) (h : String) (ind : Int) : WInv (newFilt w h ind) :=
  (newFilt_spec hw h ind).inv

theorem alloc_inv {w : World} (hw : WInv w) (v : Dict) : WInv (w.alloc v).2 :=
  hw.of_frame (Frame.alloc w v "") (fun o' ho' => (hw.ok "" o' ho').mono (Nat.le_succ _)
    (fun _ hd => alloc_cell?_ne w v (Nat.ne_of_lt hd)))

theorem freshId_inv {w : World} (hw : WInv w) : WInv w.freshId.2 :=
  hw.of_frame (Frame.freshId w "") (fun o' ho' => (hw.ok "" o' ho').mono (Nat.le_succ _) (fun _ _ => rfl))

/-- storing a well-formed object -/
theorem setObj_inv {w : World} (hw : WInv w) (h : String) (o : Obj) (ho : OK w o) : WInv (w.setObj h o) :=
  hw.of_frame (Frame.setObj w h o) (fun o' ho' => by
    rw [obj?_setObj_self] at ho'; cases ho'; exact ho.setObj h _)

/-- overwriting an allocated dict object -/
theorem setCell_inv {w : World} (hw : WInv w) (d : Nat) (v : Dict) (hd : d < w.next) : WInv (w.setCell d v) := by
  have hsome : ∀ e, (w.cell? e).isSome = true → ((w.setCell d v).cell? e).isSome = true := by
    intro e he; rw [cell?_setCell]; split_ifs
    · rfl
    · exact he
  refine ⟨fun g x hx => ?_, fun e he => ?_, fun p hp => ?_, by simpa using hw.handles⟩
  · rw [setCell_obj?] at hx
    have hx' := hw.ok g x hx
    exact ⟨by simpa using hx'.rep_lt, fun e he => by simpa using hx'.ids_lt e he,
      fun e he => hsome e (hx'.ids_cell e he)⟩
  · rw [cell?_setCell, if_neg]
    · exact hw.cell_lt e (by simpa using he)
    · simp only [setCell_next] at he; omega
  · simp only [setCell_udict] at hp; simpa using hw.udict_lt p hp

/-- `sync` on an object of the world, result stored back: the general preservation lemma -/
theorem sync_inv {w : World} (hw : WInv w) (h : String) (o : Obj) (ho : OK w o) (c' : C)
    (sp : Name → Option Nat) (ct : Name → Dict)
    (hsp : ∀ n d, sp n = some d → d < w.next ∧ (w.cell? d).isSome = true) :
    WInv ((sync w o c' sp ct).2.setObj h (sync w o c' sp ct).1) := by
  have s := sync_spec w o c' sp ct hw.cell_lt
  refine hw.of_frame ((s.frame h).trans (Frame.setObj _ h _)) (fun x hx => ?_)
  rw [obj?_setObj_self] at hx; cases hx
  exact (s.ok ho hsp).setObj h _

theorem addFacesOp_inv {w : World} (hw : WInv w) (h : String) (fs : List Name) (id : Option Name)
    (attr : Option Nat) (ha : ArgOK w attr) : WInv (addFacesOp w h fs id attr).2 :=
  ((addFacesOp_rel w h fs id attr).spec hw).inv ha

theorem addBasisOp_inv {w : World} (hw : WInv w) (h : String) (bs : List Name) (id : Option Name)
    (attr : Option Nat) (ha : ArgOK w attr) : WInv (addBasisOp w h bs id attr).2 :=
  ((addBasisOp_rel w h bs id attr).spec hw).inv ha

theorem argOK_none (w : World) : ArgOK w none := fun _ e => by cases e

theorem structOp_inv {w : World} (hw : WInv w) (h : String) (f : C → Option C) : WInv (structOp w h f).2 :=
  ((structOp_rel w h f).spec hw).inv (argOK_none w)
theorem deleteOp_inv {w : World} (hw : WInv w) (h : String) (s : Name) : WInv (deleteOp w h s).2 :=
  structOp_inv hw h _
theorem deleteBasisOp_inv {w : World} (hw : WInv w) (h : String) (bs : List Name) :
    WInv (deleteBasisOp w h bs).2 := structOp_inv hw h _
theorem deleteManyOp_inv {w : World} (hw : WInv w) (h : String) (ss : List Name) :
    WInv (deleteManyOp w h ss).2 := structOp_inv hw h _
theorem restrictOp_inv {w : World} (hw : WInv w) (h : String) (bs : List Name) : WInv (restrictOp w h bs).2 :=
  structOp_inv hw h _
theorem subdivideOp_inv {w : World} (hw : WInv w) (h : String) (s : Name) (order : List Name) :
    WInv (subdivideOp w h s order).2 := ((subdivideOp_rel w h s order).spec hw).inv (argOK_none w)
theorem relabelOp_inv {w : World} (hw : WInv w) (h : String) (ρ : List (Name × Name)) :
    WInv (relabelOp w h ρ).2 := ((relabelWith_rel w h _).spec hw).inv (argOK_none w)
theorem relabelDisjointOp_inv {w : World} (hw : WInv w) (h other : String) :
    WInv (relabelDisjointOp w h other).2 := ((relabelDisjointOp_rel w h other).spec hw).inv (argOK_none w)
theorem setAttrOp_inv {w : World} (hw : WInv w) (h : String) (s : Name) (d : Nat)
    (hd : d < w.next ∧ (w.cell? d).isSome = true) : WInv (setAttrOp w h s d).2 :=
  ((setAttrOp_rel w h s d).spec hw).inv (fun e he => by cases he; exact hd)
theorem dictSetOp_inv {w : World} (hw : WInv w) (h : String) (s : Name) (k v : Int) :
    WInv (dictSetOp w h s k v).2 := (dictSetOp_spec hw h s k v).inv
theorem growOp_inv {w : World} (hw : WInv w) (h : String) (ss : List Name) : WInv (growOp w h ss).2 :=
  ((growOp_rel w h ss).spec hw).inv (argOK_none w)
theorem addFromOp_inv {w : World} (hw : WInv w) (dst src : String) (ρ : List (Name × Name)) :
    WInv (addFromOp w dst src ρ).2 := ((addFromOp_rel w dst src ρ).spec hw).inv (argOK_none w)
theorem filtOp_inv {ρ : Type} {w : World} (hw : WInv w) (h : String) (f : FS → Except Err ρ × FS) :
    WInv (filtOp w h f).2 := ((filtOp_rel w h f).spec hw).inv (argOK_none w)

theorem copyIntoOp_rel (w : World) (src tgt : String) : MutRel w tgt none (copyIntoOp w src tgt).2 := by
  unfold copyIntoOp
  cases w.obj? src with
  | none => exact .same
  | some s =>
    cases w.obj? tgt with
    | none => exact .same
    | some t =>
      simp only
      split_ifs
      · exact .same
      · have := addFromOp_rel w tgt src []
        split <;> rename_i heq <;> rw [heq] at this <;> exact this

theorem copyIntoOp_inv {w : World} (hw : WInv w) (src tgt : String) : WInv (copyIntoOp w src tgt).2 :=
  ((copyIntoOp_rel w src tgt).spec hw).inv (argOK_none w)

/-! ## (1) copy-like constructors return fresh identities and touch nothing that existed -/

/-- the readable form of `FreshSpec` -/
theorem FreshSpec.explicit {w w' : World} {h : String} {o' : Obj} (s : FreshSpec w h w' o') :
    w'.obj? h = some o' ∧ w.next ≤ o'.rep ∧ (∀ d ∈ o'.ids, w.next ≤ d) ∧
    (∀ g, g ≠ h → w'.obj? g = w.obj? g) ∧ (∀ d, d < w.next → w'.cell? d = w.cell? d) ∧ WInv w' :=
  ⟨s.obj, s.rep_fresh, s.ids_fresh, s.frame.obj_other, s.frame.cell_old, s.inv⟩

/-- freshness means: shared with no object of the old world -/
theorem FreshSpec.disjoint {w w' : World} {h : String} {o' : Obj} (s : FreshSpec w h w' o') (hw : WInv w)
    {g : String} {o : Obj} (ho : w.obj? g = some o) :
    o'.rep ≠ o.rep ∧ (∀ d ∈ o'.ids, d ∉ o.ids) ∧ (∀ d ∈ o'.ids, d ≠ o.rep) ∧ (∀ d ∈ o.ids, d ≠ o'.rep) := by
  have hok := hw.ok g o ho
  refine ⟨?_, fun d hd hd' => ?_, fun d hd => ?_, fun d hd => ?_⟩
  · have := s.rep_fresh; have := hok.rep_lt; omega
  · have := s.ids_fresh d hd; have := hok.ids_lt d hd'; omega
  · have := s.ids_fresh d hd; have := hok.rep_lt; omega
  · have := s.rep_fresh; have := hok.ids_lt d hd; omega

/-- when `h` is a new handle, every object of `w` is still there -/
theorem FreshSpec.old_objs {w w' : World} {h : String} {o' : Obj} (s : FreshSpec w h w' o')
    (hnew : w.obj? h = none) (g : String) (o : Obj) (ho : w.obj? g = some o) : w'.obj? g = some o := by
  have : g ≠ h := by intro e; subst e; rw [hnew] at ho; cases ho
  rw [s.frame.obj_other g this]; exact ho

theorem renameOf_nil : renameOf [] = id := by funext n; rfl

theorem copyOp_world (w : World) (src h : String) (s : Obj) (hs : w.obj? src = some s) :
    (copyOp w src h).2 = (addFromOp (newCx w h) h src []).2 ∧
    ((copyOp w src h).1 = .ok () ↔ ∃ l, (addFromOp (newCx w h) h src []).1 = .ok l) := by
  unfold copyOp
  rw [hs]
  simp only
  split <;> rename_i heq <;> rw [heq] <;> simp

/-- the content function `addFromOp` uses for `copy()` (`ρ = {}`) -/
def copyContent (w : World) (s : Obj) : Name → Dict := fun t =>
  match s.c.names.find? (fun n => renameOf [] n == t) with
  | some n => s.dictOf w n
  | none => []

theorem copyContent_eq (w : World) (s : Obj) {n : Name} (hn : n ∈ s.c.names) : copyContent w s n = s.dictOf w n := by
  unfold copyContent
  simp only [renameOf_nil, id]
  have hf : s.c.names.find? (fun m => m == n) = some n := by
    cases hk : s.c.names.find? (fun m => m == n) with
    | none =>
      rw [List.find?_eq_none] at hk
      exact absurd (by simp) (hk n hn)
    | some m =>
      have := List.find?_some hk
      simp only [beq_iff_eq] at this; rw [this]
  rw [hf]

theorem addFromOp_eq (w : World) (dst src : String) (ρ : List (Name × Name)) (d s : Obj)
    (hd : w.obj? dst = some d) (hs : w.obj? src = some s) :
    addFromOp w dst src ρ =
      ((addFrom d.c s.c (renameOf ρ)).1,
        (sync w d (addFrom d.c s.c (renameOf ρ)).2 noSpecial (fun t =>
          match s.c.names.find? (fun n => renameOf ρ n == t) with
          | some n => s.dictOf w n
          | none => [])).2.setObj dst
        (sync w d (addFrom d.c s.c (renameOf ρ)).2 noSpecial (fun t =>
          match s.c.names.find? (fun n => renameOf ρ n == t) with
          | some n => s.dictOf w n
          | none => [])).1) := by
  unfold addFromOp; simp only [hd, hs]; rfl

/-- the world after `src.copy()`, in terms of `sync` -/
theorem copyOp_eq {w : World} (hw : WInv w) (src h : String) (s : Obj) (hs : w.obj? src = some s) :
    ∃ s' : Obj, (src ≠ h → s' = s) ∧
      ((copyOp w src h).1 = .ok () ↔ ∃ l, (copyNew s'.c).1 = .ok l) ∧
      (copyOp w src h).2 =
        (sync (newCx w h) { rep := w.next, c := emptyC, attrs := [] } (copyNew s'.c).2 noSpecial
          (copyContent (newCx w h) s')).2.setObj h
        (sync (newCx w h) { rep := w.next, c := emptyC, attrs := [] } (copyNew s'.c).2 noSpecial
          (copyContent (newCx w h) s')).1 := by
  obtain ⟨e1, e2⟩ := copyOp_world w src h s hs
  have h1 : (newCx w h).obj? h = some { rep := w.next, c := emptyC, attrs := [] } := (newCx_spec hw h).obj
  have h2 : ∃ s', (newCx w h).obj? src = some s' ∧ (src ≠ h → s' = s) := by
    by_cases hne : src = h
    · subst hne; exact ⟨_, h1, fun hx => absurd rfl hx⟩
    · exact ⟨s, by rw [(newCx_spec hw h).frame.obj_other src hne, hs], fun _ => rfl⟩
  obtain ⟨s', hs', hss⟩ := h2
  have e := addFromOp_eq (newCx w h) h src [] _ s' h1 hs'
  refine ⟨s', hss, ?_, ?_⟩
  · rw [e2, e]; simp only [renameOf_nil]; rfl
  · rw [e1, e]; simp only [renameOf_nil]; rfl

theorem dictOf_newCx (w : World) (h : String) (s : Obj) (n : Name) : s.dictOf (newCx w h) n = s.dictOf w n := by
  unfold Obj.dictOf newCx
  simp only [setObj_cell?]
  rfl

/-- the common core of (1) and (2) for `copyOp` -/
theorem copyOp_spec {w : World} (hw : WInv w) (src h : String) (s : Obj) (hs : w.obj? src = some s) :
    ∃ o', FreshSpec w h (copyOp w src h).2 o' ∧ o'.filt = none ∧
      (src ≠ h → o'.c = (copyNew s.c).2 ∧
        ((copyOp w src h).1 = .ok () ↔ ∃ l, (copyNew s.c).1 = .ok l) ∧
        o'.attrs.map (·.1) = (copyNew s.c).2.names ∧
        ∀ n ∈ (copyNew s.c).2.names, n ∈ s.c.names → o'.dictOf (copyOp w src h).2 n = s.dictOf w n) := by
  obtain ⟨s', hss, hres, hw'⟩ := copyOp_eq hw src h s hs
  have f0 := (newCx_spec hw h).frame
  obtain ⟨fs, hc, hf, _, hnames, hd⟩ := fresh_sync hw f0 { rep := w.next, c := emptyC, attrs := [] }
    (copyNew s'.c).2 (copyContent (newCx w h) s')
    (Nat.le_refl _) (by show w.next < (newCx w h).next; unfold newCx; simp [World.freshId]) rfl
  rw [← hw'] at fs hd
  refine ⟨_, fs, hf, fun hne => ?_⟩
  have := hss hne
  subst this
  exact ⟨hc, hres, hnames, fun n hn hns => (hd n hn).trans ((copyContent_eq _ _ hns).trans (dictOf_newCx w h _ n))⟩

/-- **(1) `copy()`**: the new object's representation and all its dict objects are fresh, every other object
and every dict object of `w` is unchanged, and the world stays well-formed. (`h` need not be a new handle:
re-binding an existing handle forgets the old object, all other objects are unchanged. The statement holds
whatever the result of the call is: a failing `copy()` leaves the partially filled new object behind.) -/
theorem copyOp_fresh {w : World} (hw : WInv w) (src h : String) (s : Obj) (hs : w.obj? src = some s) :
    ∃ o', (copyOp w src h).2.obj? h = some o' ∧ w.next ≤ o'.rep ∧ (∀ d ∈ o'.ids, w.next ≤ d) ∧
      (∀ g, g ≠ h → (copyOp w src h).2.obj? g = w.obj? g) ∧
      (∀ d, d < w.next → (copyOp w src h).2.cell? d = w.cell? d) ∧ WInv (copyOp w src h).2 := by
  obtain ⟨o', fs, _⟩ := copyOp_spec hw src h s hs
  exact ⟨o', fs.explicit⟩

/-- (1) in the form "if `copyOp w src h = (.ok (), w')`" -/
theorem copyOp_fresh' {w w' : World} (hw : WInv w) (src h : String) (hc : copyOp w src h = (.ok (), w')) :
    ∃ o', w'.obj? h = some o' ∧ w.next ≤ o'.rep ∧ (∀ d ∈ o'.ids, w.next ≤ d) ∧
      (∀ g, g ≠ h → w'.obj? g = w.obj? g) ∧ (∀ d, d < w.next → w'.cell? d = w.cell? d) ∧ WInv w' := by
  cases hs : w.obj? src with
  | none => unfold copyOp at hc; rw [hs] at hc; cases hc
  | some s =>
    have := copyOp_fresh hw src h s hs
    rw [hc] at this; exact this

/-- a failing lookup is the only other case: nothing happens -/
theorem copyOp_absent (w : World) (src h : String) (hs : w.obj? src = none) : copyOp w src h = (.error .key, w) := by
  unfold copyOp; rw [hs]

/-! ### deepcopy

`copy.deepcopy` keeps a memo "identity of a source object ↦ its copy": dict objects shared by several simplices
of the source are copied once and stay shared (between the corresponding simplices of the copy). `deepcopyOp`
builds that memo (`dcMemo`: source cell id ↦ fresh cell id) with a fold over `s.attrs` and then maps every
simplex to the fresh cell of its source cell (`dcObj`). -/

section kfindMap
variable {κ β γ : Type} [DecidableEq κ] [BEq κ] [LawfulBEq κ]

/-- lookup after changing the values only -/
theorem kfind_map_val (l : List (κ × β)) (g : β → γ) (k : κ) :
    kfind (l.map (fun p => (p.1, g p.2))) k = (kfind l k).map g := by
  induction l with
  | nil => rfl
  | cons p l ih =>
    rw [List.map_cons, kfind_cons, kfind_cons, ih]
    by_cases hp : p.1 = k <;> simp [hp]

end kfindMap

/-- one step of the loop of `deepcopyOp`: a source cell id that is already in the memo costs nothing, a new one
gets a fresh cell holding the content of the source cell (read in the world `w` before the call) -/
def dcStep (w : World) (acc : List (Nat × Nat) × World) (p : Name × Nat) : List (Nat × Nat) × World :=
  match kfind acc.1 p.2 with
  | some _ => acc
  | none => let a := acc.2.alloc ((w.cell? p.2).getD []); (acc.1 ++ [(p.2, a.1)], a.2)

/-- the memo of `deepcopyOp` (source cell id ↦ fresh cell id) and the world after the allocations -/
def dcMemo (w : World) (s : Obj) : List (Nat × Nat) × World := s.attrs.foldl (dcStep w) ([], w.freshId.2)

/-- the object created by `deepcopyOp` -/
def dcObj (w : World) (s : Obj) : Obj :=
  { rep := w.next, c := s.c, filt := s.filt,
    attrs := s.attrs.map (fun p => (p.1, (kfind (dcMemo w s).1 p.2).getD p.2)) }

theorem deepcopyOp_eq (w : World) (src h : String) (s : Obj) (hs : w.obj? src = some s) :
    deepcopyOp w src h = (.ok (), (dcMemo w s).2.setObj h (dcObj w s)) := by
  unfold deepcopyOp; rw [hs]; rfl

theorem deepcopyOp_absent (w : World) (src h : String) (hs : w.obj? src = none) :
    deepcopyOp w src h = (.error .key, w) := by
  unfold deepcopyOp; rw [hs]

/-- the invariant of the loop: the memo is injective, its values are fresh identities (above the new `rep`,
which is `w.next`), and each of them is a cell holding the content of its source cell -/
structure DcInv (w : World) (acc : List (Nat × Nat) × World) : Prop where
  next_lt : w.next < acc.2.next
  cell_lt : CellLt acc.2
  val : ∀ d e, kfind acc.1 d = some e →
    w.next < e ∧ e < acc.2.next ∧ acc.2.cell? e = some ((w.cell? d).getD [])
  inj : ∀ d d' e, kfind acc.1 d = some e → kfind acc.1 d' = some e → d = d'

/-- what the loop never touches, and: the memo only grows -/
structure DcExt (a b : List (Nat × Nat) × World) : Prop where
  objs : b.2.objs = a.2.objs
  udict : b.2.udict = a.2.udict
  embs : b.2.embs = a.2.embs
  next_le : a.2.next ≤ b.2.next
  cell_old : ∀ d, d < a.2.next → b.2.cell? d = a.2.cell? d
  memo : ∀ d e, kfind a.1 d = some e → kfind b.1 d = some e

theorem DcExt.refl (a : List (Nat × Nat) × World) : DcExt a a :=
  ⟨rfl, rfl, rfl, Nat.le_refl _, fun _ _ => rfl, fun _ _ h => h⟩

theorem DcExt.trans {a b c : List (Nat × Nat) × World} (x : DcExt a b) (y : DcExt b c) : DcExt a c where
  objs := y.objs.trans x.objs
  udict := y.udict.trans x.udict
  embs := y.embs.trans x.embs
  next_le := Nat.le_trans x.next_le y.next_le
  cell_old d hd := (y.cell_old d (Nat.lt_of_lt_of_le hd x.next_le)).trans (x.cell_old d hd)
  memo d e h := y.memo d e (x.memo d e h)

theorem dcStep_spec (w : World) (acc : List (Nat × Nat) × World) (p : Name × Nat) (hi : DcInv w acc) :
    DcInv w (dcStep w acc p) ∧ DcExt acc (dcStep w acc p) ∧ ∃ e, kfind (dcStep w acc p).1 p.2 = some e := by
  unfold dcStep
  cases hk : kfind acc.1 p.2 with
  | some e => exact ⟨hi, DcExt.refl _, e, hk⟩
  | none =>
    obtain ⟨M, w0⟩ := acc
    simp only at hk ⊢
    generalize hv : (w.cell? p.2).getD [] = v
    have key : ∀ d, kfind (M ++ [(p.2, (w0.alloc v).1)]) d = if d = p.2 then some w0.next else kfind M d := by
      intro d
      by_cases hd : d = p.2
      · subst hd; rw [if_pos rfl]; exact kfind_append_single_self _ _ _ hk
      · rw [if_neg hd]; exact kfind_append_single_ne _ _ hd
    have hnl := hi.next_lt
    simp only at hnl
    refine ⟨⟨?_, alloc_cellLt w0 v hi.cell_lt, ?_, ?_⟩, ⟨rfl, rfl, rfl, ?_, ?_, ?_⟩, w0.next, ?_⟩
    · show w.next < (w0.alloc v).2.next
      rw [alloc_next]; omega
    · intro d e h
      show w.next < e ∧ e < (w0.alloc v).2.next ∧ (w0.alloc v).2.cell? e = some ((w.cell? d).getD [])
      rw [key] at h
      rw [alloc_next]
      split_ifs at h with hd
      · cases h
        rw [hd, hv]
        exact ⟨hnl, by omega, alloc_cell?_self w0 v hi.cell_lt⟩
      · obtain ⟨h1, h2, h3⟩ := hi.val d e h
        simp only at h2 h3
        exact ⟨h1, by omega, by rw [alloc_cell?_ne w0 v (by omega)]; exact h3⟩
    · intro d d' e h h'
      rw [key] at h h'
      split_ifs at h h' with h1 h2 h2
      · rw [h1, h2]
      · cases h
        have := (hi.val d' _ h').2.1
        simp only at this; omega
      · cases h'
        have := (hi.val d _ h).2.1
        simp only at this; omega
      · exact hi.inj d d' e h h'
    · show w0.next ≤ (w0.alloc v).2.next
      rw [alloc_next]; omega
    · intro d hd
      exact alloc_cell?_ne w0 v (by simp only at hd; omega)
    · intro d e h
      rw [key]
      split_ifs with hd
      · subst hd; rw [hk] at h; cases h
      · exact h
    · rw [key, if_pos rfl]

theorem dcFold_spec (w : World) : ∀ (ps : List (Name × Nat)) (acc : List (Nat × Nat) × World), DcInv w acc →
    DcInv w (ps.foldl (dcStep w) acc) ∧ DcExt acc (ps.foldl (dcStep w) acc) ∧
      ∀ p ∈ ps, ∃ e, kfind (ps.foldl (dcStep w) acc).1 p.2 = some e := by
  intro ps
  induction ps with
  | nil => intro acc hi; exact ⟨hi, DcExt.refl _, fun p hp => by cases hp⟩
  | cons q rest ih =>
    intro acc hi
    rw [List.foldl_cons]
    obtain ⟨i1, e1, c1⟩ := dcStep_spec w acc q hi
    obtain ⟨i2, e2, c2⟩ := ih _ i1
    refine ⟨i2, e1.trans e2, fun p hp => ?_⟩
    rcases List.mem_cons.mp hp with rfl | hp
    · obtain ⟨e, he⟩ := c1; exact ⟨e, e2.memo _ _ he⟩
    · exact c2 p hp

/-- the memo of `deepcopyOp`: everything the call allocates, in one statement -/
theorem dcMemo_spec {w : World} (hw : WInv w) (s : Obj) :
    DcInv w (dcMemo w s) ∧ DcExt ([], w.freshId.2) (dcMemo w s) ∧
      ∀ d ∈ s.ids, ∃ e, kfind (dcMemo w s).1 d = some e := by
  have h0 : DcInv w ([], w.freshId.2) :=
    ⟨Nat.lt_succ_self _, (Frame.freshId w "").cell_lt hw.cell_lt,
      fun d e h => (by rw [kfind_nil] at h; cases h), fun d d' e h => (by rw [kfind_nil] at h; cases h)⟩
  obtain ⟨i, e, c⟩ := dcFold_spec w s.attrs _ h0
  refine ⟨i, e, fun d hd => ?_⟩
  obtain ⟨p, hp, rfl⟩ := List.mem_map.mp hd
  exact c p hp

/-- every cell id of the source is a key of the memo (whatever the world: the `getD` default in `deepcopyOp`
is never used) -/
theorem dcMemo_covers (w : World) (s : Obj) : ∀ d ∈ s.ids, ∃ e, kfind (dcMemo w s).1 d = some e := by
  have : ∀ (ps : List (Name × Nat)) (acc : List (Nat × Nat) × World),
      (∀ d e, kfind acc.1 d = some e → ∃ e', kfind (ps.foldl (dcStep w) acc).1 d = some e') ∧
      ∀ p ∈ ps, ∃ e, kfind (ps.foldl (dcStep w) acc).1 p.2 = some e := by
    intro ps
    induction ps with
    | nil => intro acc; exact ⟨fun d e h => ⟨e, h⟩, fun p hp => by cases hp⟩
    | cons q rest ih =>
      intro acc
      rw [List.foldl_cons]
      have hstep : (∀ d e, kfind acc.1 d = some e → ∃ e', kfind (dcStep w acc q).1 d = some e') ∧
          ∃ e, kfind (dcStep w acc q).1 q.2 = some e := by
        unfold dcStep
        cases hk : kfind acc.1 q.2 with
        | some e => exact ⟨fun d e h => ⟨e, h⟩, e, hk⟩
        | none =>
          refine ⟨fun d e h => ?_, acc.2.next, kfind_append_single_self _ _ _ hk⟩
          have hd : d ≠ q.2 := by intro e'; subst e'; rw [hk] at h; cases h
          exact ⟨e, by simp only; rw [kfind_append_single_ne _ _ hd]; exact h⟩
      obtain ⟨a1, a2⟩ := ih (dcStep w acc q)
      refine ⟨fun d e h => ?_, fun p hp => ?_⟩
      · obtain ⟨e', he'⟩ := hstep.1 d e h; exact a1 d e' he'
      · rcases List.mem_cons.mp hp with rfl | hp
        · obtain ⟨e, he⟩ := hstep.2; exact a1 _ e he
        · exact a2 p hp
  intro d hd
  obtain ⟨p, hp, rfl⟩ := List.mem_map.mp hd
  exact (this s.attrs ([], w.freshId.2)).2 p hp

/-- the dict identity of a simplex of the copy: the memo applied to the one of the source -/
theorem dcObj_attr? (w : World) (s : Obj) (n : Name) :
    (dcObj w s).attr? n = (s.attr? n).map (fun d => (kfind (dcMemo w s).1 d).getD d) := by
  rw [attr?_eq, attr?_eq]
  exact kfind_map_val s.attrs (fun d => (kfind (dcMemo w s).1 d).getD d) n

theorem dcObj_names (w : World) (s : Obj) : (dcObj w s).attrs.map (·.1) = s.attrs.map (·.1) := by
  unfold dcObj
  simp only [List.map_map]
  rfl

theorem dcObj_ids (w : World) (s : Obj) {e : Nat} (he : e ∈ (dcObj w s).ids) :
    ∃ d ∈ s.ids, kfind (dcMemo w s).1 d = some e := by
  obtain ⟨q, hq, rfl⟩ := List.mem_map.mp he
  have hq' : q ∈ s.attrs.map (fun p => (p.1, (kfind (dcMemo w s).1 p.2).getD p.2)) := hq
  obtain ⟨p, hp, rfl⟩ := List.mem_map.mp hq'
  have hd : p.2 ∈ s.ids := List.mem_map.mpr ⟨p, hp, rfl⟩
  obtain ⟨e, he⟩ := dcMemo_covers w s p.2 hd
  exact ⟨p.2, hd, by rw [he]; rfl⟩

/-- **`deepcopy`, the common core of (1), (2) and the sharing theorem**: the call succeeds; the new object is
made of fresh identities only and nothing that existed is touched (`FreshSpec`); same structure (the very same
`C`, including the name counter), same filtration fields, an entry for exactly the simplices that have one in
the source (in the same listing order); the dict of every simplex has the content of the source's; two
simplices hold the same dict object in the copy iff they do in the source. -/
theorem deepcopyOp_spec {w : World} (hw : WInv w) (src h : String) (s : Obj) (hs : w.obj? src = some s) :
    (deepcopyOp w src h).1 = .ok () ∧
    ∃ o', FreshSpec w h (deepcopyOp w src h).2 o' ∧ o'.c = s.c ∧ o'.filt = s.filt ∧
      o'.attrs.map (·.1) = s.attrs.map (·.1) ∧
      (∀ n, o'.dictOf (deepcopyOp w src h).2 n = s.dictOf w n) ∧
      (∀ a b, o'.attr? a = o'.attr? b ↔ s.attr? a = s.attr? b) := by
  rw [deepcopyOp_eq w src h s hs]
  obtain ⟨inv, ext, cov⟩ := dcMemo_spec hw s
  have f : Frame w ((dcMemo w s).2.setObj h (dcObj w s)) h :=
    ((Frame.freshId w h).trans (Frame.of_objs_eq h ext.objs ext.udict ext.embs ext.next_le ext.cell_old
      (fun _ => inv.cell_lt))).trans (Frame.setObj _ h _)
  have hok : OK (dcMemo w s).2 (dcObj w s) := by
    refine ⟨inv.next_lt, fun e he => ?_, fun e he => ?_⟩
    · obtain ⟨d, _, hd⟩ := dcObj_ids w s he
      exact (inv.val d e hd).2.1
    · obtain ⟨d, _, hd⟩ := dcObj_ids w s he
      rw [(inv.val d e hd).2.2]; rfl
  refine ⟨rfl, dcObj w s, ⟨f, ?_, obj?_setObj_self _ _ _, Nat.le_refl _, fun e he => ?_⟩, rfl, rfl,
    dcObj_names w s, fun n => ?_, fun a b => ?_⟩
  · refine hw.of_frame f (fun x hx => ?_)
    rw [obj?_setObj_self] at hx; cases hx
    exact hok.setObj h _
  · obtain ⟨d, _, hd⟩ := dcObj_ids w s he
    exact Nat.le_of_lt (inv.val d e hd).1
  · unfold Obj.dictOf
    rw [dcObj_attr?]
    cases ha : s.attr? n with
    | none => rfl
    | some d =>
      obtain ⟨e, he⟩ := cov d (attr?_mem_ids ha)
      simp only [Option.map_some, he, Option.getD_some, setObj_cell?]
      rw [(inv.val d e he).2.2]; rfl
  · rw [dcObj_attr?, dcObj_attr?]
    constructor
    · intro hab
      cases ha : s.attr? a with
      | none =>
        cases hb : s.attr? b with
        | none => rfl
        | some d' => rw [ha, hb] at hab; cases hab
      | some d =>
        cases hb : s.attr? b with
        | none => rw [ha, hb] at hab; cases hab
        | some d' =>
          rw [ha, hb] at hab
          obtain ⟨e, he⟩ := cov d (attr?_mem_ids ha)
          obtain ⟨e', he'⟩ := cov d' (attr?_mem_ids hb)
          simp only [Option.map_some, he, he', Option.getD_some, Option.some.injEq] at hab
          subst hab
          rw [inv.inj d d' e he he']
    · intro hab; rw [hab]

/-- **(1) `deepcopy`**: every identity of the new object (its representation and all its dict objects) is
fresh, every other object and every dict object of `w` is unchanged, the world stays well-formed -/
theorem deepcopyOp_fresh {w : World} (hw : WInv w) (src h : String) (s : Obj) (hs : w.obj? src = some s) :
    ∃ o', (deepcopyOp w src h).2.obj? h = some o' ∧ w.next ≤ o'.rep ∧ (∀ d ∈ o'.ids, w.next ≤ d) ∧
      (∀ g, g ≠ h → (deepcopyOp w src h).2.obj? g = w.obj? g) ∧
      (∀ d, d < w.next → (deepcopyOp w src h).2.cell? d = w.cell? d) ∧ WInv (deepcopyOp w src h).2 := by
  obtain ⟨_, o', fs, _⟩ := deepcopyOp_spec hw src h s hs
  exact ⟨o', fs.explicit⟩

/-- **`deepcopy` preserves the sharing of dict objects inside one complex** (and creates none): two simplices
hold the same dict object in the copy iff they do in the source. Stated for all names `a`, `b` (for a name
without an entry both sides read `none`), in particular for the simplices of the source. -/
theorem deepcopyOp_sharing {w : World} (hw : WInv w) (src h : String) (s : Obj) (hs : w.obj? src = some s) :
    ∃ o', (deepcopyOp w src h).2.obj? h = some o' ∧
      ∀ a b, o'.attr? a = o'.attr? b ↔ s.attr? a = s.attr? b := by
  obtain ⟨_, o', fs, _, _, _, _, hsh⟩ := deepcopyOp_spec hw src h s hs
  exact ⟨o', fs.obj, hsh⟩

/-! ### derived complexes: `flagComplex`, JSON round trip, `snap` -/

/-- a derived-complex constructor either raises and leaves the world exactly as it was, or creates a fresh
object whose structure is the computed one and whose dicts are fresh copies of the source's -/
theorem derivedOp_spec {w : World} (hw : WInv w) (src h : String) (f : C → Except Err C) (s : Obj)
    (hs : w.obj? src = some s) :
    (∃ e, f s.c = .error e ∧ derivedOp w src h f = (.error e, w)) ∨
    (∃ c' o', f s.c = .ok c' ∧ (derivedOp w src h f).1 = .ok () ∧ FreshSpec w h (derivedOp w src h f).2 o' ∧
      o'.c = c' ∧ o'.filt = none ∧ o'.attrs.map (·.1) = c'.names ∧
      ∀ n ∈ c'.names, o'.dictOf (derivedOp w src h f).2 n = s.dictOf w n) := by
  unfold derivedOp
  rw [hs]
  simp only
  cases hf : f s.c with
  | error e => exact Or.inl ⟨e, rfl, rfl⟩
  | ok c' =>
    simp only
    obtain ⟨fs, hc, hfl, _, hnames, hd⟩ := fresh_sync hw (Frame.freshId w h)
      { rep := w.freshId.1, c := emptyC, attrs := [] } c' (fun n => s.dictOf w n)
      (Nat.le_refl _) (Nat.lt_succ_self _) rfl
    exact Or.inr ⟨c', _, rfl, trivial, fs, hc, hfl, hnames, hd⟩

theorem derivedOp_absent (w : World) (src h : String) (f : C → Except Err C) (hs : w.obj? src = none) :
    derivedOp w src h f = (.error .key, w) := by
  unfold derivedOp; rw [hs]

/-- **(1) for `derivedOp`** (hence `flagOp`, `jsonOp`): whatever the outcome, the world is unchanged or gets a
fresh object -/
theorem derivedOp_fresh {w w' : World} (hw : WInv w) (src h : String) (f : C → Except Err C)
    (hc : derivedOp w src h f = (.ok (), w')) :
    ∃ o', w'.obj? h = some o' ∧ w.next ≤ o'.rep ∧ (∀ d ∈ o'.ids, w.next ≤ d) ∧
      (∀ g, g ≠ h → w'.obj? g = w.obj? g) ∧ (∀ d, d < w.next → w'.cell? d = w.cell? d) ∧ WInv w' := by
  cases hs : w.obj? src with
  | none => rw [derivedOp_absent w src h f hs] at hc; cases hc
  | some s =>
    rcases derivedOp_spec hw src h f s hs with ⟨e, _, he⟩ | ⟨c', o', _, _, fs, _⟩
    · rw [he] at hc; cases hc
    · rw [hc] at fs; exact ⟨o', fs.explicit⟩

/-- a rejected derived-complex constructor changes nothing -/
theorem derivedOp_atomic (w : World) (src h : String) (f : C → Except Err C) (e : Err)
    (hc : (derivedOp w src h f).1 = .error e) : (derivedOp w src h f).2 = w := by
  unfold derivedOp at hc ⊢
  cases hs : w.obj? src with
  | none => rfl
  | some s =>
    rw [hs] at hc
    simp only at hc ⊢
    cases hf : f s.c with
    | error e' => rfl
    | ok c' => rw [hf] at hc; cases hc

theorem flagOp_fresh {w w' : World} (hw : WInv w) (src h : String) (hc : flagOp w src h = (.ok (), w')) :
    ∃ o', w'.obj? h = some o' ∧ w.next ≤ o'.rep ∧ (∀ d ∈ o'.ids, w.next ≤ d) ∧
      (∀ g, g ≠ h → w'.obj? g = w.obj? g) ∧ (∀ d, d < w.next → w'.cell? d = w.cell? d) ∧ WInv w' :=
  derivedOp_fresh hw src h flagOf hc

theorem flagOp_atomic (w : World) (src h : String) (e : Err) (hc : (flagOp w src h).1 = .error e) :
    (flagOp w src h).2 = w := derivedOp_atomic w src h flagOf e hc

theorem jsonOp_fresh {w w' : World} (hw : WInv w) (src h : String) (hc : jsonOp w src h = (.ok (), w')) :
    ∃ o', w'.obj? h = some o' ∧ w.next ≤ o'.rep ∧ (∀ d ∈ o'.ids, w.next ≤ d) ∧
      (∀ g, g ≠ h → w'.obj? g = w.obj? g) ∧ (∀ d, d < w.next → w'.cell? d = w.cell? d) ∧ WInv w' := by
  unfold jsonOp at hc
  cases hs : w.obj? src with
  | none => rw [hs] at hc; cases hc
  | some s =>
    rw [hs] at hc
    simp only at hc
    cases hf : s.fs with
    | none => rw [hf] at hc; exact derivedOp_fresh hw src h _ hc
    | some f => rw [hf] at hc; exact derivedOp_fresh hw src h _ hc

theorem jsonOp_atomic (w : World) (src h : String) (e : Err) (hc : (jsonOp w src h).1 = .error e) :
    (jsonOp w src h).2 = w := by
  unfold jsonOp at hc ⊢
  cases hs : w.obj? src with
  | none => rfl
  | some s =>
    rw [hs] at hc
    simp only at hc ⊢
    cases hf : s.fs with
    | none => rw [hf] at hc; exact derivedOp_atomic w src h _ e hc
    | some f => rw [hf] at hc; exact derivedOp_atomic w src h _ e hc

theorem snapOp_spec {w : World} (hw : WInv w) (src h : String) :
    (∃ e, snapOp w src h = (.error e, w)) ∨
    (∃ s f l c' o', w.obj? src = some s ∧ s.fs = some f ∧ f.snap = (.ok l, c') ∧ (snapOp w src h).1 = .ok () ∧
      FreshSpec w h (snapOp w src h).2 o' ∧
      o'.c = c' ∧ o'.filt = none ∧ o'.attrs.map (·.1) = c'.names ∧
      ∀ n ∈ c'.names, o'.dictOf (snapOp w src h).2 n = s.dictOf w n) := by
  unfold snapOp
  cases hs : w.obj? src with
  | none => exact Or.inl ⟨_, rfl⟩
  | some s =>
    simp only
    cases hf : s.fs with
    | none => exact Or.inl ⟨_, rfl⟩
    | some f =>
      simp only
      rcases hsn : f.snap with ⟨res, c'⟩
      cases res with
      | error e => exact Or.inl ⟨_, rfl⟩
      | ok l =>
        simp only
        obtain ⟨fs, hc, hfl, _, hnames, hd⟩ := fresh_sync hw (Frame.freshId w h)
          { rep := w.freshId.1, c := emptyC, attrs := [] } c' (fun n => s.dictOf w n)
          (Nat.le_refl _) (Nat.lt_succ_self _) rfl
        exact Or.inr ⟨s, f, l, c', _, rfl, hf, hsn, trivial, fs, hc, hfl, hnames, hd⟩

theorem snapOp_fresh {w w' : World} (hw : WInv w) (src h : String) (hc : snapOp w src h = (.ok (), w')) :
    ∃ o', w'.obj? h = some o' ∧ w.next ≤ o'.rep ∧ (∀ d ∈ o'.ids, w.next ≤ d) ∧
      (∀ g, g ≠ h → w'.obj? g = w.obj? g) ∧ (∀ d, d < w.next → w'.cell? d = w.cell? d) ∧ WInv w' := by
  rcases snapOp_spec hw src h with ⟨e, he⟩ | ⟨s, f, l, c', o', _, _, _, _, fs, _⟩
  · rw [he] at hc; cases hc
  · rw [hc] at fs; exact ⟨o', fs.explicit⟩

theorem snapOp_atomic {w : World} (hw : WInv w) (src h : String) (e : Err) (hc : (snapOp w src h).1 = .error e) :
    (snapOp w src h).2 = w := by
  rcases snapOp_spec hw src h with ⟨e', he⟩ | ⟨s, f, l, c', o', _, _, _, hok, _⟩
  · rw [he]
  · rw [hok] at hc; cases hc

/-! ### compose -/

/-- one step of the loop of `mergeAttrs` -/
def mergeStep (a b : Obj) (h : String) (w : World) (n : Name) : World :=
  let merged := Dict.update (a.dictOf w n) (b.dictOf w n)
  let al := w.alloc merged
  match al.2.obj? h with
  | none => al.2
  | some d' => al.2.setObj h { d' with attrs := d'.attrs.map (fun p => if p.1 = n then (n, al.1) else p) }

theorem mergeAttrs_eq (w : World) (a b : Obj) (h : String) (shared : List Name) :
    mergeAttrs w a b h shared = shared.foldl (mergeStep a b h) w := rfl

theorem mergeStep_spec {w : World} (hw : WInv w) (a b : Obj) (h : String) (n : Name) (N : Nat) (o : Obj)
    (ho : w.obj? h = some o) (hN : N ≤ w.next) (hi : ∀ d ∈ o.ids, N ≤ d) :
    ∃ o1, Frame w (mergeStep a b h w n) h ∧ WInv (mergeStep a b h w n) ∧ (mergeStep a b h w n).obj? h = some o1 ∧
      o1.rep = o.rep ∧ o1.c = o.c ∧ o1.filt = o.filt ∧ (∀ d ∈ o1.ids, N ≤ d) := by
  unfold mergeStep
  simp only
  generalize Dict.update (a.dictOf w n) (b.dictOf w n) = v
  have ho' : (w.alloc v).2.obj? h = some o := ho
  rw [ho']
  simp only
  have f : Frame w ((w.alloc v).2.setObj h
      { o with attrs := o.attrs.map (fun p => if p.1 = n then (n, (w.alloc v).1) else p) }) h :=
    (Frame.alloc w v h).trans (Frame.setObj _ h _)
  have hids : ∀ d ∈ ({ o with attrs := o.attrs.map (fun p => if p.1 = n then (n, (w.alloc v).1) else p) } : Obj).ids,
      d ∈ o.ids ∨ d = w.next := by
    intro d hd
    obtain ⟨p, hp, rfl⟩ := List.mem_map.mp hd
    obtain ⟨q, hq, rfl⟩ := List.mem_map.mp hp
    split_ifs
    · exact Or.inr rfl
    · exact Or.inl (List.mem_map.mpr ⟨q, hq, rfl⟩)
  have hok := hw.ok h o ho
  refine ⟨_, f, ?_, obj?_setObj_self _ _ _, rfl, rfl, rfl, fun d hd => ?_⟩
  · refine hw.of_frame f (fun x hx => ?_)
    rw [obj?_setObj_self] at hx; cases hx
    refine OK.setObj h _ ⟨Nat.lt_succ_of_lt hok.rep_lt, fun d hd => ?_, fun d hd => ?_⟩
    · rcases hids d hd with h1 | h1
      · exact Nat.lt_succ_of_lt (hok.ids_lt d h1)
      · rw [h1]; exact Nat.lt_succ_self _
    · rcases hids d hd with h1 | h1
      · rw [alloc_cell?_ne w v (Nat.ne_of_lt (hok.ids_lt d h1))]; exact hok.ids_cell d h1
      · rw [h1, alloc_cell?_self w v hw.cell_lt]; rfl
  · rcases hids d hd with h1 | h1
    · exact hi d h1
    · rw [h1]; exact hN

theorem mergeAttrs_spec (a b : Obj) (h : String) (N : Nat) :
    ∀ (shared : List Name) (w : World) (o : Obj), WInv w → w.obj? h = some o → N ≤ w.next → N ≤ o.rep →
      (∀ d ∈ o.ids, N ≤ d) →
      ∃ o', Frame w (mergeAttrs w a b h shared) h ∧ WInv (mergeAttrs w a b h shared) ∧
        (mergeAttrs w a b h shared).obj? h = some o' ∧ o'.rep = o.rep ∧ o'.c = o.c ∧ o'.filt = o.filt ∧
        (∀ d ∈ o'.ids, N ≤ d) := by
  intro shared
  induction shared with
  | nil => intro w o hw ho _ _ hi; exact ⟨o, Frame.refl w h, hw, ho, rfl, rfl, rfl, hi⟩
  | cons n rest ih =>
    intro w o hw ho hN hr hi
    obtain ⟨o1, f1, hw1, ho1, r1, c1, fl1, i1⟩ := mergeStep_spec hw a b h n N o ho hN hi
    obtain ⟨o2, f2, hw2, ho2, r2, c2, fl2, i2⟩ := ih _ o1 hw1 ho1 (Nat.le_trans hN f1.next_le) (by rw [r1]; exact hr) i1
    rw [mergeAttrs_eq] at f2 hw2 ho2
    rw [mergeAttrs_eq, List.foldl_cons]
    exact ⟨o2, f1.trans f2, hw2, ho2, r2.trans r1, c2.trans c1, fl2.trans fl1, i2⟩

/-- `a.compose(b)` into a new object: rejected without any change, or a fresh object (also the dicts of the
shared simplices are new objects, holding the merged content) -/
theorem composeOp_spec {w : World} (hw : WInv w) (ha hb h : String) (a b : Obj) (hoa : w.obj? ha = some a)
    (hob : w.obj? hb = some b) :
    (∃ e, composeNew a.c b.c = .error e ∧ composeOp w ha hb h = (.error e, w)) ∨
    (∃ c' o', composeNew a.c b.c = .ok c' ∧ (composeOp w ha hb h).1 = .ok () ∧
      FreshSpec w h (composeOp w ha hb h).2 o' ∧ o'.c = c' ∧ o'.filt = none) := by
  unfold composeOp
  rw [hoa, hob]
  simp only
  cases hc : composeNew a.c b.c with
  | error e => exact Or.inl ⟨e, rfl, rfl⟩
  | ok c' =>
    simp only
    obtain ⟨fs, hcc, hfl, _, _, _⟩ := fresh_sync hw (Frame.freshId w h)
      { rep := w.freshId.1, c := emptyC, attrs := [] } c'
      (fun n => if a.c.contains n then a.dictOf w n else b.dictOf w n)
      (Nat.le_refl _) (Nat.lt_succ_self _) rfl
    obtain ⟨o2, f2, hw2, ho2, r2, c2, fl2, i2⟩ := mergeAttrs_spec a b h w.next (b.c.names.filter a.c.contains) _ _
      fs.inv fs.obj fs.frame.next_le fs.rep_fresh fs.ids_fresh
    exact Or.inr ⟨c', o2, rfl, trivial, ⟨fs.frame.trans f2, hw2, ho2, by rw [r2]; exact fs.rep_fresh, i2⟩,
      c2.trans hcc, fl2.trans hfl⟩

theorem composeOp_absent (w : World) (ha hb h : String) (hn : w.obj? ha = none ∨ w.obj? hb = none) :
    composeOp w ha hb h = (.error .key, w) := by
  unfold composeOp
  rcases hn with hn | hn
  · rw [hn]
  · rw [hn]; cases w.obj? ha <;> rfl

theorem composeOp_fresh {w w' : World} (hw : WInv w) (ha hb h : String)
    (hc : composeOp w ha hb h = (.ok (), w')) :
    ∃ o', w'.obj? h = some o' ∧ w.next ≤ o'.rep ∧ (∀ d ∈ o'.ids, w.next ≤ d) ∧
      (∀ g, g ≠ h → w'.obj? g = w.obj? g) ∧ (∀ d, d < w.next → w'.cell? d = w.cell? d) ∧ WInv w' := by
  cases hoa : w.obj? ha with
  | none => rw [composeOp_absent w ha hb h (Or.inl hoa)] at hc; cases hc
  | some a =>
    cases hob : w.obj? hb with
    | none => rw [composeOp_absent w ha hb h (Or.inr hob)] at hc; cases hc
    | some b =>
      rcases composeOp_spec hw ha hb h a b hoa hob with ⟨e, _, he⟩ | ⟨c', o', _, _, fs, _⟩
      · rw [he] at hc; cases hc
      · rw [hc] at fs; exact ⟨o', fs.explicit⟩

/-- a rejected `compose` changes nothing -/
theorem composeOp_atomic {w : World} (hw : WInv w) (ha hb h : String) (e : Err)
    (hc : (composeOp w ha hb h).1 = .error e) : (composeOp w ha hb h).2 = w := by
  cases hoa : w.obj? ha with
  | none => rw [composeOp_absent w ha hb h (Or.inl hoa)]
  | some a =>
    cases hob : w.obj? hb with
    | none => rw [composeOp_absent w ha hb h (Or.inr hob)]
    | some b =>
      rcases composeOp_spec hw ha hb h a b hoa hob with ⟨e', _, he⟩ | ⟨c', o', _, hok, _⟩
      · rw [he]
      · rw [hok] at hc; cases hc

/-! ## (2) the copy has the content of the source -/

theorem addSimplex_ok_names {c c' : C} {fs : List Name} {t : Name} (h : c.addSimplex fs t = .ok c') :
    ∀ n ∈ c'.names, n = t ∨ n ∈ c.names := by
  unfold Cx.addSimplex at h
  simp only at h
  split_ifs at h
  all_goals
    injection h with h; subst h
    intro n hn
    simp only [Cx.names, List.mem_map] at hn ⊢
    obtain ⟨x, hx, rfl⟩ := hn
    rcases mem_insertSorted.mp hx with rfl | hx
    · exact Or.inl rfl
    · exact Or.inr ⟨x, hx, rfl⟩

theorem addFromLoop_names (ρ : Name → Name) : ∀ (l : List (Simp Name)) (d : C) (acc : List Name),
    ∀ n ∈ (addFromLoop ρ d acc l).2.names, n ∈ d.names ∨ ∃ s ∈ l, n = ρ s.name := by
  intro l
  induction l with
  | nil => intro d acc n hn; exact Or.inl hn
  | cons s rest ih =>
    intro d acc n hn
    rw [addFromLoop] at hn
    split_ifs at hn
    · exact Or.inl hn
    · cases ha : d.addSimplex (s.faces.map ρ) (ρ s.name) with
      | error e => rw [ha] at hn; exact Or.inl hn
      | ok d' =>
        rw [ha] at hn
        rcases ih d' _ n hn with h1 | ⟨s', hs', e⟩
        · rcases addSimplex_ok_names ha n h1 with h2 | h2
          · exact Or.inr ⟨s, List.mem_cons_self, h2⟩
          · exact Or.inl h2
        · exact Or.inr ⟨s', List.mem_cons_of_mem _ hs', e⟩

/-- whatever `copy()` has created carries a name of the source -/
theorem copyNew_names_sub (c : C) : ∀ n ∈ (copyNew c).2.names, n ∈ c.names := by
  intro n hn
  rcases addFromLoop_names id c.simps emptyC [] n hn with h1 | ⟨s, hs, e⟩
  · cases h1
  · exact List.mem_map.mpr ⟨s, hs, e.symm⟩

/-- **(2) `copy()`**: the new object's structure is the one computed by `copyNew` on the source structure
(names, orders, faces: the structural theorem about `copyNew`), it is a plain complex, the call succeeds
exactly when `copyNew` does, it has a dict for exactly its simplices, and the dict of each of its simplices
has the content of the source simplex's dict. -/
theorem copyOp_contents {w : World} (hw : WInv w) (src h : String) (s : Obj) (hs : w.obj? src = some s)
    (hne : src ≠ h) :
    ∃ o', (copyOp w src h).2.obj? h = some o' ∧
      o'.c = (copyNew s.c).2 ∧ o'.filt = none ∧
      ((copyOp w src h).1 = .ok () ↔ ∃ l, (copyNew s.c).1 = .ok l) ∧
      o'.attrs.map (·.1) = (copyNew s.c).2.names ∧
      ∀ n ∈ (copyNew s.c).2.names, o'.dictOf (copyOp w src h).2 n = s.dictOf w n := by
  obtain ⟨o', fs, hf, hrest⟩ := copyOp_spec hw src h s hs
  obtain ⟨hc, hres, hnames, hd⟩ := hrest hne
  exact ⟨o', fs.obj, hc, hf, hres, hnames, fun n hn => hd n hn (copyNew_names_sub s.c n hn)⟩

/-- (2) for `deepcopy`: same structure (the very same `C`, including the name counter), same filtration
fields, an entry for exactly the simplices that have one in the source (same listing order), dicts with the
same content (for every name `n`; in particular for every simplex of the source). The list of simplices with a
dict is inherited from the source: it is `s.c.names` when the source's is (third-last conjunct; with the former
definition, which ran `sync` over `s.c.names`, that held without the hypothesis; `WInv` does not relate
`attrs` to `c.names`, so it cannot be dropped here: a `WInv` world may contain an object with simplices and
`attrs = []`, whose deep copy has `attrs = []` as well). -/
theorem deepcopyOp_contents {w : World} (hw : WInv w) (src h : String) (s : Obj) (hs : w.obj? src = some s) :
    ∃ o', (deepcopyOp w src h).2.obj? h = some o' ∧ o'.c = s.c ∧ o'.filt = s.filt ∧
      o'.attrs.map (·.1) = s.attrs.map (·.1) ∧
      (s.attrs.map (·.1) = s.c.names → o'.attrs.map (·.1) = s.c.names) ∧
      (∀ n, o'.dictOf (deepcopyOp w src h).2 n = s.dictOf w n) ∧
      ∀ n ∈ s.c.names, o'.dictOf (deepcopyOp w src h).2 n = s.dictOf w n := by
  obtain ⟨_, o', fs, hc, hf, hn, hd, _⟩ := deepcopyOp_spec hw src h s hs
  exact ⟨o', fs.obj, hc, hf, hn, fun e => hn.trans e, hd, fun n _ => hd n⟩

/-! ## (3) a mutator changes only its own object (and, for `c[s][k] = v`, one dict of it) -/

/-- the frame of a structural mutator on `h`: every other object reads the same, every dict object of `w`
reads the same (also those of `h`: structural mutators never write into a dict), allocation only grows -/
theorem MutRel.frame {w w' : World} {h : String} {arg : Option Nat} (hw : WInv w) (r : MutRel w h arg w') :
    (∀ g, g ≠ h → w'.obj? g = w.obj? g) ∧ (∀ d, d < w.next → w'.cell? d = w.cell? d) ∧ w.next ≤ w'.next :=
  ⟨(r.spec hw).frame.obj_other, (r.spec hw).frame.cell_old, (r.spec hw).frame.next_le⟩

theorem addFacesOp_frame {w : World} (hw : WInv w) (h : String) (fs : List Name) (id : Option Name)
    (attr : Option Nat) :
    (∀ g, g ≠ h → (addFacesOp w h fs id attr).2.obj? g = w.obj? g) ∧
    (∀ d, d < w.next → (addFacesOp w h fs id attr).2.cell? d = w.cell? d) ∧
    w.next ≤ (addFacesOp w h fs id attr).2.next := (addFacesOp_rel w h fs id attr).frame hw

theorem addBasisOp_frame {w : World} (hw : WInv w) (h : String) (bs : List Name) (id : Option Name)
    (attr : Option Nat) :
    (∀ g, g ≠ h → (addBasisOp w h bs id attr).2.obj? g = w.obj? g) ∧
    (∀ d, d < w.next → (addBasisOp w h bs id attr).2.cell? d = w.cell? d) ∧
    w.next ≤ (addBasisOp w h bs id attr).2.next := (addBasisOp_rel w h bs id attr).frame hw

theorem structOp_frame {w : World} (hw : WInv w) (h : String) (f : C → Option C) :
    (∀ g, g ≠ h → (structOp w h f).2.obj? g = w.obj? g) ∧
    (∀ d, d < w.next → (structOp w h f).2.cell? d = w.cell? d) ∧
    w.next ≤ (structOp w h f).2.next := (structOp_rel w h f).frame hw

theorem deleteOp_frame {w : World} (hw : WInv w) (h : String) (s : Name) :
    (∀ g, g ≠ h → (deleteOp w h s).2.obj? g = w.obj? g) ∧
    (∀ d, d < w.next → (deleteOp w h s).2.cell? d = w.cell? d) ∧
    w.next ≤ (deleteOp w h s).2.next := structOp_frame hw h _

theorem restrictOp_frame {w : World} (hw : WInv w) (h : String) (bs : List Name) :
    (∀ g, g ≠ h → (restrictOp w h bs).2.obj? g = w.obj? g) ∧
    (∀ d, d < w.next → (restrictOp w h bs).2.cell? d = w.cell? d) ∧
    w.next ≤ (restrictOp w h bs).2.next := structOp_frame hw h _

theorem subdivideOp_frame {w : World} (hw : WInv w) (h : String) (s : Name) (order : List Name) :
    (∀ g, g ≠ h → (subdivideOp w h s order).2.obj? g = w.obj? g) ∧
    (∀ d, d < w.next → (subdivideOp w h s order).2.cell? d = w.cell? d) ∧
    w.next ≤ (subdivideOp w h s order).2.next := (subdivideOp_rel w h s order).frame hw

theorem relabelOp_frame {w : World} (hw : WInv w) (h : String) (ρ : List (Name × Name)) :
    (∀ g, g ≠ h → (relabelOp w h ρ).2.obj? g = w.obj? g) ∧
    (∀ d, d < w.next → (relabelOp w h ρ).2.cell? d = w.cell? d) ∧
    w.next ≤ (relabelOp w h ρ).2.next := (relabelWith_rel w h _).frame hw

theorem setAttrOp_frame {w : World} (hw : WInv w) (h : String) (s : Name) (d : Nat) :
    (∀ g, g ≠ h → (setAttrOp w h s d).2.obj? g = w.obj? g) ∧
    (∀ e, e < w.next → (setAttrOp w h s d).2.cell? e = w.cell? e) ∧
    w.next ≤ (setAttrOp w h s d).2.next := (setAttrOp_rel w h s d).frame hw

/-- `c[s][k] = v`: no object changes (not even the one at `h`: it still refers to the same dict object), and
the only dict object that changes is the one of simplex `s` of the object at `h` -/
theorem dictSetOp_frame {w : World} (hw : WInv w) (h : String) (s : Name) (k v : Int) :
    (∀ g, (dictSetOp w h s k v).2.obj? g = w.obj? g) ∧
    (∀ d, (∀ o, w.obj? h = some o → o.attr? s ≠ some d) → (dictSetOp w h s k v).2.cell? d = w.cell? d) ∧
    (dictSetOp w h s k v).2.next = w.next := by
  have sp := dictSetOp_spec hw h s k v
  exact ⟨fun g => by rw [obj?_eq, obj?_eq, sp.objs], sp.cell_other, sp.next⟩

/-- what `c[s][k] = v` writes -/
theorem dictSetOp_written (w : World) (h : String) (s : Name) (k v : Int) (o : Obj) (d : Nat)
    (ho : w.obj? h = some o) (hd : o.attr? s = some d) :
    (dictSetOp w h s k v).1 = .ok () ∧
    (dictSetOp w h s k v).2.cell? d = some (Dict.set ((w.cell? d).getD []) k v) := by
  unfold dictSetOp
  rw [ho]; simp only; rw [hd]; simp only
  exact ⟨trivial, by rw [cell?_setCell, if_pos rfl]⟩

/-- the mutators of one object -/
inductive Mut
  | addFaces (fs : List Name) (id : Option Name) (attr : Option Nat)
  | addBasis (bs : List Name) (id : Option Name) (attr : Option Nat)
  | delete (s : Name)
  | deleteBasis (bs : List Name)
  | deleteMany (ss : List Name)
  | restrict (bs : List Name)
  | subdivide (s : Name) (order : List Name)
  | relabel (ρ : List (Name × Name))
  | grow (ss : List Name)
  | dictSet (s : Name) (k v : Int)
  | setAttr (s : Name) (d : Nat)

/-- the world after the call (whatever its result: an exception does not roll the state back) -/
def Mut.run (m : Mut) (w : World) (h : String) : World :=
  match m with
  | .addFaces fs id attr => (addFacesOp w h fs id attr).2
  | .addBasis bs id attr => (addBasisOp w h bs id attr).2
  | .delete s => (deleteOp w h s).2
  | .deleteBasis bs => (deleteBasisOp w h bs).2
  | .deleteMany ss => (deleteManyOp w h ss).2
  | .restrict bs => (restrictOp w h bs).2
  | .subdivide s order => (subdivideOp w h s order).2
  | .relabel ρ => (relabelOp w h ρ).2
  | .grow ss => (growOp w h ss).2
  | .dictSet s k v => (dictSetOp w h s k v).2
  | .setAttr s d => (setAttrOp w h s d).2

/-- the dict object passed to the call, if any -/
def Mut.arg : Mut → Option Nat
  | .addFaces _ _ attr => attr
  | .addBasis _ _ attr => attr
  | .setAttr _ d => some d
  | _ => none

/-- everything a step of a mutator on `h` guarantees -/
structure StepSpec (w : World) (h : String) (arg : Option Nat) (w' : World) : Prop where
  next_le : w.next ≤ w'.next
  obj_other : ∀ g, g ≠ h → w'.obj? g = w.obj? g
  /-- a dict object that is not one of `h`'s is unchanged -/
  cell_other : ∀ d, d < w.next → (∀ o, w.obj? h = some o → d ∉ o.ids) → w'.cell? d = w.cell? d
  inv : ArgOK w arg → WInv w'
  /-- the dict ids of the object at `h` afterwards: old ones, fresh ones, the argument -/
  ids : ∀ o', w'.obj? h = some o' → ∃ o, w.obj? h = some o ∧ o'.rep = o.rep ∧
    ∀ d ∈ o'.ids, d ∈ o.ids ∨ w.next ≤ d ∨ arg = some d

theorem MutSpec.step {w w' : World} {h : String} {arg : Option Nat} (s : MutSpec w h arg w') :
    StepSpec w h arg w' :=
  ⟨s.frame.next_le, s.frame.obj_other, fun d hd _ => s.frame.cell_old d hd, s.inv, s.ids⟩

/-- (3) with the bookkeeping needed for (4): any mutator applied to handle `h` changes only the object at `h` and only dict
objects reachable from `h` (in fact only `dictSet` changes an existing dict object at all, see
`dictSetOp_frame`); all other objects are unchanged and all dict objects not reachable from `h` are
unchanged. -/
theorem mutator_step {w : World} (hw : WInv w) (m : Mut) (h : String) : StepSpec w h m.arg (m.run w h) := by
  cases m with
  | addFaces fs id attr => exact ((addFacesOp_rel w h fs id attr).spec hw).step
  | addBasis bs id attr => exact ((addBasisOp_rel w h bs id attr).spec hw).step
  | delete s => exact ((structOp_rel w h _).spec hw).step
  | deleteBasis bs => exact ((structOp_rel w h _).spec hw).step
  | deleteMany ss => exact ((structOp_rel w h _).spec hw).step
  | restrict bs => exact ((structOp_rel w h _).spec hw).step
  | subdivide s order => exact ((subdivideOp_rel w h s order).spec hw).step
  | relabel ρ => exact ((relabelWith_rel w h _).spec hw).step
  | grow ss => exact ((growOp_rel w h ss).spec hw).step
  | setAttr s d => exact ((setAttrOp_rel w h s d).spec hw).step
  | dictSet s k v =>
    have sp := dictSetOp_spec hw h s k v
    have hobj : ∀ g, (dictSetOp w h s k v).2.obj? g = w.obj? g := fun g => by rw [obj?_eq, obj?_eq, sp.objs]
    refine ⟨Nat.le_of_eq sp.next.symm, fun g _ => hobj g, fun d _ hd => ?_, fun _ => sp.inv, fun o' ho' => ?_⟩
    · exact sp.cell_other d (fun o ho ha => hd o ho (attr?_mem_ids ha))
    · exact ⟨o', by rw [← hobj h]; exact ho', rfl, fun d hd => Or.inl hd⟩

/-- **(3) `mutator_frame`**, unfolded: every other object is unchanged; every dict object of `w` that is not
one of the dict objects of `h` is unchanged (the third conjunct says that `d < w.next` covers every dict
object of `w`: there is none at or above `w.next`). -/
theorem mutator_frame {w : World} (hw : WInv w) (m : Mut) (h : String) :
    (∀ g, g ≠ h → (m.run w h).obj? g = w.obj? g) ∧
    (∀ d, d < w.next → (∀ o, w.obj? h = some o → d ∉ o.ids) → (m.run w h).cell? d = w.cell? d) ∧
    (∀ d, w.next ≤ d → w.cell? d = none) :=
  ⟨(mutator_step hw m h).obj_other, (mutator_step hw m h).cell_other, hw.cell_lt⟩

/-! ## (4) independence of a copy and its source -/

/-- the two objects share no dict object -/
def Sep (w : World) (a b : String) : Prop :=
  ∀ oa ob, w.obj? a = some oa → w.obj? b = some ob → ∀ d ∈ oa.ids, d ∉ ob.ids

theorem Sep.symm {w : World} {a b : String} (s : Sep w a b) : Sep w b a :=
  fun ob oa hb ha d hd hd' => s oa ob ha hb d hd' hd

/-- the call is admissible next to the object at `other`: its dict argument, if any, is an allocated dict
object, and not one of the dict objects of `other` (passing one of those *creates* sharing: `c[s] = attr`
stores the object `attr` itself, as in Python) -/
def Mut.argOK (m : Mut) (w : World) (other : String) : Prop :=
  ArgOK w m.arg ∧ ∀ d ob, m.arg = some d → w.obj? other = some ob → d ∉ ob.ids

/-- what is observable of an object: itself (structure, filtration fields, the identities) and the content of
the dict of each of its simplices -/
def SameObs (w w' : World) (b : String) : Prop :=
  w'.obj? b = w.obj? b ∧ ∀ ob, w.obj? b = some ob → ∀ n, ob.dictOf w' n = ob.dictOf w n

theorem SameObs.refl (w : World) (b : String) : SameObs w w b := ⟨rfl, fun _ _ _ => rfl⟩

theorem SameObs.trans {w w1 w2 : World} {b : String} (x : SameObs w w1 b) (y : SameObs w1 w2 b) :
    SameObs w w2 b :=
  ⟨y.1.trans x.1, fun ob hb n => (y.2 ob (x.1.trans hb) n).trans (x.2 ob hb n)⟩

/-- **(4), one step**: in a well-formed world in which the objects at `a ≠ b` share no dict object, a mutator
applied to `a` leaves the object at `b` and the content of all its dicts unchanged; the world stays
well-formed and the two objects still share no dict object. -/
theorem independent_step {w : World} (hw : WInv w) {a b : String} (hab : a ≠ b) (hsep : Sep w a b) (m : Mut)
    (hm : m.argOK w b) :
    WInv (m.run w a) ∧ Sep (m.run w a) a b ∧ SameObs w (m.run w a) b := by
  have st := mutator_step hw m a
  have hb : (m.run w a).obj? b = w.obj? b := st.obj_other b (fun e => hab e.symm)
  refine ⟨st.inv hm.1, fun oa' ob ha' hb' d hd hd' => ?_, hb, fun ob hob n => ?_⟩
  · rw [hb] at hb'
    obtain ⟨oa, ha, _, hids⟩ := st.ids oa' ha'
    rcases hids d hd with h1 | h1 | h1
    · exact hsep oa ob ha hb' d h1 hd'
    · have := (hw.ok b ob hb').ids_lt d hd'; omega
    · exact hm.2 d ob h1 hb' hd'
  · unfold Obj.dictOf
    cases hd : ob.attr? n with
    | none => rfl
    | some d =>
      simp only
      have hmem := attr?_mem_ids hd
      rw [st.cell_other d ((hw.ok b ob hob).ids_lt d hmem) (fun oa ha hda => hsep oa ob ha hob d hda hmem)]

/-- a sequence of mutator calls on one handle -/
def runMuts (w : World) (h : String) : List Mut → World
  | [] => w
  | m :: ms => runMuts (m.run w h) h ms

/-- every call of the sequence is admissible in the world in which it is made -/
def MutsOK (w : World) (h other : String) : List Mut → Prop
  | [] => True
  | m :: ms => m.argOK w other ∧ MutsOK (m.run w h) h other ms

/-- **(4), sequences**: any sequence of mutators applied to `a` is invisible through `b` -/
theorem independent_list {a b : String} (hab : a ≠ b) : ∀ (ms : List Mut) (w : World), WInv w → Sep w a b →
    MutsOK w a b ms →
    WInv (runMuts w a ms) ∧ Sep (runMuts w a ms) a b ∧ SameObs w (runMuts w a ms) b := by
  intro ms
  induction ms with
  | nil => intro w hw hsep _; exact ⟨hw, hsep, SameObs.refl w b⟩
  | cons m ms ih =>
    intro w hw hsep hok
    obtain ⟨hw1, hsep1, hobs1⟩ := independent_step hw hab hsep m hok.1
    obtain ⟨hw2, hsep2, hobs2⟩ := ih (m.run w a) hw1 hsep1 hok.2
    exact ⟨hw2, hsep2, hobs1.trans hobs2⟩

/-- a fresh object shares no dict object with any object of the old world -/
theorem FreshSpec.sep {w w' : World} {h : String} {o' : Obj} (s : FreshSpec w h w' o') (hw : WInv w)
    {g : String} (hg : g ≠ h) : Sep w' h g := by
  intro oa ob ha hb d hd hd'
  rw [s.obj] at ha; cases ha
  rw [s.frame.obj_other g hg] at hb
  exact (s.disjoint hw hb).2.1 d hd hd'

/-- **(4) `independent`**: after `src.copy()` into `h`, whatever the outcome of the copy, any sequence of
mutators applied to the copy leaves the source as it was before the copy (the object, and the content of the
dict of each of its simplices); and any sequence of mutators applied to the source leaves the copy as it was
right after the copy. -/
theorem independent {w : World} (hw : WInv w) (src h : String) (s : Obj) (hs : w.obj? src = some s)
    (hne : src ≠ h) :
    (∀ ms, MutsOK (copyOp w src h).2 h src ms →
      (runMuts (copyOp w src h).2 h ms).obj? src = some s ∧
      ∀ n, s.dictOf (runMuts (copyOp w src h).2 h ms) n = s.dictOf w n) ∧
    (∀ ms, MutsOK (copyOp w src h).2 src h ms → ∀ o', (copyOp w src h).2.obj? h = some o' →
      (runMuts (copyOp w src h).2 src ms).obj? h = some o' ∧
      ∀ n, o'.dictOf (runMuts (copyOp w src h).2 src ms) n = o'.dictOf (copyOp w src h).2 n) := by
  obtain ⟨o', fs, _⟩ := copyOp_spec hw src h s hs
  have hsep : Sep (copyOp w src h).2 h src := fs.sep hw hne
  have hs1 : (copyOp w src h).2.obj? src = some s := by rw [fs.frame.obj_other src hne]; exact hs
  have hd1 : ∀ n, s.dictOf (copyOp w src h).2 n = s.dictOf w n := by
    intro n
    unfold Obj.dictOf
    cases hd : s.attr? n with
    | none => rfl
    | some d => simp only; rw [fs.frame.cell_old d ((hw.ok src s hs).ids_lt d (attr?_mem_ids hd))]
  refine ⟨fun ms hok => ?_, fun ms hok o'' ho'' => ?_⟩
  · obtain ⟨_, _, hobs⟩ := independent_list (fun e => hne e.symm) ms _ fs.inv hsep hok
    exact ⟨hobs.1.trans hs1, fun n => (hobs.2 s hs1 n).trans (hd1 n)⟩
  · obtain ⟨_, _, hobs⟩ := independent_list hne ms _ fs.inv hsep.symm hok
    exact ⟨hobs.1.trans ho'', fun n => hobs.2 o'' ho'' n⟩

/-- the same for any constructor that returns a fresh object (`deepcopy`, `flagComplex`, `compose`, JSON,
`snap`): stated once for `FreshSpec` -/
theorem FreshSpec.independent {w w' : World} {h : String} {o' : Obj} (fs : FreshSpec w h w' o') (hw : WInv w)
    (g : String) (og : Obj) (hg : w.obj? g = some og) (hne : g ≠ h) :
    (∀ ms, MutsOK w' h g ms → (runMuts w' h ms).obj? g = some og ∧ ∀ n, og.dictOf (runMuts w' h ms) n = og.dictOf w n) ∧
    (∀ ms, MutsOK w' g h ms → (runMuts w' g ms).obj? h = some o' ∧ ∀ n, o'.dictOf (runMuts w' g ms) n = o'.dictOf w' n) := by
  have hsep : Sep w' h g := fs.sep hw hne
  have hs1 : w'.obj? g = some og := by rw [fs.frame.obj_other g hne]; exact hg
  have hd1 : ∀ n, og.dictOf w' n = og.dictOf w n := by
    intro n
    unfold Obj.dictOf
    cases hd : og.attr? n with
    | none => rfl
    | some d => simp only; rw [fs.frame.cell_old d ((hw.ok g og hg).ids_lt d (attr?_mem_ids hd))]
  refine ⟨fun ms hok => ?_, fun ms hok => ?_⟩
  · obtain ⟨_, _, hobs⟩ := independent_list (fun e => hne e.symm) ms _ fs.inv hsep hok
    exact ⟨hobs.1.trans hs1, fun n => (hobs.2 og hs1 n).trans (hd1 n)⟩
  · obtain ⟨_, _, hobs⟩ := independent_list hne ms _ fs.inv hsep.symm hok
    exact ⟨hobs.1.trans fs.obj, fun n => hobs.2 o' fs.obj n⟩

/-- the observation string of the driver (`obs`) depends on the world only through `dictOf` -/
theorem obsC_congr (w w' : World) (o : Obj) (hd : ∀ n, o.dictOf w' n = o.dictOf w n) :
    Drv.obsC w' o = Drv.obsC w o := by
  unfold Drv.obsC
  simp only [hd]

/-- (4) in terms of the driver's observation: the `obs` line of the source is the same before the copy and
after any sequence of mutators applied to the copy -/
theorem independent_obs {w : World} (hw : WInv w) (src h : String) (s : Obj) (hs : w.obj? src = some s)
    (hne : src ≠ h) (ms : List Mut) (hok : MutsOK (copyOp w src h).2 h src ms) :
    (runMuts (copyOp w src h).2 h ms).obj? src = some s ∧
    Drv.obsC (runMuts (copyOp w src h).2 h ms) s = Drv.obsC w s := by
  obtain ⟨h1, h2⟩ := (independent hw src h s hs hne).1 ms hok
  exact ⟨h1, obsC_congr _ _ _ h2⟩

/-! ## `WInv` is preserved by the constructors, whatever their outcome -/

theorem copyOp_inv {w : World} (hw : WInv w) (src h : String) : WInv (copyOp w src h).2 := by
  cases hs : w.obj? src with
  | none => rw [copyOp_absent w src h hs]; exact hw
  | some s => obtain ⟨_, fs, _⟩ := copyOp_spec hw src h s hs; exact fs.inv

/-- when `h` is a new handle every object of `w` is still there after `copy()` -/
theorem copyOp_old_objs {w : World} (hw : WInv w) (src h : String) (hnew : w.obj? h = none) (g : String) (o : Obj)
    (ho : w.obj? g = some o) : (copyOp w src h).2.obj? g = some o := by
  cases hs : w.obj? src with
  | none => rw [copyOp_absent w src h hs]; exact ho
  | some s => obtain ⟨_, fs, _⟩ := copyOp_spec hw src h s hs; exact fs.old_objs hnew g o ho

theorem deepcopyOp_inv {w : World} (hw : WInv w) (src h : String) : WInv (deepcopyOp w src h).2 := by
  cases hs : w.obj? src with
  | none => unfold deepcopyOp; rw [hs]; exact hw
  | some s => obtain ⟨_, _, fs, _⟩ := deepcopyOp_spec hw src h s hs; exact fs.inv

theorem derivedOp_inv {w : World} (hw : WInv w) (src h : String) (f : C → Except Err C) :
    WInv (derivedOp w src h f).2 := by
  cases hs : w.obj? src with
  | none => rw [derivedOp_absent w src h f hs]; exact hw
  | some s =>
    rcases derivedOp_spec hw src h f s hs with ⟨e, _, he⟩ | ⟨_, _, _, _, fs, _⟩
    · rw [he]; exact hw
    · exact fs.inv

theorem flagOp_inv {w : World} (hw : WInv w) (src h : String) : WInv (flagOp w src h).2 :=
  derivedOp_inv hw src h flagOf

theorem jsonOp_inv {w : World} (hw : WInv w) (src h : String) : WInv (jsonOp w src h).2 := by
  unfold jsonOp
  cases hs : w.obj? src with
  | none => exact hw
  | some s =>
    simp only
    cases s.fs with
    | none => exact derivedOp_inv hw src h _
    | some f => exact derivedOp_inv hw src h _

theorem snapOp_inv {w : World} (hw : WInv w) (src h : String) : WInv (snapOp w src h).2 := by
  rcases snapOp_spec hw src h with ⟨e, he⟩ | ⟨_, _, _, _, _, _, _, _, _, fs, _⟩
  · rw [he]; exact hw
  · exact fs.inv

theorem composeOp_inv {w : World} (hw : WInv w) (ha hb h : String) : WInv (composeOp w ha hb h).2 := by
  cases hoa : w.obj? ha with
  | none => rw [composeOp_absent w ha hb h (Or.inl hoa)]; exact hw
  | some a =>
    cases hob : w.obj? hb with
    | none => rw [composeOp_absent w ha hb h (Or.inr hob)]; exact hw
    | some b =>
      rcases composeOp_spec hw ha hb h a b hoa hob with ⟨e, _, he⟩ | ⟨_, _, _, _, fs, _⟩
      · rw [he]; exact hw
      · exact fs.inv

/-! ## the hypotheses are satisfiable: a concrete world -/

/-- `a = SimplicialComplex(); a.addSimplexWithBasis([1, 2])`: an edge and its two points, all three sharing
the one dict object created by the call -/
def exW : World := (addBasisOp (newCx {} "a") "a" [.u 1, .u 2] none none).2

theorem exW_inv : WInv exW := addBasisOp_inv (newCx_inv WInv.empty "a") "a" _ none none (argOK_none _)

example : (exW.obj? "a").map (fun o => (o.rep, o.c.names, o.ids)) = some (0, [.u 1, .u 2, .auto 1 0], [1, 1, 1]) ∧
    exW.next = 2 ∧ exW.cell? 1 = some [] := by decide

/-- (1) on the example: `b = a.copy()` succeeds; `b` gets the identities 2 (representation) and 3, 4, 5 -/
example : (copyOp exW "a" "b").1 = .ok () ∧
    ((copyOp exW "a" "b").2.obj? "b").map (fun o => (o.rep, o.ids)) = some (2, [3, 4, 5]) :=
  ⟨rfl, by decide⟩
example := copyOp_fresh exW_inv "a" "b" _ rfl
example := copyOp_fresh' exW_inv "a" "b" (w' := (copyOp exW "a" "b").2) rfl
/-- (2) on the example -/
example := copyOp_contents exW_inv "a" "b" _ rfl (by decide)
/-- (3) on the example -/
example := mutator_frame exW_inv (.dictSet (.u 1) 5 7) "a"
example := mutator_frame (copyOp_inv exW_inv "a" "b") (.addBasis [.u 2, .u 3] none (some 4)) "b"

/-- an admissible sequence of mutator calls on the copy: `b[1][5] = 7; b.addSimplexWithBasis([2, 3]);
b[1] = <the dict of b's simplex 2>; b.deleteSimplex(<the edge>)` -/
def exMuts : List Mut := [.dictSet (.u 1) 5 7, .addBasis [.u 2, .u 3] none none, .setAttr (.u 1) 4, .delete (.auto 1 0)]

/-- a call without a dict argument is always admissible -/
theorem Mut.argOK_of_none (m : Mut) (w : World) (other : String) (h : m.arg = none) : m.argOK w other := by
  unfold Mut.argOK; rw [h]
  exact ⟨(fun _ e => by cases e), (fun _ _ e => by cases e)⟩

theorem exMuts_ok : MutsOK (copyOp exW "a" "b").2 "b" "a" exMuts := by
  refine ⟨Mut.argOK_of_none _ _ _ rfl, Mut.argOK_of_none _ _ _ rfl, ⟨fun d e => ?_, fun d ob e hob => ?_⟩,
    Mut.argOK_of_none _ _ _ rfl, trivial⟩
  · cases e; decide
  · cases e
    have h2 := congrArg (Option.map Obj.ids) hob
    have h3 : some ob.ids = some [1, 1, 1] := h2.symm.trans (by decide)
    rw [Option.some.inj h3]; decide

/-- (4) on the example: the source `a` is untouched by the calls on the copy (while `b` did change) -/
example := (independent exW_inv "a" "b" _ rfl (by decide)).1 exMuts exMuts_ok
example : ((runMuts (copyOp exW "a" "b").2 "b" exMuts).obj? "b").map (fun o => (o.c.names, o.ids)) =
      some ([.u 1, .u 2, .u 3, .auto 1 1], [4, 4, 6, 6]) ∧
    (runMuts (copyOp exW "a" "b").2 "b" exMuts).cell? 3 = some [(5, 7)] ∧
    (runMuts (copyOp exW "a" "b").2 "b" exMuts).cell? 1 = some [] := by decide

/-- the side condition of `Mut.argOK` is necessary: `b[1] = a[1]` (passing the source's dict object itself)
makes the two objects share it, and then `b[1][5] = 7` is visible through `a` -/
example :
    let w1 := (copyOp exW "a" "b").2
    let w2 := (setAttrOp w1 "b" (.u 1) 1).2
    let w3 := (dictSetOp w2 "b" (.u 1) 5 7).2
    (w1.obj? "a").map (fun o => o.dictOf w1 (.u 1)) = some [] ∧
    (w3.obj? "a").map (fun o => o.dictOf w3 (.u 1)) = some [(5, 7)] := by decide

/-! ### `deepcopy` on concrete worlds: the sharing of dict objects is preserved -/

/-- `a = SimplicialComplex(); a.addSimplexWithBasis([1, 2, 3])`: the three points and the triangle share the one
dict object created by the call (identity 1), the three edges have their own (2, 3, 4) -/
def exT : World := (addBasisOp (newCx {} "a") "a" [.u 1, .u 2, .u 3] none none).2

theorem exT_inv : WInv exT := addBasisOp_inv (newCx_inv WInv.empty "a") "a" _ none none (argOK_none _)

example : (exT.obj? "a").map (fun o => (o.rep, o.ids)) = some (0, [1, 1, 1, 2, 3, 4, 1]) ∧ exT.next = 5 := by decide

/-- `b = copy.deepcopy(a)`: `b` gets the identities 5 (representation) and ONE new dict object (6) for the
three points and the triangle, 7, 8, 9 for the edges; four cells are allocated, not seven -/
example : (deepcopyOp exT "a" "b").1 = .ok () ∧
    ((deepcopyOp exT "a" "b").2.obj? "b").map (fun o => (o.rep, o.ids)) = some (5, [6, 6, 6, 7, 8, 9, 6]) ∧
    (deepcopyOp exT "a" "b").2.next = 10 := ⟨rfl, by decide, by decide⟩
example := deepcopyOp_fresh exT_inv "a" "b" _ rfl
example := deepcopyOp_contents exT_inv "a" "b" _ rfl
example := deepcopyOp_sharing exT_inv "a" "b" _ rfl

/-- four points; `a[2] = a[1]; a[3] = a[1]`: the first three simplices hold the dict object 1, the fourth its
own (4); `a[1]["k5"] = 7` -/
def exP : World :=
  let w1 := (addFacesOp (newCx {} "a") "a" [] (some (.u 1)) none).2
  let w2 := (addFacesOp w1 "a" [] (some (.u 2)) none).2
  let w3 := (addFacesOp w2 "a" [] (some (.u 3)) none).2
  let w4 := (addFacesOp w3 "a" [] (some (.u 4)) none).2
  let w5 := (setAttrOp w4 "a" (.u 2) 1).2
  let w6 := (setAttrOp w5 "a" (.u 3) 1).2
  (dictSetOp w6 "a" (.u 1) 5 7).2

theorem exP_inv : WInv exP := by
  have h1 := addFacesOp_inv (newCx_inv WInv.empty "a") "a" [] (some (.u 1)) none (argOK_none _)
  have h2 := addFacesOp_inv h1 "a" [] (some (.u 2)) none (argOK_none _)
  have h3 := addFacesOp_inv h2 "a" [] (some (.u 3)) none (argOK_none _)
  have h4 := addFacesOp_inv h3 "a" [] (some (.u 4)) none (argOK_none _)
  have h5 := setAttrOp_inv h4 "a" (.u 2) 1 (by decide)
  have h6 := setAttrOp_inv h5 "a" (.u 3) 1 (by decide)
  exact dictSetOp_inv h6 "a" (.u 1) 5 7

example : (exP.obj? "a").map (fun o => (o.rep, o.attrs)) =
      some (0, [(.u 1, 1), (.u 2, 1), (.u 3, 1), (.u 4, 4)]) ∧ exP.next = 5 := by decide

/-- the deep copy of `exP`: identities `[6, 6, 6, 7]` (the former definition gave `[6, 7, 8, 9]`), the shared
dict has the content of the source's; and `b[1]["k5"] = 9` is seen through `b[2]` and `b[3]` but not through
`b[4]` nor through `a` -/
example : ((deepcopyOp exP "a" "b").2.obj? "b").map (fun o => (o.rep, o.attrs)) =
      some (5, [(.u 1, 6), (.u 2, 6), (.u 3, 6), (.u 4, 7)]) ∧
    (deepcopyOp exP "a" "b").2.cell? 6 = some [(5, 7)] ∧ (deepcopyOp exP "a" "b").2.cell? 7 = some [] ∧
    (deepcopyOp exP "a" "b").2.next = 8 := by decide
example :
    let w1 := (deepcopyOp exP "a" "b").2
    let w2 := (dictSetOp w1 "b" (.u 1) 5 9).2
    (w2.obj? "b").map (fun o => [o.dictOf w2 (.u 1), o.dictOf w2 (.u 2), o.dictOf w2 (.u 3), o.dictOf w2 (.u 4)]) =
      some [[(5, 9)], [(5, 9)], [(5, 9)], []] ∧
    (w2.obj? "a").map (fun o => [o.dictOf w2 (.u 1), o.dictOf w2 (.u 2), o.dictOf w2 (.u 3), o.dictOf w2 (.u 4)]) =
      some [[(5, 7)], [(5, 7)], [(5, 7)], []] := by decide
example := deepcopyOp_sharing exP_inv "a" "b" _ rfl

/-- the object of the correspondence check, as a literal: `attrs = [(a,1),(b,1),(c,1),(d,2)]`, `next = 5` ↦
`[(a,6),(b,6),(c,6),(d,7)]` -/
example :
    let s : Obj := { rep := 0, c := emptyC, attrs := [(.u 1, 1), (.u 2, 1), (.u 3, 1), (.u 4, 2)] }
    let w : World := { objs := [("s", s)], cells := [(1, [(1, 1)]), (2, [])], next := 5 }
    ((deepcopyOp w "s" "t").2.obj? "t").map (fun o => (o.rep, o.attrs)) =
      some (5, [(.u 1, 6), (.u 2, 6), (.u 3, 6), (.u 4, 7)]) ∧
    (deepcopyOp w "s" "t").2.cells = [(1, [(1, 1)]), (2, []), (6, [(1, 1)]), (7, [])] := by decide

end W
