import Sx.Model
import Sx.Proofs.FlatAdd
import Sx.Proofs.FlatBasis5
import Sx.Proofs.FlatRelabel
import Sx.Proofs.FlatStar
import Sx.Proofs.RankBridge
import Sx.Proofs.Betti
import Sx.Proofs.LabelsBridge
import Mathlib.Tactic.SplitIfs

/-! # C06 / C07 — boundary operators, Smith normal form, Betti numbers, Euler–Poincaré, cycle bases

Model functions (`Sx/Model/Ops.lean`): `bopMat`, `snfK`, `bettiK`, `countsOf`, `eulerOfCounts`, `euler`, `Zk`,
`boundaryChain`, `symmDiff`; (`Sx/Model/Mat.lean`): `M2.snf`, `M2.reduceL`, `M2.zeroCols`, `M2.nonzeroRows`,
`M2.betti`.  Ranks are `Matrix.rank` over `ZMod 2` of `M2.toM m n B`. -/
open Matrix

namespace M2

/-! ## generalities on list matrices -/

/-- the entry lists have the recorded shape: the matrix is `M2.mk` of its own entries.
(`Mat.WF` of `MatProofs.lean` resolves `mk` to the structure constructor and is trivially true, so it is not
used here.) -/
def IsMk (B : Mat) : Prop := ∃ f : Nat → Nat → Bool, B = M2.mk B.m B.n f

theorem isMk_mk (m n : Nat) (f : Nat → Nat → Bool) : IsMk (M2.mk m n f) := ⟨f, rfl⟩

theorem mk_congr {m n : Nat} {f g : Nat → Nat → Bool} (h : ∀ i j, i < m → j < n → f i j = g i j) :
    mk m n f = mk m n g := by
  unfold mk
  congr 1
  apply List.map_congr_left
  intro i hi
  apply List.map_congr_left
  intro j hj
  exact h i j (List.mem_range.mp hi) (List.mem_range.mp hj)

theorem IsMk.eq_mk_get {A : Mat} (h : IsMk A) : A = M2.mk A.m A.n A.get := by
  obtain ⟨f, hf⟩ := h
  have : M2.mk A.m A.n f = M2.mk A.m A.n A.get := by
    apply mk_congr
    intro i j hi hj
    have : A.get i j = (M2.mk A.m A.n f).get i j := congrArg (fun X : Mat => X.get i j) hf
    rw [this, get_mk hi hj]
  exact hf.trans this

/-- two `IsMk` matrices of the same shape with the same entries are equal -/
theorem ext_get {A B : Mat} (hA : IsMk A) (hB : IsMk B) (hm : A.m = B.m) (hn : A.n = B.n)
    (h : ∀ i j, i < A.m → j < A.n → A.get i j = B.get i j) : A = B := by
  rw [hA.eq_mk_get, hB.eq_mk_get, ← hm, ← hn]
  exact mk_congr h

theorem reduce_isMk (B : Mat) (x fuel : Nat) (h : IsMk B) : IsMk (reduce B x fuel) := by
  induction fuel generalizing B x with
  | zero => exact h
  | succ fuel ih =>
    simp only [reduce]
    split_ifs
    · exact h
    · cases findPivot B x with
      | none => exact h
      | some kl => obtain ⟨k, l⟩ := kl; exact ih _ _ (isMk_mk _ _ _)

theorem snf_isMk (B : Mat) (h : IsMk B) : IsMk (snf B) := reduce_isMk B 0 _ h

theorem toM_rank_cast (B : Mat) {m n : ℕ} (hm : B.m = m) (hn : B.n = n) :
    (toM B.m B.n B).rank = (toM m n B).rank := by
  subst hm hn; rfl

/-- the normal form has the rank of the matrix it was computed from -/
theorem rank_snf (B : Mat) : (toM (snf B).m (snf B).n (snf B)).rank = (toM B.m B.n B).rank := by
  obtain ⟨r, -, hm, hn, -⟩ := snf_shape B
  rw [toM_rank_cast (snf B) hm hn]
  exact reduce_rank B rfl rfl 0 _

theorem rank_le_min (B : Mat) : (toM B.m B.n B).rank ≤ min B.m B.n :=
  Nat.le_min.mpr ⟨rank_le_height _, rank_le_width _⟩

/-- the rank the model computes (number of non-zero rows of the normal form) is the GF(2) rank -/
theorem rk_eq_rank (B : Mat) : rk B = (toM B.m B.n B).rank := by
  obtain ⟨r, hr, hm, hn, hall⟩ := snf_rank B
  have hle : r ≤ min B.m B.n := by rw [hr]; exact rank_le_min B
  have := partialId_counts (snf B) r (by rw [hm, hn]; exact hle)
    (fun i j hi hj => hall i j (by rw [← hm]; exact hi) (by rw [← hn]; exact hj))
  rw [← (rk_spec B).2.2, this.2, hr]

theorem rank_zero_of_get {B : Mat} {m n : ℕ} (h : ∀ i j, i < m → j < n → B.get i j = false) :
    (toM m n B).rank = 0 := by
  have : toM m n B = 0 := by
    ext i j
    simp [toM, h i j i.2 j.2, b2f]
  rw [this, rank_zero]

end M2

namespace Flat
open M2

/-! ## a concrete valid complex for the non-vacuity examples -/

/-- a decidable sufficient condition for `Inv` (the unbounded `∀ p` of `Inv.higher`/`Inv.uniq` replaced by
bounded ones), used to exhibit concrete valid complexes -/
theorem inv_of_dec (c : C)
    (h1 : c.simps.Pairwise (fun a b => a.order ≤ b.order))
    (h2 : (c.simps.map (·.name)).Nodup)
    (h3 : ∀ s ∈ c.simps, s.order = 0 → s.faces = [] ∧ s.basis = [s.name])
    (h4 : ∀ s ∈ c.simps, 0 < s.order →
      s.faces.Nodup ∧ s.faces.length = s.order + 1 ∧
      (∀ f ∈ s.faces, ∃ t ∈ c.simps, t.name = f ∧ t.order + 1 = s.order) ∧
      s.basis.Nodup ∧ s.basis.length = s.order + 1 ∧
      (∀ p ∈ s.basis, ∃ f ∈ s.faces, ∃ t ∈ c.simps, t.name = f ∧ p ∈ t.basis) ∧
      (∀ f ∈ s.faces, ∀ t ∈ c.simps, t.name = f → ∀ p ∈ t.basis, p ∈ s.basis))
    (h5 : ∀ s ∈ c.simps, ∀ t ∈ c.simps, s.order = t.order →
      (∀ p ∈ s.basis, p ∈ t.basis) → (∀ p ∈ t.basis, p ∈ s.basis) → s = t) : Inv c := by
  refine ⟨h1, h2, h3, ?_, ?_⟩
  · intro s hs hpos
    obtain ⟨a, b, d, e, f, g, i⟩ := h4 s hs hpos
    refine ⟨a, b, d, e, f, fun p => ⟨g p, ?_⟩⟩
    rintro ⟨f', hf', t, ht, hn, hp⟩
    exact i f' hf' t ht hn p hp
  · intro s hs t ht ho hb
    exact h5 s hs t ht ho (fun p hp => (hb p).mp hp) (fun p hp => (hb p).mpr hp)

/-- two triangles `{0,1,2}` (filled) and `{1,2,3}` (hollow) glued along the edge `{1,2}` -/
def exH : C := ⟨[⟨.u 0, 0, [], [.u 0]⟩, ⟨.u 1, 0, [], [.u 1]⟩, ⟨.u 2, 0, [], [.u 2]⟩, ⟨.u 3, 0, [], [.u 3]⟩,
  ⟨.u 10, 1, [.u 0, .u 1], [.u 0, .u 1]⟩, ⟨.u 11, 1, [.u 1, .u 2], [.u 1, .u 2]⟩,
  ⟨.u 12, 1, [.u 0, .u 2], [.u 0, .u 2]⟩, ⟨.u 13, 1, [.u 1, .u 3], [.u 1, .u 3]⟩,
  ⟨.u 14, 1, [.u 2, .u 3], [.u 2, .u 3]⟩,
  ⟨.u 20, 2, [.u 10, .u 11, .u 12], [.u 0, .u 1, .u 2]⟩], 0⟩

theorem exH_inv : Inv exH :=
  inv_of_dec exH (by decide) (by decide) (by decide) (by decide) (by decide)

example : checkInv exH = true := by decide

/-! ## (1) the boundary operator: shape and entries -/

/-- **shape of `∂_k`**: `1 × n₀` for `k = 0`; `0 × 0` above the maximum order; `n_{k-1} × n_k` otherwise,
`n_j = (c.ofOrder j).length`. -/
theorem bopMat_shape (c : C) (k : Nat) :
    (k = 0 → (bopMat c k).m = 1 ∧ (bopMat c k).n = (c.ofOrder 0).length) ∧
    (k ≠ 0 → (k : Int) > c.maxOrder → (bopMat c k).m = 0 ∧ (bopMat c k).n = 0) ∧
    (k ≠ 0 → (k : Int) ≤ c.maxOrder →
      (bopMat c k).m = (c.ofOrder (k - 1)).length ∧ (bopMat c k).n = (c.ofOrder k).length) := by
  refine ⟨?_, ?_, ?_⟩
  · rintro rfl; simp [bopMat]
  · intro h0 hk; simp [bopMat, h0, hk]
  · intro h0 hk
    have : ¬ (k : Int) > c.maxOrder := by omega
    simp [bopMat, h0, this]

theorem bopMat_isMk (c : C) (k : Nat) : IsMk (bopMat c k) := by
  unfold bopMat; split_ifs <;> exact isMk_mk _ _ _

/-- **entries of `∂_k`**, `1 ≤ k ≤ maxOrder`: entry `(i, j)` is set exactly when the name of the `i`-th simplex
of order `k-1` is among the faces of the `j`-th simplex of order `k` (both in listing order). -/
theorem bopMat_entry (c : C) (k : Nat) (hk : 1 ≤ k) (hmax : (k : Int) ≤ c.maxOrder) (i j : Nat)
    (r s : Simp Name) (hr : (c.ofOrder (k - 1))[i]? = some r) (hs : (c.ofOrder k)[j]? = some s) :
    (bopMat c k).get i j = true ↔ r.name ∈ s.faces := by
  have hi : i < (c.ofOrder (k - 1)).length := (List.getElem?_eq_some_iff.mp hr).1
  have hj : j < (c.ofOrder k).length := (List.getElem?_eq_some_iff.mp hs).1
  have h0 : k ≠ 0 := by omega
  have h1 : ¬ (k : Int) > c.maxOrder := by omega
  unfold bopMat
  rw [if_neg h0, if_neg h1]
  simp only
  rw [get_mk (by simpa using hi) hj]
  simp [List.getElem?_map, hr, hs]

/-- the same with positions given by bounds: the entry is the Boolean `s_j.faces.contains r_i.name` -/
theorem bopMat_entry_getElem (c : C) (k : Nat) (hk : 1 ≤ k) (hmax : (k : Int) ≤ c.maxOrder) (i j : Nat)
    (hi : i < (c.ofOrder (k - 1)).length) (hj : j < (c.ofOrder k).length) :
    (bopMat c k).get i j = ((c.ofOrder k)[j]).faces.contains ((c.ofOrder (k - 1))[i]).name := by
  rw [Bool.eq_iff_iff, List.contains_iff_mem]
  exact bopMat_entry c k hk hmax i j _ _ (List.getElem?_eq_getElem hi) (List.getElem?_eq_getElem hj)

/-- outside the shape every entry reads as `false` -/
theorem bopMat_entry_oob (c : C) (k i j : Nat) (h : ¬ (i < (bopMat c k).m ∧ j < (bopMat c k).n)) :
    (bopMat c k).get i j = false := by
  have := (bopMat_isMk c k).eq_mk_get
  rw [this]; exact get_mk_oob h

/-- `∂_0` and the operators above the maximum order are zero matrices -/
theorem bopMat_zero (c : C) (k : Nat) (hk : k = 0 ∨ (k : Int) > c.maxOrder) (i j : Nat) :
    (bopMat c k).get i j = false := by
  by_cases hin : i < (bopMat c k).m ∧ j < (bopMat c k).n
  · unfold bopMat at hin ⊢
    split_ifs at hin ⊢ with h0 h1
    · exact get_mk hin.1 hin.2
    · exact get_mk hin.1 hin.2
    · rcases hk with hk | hk <;> contradiction
  · exact bopMat_entry_oob c k i j hin

/-- on `exH`: `∂_1` (4 points × 5 edges) and `∂_2` (5 edges × 1 triangle); `1 ≤ k ≤ maxOrder = 2` -/
example : (1 : Int) ≤ exH.maxOrder ∧ (2 : Int) ≤ exH.maxOrder ∧
    (bopMat exH 1).e = [[true, false, true, false, false], [true, true, false, true, false],
      [false, true, true, false, true], [false, false, false, true, true]] ∧
    (bopMat exH 2).e = [[true], [true], [true], [false], [false]] ∧
    (bopMat exH 0).e = [[false, false, false, false]] ∧ (bopMat exH 3).e = [] := by decide

/-- under sortedness (in particular `Inv`) there is no simplex above the maximum order -/
theorem ofOrder_above_max {c : C} (hI : Inv c) {k : Nat} (hk : (k : Int) > c.maxOrder) : c.ofOrder k = [] := by
  unfold Cx.ofOrder
  rw [List.filter_eq_nil_iff]
  intro s hs
  have := maxOrder_ge hI hs
  simp only [beq_iff_eq]
  omega

/-- under `Inv` the number of columns of `∂_k` is the number of order-`k` simplices, for every `k` -/
theorem bopMat_n {c : C} (hI : Inv c) (k : Nat) : (bopMat c k).n = (c.ofOrder k).length := by
  obtain ⟨a, b, d⟩ := bopMat_shape c k
  by_cases h0 : k = 0
  · subst h0; exact (a rfl).2
  · by_cases hk : (k : Int) > c.maxOrder
    · rw [(b h0 hk).2, ofOrder_above_max hI hk]; rfl
    · exact (d h0 (by omega)).2

/-! ## (2) Smith normal form (C07, first sentence) -/

/-- the GF(2) rank of the order-`k` boundary operator -/
noncomputable def bopRank (c : C) (k : Nat) : Nat :=
  (toM (bopMat c k).m (bopMat c k).n (bopMat c k)).rank

/-- **`smithNormalForm(k)`** has the shape of `∂_k`, ones on the first `rank ∂_k` diagonal places and zeros
elsewhere. -/
theorem snfK_spec (c : C) (k : Nat) :
    (snfK c k).m = (bopMat c k).m ∧ (snfK c k).n = (bopMat c k).n ∧
    ∀ i j, i < (bopMat c k).m → j < (bopMat c k).n →
      (snfK c k).get i j = decide (i = j ∧ i < (toM (bopMat c k).m (bopMat c k).n (bopMat c k)).rank) := by
  obtain ⟨r, hr, hm, hn, hall⟩ := snf_rank (bopMat c k)
  subst hr
  exact ⟨hm, hn, hall⟩

/-- the same as an equation between matrices (entry lists included) -/
theorem snfK_eq_mk (c : C) (k : Nat) :
    snfK c k = M2.mk (bopMat c k).m (bopMat c k).n (fun i j => decide (i = j ∧ i < bopRank c k)) := by
  obtain ⟨hm, hn, hall⟩ := snfK_spec c k
  apply ext_get (snf_isMk _ (bopMat_isMk c k)) (isMk_mk _ _ _) hm hn
  intro i j hi hj
  have hi' : i < (bopMat c k).m := hm ▸ hi
  have hj' : j < (bopMat c k).n := hn ▸ hj
  rw [get_mk hi' hj']
  exact hall i j hi' hj'

example : (snfK exH 1).e = [[true, false, false, false, false], [false, true, false, false, false],
    [false, false, true, false, false], [false, false, false, false, false]] := by decide

theorem bopRank_le (c : C) (k : Nat) : bopRank c k ≤ min (bopMat c k).m (bopMat c k).n := rank_le_min _

theorem bopRank_zero (c : C) (k : Nat) (hk : k = 0 ∨ (k : Int) > c.maxOrder) : bopRank c k = 0 :=
  rank_zero_of_get (fun i j _ _ => bopMat_zero c k hk i j)

/-- the rank the model reads off `smithNormalForm(k)` is `rank ∂_k` -/
theorem rk_snfK (c : C) (k : Nat) : rk (snfK c k) = bopRank c k := by
  rw [rk_eq_rank]; exact rank_snf _

/-! ## (3) Betti numbers (C06) and Euler–Poincaré -/

/-- **C06**, for every complex and every `k`: `β_k = (n_k − rank ∂_k) − rank ∂_{k+1}` where `n_k` is the number
of columns of `∂_k` (by `bopMat_shape`: the number of order-`k` simplices for `k ≤ maxOrder`, and `0` above). -/
theorem bettiK_spec (c : C) (k : Nat) :
    bettiK c k = (((bopMat c k).n : Int) - (bopRank c k : Int)) - (bopRank c (k + 1) : Int) := by
  show M2.betti (fun j => snfK c j) k = _
  unfold M2.betti
  obtain ⟨-, h2, -⟩ := rk_spec (snfK c k)
  obtain ⟨-, -, h3⟩ := rk_spec (snfK c (k + 1))
  rw [h2, h3, rk_snfK, rk_snfK, (snfK_spec c k).2.1]
  have := bopRank_le c k
  omega

/-- **C06** for a valid complex: `β_k = (n_k − rank ∂_k) − rank ∂_{k+1}` with `n_k` the number of order-`k`
simplices, for every `k`. (Only the sortedness part of `Inv` is used. Without it the statement fails above
the maximum order: see the counterexample below.) -/
theorem bettiK_spec_inv {c : C} (hI : Inv c) (k : Nat) :
    bettiK c k = (((c.ofOrder k).length : Int) - (bopRank c k : Int)) - (bopRank c (k + 1) : Int) := by
  rw [bettiK_spec, bopMat_n hI]

/-- a malformed (unsorted) state where `n_1 = 1` but `β_1 = 0` because `1 > maxOrder = 0` -/
example : let c : C := ⟨[⟨.u 1, 1, [], []⟩, ⟨.u 0, 0, [], [.u 0]⟩], 0⟩
    (c.ofOrder 1).length = 1 ∧ bettiK c 1 = 0 ∧ (bopMat c 1).n = 0 := by decide

theorem bettiK_above_max (c : C) (k : Nat) (hk : (k : Int) > c.maxOrder) : bettiK c k = 0 := by
  rw [bettiK_spec, bopRank_zero c k (Or.inr hk), bopRank_zero c (k + 1) (Or.inr (by omega))]
  by_cases h0 : k = 0
  · subst h0
    have hemp : c.simps = [] := by
      unfold Cx.maxOrder at hk
      cases hl : c.simps.getLast? with
      | none => exact List.getLast?_eq_none_iff.mp hl
      | some s => rw [hl] at hk; simp at hk; omega
    rw [((bopMat_shape c 0).1 rfl).2]
    simp [Cx.ofOrder, hemp]
  · rw [((bopMat_shape c k).2.1 h0 hk).2]; simp

/-- `eulerCharacteristic()` is the alternating sum of the per-order counts -/
theorem eulerOfCounts_range (g : Nat → Nat) (K : Nat) :
    ((List.range K).map g).foldl (fun (acc : Int × Int) (n : Nat) => (acc.1 + acc.2 * (n : Int), -acc.2)) (0, 1)
      = ((Finset.range K).sum (fun k => (-1 : Int) ^ k * (g k : Int)), (-1 : Int) ^ K) := by
  induction K with
  | zero => simp
  | succ K ih =>
    rw [List.range_succ, List.map_append, List.foldl_append, ih, Finset.sum_range_succ]
    simp [pow_succ]

theorem euler_eq_sum (c : C) :
    euler c = (Finset.range (c.maxOrder + 1).toNat).sum
      (fun k => (-1 : Int) ^ k * ((c.ofOrder k).length : Int)) := by
  unfold euler eulerOfCounts countsOf
  rw [eulerOfCounts_range]

/-- **Euler–Poincaré** for the model: the alternating sum of the computed Betti numbers over the orders
`0..maxOrder` is the Euler characteristic the model computes. (Holds for every state; `Inv` is not needed
because both sides only look at the orders `0..maxOrder`.) -/
theorem euler_poincare_cx (c : C) :
    (Finset.range (c.maxOrder + 1).toNat).sum (fun k => (-1 : Int) ^ k * bettiK c k) = euler c := by
  rw [euler_eq_sum]
  have hge : (-1 : Int) ≤ c.maxOrder := by
    unfold Cx.maxOrder; cases c.simps.getLast? <;> simp
  by_cases hm1 : c.maxOrder = -1
  · rw [hm1]; simp
  · obtain ⟨K, hK⟩ : ∃ K : Nat, c.maxOrder = K := ⟨c.maxOrder.toNat, by omega⟩
    have hK1 : (c.maxOrder + 1).toNat = K + 1 := by omega
    rw [hK1]
    have key := M2.euler_poincare (fun j => snfK c j) K
      (by rw [rk_snfK]; exact bopRank_zero c 0 (Or.inl rfl))
      (by rw [rk_snfK]; exact bopRank_zero c (K + 1) (Or.inr (by omega)))
    have hb : ∀ k, bettiK c k = M2.betti (fun j => snfK c j) k := fun _ => rfl
    simp only [hb]
    rw [key]
    apply Finset.sum_congr rfl
    intro k hk
    rw [Finset.mem_range] at hk
    rw [(snfK_spec c k).2.1]
    by_cases h0 : k = 0
    · subst h0; rw [((bopMat_shape c 0).1 rfl).2]
    · rw [((bopMat_shape c k).2.2 h0 (by omega)).2]

/-- on `exH`: one component, one hole (the hollow triangle), nothing above; `χ = 4 - 5 + 1 = 0 = 1 - 1 + 0` -/
example : bettiK exH 0 = 1 ∧ bettiK exH 1 = 1 ∧ bettiK exH 2 = 0 ∧ bettiK exH 3 = 0 ∧ euler exH = 0 ∧
    (exH.maxOrder + 1).toNat = 3 := by decide

/-! ## (4) the homology functions do not depend on simplex names -/

theorem ofOrder_map (ρ : Name → Name) (c : C) (k : Nat) :
    (c.map ρ).ofOrder k = (c.ofOrder k).map (Simp.map ρ) := by
  unfold Cx.ofOrder Cx.map
  simp only [List.filter_map]
  rfl

theorem maxOrder_map (ρ : Name → Name) (c : C) : (c.map ρ).maxOrder = c.maxOrder := by
  unfold Cx.maxOrder Cx.map
  simp only [List.getLast?_map]
  cases c.simps.getLast? <;> rfl

theorem contains_map_inj (ρ : Name → Name) (l : List Name) (a : Name)
    (h : ∀ x ∈ l, ρ x = ρ a → x = a) : (l.map ρ).contains (ρ a) = l.contains a := by
  rw [Bool.eq_iff_iff, List.contains_iff_mem, List.contains_iff_mem, List.mem_map]
  constructor
  · rintro ⟨x, hx, he⟩; rw [← h x hx he]; exact hx
  · intro ha; exact ⟨a, ha, rfl⟩

/-- **the boundary operators are invariant under an injective renaming** -/
theorem bopMat_relabel_invariant {c : C} (hI : Inv c) (ρ : Name → Name)
    (hinj : ∀ s ∈ c.simps, ∀ t ∈ c.simps, ρ s.name = ρ t.name → s.name = t.name) (k : Nat) :
    bopMat (c.map ρ) k = bopMat c k := by
  unfold bopMat
  rw [maxOrder_map, ofOrder_map, ofOrder_map, ofOrder_map]
  split_ifs with h0 h1
  · simp
  · rfl
  · simp only [List.length_map, List.map_map]
    apply mk_congr
    intro i j hi hj
    have hi' : i < (c.ofOrder (k - 1)).length := hi
    simp only [List.getElem?_map, List.getElem?_eq_getElem hi', List.getElem?_eq_getElem hj,
      Option.map_some, Function.comp]
    set r := (c.ofOrder (k - 1))[i] with hr
    set s := (c.ofOrder k)[j] with hs
    have hrm : r ∈ c.simps := List.mem_of_mem_filter (List.getElem_mem hi')
    have hsm : s ∈ c.simps := List.mem_of_mem_filter (List.getElem_mem hj)
    show ((s.faces.map ρ).contains (ρ r.name)) = s.faces.contains r.name
    apply contains_map_inj
    intro x hx he
    obtain ⟨t, ht, rfl⟩ := (hI.faces_are_names hsm).1 x hx
    exact hinj t ht r hrm he

/-- **C06/C07 are about the structure only**: Betti numbers and Smith normal forms are unchanged by an
injective renaming of the simplices. -/
theorem betti_relabel_invariant {c : C} (hI : Inv c) (ρ : Name → Name)
    (hinj : ∀ s ∈ c.simps, ∀ t ∈ c.simps, ρ s.name = ρ t.name → s.name = t.name) (k : Nat) :
    bopMat (c.map ρ) k = bopMat c k ∧ snfK (c.map ρ) k = snfK c k ∧ bettiK (c.map ρ) k = bettiK c k := by
  have h := bopMat_relabel_invariant hI ρ hinj
  refine ⟨h k, ?_, ?_⟩
  · unfold snfK; rw [h k]
  · unfold bettiK M2.betti snfK; simp only [h]

/-- an injective renaming of `exH` (hypothesis of `betti_relabel_invariant`), which really changes the names -/
example : (∀ s ∈ exH.simps, ∀ t ∈ exH.simps,
    (fun n => Name.arrow n 0 1) s.name = (fun n => Name.arrow n 0 1) t.name → s.name = t.name) ∧
    ((exH.map (fun n => Name.arrow n 0 1)).simps.map (·.name)).head? = some (.arrow (.u 0) 0 1) := by decide

end Flat

/-! ## (5) `Z(k)`: a basis of the cycle group (C07, second sentence) -/

namespace M2

/-- the labelled reduction as `Z` runs it -/
def redL (B : Mat) : Mat × List (List Nat) :=
  reduceL B ((List.range B.n).map (fun j => [j])) 0 (min B.m B.n)

/-- what `Z_core` says, with the length of the label list and the position of the zero columns made
explicit: the labels are `B.n` lists; the reduced matrix has `B.n - rank B` zero columns, namely the columns
`jj ≥ rank B`; the label of each of these, read mod 2, is in the kernel of `B`; the label matrix has full rank. -/
theorem redL_core (B : Mat) :
    (redL B).2.length = B.n ∧
    zeroCols (redL B).1 = B.n - (toM B.m B.n B).rank ∧
    (Qof B.n (redL B).2).rank = B.n ∧
    ∀ jj (hjj : jj < B.n), (toM B.m B.n B).rank ≤ jj →
      toM B.m B.n B *ᵥ (fun s => Qof B.n (redL B).2 s ⟨jj, hjj⟩) = 0 := by
  have h0 : LInv (toM B.m B.n B) B ((List.range B.n).map (fun j => [j])) :=
    ⟨rfl, rfl, by simp, by rw [Qof_init]; exact KerEq.init _, by rw [Qof_init, rank_one]; simp⟩
  have h : LInv (toM B.m B.n B) (redL B).1 (redL B).2 := reduceL_inv (min B.m B.n) B _ 0 h0
  have h1 : (redL B).1 = snf B := reduceL_fst _ _ _ _
  refine ⟨h.len, ?_, h.full, ?_⟩
  · rw [h1, (rk_spec B).2.1, rk_eq_rank]
  · intro jj hjj hle
    apply h.ker.zero_col ⟨jj, hjj⟩
    intro i
    obtain ⟨r, hr, -, -, hall⟩ := snf_rank B
    simp only [toM]
    rw [h1, hall i jj i.2 hjj]
    have : ¬ ((i : ℕ) = jj ∧ (i : ℕ) < r) := by omega
    simp [this, b2f]

theorem b2f_and (a b : Bool) : b2f a * b2f b = b2f (a && b) := by
  cases a <;> cases b <;> simp [b2f]

/-- a sum of indicator values over the positions of a list counts the entries satisfying the predicate -/
theorem sum_range_indicator {σ : Type} (l : List σ) (p : σ → Bool) :
    (Finset.range l.length).sum (fun s => b2f ((l[s]?).any p)) = (((l.filter p).length : ℕ) : F2) := by
  induction l with
  | nil => simp
  | cons a l ih =>
    rw [List.length_cons, Finset.sum_range_succ']
    simp only [List.getElem?_cons_succ, List.getElem?_cons_zero, Option.any_some]
    rw [ih, List.filter_cons]
    cases p a <;> simp [b2f]

/-- the kernel statement of `redL_core` in elementary terms: for a zero column `jj` and a row `i`, the number
of columns `s` with `B[i,s] = 1` whose index occurs an odd number of times in the label is even — written as
a sum in GF(2) over `range B.n`. -/
theorem redL_kernel_sum (B : Mat) (i : Nat) (hi : i < B.m) (jj : Nat) (hjj : jj < B.n)
    (hle : (toM B.m B.n B).rank ≤ jj) :
    (Finset.range B.n).sum (fun s =>
      b2f (B.get i s && decide (((redL B).2.getD jj []).count s % 2 = 1))) = 0 := by
  have := congrFun ((redL_core B).2.2.2 jj hjj hle) ⟨i, hi⟩
  simp only [Matrix.mulVec, dotProduct, toM, Qof, Pi.zero_apply, b2f_and] at this
  rw [← this]
  exact (Fin.sum_univ_eq_sum_range (fun s =>
    b2f (B.get i s && decide (((redL B).2.getD jj []).count s % 2 = 1))) B.n).symm

/-- a selection of distinct columns of a square matrix of full rank has full column rank -/
theorem rank_cols_of_full {N a b : ℕ} (Q : Matrix (Fin N) (Fin N) F2) (hQ : Q.rank = N)
    (P : Matrix (Fin a) (Fin b) F2) (ha : a = N) (e : ℕ → ℕ) (heN : ∀ j, j < b → e j < N)
    (hinj : ∀ j j', j < b → j' < b → e j = e j' → j = j')
    (hP : ∀ (s : Fin a) (j : Fin b), P s j = Q ⟨s, ha ▸ s.2⟩ ⟨e j, heN j j.2⟩) : P.rank = b := by
  subst ha
  have hrows : LinearIndependent F2 Qᵀ.row := by
    rw [linearIndependent_iff_card_eq_finrank_span, Fintype.card_fin, Set.finrank,
      ← rank_eq_finrank_span_row, rank_transpose, hQ]
  let f : Fin b → Fin a := fun j => ⟨e j, heN j j.2⟩
  have hf : Function.Injective f := by
    intro j j' hjj'
    have : e j = e j' := congrArg Fin.val hjj'
    exact Fin.ext (hinj j j' j.2 j'.2 this)
  have hrowsP : LinearIndependent F2 Pᵀ.row := by
    have : Pᵀ.row = Qᵀ.row ∘ f := by
      funext j s
      simp only [Matrix.row, Matrix.transpose_apply, Function.comp]
      exact hP s j
    rw [this]
    exact hrows.comp f hf
  rw [← rank_transpose, hrowsP.rank_matrix, Fintype.card_fin]

/-- decoding index labels into names does not change multiplicities (the names being pairwise distinct;
indices out of range are dropped) -/
theorem count_decode {ν : Type} [DecidableEq ν] (cols : List ν) (hnd : cols.Nodup) (l : List Nat) (s : Nat)
    (hs : s < cols.length) : (l.filterMap (fun j => cols[j]?)).count cols[s] = l.count s := by
  induction l with
  | nil => simp
  | cons j l ih =>
    rw [List.filterMap_cons]
    cases hj : cols[j]? with
    | none =>
      have hjge : cols.length ≤ j := List.getElem?_eq_none_iff.mp hj
      have : j ≠ s := by omega
      simp only
      rw [ih, List.count_cons_of_ne this]
    | some x =>
      obtain ⟨hjlt, hx⟩ := List.getElem?_eq_some_iff.mp hj
      simp only
      rw [List.count_cons, List.count_cons, ih]
      congr 1
      by_cases hjs : j = s
      · subst hjs; simp [hx]
      · have : x ≠ cols[s] := by
          rw [← hx]; intro he
          exact hjs ((List.Nodup.getElem_inj_iff hnd).mp he)
        simp [this, hjs]

end M2

namespace Flat
open M2

/-- `Zk` in terms of `redL`, when the column count of `∂_k` is the number of order-`k` simplices (always the
case under `Inv`, and for `k ≤ maxOrder` in general) -/
theorem Zk_eq (c : C) (k : Nat) (hn : (bopMat c k).n = (c.ofOrder k).length) :
    Zk c k = ((redL (bopMat c k)).2.drop
        ((redL (bopMat c k)).2.length - zeroCols (redL (bopMat c k)).1)).map
      (fun chain => chain.filterMap (fun j => ((c.ofOrder k).map (·.name))[j]?)) := by
  unfold Zk redL
  simp only [List.length_map]
  rw [← hn]

theorem Zk_eq_drop {c : C} (hI : Inv c) (k : Nat) :
    Zk c k = ((redL (bopMat c k)).2.drop (bopRank c k)).map
      (fun chain => chain.filterMap (fun j => ((c.ofOrder k).map (·.name))[j]?)) := by
  rw [Zk_eq c k (bopMat_n hI k)]
  obtain ⟨h1, h2, -, -⟩ := redL_core (bopMat c k)
  have := bopRank_le c k
  rw [h1, h2]
  unfold bopRank at *
  congr 2
  omega

/-- **the chains of `Z(k)` are made of order-`k` simplices** (every state, every `k`) -/
theorem Zk_names (c : C) (k : Nat) : ∀ ch ∈ Zk c k, ∀ x ∈ ch, ∃ s ∈ c.ofOrder k, s.name = x := by
  intro ch hch x hx
  unfold Zk at hch
  simp only [List.mem_map] at hch
  obtain ⟨lab, -, rfl⟩ := hch
  rw [List.mem_filterMap] at hx
  obtain ⟨j, -, hj⟩ := hx
  have := List.mem_of_getElem? hj
  rw [List.mem_map] at this
  exact this

/-- **the number of chains is the nullity of `∂_k`** -/
theorem Zk_length {c : C} (hI : Inv c) (k : Nat) :
    (Zk c k).length = (c.ofOrder k).length - bopRank c k := by
  rw [Zk_eq_drop hI k, List.length_map, List.length_drop, (redL_core (bopMat c k)).1, bopMat_n hI]

/-- no cycles, no chains: when `∂_k` is injective (`rank = n_k`) `Z(k)` is empty (the repaired `[-0:]` slice) -/
theorem Zk_empty {c : C} (hI : Inv c) (k : Nat) (h : bopRank c k = (c.ofOrder k).length) : Zk c k = [] := by
  apply List.eq_nil_of_length_eq_zero
  rw [Zk_length hI k, h, Nat.sub_self]

theorem Zk_getElem {c : C} (hI : Inv c) (k j : Nat) (hj : j < (Zk c k).length) :
    (Zk c k)[j] = ((redL (bopMat c k)).2.getD (bopRank c k + j) []).filterMap
      (fun i => ((c.ofOrder k).map (·.name))[i]?) := by
  have hlen := Zk_length hI k
  have hL := (redL_core (bopMat c k)).1
  rw [bopMat_n hI] at hL
  have hlt : bopRank c k + j < (redL (bopMat c k)).2.length := by omega
  have hg : (redL (bopMat c k)).2.getD (bopRank c k + j) [] = (redL (bopMat c k)).2[bopRank c k + j] := by
    simp [List.getD_eq_getElem?_getD, hlt]
  rw [List.getElem_of_eq (Zk_eq_drop hI k) hj, List.getElem_map, List.getElem_drop, hg]

theorem hom_names_nodup {c : C} (hI : Inv c) (k : Nat) : ((c.ofOrder k).map (·.name)).Nodup :=
  hI.nodup.sublist (List.Sublist.map _ List.filter_sublist)

/-- multiplicity of the `s`-th order-`k` simplex in the `j`-th chain = multiplicity of `s` in its index label -/
theorem Zk_count {c : C} (hI : Inv c) (k j : Nat) (hj : j < (Zk c k).length) (s : Nat)
    (hs : s < (c.ofOrder k).length) :
    ((Zk c k)[j]).count ((c.ofOrder k)[s]).name
      = ((redL (bopMat c k)).2.getD (bopRank c k + j) []).count s := by
  rw [Zk_getElem hI k j hj]
  have := count_decode ((c.ofOrder k).map (·.name)) (hom_names_nodup hI k)
    ((redL (bopMat c k)).2.getD (bopRank c k + j) []) s (by simpa using hs)
  rw [← this]
  simp

/-- **every chain of `Z(k)` is a cycle mod 2**: each order-`(k-1)` simplex `t` is a face of an even number of
those order-`k` simplices that occur an odd number of times in the chain. -/
theorem Zk_cycle_even {c : C} (hI : Inv c) (k : Nat) (hk : 1 ≤ k) :
    ∀ ch ∈ Zk c k, ∀ t ∈ c.ofOrder (k - 1),
      Even (((c.ofOrder k).filter
        (fun s => s.faces.contains t.name && decide (ch.count s.name % 2 = 1))).length) := by
  intro ch hch t ht
  obtain ⟨j, hj, rfl⟩ := List.mem_iff_getElem.mp hch
  have hlen := Zk_length hI k
  have hn := bopMat_n hI k
  by_cases hmax : (k : Int) ≤ c.maxOrder
  · obtain ⟨i, hi, rfl⟩ := List.mem_iff_getElem.mp ht
    have hm : (bopMat c k).m = (c.ofOrder (k - 1)).length := ((bopMat_shape c k).2.2 (by omega) hmax).1
    have hsum := redL_kernel_sum (bopMat c k) i (by omega) (bopRank c k + j) (by omega)
      (Nat.le_add_right _ _)
    rw [← ZMod.natCast_eq_zero_iff_even, ← sum_range_indicator, ← hn, ← hsum]
    apply Finset.sum_congr rfl
    intro s hs
    rw [Finset.mem_range, hn] at hs
    rw [List.getElem?_eq_getElem hs, Option.any_some, Zk_count hI k j hj s hs]
    congr 2
    rw [Bool.eq_iff_iff, List.contains_iff_mem]
    exact (bopMat_entry c k hk hmax i s _ _ (List.getElem?_eq_getElem hi)
      (List.getElem?_eq_getElem hs)).symm
  · rw [ofOrder_above_max hI (by omega : (k : Int) > c.maxOrder)] at hlen
    rw [List.length_nil, Nat.zero_sub] at hlen
    omega

end Flat

namespace Flat
open M2

/-! ### independence -/

/-- parity matrix of a list of chains over a list of names: entry `(s, j)` is `1` iff the `s`-th name occurs an
odd number of times in the `j`-th chain -/
def chainMatrix (cols : List Name) (chains : List (List Name)) :
    Matrix (Fin cols.length) (Fin chains.length) F2 :=
  fun s j => b2f (decide ((chains[j]).count (cols[s]) % 2 = 1))

/-- **the chains of `Z(k)` are linearly independent mod 2**: their parity matrix over the order-`k` simplices has
rank equal to the number of chains. -/
theorem Zk_independent {c : C} (hI : Inv c) (k : Nat) :
    (chainMatrix ((c.ofOrder k).map (·.name)) (Zk c k)).rank = (Zk c k).length := by
  have hn := bopMat_n hI k
  have hlen := Zk_length hI k
  have hr := bopRank_le c k
  apply rank_cols_of_full (Qof (bopMat c k).n (redL (bopMat c k)).2) (redL_core _).2.2.1 _
    (by rw [List.length_map, hn]) (fun j => bopRank c k + j) (by intro j hj; omega)
    (by intro j j' _ _ h; omega)
  intro s j
  have hs : (s : ℕ) < (c.ofOrder k).length := by simpa using s.2
  simp only [chainMatrix, Qof, Fin.getElem_fin, List.getElem_map]
  rw [Zk_count hI k j j.2 s hs]

/-- the same as linear independence of the parity vectors -/
theorem Zk_linearIndependent {c : C} (hI : Inv c) (k : Nat) :
    LinearIndependent F2 (chainMatrix ((c.ofOrder k).map (·.name)) (Zk c k)).col := by
  rw [linearIndependent_iff_card_eq_finrank_span, Fintype.card_fin, Set.finrank,
    ← rank_eq_finrank_span_cols, Zk_independent hI k]

/-! ### the statement in terms of `boundaryChain` -/

/-- a chain read mod 2: the names that occur an odd number of times, each once -/
def oddPart (ch : List Name) : List Name := (dedupL ch).filter (fun x => ch.count x % 2 = 1)

theorem mem_oddPart {ch : List Name} {x : Name} : x ∈ oddPart ch ↔ ch.count x % 2 = 1 := by
  unfold oddPart
  rw [List.mem_filter, mem_dedupL]
  constructor
  · intro h; simpa using h.2
  · intro h
    refine ⟨?_, by simpa using h⟩
    apply List.count_pos_iff.mp
    omega

theorem mem_symmDiff {a b : List Name} {x : Name} :
    x ∈ symmDiff a b ↔ (x ∈ a ∧ x ∉ b) ∨ (x ∈ b ∧ x ∉ a) := by
  simp [symmDiff, List.mem_append, List.mem_filter]

/-- membership in an iterated symmetric difference is a parity -/
theorem mem_foldl_symmDiff (F : Name → List Name) (x : Name) (L : List Name) (acc : List Name) :
    x ∈ L.foldl (fun bs s => symmDiff bs (F s)) acc ↔
      ((if x ∈ acc then 1 else 0) + (L.filter (fun s => (F s).contains x)).length) % 2 = 1 := by
  induction L generalizing acc with
  | nil => by_cases h : x ∈ acc <;> simp [h]
  | cons s L ih =>
    rw [List.foldl_cons, ih, List.filter_cons]
    by_cases h1 : x ∈ acc <;> by_cases h2 : x ∈ F s <;> simp [mem_symmDiff, h1, h2] <;> omega

/-- `boundary(ss)` of a chain whose members all have order `p` is the iterated symmetric difference -/
theorem boundaryChain_eq (c : C) (ss : List Name) (p : Nat) (hall : ∀ s ∈ ss, c.orderOf? s = some p) :
    boundaryChain c ss = some (ss.foldl (fun bs s => symmDiff bs (dedupL (c.facesOf s))) []) := by
  unfold boundaryChain
  cases ss with
  | nil => rfl
  | cons s0 rest =>
    simp only
    rw [hall s0 List.mem_cons_self]
    simp only
    rw [if_pos]
    rw [List.all_eq_true]
    intro s hs
    rw [hall s hs]; simp

/-- **C07**: every chain returned by `Z(k)`, read mod 2, is a cycle: `boundary()` of it is empty. -/
theorem Zk_boundary {c : C} (hI : Inv c) (k : Nat) (hk : 1 ≤ k) :
    ∀ ch ∈ Zk c k, boundaryChain c (oddPart ch) = some [] := by
  intro ch hch
  have hsimp : ∀ y ∈ ch, ∃ s ∈ c.simps, s.order = k ∧ s.name = y := by
    intro y hy
    obtain ⟨s, hs, hn⟩ := Zk_names c k ch hch y hy
    unfold Cx.ofOrder at hs
    rw [List.mem_filter] at hs
    exact ⟨s, hs.1, by simpa using hs.2, hn⟩
  have hmemch : ∀ y, ch.count y % 2 = 1 → y ∈ ch := by
    intro y hy; apply List.count_pos_iff.mp; omega
  have hord : ∀ y ∈ oddPart ch, c.orderOf? y = some k := by
    intro y hy
    obtain ⟨s, hs, ho, rfl⟩ := hsimp y (hmemch y (mem_oddPart.mp hy))
    rw [orderOf_of_mem hI hs, ho]
  rw [boundaryChain_eq c _ k hord]
  congr 1
  rw [List.eq_nil_iff_forall_not_mem]
  intro x hx
  rw [mem_foldl_symmDiff (fun s => dedupL (c.facesOf s))] at hx
  simp only [List.not_mem_nil, if_false, Nat.zero_add] at hx
  -- some member of the chain has `x` as a face, so `x` names an order-(k-1) simplex `t`
  have hne : (oddPart ch).filter (fun s => (dedupL (c.facesOf s)).contains x) ≠ [] := by
    intro h; rw [h] at hx; simp at hx
  obtain ⟨y, hy⟩ := List.exists_mem_of_ne_nil _ hne
  rw [List.mem_filter, List.contains_iff_mem, mem_dedupL] at hy
  obtain ⟨s, hs, ho, rfl⟩ := hsimp y (hmemch y (mem_oddPart.mp hy.1))
  rw [facesOf_of_mem hI hs] at hy
  obtain ⟨-, -, hfex, -⟩ := hI.higher s hs (by omega)
  obtain ⟨t, ht, rfl, hto⟩ := hfex x hy.2
  have htk : t ∈ c.ofOrder (k - 1) := by
    unfold Cx.ofOrder; rw [List.mem_filter]; exact ⟨ht, by simp; omega⟩
  have hev := Zk_cycle_even hI k hk ch hch t htk
  -- the two filtered lists have the same length
  have hperm : (((c.ofOrder k).filter
        (fun s => s.faces.contains t.name && decide (ch.count s.name % 2 = 1))).map (·.name)).Perm
      ((oddPart ch).filter (fun s => (dedupL (c.facesOf s)).contains t.name)) := by
    apply (List.perm_ext_iff_of_nodup ?_ ?_).mpr
    · intro y
      simp only [List.mem_map, List.mem_filter, Bool.and_eq_true, decide_eq_true_eq,
        List.contains_iff_mem, mem_dedupL, mem_oddPart]
      constructor
      · rintro ⟨s', ⟨hs', hf, hc⟩, rfl⟩
        have hs'c : s' ∈ c.simps := List.mem_of_mem_filter hs'
        rw [facesOf_of_mem hI hs'c]
        exact ⟨hc, hf⟩
      · rintro ⟨hc, hf⟩
        obtain ⟨s', hs', hn⟩ := Zk_names c k ch hch y (hmemch y hc)
        subst hn
        have hs'c : s' ∈ c.simps := List.mem_of_mem_filter hs'
        rw [facesOf_of_mem hI hs'c] at hf
        exact ⟨s', ⟨hs', hf, hc⟩, rfl⟩
    · exact (hom_names_nodup hI k).sublist (List.Sublist.map _ List.filter_sublist)
    · exact ((nodup_dedupL ch).filter _).filter _
  have hl := hperm.length_eq
  rw [List.length_map] at hl
  rw [← hl] at hx
  obtain ⟨r, hr⟩ := hev
  omega

end Flat

namespace Flat
open M2

/-! ## summary theorem for `Z(k)` and non-vacuity -/

/-- **C07, second sentence.** For a valid complex and `k ≥ 1`, `Z(k)` returns `n_k − rank ∂_k` chains of
order-`k` simplices; each of them, read mod 2, has empty `boundary()` (equivalently every order-`(k-1)` simplex
is a face of an even number of its members); and the chains are linearly independent mod 2. -/
theorem Zk_spec {c : C} (hI : Inv c) (k : Nat) (hk : 1 ≤ k) :
    (∀ ch ∈ Zk c k, ∀ x ∈ ch, ∃ s ∈ c.ofOrder k, s.name = x) ∧
    (∀ ch ∈ Zk c k, ∀ t ∈ c.ofOrder (k - 1),
      Even (((c.ofOrder k).filter
        (fun s => s.faces.contains t.name && decide (ch.count s.name % 2 = 1))).length)) ∧
    (∀ ch ∈ Zk c k, boundaryChain c (oddPart ch) = some []) ∧
    (Zk c k).length = (c.ofOrder k).length - bopRank c k ∧
    (chainMatrix ((c.ofOrder k).map (·.name)) (Zk c k)).rank = (Zk c k).length :=
  ⟨Zk_names c k, Zk_cycle_even hI k hk, Zk_boundary hI k hk, Zk_length hI k, Zk_independent hI k⟩

/-- on `exH` (`Inv` by `exH_inv`, `k = 1`): two cycles, `5 - 3 = 2`; the triangle boundary `{01, 12, 02}` and the
hollow triangle `{12, 13, 23}`; `Z(2)` is empty because `∂_2` is injective -/
example : Zk exH 1 = [[.u 12, .u 10, .u 11], [.u 14, .u 13, .u 11]] ∧ Zk exH 2 = [] ∧
    (Zk exH 1).map (fun ch => boundaryChain exH (oddPart ch)) = [some [], some []] := by decide

end Flat
