import Sx.Props.MatRep0

/-! # Layer R — part 1: the invariant `MInv`, the structure of `abs`, the dictionary `find?`,
and the query refinements -/
namespace MatRep
open Flat M2

/-! ## the representation invariant -/

/-- the representation invariant of `ReferenceRepresentation`: the three per-order lists have the same
length (`_maxOrder + 1`); every matrix has the shape dictated by the index lists (and its entry lists really
have that shape: `IsMk`); names are pairwise distinct across all orders. -/
structure MInv (r : Rep) : Prop where
  lenB    : r.boundaries.length = r.indices.length
  lenS    : r.bases.length = r.indices.length
  bd0     : 0 < r.len → (r.bd 0).m = 0 ∧ (r.bd 0).n = 0
  bdShape : ∀ k, 0 < k → k < r.len → (r.bd k).m = (r.idx (k - 1)).length ∧ (r.bd k).n = (r.idx k).length
  bsShape : ∀ k, k < r.len → (r.bs k).m = (r.idx 0).length ∧ (r.bs k).n = (r.idx k).length
  isMk    : ∀ k, k < r.len → IsMk (r.bd k) ∧ IsMk (r.bs k)
  uniq    : ∀ (k i k' i' : Nat) (s : Name), (r.idx k)[i]? = some s → (r.idx k')[i']? = some s → k = k' ∧ i = i'

theorem idx_oob (r : Rep) {k : Nat} (hk : r.len ≤ k) : r.idx k = [] := getD_oob _ _ _ hk

theorem lt_len_of_get {r : Rep} {k i : Nat} {s : Name} (h : (r.idx k)[i]? = some s) : k < r.len := by
  by_contra hk
  rw [idx_oob r (by omega)] at h
  cases h

/-! ## the structure of `abs` -/

@[simp] theorem level_length (r : Rep) (k : Nat) : (r.level k).length = (r.idx k).length := by
  simp [Rep.level]

theorem level_getElem? (r : Rep) (k i : Nat) :
    (r.level k)[i]? = ((r.idx k)[i]?).map (fun n => r.simpAt k i n) := by
  simp [Rep.level, List.getElem?_mapIdx]

theorem mem_level {r : Rep} {k : Nat} {t : Simp Name} :
    t ∈ r.level k ↔ ∃ i, (r.idx k)[i]? = some t.name ∧ t = r.simpAt k i t.name := by
  unfold Rep.level
  rw [List.mem_mapIdx]
  constructor
  · rintro ⟨i, hi, rfl⟩
    exact ⟨i, List.getElem?_eq_getElem hi, rfl⟩
  · rintro ⟨i, hi, ht⟩
    obtain ⟨hlt, hget⟩ := List.getElem?_eq_some_iff.mp hi
    exact ⟨i, hlt, by rw [hget]; exact ht.symm⟩

theorem level_order {r : Rep} {k : Nat} {t : Simp Name} (h : t ∈ r.level k) : t.order = k := by
  obtain ⟨i, -, ht⟩ := mem_level.mp h
  rw [ht]; rfl

theorem level_oob (r : Rep) {k : Nat} (hk : r.len ≤ k) : r.level k = [] := by
  unfold Rep.level; rw [idx_oob r hk]; rfl

theorem level_names (r : Rep) (k : Nat) : (r.level k).map (·.name) = r.idx k := by
  apply List.ext_getElem?
  intro i
  rw [List.getElem?_map, level_getElem?]
  cases (r.idx k)[i]? <;> rfl

theorem mem_abs {r : Rep} {t : Simp Name} :
    t ∈ (abs r).simps ↔ ∃ k i, (r.idx k)[i]? = some t.name ∧ t = r.simpAt k i t.name := by
  unfold abs
  simp only [List.mem_flatMap, List.mem_range]
  constructor
  · rintro ⟨k, -, h⟩
    obtain ⟨i, h1, h2⟩ := mem_level.mp h
    exact ⟨k, i, h1, h2⟩
  · rintro ⟨k, i, h1, h2⟩
    exact ⟨k, lt_len_of_get h1, mem_level.mpr ⟨i, h1, h2⟩⟩

theorem flatMap_range_single {β : Type} (L : List β) (k n : Nat) :
    (List.range n).flatMap (fun a => if a = k then L else []) = if k < n then L else [] := by
  induction n with
  | zero => simp
  | succ n ih =>
    rw [flatMap_range_succ, ih]
    by_cases h1 : k < n
    · have : n ≠ k := by omega
      simp [h1, this]; omega
    · by_cases h2 : n = k
      · subst h2; simp
      · have : ¬ k < n + 1 := by omega
        simp [h1, h2, this]

/-- the order-`k` part of `abs r` is level `k` -/
theorem ofOrder_abs (r : Rep) (k : Nat) : (abs r).ofOrder k = r.level k := by
  unfold Cx.ofOrder abs
  simp only
  rw [List.filter_flatMap]
  have hlev : ∀ j, (r.level j).filter (fun s => s.order == k) = if j = k then r.level k else [] := by
    intro j
    by_cases hjk : j = k
    · subst hjk
      rw [if_pos rfl, List.filter_eq_self]
      intro t ht; simp [level_order ht]
    · rw [if_neg hjk, List.filter_eq_nil_iff]
      intro t ht; simp [level_order ht, hjk]
  simp only [hlev]
  rw [flatMap_range_single]
  split_ifs with hk
  · rfl
  · rw [level_oob r (by omega)]

/-! ## the dictionary `_simplices` -/

theorem find?_some' {r : Rep} {s : Name} {k i : Nat} (h : r.find? s = some (k, i)) :
    k < r.len ∧ (r.idx k).idxOf? s = some i := by
  unfold Rep.find? at h
  obtain ⟨k', hk', hf⟩ := List.exists_of_findSome?_eq_some h
  rw [List.mem_range] at hk'
  cases hx : (r.idx k').idxOf? s with
  | none => rw [hx] at hf; cases hf
  | some i' =>
    rw [hx] at hf
    simp only [Option.map_some, Option.some.injEq, Prod.mk.injEq] at hf
    obtain ⟨rfl, rfl⟩ := hf
    exact ⟨hk', hx⟩

theorem find?_some {r : Rep} {s : Name} {k i : Nat} (h : r.find? s = some (k, i)) :
    k < r.len ∧ (r.idx k)[i]? = some s := by
  obtain ⟨hk, hi⟩ := find?_some' h
  obtain ⟨hlt, hget, -⟩ := List.idxOf?_eq_some_iff.mp hi
  exact ⟨hk, by rw [List.getElem?_eq_getElem hlt, hget]⟩

theorem find?_none {r : Rep} {s : Name} (h : r.find? s = none) (k : Nat) : s ∉ r.idx k := by
  by_cases hk : k < r.len
  · unfold Rep.find? at h
    rw [List.findSome?_eq_none_iff] at h
    have := h k (List.mem_range.mpr hk)
    rw [Option.map_eq_none_iff, List.idxOf?_eq_none_iff] at this
    exact this
  · rw [idx_oob r (by omega)]; simp

/-- under the invariant the dictionary is exactly the position table of `indices` -/
theorem find?_of_get {r : Rep} (hI : MInv r) {s : Name} {k i : Nat} (h : (r.idx k)[i]? = some s) :
    r.find? s = some (k, i) := by
  cases hf : r.find? s with
  | none => exact absurd (List.mem_of_getElem? h) (find?_none hf k)
  | some p =>
    obtain ⟨k', i'⟩ := p
    obtain ⟨-, h'⟩ := find?_some hf
    obtain ⟨rfl, rfl⟩ := hI.uniq _ _ _ _ _ h h'
    rfl

theorem find?_iff {r : Rep} (hI : MInv r) {s : Name} {k i : Nat} :
    r.find? s = some (k, i) ↔ (r.idx k)[i]? = some s :=
  ⟨fun h => (find?_some h).2, find?_of_get hI⟩

/-- Layer A's `lookup` on `abs r` is the dictionary followed by decoding the two columns -/
theorem lookup_abs {r : Rep} (hI : MInv r) (s : Name) :
    (abs r).lookup s = (r.find? s).map (fun p => r.simpAt p.1 p.2 s) := by
  unfold Cx.lookup
  cases hf : r.find? s with
  | none =>
    rw [Option.map_none, List.find?_eq_none]
    intro t ht
    obtain ⟨k, i, h1, -⟩ := mem_abs.mp ht
    intro hn
    have hn' : t.name = s := by simpa using hn
    rw [hn'] at h1
    exact find?_none hf k (List.mem_of_getElem? h1)
  | some p =>
    obtain ⟨k, i⟩ := p
    obtain ⟨-, hget⟩ := find?_some hf
    rw [Option.map_some]
    apply find?_unique
    · exact mem_abs.mpr ⟨k, i, hget, rfl⟩
    · show (s == s) = true
      simp
    · intro t' ht' hn
      have hn' : t'.name = s := by simpa using hn
      obtain ⟨k', i', h1, h2⟩ := mem_abs.mp ht'
      rw [hn'] at h1 h2
      obtain ⟨rfl, rfl⟩ := hI.uniq _ _ _ _ _ h1 hget
      exact h2

/-! ## query refinement -/

theorem contains_abs {r : Rep} (hI : MInv r) (s : Name) : (abs r).contains s = r.contains s := by
  unfold Cx.contains Rep.contains
  rw [lookup_abs hI]; cases r.find? s <;> rfl

theorem orderOf_abs {r : Rep} (hI : MInv r) (s : Name) : (abs r).orderOf? s = r.orderOf? s := by
  unfold Cx.orderOf? Rep.orderOf?
  rw [lookup_abs hI]; cases r.find? s <;> rfl

theorem facesOf_abs {r : Rep} (hI : MInv r) (s : Name) : (abs r).facesOf s = r.faces s := by
  unfold Cx.facesOf Rep.faces
  rw [lookup_abs hI]; cases r.find? s <;> rfl

theorem basisOf_abs {r : Rep} (hI : MInv r) (s : Name) : (abs r).basisOf s = r.basisOf s := by
  unfold Cx.basisOf Rep.basisOf
  rw [lookup_abs hI]; cases r.find? s <;> rfl

/-- `indexOf` is the position in the listing of the simplex's order -/
theorem indexOf_abs {r : Rep} (hI : MInv r) (s : Name) :
    r.indexOf? s = ((abs r).orderOf? s).bind (fun k => (((abs r).ofOrder k).map (·.name)).idxOf? s) := by
  rw [orderOf_abs hI]
  unfold Rep.indexOf? Rep.orderOf?
  cases hf : r.find? s with
  | none => rfl
  | some p =>
    obtain ⟨k, i⟩ := p
    simp only [Option.map_some, Option.bind_some]
    rw [ofOrder_abs, level_names, (find?_some' hf).2]

/-- with distinct row names, membership in a decoded column is the matrix entry -/
theorem contains_decode {r : Rep} (hI : MInv r) {k i : Nat} {s : Name} (h : (r.idx k)[i]? = some s)
    (B : Mat) (c : Nat) : (decodeCol (r.idx k) B c).contains s = B.get i c := by
  rw [Bool.eq_iff_iff, List.contains_iff_mem, mem_decodeCol]
  constructor
  · rintro ⟨i', hb, h'⟩
    obtain ⟨-, rfl⟩ := hI.uniq _ _ _ _ _ h h'
    exact hb
  · intro hb; exact ⟨i, hb, h⟩

/-- `cofaces` reads the row of the boundary matrix one order up: the inverse of `faces` -/
theorem cofaces_abs {r : Rep} (hI : MInv r) (s : Name) : (abs r).cofaces s = r.cofaces s := by
  unfold Cx.cofaces Rep.cofaces
  rw [orderOf_abs hI]
  unfold Rep.orderOf?
  cases hf : r.find? s with
  | none => rfl
  | some p =>
    obtain ⟨k, i⟩ := p
    obtain ⟨hk, hget⟩ := find?_some hf
    simp only [Option.map_some]
    rw [ofOrder_abs]
    split_ifs with hmax
    · have : r.len ≤ k + 1 := by unfold Rep.maxOrder at hmax; unfold Rep.len; omega
      rw [level_oob r this]; rfl
    · symm
      unfold Rep.level
      apply filterMap_range_eq
      intro j hj
      refine ⟨rfl, ?_⟩
      show (r.facesAt (k + 1) j).contains s = _
      unfold Rep.facesAt
      rw [if_neg (by omega)]
      exact contains_decode hI hget _ _

/-! ## the maximum order -/

/-- the top order is inhabited (what the Python maintains as long as simplices are deleted cofaces-first) -/
def TopNE (r : Rep) : Prop := 0 < r.len → r.idx (r.len - 1) ≠ []

theorem maxOrder_abs_le (r : Rep) : (abs r).maxOrder ≤ r.maxOrder := by
  unfold Cx.maxOrder Rep.maxOrder
  cases hl : (abs r).simps.getLast? with
  | none => simp only; omega
  | some t =>
    simp only
    have ht : t ∈ (abs r).simps := List.mem_of_getLast? hl
    obtain ⟨k, i, h1, h2⟩ := mem_abs.mp ht
    have := lt_len_of_get h1
    have ho : t.order = k := by rw [h2]; rfl
    unfold Rep.len at this
    omega

theorem maxOrder_abs {r : Rep} (hT : TopNE r) : (abs r).maxOrder = r.maxOrder := by
  unfold Cx.maxOrder Rep.maxOrder
  cases hn : r.indices.length with
  | zero =>
    have : (abs r).simps = [] := by unfold abs Rep.len; rw [hn]; rfl
    rw [this]; rfl
  | succ n =>
    have hlen : r.len = n + 1 := hn
    have hne : r.level n ≠ [] := by
      have := hT (by omega)
      rw [hlen] at this
      intro h
      apply this
      have := congrArg List.length h
      rw [level_length] at this
      exact List.eq_nil_of_length_eq_zero this
    have hs : (abs r).simps = (List.range n).flatMap r.level ++ r.level n := by
      unfold abs; rw [hlen, flatMap_range_succ]
    rw [hs, List.getLast?_append]
    cases hl : (r.level n).getLast? with
    | none => rw [List.getLast?_eq_none_iff] at hl; exact absurd hl hne
    | some t =>
      rw [Option.some_or]; simp only
      have := level_order (List.mem_of_getLast? hl)
      rw [this]; push_cast; omega

/-! ## the boundary operator -/

/-- **the stored matrix is the face relation**: `boundaryOperator k` is, entry for entry, the matrix Layer A
computes from the face lists (`bopMat`, characterised by `bopMat_entry`). -/
theorem boundaryOperator_abs {r : Rep} (hI : MInv r) (hT : TopNE r) (k : Nat) :
    r.boundaryOperator k = bopMat (abs r) k := by
  unfold Rep.boundaryOperator bopMat
  rw [maxOrder_abs hT]
  by_cases h0 : k = 0
  · subst h0
    rw [if_pos rfl, if_pos rfl, ofOrder_abs, level_length]
    have : r.simplicesOfOrder 0 = r.idx 0 := by
      unfold Rep.simplicesOfOrder
      split_ifs with h
      · rfl
      · rw [idx_oob r (by unfold Rep.maxOrder at h; unfold Rep.len; omega)]
    rw [this]; rfl
  · rw [if_neg h0, if_neg h0]
    by_cases hmax : (k : Int) > r.maxOrder
    · rw [if_pos hmax, if_pos hmax]; rfl
    · rw [if_neg hmax, if_neg hmax]
      have hk : k < r.len := by unfold Rep.maxOrder at hmax; unfold Rep.len; omega
      obtain ⟨hm, hn⟩ := hI.bdShape k (by omega) hk
      simp only
      rw [ofOrder_abs, ofOrder_abs, level_names]
      apply ext_get (hI.isMk k hk).1 (isMk_mk _ _ _)
      · rw [mk_m, hm]
      · rw [mk_n, hn, level_length]
      · intro i j hi hj
        rw [get_mk (by omega) (by rw [level_length]; omega)]
        have hi' : i < (r.idx (k - 1)).length := by omega
        have hj' : j < (r.idx k).length := by omega
        rw [List.getElem?_eq_getElem hi', level_getElem?, List.getElem?_eq_getElem hj']
        simp only [Option.map_some]
        show _ = (r.facesAt k j).contains _
        unfold Rep.facesAt
        rw [if_neg h0]
        exact (contains_decode hI (List.getElem?_eq_getElem hi') _ _).symm

end MatRep
