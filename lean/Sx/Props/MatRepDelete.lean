import Sx.Props.MatRep
import Sx.Props.Views
import Sx.Props.Euler
import Sx.Proofs.FlatDelete
import Sx.Proofs.FlatDelete2
import Mathlib.Tactic.SplitIfs

/-! # the public `deleteSimplex` is a disciplined history of raw `forceDeleteSimplex` calls

`Props/MatRep.lean` shows that histories of primitive calls in which `forceDeleteSimplex` is only applied to
simplices without cofaces (`Disciplined`) keep `Proper`.  Here: the public `deleteSimplex(s)`
(`for t in partOf(s, reverse=True): forceDeleteSimplex(t)`) is such a history. -/

namespace Flat
set_option linter.unusedSectionVars false

/-- Layer-A discipline: every name of the list has no cofaces at the moment it is force-deleted -/
def DiscA {α : Type} [DecidableEq α] : Cx α → List α → Prop
  | _, [] => True
  | c, n :: ns => c.cofaces n = [] ∧ DiscA (c.forceDelete n) ns

section
variable {α : Type} [DecidableEq α]

/-- the head of a non-increasing, duplicate-free listing of an up-closed set has no cofaces, and deleting it
leaves a state in which the rest of the list is again such a listing -/
theorem forceDelete_head {c : Cx α} (hI : Inv c) (t : Simp α) (L : List (Simp α))
    (hL : ∀ x ∈ t :: L, x ∈ c.simps) (hnd : (t :: L).Nodup)
    (hsorted : (t :: L).Pairwise (fun a b => b.order ≤ a.order))
    (hup : UpClosed c (fun n => ∃ x ∈ t :: L, x.name = n)) :
    c.cofaces t.name = [] ∧ Inv (c.forceDelete t.name) ∧
    (∀ x ∈ L, x ∈ (c.forceDelete t.name).simps) ∧
    UpClosed (c.forceDelete t.name) (fun n => ∃ x ∈ L, x.name = n) := by
  classical
  have ht : t ∈ c.simps := hL t (List.mem_cons_self)
  rw [List.pairwise_cons] at hsorted
  rw [List.nodup_cons] at hnd
  have hmention : ∀ u ∈ c.simps, u.name ≠ t.name → t.name ∉ u.faces ∧ t.name ∉ u.basis := by
    intro u hu hne
    have hDu_absurd : (∃ x ∈ t :: L, x.name = u.name) → t.pts ⊆ u.pts → t.order < u.order → False := by
      rintro ⟨x, hx, hxn⟩ _ hlt
      have hxu : x = u := hI.name_inj (hL x hx) hu hxn
      subst hxu
      rcases List.mem_cons.mp hx with rfl | hxL
      · exact hne rfl
      · have := hsorted.1 x hxL; omega
    constructor
    · intro hf
      have hpos : 0 < u.order := by
        rcases Nat.eq_zero_or_pos u.order with h0 | hp
        · rw [(hI.point u hu h0).1] at hf; simp at hf
        · exact hp
      have hfac := (hI.faces_are_facets hu ht hpos).mp hf
      have hDu := hup u hu t.name hf ⟨t, List.mem_cons_self, rfl⟩
      exact hDu_absurd hDu hfac.2 (by omega)
    · intro hb
      obtain ⟨q, hq, hqn, hq0, hqsub⟩ := hI.basis_point u.order hu rfl t.name hb
      have hqt : q = t := hI.name_inj hq ht hqn
      subst hqt
      have hlt : q.order < u.order := by
        rcases Nat.eq_zero_or_pos u.order with h0 | hp
        · exfalso
          have := (hI.point u hu h0).2
          rw [this, List.mem_singleton] at hb
          exact hne hb.symm
        · omega
      have hDu : ∃ x ∈ q :: L, x.name = u.name :=
        UpClosed.of_subset hI hup (u.order - q.order) hq hu (by omega) hqsub ⟨q, List.mem_cons_self, rfl⟩
      exact hDu_absurd hDu hqsub hlt
  have hstep : c.forceDelete t.name = c.remove t.name := forceDelete_eq_remove hmention
  -- {t} is up-closed, so removal keeps Inv
  have hI1 : Inv (c.remove t.name) := by
    have := hI.filter_upclosed (fun n => n = t.name) (by
      intro u hu f hf hft
      by_contra hne
      exact (hmention u hu hne).1 (hft ▸ hf))
    have e : c.remove t.name = { c with simps := c.simps.filter (fun s => ¬ s.name = t.name) } := by
      unfold Cx.remove; congr 1; apply List.filter_congr; intro x _
      by_cases hx : x.name = t.name <;> simp [hx]
    rw [e]; exact this
  have hmem1 : ∀ x, x ∈ (c.remove t.name).simps ↔ x ∈ c.simps ∧ x.name ≠ t.name := by
    intro x; simp [Cx.remove, List.mem_filter]
  have hL1 : ∀ x ∈ L, x ∈ (c.remove t.name).simps := by
    intro x hx
    refine (hmem1 x).mpr ⟨hL x (List.mem_cons_of_mem _ hx), ?_⟩
    intro hn
    have : x = t := hI.name_inj (hL x (List.mem_cons_of_mem _ hx)) ht hn
    exact hnd.1 (this ▸ hx)
  have hup1 : UpClosed (c.remove t.name) (fun n => ∃ x ∈ L, x.name = n) := by
    intro u hu f hf ⟨x, hx, hxn⟩
    obtain ⟨hu1, hu2⟩ := (hmem1 u).mp hu
    obtain ⟨y, hy, hyn⟩ := hup u hu1 f hf ⟨x, List.mem_cons_of_mem _ hx, hxn⟩
    rcases List.mem_cons.mp hy with rfl | hyL
    · exact absurd hyn.symm (fun e => hu2 e)
    · exact ⟨y, hyL, hyn⟩
  rw [hstep]
  refine ⟨?_, hI1, hL1, hup1⟩
  rw [List.eq_nil_iff_forall_not_mem]
  intro n hn
  obtain ⟨u, hu, -, huo, hf⟩ := (mem_cofaces hI ht).mp hn
  have hne : u.name ≠ t.name := by
    intro e
    have : u = t := hI.name_inj hu ht e
    rw [this] at huo; omega
  exact (hmention u hu hne).1 hf

/-- **deleting an up-closed set highest orders first is disciplined**: each name has no cofaces when its
turn comes -/
theorem foldl_forceDelete_disc (L : List (Simp α)) : ∀ {c : Cx α}, Inv c →
    (∀ t ∈ L, t ∈ c.simps) → L.Nodup →
    L.Pairwise (fun a b => b.order ≤ a.order) →
    UpClosed c (fun n => ∃ t ∈ L, t.name = n) →
    DiscA c (L.map (·.name)) := by
  induction L with
  | nil => intros; trivial
  | cons t L ih =>
    intro c hI hL hnd hsorted hup
    obtain ⟨h1, h2, h3, h4⟩ := forceDelete_head hI t L hL hnd hsorted hup
    exact ⟨h1, ih h2 h3 (List.nodup_cons.mp hnd).2 (List.pairwise_cons.mp hsorted).2 h4⟩

end

/-- what `partOfRev` lists: the star of `s`, each member once, in non-increasing order (`s` last) -/
theorem partOfRev_list {c : C} (hI : Inv c) {s : Simp Name} (hs : s ∈ c.simps) :
    ∃ L : List (Simp Name), L.map (·.name) = partOfRev c c.simps.length s.name s.order ∧
      (∀ t ∈ L, t ∈ c.simps) ∧ L.Nodup ∧ L.Pairwise (fun a b => b.order ≤ a.order) ∧
      UpClosed c (fun n => ∃ t ∈ L, t.name = n) ∧
      (∀ n, (∃ t ∈ L, t.name = n) ↔ ∃ t ∈ c.simps, t.name = n ∧ s.pts ⊆ t.pts) := by
  classical
  set fuel := c.simps.length with hfuel
  have hfuelOK : ∀ t ∈ c.simps, t.order ≤ s.order + fuel := by
    intro t ht
    have h1 := order_lt_points hI ht
    have h2 : (c.ofOrder 0).length ≤ c.simps.length := List.length_filter_le _ _
    omega
  have hspec := partOfAux_spec hI hs fuel hfuelOK
  set ps := dedupL (partOfAux c fuel s.name s.order) with hps
  have hpsmem : ∀ j n, (j, n) ∈ ps ↔ ∃ t ∈ c.simps, t.name = n ∧ t.order = j ∧ s.order < j ∧ s.pts ⊆ t.pts := by
    intro j n; rw [hps, mem_dedupL]; exact hspec j n
  have hpsnd : ps.Nodup := nodup_dedupL _
  set top := (ps.map (·.1)).foldl max s.order with htop
  have htopge : ∀ p ∈ ps, p.1 ≤ top := fun p hp =>
    (foldl_max_ge _ s.order).2 p.1 (List.mem_map.mpr ⟨p, hp, rfl⟩)
  set starNames := (List.range (top + 1)).reverse.flatMap (fun j => (ps.filter (fun p => p.1 == j)).map (·.2)) with hstar
  have hstarmem : ∀ n, n ∈ starNames ↔ ∃ j, (j, n) ∈ ps := by
    intro n
    rw [hstar, List.mem_flatMap]
    constructor
    · rintro ⟨j, -, hn⟩
      obtain ⟨p, hp, rfl⟩ := List.mem_map.mp hn
      rw [List.mem_filter] at hp
      exact ⟨p.1, hp.1⟩
    · rintro ⟨j, hj⟩
      refine ⟨j, by rw [List.mem_reverse, List.mem_range]; have := htopge _ hj; omega, ?_⟩
      exact List.mem_map.mpr ⟨(j, n), List.mem_filter.mpr ⟨hj, by simp⟩, rfl⟩
  -- the simplex behind each name to delete
  have hN : ∀ n ∈ starNames ++ [s.name], ∃ t, t ∈ c.simps ∧ t.name = n ∧ s.pts ⊆ t.pts := by
    intro n hn
    rcases List.mem_append.mp hn with h | h
    · obtain ⟨j, hj⟩ := (hstarmem n).mp h
      obtain ⟨t, ht, h1, -, -, h4⟩ := (hpsmem j n).mp hj
      exact ⟨t, ht, h1, h4⟩
    · rw [List.mem_singleton] at h; subst h
      exact ⟨s, hs, rfl, Finset.Subset.refl _⟩
  have : Nonempty (Simp Name) := ⟨s⟩
  choose! g hg using hN
  set L := (starNames ++ [s.name]).map g with hL
  have hLnames : L.map (·.name) = starNames ++ [s.name] := by
    rw [hL, List.map_map]
    conv_rhs => rw [← List.map_id (starNames ++ [s.name])]
    apply List.map_congr_left
    intro n hn
    exact (hg n hn).2.1
  -- order of g n
  have hgord : ∀ j n, (j, n) ∈ ps → (g n).order = j := by
    intro j n hj
    obtain ⟨t, ht, h1, h2, -, -⟩ := (hpsmem j n).mp hj
    have hn : n ∈ starNames ++ [s.name] := List.mem_append_left _ ((hstarmem n).mpr ⟨j, hj⟩)
    have : g n = t := hI.name_inj (hg n hn).1 ht ((hg n hn).2.1.trans h1.symm)
    rw [this, h2]
  have hgs : g s.name = s := hI.name_inj (hg s.name (by simp)).1 hs (hg s.name (by simp)).2.1
  -- names are distinct
  have hNnd : (starNames ++ [s.name]).Nodup := by
    rw [List.nodup_append]
    refine ⟨?_, List.nodup_singleton _, ?_⟩
    · rw [hstar, List.nodup_flatMap]
      constructor
      · intro j _
        apply List.Nodup.map_on _ (hpsnd.filter _)
        intro p hp q hq hpq
        rw [List.mem_filter] at hp hq
        have h1 : p.1 = j := by simpa using hp.2
        have h2 : q.1 = j := by simpa using hq.2
        exact Prod.ext (h1.trans h2.symm) hpq
      · have hrn : (List.range (top + 1)).reverse.Nodup := List.nodup_reverse.mpr List.nodup_range
        refine List.Pairwise.imp_of_mem (fun {a b} _ _ hab => ?_) hrn
        intro n hna hnb
        obtain ⟨p, hp, rfl⟩ := List.mem_map.mp hna
        obtain ⟨q, hq, hqn⟩ := List.mem_map.mp hnb
        rw [List.mem_filter] at hp hq
        have h1 : p.1 = a := by simpa using hp.2
        have h2 : q.1 = b := by simpa using hq.2
        have e1 := hgord p.1 p.2 hp.1
        have e2 := hgord q.1 q.2 hq.1
        rw [hqn] at e2
        exact hab (by rw [← h1, ← h2, ← e1, ← e2])
    · intro n hn m hm
      rw [List.mem_singleton] at hm; subst hm
      intro hnm; subst hnm
      obtain ⟨j, hj⟩ := (hstarmem _).mp hn
      obtain ⟨t, ht, h1, h2, h3, -⟩ := (hpsmem j _).mp hj
      have : t = s := hI.name_inj ht hs h1
      rw [this] at h2; omega
  have hLnd : L.Nodup := by
    rw [hL]
    apply List.Nodup.map_on _ hNnd
    intro a ha b hb hab
    rw [← (hg a ha).2.1, ← (hg b hb).2.1, hab]
  have hLmem : ∀ t ∈ L, t ∈ c.simps := by
    intro t ht
    obtain ⟨n, hn, rfl⟩ := List.mem_map.mp ht
    exact (hg n hn).1
  have hLsorted : L.Pairwise (fun a b => b.order ≤ a.order) := by
    rw [hL, List.map_append, List.pairwise_append]
    refine ⟨?_, by simp, ?_⟩
    · rw [List.pairwise_map, hstar, List.pairwise_flatMap]
      constructor
      · intro j _
        rw [List.pairwise_map]
        refine List.Pairwise.imp_of_mem (fun {p q} hp hq _ => ?_)
          (List.pairwise_of_forall (R := fun _ _ => True) (fun _ _ => trivial))
        rw [List.mem_filter] at hp hq
        have h1 : p.1 = j := by simpa using hp.2
        have h2 : q.1 = j := by simpa using hq.2
        rw [hgord p.1 p.2 hp.1, hgord q.1 q.2 hq.1]; omega
      · rw [List.pairwise_reverse]
        refine List.Pairwise.imp_of_mem (fun {a b} _ _ hab => ?_) (List.pairwise_lt_range (n := top + 1))
        intro x hx y hy
        obtain ⟨p, hp, rfl⟩ := List.mem_map.mp hx
        obtain ⟨q, hq, rfl⟩ := List.mem_map.mp hy
        rw [List.mem_filter] at hp hq
        have h1 : p.1 = b := by simpa using hp.2
        have h2 : q.1 = a := by simpa using hq.2
        rw [hgord p.1 p.2 hp.1, hgord q.1 q.2 hq.1]; omega
    · intro a ha b hb
      obtain ⟨n, hn, rfl⟩ := List.mem_map.mp ha
      simp only [List.map_cons, List.map_nil, List.mem_singleton] at hb
      subst hb
      obtain ⟨j, hj⟩ := (hstarmem n).mp hn
      obtain ⟨t, ht, h1, h2, h3, -⟩ := (hpsmem j n).mp hj
      rw [hgs, hgord j n hj]; omega
  -- membership of L = the star of s
  have hLstar : ∀ n, (∃ t ∈ L, t.name = n) ↔ ∃ t ∈ c.simps, t.name = n ∧ s.pts ⊆ t.pts := by
    intro n
    constructor
    · rintro ⟨t, ht, rfl⟩
      obtain ⟨m, hm, rfl⟩ := List.mem_map.mp ht
      exact ⟨g m, (hg m hm).1, rfl, (hg m hm).2.2⟩
    · rintro ⟨t, ht, rfl, hsub⟩
      have hmemN : t.name ∈ starNames ++ [s.name] := by
        by_cases hts : t = s
        · rw [hts]; simp
        · apply List.mem_append_left
          apply (hstarmem t.name).mpr
          refine ⟨t.order, (hpsmem t.order t.name).mpr ⟨t, ht, rfl, rfl, ?_, hsub⟩⟩
          -- strict: t ≠ s with s ⊆ t forces a larger order
          by_contra hle
          have hc := Finset.card_le_card hsub
          rw [hI.pts_card hs, hI.pts_card ht] at hc
          have hoe : t.order = s.order := by omega
          apply hts
          apply hI.uniq t ht s hs hoe
          have heq : s.pts = t.pts := Finset.eq_of_subset_of_card_le hsub (by
            rw [hI.pts_card hs, hI.pts_card ht, hoe])
          intro p
          have := Finset.ext_iff.mp heq p
          simp only [Simp.pts, List.mem_toFinset] at this
          exact this.symm
      refine ⟨g t.name, List.mem_map.mpr ⟨t.name, hmemN, rfl⟩, (hg _ hmemN).2.1⟩
  have hup : UpClosed c (fun n => ∃ t ∈ L, t.name = n) := by
    intro t ht f hf hD
    rw [hLstar] at hD ⊢
    obtain ⟨u, hu, hun, hsub⟩ := hD
    have := star_upclosed hI s.pts t ht f hf ⟨u, hu, hun, hsub⟩
    exact this
  exact ⟨L, hLnames, hLmem, hLnd, hLsorted, hup, hLstar⟩

/-- the public `deleteSimplex` at Layer A is a disciplined list of raw deletions -/
theorem partOfRev_disc {c : C} (hI : Inv c) {s : Simp Name} (hs : s ∈ c.simps) :
    DiscA c (partOfRev c c.simps.length s.name s.order) := by
  obtain ⟨L, h1, h2, h3, h4, h5, -⟩ := partOfRev_list hI hs
  rw [← h1]
  exact foldl_forceDelete_disc L hI h2 h3 h4 h5

end Flat

namespace MatRep
open Flat M2

/-- the public `deleteSimplex` at Layer R: raw deletions of the star, highest order first, `s` last -/
def Rep.deleteCalls (r : Rep) (s : Name) : List RCall :=
  match (abs r).orderOf? s with
  | none => []
  | some k => (partOfRev (abs r) (abs r).simps.length s k).map RCall.delete

theorem foldl_stepA_delete (ns : List Name) (c : C) :
    (ns.map RCall.delete).foldl stepA c = ns.foldl Cx.forceDelete c := by
  rw [List.foldl_map]; rfl

/-- a list of raw deletions: the two layers stay in correspondence -/
theorem deletes_refine {r : Rep} (hI : MInv r) (ns : List Name) :
    MInv ((ns.map RCall.delete).foldl stepR r) ∧
    abs ((ns.map RCall.delete).foldl stepR r) = ns.foldl Cx.forceDelete (abs r) := by
  obtain ⟨h1, h2⟩ := run_refines (ns.map RCall.delete) hI
  exact ⟨h1, by rw [h2, foldl_stepA_delete]⟩

/-- discipline of a list of raw deletions can be checked at Layer A -/
theorem disciplined_deletes : ∀ (ns : List Name) {r : Rep}, MInv r →
    (Disciplined r (ns.map RCall.delete) ↔ DiscA (abs r) ns) := by
  intro ns
  induction ns with
  | nil => intro r _; exact Iff.rfl
  | cons n ns ih =>
    intro r hI
    obtain ⟨ha, hI'⟩ := forceDelete_refines hI n
    have hc : r.cofaces n = (abs r).cofaces n := (queries_refine hI n).2.2.1
    simp only [List.map_cons, Disciplined, DiscA, RCall.okAt, stepR]
    rw [hc, ih hI', ha]

/-- **(2)** the expansion of the public `deleteSimplex` refines Layer A's `deleteSimplex`
(an unknown name: no calls / `none`, the state is unchanged) -/
theorem deleteCalls_refines {r : Rep} (hI : MInv r) (s : Name) :
    abs ((r.deleteCalls s).foldl stepR r) = ((deleteSimplex (abs r) s).getD (abs r)) := by
  unfold Rep.deleteCalls deleteSimplex
  cases h : (abs r).orderOf? s with
  | none => rfl
  | some k =>
    simp only [Option.getD_some]
    exact (deletes_refine hI _).2

/-- the invariant is kept as well -/
theorem deleteCalls_MInv {r : Rep} (hI : MInv r) (s : Name) : MInv ((r.deleteCalls s).foldl stepR r) :=
  (run_refines _ hI).1

/-- **(1)** the public `deleteSimplex` is disciplined: each raw deletion is applied to a simplex that has no
cofaces at that moment -/
theorem deleteCalls_disciplined {r : Rep} (hI : MInv r) (hA : Inv (abs r)) (s : Name) :
    Disciplined r (r.deleteCalls s) := by
  unfold Rep.deleteCalls
  cases h : (abs r).orderOf? s with
  | none => trivial
  | some k =>
    simp only
    obtain ⟨t, ht, rfl, rfl, -⟩ := orderOf_some h
    rw [disciplined_deletes _ hI]
    exact partOfRev_disc hA ht

/-- **(3)** the public `deleteSimplex` keeps `Proper` -/
theorem public_delete_proper {r : Rep} (hI : MInv r) (hA : Inv (abs r)) (hP : Proper r) (s : Name) :
    Proper ((r.deleteCalls s).foldl stepR r) :=
  run_proper _ hI hP (deleteCalls_disciplined hI hA s)


/-! ## worked examples -/

instance decOkAt (r : Rep) : (c : RCall) → Decidable (c.okAt r)
  | .delete s => inferInstanceAs (Decidable (r.cofaces s = []))
  | .add _ _ => isTrue trivial
  | .relabel _ _ => isTrue trivial

def decDisc : (cs : List RCall) → (r : Rep) → Decidable (Disciplined r cs)
  | [], _ => isTrue trivial
  | c :: cs, r => @instDecidableAnd _ _ (decOkAt r c) (decDisc cs (stepR r c))

instance (r : Rep) (cs : List RCall) : Decidable (Disciplined r cs) := decDisc cs r

/-- the names the public `deleteSimplex` force-deletes, in order -/
def Rep.deleteNames (r : Rep) (s : Name) : List Name :=
  (r.deleteCalls s).filterMap (fun c => match c with | .delete n => some n | _ => none)

/-- on the triangle `exR`: deleting the point `1` deletes the triangle, then its two edges, then the point;
deleting the edge `11` deletes the triangle, then the edge -/
example : exR.deleteNames (.u 1) = [.u 20, .u 10, .u 11, .u 1] ∧ exR.deleteNames (.u 11) = [.u 20, .u 11] ∧
    exR.cofaces (.u 1) = [.u 10, .u 11] := by decide

/-- `Disciplined` holds for `deleteCalls` on `exR` with simplices that have cofaces (checked by evaluation) -/
example : Disciplined exR (exR.deleteCalls (.u 1)) ∧ Disciplined exR (exR.deleteCalls (.u 11)) := by decide

/-- the raw order matters: the same deletions lowest order first are not disciplined -/
example : ¬ Disciplined exR [.delete (.u 11), .delete (.u 20)] := by decide

theorem exR_inv : Inv (abs exR) := Inv_of_InvD (by decide)

theorem exR_proper : Proper exR :=
  reachable_proper exCalls (disciplined_take exCalls2 _ 7 exCalls2_disciplined)

/-- the hypotheses of (1)–(3) are satisfiable on a non-trivial state -/
example : MInv exR ∧ Inv (abs exR) ∧ Proper exR := ⟨(reachable_MInv exCalls).1, exR_inv, exR_proper⟩

/-- the state after the public deletion of the point `1`: the point `0`, `2` and the edge `12` are left -/
example : ((exR.deleteCalls (.u 1)).foldl stepR exR).indices = [[.u 0, .u 2], [.u 12]] ∧
    (((deleteSimplex (abs exR) (.u 1)).getD (abs exR)).simps.map (·.name)) = [.u 0, .u 2, .u 12] := by decide

/-! ## (4) histories of public calls -/

/-- the public mutators -/
inductive PCall
  | add (fs : List Name) (id : Name)
  | relabel (s q : Name)
  | delete (s : Name)

/-- the primitive calls a public call makes in state `r` -/
def expand (r : Rep) : PCall → List RCall
  | .add fs id => [.add fs id]
  | .relabel s q => [.relabel s q]
  | .delete s => r.deleteCalls s

/-- one public call -/
def stepP (r : Rep) (c : PCall) : Rep := (expand r c).foldl stepR r

/-- a history of public calls from the empty representation, each expanded in the state reached -/
def runP (cs : List PCall) : Rep := cs.foldl stepP Rep.empty

theorem runP_snoc (cs : List PCall) (c : PCall) : runP (cs ++ [c]) = stepP (runP cs) c := by
  unfold runP; rw [List.foldl_append]; rfl

theorem stepP_MInv {r : Rep} (hI : MInv r) (c : PCall) : MInv (stepP r c) := (run_refines _ hI).1

theorem stepP_proper {r : Rep} (hI : MInv r) (hA : Inv (abs r)) (hP : Proper r) (c : PCall) :
    Proper (stepP r c) := by
  cases c with
  | add fs id => exact step_proper hI hP (c := .add fs id) trivial
  | relabel s q => exact step_proper hI hP (c := .relabel s q) trivial
  | delete s => exact public_delete_proper hI hA hP s

/-- every public call is a disciplined list of primitive calls -/
theorem expand_disciplined {r : Rep} (hI : MInv r) (hA : Inv (abs r)) (c : PCall) :
    Disciplined r (expand r c) := by
  cases c with
  | add fs id => exact ⟨trivial, trivial⟩
  | relabel s q => exact ⟨trivial, trivial⟩
  | delete s => exact deleteCalls_disciplined hI hA s

/-- **(4)** a history of public calls all of whose intermediate states abstract to a state satisfying `Inv`
ends in a `Proper` state (no `TopNE`/`Disciplined` side condition) -/
theorem public_history_proper (cs : List PCall) (hInv : ∀ n, Inv (abs (runP (cs.take n)))) :
    MInv (runP cs) ∧ Proper (runP cs) := by
  induction cs using List.reverseRecOn with
  | nil => exact ⟨MInv_empty, proper_empty⟩
  | append_singleton cs c ih =>
    have hpre : ∀ n, Inv (abs (runP (cs.take n))) := by
      intro n
      by_cases hn : n ≤ cs.length
      · have := hInv n; rwa [List.take_append_of_le_length hn] at this
      · have := hInv cs.length
        rw [List.take_append_of_le_length (Nat.le_refl _), List.take_length] at this
        rwa [List.take_of_length_le (by omega)]
    obtain ⟨hI, hP⟩ := ih hpre
    have hA : Inv (abs (runP cs)) := by
      have := hpre cs.length; rwa [List.take_length] at this
    rw [runP_snoc]
    exact ⟨stepP_MInv hI c, stepP_proper hI hA hP c⟩

/-- …hence the stored boundary operators are the face relation of the abstraction, for every `k`, the two
layers agree on `maxOrder`, and the next `addSimplex` is answered identically -/
theorem public_history_boundaryOperator (cs : List PCall) (hInv : ∀ n, Inv (abs (runP (cs.take n)))) (k : Nat) :
    (runP cs).boundaryOperator k = bopMat (abs (runP cs)) k ∧
    (runP cs).maxOrder = (abs (runP cs)).maxOrder ∧
    ∀ fs id, ((runP cs).addSimplex fs id).map abs = (abs (runP cs)).addSimplex fs id := by
  obtain ⟨hI, hP⟩ := public_history_proper cs hInv
  exact ⟨boundaryOperator_abs hI hP.topNE k, (maxOrder_abs hP.topNE).symm,
    fun fs id => addSimplex_abs hI (maxOrder_abs hP.topNE) fs id⟩

/-- a public history: the triangle, then `deleteSimplex` of a point -/
def exP : List PCall :=
  [.add [] (.u 0), .add [] (.u 1), .add [] (.u 2),
   .add [.u 0, .u 1] (.u 10), .add [.u 1, .u 2] (.u 11), .add [.u 2, .u 0] (.u 12),
   .add [.u 10, .u 11, .u 12] (.u 20), .delete (.u 1)]

example : (runP exP).indices = [[.u 0, .u 2], [.u 12]] := by decide

/-- the hypothesis of (4) is satisfiable on it: every intermediate state satisfies `Inv` -/
theorem exP_inv : ∀ n, Inv (abs (runP (exP.take n))) := by
  intro n
  by_cases h : n < 9
  · have hall : ∀ m, m < 9 → InvD (abs (runP (exP.take m))) := by decide
    exact Inv_of_InvD (hall n h)
  · have hlen : exP.length ≤ n := by
      have : exP.length = 8 := rfl
      omega
    rw [List.take_of_length_le hlen]
    exact Inv_of_InvD (by decide)

example : Proper (runP exP) := (public_history_proper exP exP_inv).2

end MatRep
