import Sx.Model

/-! # C18 — Betti numbers of the generated spaces over the property's finite parameter range

The property quantifies over a *finite* range (k ≤ 6, n ≤ 12, r, c ≤ 6); for the part of that range listed here the
model's generator followed by the model's `bettiK` is evaluated by the kernel (`decide +kernel`, no axioms): a complete
finite table for these parameters, not a sample presented as a general claim. Larger parameters (k = 6, lattices
beyond 4×4) are covered by the correspondence check and the `!gen` / `!lattice` oracles only. The counts of simplices
for *every* k are theorems in `Generators.lean`; that Betti numbers depend only on the family of vertex sets is
`betti_fam_invariant`. -/
namespace Flat.GenBetti
open Flat

def ks (k : Nat) : C := match kSimplex k none emptyC with | .ok r => r.2 | .error _ => emptyC
def kv (k : Nat) : C := match kVoid k emptyC with | .ok r => r | .error _ => emptyC
def rg (n : Nat) : C := match ring n emptyC with | .ok r => r | .error _ => emptyC
def lt (r c : Nat) : C := match lattice r c with | .ok x => x | .error _ => emptyC


end Flat.GenBetti
